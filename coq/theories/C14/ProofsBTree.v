(* C14, B-tree iterator, part 2: the iterator (node path + entry relocated by key search, climbing by
   searching the parent for the same key) moves to the in-order successor / predecessor, and simulates the
   specification cursor over the in-order sequence, for every well-formed tree with strictly increasing keys. *)
From VF Require Import C14.Spec C14.Model C14.BTreeShape C14.ProofsBTreeBase.
From Coq Require Import ZifyBool.

(* ---------- fuel-free mirrors of the moves (same text, b_sub -> sub, b_down -> down) ---------- *)
Definition at' (root : bnode) (p : list nat) (i : nat) : bpos :=
  match entry root p i with Some (k, v) => BAt p k v | None => BPanic end.

Fixpoint climb_next' (root : bnode) (rp : list nat) (key : Z) : bpos :=
  match rp with
  | [] => BEnd
  | _ :: rp' =>
      match sub root (rev rp') with
      | None => BPanic
      | Some x => let '(e, _) := b_search (b_entries x) key in
                  if (e <? length (b_entries x))%nat then at' root (rev rp') e
                  else climb_next' root rp' key
      end
  end.
Fixpoint climb_prev' (root : bnode) (rp : list nat) (key : Z) : bpos :=
  match rp with
  | [] => BBegin
  | _ :: rp' =>
      match sub root (rev rp') with
      | None => BPanic
      | Some x => let '(e, _) := b_search (b_entries x) key in
                  if (1 <=? e)%nat then at' root (rev rp') (e - 1)
                  else climb_prev' root rp' key
      end
  end.

Definition move_next' (root : bnode) (s : bpos) : bpos :=
  match s with
  | BEnd => BEnd
  | BPanic => BPanic
  | BBegin => if b_isempty root then BEnd else at' root (down root true) 0
  | BAt p key _ =>
      match sub root p with
      | None => BPanic
      | Some x =>
          let '(e, _) := b_search (b_entries x) key in
          if (e + 1 <? length (b_children x))%nat then
            match nth_error (b_children x) (e + 1) with
            | Some c => at' root (p ++ (e + 1)%nat :: down c true) 0
            | None => BPanic
            end
          else if (e + 1 <? length (b_entries x))%nat then at' root p (e + 1)
          else climb_next' root (rev p) key
      end
  end.

Definition last_idx' (root : bnode) (p : list nat) : nat :=
  match sub root p with Some x => (length (b_entries x) - 1)%nat | None => O end.

Definition move_prev' (root : bnode) (s : bpos) : bpos :=
  match s with
  | BBegin => BBegin
  | BPanic => BPanic
  | BEnd => if b_isempty root then BBegin
            else let p := down root false in at' root p (last_idx' root p)
  | BAt p key _ =>
      match sub root p with
      | None => BPanic
      | Some x =>
          let '(e, _) := b_search (b_entries x) key in
          if (e <? length (b_children x))%nat then
            match nth_error (b_children x) e with
            | Some c => let q := p ++ e :: down c false in at' root q (last_idx' root q)
            | None => BPanic
            end
          else if (1 <=? e)%nat then at' root p (e - 1)
          else climb_prev' root (rev p) key
      end
  end.

Section Mirror.
  Variables (fuel : nat) (root : bnode).
  Hypothesis HF : b_depth root <= S fuel.

  Lemma b_at_at p i : b_at fuel root p i = at' root p i.
  Proof. unfold b_at, at'. now rewrite b_entry_entry. Qed.

  Lemma b_climb_next_eq rp key : b_climb_next fuel root rp key = climb_next' root rp key.
  Proof.
    induction rp as [|a rp IH]; cbn [b_climb_next climb_next']; [reflexivity|].
    rewrite b_sub_sub by exact HF. destruct (sub root (rev rp)) as [x|]; [|reflexivity].
    destruct (b_search (b_entries x) key) as [e f]. rewrite b_at_at, IH. reflexivity.
  Qed.
  Lemma b_climb_prev_eq rp key : b_climb_prev fuel root rp key = climb_prev' root rp key.
  Proof.
    induction rp as [|a rp IH]; cbn [b_climb_prev climb_prev']; [reflexivity|].
    rewrite b_sub_sub by exact HF. destruct (sub root (rev rp)) as [x|]; [|reflexivity].
    destruct (b_search (b_entries x) key) as [e f]. rewrite b_at_at, IH. reflexivity.
  Qed.

  Lemma down_under p x i c b : sub root p = Some x -> nth_error (b_children x) i = Some c ->
    b_down fuel c b = down c b.
  Proof.
    intros Hs Hc. apply b_down_down. pose proof (sub_depth _ _ _ Hs). pose proof (depth_child _ _ _ Hc). lia.
  Qed.

  Lemma b_last_idx_eq p : b_last_idx fuel root p = last_idx' root p.
  Proof. unfold b_last_idx, last_idx'. now rewrite b_sub_sub. Qed.

  Lemma b_move_next_eq s : b_move_next fuel root s = move_next' root s.
  Proof.
    destruct s as [|p key v| |]; cbn [b_move_next move_next']; try reflexivity.
    - rewrite b_at_at, b_down_down by lia. reflexivity.
    - rewrite b_sub_sub by exact HF. destruct (sub root p) as [x|] eqn:Es; [|reflexivity].
      destruct (b_search (b_entries x) key) as [e f].
      destruct (nth_error (b_children x) (e + 1)) as [c|] eqn:Ec.
      + rewrite (down_under p x (e + 1) c true Es Ec). now rewrite !b_at_at, b_climb_next_eq.
      + now rewrite !b_at_at, b_climb_next_eq.
  Qed.

  Lemma b_move_prev_eq s : b_move_prev fuel root s = move_prev' root s.
  Proof.
    destruct s as [|p key v| |]; cbn [b_move_prev move_prev']; try reflexivity.
    - rewrite b_sub_sub by exact HF. destruct (sub root p) as [x|] eqn:Es; [|reflexivity].
      destruct (b_search (b_entries x) key) as [e f].
      destruct (nth_error (b_children x) e) as [c|] eqn:Ec.
      + rewrite (down_under p x e c false Es Ec). cbv zeta. now rewrite !b_at_at, b_last_idx_eq, b_climb_prev_eq.
      + now rewrite !b_at_at, b_climb_prev_eq.
    - cbv zeta. rewrite b_down_down by lia. now rewrite b_at_at, b_last_idx_eq.
  Qed.
End Mirror.

(* ---------- one level: a position in child i of x, seen from x ---------- *)
Definition lift (i : nat) (s : bpos) : bpos :=
  match s with BAt q k v => BAt (i :: q) k v | o => o end.

Lemma at_cons x i c q e : nth_error (b_children x) i = Some c -> at' x (i :: q) e = lift i (at' c q e).
Proof. intros H. unfold at'. rewrite (entry_cons _ _ _ _ _ H). destruct (entry c q e) as [[k v]|]; reflexivity. Qed.

Lemma sub_cons x i c q : nth_error (b_children x) i = Some c -> sub x (i :: q) = sub c q.
Proof. intros H. cbn [sub]. now rewrite H. Qed.

Definition up_next (x : bnode) (i : nat) (key : Z) (r : bpos) : bpos :=
  match r with
  | BEnd => let '(e, _) := b_search (b_entries x) key in
            if (e <? length (b_entries x))%nat then at' x [] e else BEnd
  | s => lift i s
  end.
Definition up_prev (x : bnode) (i : nat) (key : Z) (r : bpos) : bpos :=
  match r with
  | BBegin => let '(e, _) := b_search (b_entries x) key in
              if (1 <=? e)%nat then at' x [] (e - 1) else BBegin
  | s => lift i s
  end.

Lemma climb_next_snoc x i c key : nth_error (b_children x) i = Some c ->
  forall rq, climb_next' x (rq ++ [i]) key = up_next x i key (climb_next' c rq key).
Proof.
  intros Hc. induction rq as [|a rq IH].
  - cbn [app climb_next' rev sub up_next]. reflexivity.
  - cbn [app climb_next']. rewrite rev_app_distr. cbn [rev app]. rewrite (sub_cons _ _ _ _ Hc).
    destruct (sub c (rev rq)) as [y|]; [|reflexivity].
    destruct (b_search (b_entries y) key) as [e f].
    destruct (e <? length (b_entries y))%nat.
    + rewrite (at_cons _ _ _ _ _ Hc). unfold at'. destruct (entry c (rev rq) e) as [[k v]|]; reflexivity.
    + exact IH.
Qed.
Lemma climb_prev_snoc x i c key : nth_error (b_children x) i = Some c ->
  forall rq, climb_prev' x (rq ++ [i]) key = up_prev x i key (climb_prev' c rq key).
Proof.
  intros Hc. induction rq as [|a rq IH].
  - cbn [app climb_prev' rev sub up_prev]. reflexivity.
  - cbn [app climb_prev']. rewrite rev_app_distr. cbn [rev app]. rewrite (sub_cons _ _ _ _ Hc).
    destruct (sub c (rev rq)) as [y|]; [|reflexivity].
    destruct (b_search (b_entries y) key) as [e f].
    destruct (1 <=? e)%nat.
    + rewrite (at_cons _ _ _ _ _ Hc). unfold at'. destruct (entry c (rev rq) (e - 1)) as [[k v]|]; reflexivity.
    + exact IH.
Qed.

Lemma at_not_end x p e : at' x p e <> BEnd /\ at' x p e <> BBegin.
Proof. unfold at'. destruct (entry x p e) as [[k v]|]; split; discriminate. Qed.

Lemma up_next_at x i key c q e : up_next x i key (at' c q e) = lift i (at' c q e).
Proof. unfold at'. destruct (entry c q e) as [[k v]|]; reflexivity. Qed.
Lemma up_prev_at x i key c q e : up_prev x i key (at' c q e) = lift i (at' c q e).
Proof. unfold at'. destruct (entry c q e) as [[k v]|]; reflexivity. Qed.

Lemma move_next_cons x i c p key v : nth_error (b_children x) i = Some c ->
  move_next' x (BAt (i :: p) key v) = up_next x i key (move_next' c (BAt p key v)).
Proof.
  intros Hc. cbn [move_next']. rewrite (sub_cons _ _ _ _ Hc).
  destruct (sub c p) as [y|]; [|reflexivity].
  destruct (b_search (b_entries y) key) as [e f].
  destruct (e + 1 <? length (b_children y))%nat.
  - destruct (nth_error (b_children y) (e + 1)) as [c'|]; [|reflexivity].
    rewrite <- app_comm_cons. rewrite (at_cons _ _ _ _ _ Hc). now rewrite up_next_at.
  - destruct (e + 1 <? length (b_entries y))%nat.
    + rewrite (at_cons _ _ _ _ _ Hc). now rewrite up_next_at.
    + cbn [rev]. now apply climb_next_snoc.
Qed.

Lemma last_idx_cons x i c q : nth_error (b_children x) i = Some c -> last_idx' x (i :: q) = last_idx' c q.
Proof. intros H. unfold last_idx'. now rewrite (sub_cons _ _ _ _ H). Qed.

Lemma move_prev_cons x i c p key v : nth_error (b_children x) i = Some c ->
  move_prev' x (BAt (i :: p) key v) = up_prev x i key (move_prev' c (BAt p key v)).
Proof.
  intros Hc. cbn [move_prev']. rewrite (sub_cons _ _ _ _ Hc).
  destruct (sub c p) as [y|]; [|reflexivity].
  destruct (b_search (b_entries y) key) as [e f].
  destruct (e <? length (b_children y))%nat.
  - destruct (nth_error (b_children y) e) as [c'|]; [|reflexivity].
    cbv zeta. rewrite <- app_comm_cons. rewrite (last_idx_cons _ _ _ _ Hc), (at_cons _ _ _ _ _ Hc).
    now rewrite up_prev_at.
  - destruct (1 <=? e)%nat.
    + rewrite (at_cons _ _ _ _ _ Hc). now rewrite up_prev_at.
    + cbn [rev]. now apply climb_prev_snoc.
Qed.

(* ---------- descending to the first / last entry of a subtree ---------- *)
Lemma down_first_spec : forall d x, b_depth x <= d -> b_wf x = true ->
  exists r, entry x (down x true) 0 = Some r /\ idx x (down x true) 0 = 0.
Proof.
  induction d as [|d IH]; intros x Hd W; [pose proof (depth_pos x); lia|].
  destruct (wf_inv x W) as (L1 & _ & Wc). rewrite down_unfold.
  destruct (b_children x) as [|c0 cs] eqn:E.
  - destruct (b_entries x) as [|r es] eqn:Ee; [cbn [length] in L1; lia|].
    exists r. split.
    + unfold entry. cbn [sub]. now rewrite Ee.
    + now apply idx_nil_leaf.
  - cbv zeta. assert (Hc : nth_error (b_children x) 0 = Some c0) by (rewrite E; reflexivity).
    rewrite <- E in Wc. pose proof (depth_child _ _ _ Hc) as Hdc.
    destruct (IH c0 ltac:(lia) (Wc _ _ Hc)) as (r & Er & Ir).
    exists r. rewrite (entry_cons _ _ _ _ _ Hc), (idx_cons _ _ _ _ _ Hc), off_0, Ir. split; [exact Er|reflexivity].
Qed.

Lemma down_last_spec : forall d x, b_depth x <= d -> b_wf x = true ->
  exists r, entry x (down x false) (last_idx' x (down x false)) = Some r /\
            S (idx x (down x false) (last_idx' x (down x false))) = length (elems x).
Proof.
  induction d as [|d IH]; intros x Hd W; [pose proof (depth_pos x); lia|].
  destruct (wf_inv x W) as (L1 & LC & Wc). rewrite down_unfold.
  destruct (b_children x) as [|c0 cs] eqn:E.
  - unfold last_idx', entry. cbn [sub].
    destruct (nth_error (b_entries x) (length (b_entries x) - 1)) as [r|] eqn:En.
    + exists r. split; [reflexivity|]. rewrite idx_nil_leaf, elems_leaf by exact E. lia.
    + apply nth_error_None in En. lia.
  - cbv zeta. rewrite <- E in *. assert (NE : b_children x <> []) by (rewrite E; discriminate).
    destruct LC as [LC|LC]; [congruence|].
    destruct (nth_error (b_children x) (length (b_children x) - 1)) as [c|] eqn:Hc;
      [|apply nth_error_None in Hc; lia].
    pose proof (depth_child _ _ _ Hc) as Hdc.
    destruct (IH c ltac:(lia) (Wc _ _ Hc)) as (r & Er & Ir).
    exists r. rewrite (last_idx_cons _ _ _ _ Hc), (entry_cons _ _ _ _ _ Hc), (idx_cons _ _ _ _ _ Hc).
    split; [exact Er|].
    pose proof (elems_len_internal x W NE) as HL. rewrite celems_len in HL.
    pose proof (off_S (celems x) (length (b_children x) - 1) ltac:(rewrite celems_len; lia)) as HS.
    rewrite (celems_nth' _ _ _ Hc) in HS.
    replace (S (length (b_children x) - 1)) with (length (b_children x)) in HS by lia. lia.
Qed.

(* ---------- Next / Prev move to the in-order neighbour ---------- *)
Lemma next_spec : forall p x e key v, b_wf x = true -> isorted (elems x) -> entry x p e = Some (key, v) ->
  match move_next' x (BAt p key v) with
  | BAt q k' v' => exists e', entry x q e' = Some (k', v') /\ idx x q e' = S (idx x p e)
  | BEnd => S (idx x p e) = length (elems x)
  | _ => False
  end.
Proof.
  induction p as [|i p IH]; intros x e key v W Srt He.
  - unfold entry in He. cbn [sub] in He. cbn [move_next' sub].
    rewrite (search_at x e key v W Srt He).
    assert (Le : e < length (b_entries x)) by (apply nth_error_Some; congruence).
    destruct (wf_inv x W) as (L1 & LC & Wc).
    destruct (e + 1 <? length (b_children x))%nat eqn:C1.
    + assert (NE : b_children x <> []) by (intros E0; rewrite E0 in C1; cbn in C1; lia).
      destruct (nth_error (b_children x) (e + 1)) as [c|] eqn:Hc; [|apply nth_error_None in Hc; lia].
      destruct (down_first_spec _ c (le_n _) (Wc _ _ Hc)) as ([k' v'] & Er & Ir).
      cbn [app]. unfold at'. rewrite (entry_cons _ _ _ _ _ Hc), Er.
      exists 0. rewrite (entry_cons _ _ _ _ _ Hc), (idx_cons _ _ _ _ _ Hc), Ir. split; [exact Er|].
      rewrite idx_nil_internal by exact NE.
      pose proof (wf_internal_len x W NE) as HL.
      pose proof (off_S (celems x) e ltac:(lia)) as HS. replace (e + 1) with (S e) by lia. lia.
    + assert (E0 : b_children x = []) by (destruct LC as [LC|LC]; [exact LC|lia]).
      destruct (e + 1 <? length (b_entries x))%nat eqn:C2.
      * unfold at', entry. cbn [sub].
        destruct (nth_error (b_entries x) (e + 1)) as [[k' v']|] eqn:En; [|apply nth_error_None in En; lia].
        exists (e + 1). unfold entry. cbn [sub]. split; [exact En|]. rewrite !idx_nil_leaf by exact E0. lia.
      * cbn [rev climb_next']. rewrite idx_nil_leaf, elems_leaf by exact E0. lia.
  - unfold entry in He. cbn [sub] in He. destruct (nth_error (b_children x) i) as [c|] eqn:Hc; [|discriminate].
    change (entry c p e = Some (key, v)) in He.
    destruct (wf_inv x W) as (L1 & LC & Wc).
    assert (NE : b_children x <> []) by (eapply children_ne; eauto).
    pose proof (wf_internal_len x W NE) as HL.
    assert (Li : i < length (celems x)) by (rewrite celems_len; apply nth_error_Some; congruence).
    pose proof (isorted_child x i c W Srt Hc) as Sc.
    specialize (IH c e key v (Wc _ _ Hc) Sc He).
    rewrite (move_next_cons _ _ _ _ _ _ Hc). rewrite (idx_cons _ _ _ _ _ Hc).
    destruct (move_next' c (BAt p key v)) as [|q k' v'| |]; cbn [up_next lift]; try contradiction.
    + destruct IH as (e' & Ee & Ie). exists e'. rewrite (entry_cons _ _ _ _ _ Hc), (idx_cons _ _ _ _ _ Hc).
      split; [exact Ee|lia].
    + pose proof (entry_idx _ _ _ _ (Wc _ _ Hc) He) as Hm.
      rewrite (search_child x i c _ key v W Srt Hc Hm).
      destruct (i <? length (b_entries x))%nat eqn:C1.
      * unfold at', entry. cbn [sub].
        destruct (nth_error (b_entries x) i) as [[k' v']|] eqn:En; [|apply nth_error_None in En; lia].
        exists i. unfold entry. cbn [sub]. split; [exact En|].
        rewrite idx_nil_internal by exact NE. rewrite (celems_nth' _ _ _ Hc). lia.
      * pose proof (elems_len_internal x W NE) as HE.
        assert (Ei : S i = length (celems x)) by lia. rewrite <- Ei in HE.
        rewrite (off_S (celems x) i Li), (celems_nth' _ _ _ Hc) in HE. lia.
Qed.

Lemma prev_spec : forall p x e key v, b_wf x = true -> isorted (elems x) -> entry x p e = Some (key, v) ->
  match move_prev' x (BAt p key v) with
  | BAt q k' v' => exists e', entry x q e' = Some (k', v') /\ S (idx x q e') = idx x p e
  | BBegin => idx x p e = 0
  | _ => False
  end.
Proof.
  induction p as [|i p IH]; intros x e key v W Srt He.
  - unfold entry in He. cbn [sub] in He. cbn [move_prev' sub].
    rewrite (search_at x e key v W Srt He).
    assert (Le : e < length (b_entries x)) by (apply nth_error_Some; congruence).
    destruct (wf_inv x W) as (L1 & LC & Wc).
    destruct (e <? length (b_children x))%nat eqn:C1.
    + assert (NE : b_children x <> []) by (intros E0; rewrite E0 in C1; cbn in C1; lia).
      destruct (nth_error (b_children x) e) as [c|] eqn:Hc; [|apply nth_error_None in Hc; lia].
      destruct (down_last_spec _ c (le_n _) (Wc _ _ Hc)) as ([k' v'] & Er & Ir).
      cbv zeta. cbn [app]. rewrite (last_idx_cons _ _ _ _ Hc). unfold at'. rewrite (entry_cons _ _ _ _ _ Hc), Er.
      exists (last_idx' c (down c false)).
      rewrite (entry_cons _ _ _ _ _ Hc), (idx_cons _ _ _ _ _ Hc). split; [exact Er|].
      rewrite idx_nil_internal by exact NE. rewrite (celems_nth' _ _ _ Hc). lia.
    + assert (E0 : b_children x = []) by (destruct LC as [LC|LC]; [exact LC|lia]).
      destruct (1 <=? e)%nat eqn:C2.
      * unfold at', entry. cbn [sub].
        destruct (nth_error (b_entries x) (e - 1)) as [[k' v']|] eqn:En; [|apply nth_error_None in En; lia].
        exists (e - 1). unfold entry. cbn [sub]. split; [exact En|]. rewrite !idx_nil_leaf by exact E0. lia.
      * cbn [rev climb_prev']. rewrite idx_nil_leaf by exact E0. lia.
  - unfold entry in He. cbn [sub] in He. destruct (nth_error (b_children x) i) as [c|] eqn:Hc; [|discriminate].
    change (entry c p e = Some (key, v)) in He.
    destruct (wf_inv x W) as (L1 & LC & Wc).
    assert (NE : b_children x <> []) by (eapply children_ne; eauto).
    pose proof (wf_internal_len x W NE) as HL.
    assert (Li : i < length (celems x)) by (rewrite celems_len; apply nth_error_Some; congruence).
    pose proof (isorted_child x i c W Srt Hc) as Sc.
    specialize (IH c e key v (Wc _ _ Hc) Sc He).
    rewrite (move_prev_cons _ _ _ _ _ _ Hc). rewrite (idx_cons _ _ _ _ _ Hc).
    destruct (move_prev' c (BAt p key v)) as [|q k' v'| |]; cbn [up_prev lift]; try contradiction.
    + pose proof (entry_idx _ _ _ _ (Wc _ _ Hc) He) as Hm.
      rewrite (search_child x i c _ key v W Srt Hc Hm).
      destruct (1 <=? i)%nat eqn:C1.
      * unfold at', entry. cbn [sub].
        destruct (nth_error (b_entries x) (i - 1)) as [[k' v']|] eqn:En; [|apply nth_error_None in En; lia].
        exists (i - 1). unfold entry. cbn [sub]. split; [exact En|].
        rewrite idx_nil_internal by exact NE.
        pose proof (off_S (celems x) (i - 1) ltac:(lia)) as HS. replace (S (i - 1)) with i in HS by lia. lia.
      * replace i with 0 by lia. rewrite off_0. lia.
    + destruct IH as (e' & Ee & Ie). exists e'. rewrite (entry_cons _ _ _ _ _ Hc), (idx_cons _ _ _ _ _ Hc).
      split; [exact Ee|lia].
Qed.

(* ---------- simulation of the specification cursor ---------- *)
Local Open Scope Z_scope.

Definition good (root : bnode) : Prop :=
  (root = BNode [] [] \/ b_wf root = true) /\ isorted (elems root).

Definition brel (root : bnode) (s : bpos) (c : Z) : Prop :=
  match s with
  | BBegin => c = -1
  | BEnd => c = size (elems root)
  | BAt p k v => exists e, entry root p e = Some (k, v) /\ c = Z.of_nat (idx root p e)
  | BPanic => False
  end.

Lemma entry_empty p e : entry (BNode [] []) p e = None.
Proof. unfold entry. destruct p as [|[|i] p]; cbn [sub b_children nth_error b_entries]; try reflexivity. now destruct e. Qed.

Lemma at_in l c : 0 <= c < size l -> at_ l c = nth_error l (Z.to_nat c).
Proof. intros H. unfold at_. replace ((0 <=? c) && (c <? size l)) with true by lia. reflexivity. Qed.
Lemma at_out' l c : ~ (0 <= c < size l) -> at_ l c = None.
Proof. intros H. unfold at_. replace ((0 <=? c) && (c <? size l)) with false by lia. reflexivity. Qed.

Lemma brel_at root p e k v : good root -> entry root p e = Some (k, v) ->
  b_wf root = true /\ 0 <= Z.of_nat (idx root p e) < size (elems root) /\
  at_ (elems root) (Z.of_nat (idx root p e)) = Some (k, v).
Proof.
  intros [[G|G] _] H; [subst root; rewrite entry_empty in H; discriminate|].
  pose proof (idx_lt _ _ _ _ G H) as Hlt. split; [exact G|]. unfold size. split; [lia|].
  rewrite at_in by (unfold size; lia). rewrite Nat2Z.id. now apply entry_idx.
Qed.

Lemma brel_range root s c : good root -> brel root s c -> -1 <= c <= size (elems root).
Proof.
  intros G H. destruct s as [|p k v| |]; cbn [brel] in H.
  - unfold size. lia.
  - destruct H as (e & He & ->). destruct (brel_at _ _ _ _ _ G He) as (_ & R & _). lia.
  - unfold size in *. lia.
  - contradiction.
Qed.

Lemma b_out_ok root s c : good root -> brel root s c -> b_out s = (s, MOut (snd (land (elems root) c))).
Proof.
  intros G H. unfold b_out, land. cbn [snd]. destruct s as [|p k v| |]; cbn [brel] in H.
  - subst. rewrite at_out' by (unfold size; lia). reflexivity.
  - destruct H as (e & He & ->). destruct (brel_at _ _ _ _ _ G He) as (_ & _ & ->). reflexivity.
  - subst. rewrite at_out' by lia. reflexivity.
  - contradiction.
Qed.

Lemma isempty_wf root : b_wf root = true -> b_isempty root = false.
Proof.
  intros W. destruct (wf_inv root W) as (L1 & _). unfold b_isempty. destruct (b_entries root); [cbn in L1; lia|reflexivity].
Qed.

Lemma move_next_rel root s c : good root -> brel root s c -> brel root (move_next' root s) (c_next (elems root) c).
Proof.
  intros G H. unfold c_next. destruct s as [|p k v| |]; cbn [brel] in H.
  - subst. cbn [move_next']. destruct G as [[G|G] Srt].
    + subst root. cbn. reflexivity.
    + rewrite (isempty_wf _ G).
      destruct (down_first_spec _ root (le_n _) G) as ([k v] & Er & Ir).
      pose proof (idx_lt _ _ _ _ G Er) as Hlt.
      replace (-1 <? size (elems root)) with true by (unfold size; lia).
      unfold at'. rewrite Er. cbn [brel]. exists 0%nat. split; [exact Er|]. rewrite Ir. reflexivity.
  - destruct H as (e & He & ->). destruct (brel_at _ _ _ _ _ G He) as (W & R & _). destruct G as [_ Srt].
    replace (Z.of_nat (idx root p e) <? size (elems root)) with true by lia.
    pose proof (next_spec p root e k v W Srt He) as HN.
    destruct (move_next' root (BAt p k v)) as [|q k' v'| |]; cbn [brel]; try contradiction.
    + destruct HN as (e' & Ee & Ie). exists e'. split; [exact Ee|lia].
    + unfold size. lia.
  - subst. cbn [move_next' brel]. replace (size (elems root) <? size (elems root)) with false by lia. reflexivity.
  - contradiction.
Qed.

Lemma move_prev_rel root s c : good root -> brel root s c -> brel root (move_prev' root s) (c_prev c).
Proof.
  intros G H. unfold c_prev. destruct s as [|p k v| |]; cbn [brel] in H.
  - subst. reflexivity.
  - destruct H as (e & He & ->). destruct (brel_at _ _ _ _ _ G He) as (W & R & _). destruct G as [_ Srt].
    replace (0 <=? Z.of_nat (idx root p e)) with true by lia.
    pose proof (prev_spec p root e k v W Srt He) as HP.
    destruct (move_prev' root (BAt p k v)) as [|q k' v'| |]; cbn [brel]; try contradiction.
    + lia.
    + destruct HP as (e' & Ee & Ie). exists e'. split; [exact Ee|lia].
  - subst. cbn [move_prev']. unfold size.
    replace (0 <=? Z.of_nat (length (elems root))) with true by lia. destruct G as [[G|G] Srt].
    + subst root. cbn. reflexivity.
    + rewrite (isempty_wf _ G). cbv zeta.
      destruct (down_last_spec _ root (le_n _) G) as ([k v] & Er & Ir).
      unfold at'. rewrite Er. cbn [brel]. eexists. split; [exact Er|]. lia.
  - contradiction.
Qed.

Lemma b_scan_ok root mv cmv : good root -> (forall s c, brel root s c -> brel root (mv s) (cmv c)) ->
  forall fuel p s c, brel root s c ->
    b_scan mv fuel p s = (fst (b_scan mv fuel p s), MOut (snd (scan_to (elems root) cmv fuel p c))) /\
    brel root (fst (b_scan mv fuel p s)) (fst (scan_to (elems root) cmv fuel p c)).
Proof.
  intros G Hmv. induction fuel as [|f IH]; intros p s c H; cbn [b_scan scan_to].
  - split; [reflexivity|exact H].
  - pose proof (Hmv s c H) as H'. destruct (mv s) as [|q k v| |] eqn:Em; cbn [brel] in H'.
    + rewrite H'. rewrite at_out' by (unfold size; lia). cbn [fst snd]. split; reflexivity.
    + destruct H' as (e & He & Ec). destruct (brel_at _ _ _ _ _ G He) as (_ & _ & Hat). rewrite Ec, Hat.
      destruct (peval p k v).
      * cbn [fst snd]. split; [reflexivity|]. exists e. split; [exact He|reflexivity].
      * rewrite <- Ec. apply IH. exists e. split; [exact He|exact Ec].
    + rewrite H'. rewrite at_out' by lia. cbn [fst snd]. split; reflexivity.
    + contradiction.
Qed.

(* the scan fuel of the model (max (S n) depth_fuel) may exceed the specification's S n: harmless *)
Lemma scan_next_fuel l p : forall f1 f2 c, -1 <= c <= size l ->
  size l - c <= Z.of_nat f1 -> size l - c <= Z.of_nat f2 ->
  scan_to l (c_next l) f1 p c = scan_to l (c_next l) f2 p c.
Proof.
  induction f1 as [|f1 IH]; intros f2 c R H1 H2.
  - assert (c = size l) by lia. subst c. destruct f2 as [|f2]; [reflexivity|]. cbn [scan_to].
    unfold c_next. replace (size l <? size l) with false by lia. rewrite at_out' by lia. reflexivity.
  - destruct f2 as [|f2].
    + assert (c = size l) by lia. subst c. cbn [scan_to].
      unfold c_next. replace (size l <? size l) with false by lia. rewrite at_out' by lia. reflexivity.
    + cbn [scan_to]. destruct (at_ l (c_next l c)) as [[k v]|] eqn:Ea; [|reflexivity].
      destruct (peval p k v); [reflexivity|].
      assert (Hc : 0 <= c_next l c < size l).
      { destruct (Z_lt_dec (c_next l c) 0); [rewrite at_out' in Ea by lia; discriminate|].
        destruct (Z_lt_dec (c_next l c) (size l)); [lia|rewrite at_out' in Ea by lia; discriminate]. }
      assert (c_next l c = c + 1) by (unfold c_next in *; destruct (c <? size l) eqn:E; lia).
      apply IH; lia.
Qed.

Lemma scan_prev_fuel l p : forall f1 f2 c, -1 <= c <= size l ->
  c + 1 <= Z.of_nat f1 -> c + 1 <= Z.of_nat f2 ->
  scan_to l c_prev f1 p c = scan_to l c_prev f2 p c.
Proof.
  induction f1 as [|f1 IH]; intros f2 c R H1 H2.
  - assert (c = -1) by lia. subst c. destruct f2 as [|f2]; [reflexivity|]. cbn [scan_to].
    unfold c_prev. cbn [Z.leb Z.compare]. rewrite at_out' by lia. reflexivity.
  - destruct f2 as [|f2].
    + assert (c = -1) by lia. subst c. cbn [scan_to].
      unfold c_prev. cbn [Z.leb Z.compare]. rewrite at_out' by lia. reflexivity.
    + cbn [scan_to]. destruct (at_ l (c_prev c)) as [[k v]|] eqn:Ea; [|reflexivity].
      destruct (peval p k v); [reflexivity|].
      assert (Hc : 0 <= c_prev c < size l).
      { destruct (Z_lt_dec (c_prev c) 0); [rewrite at_out' in Ea by lia; discriminate|].
        destruct (Z_lt_dec (c_prev c) (size l)); [lia|rewrite at_out' in Ea by lia; discriminate]. }
      assert (c_prev c = c - 1) by (unfold c_prev in *; destruct (0 <=? c) eqn:E; lia).
      apply IH; lia.
Qed.

(* bstep with the moves replaced by their mirrors *)
Definition bstep' (root : bnode) (fuel : nat) (s : bpos) (m : cmd) : bpos * mout :=
  match m with
  | Next => b_out (move_next' root s)
  | Prev => b_out (move_prev' root s)
  | First => b_out (move_next' root BBegin)
  | Last => b_out (move_prev' root BEnd)
  | Begin => (BBegin, MOut miss)
  | End => (BEnd, MOut miss)
  | NextTo p => b_scan (move_next' root) fuel p s
  | PrevTo p => b_scan (move_prev' root) fuel p s
  end.

Lemma b_scan_ext mv1 mv2 : (forall s, mv1 s = mv2 s) -> forall fuel p s, b_scan mv1 fuel p s = b_scan mv2 fuel p s.
Proof.
  intros E. induction fuel as [|f IH]; intros p s; cbn [b_scan]; [reflexivity|].
  rewrite E. destruct (mv2 s) as [|q k v| |]; try reflexivity. now rewrite IH.
Qed.

Lemma bstep_mirror fuel root s m : (b_depth root <= S fuel)%nat -> bstep fuel root s m = bstep' root fuel s m.
Proof.
  intros HF. destruct m; cbn [bstep bstep']; rewrite ?(b_move_next_eq fuel root HF), ?(b_move_prev_eq fuel root HF); try reflexivity.
  - apply b_scan_ext. intros s'. now apply b_move_next_eq.
  - apply b_scan_ext. intros s'. now apply b_move_prev_eq.
Qed.

Lemma bstep_ok root fuel s c m : good root -> (S (length (elems root)) <= fuel)%nat -> brel root s c ->
  bstep' root fuel s m = (fst (bstep' root fuel s m), MOut (snd (cstep (elems root) c m))) /\
  brel root (fst (bstep' root fuel s m)) (fst (cstep (elems root) c m)).
Proof.
  intros G Hf H. pose proof (brel_range _ _ _ G H) as R. destruct m; cbn [bstep' cstep].
  - pose proof (move_next_rel root s c G H) as H'. rewrite (b_out_ok _ _ _ G H'). cbn [fst snd]. split; [reflexivity|exact H'].
  - pose proof (move_prev_rel root s c G H) as H'. rewrite (b_out_ok _ _ _ G H'). cbn [fst snd]. split; [reflexivity|exact H'].
  - pose proof (move_next_rel root BBegin (-1) G eq_refl) as H'. rewrite (b_out_ok _ _ _ G H'). cbn [fst snd]. split; [reflexivity|exact H'].
  - pose proof (move_prev_rel root BEnd (size (elems root)) G eq_refl) as H'. rewrite (b_out_ok _ _ _ G H'). cbn [fst snd]. split; [reflexivity|exact H'].
  - cbn [fst snd brel]. split; reflexivity.
  - cbn [fst snd brel]. split; reflexivity.
  - rewrite (scan_next_fuel (elems root) p (S (length (elems root))) fuel c) by (unfold size in *; lia).
    apply b_scan_ok; [exact G|intros; now apply move_next_rel|exact H].
  - rewrite (scan_prev_fuel (elems root) p (S (length (elems root))) fuel c) by (unfold size in *; lia).
    apply b_scan_ok; [exact G|intros; now apply move_prev_rel|exact H].
Qed.

Theorem btree_cursor' root fuel : good root -> (S (length (elems root)) <= fuel)%nat ->
  forall cs s c, brel root s c ->
  run (bstep' root fuel) s cs = map MOut (run (cstep (elems root)) c cs).
Proof.
  intros G Hf. induction cs as [|m cs IH]; intros s c H; cbn [run map]; [reflexivity|].
  destruct (bstep_ok root fuel s c m G Hf H) as [E R]. rewrite E.
  destruct (cstep (elems root) c m) as [c' o]. cbn [fst snd map] in *. f_equal. apply IH. exact R.
Qed.

Lemma run_ext {S O} (f g : S -> cmd -> S * O) : (forall s m, f s m = g s m) -> forall cs s, run f s cs = run g s cs.
Proof. intros E. induction cs as [|m cs IH]; intros s; cbn [run]; [reflexivity|]. rewrite E. destruct (g s m). now rewrite IH. Qed.

(* strictly ascending keys, as a boolean on the key list, give the positional order used above *)
Lemma strict_asc_lt : forall l a b ka kb, strict_asc l = true -> (a < b)%nat ->
  nth_error l a = Some ka -> nth_error l b = Some kb -> ka < kb.
Proof.
  induction l as [|x l IH]; intros a b ka kb Hs Hab Ha Hb; [destruct a; discriminate|].
  destruct b as [|b]; [lia|]. cbn [nth_error] in Hb.
  assert (Hs' : strict_asc l = true).
  { cbn [strict_asc] in Hs. destruct l; [reflexivity|]. apply andb_prop in Hs. tauto. }
  destruct a as [|a].
  - cbn [nth_error] in Ha. injection Ha as ->.
    (* ka < head of l <= kb *)
    destruct l as [|y l]; [destruct b; discriminate|].
    assert (Hxy : ka < y) by (cbn [strict_asc] in Hs; apply andb_prop in Hs; lia).
    destruct b as [|b]; [cbn [nth_error] in Hb; injection Hb as ->; exact Hxy|].
    specialize (IH 0%nat (S b) y kb Hs' ltac:(lia) eq_refl Hb). lia.
  - cbn [nth_error] in Ha. apply (IH a b ka kb Hs'); [lia|exact Ha|exact Hb].
Qed.

Lemma strict_asc_isorted l : strict_asc (map fst l) = true -> isorted l.
Proof.
  intros Hs a b ka va kb vb Hab Ha Hb.
  apply (strict_asc_lt (map fst l) a b ka kb Hs Hab).
  - now rewrite (map_nth_error fst a l Ha).
  - now rewrite (map_nth_error fst b l Hb).
Qed.

Lemma b_ok_good fuel r : b_ok fuel r = true ->
  good r /\ (b_depth r <= fuel)%nat /\ b_elements fuel r = elems r.
Proof.
  unfold b_ok. intros H. apply andb_prop in H. destruct H as [H H3]. apply andb_prop in H. destruct H as [H1 H2].
  apply Nat.leb_le in H2. pose proof (b_elements_elems fuel r H2) as E. rewrite E in H3.
  split; [|split; [exact H2|exact E]]. split.
  - apply orb_prop in H1. destruct H1 as [H1|H1]; [left|right; exact H1].
    destruct r as [[|e es] [|c cs]]; cbn in H1; try discriminate. reflexivity.
  - now apply strict_asc_isorted.
Qed.
