(* C14: well-formedness of a dumped B-tree shape (definitions only; the hypotheses of C14_btree_cursor).
   Real B-trees satisfy it: every node has at least one entry and either no children or one more child
   than entries, the height is below the depth fuel, and the in-order walk has strictly increasing keys.
   The empty tree is [BNode [] []] (Root == nil). *)
From VF Require Import C14.Spec C14.Model.
Local Open Scope Z_scope.

Fixpoint b_depth (x : bnode) : nat :=
  match x with BNode _ cs => S (list_max (map b_depth cs)) end.

Fixpoint b_wf (x : bnode) : bool :=
  match x with
  | BNode es cs =>
      negb (length es =? 0)%nat
      && ((length cs =? 0)%nat || (length cs =? S (length es))%nat)
      && forallb b_wf cs
  end.

Definition b_empty_root (x : bnode) : bool :=
  match x with BNode [] [] => true | _ => false end.

Fixpoint strict_asc (l : list Z) : bool :=
  match l with
  | a :: (b :: _) as t => (a <? b) && strict_asc t
  | _ => true
  end.

(* fuel = the depth bound used by the checker (Check.depth_fuel) *)
Definition b_ok (fuel : nat) (r : bnode) : bool :=
  (b_empty_root r || b_wf r) && (b_depth r <=? fuel)%nat && strict_asc (map fst (b_elements fuel r)).
