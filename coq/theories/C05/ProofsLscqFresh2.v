(* C05 - ring-level invariants of the ring a thread fills privately before linking it. *)
From Coq Require Import ZArith List Bool Lia Arith.
Import ListNotations.
From VF Require Import C05.Scq C05.ScqAux C05.Lscq C05.ProofsScqInv C05.ProofsScqCount C05.ProofsScqThr C05.ProofsScqThr2 C05.ProofsScqDead C05.ProofsLscqFresh.
Open Scope Z_scope.

Section Fresh2.
Variable n : Z.
Hypothesis Hn : 1 <= n.
Variable K : nat.
Hypothesis HK : Z.of_nat K <= n + 1.

Lemma cnt_false (p : nat -> bool) : (forall i, p i = false) -> cnt K p = 0%nat.
Proof.
  intros H. unfold cnt. induction (seq 0 K) as [|a l IH]; [reflexivity|]. cbn [filter]. now rewrite H.
Qed.

Lemma fresh_inv i d : Inv n (fresh_with n i d).
Proof. unfold fresh_with. apply inv_reach. exact Hn. Qed.

Opaque fresh_with.

Lemma fresh_d5 i d : d5inv (fresh_with n i d).
Proof.
  destruct (fresh_fields n Hn K i d) as (_ & _ & _ & _ & Hth & _). intros k H E. rewrite Hth in E. discriminate E.
Qed.

Lemma fresh_thr2 i d bz cov :
  (forall k, bz k = None) -> cov <= n + 1 -> Thr2 n K bz cov (fresh_with n i d).
Proof.
  intros Hbz Hcov.
  destruct (fresh_fields n Hn K i d) as (Hhd & Htl & Hcl & Hthr & Hth & Hw & Hc & _).
  set (R := fresh_with n i d) in *.
  assert (HSx : Sx K R = 0%nat).
  { unfold Sx. apply cnt_false. intros k. rewrite Hth. reflexivity. }
  assert (Htg : forall T, hd R <= T -> tgt R T -> T = n).
  { intros T HhT [(k & Hk)|[Hwr _]]; [rewrite Hth in Hk; discriminate Hk|].
    unfold wrw in Hwr. rewrite Hw in Hwr. cbn [map fst memz existsb] in Hwr. rewrite orb_false_r in Hwr. now apply Z.eqb_eq in Hwr. }
  constructor.
  - intros k _. split; [apply Hth|apply Hbz].
  - lia.
  - intros k. now rewrite Hth.
  - intros k d0 T E. rewrite Hth in E. discriminate E.
  - intros a b T _ E. rewrite Hth in E. discriminate E.
  - intros k x E. rewrite Hbz in E. discriminate E.
  - intros a b x _ E. rewrite Hbz in E. discriminate E.
  - lia.
  - intros _ x Hx. left. assert (x = n) by lia. subst x. unfold wrw. rewrite Hw. cbn [map fst memz existsb]. now rewrite Z.eqb_refl.
  - intros T HhT Ht. rewrite (Htg T HhT Ht), HSx. unfold G. rewrite Hhd, gcnt_empty by lia. lia.
  - intros T HhT Ht _. rewrite (Htg T HhT Ht), HSx. unfold G. rewrite Hhd, gcnt_empty by lia. lia.
Qed.

End Fresh2.
