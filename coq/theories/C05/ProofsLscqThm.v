(* C05 - the LSCQ layer: the statements of PropsLscq.v, derived from the two invariants LInv (ProofsLscq.v,
   ProofsLscqStep.v) and QT (ProofsLscqSafe.v). *)
From Coq Require Import ZArith List Bool Lia Arith.
Import ListNotations.
From VF Require Import C05.Scq C05.ScqAux C05.Lscq C05.ProofsScqInv C05.ProofsScqSafe C05.ProofsScqOrd C05.ProofsScqTie
  C05.ProofsScqCount C05.ProofsScqThr C05.ProofsScqThr2
  C05.ProofsScqEmpty C05.ProofsScqDead C05.ProofsLscqFresh C05.ProofsLscqFresh2 C05.ProofsLscq C05.ProofsLscqStep C05.ProofsLscqShape
  C05.ProofsLscqSafe.
Open Scope Z_scope.

Definition bounded (K : nat) (sched : list qlabel) : Prop := forall l, In l sched -> (qthread l < K)%nat.

Section Thm.
Variable n : Z.
Hypothesis Hn : 1 <= n.
Variable K : nat.
Hypothesis HK : Z.of_nat K <= n + 1.

Ltac shape := unfold tick, goto, ret, invoke, set_thr, set_closed;
  cbn [ring hd tl closed thr th wlog clog plog clk since trace].

(* ------------------------------------------------------------------ the invariant, spelled out *)
Theorem lscq_invariant sched : bounded K sched ->
  let L := qrun n (linit n) sched in
  (1 <= nr L)%nat /\ (qh L < nr L)%nat /\ (qt L < nr L)%nat /\
  (forall r, exists rs, rings L r = run n (init n) rs) /\
  (forall r, (nr L <= r)%nat -> rings L r = init n) /\
  (forall r, (S r < nr L)%nat -> closed (rings L r) = true) /\
  (forall i r, th (rings L r) i <> Idle -> in_ring (qth L i) = Some r) /\
  (forall i, (K <= i)%nat -> qth L i = QIdle).
Proof.
  intros Hs L. destruct (qt_reach n Hn K HK sched Hs) as (HL & HQ). fold L in HL, HQ.
  split; [apply (l_nr _ _ _ HL)|]. split; [apply (l_qh _ _ _ HL)|]. split; [apply (l_qt _ _ _ HL)|].
  split; [apply (t_proj _ _ HQ)|]. split; [intros r Hr; apply (l_unl _ _ _ HL r Hr)|].
  split; [apply (l_closed _ _ _ HL)|]. split; [apply (l_act _ _ _ HL)|apply (l_bnd _ _ _ HL)].
Qed.

(* ------------------------------------------------------------------ retired rings *)
Theorem lscq_retired sched : bounded K sched ->
  let L := qrun n (linit n) sched in
  (forall r, (r < qh L)%nat -> closed (rings L r) = true /\ dead (rings L r)) /\
  (forall i cq, qth L i = QD_cas cq -> closed (rings L cq) = true /\ dead (rings L cq)).
Proof.
  intros Hs L. destruct (qt_reach n Hn K HK sched Hs) as (HL & HQ). fold L in HL, HQ.
  split; [apply (l_ret _ _ _ HL)|apply (l_cas _ _ _ HL)].
Qed.

(* ------------------------------------------------------------------ a closed ring only loses targets *)
Lemma rok_step st l : ROK st (step n st l).
Proof.
  destruct l as [i v|i|i| |]; [| |apply rok_tstep| |]; unfold step, step0.
  - destruct (th st i) eqn:E; shape; apply (rok_same K); cbn [closed th wlog clog hd]; auto.
    intros k T. unfold updf. destruct (Nat.eqb_spec k i); [discriminate|auto].
  - destruct (th st i) eqn:E; shape; apply (rok_same K); cbn [closed th wlog clog hd]; auto.
    intros k T. unfold updf. destruct (Nat.eqb_spec k i); [discriminate|auto].
  - shape. apply (rok_same K); cbn [closed th wlog clog hd]; auto.
  - shape. apply (rok_same K); cbn [closed th wlog clog hd]; auto.
Qed.
Lemma rok_refl st : ROK st st.
Proof. intros Hc. split; [auto|]. split; [auto|lia]. Qed.
Lemma rok_run ls : forall st, ROK st (run n st ls).
Proof.
  induction ls as [|l ls IH]; intros st; [apply rok_refl|]. rewrite run_cons. eapply (rok_trans K); [apply rok_step|apply IH].
Qed.

Theorem lscq_closed_final sched l : bounded K sched -> (qthread l < K)%nat ->
  let L := qrun n (linit n) sched in let L' := qstep n L l in
  forall r, closed (rings L r) = true ->
    closed (rings L' r) = true /\ (forall T, tgt (rings L' r) T -> tgt (rings L r) T) /\ hd (rings L r) <= hd (rings L' r).
Proof.
  intros Hs Hl L L' r. destruct (qt_reach n Hn K HK sched Hs) as (HL & HQ). fold L in HL, HQ.
  assert (Hrok : ROK (rings L r) (rings L' r)); [|exact Hrok].
  destruct (qstep_shape n K L l HL Hl) as [(cq & R' & ls & er & eq & Hr & _ & HR & _)|[(i & d & cq & _ & _ & _ & Hr & _)|(i & d & cq & _ & Hr & _)]]; fold L' in Hr.
  - rewrite Hr. destruct (Nat.eqb_spec r cq) as [->|]; [rewrite HR; apply rok_run|apply rok_refl].
  - rewrite Hr. destruct (Nat.eqb_spec r (nr L)) as [->|]; [|apply rok_refl].
    intros Hc. destruct (l_unl _ _ _ HL (nr L) (le_n _)) as (Hi & _). rewrite Hi in Hc. discriminate Hc.
  - rewrite Hr. apply rok_refl.
Qed.

(* ------------------------------------------------------------------ safety across rings *)
Theorem lscq_safety sched : bounded K sched ->
  let L := qrun n (linit n) sched in
  (forall i a b r H v, In (i, a, b, QDeq (Some (r, H, v))) (qtrace L) -> (r < nr L)%nat /\ In (H, v) (wlog (rings L r))) /\
  (forall i a b d r T, In (i, a, b, QEnq d r T) (qtrace L) -> (r < nr L)%nat /\ In (T, d) (wlog (rings L r))) /\
  (forall r T d, In (T, d) (wlog (rings L r)) ->
     (exists i a b, In (i, a, b, QEnq d r T) (qtrace L)) \/
     (exists i, (th (rings L r) i = E6 d T \/ th (rings L r) i = E7 d T) /\ qth L i = QE_ring d r) \/
     (exists i cq, lnk (qth L i) = Some (d, cq) /\ r = S cq /\ T = n)) /\
  NoDup (qenq_ids (qtrace L)) /\ NoDup (qdeq_ids (qtrace L)) /\
  (forall r, NoDup (map fst (wlog (rings L r)))).
Proof.
  intros Hs L. destruct (qt_reach n Hn K HK sched Hs) as (HL & HQ). fold L in HL, HQ.
  assert (Hlt : forall r, rings L r <> init n -> (r < nr L)%nat).
  { intros r Hne. destruct (Nat.lt_ge_cases r (nr L)) as [Hlt|Hge]; [exact Hlt|]. exfalso. apply Hne. apply (l_unl _ _ _ HL r Hge). }
  split; [|split; [|split; [|split; [|split]]]].
  - intros i a b r H v Hin. pose proof (t_d1 _ _ HQ _ _ _ _ _ _ Hin) as Hret. split.
    + apply Hlt. intros E. destruct Hret as (i0 & a0 & b0 & Hin0). rewrite E in Hin0. destruct Hin0.
    + destruct Hret as (i0 & a0 & b0 & Hin0). apply (i_c_w _ _ (l_inv _ _ _ HL r)). exact (i_tr_d _ _ (l_inv _ _ _ HL r) _ _ _ _ _ Hin0).
  - intros i a b d r T Hin. pose proof (t_e1 _ _ HQ _ _ _ _ _ _ Hin) as Hret. split.
    + apply Hlt. intros E. destruct Hret as (i0 & a0 & b0 & Hin0). rewrite E in Hin0. destruct Hin0.
    + destruct Hret as (i0 & a0 & b0 & Hin0). exact (i_tr_e _ _ (l_inv _ _ _ HL r) _ _ _ _ _ Hin0).
  - intros r T d Hw. destruct (t_proj _ _ HQ r) as (rs & Hrs).
    pose proof (src_reach n rs) as HS. rewrite <- Hrs in HS.
    destruct (s_w _ HS T d Hw) as [Hret|(i & Hi)].
    + destruct (t_e2 _ _ HQ r T d Hret) as [Hl|Hr]; auto.
    + right; left. exists i. split; [exact Hi|].
      assert (Hne : th (rings L r) i <> Idle) by (destruct Hi as [Hi|Hi]; rewrite Hi; discriminate).
      pose proof (l_act _ _ _ HL i r Hne) as Ha.
      destruct (qth L i) eqn:Eq; cbn in Ha; try discriminate Ha; inversion Ha; subst.
      * pose proof (l_epc _ _ _ HL i d0 r Eq) as Hp. destruct Hi as [Hi|Hi]; rewrite Hi in Hp; cbn in Hp; now subst.
      * pose proof (l_dpc _ _ _ HL i r (or_introl Eq)) as Hp. destruct Hi as [Hi|Hi]; rewrite Hi in Hp; destruct Hp.
      * pose proof (l_dpc _ _ _ HL i r (or_intror Eq)) as Hp. destruct Hi as [Hi|Hi]; rewrite Hi in Hp; destruct Hp.
  - apply (t_ne _ _ HQ).
  - apply (t_nd _ _ HQ).
  - intros r. apply (i_w_nd _ _ (l_inv _ _ _ HL r)).
Qed.

(* ------------------------------------------------------------------ no loss across rings, and the order of the rings *)
Lemma no_loss_inv L : LInv n K L -> QT n L ->
  forall r T d, In (T, d) (wlog (rings L r)) ->
    (exists j a b, In (j, a, b, QDeq (Some (r, T, d))) (qtrace L)) \/
    (exists j, (th (rings L r) j = D3a T d \/ th (rings L r) j = D3b T d) /\ in_ring (qth L j) = Some r) \/
    (emp (ring (rings L r) (T mod n)) = false /\ cyc (ring (rings L r) (T mod n)) = T / n /\ dat (ring (rings L r) (T mod n)) = d /\
     ~ In T (plog (rings L r)) /\ ~ In T (map fst (clog (rings L r))) /\
     (T < hd (rings L r) -> exists j, pending (th (rings L r) j) = Some T /\ in_ring (qth L j) = Some r) /\
     ((r < qh L)%nat -> T < hd (rings L r))).
Proof.
  intros HL HQ r T d Hw.
  destruct (t_proj _ _ HQ r) as (rs & Hrs).
  pose proof (scq_no_loss n Hn rs T d) as HN. cbv zeta in HN. rewrite <- Hrs in HN.
  destruct (HN Hw) as [Hret|[(j & Hj)|(H1 & H2 & H3 & H4 & H5 & H6)]].
  - left. exact (t_d2 _ _ HQ r T d Hret).
  - right; left. exists j. split; [exact Hj|]. apply (l_act _ _ _ HL). destruct Hj as [Hj|Hj]; rewrite Hj; discriminate.
  - right; right. repeat (split; [assumption|]). split.
    + intros Hlt. destruct (H6 Hlt) as (j & Hj). exists j. split; [exact Hj|]. apply (l_act _ _ _ HL). intros E. rewrite E in Hj. discriminate Hj.
    + intros Hr. destruct (l_ret _ _ _ HL r Hr) as (_ & Hd). destruct (Z.lt_ge_cases T (hd (rings L r))) as [Hlt|Hge]; [exact Hlt|].
      exfalso. apply (Hd T Hge). right. split; [|exact H5].
      unfold wrw. apply memz_in. apply in_map_iff. exists (T, d). auto.
Qed.

Theorem lscq_no_loss sched : bounded K sched ->
  let L := qrun n (linit n) sched in
  forall r T d, In (T, d) (wlog (rings L r)) ->
    (exists j a b, In (j, a, b, QDeq (Some (r, T, d))) (qtrace L)) \/
    (exists j, (th (rings L r) j = D3a T d \/ th (rings L r) j = D3b T d) /\ in_ring (qth L j) = Some r) \/
    (emp (ring (rings L r) (T mod n)) = false /\ cyc (ring (rings L r) (T mod n)) = T / n /\ dat (ring (rings L r) (T mod n)) = d /\
     ~ In T (plog (rings L r)) /\ ~ In T (map fst (clog (rings L r))) /\
     (T < hd (rings L r) -> exists j, pending (th (rings L r) j) = Some T /\ in_ring (qth L j) = Some r) /\
     ((r < qh L)%nat -> T < hd (rings L r))).
Proof.
  intros Hs L. destruct (qt_reach n Hn K HK sched Hs) as (HL & HQ). fold L in HL, HQ. now apply no_loss_inv.
Qed.

Lemma ring_order_inv L : LInv n K L -> QT n L ->
  forall r, (r < qh L)%nat ->
    closed (rings L r) = true /\
    (forall i T, hold (th (rings L r) i) = Some T -> T < hd (rings L r)) /\
    (forall T d, In (T, d) (wlog (rings L r)) ->
       T < hd (rings L r) /\
       ((exists j a b, In (j, a, b, QDeq (Some (r, T, d))) (qtrace L)) \/
        (exists j, in_ring (qth L j) = Some r /\
           (th (rings L r) j = D3a T d \/ th (rings L r) j = D3b T d \/ pending (th (rings L r) j) = Some T)))).
Proof.
  intros HL HQ r Hr.
  destruct (l_ret _ _ _ HL r Hr) as (Hc & Hd). split; [exact Hc|]. split.
  - intros i T Hh. destruct (Z.lt_ge_cases T (hd (rings L r))) as [Hlt|Hge]; [exact Hlt|]. exfalso. apply (Hd T Hge). left. eauto.
  - intros T d Hw. pose proof (i_c_rng _ _ (l_inv _ _ _ HL r)) as Hcr.
    destruct (no_loss_inv L HL HQ r T d Hw) as [Hx|[(j & Hj & Ha)|(_ & _ & _ & _ & _ & H6 & H7)]].
    + split; [|now left]. destruct Hx as (j & a & b & Hin). destruct (t_d1 _ _ HQ _ _ _ _ _ _ Hin) as (i0 & a0 & b0 & Hin0).
      apply (Hcr T d). exact (i_tr_d _ _ (l_inv _ _ _ HL r) _ _ _ _ _ Hin0).
    + split; [|right; exists j; tauto].
      pose proof (i_t _ _ (l_inv _ _ _ HL r) j) as Ht. destruct Hj as [Hj|Hj]; rewrite Hj in Ht; cbn [tinv] in Ht; apply (Hcr T d); tauto.
    + pose proof (H7 Hr) as Hlt. split; [exact Hlt|]. destruct (H6 Hlt) as (j & Hj & Ha). right. exists j. tauto.
Qed.

Theorem lscq_ring_order sched : bounded K sched ->
  let L := qrun n (linit n) sched in
  forall r, (r < qh L)%nat ->
    closed (rings L r) = true /\
    (forall i T, hold (th (rings L r) i) = Some T -> T < hd (rings L r)) /\
    (forall T d, In (T, d) (wlog (rings L r)) ->
       T < hd (rings L r) /\
       ((exists j a b, In (j, a, b, QDeq (Some (r, T, d))) (qtrace L)) \/
        (exists j, in_ring (qth L j) = Some r /\
           (th (rings L r) j = D3a T d \/ th (rings L r) j = D3b T d \/ pending (th (rings L r) j) = Some T)))).
Proof.
  intros Hs L. destruct (qt_reach n Hn K HK sched Hs) as (HL & HQ). fold L in HL, HQ. now apply ring_order_inv.
Qed.

End Thm.
