(* C05 - the LSCQ layer: time.  Queue-level stamps (one global step counter) against the ring-level stamps (each ring
   counts its own steps); the ring a call works on never moves backwards in real time. *)
From Coq Require Import ZArith List Bool Lia Arith.
Import ListNotations.
From VF Require Import C05.Scq C05.ScqAux C05.Lscq C05.ProofsScqInv C05.ProofsScqSafe C05.ProofsScqOrd C05.ProofsScqTie
  C05.ProofsScqCount C05.ProofsScqThr C05.ProofsScqThr2
  C05.ProofsScqEmpty C05.ProofsScqDead C05.ProofsLscqFresh C05.ProofsLscqFresh2 C05.ProofsLscq C05.ProofsLscqStep C05.ProofsLscqShape
  C05.ProofsLscqSafe C05.ProofsLscqThm.
Open Scope Z_scope.

(* the ring a dequeuer is working on *)
Definition dreg (s : qstate) : option nat :=
  match s with QD_ring1 c | QD_ldnext c | QD_reset c | QD_ring2 c | QD_cas c => Some c | _ => None end.

Section Time.
Variable n : Z.

Ltac lflat := cbn [rings nr qh qt mu qth gclk qsince qtrace cov].
Ltac unf := unfold qtick, set_q, set_qt, set_qh, set_mu, qret, qinvoke, Lscq.set_ring, set_cov, link; lflat.
Ltac brk := repeat match goal with
  | |- context [if ?b then _ else _] => destruct b eqn:?
  | |- context [match last_ev ?x with _ => _ end] => destruct (last_ev x) as [[? [?|]|[[? ?]|]]|]
  | |- context [match mu ?L ?c with _ => _ end] => destruct (mu L c)
  end; unf.
Tactic Notation "cases" constr(L) constr(l) ident(i) ident(Eq) :=
  unfold qstep, qstep_th; destruct l as [i ?|i|i]; destruct (qth L i) eqn:Eq; cbv zeta; unf; brk.

Lemma gclk_step L l : gclk (qstep n L l) = gclk L + 1.
Proof. cases L l i Eq; reflexivity. Qed.

Lemma qsince_step L l k : qsince (qstep n L l) k = qsince L k \/ (qth L k = QIdle /\ qsince (qstep n L l) k = gclk L).
Proof.
  cases L l i Eq; try (left; reflexivity); unfold updf; destruct (Nat.eqb_spec k i) as [->|]; auto.
Qed.

Lemma qh_step L l : (qh L <= qh (qstep n L l))%nat.
Proof.
  cases L l i Eq; try lia. apply Nat.eqb_eq in Heqb. lia.
Qed.

Lemma dreg_step L l j c : dreg (qth (qstep n L l) j) = Some c -> dreg (qth L j) = Some c \/ c = qh L.
Proof.
  cases L l i Eq; auto; unfold updf; destruct (Nat.eqb_spec j i) as [->|]; auto; rewrite ?Eq; cbn [dreg]; auto; try discriminate;
    intros E; inversion E; auto.
Qed.

Lemma ering_step L l j d c : qth (qstep n L l) j = QE_ring d c ->
  qth L j = QE_ring d c \/ (qth L j = QE_ldnext d c /\ (nr L <= S c)%nat).
Proof.
  cases L l i Eq; auto; unfold updf; destruct (Nat.eqb_spec j i) as [->|]; auto; rewrite ?Eq; auto; try discriminate;
    intros E; inversion E; subst; auto.
  right. split; [reflexivity|]. apply Nat.ltb_ge in Heqb. exact Heqb.
Qed.

Hypothesis Hn : 1 <= n.
Variable K : nat.
Hypothesis HK : Z.of_nat K <= n + 1.

(* what a step appends to the queue-level trace *)
Lemma qtrace_step L l : LInv n K L -> (qthread l < K)%nat ->
  exists eq, qtrace (qstep n L l) = qtrace L ++ eq /\ (forall i a b ev, In (i, a, b, ev) eq -> a = qsince L i /\ b = gclk L).
Proof.
  intros HL Hl. destruct (qstep_shape n K L l HL Hl) as [(cq & R' & ls & er & eq & _ & _ & _ & _ & Hq & _ & _ & Hst)|[(i & d & cq & _ & _ & _ & _ & Hq & _)|(i & d & cq & _ & _ & _ & Hq & _)]].
  - exists eq. auto.
  - exists []. rewrite app_nil_r. split; [exact Hq|intros ? ? ? ? []].
  - eexists. split; [exact Hq|]. intros i0 a b ev [E|[]]. inversion E. auto.
Qed.

Record ST (L : lstate) : Prop := {
  s_g : 0 <= gclk L;
  s_since : forall k, 0 <= qsince L k <= gclk L;
  s_tr : forall i a b ev, In (i, a, b, ev) (qtrace L) -> 0 <= a /\ a <= b < gclk L
}.

Lemma st_init : ST (linit n).
Proof. constructor; cbn [linit gclk qsince qtrace]; try lia. intros i a b ev []. Qed.

Lemma st_step L l : LInv n K L -> (qthread l < K)%nat -> ST L -> ST (qstep n L l).
Proof.
  intros HL Hl HS. destruct (qtrace_step L l HL Hl) as (eq & Hq & Hst). pose proof (s_g _ HS) as Hg.
  constructor.
  - rewrite gclk_step. lia.
  - intros k. rewrite gclk_step. pose proof (s_since _ HS k). destruct (qsince_step L l k) as [->|(_ & ->)]; lia.
  - intros i a b ev Hin. rewrite gclk_step. rewrite Hq in Hin. apply in_app_or in Hin as [Hin|Hin].
    + pose proof (s_tr _ HS _ _ _ _ Hin). lia.
    + destruct (Hst _ _ _ _ Hin) as [-> ->]. pose proof (s_since _ HS i). lia.
Qed.

(* events name linked rings *)
Lemma enq_event_lt L i a b d r T : LInv n K L -> QT n L -> In (i, a, b, QEnq d r T) (qtrace L) -> (r < nr L)%nat.
Proof.
  intros HL HQ Hin. destruct (Nat.lt_ge_cases r (nr L)) as [Hlt|Hge]; [exact Hlt|]. exfalso.
  destruct (t_e1 _ _ HQ _ _ _ _ _ _ Hin) as (i0 & a0 & b0 & Hin0). destruct (l_unl _ _ _ HL r Hge) as (E & _). rewrite E in Hin0. destruct Hin0.
Qed.

(* ------------------------------------------------------------------ the ring a call works on never moves backwards *)
Record RI (L : lstate) : Prop := {
  r_dh1 : forall i a b r H v, In (i, a, b, QDeq (Some (r, H, v))) (qtrace L) -> (r <= qh L)%nat;
  r_dh2 : forall j c, dreg (qth L j) = Some c -> (c <= qh L)%nat;
  r_dq : forall i1 a1 b1 r1 H1 v1 j c, In (i1, a1, b1, QDeq (Some (r1, H1, v1))) (qtrace L) -> dreg (qth L j) = Some c ->
           b1 < qsince L j -> (r1 <= c)%nat;
  r_dd : forall i1 a1 b1 r1 H1 v1 i2 a2 b2 r2 H2 v2,
           In (i1, a1, b1, QDeq (Some (r1, H1, v1))) (qtrace L) -> In (i2, a2, b2, QDeq (Some (r2, H2, v2))) (qtrace L) ->
           b1 < a2 -> (r1 <= r2)%nat;
  r_eq : forall i1 a1 b1 d1 r1 T1 j d c, In (i1, a1, b1, QEnq d1 r1 T1) (qtrace L) -> qth L j = QE_ring d c ->
           b1 < qsince L j -> (r1 <= c)%nat;
  r_el : forall i1 a1 b1 d1 r1 T1 j d c, In (i1, a1, b1, QEnq d1 r1 T1) (qtrace L) -> lnk (qth L j) = Some (d, c) ->
           b1 < qsince L j -> (r1 <= S c)%nat;
  r_ee : forall i1 a1 b1 d1 r1 T1 i2 a2 b2 d2 r2 T2,
           In (i1, a1, b1, QEnq d1 r1 T1) (qtrace L) -> In (i2, a2, b2, QEnq d2 r2 T2) (qtrace L) ->
           b1 < a2 -> (r1 <= r2)%nat
}.

Lemma ri_init : RI (linit n).
Proof.
  constructor; cbn [linit rings nr qh qt mu qth gclk qsince qtrace cov]; try (intros; contradiction); try discriminate.
Qed.

Lemma new_events L l : LInv n K L -> (qthread l < K)%nat ->
  exists eq, qtrace (qstep n L l) = qtrace L ++ eq /\
    (forall i a b ev, In (i, a, b, ev) eq -> a = qsince L i /\ b = gclk L /\
       match ev with
       | QDeq (Some (r, _, _)) => dreg (qth L i) = Some r
       | QEnq d r T => qth L i = QE_ring d r \/ (exists c, lnk (qth L i) = Some (d, c) /\ r = S c)
       | _ => True
       end).
Proof.
  intros HL Hl. destruct (qstep_shape n K L l HL Hl) as [(cq & R' & ls & er & eq & _ & _ & _ & _ & Hq & _ & Hm & Hst)|[(i & d & cq & _ & _ & _ & _ & Hq & _)|(i & d & cq & Eq & _ & _ & Hq & _)]].
  - exists eq. split; [exact Hq|]. intros i a b ev Hin. destruct (Hst _ _ _ _ Hin) as [-> ->]. split; [reflexivity|]. split; [reflexivity|].
    destruct Hm as [(_ & Hns)|[(i0 & d0 & T0 & _ & E & Hpc)|(i0 & H0 & v0 & _ & E & Hpc)]].
    + pose proof (Hns _ Hin) as Hx. cbn in Hx. destruct ev as [d r T|[[[r H] v]|]]; try contradiction; exact I.
    + rewrite E in Hin. destruct Hin as [E'|[]]. inversion E'; subst. now left.
    + rewrite E in Hin. destruct Hin as [E'|[]]. inversion E'; subst. destruct Hpc as [-> | ->]; reflexivity.
  - exists []. rewrite app_nil_r. split; [exact Hq|intros ? ? ? ? []].
  - eexists. split; [exact Hq|]. intros i0 a b ev [E|[]]. inversion E; subst. split; [reflexivity|]. split; [reflexivity|].
    right. exists cq. rewrite Eq. auto.
Qed.

Lemma lnk_step L l j d c : LInv n K L -> (qthread l < K)%nat -> lnk (qth (qstep n L l) j) = Some (d, c) ->
  lnk (qth L j) = Some (d, c) \/ S c = nr L.
Proof.
  intros HL Hl. destruct (qstep_shape n K L l HL Hl) as [(cq & R' & ls & er & eq & _ & _ & _ & _ & _ & Hlk & _)|[(i & d0 & cq & _ & Hnr & _ & _ & _ & Hth)|(i & d0 & cq & _ & _ & _ & _ & Hth)]].
  - rewrite Hlk. auto.
  - rewrite Hth. destruct (Nat.eqb_spec j i); [cbn; intros E; inversion E; subst; auto|auto].
  - rewrite Hth. destruct (Nat.eqb_spec j i); [discriminate|auto].
Qed.

Lemma not_idle_since L l j : qth L j <> QIdle -> qsince (qstep n L l) j = qsince L j.
Proof. intros H. destruct (qsince_step L l j) as [E|(E & _)]; [exact E|contradiction]. Qed.

Lemma ri_step L l : LInv n K L -> QT n L -> ST L -> (qthread l < K)%nat -> RI L -> RI (qstep n L l).
Proof.
  intros HL HQ HS Hl HR. destruct (new_events L l HL Hl) as (eq & Hq & Hnew).
  pose proof (qh_step L l) as Hqh.
  assert (Hle : forall j, qsince (qstep n L l) j <= gclk L).
  { intros j. pose proof (s_since _ HS j). destruct (qsince_step L l j) as [->|(_ & ->)]; lia. }
  assert (Hold : forall i a b ev, In (i, a, b, ev) (qtrace L) -> b < gclk L) by (intros i a b ev Hin; pose proof (s_tr _ HS _ _ _ _ Hin); lia).
  constructor.
  - intros i a b r H v Hin. rewrite Hq in Hin. apply in_app_or in Hin as [Hin|Hin].
    + pose proof (r_dh1 _ HR _ _ _ _ _ _ Hin). lia.
    + destruct (Hnew _ _ _ _ Hin) as (_ & _ & Hd). pose proof (r_dh2 _ HR _ _ Hd). lia.
  - intros j c E. destruct (dreg_step L l j c E) as [E' | ->]; [pose proof (r_dh2 _ HR _ _ E'); lia|exact Hqh].
  - intros i1 a1 b1 r1 H1 v1 j c Hin E Hlt. rewrite Hq in Hin. apply in_app_or in Hin as [Hin|Hin].
    + destruct (dreg_step L l j c E) as [E' | ->].
      * rewrite not_idle_since in Hlt by (intros X; rewrite X in E'; discriminate E'). exact (r_dq _ HR _ _ _ _ _ _ _ _ Hin E' Hlt).
      * exact (r_dh1 _ HR _ _ _ _ _ _ Hin).
    + destruct (Hnew _ _ _ _ Hin) as (_ & -> & _). pose proof (Hle j). lia.
  - intros i1 a1 b1 r1 H1 v1 i2 a2 b2 r2 H2 v2 Hin1 Hin2 Hlt. rewrite Hq in Hin1, Hin2.
    apply in_app_or in Hin1 as [Hin1|Hin1]; apply in_app_or in Hin2 as [Hin2|Hin2].
    + exact (r_dd _ HR _ _ _ _ _ _ _ _ _ _ _ _ Hin1 Hin2 Hlt).
    + destruct (Hnew _ _ _ _ Hin2) as (-> & _ & Hd). exact (r_dq _ HR _ _ _ _ _ _ _ _ Hin1 Hd Hlt).
    + destruct (Hnew _ _ _ _ Hin1) as (_ & -> & _). pose proof (s_tr _ HS _ _ _ _ Hin2). lia.
    + destruct (Hnew _ _ _ _ Hin1) as (_ & -> & _). destruct (Hnew _ _ _ _ Hin2) as (-> & _ & _). pose proof (s_since _ HS i2). lia.
  - intros i1 a1 b1 d1 r1 T1 j d c Hin E Hlt. rewrite Hq in Hin. apply in_app_or in Hin as [Hin|Hin].
    + destruct (ering_step L l j d c E) as [E'|(E' & Hnr)].
      * rewrite not_idle_since in Hlt by (rewrite E'; discriminate). exact (r_eq _ HR _ _ _ _ _ _ _ _ _ Hin E' Hlt).
      * pose proof (enq_event_lt L _ _ _ _ _ _ HL HQ Hin). lia.
    + destruct (Hnew _ _ _ _ Hin) as (_ & -> & _). pose proof (Hle j). lia.
  - intros i1 a1 b1 d1 r1 T1 j d c Hin E Hlt. rewrite Hq in Hin. apply in_app_or in Hin as [Hin|Hin].
    + destruct (lnk_step L l j d c HL Hl E) as [E'|Hnr].
      * rewrite not_idle_since in Hlt by (intros X; rewrite X in E'; discriminate E'). exact (r_el _ HR _ _ _ _ _ _ _ _ _ Hin E' Hlt).
      * pose proof (enq_event_lt L _ _ _ _ _ _ HL HQ Hin). lia.
    + destruct (Hnew _ _ _ _ Hin) as (_ & -> & _). pose proof (Hle j). lia.
  - intros i1 a1 b1 d1 r1 T1 i2 a2 b2 d2 r2 T2 Hin1 Hin2 Hlt. rewrite Hq in Hin1, Hin2.
    apply in_app_or in Hin1 as [Hin1|Hin1]; apply in_app_or in Hin2 as [Hin2|Hin2].
    + exact (r_ee _ HR _ _ _ _ _ _ _ _ _ _ _ _ Hin1 Hin2 Hlt).
    + destruct (Hnew _ _ _ _ Hin2) as (-> & _ & [Hd|(c & Hd & ->)]).
      * exact (r_eq _ HR _ _ _ _ _ _ _ _ _ Hin1 Hd Hlt).
      * exact (r_el _ HR _ _ _ _ _ _ _ _ _ Hin1 Hd Hlt).
    + destruct (Hnew _ _ _ _ Hin1) as (_ & -> & _). pose proof (s_tr _ HS _ _ _ _ Hin2). lia.
    + destruct (Hnew _ _ _ _ Hin1) as (_ & -> & _). destruct (Hnew _ _ _ _ Hin2) as (-> & _ & _). pose proof (s_since _ HS i2). lia.
Qed.

(* ------------------------------------------------------------------ ring clocks against the global clock *)
Ltac shape := unfold tick, goto, ret, invoke, set_thr, set_closed;
  cbn [ring hd tl closed thr th wlog clog plog clk since trace].

Lemma step_clock st l : clk (step n st l) = clk st + 1 /\
  (forall k, th (step n st l) k <> Idle -> (th st k <> Idle /\ since (step n st l) k = since st k) \/ since (step n st l) k = clk st).
Proof.
  destruct l as [i v|i|i| |]; unfold step, step0.
  - destruct (th st i) eqn:E; shape; (split; [reflexivity|]); intros k Hk; auto.
    unfold updf in *. destruct (Nat.eqb_spec k i) as [Hki|Hki]; auto.
  - destruct (th st i) eqn:E; shape; (split; [reflexivity|]); intros k Hk; auto.
    unfold updf in *. destruct (Nat.eqb_spec k i) as [Hki|Hki]; auto.
  - destruct (tstep_frame n st i) as (Hc & Hs & Hoth & _). split; [exact Hc|]. intros k Hk. left. rewrite Hs. split; [|reflexivity].
    destruct (Nat.eq_dec k i) as [->|Hki]; [|now rewrite <- (Hoth k Hki)].
    intros E. apply Hk. unfold tstep, tick. rewrite E. cbn. exact E.
  - shape. split; [reflexivity|]. intros k Hk. auto.
  - shape. split; [reflexivity|]. intros k Hk. auto.
Qed.

Lemma run_clock ls : forall st, clk st <= clk (run n st ls) /\
  (forall k, th (run n st ls) k <> Idle -> (th st k <> Idle /\ since (run n st ls) k = since st k) \/ clk st <= since (run n st ls) k).
Proof.
  induction ls as [|l ls IH]; intros st.
  - cbn. split; [lia|]. intros k Hk. auto.
  - rewrite run_cons. destruct (IH (step n st l)) as (Hc & Hs). destruct (step_clock st l) as (Hc1 & Hs1). split; [lia|].
    intros k Hk. destruct (Hs k Hk) as [(Hne & E)|Hge]; [|right; lia].
    destruct (Hs1 k Hne) as [(Hne0 & E0)|E0]; [left; split; [exact Hne0|congruence]|right; lia].
Qed.

Record CKr (L : lstate) (r : nat) (g : Z -> Z) : Prop := {
  c_mono : forall c c', 0 <= c -> c <= c' -> c' < clk (rings L r) -> g c <= g c';
  c_lt : forall c, 0 <= c -> c < clk (rings L r) -> g c < gclk L;
  c_enq : forall i qa qb d T i' a' b' d', In (i, qa, qb, QEnq d r T) (qtrace L) -> In (i', a', b', EvEnq d' (Some T)) (trace (rings L r)) ->
            qa <= g a' /\ g b' <= qb;
  c_deq : forall i qa qb H v i' a' b' v', In (i, qa, qb, QDeq (Some (r, H, v))) (qtrace L) -> In (i', a', b', EvDeq (Some (H, v'))) (trace (rings L r)) ->
            qa <= g a' /\ g b' <= qb;
  c_fl : forall i, th (rings L r) i <> Idle -> qsince L i <= g (since (rings L r) i);
  c_lk : forall i d cq i' a' b' d', lnk (qth L i) = Some (d, cq) -> r = S cq -> In (i', a', b', EvEnq d' (Some n)) (trace (rings L r)) ->
           qsince L i <= g a'
}.
Definition CK (L : lstate) : Prop := forall r, exists g, CKr L r g.

Lemma ck_init : CK (linit n).
Proof.
  intros r. exists (fun _ => 0). constructor; cbn [linit rings nr qh qt mu qth gclk qsince qtrace cov init clk trace th since]; try (intros; contradiction); try lia.
Qed.

Lemma pc_not_idle d s : enq_pc d s \/ deq_pc s -> s <> Idle.
Proof. intros [H|H] E; rewrite E in H; exact H. Qed.

Lemma ck_quiet L L' : LInv n K L -> QT n L -> QT n L' -> ST L -> gclk L' = gclk L + 1 ->
  (forall j, qsince L' j <= gclk L) -> (forall j, qth L j <> QIdle -> qsince L' j = qsince L j) ->
  quiet_step n L L' -> CK L -> CK L'.
Proof.
  intros HL HQ HQ' HS Hg Hle Hns (cq & R' & ls & er & eq & Hr & Hnr & HR & Htr & Hq & Hlk & Hm & Hst) HC r.
  destruct (HC r) as (g & Hc).
  assert (Hact : forall i, th (rings L r) i <> Idle -> qth L i <> QIdle).
  { intros i Hi E. pose proof (l_act _ _ _ HL i r Hi) as Ha. rewrite E in Ha. discriminate Ha. }
  assert (Hlkn : forall i d c, lnk (qth L i) = Some (d, c) -> qth L i <> QIdle) by (intros i d c E X; rewrite X in E; discriminate E).
  destruct (Nat.eq_dec r cq) as [->|Hrc].
  2:{ exists g. assert (Er : rings L' r = rings L r) by (rewrite Hr; destruct (Nat.eqb_spec r cq); [contradiction|reflexivity]).
      assert (Hqe : forall i a b d T, In (i, a, b, QEnq d r T) (qtrace L') -> In (i, a, b, QEnq d r T) (qtrace L)).
      { intros i a b d T Hin. rewrite Hq in Hin. apply in_app_or in Hin as [Hin|Hin]; [exact Hin|]. exfalso.
        destruct Hm as [(_ & Hn0)|[(i0 & d0 & T0 & _ & E & _)|(i0 & H0 & v0 & _ & E & _)]].
        - exact (Hn0 _ Hin).
        - rewrite E in Hin. destruct Hin as [X|[]]. inversion X. subst. now apply Hrc.
        - rewrite E in Hin. destruct Hin as [X|[]]. discriminate X. }
      assert (Hqd : forall i a b H v, In (i, a, b, QDeq (Some (r, H, v))) (qtrace L') -> In (i, a, b, QDeq (Some (r, H, v))) (qtrace L)).
      { intros i a b H v Hin. rewrite Hq in Hin. apply in_app_or in Hin as [Hin|Hin]; [exact Hin|]. exfalso.
        destruct Hm as [(_ & Hn0)|[(i0 & d0 & T0 & _ & E & _)|(i0 & H0 & v0 & _ & E & _)]].
        - exact (Hn0 _ Hin).
        - rewrite E in Hin. destruct Hin as [X|[]]. discriminate X.
        - rewrite E in Hin. destruct Hin as [X|[]]. inversion X. subst. now apply Hrc. }
      constructor; rewrite ?Er.
      - apply (c_mono _ _ _ Hc).
      - intros c H0 H1. pose proof (c_lt _ _ _ Hc c H0 H1). lia.
      - intros i qa qb d T i' a' b' d' Hin Hin'. exact (c_enq _ _ _ Hc _ _ _ _ _ _ _ _ _ (Hqe _ _ _ _ _ Hin) Hin').
      - intros i qa qb H v i' a' b' v' Hin Hin'. exact (c_deq _ _ _ Hc _ _ _ _ _ _ _ _ _ (Hqd _ _ _ _ _ Hin) Hin').
      - intros i Hi. rewrite (Hns i (Hact i Hi)). apply (c_fl _ _ _ Hc i Hi).
      - intros i d c i' a' b' d' E Hrs Hin. rewrite Hlk in E. rewrite (Hns i (Hlkn _ _ _ E)). exact (c_lk _ _ _ Hc _ _ _ _ _ _ _ E Hrs Hin). }
  set (R := rings L cq) in *.
  assert (Er : rings L' cq = R') by (rewrite Hr, Nat.eqb_refl; reflexivity).
  destruct (t_proj _ _ HQ cq) as (rs & Hrs). fold R in Hrs.
  assert (HO : Ord R) by (rewrite Hrs; apply ord_reach; exact Hn).
  assert (HR'p : R' = run n (init n) (rs ++ ls)) by (rewrite run_app, <- Hrs; exact HR).
  assert (HO' : Ord R') by (rewrite HR'p; apply ord_reach; exact Hn).
  assert (HI' : Inv n R') by (rewrite HR'p; apply inv_reach; exact Hn).
  destruct (run_clock ls R) as (Hck & Hsn). rewrite <- HR in Hck, Hsn.
  assert (Hold : forall i a b ev, In (i, a, b, ev) (trace R) -> 0 <= a /\ a <= b < clk R) by (apply (o_tr _ HO)).
  assert (Hgl : forall c, 0 <= c -> c < clk R -> g c < gclk L) by (apply (c_lt _ _ _ Hc)).
  assert (Hsl : forall i, qsince L i <= gclk L) by (intros i; apply (s_since _ HS i)).
  assert (Hne : NoDup (enq_tickets (trace R ++ er))) by (rewrite <- Htr; apply (o_u1 _ HO')).
  assert (Hnd : NoDup (deq_tickets (trace R ++ er))) by (rewrite <- Htr; apply (i_tr_nd _ _ HI')).
  assert (Hqne : NoDup (qenq_ids (qtrace L ++ eq))) by (rewrite <- Hq; apply (t_ne _ _ HQ')).
  assert (Hqnd : NoDup (qdeq_ids (qtrace L ++ eq))) by (rewrite <- Hq; apply (t_nd _ _ HQ')).
  exists (fun c => if c <? clk R then g c else gclk L).
  constructor; rewrite ?Er; cbv beta.
  - intros c c' H0 H1 H2. destruct (Z.ltb_spec c (clk R)) as [Ha|Ha], (Z.ltb_spec c' (clk R)) as [Hb|Hb]; try lia.
    + apply (c_mono _ _ _ Hc); auto.
    + pose proof (Hgl c H0 Ha). lia.
  - intros c H0 H1. destruct (Z.ltb_spec c (clk R)) as [Ha|Ha]; [pose proof (Hgl c H0 Ha); lia|lia].
  - intros i qa qb d T i' a' b' d' Hin Hin'. rewrite Hq in Hin. rewrite Htr in Hin'.
    apply in_app_or in Hin as [Hin|Hin]; apply in_app_or in Hin' as [Hin'|Hin'].
    + destruct (Hold _ _ _ _ Hin') as (Ha0 & Hab). destruct (Z.ltb_spec a' (clk R)); [|lia]. destruct (Z.ltb_spec b' (clk R)); [|lia].
      exact (c_enq _ _ _ Hc _ _ _ _ _ _ _ _ _ Hin Hin').
    + exfalso. destruct Hm as [(Hn0 & _)|[(i0 & d0 & T0 & E1 & E2 & _)|(i0 & H0 & v0 & E1 & _)]].
      * exact (Hn0 _ Hin').
      * rewrite E2, qenq_ids_app in Hqne. cbn in Hqne. apply nodup_snoc_inv in Hqne.
        rewrite E1 in Hin'. destruct Hin' as [X|[]]. inversion X; subst. apply Hqne. apply qenq_ids_in. eauto.
      * rewrite E1 in Hin'. destruct Hin' as [X|[]]. discriminate X.
    + exfalso. destruct Hm as [(_ & Hn0)|[(i0 & d0 & T0 & E1 & E2 & _)|(i0 & H0 & v0 & _ & E2 & _)]].
      * exact (Hn0 _ Hin).
      * rewrite E1, enq_tickets_app in Hne. cbn in Hne. apply nodup_snoc_inv in Hne.
        rewrite E2 in Hin. destruct Hin as [X|[]]. inversion X; subst. apply Hne. apply enq_tickets_in. eauto.
      * rewrite E2 in Hin. destruct Hin as [X|[]]. discriminate X.
    + destruct Hm as [(Hn0 & _)|[(i0 & d0 & T0 & E1 & E2 & Hpc)|(i0 & H0 & v0 & E1 & _)]].
      * exfalso. exact (Hn0 _ Hin').
      * rewrite E1 in Hin'. destruct Hin' as [X|[]]. rewrite E2 in Hin. destruct Hin as [Y|[]]. inversion X; inversion Y; subst. fold R.
        rewrite Z.ltb_irrefl. split; [|lia].
        destruct (Z.ltb_spec (since R i) (clk R)); [|apply Hsl]. apply (c_fl _ _ _ Hc).
        apply (pc_not_idle d). left. exact (l_epc _ _ _ HL _ _ _ Hpc).
      * exfalso. rewrite E1 in Hin'. destruct Hin' as [X|[]]. discriminate X.
  - intros i qa qb H v i' a' b' v' Hin Hin'. rewrite Hq in Hin. rewrite Htr in Hin'.
    apply in_app_or in Hin as [Hin|Hin]; apply in_app_or in Hin' as [Hin'|Hin'].
    + destruct (Hold _ _ _ _ Hin') as (Ha0 & Hab). destruct (Z.ltb_spec a' (clk R)); [|lia]. destruct (Z.ltb_spec b' (clk R)); [|lia].
      exact (c_deq _ _ _ Hc _ _ _ _ _ _ _ _ _ Hin Hin').
    + exfalso. destruct Hm as [(Hn0 & _)|[(i0 & d0 & T0 & E1 & _)|(i0 & H0 & v0 & E1 & E2 & _)]].
      * exact (Hn0 _ Hin').
      * rewrite E1 in Hin'. destruct Hin' as [X|[]]. discriminate X.
      * rewrite E2, qdeq_ids_app in Hqnd. cbn in Hqnd. apply nodup_snoc_inv in Hqnd.
        rewrite E1 in Hin'. destruct Hin' as [X|[]]. inversion X; subst. apply Hqnd. apply qdeq_ids_in. eauto.
    + exfalso. destruct Hm as [(_ & Hn0)|[(i0 & d0 & T0 & _ & E2 & _)|(i0 & H0 & v0 & E1 & E2 & _)]].
      * exact (Hn0 _ Hin).
      * rewrite E2 in Hin. destruct Hin as [X|[]]. discriminate X.
      * rewrite E1, deq_tickets_app in Hnd. cbn in Hnd. apply nodup_snoc_inv in Hnd.
        rewrite E2 in Hin. destruct Hin as [X|[]]. inversion X; subst. apply Hnd. apply (deq_tickets_ret R _ v'). exists i', a', b'. exact Hin'.
    + destruct Hm as [(Hn0 & _)|[(i0 & d0 & T0 & E1 & _)|(i0 & H0 & v0 & E1 & E2 & Hpc)]].
      * exfalso. exact (Hn0 _ Hin').
      * exfalso. rewrite E1 in Hin'. destruct Hin' as [X|[]]. discriminate X.
      * rewrite E1 in Hin'. destruct Hin' as [X|[]]. rewrite E2 in Hin. destruct Hin as [Y|[]]. inversion X; inversion Y; subst. fold R.
        rewrite Z.ltb_irrefl. split; [|lia].
        destruct (Z.ltb_spec (since R i) (clk R)); [|apply Hsl]. apply (c_fl _ _ _ Hc).
        apply (pc_not_idle 0). right. exact (l_dpc _ _ _ HL _ _ Hpc).
  - intros i Hi. destruct (Hsn i Hi) as [(Hne0 & E)|Hge].
    + rewrite E, (Hns i (Hact i Hne0)). destruct (Z.ltb_spec (since R i) (clk R)); [apply (c_fl _ _ _ Hc i Hne0)|apply Hsl].
    + destruct (Z.ltb_spec (since R' i) (clk R)); [lia|]. apply Hle.
  - intros i d c i' a' b' d' E Hrs' Hin. rewrite Hlk in E. rewrite (Hns i (Hlkn _ _ _ E)). rewrite Htr in Hin. apply in_app_or in Hin as [Hin|Hin].
    + destruct (Hold _ _ _ _ Hin) as (Ha0 & Hab). destruct (Z.ltb_spec a' (clk R)); [|lia]. exact (c_lk _ _ _ Hc _ _ _ _ _ _ _ E Hrs' Hin).
    + exfalso. destruct Hm as [(Hn0 & _)|[(i0 & d0 & T0 & E1 & _)|(i0 & H0 & v0 & E1 & _)]].
      * exact (Hn0 _ Hin).
      * rewrite E1 in Hin. destruct Hin as [X|[]]. inversion X; subst. rewrite enq_tickets_app in Hne. cbn in Hne.
        apply nodup_snoc_inv in Hne. apply Hne. destruct (t_lr _ _ HQ i d c E) as (i1 & a1 & b1 & Hin1). apply enq_tickets_in. exists i1, a1, b1, d. exact Hin1.
      * rewrite E1 in Hin. destruct Hin as [X|[]]. discriminate X.
Qed.

Lemma deq_event_lt L i a b r H v : LInv n K L -> QT n L -> In (i, a, b, QDeq (Some (r, H, v))) (qtrace L) -> (r < nr L)%nat.
Proof.
  intros HL HQ Hin. destruct (Nat.lt_ge_cases r (nr L)) as [Hlt|Hge]; [exact Hlt|]. exfalso.
  destruct (t_d1 _ _ HQ _ _ _ _ _ _ Hin) as (i0 & a0 & b0 & Hin0). destruct (l_unl _ _ _ HL r Hge) as (E & _). rewrite E in Hin0. destruct Hin0.
Qed.

Lemma ck_link L L' : LInv n K L -> QT n L -> ST L -> gclk L' = gclk L + 1 ->
  (forall j, qth L j <> QIdle -> qsince L' j = qsince L j) ->
  link_step n L L' -> CK L -> CK L'.
Proof.
  intros HL HQ HS Hg Hns (i & d & cq & Eq & Hnr & Hnr' & Hr & Hq & Hth) HC r.
  assert (Hact : forall k r0, th (rings L r0) k <> Idle -> qth L k <> QIdle).
  { intros k r0 Hi E. pose proof (l_act _ _ _ HL k r0 Hi) as Ha. rewrite E in Ha. discriminate Ha. }
  destruct (Nat.eq_dec r (nr L)) as [->|Hrn].
  - exists (fun _ => qsince L i).
    assert (Er : rings L' (nr L) = fresh_with n i d) by (rewrite Hr, Nat.eqb_refl; reflexivity).
    destruct (fresh_fields n Hn K i d) as (_ & _ & _ & _ & Hfth & _).
    constructor; rewrite ?Er.
    + intros. lia.
    + intros c _ _. pose proof (s_since _ HS i). lia.
    + intros i0 qa qb d0 T i' a' b' d' Hin _. rewrite Hq in Hin. pose proof (enq_event_lt L _ _ _ _ _ _ HL HQ Hin). lia.
    + intros i0 qa qb H v i' a' b' v' Hin _. rewrite Hq in Hin. pose proof (deq_event_lt L _ _ _ _ _ _ HL HQ Hin). lia.
    + intros k Hk. exfalso. apply Hk. apply Hfth.
    + intros j d' c' i' a' b' d'' E Hs' _. rewrite Hth in E. destruct (Nat.eqb_spec j i) as [->|Hji].
      * rewrite (Hns i) by (rewrite Eq; discriminate). lia.
      * exfalso. assert (Hx : nxt (qth L j) = Some c') by (destruct (qth L j); cbn in E; try discriminate E; inversion E; reflexivity).
        pose proof (l_nxt _ _ _ HL j c' Hx). lia.
  - destruct (HC r) as (g & Hc). exists g.
    assert (Er : rings L' r = rings L r) by (rewrite Hr; destruct (Nat.eqb_spec r (nr L)); [contradiction|reflexivity]).
    constructor; rewrite ?Er; rewrite ?Hq.
    + apply (c_mono _ _ _ Hc).
    + intros c H0 H1. pose proof (c_lt _ _ _ Hc c H0 H1). lia.
    + apply (c_enq _ _ _ Hc).
    + apply (c_deq _ _ _ Hc).
    + intros k Hk. rewrite (Hns k (Hact k r Hk)). apply (c_fl _ _ _ Hc k Hk).
    + intros j d' c' i' a' b' d'' E Hs' Hin. rewrite Hth in E. destruct (Nat.eqb_spec j i) as [->|Hji].
      * cbn in E. inversion E; subst. lia.
      * rewrite (Hns j) by (intros X; rewrite X in E; discriminate E). exact (c_lk _ _ _ Hc _ _ _ _ _ _ _ E Hs' Hin).
Qed.

Lemma ck_lret L L' : LInv n K L -> QT n L -> ST L -> gclk L' = gclk L + 1 ->
  (forall j, qth L j <> QIdle -> qsince L' j = qsince L j) ->
  lret_step n L L' -> CK L -> CK L'.
Proof.
  intros HL HQ HS Hg Hns (i & d & cq & Eq & Hr & Hnr & Hq & Hth) HC r.
  assert (Hact : forall k r0, th (rings L r0) k <> Idle -> qth L k <> QIdle).
  { intros k r0 Hi E. pose proof (l_act _ _ _ HL k r0 Hi) as Ha. rewrite E in Ha. discriminate Ha. }
  destruct (HC r) as (g & Hc). exists g.
  destruct (t_proj _ _ HQ r) as (rs & Hrs).
  assert (HO : Ord (rings L r)) by (rewrite Hrs; apply ord_reach; exact Hn).
  constructor; rewrite ?Hr.
  - apply (c_mono _ _ _ Hc).
  - intros c H0 H1. pose proof (c_lt _ _ _ Hc c H0 H1). lia.
  - intros i0 qa qb d0 T i' a' b' d' Hin Hin'. rewrite Hq in Hin. apply in_app_or in Hin as [Hin|[X|[]]].
    + exact (c_enq _ _ _ Hc _ _ _ _ _ _ _ _ _ Hin Hin').
    + inversion X; subst. split.
      * apply (c_lk _ _ _ Hc i0 d0 cq i' a' b' d'); auto. rewrite Eq. reflexivity.
      * destruct (o_tr _ HO _ _ _ _ Hin') as (Ha0 & Hab). pose proof (c_lt _ _ _ Hc b' ltac:(lia) ltac:(lia)). lia.
  - intros i0 qa qb H v i' a' b' v' Hin Hin'. rewrite Hq in Hin. apply in_app_or in Hin as [Hin|[X|[]]]; [|discriminate X].
    exact (c_deq _ _ _ Hc _ _ _ _ _ _ _ _ _ Hin Hin').
  - intros k Hk. rewrite (Hns k (Hact k r Hk)). apply (c_fl _ _ _ Hc k Hk).
  - intros j d' c' i' a' b' d'' E Hs' Hin. rewrite Hth in E. destruct (Nat.eqb_spec j i) as [->|Hji]; [discriminate E|].
    rewrite (Hns j) by (intros X; rewrite X in E; discriminate E). exact (c_lk _ _ _ Hc _ _ _ _ _ _ _ E Hs' Hin).
Qed.

Lemma all_reach sched : (forall l, In l sched -> (qthread l < K)%nat) ->
  let L := qrun n (linit n) sched in LInv n K L /\ QT n L /\ ST L /\ RI L /\ CK L.
Proof.
  intros Hs. cbv zeta. unfold qrun.
  assert (G : forall L, LInv n K L /\ QT n L /\ ST L /\ RI L /\ CK L ->
     let L' := fold_left (qstep n) sched L in LInv n K L' /\ QT n L' /\ ST L' /\ RI L' /\ CK L').
  { induction sched as [|l s IH]; intros L HL; [exact HL|]. cbn [fold_left]. apply IH.
    - intros l' Hl'. apply Hs. now right.
    - destruct HL as (HL & HQ & HS & HR & HC). assert (Hl : (qthread l < K)%nat) by (apply Hs; now left).
      assert (HL' : LInv n K (qstep n L l)) by (now apply linv_qstep).
      assert (HQ' : QT n (qstep n L l)).
      { destruct (qstep_shape n K L l HL Hl) as [H|[H|H]]; [exact (qt_quiet n Hn L _ HQ H)|exact (qt_link n Hn K L _ HL HQ H)|exact (qt_lret n L _ HQ H)]. }
      split; [exact HL'|]. split; [exact HQ'|]. split; [now apply st_step|]. split; [now apply ri_step|].
      assert (Hle : forall j, qsince (qstep n L l) j <= gclk L).
      { intros j. pose proof (s_since _ HS j). destruct (qsince_step L l j) as [->|(_ & ->)]; lia. }
      destruct (qstep_shape n K L l HL Hl) as [H|[H|H]].
      + exact (ck_quiet L _ HL HQ HQ' HS (gclk_step L l) Hle (fun j Hj => not_idle_since L l j Hj) H HC).
      + exact (ck_link L _ HL HQ HS (gclk_step L l) (fun j Hj => not_idle_since L l j Hj) H HC).
      + exact (ck_lret L _ HL HQ HS (gclk_step L l) (fun j Hj => not_idle_since L l j Hj) H HC). }
  apply G. split; [now apply linv_init|]. split; [apply qt_init|]. split; [apply st_init|]. split; [apply ri_init|apply ck_init].
Qed.

End Time.
