(* C05 - the small-step SCQ ring: the completed calls of a quiescent reachable state, as a timed history over
   TICKETS (Aspects.v), satisfy three of the four conditions of the property statement for every schedule
   (no fresh value, no repeat, real-time enqueue order kept by dequeues).  The fourth (empty answers) is FALSE for
   the ring on its own once an Enqueue has failed: ProofsScqFifo.empty_refuted. *)
From Coq Require Import ZArith List Bool Lia Arith.
Import ListNotations.
From VF Require Import Common.Base C05.Aspects C05.Proofs_Aspects C05.Lin C05.Proofs_Lin.
From VF Require Import C05.Scq C05.ProofsScqInv C05.ProofsScqSafe C05.ProofsScqOrd.
Open Scope Z_scope.

(* completed calls as events over tickets; failed Enqueues (no effect on the ring's contents) are left out *)
Definition ev_of (x : nat * Z * Z * event) : list Aspects.event :=
  match x with
  | (i, a, b, EvEnq _ (Some T)) => [{| inv := a; resp := b; who := Z.of_nat i; what := HEnq T |}]
  | (i, a, b, EvEnq _ None) => []
  | (i, a, b, EvDeq (Some (H, _))) => [{| inv := a; resp := b; who := Z.of_nat i; what := HDeq H |}]
  | (i, a, b, EvDeq None) => [{| inv := a; resp := b; who := Z.of_nat i; what := HEmpty |}]
  end.
Definition hist_of (tr : list (nat * Z * Z * event)) : history := flat_map ev_of tr.

Definition quiescent (st : state) : Prop := forall i, th st i = Idle.

Lemma hist_enq tr e T : In e (hist_of tr) -> is_enq T e -> exists i v, In (i, inv e, resp e, EvEnq v (Some T)) tr.
Proof.
  unfold hist_of. rewrite in_flat_map. intros ([[[i a] b] ev] & Hin & He) Ee.
  destruct ev as [v [T'|]|[[H v]|]]; cbn in He; try tauto; destruct He as [<-|[]]; cbn in *; unfold is_enq in Ee; cbn in Ee; try discriminate.
  inversion Ee; subst. eauto.
Qed.
Lemma hist_deq tr e H : In e (hist_of tr) -> is_deq H e -> exists i v, In (i, inv e, resp e, EvDeq (Some (H, v))) tr.
Proof.
  unfold hist_of. rewrite in_flat_map. intros ([[[i a] b] ev] & Hin & He) Ee.
  destruct ev as [v [T'|]|[[H' v]|]]; cbn in He; try tauto; destruct He as [<-|[]]; cbn in *; unfold is_deq in Ee; cbn in Ee; try discriminate.
  inversion Ee; subst. eauto.
Qed.
Lemma enq_hist tr i a b v T : In (i, a, b, EvEnq v (Some T)) tr ->
  In {| inv := a; resp := b; who := Z.of_nat i; what := HEnq T |} (hist_of tr).
Proof. intros Hin. unfold hist_of. apply in_flat_map. eexists. split; [exact Hin|]. cbn. now left. Qed.
Lemma deq_hist tr i a b v H : In (i, a, b, EvDeq (Some (H, v))) tr ->
  In {| inv := a; resp := b; who := Z.of_nat i; what := HDeq H |} (hist_of tr).
Proof. intros Hin. unfold hist_of. apply in_flat_map. eexists. split; [exact Hin|]. cbn. now left. Qed.

Lemma enq_values_hist tr : enq_values (hist_of tr) = enq_tickets tr.
Proof.
  induction tr as [|[[[i a] b] ev] tr IH]; [reflexivity|].
  unfold hist_of in *. cbn [flat_map]. unfold enq_values in *. rewrite flat_map_app, IH.
  destruct ev as [v [T|]|[[H v]|]]; reflexivity.
Qed.
Lemma deq_values_hist tr : deq_values (hist_of tr) = deq_tickets tr.
Proof.
  induction tr as [|[[[i a] b] ev] tr IH]; [reflexivity|].
  unfold hist_of in *. cbn [flat_map]. unfold deq_values in *. rewrite flat_map_app, IH.
  destruct ev as [v [T|]|[[H v]|]]; reflexivity.
Qed.

Section Fifo.
Variable n : Z.
Hypothesis Hn : 1 <= n.

Theorem scq_fifo_order sched :
  let st := run n (init n) sched in
  quiescent st ->
  let h := hist_of (trace st) in
  Stamped h /\ UniqueValues h /\ NoFresh h /\ NoRepeat h /\ OrderKept h.
Proof.
  intros st Hq h.
  pose proof (inv_reach n Hn sched) as HI. pose proof (ord_reach n Hn sched) as HO.
  pose proof (scq_safety n Hn sched) as (S1 & S2 & S3 & S4 & S5).
  pose proof (scq_no_loss n Hn sched) as HL. fold st in HI, HO, S1, S2, S3, S4, S5, HL.
  assert (Hno_e : forall T v, ~ enq_inflight st T v).
  { intros T v (i & [Hi|Hi]); rewrite Hq in Hi; discriminate Hi. }
  assert (Hno_d : forall H v, ~ deq_inflight st H v).
  { intros H v (i & [Hi|Hi]); rewrite Hq in Hi; discriminate Hi. }
  split; [|split; [|split; [|split]]].
  - (* Stamped *)
    intros e He. unfold h, hist_of in He. apply in_flat_map in He as ([[[i a] b] ev] & Hin & He).
    pose proof (o_tr _ HO _ _ _ _ Hin) as Hs.
    destruct ev as [v [T|]|[[H v]|]]; cbn in He; try tauto; destruct He as [<-|[]]; cbn; lia.
  - unfold UniqueValues, h. rewrite enq_values_hist. apply (o_u1 _ HO).
  - (* NoFresh *)
    intros d H Hd Dd. destruct (hist_deq _ _ _ Hd Dd) as (i & v & Hin).
    assert (Hret : deq_returned st H v) by (exists i, (inv d), (resp d); exact Hin).
    destruct (S1 H v Hret) as [Hw _].
    destruct (S2 H v Hw) as [(i' & a' & b' & Hin')|Hx]; [|exfalso; exact (Hno_e _ _ Hx)].
    exists {| inv := a'; resp := b'; who := Z.of_nat i'; what := HEnq H |}.
    split; [eapply enq_hist; eauto|]. split; [reflexivity|].
    unfold before. cbn [inv]. pose proof (o_fr1 _ HO _ _ _ _ _ _ _ _ _ Hin Hin'). lia.
  - unfold NoRepeat, h. rewrite deq_values_hist. apply (i_tr_nd _ _ HI).
  - (* OrderKept *)
    intros ea eb db a b Hea Heb Hdb Ea Eb Db Hbef.
    destruct (hist_enq _ _ _ Hea Ea) as (ia & va & Ia).
    destruct (hist_enq _ _ _ Heb Eb) as (ib & vb & Ib).
    destruct (hist_deq _ _ _ Hdb Db) as (id & vd & Id).
    assert (Hab : a < b) by (exact (o_ee _ HO _ _ _ _ _ _ _ _ _ _ Ia Ib Hbef)).
    assert (Hbh : b < hd st) by (exact (i_c_rng _ _ HI _ _ (i_tr_d _ _ HI _ _ _ _ _ Id))).
    assert (Hwa : In (a, va) (wlog st)) by (exact (i_tr_e _ _ HI _ _ _ _ _ Ia)).
    assert (Hda : deq_returned st a va).
    { destruct (HL a va Hwa) as [Hx|[Hx|(_ & _ & _ & _ & _ & Hp)]]; [exact Hx|exfalso; exact (Hno_d _ _ Hx)|].
      exfalso. destruct (Hp ltac:(lia)) as (k & Hk). rewrite Hq in Hk. discriminate Hk. }
    split.
    + destruct Hda as (k & x & y & Hin). exists {| inv := x; resp := y; who := Z.of_nat k; what := HDeq a |}.
      split; [eapply deq_hist; eauto|reflexivity].
    + intros da Hda' Da Hb'. destruct (hist_deq _ _ _ Hda' Da) as (k & v' & Ida).
      pose proof (o_dd _ HO _ _ _ _ _ _ _ _ _ _ Id Ida Hb'). lia.
Qed.

(* with the fourth condition, the history is linearizable (Proofs_Lin.aspects_linearizable) *)
Corollary scq_linearizable_if_empty_justified sched :
  let st := run n (init n) sched in
  quiescent st -> EmptyJustified (hist_of (trace st)) -> fifo_linearizable (hist_of (trace st)).
Proof.
  intros st Hq HE. destruct (scq_fifo_order sched Hq) as (H1 & H2 & H3 & H4 & H5).
  apply aspects_linearizable; [exact H1|exact H2|]. split; [exact H3|split; [exact H4|split; [exact H5|exact HE]]].
Qed.

End Fifo.

(* ------------------------------------------------------------------ the fourth condition fails for the ring alone *)
Definition solo_call_sched (l : label) (k : nat) : list label := l :: repeat (LStep 0) k.
(* ONE thread, ring of one slot: Enqueue(1) ok; Enqueue(2), (3), (4) fail (ring full; each failed attempt still takes
   a tail ticket); Dequeue -> 1; Enqueue(9) ok with ticket 5; Dequeue: tickets 2 and 3 find nothing, the threshold
   (2n-1 = 1) is used up, answer EMPTY - while 9 sits in the ring and its Enqueue returned long before *)
Definition false_empty_schedule : list label :=
  solo_call_sched (LEnq 0 1) 5 ++ solo_call_sched (LEnq 0 2) 3 ++ solo_call_sched (LEnq 0 3) 3 ++
  solo_call_sched (LEnq 0 4) 3 ++ solo_call_sched (LDeq 0) 5 ++ solo_call_sched (LEnq 0 9) 4 ++ solo_call_sched (LDeq 0) 9.

Example empty_refuted :
  let st := run 1 (init 1) false_empty_schedule in
  quiescent st /\
  map (fun x => snd x) (trace st) =
    [EvEnq 1 (Some 1); EvEnq 2 None; EvEnq 3 None; EvEnq 4 None; EvDeq (Some (1, 1)); EvEnq 9 (Some 5); EvDeq None] /\
  ring st 0 = mkE true false 5 9 /\ thr st = -1 /\
  ~ EmptyJustified (hist_of (trace st)) /\ ~ fifo_linearizable (hist_of (trace st)).
Proof.
  cbv zeta. split; [|split; [vm_compute; reflexivity|split; [vm_compute; reflexivity|split; [vm_compute; reflexivity|]]]].
  - intros i. assert (Hth : th (run 1 (init 1) false_empty_schedule) 0%nat = Idle) by (vm_compute; reflexivity).
    destruct i; [exact Hth|]. vm_compute. reflexivity.
  - split.
    + intros HE. apply empty_ok in HE. vm_compute in HE. discriminate HE.
    + intros HL. apply fifo_lin_check_correct in HL. vm_compute in HL. discriminate HL.
Qed.

(* the fourth condition also fails WITHOUT any failed Enqueue, once more than 2n-1 dequeuers are stale: ring of two
   slots (threshold 3), eight threads.  One value goes in and out (the threshold stays 3).  Five Dequeues take
   tickets on the empty ring, advance the cycles of their slots and stall before loading tail.  Enqueue(7) has to
   skip five tickets, writes with ticket 8 = head, returns.  The five stale dequeuers wake up: tail is ahead of
   them, so each only decrements the threshold: 3 -> -2; the first three go round again and stall before their
   fetch-add, two answer empty (justified: they overlap everything).  A NEW Dequeue sees threshold < 0 and answers
   EMPTY although Enqueue(7) returned before it was invoked.  Enqueue(8) resets the threshold; another new Dequeue
   takes ticket 8 and returns 7.  Enqueue(7) < Dequeue -> empty < Dequeue -> 7 in real time: not linearizable.
   (The published algorithm assumes at most n threads; the Go code has no such bound - it would take 2*65536+1
   goroutines stalled inside Dequeue at the real ring size.) *)
Definition stale_schedule : list label :=
  let st (i : nat) k := repeat (LStep i) k in
  [LEnq 0 100] ++ st 0%nat 5%nat ++ [LDeq 1] ++ st 1%nat 5%nat ++
  ([LDeq 1] ++ st 1%nat 4%nat) ++ ([LDeq 2] ++ st 2%nat 4%nat) ++ ([LDeq 3] ++ st 3%nat 4%nat) ++
  ([LDeq 4] ++ st 4%nat 4%nat) ++ ([LDeq 5] ++ st 5%nat 4%nat) ++
  [LEnq 0 7] ++ st 0%nat 19%nat ++
  st 1%nat 2%nat ++ st 2%nat 2%nat ++ st 3%nat 2%nat ++ st 4%nat 2%nat ++ st 5%nat 2%nat ++
  [LDeq 6] ++ st 6%nat 1%nat ++
  [LEnq 0 8] ++ st 0%nat 5%nat ++
  [LDeq 7] ++ st 7%nat 5%nat ++
  st 1%nat 4%nat ++ st 2%nat 8%nat ++ st 3%nat 8%nat.

Example threshold_refuted :
  let st := run 2 (init 2) stale_schedule in
  quiescent st /\
  map (fun x => (fst (fst (fst x)), snd x)) (trace st) =
    [(0%nat, EvEnq 100 (Some 2)); (1%nat, EvDeq (Some (2, 100))); (0%nat, EvEnq 7 (Some 8)); (4%nat, EvDeq None); (5%nat, EvDeq None);
     (6%nat, EvDeq None); (0%nat, EvEnq 8 (Some 9)); (7%nat, EvDeq (Some (8, 7))); (1%nat, EvDeq (Some (9, 8))); (2%nat, EvDeq None);
     (3%nat, EvDeq None)] /\
  (forall i a b v, ~ In (i, a, b, EvEnq v None) (trace st)) /\
  ~ EmptyJustified (hist_of (trace st)) /\ ~ fifo_linearizable (hist_of (trace st)).
Proof.
  cbv zeta. split; [|split; [vm_compute; reflexivity|split]].
  - intros i. do 8 (destruct i as [|i]; [vm_compute; reflexivity|]). vm_compute. reflexivity.
  - intros i a b v Hin.
    assert (Hf : forallb (fun x => match snd x with EvEnq _ None => false | _ => true end)
                         (trace (run 2 (init 2) stale_schedule)) = true) by (vm_compute; reflexivity).
    rewrite forallb_forall in Hf. specialize (Hf _ Hin). discriminate Hf.
  - split.
    + intros HE. apply empty_ok in HE. vm_compute in HE. discriminate HE.
    + intros HL. apply fifo_lin_check_correct in HL. vm_compute in HL. discriminate HL.
Qed.

Print Assumptions scq_fifo_order.
Print Assumptions scq_linearizable_if_empty_justified.
Print Assumptions empty_refuted.
Print Assumptions threshold_refuted.
