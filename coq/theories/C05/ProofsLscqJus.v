(* C05 - the LSCQ layer: justified empty answers.  A queue-level Dequeue answers empty only after the ring-level
   Dequeue on the last ring answered empty; at the instant that answer was decided every value whose queue-level
   Enqueue had returned was already spoken for by a Dequeue invoked before (the threshold budget of that ring, the
   drained rings before it, no ring after it). *)
From Coq Require Import ZArith List Bool Lia Arith.
Import ListNotations.
From VF Require Import Common.Base C05.Aspects C05.Proofs_Aspects C05.Lin C05.Proofs_Lin.
From VF Require Import C05.Scq C05.ScqAux C05.Lscq C05.ProofsScqInv C05.ProofsScqSafe C05.ProofsScqOrd C05.ProofsScqTie
  C05.ProofsScqCount C05.ProofsScqThr C05.ProofsScqThr2
  C05.ProofsScqEmpty C05.ProofsScqDead C05.ProofsLscqFresh C05.ProofsLscqFresh2 C05.ProofsLscq C05.ProofsLscqStep C05.ProofsLscqShape
  C05.ProofsLscqSafe C05.ProofsLscqThm C05.ProofsLscqTime C05.ProofsLscqLin.
Open Scope Z_scope.

(* at instant s the value (r, T) is spoken for: a queue-level Dequeue invoked by s has returned it, or is inside the
   ring call on r holding dequeue ticket T *)
Definition qserved (L : lstate) (s : Z) (r : nat) (T : Z) : Prop :=
  (exists k c e x, In (k, c, e, QDeq (Some (r, T, x))) (qtrace L) /\ c <= s) \/
  (exists k, in_ring (qth L k) = Some r /\ dticket (th (rings L r) k) = Some T /\ qsince L k <= s).
(* every Enqueue into rings 0..cq that returned by s is served at s *)
Definition qjustb (L : lstate) (s : Z) (cq : nat) : Prop :=
  forall i a b d r T, In (i, a, b, QEnq d r T) (qtrace L) -> b <= s -> (r <= cq)%nat -> qserved L s r T.

Record QJ (L : lstate) : Prop := {
  qj_tr : forall i a b, In (i, a, b, QDeq None) (qtrace L) -> exists s, a <= s < b /\ (forall cq, qjustb L s cq);
  qj_f : forall i cq, qth L i = QD_ring1 cq -> isF (th (rings L cq) i) = true -> exists s, qsince L i <= s < gclk L /\ qjustb L s cq;
  qj_n : forall i cq, qth L i = QD_ldnext cq -> exists s, qsince L i <= s < gclk L /\ qjustb L s cq;
  qj_act : forall i, qth L i <> QIdle -> qsince L i < gclk L
}.

Section Jus.
Variable n : Z.
Hypothesis Hn : 1 <= n.
Variable K : nat.
Hypothesis HK : Z.of_nat K <= n + 1.

Ltac lflat := cbn [rings nr qh qt mu qth gclk qsince qtrace cov].
Ltac unf := unfold qtick, set_q, set_qt, set_qh, set_mu, qret, qinvoke, Lscq.set_ring, set_cov, link; lflat.
Ltac brk := repeat match goal with
  | |- context [if ?b then _ else _] => destruct b eqn:?
  | |- context [match last_ev ?x with _ => _ end] => destruct (last_ev x) as [[? [?|]|[[? ?]|]]|]
  | |- context [match mu ?L ?c with _ => _ end] => destruct (mu L c)
  end; unf.
Tactic Notation "cases" constr(L) constr(l) ident(i) ident(Eq) :=
  unfold qstep, qstep_th; destruct l as [i ?|i|i]; destruct (qth L i) eqn:Eq; cbv zeta; unf; brk.
Ltac shape := unfold tick, goto, ret, invoke, set_thr, set_closed;
  cbn [ring hd tl closed thr th wlog clog plog clk since trace].

(* ------------------------------------------------------------------ how pcs move *)
Lemma dpc_step L l j cq :
  (qth (qstep n L l) j = QD_ring1 cq -> qth L j = QD_ring1 cq \/ qth L j = QD_ldhead) /\
  (qth (qstep n L l) j = QD_ldnext cq -> qth L j = QD_ldnext cq \/ qth L j = QD_ring1 cq).
Proof.
  cases L l i Eq; (split; [|]); auto; unfold updf; destruct (Nat.eqb_spec j i) as [->|]; auto; rewrite ?Eq; auto; try discriminate;
    intros E; inversion E; subst; auto.
Qed.

Lemma none_step L l i a b : In (i, a, b, QDeq None) (qtrace (qstep n L l)) ->
  In (i, a, b, QDeq None) (qtrace L) \/
  (exists cq, qth L i = QD_ldnext cq /\ (nr L <= S cq)%nat /\ a = qsince L i /\ b = gclk L /\ l = QLStep i).
Proof.
  cases L l i0 Eq; auto; intros Hin; apply in_app_or in Hin as [Hin|[E|[]]]; auto; try discriminate E.
  inversion E; subst. right. exists cq. split; [exact Eq|]. split; [now apply Nat.ltb_ge|auto].
Qed.

Lemma step_other st l j : (forall v, l <> LEnq j v) -> l <> LDeq j -> l <> LStep j ->
  th (step n st l) j = th st j.
Proof.
  intros H1 H2 H3. destruct l as [i v|i|i| |]; unfold step, step0.
  - destruct (th st i); shape; auto. apply updf_other. intros ->. now apply (H1 v).
  - destruct (th st i); shape; auto. apply updf_other. intros ->. now apply H2.
  - destruct (tstep_frame n st i) as (_ & _ & Hoth & _). apply Hoth. intros ->. now apply H3.
  - reflexivity.
  - reflexivity.
Qed.

Lemma qstep_frame L l j : LInv n K L -> j <> qthread l ->
  qth (qstep n L l) j = qth L j /\ (forall r, th (rings (qstep n L l) r) j = th (rings L r) j).
Proof.
  intros HL Hj. cases L l i Eq; cbn [qthread] in Hj; (split; [try reflexivity; apply updf_other; auto|]); intros r0; try reflexivity;
    unfold updf; match goal with |- context [Nat.eqb r0 ?c] => destruct (Nat.eqb_spec r0 c) end; subst; try reflexivity; unfold ring_step;
    rewrite ?step_other; auto; try discriminate; try (intros v E; inversion E; subst; now apply Hj); try (intros E; inversion E; subst; now apply Hj).
  pose proof (l_fresh _ _ _ HL i _ _ _ Eq) as ->. destruct (fresh_fields n Hn K i d) as (_ & _ & _ & _ & Hth & _). rewrite Hth.
  destruct (l_unl _ _ _ HL (nr L) (le_n _)) as (-> & _). reflexivity.
Qed.

Lemma qstep_busy L l : (forall i, l <> QLStep i) -> qth L (qthread l) <> QIdle -> qstep n L l = qtick L.
Proof.
  intros Hl Hb. unfold qstep. destruct l as [i v|i|i]; cbn [qthread] in Hb.
  - destruct (qth L i); try reflexivity. contradiction.
  - destruct (qth L i); try reflexivity. contradiction.
  - exfalso. now apply (Hl i).
Qed.

(* the ring-level step of a dequeuer inside QD_ring1 / QD_ring2 *)
Lemma dring_step L i cq : LInv n K L -> (qth L i = QD_ring1 cq \/ qth L i = QD_ring2 cq) ->
  let R := rings L cq in let R' := step n R (LStep i) in let L' := qstep n L (QLStep i) in
  (forall r, rings L' r = updf (rings L) cq R' r) /\
  ((th R' i <> Idle /\ qth L' i = qth L i /\ qtrace L' = qtrace L /\ trace R' = trace R) \/
   (exists H x, th R i = D3b H x /\
      qtrace L' = qtrace L ++ [(i, qsince L i, gclk L, QDeq (Some (cq, H, x)))] /\ qth L' i = QIdle) \/
   (th R' i = Idle /\ qtrace L' = qtrace L /\ (qth L i = QD_ring1 cq -> qth L' i = QD_ldnext cq) /\
      (qth L i = QD_ring2 cq -> qth L' i = QD_cas cq) /\
      ((th R i = D0 /\ thr R < 0) \/ (exists H, th R i = D7 H /\ thr R <= 0) \/ th R i = F4))).
Proof.
  intros HL Hpc. cbv zeta. pose proof (l_dpc _ _ _ HL i cq Hpc) as Hp.
  destruct (deq_step n (rings L cq) i Hp) as (_ & [(Hni & _ & Htr)|[(Hid & H & x & Htr & Hd3)|(Hid & Htr & Hwhy)]]).
  - assert (Hne : th (step n (rings L cq) (LStep i)) i <> Idle) by (intros E; rewrite E in Hni; discriminate Hni).
    unfold qstep, qstep_th. destruct Hpc as [E|E]; rewrite E; cbv zeta; unfold ring_step; rewrite is_idle_eq, Hni; unf;
      (split; [reflexivity|]); left; auto.
  - unfold qstep, qstep_th. destruct Hpc as [E|E]; rewrite E; cbv zeta; unfold ring_step; rewrite is_idle_eq, Hid; cbn [is_idle_b];
      rewrite (last_ev_app _ _ _ _ _ _ Htr); unf; (split; [reflexivity|]); right; left; exists H, x; rewrite updf_same; auto.
  - unfold qstep, qstep_th. destruct Hpc as [E|E]; rewrite E; cbv zeta; unfold ring_step; rewrite is_idle_eq, Hid; cbn [is_idle_b];
      rewrite (last_ev_app _ _ _ _ _ _ Htr); unf; (split; [reflexivity|]); right; right; rewrite updf_same;
      (split; [reflexivity|]); (split; [reflexivity|]); (split; [intros E'; try reflexivity; try discriminate E'|]);
      (split; [intros E'; try reflexivity; try discriminate E'|]); exact Hwhy.
Qed.

Lemma enq_pc_dticket d s : enq_pc d s -> dticket s = None.
Proof. destruct s; cbn; intros Hx; try contradiction; reflexivity. Qed.

(* ------------------------------------------------------------------ what is served stays served *)
Lemma qserved_mono L l s r T d : LInv n K L -> QT n L -> ST L -> (qthread l < K)%nat -> s < gclk L ->
  In (T, d) (wlog (rings L r)) -> qserved L s r T -> qserved (qstep n L l) s r T.
Proof.
  intros HL HQ HS Hl Hs Hw [(k & c & e & x & Hin & Hc)|(k & Hk & Hd & Hsk)].
  - left. exists k, c, e, x. split; [|exact Hc]. destruct (qtrace_step n K L l HL Hl) as (eq & -> & _). apply in_or_app. now left.
  - assert (Hne : qth L k <> QIdle) by (intros E; rewrite E in Hk; discriminate Hk).
    destruct (Nat.eq_dec k (qthread l)) as [Ek|Hkl].
    + destruct l as [i v|i|i]; cbn [qthread] in Ek; subst k.
      * rewrite qstep_busy; [|discriminate|exact Hne]. right. exists i. auto.
      * rewrite qstep_busy; [|discriminate|exact Hne]. right. exists i. auto.
      * assert (Hpc : qth L i = QD_ring1 r \/ qth L i = QD_ring2 r).
        { destruct (qth L i) eqn:Eq; cbn in Hk; try discriminate Hk; inversion Hk; subst; auto.
          exfalso. rewrite (enq_pc_dticket d0 _ (l_epc _ _ _ HL i d0 r Eq)) in Hd. discriminate Hd. }
        destruct (dring_step L i r HL Hpc) as (Hr & Hcase). cbv zeta in Hr, Hcase.
        destruct Hcase as [(Hne' & Hq' & _ & Htr')|[(H & y & Hd3 & Hq' & _)|(_ & _ & _ & _ & Hwhy)]].
        -- destruct (tstep_self n (rings L r) i (l_inv _ _ _ HL r)) as (_ & S1 & _).
           destruct (S1 T d Hd Hw) as [Hkeep|(x & Htr)].
           ++ right. exists i. rewrite Hq', Hr, updf_same. split; [exact Hk|]. split; [exact Hkeep|]. now rewrite not_idle_since.
           ++ exfalso. unfold step, step0 in Htr'. rewrite Htr' in Htr. exact (app_one_neq _ _ Htr).
        -- rewrite Hd3 in Hd. cbn in Hd. inversion Hd; subst.
           left. exists i, (qsince L i), (gclk L), y. split; [rewrite Hq'; apply in_or_app; right; now left|exact Hsk].
        -- exfalso. destruct Hwhy as [(E & _)|[(H & E & _)|E]]; rewrite E in Hd; discriminate Hd.
    + destruct (qstep_frame L l k HL Hkl) as (Hq' & Hth'). right. exists k. rewrite Hq', Hth'. split; [exact Hk|]. split; [exact Hd|].
      now rewrite not_idle_since.
Qed.

Lemma enq_event_wlog L i a b d r T : LInv n K L -> QT n L -> In (i, a, b, QEnq d r T) (qtrace L) -> In (T, d) (wlog (rings L r)).
Proof.
  intros HL HQ Hin. destruct (t_e1 _ _ HQ _ _ _ _ _ _ Hin) as (j & x & y & E). exact (i_tr_e _ _ (l_inv _ _ _ HL r) _ _ _ _ _ E).
Qed.

Lemma qjustb_mono L l s cq : LInv n K L -> QT n L -> ST L -> (qthread l < K)%nat -> s < gclk L ->
  qjustb L s cq -> qjustb (qstep n L l) s cq.
Proof.
  intros HL HQ HS Hl Hs HJ i a b d r T Hin Hb Hr.
  destruct (qtrace_step n K L l HL Hl) as (eq & Hq & Hst). rewrite Hq in Hin. apply in_app_or in Hin as [Hin|Hin].
  - apply (qserved_mono L l s r T d); auto. exact (enq_event_wlog L _ _ _ _ _ _ HL HQ Hin). exact (HJ _ _ _ _ _ _ Hin Hb Hr).
  - destruct (Hst _ _ _ _ Hin) as (_ & ->). lia.
Qed.

(* at the instant before the current step: every returned value of rings 0..cq is served, provided cq is not behind
   q.head... (rings before cq are retired) and every returned, not consumed value of ring cq lies below its head *)
Lemma qjust_now L cq : LInv n K L -> QT n L -> ST L -> (forall i, qth L i <> QIdle -> qsince L i < gclk L) ->
  (cq <= qh L)%nat ->
  (forall i a b d T, In (i, a, b, QEnq d cq T) (qtrace L) -> ~ In T (map fst (clog (rings L cq))) -> T < hd (rings L cq)) ->
  qjustb L (gclk L - 1) cq.
Proof.
  intros HL HQ HS Hact Hcq Hbelow i a b d r T Hin Hb Hr.
  pose proof (enq_event_wlog L _ _ _ _ _ _ HL HQ Hin) as Hw.
  assert (Hin_ring : forall j, in_ring (qth L j) = Some r -> qsince L j <= gclk L - 1).
  { intros j Hj. assert (qth L j <> QIdle) by (intros E; rewrite E in Hj; discriminate Hj). pose proof (Hact j H). lia. }
  destruct (no_loss_inv n Hn K L HL HQ r T d Hw) as [(j & x & y & Hx)|[(j & Hj & Ha)|(_ & _ & _ & _ & H5 & H6 & H7)]].
  - left. exists j, x, y, d. split; [exact Hx|]. pose proof (s_tr _ HS _ _ _ _ Hx). lia.
  - right. exists j. split; [exact Ha|]. split; [destruct Hj as [Hj|Hj]; rewrite Hj; reflexivity|now apply Hin_ring].
  - assert (Hlt : T < hd (rings L r)).
    { destruct (Nat.eq_dec r cq) as [->|Hne]; [exact (Hbelow _ _ _ _ _ Hin H5)|apply H7; lia]. }
    destruct (H6 Hlt) as (j & Hj & Ha). right. exists j. split; [exact Ha|]. split; [now apply pending_dticket|now apply Hin_ring].
Qed.

(* the threshold of ring cq is exhausted: every returned, not consumed value lies below its head *)
Lemma below_by_threshold L cq i : LInv n K L -> QT n L -> (i < K)%nat ->
  (thr (rings L cq) < 0 \/ (thr (rings L cq) <= 0 /\ stale (rings L cq) (th (rings L cq) i) = true)) ->
  forall j a b d T, In (j, a, b, QEnq d cq T) (qtrace L) -> ~ In T (map fst (clog (rings L cq))) -> T < hd (rings L cq).
Proof.
  intros HL HQ Hi Hthr j a b d T Hin Hnc. destruct (Z.lt_ge_cases T (hd (rings L cq))) as [|Hge]; [assumption|]. exfalso.
  pose proof (l_thr _ _ _ HL cq) as HT. pose proof (t_e1 _ _ HQ _ _ _ _ _ _ Hin) as Hret.
  assert (Hw : In (T, d) (wlog (rings L cq))) by (exact (enq_event_wlog L _ _ _ _ _ _ HL HQ Hin)).
  assert (Htg : tgt (rings L cq) T).
  { right. split; [|exact Hnc]. unfold wrw. apply memz_in. apply in_map_iff. exists (T, d). auto. }
  assert (Hcv : covd (rings L cq) (cov L cq) T) by (right; destruct Hret as (i0 & a0 & b0 & Hr0); exists i0, a0, b0, d; exact Hr0).
  pose proof (u_bud _ _ _ _ _ HT T Hge Htg Hcv) as Hb.
  destruct Hthr as [Hthr|(Hthr & Hs)]; [lia|].
  assert ((1 <= Sx K (rings L cq))%nat) by (apply (cnt_pos K _ i Hi); exact Hs). lia.
Qed.

Lemma qj_init : QJ (linit n).
Proof.
  constructor; cbn [linit rings nr qh qt mu qth gclk qsince qtrace cov]; try (intros; contradiction); try discriminate.
Qed.

Lemma qj_step L l : LInv n K L -> QT n L -> ST L -> RI L -> (qthread l < K)%nat -> QJ L -> QJ (qstep n L l).
Proof.
  intros HL HQ HS HR Hl HJ.
  pose proof (gclk_step n L l) as Hg.
  assert (Hle : forall j, qsince (qstep n L l) j <= gclk L).
  { intros j. pose proof (s_since _ HS j). destruct (qsince_step n L l j) as [->|(_ & ->)]; lia. }
  assert (Hmono : forall s cq, s < gclk L -> qjustb L s cq -> qjustb (qstep n L l) s cq) by (intros s cq; now apply qjustb_mono).
  assert (Hact := qj_act _ HJ).
  assert (Hother : forall j, j <> qthread l -> qth (qstep n L l) j = qth L j /\ (forall r, th (rings (qstep n L l) r) j = th (rings L r) j) /\
            qsince (qstep n L l) j = qsince L j \/ qth L j = QIdle).
  { intros j Hj. destruct (qstep_frame L l j HL Hj) as (E1 & E2). destruct (qsince_step n L l j) as [E|(E & _)]; auto. }
  constructor.
  - (* empty answers *)
    intros i a b Hin. destruct (none_step L l i a b Hin) as [Hold|(cq & Eq & Hnr & -> & -> & El)].
    + destruct (qj_tr _ HJ i a b Hold) as (s & Hs & Hjs). exists s. split; [exact Hs|]. intros cq. apply Hmono; [|apply Hjs].
      pose proof (s_tr _ HS _ _ _ _ Hold). lia.
    + destruct (qj_n _ HJ i cq Eq) as (s & Hs & Hjs). exists s. split; [exact Hs|]. intros cq'. apply Hmono; [lia|].
      intros i0 a0 b0 d r T Hin0 Hb _. apply (Hjs _ _ _ _ _ _ Hin0 Hb). pose proof (enq_event_lt n K L _ _ _ _ _ _ HL HQ Hin0). lia.
  - (* inside fixstate *)
    intros j cq Eq' HF. destruct (Nat.eq_dec j (qthread l)) as [Ej|Hj].
    + destruct (proj1 (dpc_step L l j cq) Eq') as [Eq|Eq].
      * (* was in QD_ring1 *)
        destruct l as [i v|i|i]; cbn [qthread] in Ej; subst j.
        -- match goal with |- context [qstep n L ?lab] => assert (Eb : qstep n L lab = qtick L) by (apply qstep_busy; [discriminate|cbn [qthread]; rewrite Eq; discriminate]) end; rewrite Eb in *.
           destruct (qj_f _ HJ i cq Eq HF) as (s & Hs & Hjs). exists s. cbn [qtick qsince gclk]. split; [lia|exact Hjs].
        -- match goal with |- context [qstep n L ?lab] => assert (Eb : qstep n L lab = qtick L) by (apply qstep_busy; [discriminate|cbn [qthread]; rewrite Eq; discriminate]) end; rewrite Eb in *.
           destruct (qj_f _ HJ i cq Eq HF) as (s & Hs & Hjs). exists s. cbn [qtick qsince gclk]. split; [lia|exact Hjs].
        -- destruct (dring_step L i cq HL (or_introl Eq)) as (Hr & Hcase). cbv zeta in Hr, Hcase.
           rewrite Hr, updf_same in HF. rewrite (not_idle_since n L (QLStep i) i) by (rewrite Eq; discriminate).
           destruct Hcase as [(Hne' & Hq' & _ & Htr')|[(H & y & _ & _ & Hq')|(_ & _ & Hq' & _)]].
           ++ destruct (tstep_self n (rings L cq) i (l_inv _ _ _ HL cq)) as (_ & _ & S2 & _).
              destruct (S2 HF) as [HF0|(H & Ht5 & Htl)].
              ** destruct (qj_f _ HJ i cq Eq HF0) as (s & Hs & Hjs). exists s. split; [lia|]. apply Hmono; [lia|exact Hjs].
              ** exists (gclk L - 1). assert (Hne : qth L i <> QIdle) by (rewrite Eq; discriminate). pose proof (Hact i Hne).
                 split; [lia|]. apply Hmono; [lia|]. apply qjust_now; auto.
                 --- apply (r_dh2 _ HR i). rewrite Eq. reflexivity.
                 --- intros i0 a0 b0 d T Hin0 _. pose proof (i_w_rng _ _ (l_inv _ _ _ HL cq) _ _ (enq_event_wlog L _ _ _ _ _ _ HL HQ Hin0)).
                     pose proof (l_d5 _ _ _ HL cq i H Ht5). lia.
           ++ rewrite Hq' in Eq'. discriminate Eq'.
           ++ rewrite (Hq' Eq) in Eq'. discriminate Eq'.
      * (* was at QD_ldhead: the ring call has just been entered *)
        exfalso. destruct l as [i v|i|i]; cbn [qthread] in Ej; subst j.
        -- rewrite qstep_busy in Eq'; [|discriminate|cbn [qthread]; rewrite Eq; discriminate]. cbn [qtick qth] in Eq'. rewrite Eq in Eq'. discriminate Eq'.
        -- rewrite qstep_busy in Eq'; [|discriminate|cbn [qthread]; rewrite Eq; discriminate]. cbn [qtick qth] in Eq'. rewrite Eq in Eq'. discriminate Eq'.
        -- assert (Hid : th (rings L (qh L)) i = Idle) by (apply (idle_out n K L i (qh L) HL); rewrite Eq; reflexivity).
           unfold qstep, qstep_th in Eq', HF. rewrite Eq in Eq', HF. unf. cbn [qtick set_q Lscq.set_ring qth rings] in Eq', HF.
           rewrite updf_same in Eq'. inversion Eq'; subst cq. rewrite updf_same in HF. unfold step, step0 in HF. rewrite Hid in HF.
           cbn in HF. rewrite updf_same in HF. discriminate HF.
    + destruct (Hother j Hj) as [(E1 & E2 & E3)|Eid]; [|rewrite (proj1 (qstep_frame L l j HL Hj)), Eid in Eq'; discriminate Eq'].
      rewrite E1 in Eq'. rewrite E2 in HF. destruct (qj_f _ HJ j cq Eq' HF) as (s & Hs & Hjs). exists s. rewrite E3. split; [lia|].
      apply Hmono; [lia|exact Hjs].
  - (* the ring answered empty, next not yet examined *)
    intros j cq Eq'. destruct (Nat.eq_dec j (qthread l)) as [Ej|Hj].
    + destruct (proj2 (dpc_step L l j cq) Eq') as [Eq|Eq].
      * destruct l as [i v|i|i]; cbn [qthread] in Ej; subst j.
        -- match goal with |- context [qstep n L ?lab] => assert (Eb : qstep n L lab = qtick L) by (apply qstep_busy; [discriminate|cbn [qthread]; rewrite Eq; discriminate]) end; rewrite Eb in *.
           destruct (qj_n _ HJ i cq Eq) as (s & Hs & Hjs). exists s. cbn [qtick qsince gclk]. split; [lia|exact Hjs].
        -- match goal with |- context [qstep n L ?lab] => assert (Eb : qstep n L lab = qtick L) by (apply qstep_busy; [discriminate|cbn [qthread]; rewrite Eq; discriminate]) end; rewrite Eb in *.
           destruct (qj_n _ HJ i cq Eq) as (s & Hs & Hjs). exists s. cbn [qtick qsince gclk]. split; [lia|exact Hjs].
        -- exfalso. unfold qstep, qstep_th in Eq'. rewrite Eq in Eq'. destruct (S cq <? nr L)%nat; unf; cbn [qtick set_q qret qth] in Eq';
             rewrite updf_same in Eq'; discriminate Eq'.
      * destruct l as [i v|i|i]; cbn [qthread] in Ej; subst j.
        -- exfalso. rewrite qstep_busy in Eq'; [|discriminate|cbn [qthread]; rewrite Eq; discriminate]. cbn [qtick qth] in Eq'. rewrite Eq in Eq'. discriminate Eq'.
        -- exfalso. rewrite qstep_busy in Eq'; [|discriminate|cbn [qthread]; rewrite Eq; discriminate]. cbn [qtick qth] in Eq'. rewrite Eq in Eq'. discriminate Eq'.
        -- destruct (dring_step L i cq HL (or_introl Eq)) as (Hr & Hcase). cbv zeta in Hr, Hcase.
           rewrite (not_idle_since n L (QLStep i) i) by (rewrite Eq; discriminate).
           assert (Hne : qth L i <> QIdle) by (rewrite Eq; discriminate). pose proof (Hact i Hne) as Hlt.
           assert (Hqh : (cq <= qh L)%nat) by (apply (r_dh2 _ HR i); rewrite Eq; reflexivity).
           assert (Hi : (i < K)%nat) by exact Hl.
           destruct Hcase as [(_ & Hq' & _)|[(H & y & _ & _ & Hq')|(_ & _ & _ & _ & Hwhy)]].
           ++ rewrite Hq', Eq in Eq'. discriminate Eq'.
           ++ rewrite Hq' in Eq'. discriminate Eq'.
           ++ destruct Hwhy as [(E0 & Hthr)|[(H & E7 & Hthr)|E4]].
              ** exists (gclk L - 1). split; [lia|]. apply Hmono; [lia|]. apply qjust_now; auto.
                 apply (below_by_threshold L cq i HL HQ Hi). now left.
              ** exists (gclk L - 1). split; [lia|]. apply Hmono; [lia|]. apply qjust_now; auto.
                 apply (below_by_threshold L cq i HL HQ Hi). right. split; [exact Hthr|]. rewrite E7. reflexivity.
              ** destruct (qj_f _ HJ i cq Eq ltac:(rewrite E4; reflexivity)) as (s & Hs & Hjs). exists s. split; [lia|]. apply Hmono; [lia|exact Hjs].
    + destruct (Hother j Hj) as [(E1 & E2 & E3)|Eid]; [|rewrite (proj1 (qstep_frame L l j HL Hj)), Eid in Eq'; discriminate Eq'].
      rewrite E1 in Eq'. destruct (qj_n _ HJ j cq Eq') as (s & Hs & Hjs). exists s. rewrite E3. split; [lia|]. apply Hmono; [lia|exact Hjs].
  - intros j _. pose proof (Hle j). lia.
Qed.

Lemma qj_reach sched : (forall l, In l sched -> (qthread l < K)%nat) ->
  let L := qrun n (linit n) sched in LInv n K L /\ QT n L /\ ST L /\ RI L /\ CK n L /\ QJ L.
Proof.
  intros Hs. cbv zeta.
  assert (G : forall pre suf, sched = pre ++ suf ->
     let L := qrun n (linit n) pre in LInv n K L /\ QT n L /\ ST L /\ RI L /\ CK n L /\ QJ L).
  { intros pre. induction pre as [|l pre IH] using rev_ind; intros suf E; cbv zeta.
    - destruct (all_reach n Hn K HK [] ltac:(intros ? [])) as (H1 & H2 & H3 & H4 & H5). split; [exact H1|]. split; [exact H2|]. split; [exact H3|]. split; [exact H4|]. split; [exact H5|]. apply qj_init.
    - assert (Hpre : forall l0, In l0 (pre ++ [l]) -> (qthread l0 < K)%nat).
      { intros l0 Hin. apply Hs. rewrite E. apply in_or_app. now left. }
      destruct (all_reach n Hn K HK (pre ++ [l]) Hpre) as (H1 & H2 & H3 & H4 & H5). split; [exact H1|]. split; [exact H2|]. split; [exact H3|]. split; [exact H4|]. split; [exact H5|].
      destruct (IH ([l] ++ suf) ltac:(rewrite E, <- app_assoc; reflexivity)) as (G1 & G2 & G3 & G4 & _ & G6).
      unfold qrun. rewrite fold_left_app. cbn [fold_left]. apply qj_step; auto. apply Hpre. apply in_or_app. right. now left. }
  apply (G sched []). now rewrite app_nil_r.
Qed.

Variable enc : nat -> Z -> Z.
Hypothesis Henc : enc_ok enc.

Theorem lscq_empty_justified sched : (forall l, In l sched -> (qthread l < K)%nat) ->
  let L := qrun n (linit n) sched in
  qquiescent L -> EmptyJustified (qhist enc (qtrace L)).
Proof.
  intros Hs L Hq. destruct (qj_reach sched Hs) as (HL & HQ & HS & HR & HC & HJ). fold L in HL, HQ, HS, HR, HC, HJ.
  intros o Ho Eo. unfold qhist in Ho. apply in_flat_map in Ho as ([[[i a] b] ev] & Hin & Hev).
  destruct ev as [d r T|[[[r H] v]|]]; cbn in Hev; destruct Hev as [<-|[]]; cbn in Eo; try discriminate Eo.
  destruct (qj_tr _ HJ i a b Hin) as (s & Hs' & Hjs). exists s. cbn [inv resp]. split; [exact Hs'|].
  intros (e & x & He & Ee & Hr & Hlater).
  destruct (qh_enq enc _ _ _ He Ee) as (ie & de & re & Te & -> & Ie).
  destruct (Hjs re _ _ _ _ _ _ Ie Hr (le_n _)) as [(k & c & e' & y & Hk & Hc)|(k & Hk & _)].
  - pose proof (deq_qh enc _ _ _ _ _ _ _ Hk) as Hd. specialize (Hlater _ Hd eq_refl). cbn [inv] in Hlater. lia.
  - rewrite Hq in Hk. discriminate Hk.
Qed.

Theorem lscq_linearizable sched : (forall l, In l sched -> (qthread l < K)%nat) ->
  let L := qrun n (linit n) sched in
  qquiescent L -> fifo_linearizable (qhist enc (qtrace L)).
Proof.
  intros Hs L Hq. apply (lscq_lin_if_empty_justified n Hn K HK enc Henc sched Hs Hq). now apply lscq_empty_justified.
Qed.

End Jus.
