(* C05: cacheRemap16Byte is a bijection of the ring's index range, for every ring size n and every
   number cl of entries per cache line that divides n; instance for the constants of util.go. *)
From VF Require Import Common.Base C05.Model.
Local Open Scope Z_scope.

Section Remap.
Variable n cl : Z.
Hypothesis n_pos : 1 <= n.
Hypothesis cl_pos : 1 <= cl.
Hypothesis cl_div : (cl | n).

Let m := n / cl.

Lemma n_split : n = m * cl.
Proof. destruct cl_div as [k Hk]. unfold m. rewrite Hk. rewrite Z.div_mul by lia. reflexivity. Qed.

Lemma m_pos : 1 <= m.
Proof. pose proof n_split as H. destruct (Z_lt_le_dec m 1) as [Hlt|]; [|assumption]. nia. Qed.

Lemma pair_unique a1 b1 a2 b2 :
  0 <= b1 < cl -> 0 <= b2 < cl -> a1 * cl + b1 = a2 * cl + b2 -> a1 = a2 /\ b1 = b2.
Proof.
  intros H1 H2 E.
  assert (Ha : a1 = a2).
  { assert (E1 : (a1 * cl + b1) / cl = a1) by (rewrite Z.div_add_l by lia; rewrite Z.div_small by lia; lia).
    assert (E2 : (a2 * cl + b2) / cl = a2) by (rewrite Z.div_add_l by lia; rewrite Z.div_small by lia; lia).
    rewrite E in E1. congruence. }
  subst a2. split; [reflexivity|lia].
Qed.

Lemma remap_range i : 0 <= remap n cl i < n.
Proof.
  unfold remap. fold m. pose proof n_split as Hn. pose proof m_pos as Hm.
  assert (Hr : 0 <= i mod n < n) by (apply Z.mod_pos_bound; lia).
  set (raw := i mod n) in *.
  assert (Ha : 0 <= raw mod m < m) by (apply Z.mod_pos_bound; lia).
  assert (Hb : 0 <= raw / m < cl).
  { split; [apply Z.div_pos; lia|]. apply Z.div_lt_upper_bound; [lia|]. rewrite Z.mul_comm. lia. }
  set (a := raw mod m) in *. set (b := raw / m) in *.
  split; [nia|].
  assert ((a + 1) * cl <= m * cl) by (apply Z.mul_le_mono_nonneg_r; lia). lia.
Qed.

Lemma remap_mod i : remap n cl (i mod n) = remap n cl i.
Proof. unfold remap. rewrite Z.mod_mod by lia. reflexivity. Qed.

Lemma remap_inj_mod i j : remap n cl i = remap n cl j -> i mod n = j mod n.
Proof.
  unfold remap. fold m. pose proof n_split as Hn. pose proof m_pos as Hm.
  assert (Hi : 0 <= i mod n < n) by (apply Z.mod_pos_bound; lia).
  assert (Hj : 0 <= j mod n < n) by (apply Z.mod_pos_bound; lia).
  set (ri := i mod n) in *. set (rj := j mod n) in *.
  intros E.
  assert (Hbi : 0 <= ri / m < cl).
  { split; [apply Z.div_pos; lia|]. apply Z.div_lt_upper_bound; [lia|]. rewrite Z.mul_comm. lia. }
  assert (Hbj : 0 <= rj / m < cl).
  { split; [apply Z.div_pos; lia|]. apply Z.div_lt_upper_bound; [lia|]. rewrite Z.mul_comm. lia. }
  destruct (pair_unique _ _ _ _ Hbi Hbj E) as [E1 E2].
  rewrite (Z.div_mod ri m) by lia. rewrite (Z.div_mod rj m) by lia. congruence.
Qed.

Lemma remap_eq_iff i j : remap n cl i = remap n cl j <-> i mod n = j mod n.
Proof.
  split; [apply remap_inj_mod|]. intros E. rewrite <- (remap_mod i), <- (remap_mod j). congruence.
Qed.

(* injective on the index range (hence, with remap_range, a bijection of [0, n)) *)
Theorem remap_inj i j : 0 <= i < n -> 0 <= j < n -> remap n cl i = remap n cl j -> i = j.
Proof.
  intros Hi Hj E. apply remap_inj_mod in E. rewrite !Z.mod_small in E by lia. exact E.
Qed.

(* surjective: the inverse is the transposed walk *)
Theorem remap_surj k : 0 <= k < n -> exists i, 0 <= i < n /\ remap n cl i = k.
Proof.
  intros Hk. pose proof n_split as Hn. pose proof m_pos as Hm.
  set (a := k / cl). set (b := k mod cl).
  assert (Hb : 0 <= b < cl) by (apply Z.mod_pos_bound; lia).
  assert (Ha : 0 <= a < m).
  { split; [apply Z.div_pos; lia|]. apply Z.div_lt_upper_bound; lia. }
  exists (m * b + a).
  assert (Hr : 0 <= m * b + a < n).
  { split; [nia|]. assert (m * (b + 1) <= m * cl) by (apply Z.mul_le_mono_nonneg_l; lia). lia. }
  split; [exact Hr|].
  unfold remap. fold m. rewrite (Z.mod_small _ n) by lia.
  replace (m * b + a) with (a + b * m) by lia.
  rewrite Z.mod_add by lia. rewrite Z.div_add by lia.
  rewrite Z.mod_small by lia. rewrite (Z.div_small a m) by lia.
  unfold a, b. rewrite Z.add_0_l. rewrite (Z.div_mod k cl) at 3 by lia. lia.
Qed.

End Remap.

(* the code's `index & (scqsize-1)` is [mod] when scqsize is a power of two *)
Lemma remap_land_eq k cl i : 0 <= k -> 0 <= i -> remap_land (2 ^ k) cl i = remap (2 ^ k) cl i.
Proof.
  intros Hk Hi. unfold remap_land, remap.
  replace (2 ^ k - 1) with (Z.ones k) by (rewrite Z.ones_equiv; lia).
  rewrite Z.land_ones by lia. reflexivity.
Qed.

Lemma scqsize_pow : scqsize = 2 ^ 16. Proof. reflexivity. Qed.
Lemma scqsize_pos : 1 <= scqsize. Proof. unfold scqsize; lia. Qed.
Lemma cacheline16_pos : 1 <= cacheline16. Proof. unfold cacheline16; lia. Qed.
Lemma cacheline16_div : (cacheline16 | scqsize). Proof. exists 2048. reflexivity. Qed.

Theorem remap_bij_real :
  (forall i j, 0 <= i < scqsize -> 0 <= j < scqsize ->
     remap scqsize cacheline16 i = remap scqsize cacheline16 j -> i = j) /\
  (forall i, 0 <= remap scqsize cacheline16 i < scqsize) /\
  (forall k, 0 <= k < scqsize -> exists i, 0 <= i < scqsize /\ remap scqsize cacheline16 i = k) /\
  (forall i, 0 <= i -> remap_land scqsize cacheline16 i = remap scqsize cacheline16 i).
Proof.
  split; [|split; [|split]].
  - apply remap_inj; [apply scqsize_pos|apply cacheline16_pos|apply cacheline16_div].
  - apply remap_range; [apply scqsize_pos|apply cacheline16_pos|apply cacheline16_div].
  - apply remap_surj; [apply scqsize_pos|apply cacheline16_pos|apply cacheline16_div].
  - intros i Hi. rewrite scqsize_pow. apply remap_land_eq; lia.
Qed.
Print Assumptions remap_bij_real.
