(* C05 - the no-loss theorem really depends on the isSafe bit: the same machine with ONE change in Enqueue
   (isSafe decoded from the isEmpty bit, seeded change C05-10) loses a value under a 21-step schedule of three
   threads on a ring of one slot, while the faithful machine refuses that write. *)
From Coq Require Import ZArith List Bool Lia.
Import ListNotations.
From VF Require Import C05.Scq C05.ProofsScqInv C05.ProofsScqSafe.
Open Scope Z_scope.

Section Mutant.
Variable n : Z.
(* do_E2 with `isSafe` read from bit 62 (isEmpty) instead of bit 63 *)
Definition do_E2m (st : state) (i : nat) (d T : Z) : state :=
  let r := ring st (slot n T) in
  let e := mkE (safe r) (emp r) (cyc r) 0 in
  if (cyc r <? cyc_of n T) && emp r then
    if emp r then goto st i (E4 d T e) else goto st i (E3 d T e)
  else goto st i (E5 d T).
Definition stepm (st : state) (l : label) : state :=
  match l with
  | LStep i => match th st i with E2 d T => tick (do_E2m st i d T) | _ => step n st l end
  | _ => step n st l
  end.
Definition runm (st : state) (sched : list label) : state := fold_left stepm sched st.
End Mutant.

Definition loss_schedule : list label :=
  [LEnq 0 1] ++ repeat (LStep 0) 5 ++            (* thread 0: Enqueue(1) completes with ticket 1 *)
  [LEnq 0 2; LStep 0] ++                         (* thread 0: Enqueue(2) takes ticket 2 *)
  [LDeq 1] ++ repeat (LStep 1) 4 ++              (* thread 1: Dequeue takes ticket 1, finds its cycle, zeroes the data word *)
  [LDeq 2] ++ repeat (LStep 2) 4 ++              (* thread 2: Dequeue takes ticket 2, finds cycle 1 still occupied, marks it unsafe, goes on *)
  [LStep 1] ++                                   (* thread 1: sets isEmpty, returns 1 *)
  [LStep 0; LStep 0].                            (* thread 0: loads the flags (unsafe, empty, cycle 1) and CASes *)

(* the faithful machine: the slot is unsafe and head = 3 > 2, so thread 0 does not write *)
Example faithful_refuses :
  let st := run 1 (init 1) loss_schedule in
  wlog st = [(1, 1)] /\ th st 0%nat = E5 2 2 /\ plog st = [2] /\ ring st 0 = mkE false true 1 0.
Proof. vm_compute. repeat split. Qed.

(* the mutant: the value 2 is written with ticket 2 although the dequeuer holding ticket 2 has already gone
   past the slot: no Dequeue will ever return it (a later dequeuer has a larger ticket, hence a larger cycle) *)
Example mutant_loses_refuted :
  let st := runm 1 (init 1) loss_schedule in
  In (2, 2) (wlog st) /\
  ~ (deq_returned st 2 2 \/ deq_inflight st 2 2 \/
     (emp (ring st (2 mod 1)) = false /\ cyc (ring st (2 mod 1)) = 2 / 1 /\ dat (ring st (2 mod 1)) = 2 /\
      ~ In 2 (plog st) /\ ~ In 2 (map fst (clog st)) /\ (2 < hd st -> exists i, pending (th st i) = Some 2))).
Proof.
  cbv zeta. split; [vm_compute; auto|].
  assert (Hp : plog (runm 1 (init 1) loss_schedule) = [2]) by (vm_compute; reflexivity).
  assert (Ht : trace (runm 1 (init 1) loss_schedule) = [(0%nat, 0, 5, EvEnq 1 (Some 1)); (1%nat, 8, 18, EvDeq (Some (1, 1)))])
    by (vm_compute; reflexivity).
  intros [(i & a & b & Hin)|[(i & Hi)|(_ & _ & _ & Hn & _)]].
  - rewrite Ht in Hin. destruct Hin as [E|[E|[]]]; discriminate E.
  - assert (Hth : forall k, th (runm 1 (init 1) loss_schedule) k <> D3a 2 2 /\ th (runm 1 (init 1) loss_schedule) k <> D3b 2 2).
    { intros [|[|[|k]]]; vm_compute; split; discriminate. }
    destruct (Hth i) as [H1 H2]. destruct Hi; contradiction.
  - apply Hn. rewrite Hp. now left.
Qed.
