(* C05: the linked list of rings run by one thread is a FIFO queue, for every ring size. *)
From VF Require Import Common.Base C05.Model C05.Spec C05.Proofs_Remap C05.Proofs_Ring.
Local Open Scope Z_scope.

Section L.
Variable D : Type.
Variable dnil : D.
Variable n cl : Z.
Hypothesis n_pos : 1 <= n.
Hypothesis cl_pos : 1 <= cl.
Hypothesis cl_div : (cl | n).
Variable fuel : nat.
Hypothesis fuel_ok : (2 <= fuel)%nat.

Notation Inv := (Inv D dnil n cl).
Notation nonempty := (fun x : list D => x <> []).

(* rings = closed rings (front) followed by the open tail ring; every ring behind the first is non-empty *)
Definition LInv (L : lscq D) (ls : list (list D)) : Prop :=
  exists front q lsf l,
    rings L = front ++ [q] /\ ls = lsf ++ [l] /\
    Forall2 (Inv true) front lsf /\ Inv false q l /\
    ti L = length front /\ Forall nonempty (List.tl ls).

Ltac linv_split := split; [|split; [|split; [|split; [|split]]]].

Lemma linv_init : LInv (lscq_init D n) [[]].
Proof.
  exists [], (scq_init D n), [], []. split; [reflexivity|]. split; [reflexivity|].
  split; [constructor|]. split; [apply init_inv; auto|]. split; [reflexivity|]. simpl. constructor.
Qed.

Lemma nth_app_last {A} (f : list A) (q d : A) : nth (length f) (f ++ [q]) d = q.
Proof. rewrite app_nth2 by lia. rewrite Nat.sub_diag. reflexivity. Qed.

Lemma upd_app_last {A} (f : list A) (q q' : A) : upd (f ++ [q]) (length f) q' = f ++ [q'].
Proof. induction f as [|a f IH]; simpl; [reflexivity|]. now rewrite IH. Qed.

Lemma tl_app_ne {A} (a b : list A) : a <> [] -> List.tl (a ++ b) = List.tl a ++ b.
Proof. destruct a; [congruence|reflexivity]. Qed.

Lemma Forall_tl {A} (P : A -> Prop) (l : list A) : Forall P l -> Forall P (List.tl l).
Proof. destruct l; simpl; auto. intros H. now inversion H. Qed.

Lemma concat_snoc {A} (ls : list (list A)) (l : list A) : concat (ls ++ [l]) = concat ls ++ l.
Proof. rewrite concat_app. simpl. now rewrite app_nil_r. Qed.

(* ---- enqueue ---- *)
Lemma lenq_ok L ls d k :
  (1 <= k)%nat -> LInv L ls ->
  exists L' ls', lenq_loop D dnil n cl fuel k L d = (L', OEnq true) /\ LInv L' ls' /\
                 concat ls' = concat ls ++ [d].
Proof.
  intros Hk (front & q & lsf & l & Hr & Hls & Hfront & Hq & Hti & Hne).
  destruct k as [|k]; [lia|]. cbn [lenq_loop]. unfold lenq_body.
  rewrite Hr, Hti, nth_app_last, app_length. simpl length.
  assert (Eb : (S (length front) <? length front + 1)%nat = false) by (apply Nat.ltb_ge; lia).
  rewrite Eb.
  assert (Hf1 : (1 <= fuel)%nat) by lia.
  destruct (Z_lt_le_dec (Z.of_nat (length l)) n) as [Hroom|Hfull].
  - destruct (enq_loop_ok D dnil n cl n_pos cl_pos cl_div q l d fuel Hf1 Hq Hroom) as (q' & E & HI).
    rewrite E. rewrite upd_app_last.
    exists {| rings := front ++ [q']; ti := length front |}, (lsf ++ [l ++ [d]]).
    split; [reflexivity|]. split.
    + exists front, q', lsf, (l ++ [d]). linv_split; auto.
      subst ls. destruct lsf as [|l0 lsf]; simpl in *; [constructor|].
      apply Forall_app in Hne as [H1 H2]. apply Forall_app. split; auto.
      constructor; auto. destruct l; discriminate.
    + subst ls. rewrite !concat_snoc. now rewrite app_assoc.
  - assert (Hfull' : Z.of_nat (length l) = n) by (pose proof (inv_len _ _ _ _ _ _ _ Hq); lia).
    destruct (enq_loop_full D dnil n cl n_pos cl_pos cl_div q l d fuel Hf1 Hq Hfull') as (q' & E & HI).
    rewrite E. rewrite upd_app_last.
    destruct (enq_loop_ok D dnil n cl n_pos cl_pos cl_div (scq_init D n) [] d fuel Hf1) as (nq & E2 & HI2).
    { apply init_inv; auto. } { simpl. lia. }
    rewrite E2. cbn [fst].
    exists {| rings := (front ++ [set_closed D q']) ++ [nq]; ti := S (length front) |}, ((lsf ++ [l]) ++ [[d]]).
    split; [reflexivity|]. split.
    + exists (front ++ [set_closed D q']), nq, (lsf ++ [l]), [d]. linv_split; auto.
      * apply Forall2_app; auto.
      * cbn [ti]. rewrite app_length. simpl. lia.
      * rewrite tl_app_ne by (destruct lsf; discriminate). apply Forall_app. split.
        -- subst ls. exact Hne.
        -- constructor; [discriminate|constructor].
    + subst ls. rewrite concat_snoc. reflexivity.
Qed.

(* ---- dequeue: one iteration ---- *)
Lemma ldeq_body_some L x l0 rest :
  LInv L ((x :: l0) :: rest) ->
  exists L', ldeq_body D dnil n cl fuel L = (L', Some (ODeq (Some x))) /\ LInv L' (l0 :: rest).
Proof.
  intros (front & q & lsf & l & Hr & Hls & Hfront & Hq & Hti & Hne).
  assert (Hf1 : (1 <= fuel)%nat) by lia.
  unfold ldeq_body. rewrite Hr.
  destruct front as [|q0 f'].
  - inversion Hfront; subst lsf. simpl in Hls. inversion Hls; subst l rest. simpl.
    destruct (deq_ok D dnil n cl n_pos cl_pos cl_div false q x l0 fuel Hf1 Hq) as (q' & E & HI).
    rewrite E. eexists. split; [reflexivity|].
    exists [], q', [], l0. linv_split; auto.
  - inversion Hfront as [|? l00 ? lsf' H0 Hf' E1 E2]; subst lsf. simpl in Hls. inversion Hls; subst l00 rest.
    simpl app.
    destruct (deq_ok D dnil n cl n_pos cl_pos cl_div true q0 x l0 fuel Hf1 H0) as (q' & E & HI).
    rewrite E. eexists. split; [reflexivity|].
    exists (q' :: f'), q, (l0 :: lsf'), l. linv_split; auto.
Qed.

Lemma ldeq_body_empty L :
  LInv L [[]] ->
  exists L', ldeq_body D dnil n cl fuel L = (L', Some (ODeq None)) /\ LInv L' [[]].
Proof.
  intros (front & q & lsf & l & Hr & Hls & Hfront & Hq & Hti & Hne).
  assert (Hf1 : (1 <= fuel)%nat) by lia.
  assert (lsf = [] /\ l = []) as [-> ->].
  { destruct lsf as [|a [|b lsf]]; simpl in Hls; inversion Hls; auto. }
  inversion Hfront; subst front.
  unfold ldeq_body. rewrite Hr. simpl app.
  destruct (deq_empty D dnil n cl n_pos cl_pos cl_div false q fuel Hf1 Hq) as (q' & E & HI).
  rewrite E. eexists. split; [reflexivity|].
  exists [], q', [], []. linv_split; auto.
Qed.

Lemma ldeq_body_advance L l1 rest :
  LInv L ([] :: l1 :: rest) ->
  exists L', ldeq_body D dnil n cl fuel L = (L', None) /\ LInv L' (l1 :: rest).
Proof.
  intros (front & q & lsf & l & Hr & Hls & Hfront & Hq & Hti & Hne).
  assert (Hf1 : (1 <= fuel)%nat) by lia.
  unfold ldeq_body. rewrite Hr.
  destruct front as [|q0 f'].
  - inversion Hfront; subst lsf. simpl in Hls. inversion Hls.
  - inversion Hfront as [|? l00 ? lsf' H0 Hf' E1 E2]; subst lsf. simpl in Hls. inversion Hls as [[Hl0 Hrest]]. subst l00.
    simpl app.
    destruct (deq_empty D dnil n cl n_pos cl_pos cl_div true q0 fuel Hf1 H0) as (q1 & E & HI).
    rewrite E.
    assert (Hrest_ne : exists a b, f' ++ [q] = a :: b) by (destruct f'; simpl; eauto).
    destruct Hrest_ne as (a & b & Eab). rewrite Eab.
    assert (HI2 : Inv true (set_thr D q1 (thr_full n)) []).
    { apply set_thr_inv; auto. unfold thr_full. lia. }
    destruct (deq_empty D dnil n cl n_pos cl_pos cl_div true _ fuel Hf1 HI2) as (q3 & E3 & HI3).
    rewrite E3. eexists. split; [reflexivity|].
    exists f', q, lsf', l. cbn [rings ti]. linv_split; auto.
    + rewrite Hti. reflexivity.
    + apply Forall_tl. exact Hne.
Qed.

Lemma ldeq_ok L ls k0 :
  (2 <= k0)%nat -> LInv L ls ->
  exists L' ls' o, ldeq_loop D dnil n cl fuel k0 L = (L', o) /\ LInv L' ls' /\
     match concat ls with
     | [] => o = ODeq None /\ concat ls' = []
     | x :: r => o = ODeq (Some x) /\ concat ls' = r
     end.
Proof.
  intros Hk0 HL.
  destruct k0 as [|[|k]]; [lia|lia|]. cbn [ldeq_loop].
  destruct ls as [|l0 rest].
  { destruct HL as (front & q & lsf & l & _ & Hls & _). destruct lsf; discriminate. }
  destruct l0 as [|x l0].
  - destruct rest as [|l1 rest].
    + destruct (ldeq_body_empty L HL) as (L' & E & HL'). rewrite E.
      exists L', [[]], (ODeq None). simpl. auto.
    + destruct (ldeq_body_advance L l1 rest HL) as (L1 & E & HL1). rewrite E.
      assert (Hne : l1 <> []).
      { destruct HL as (front & q & lsf & l & _ & Hls & _ & _ & _ & Hne). simpl in Hne. now inversion Hne. }
      destruct l1 as [|x l1]; [congruence|].
      destruct (ldeq_body_some L1 x l1 rest HL1) as (L2 & E2 & HL2). rewrite E2.
      exists L2, (l1 :: rest), (ODeq (Some x)). simpl. auto.
  - destruct (ldeq_body_some L x l0 rest HL) as (L' & E & HL'). rewrite E.
    exists L', (l0 :: rest), (ODeq (Some x)). simpl. auto.
Qed.

(* ---- refinement ---- *)
Definition R (L : lscq D) (s : list D) : Prop := exists ls, LInv L ls /\ concat ls = s.

Lemma step_sim L s o :
  R L s ->
  let '(L', r) := lscq_step D dnil n cl fuel L o in
  let '(s', r') := fifo_step s o in
  r = r' /\ R L' s'.
Proof.
  intros (ls & HL & Hc). destruct o as [d|]; cbn [lscq_step fifo_step].
  - destruct (lenq_ok L ls d fuel ltac:(lia) HL) as (L' & ls' & E & HL' & Hc'). rewrite E.
    split; [reflexivity|]. exists ls'. split; auto. congruence.
  - destruct (ldeq_ok L ls fuel fuel_ok HL) as (L' & ls' & r & E & HL' & Hm). rewrite E. rewrite Hc in Hm.
    destruct s as [|x s]; destruct Hm as [-> Hc'].
    + split; [reflexivity|]. exists ls'. auto.
    + split; [reflexivity|]. exists ls'. auto.
Qed.

Theorem lscq_refines_fifo ops :
  snd (run (lscq_step D dnil n cl fuel) (lscq_init D n) ops) = snd (run fifo_step [] ops).
Proof.
  assert (H : R (lscq_init D n) []) by (exists [[]]; split; [apply linv_init|reflexivity]).
  revert H. generalize (lscq_init D n) ([] : list D).
  induction ops as [|o ops IH]; intros L s HR; [reflexivity|].
  cbn [run]. pose proof (step_sim L s o HR) as Hs.
  destruct (lscq_step D dnil n cl fuel L o) as [L' r]. destruct (fifo_step s o) as [s' r'].
  destruct Hs as [-> HR']. specialize (IH L' s' HR').
  destruct (run (lscq_step D dnil n cl fuel) L' ops) as [L2 os]. destruct (run fifo_step s' ops) as [s2 os'].
  simpl in *. congruence.
Qed.

End L.
Print Assumptions lscq_refines_fifo.
