(* C05 correspondence checker.  Sequential cases: a (run-length encoded) trace of Enqueue/Dequeue
   calls on the real queue with what each call returned, plus snapshots of internal state taken
   through the verif accessors; judged against the FIFO specification (kind 2) and against the model
   AT THE REAL RING SIZE (kind 1).  Concurrent cases: a recorded timed history, decided by the
   verified checkers of Aspects.v (kind 2); the Go twin of the near-linear checks is compared with
   the Coq one (kind 1).  Tiny contended histories (<= 12 calls): decided by the verified
   linearizability checker of Common/Hist.v instantiated with the FIFO specification (kind 2 when not
   linearizable) and cross-checked against aspects_b on the same history (kind 1 on disagreement; by
   Proofs_Lin they agree on well-stamped unique-value histories).  Constants of util.go are compared with
   the model's (kind 1). *)
From VF Require Import Common.Base C05.Model C05.Spec C05.Aspects C05.Lin.
Local Open Scope Z_scope.

Definition FUEL : nat := 3.

(* the specification queue in a form with O(1) amortised operations (Proofs_Check: equal to fifo_step) *)
Definition bq := (list Z * list Z)%type.
Definition bq_abs (q : bq) : list Z := fst q ++ rev (snd q).
Definition bq_step (q : bq) (o : op Z) : bq * out Z :=
  match o with
  | Enq d => ((fst q, d :: snd q), OEnq true)
  | Deq => match fst q with
           | x :: f => ((f, snd q), ODeq (Some x))
           | [] => match rev_append (snd q) [] with      (* = rev (snd q), linear *)
                   | [] => (([], []), ODeq None)
                   | x :: f => ((f, []), ODeq (Some x))
                   end
           end
  end.

Inductive sstep :=
| SEnq (k : nat) (v0 : Z) (ok : bool)          (* k calls Enqueue(v0), Enqueue(v0+1), ...: every one returned ok *)
| SDeq (k : nat) (v0 : Z)                       (* k calls Dequeue() returned (v0, true), (v0+1, true), ... *)
| SDeqEmpty (k : nat)                           (* k calls Dequeue() returned (_, false) *)
| SSnap (segs : nat) (head tail : Z * Z * bool * Z)     (* number of rings; (head, tail, closed, threshold) of the first / last ring *)
| SProbe (last : bool) (idx : Z) (e : bool * bool * Z * Z).   (* slot idx of the first / last ring: safe, empty, cycle, data *)

Inductive case :=
| CSeq (variant : nat) (steps : list sstep)
| CHist (full drained gotwin : bool) (h : history)     (* recorded history; gotwin = verdict of the harness's twin checker *)
| CTwin (full drained gotwin : bool) (h : history)     (* deliberately corrupted history: only twin against Coq *)
| CLin (h : history)                                   (* tiny recorded history: lin_check, cross-checked with aspects_b *)
| CLinX (h : history)                                  (* deliberately corrupted tiny history: only aspects_b against lin_check *)
| CConst (size line : Z) (remaps : list (Z * Z)).

Definition mstate := (lscq Z * bq)%type.
Definition m0 : mstate := (lscq_init Z scqsize, ([], [])).

Definition out_eqb (a b : out Z) : bool :=
  match a, b with
  | OEnq x, OEnq y => Bool.eqb x y
  | ODeq x, ODeq y => option_eqb Z.eqb x y
  | _, _ => false
  end.

(* one call: the model and the specification are stepped, the observation is compared with both *)
Definition call1 (s : mstate) (o : op Z) (obs : out Z) : mstate * nat :=
  let '(L, q) := s in
  let '(L', om) := lscq_step Z 0 scqsize cacheline16 FUEL L o in
  let '(q', os) := bq_step q o in
  ((L', q'), kind_of (out_eqb om obs) (out_eqb os obs)).

Fixpoint enq_many (k : nat) (v : Z) (ok : bool) (s : mstate) : mstate * nat :=
  match k with
  | O => (s, 0%nat)
  | S k' => let '(s', kd) := call1 s (Enq v) (OEnq ok) in
            if Nat.eqb kd 0 then enq_many k' (v + 1) ok s' else (s', kd)
  end.
Fixpoint deq_many (k : nat) (v : Z) (s : mstate) : mstate * nat :=
  match k with
  | O => (s, 0%nat)
  | S k' => let '(s', kd) := call1 s Deq (ODeq (Some v)) in
            if Nat.eqb kd 0 then deq_many k' (v + 1) s' else (s', kd)
  end.
Fixpoint deq_empty_many (k : nat) (s : mstate) : mstate * nat :=
  match k with
  | O => (s, 0%nat)
  | S k' => let '(s', kd) := call1 s Deq (ODeq None) in
            if Nat.eqb kd 0 then deq_empty_many k' s' else (s', kd)
  end.

Definition ring_view (q : scq Z) : Z * Z * bool * Z := (hd q, tl q, closed q, thr q).
Definition view_eqb (a b : Z * Z * bool * Z) : bool :=
  let '(a1, a2, a3, a4) := a in let '(b1, b2, b3, b4) := b in
  (a1 =? b1) && (a2 =? b2) && Bool.eqb a3 b3 && (a4 =? b4).

Definition sstep_check (s : mstate) (st : sstep) : mstate * nat :=
  match st with
  | SEnq k v ok => enq_many k v ok s
  | SDeq k v => deq_many k v s
  | SDeqEmpty k => deq_empty_many k s
  | SSnap segs h t =>
      let rs := rings (fst s) in
      let agree := Nat.eqb (length rs) segs
                   && view_eqb (ring_view (List.hd (scq_init Z scqsize) rs)) h
                   && view_eqb (ring_view (last rs (scq_init Z scqsize))) t in
      (s, if agree then 0%nat else 1%nat)
  | SProbe lst idx e =>
      let rs := rings (fst s) in
      let r := if lst then last rs (scq_init Z scqsize) else List.hd (scq_init Z scqsize) rs in
      let m := rget Z 0 (ring r) idx in
      let '(sf, em, cy, da) := e in
      let agree := Bool.eqb (safe m) sf && Bool.eqb (emp m) em && (cyc m =? cy) && (em || (dat m =? da)) in
      (s, if agree then 0%nat else 1%nat)
  end.

(* property-only pass (specification against the observations, the model is not consulted): finds a
   violation even when an earlier step already differs from the model *)
Fixpoint prop_many (k : nat) (o : op Z) (obs : Z -> out Z) (v : Z) (q : bq) : bq * nat :=
  match k with
  | O => (q, 0%nat)
  | S k' => let '(q', os) := bq_step q (match o with Enq _ => Enq v | Deq => Deq end) in
            if out_eqb os (obs v) then prop_many k' o obs (v + 1) q' else (q', 2%nat)
  end.
Definition prop_step (q : bq) (st : sstep) : bq * nat :=
  match st with
  | SEnq k v ok => prop_many k (Enq 0) (fun _ => OEnq ok) v q
  | SDeq k v => prop_many k Deq (fun x => ODeq (Some x)) v q
  | SDeqEmpty k => prop_many k Deq (fun _ => ODeq None) 0 q
  | _ => (q, 0%nat)
  end.

Definition check_case (c : case) : nat :=
  match c with
  | CSeq _ steps =>
      let c2 := scan prop_step (([], []) : bq) steps 0 in
      if Nat.eqb c2 0 then scan sstep_check m0 steps 0 else c2
  | CHist full drained gotwin h =>
      if negb (unique_b h) then 1%nat        (* malformed recording: values must be unique *)
      else
        let lin := lin_b drained h in
        let em := if full then empty_b h else true in
        let asp := if full then nofresh_b h && norepeat_b h && order_b h && em else true in   (* = aspects_b h *)
        kind_of (Bool.eqb (lin && em) gotwin) (lin && asp)
  | CTwin full drained gotwin h =>
      let lin := lin_b drained h in
      let em := if full then empty_b h else true in
      if Bool.eqb (lin && em) gotwin then 0%nat else 1%nat
  | CLin h =>
      if negb (unique_b h && stamped_b h && distinct_b h) then 1%nat      (* malformed recording *)
      else
        let l := fifo_lin_check h in
        kind_of (Bool.eqb (aspects_b h) l) l
  | CLinX h =>
      if negb (unique_b h && stamped_b h && distinct_b h) then 1%nat
      else if Bool.eqb (aspects_b h) (fifo_lin_check h) then 0%nat else 1%nat
  | CConst size line remaps =>
      if (size =? scqsize) && (line =? cacheline16)
         && forallb (fun p => remap scqsize cacheline16 (fst p) =? snd p) remaps
      then 0%nat else 1%nat
  end.

Definition mismatches (cs : list case) : list (nat * nat) := find_bad check_case cs.
