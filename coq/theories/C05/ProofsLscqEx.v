(* C05 - the LSCQ layer: the concrete runs used as non-vacuity examples in PropsLscq.v. *)
From Coq Require Import ZArith List Bool Lia Arith.
Import ListNotations.
From VF Require C05.Model.
From VF Require Import C05.Scq C05.Lscq C05.ProofsLscqStep C05.ProofsLscqLin C05.ProofsLscqTie.
Open Scope Z_scope.

Fixpoint alt01 (k : nat) : list qlabel := match k with O => [] | S k' => QLStep 0 :: QLStep 1 :: alt01 k' end.

Lemma lscq_nonvacuous :
  let sched := [QLEnq 0 1] ++ repeat (QLStep 0) 8 ++ [QLEnq 0 2; QLDeq 1] ++ alt01 9 ++ [QLDeq 1] ++ alt01 12 ++ [QLDeq 1] ++ alt01 30 in
  let L := qrun 1 (linit 1) sched in
  (forall l, In l sched -> (qthread l < 2)%nat) /\
  map (fun x => (fst (fst (fst x)), snd x)) (qtrace L) =
    [(0%nat, QEnq 1 0 1); (1%nat, QDeq (Some (0%nat, 1, 1))); (0%nat, QEnq 2 1 1); (1%nat, QDeq (Some (1%nat, 1, 2)))] /\
  nr L = 2%nat /\ qh L = 1%nat /\ qt L = 1%nat /\ closed (rings L 0%nat) = true /\ closed (rings L 1%nat) = false /\
  qquiescent L.
Proof.
  cbv zeta. split; [|split; [vm_compute; reflexivity|repeat (split; [vm_compute; reflexivity|])]].
  2:{ intros i. destruct i as [|[|i]]; vm_compute; reflexivity. }
  intros l Hl.
  assert (H : forallb (fun l => (qthread l <? 2)%nat)
    ([QLEnq 0 1] ++ repeat (QLStep 0) 8 ++ [QLEnq 0 2; QLDeq 1] ++ alt01 9 ++ [QLDeq 1] ++ alt01 12 ++ [QLDeq 1] ++ alt01 30) = true)
    by (vm_compute; reflexivity).
  rewrite forallb_forall in H. apply Nat.ltb_lt. apply H. exact Hl.
Qed.

Lemma lscq_solo_nonvacuous :
  option_map snd (lmseq 2 1 50 (Model.lscq_init Z 2)
    [Model.Enq 1; Model.Enq 2; Model.Enq 3; Model.Deq; Model.Deq; Model.Deq; Model.Deq]) =
  Some [Model.OEnq true; Model.OEnq true; Model.OEnq true; Model.ODeq (Some 1); Model.ODeq (Some 2); Model.ODeq (Some 3); Model.ODeq None].
Proof. vm_compute. reflexivity. Qed.
