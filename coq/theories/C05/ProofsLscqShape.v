(* C05 - the LSCQ layer: what one queue-level step does to the rings, their traces and the queue-level trace
   (three kinds: a step that touches at most one ring by ring-level steps and returns at most the call that ring
   completed; the link of a new ring; the return of the Enqueue that linked one). *)
From Coq Require Import ZArith List Bool Lia Arith.
Import ListNotations.
From VF Require Import C05.Scq C05.ScqAux C05.Lscq C05.ProofsScqInv C05.ProofsScqCount C05.ProofsScqThr C05.ProofsScqThr2
  C05.ProofsScqEmpty C05.ProofsScqDead C05.ProofsLscqFresh C05.ProofsLscqFresh2 C05.ProofsLscq C05.ProofsLscqStep.
Open Scope Z_scope.

(* the thread has linked ring S cq (which holds its value d with ticket n) and has not returned yet *)
Definition lnk (s : qstate) : option (Z * nat) :=
  match s with QE_mvtail d cq | QE_unlock_ret d cq => Some (d, cq) | _ => None end.

Definition nosucc (er : list (nat * Z * Z * event)) : Prop :=
  forall x, In x er -> match snd x with EvEnq _ (Some _) | EvDeq (Some _) => False | _ => True end.
Definition qnosucc (eq : list (nat * Z * Z * qevent)) : Prop :=
  forall x, In x eq -> match snd x with QEnq _ _ _ | QDeq (Some _) => False | _ => True end.

Definition matched (L : lstate) (cq : nat) (er : list (nat * Z * Z * event)) (eq : list (nat * Z * Z * qevent)) : Prop :=
  (nosucc er /\ qnosucc eq) \/
  (exists i d T, er = [(i, since (rings L cq) i, clk (rings L cq), EvEnq d (Some T))] /\ eq = [(i, qsince L i, gclk L, QEnq d cq T)] /\
     qth L i = QE_ring d cq) \/
  (exists i H v, er = [(i, since (rings L cq) i, clk (rings L cq), EvDeq (Some (H, v)))] /\ eq = [(i, qsince L i, gclk L, QDeq (Some (cq, H, v)))] /\
     (qth L i = QD_ring1 cq \/ qth L i = QD_ring2 cq)).

Section Shape.
Variable n : Z.
Hypothesis Hn : 1 <= n.
Variable K : nat.
Hypothesis HK : Z.of_nat K <= n + 1.

Definition quiet_step (L L' : lstate) : Prop :=
  exists cq R' ls er eq,
    (forall r, rings L' r = if Nat.eqb r cq then R' else rings L r) /\ nr L' = nr L /\
    R' = run n (rings L cq) ls /\ trace R' = trace (rings L cq) ++ er /\ qtrace L' = qtrace L ++ eq /\
    (forall k, lnk (qth L' k) = lnk (qth L k)) /\ matched L cq er eq /\
    (forall i a b ev, In (i, a, b, ev) eq -> a = qsince L i /\ b = gclk L).
Definition link_step (L L' : lstate) : Prop :=
  exists i d cq, qth L i = QE_link d cq (fresh_with n i d) /\ S cq = nr L /\ nr L' = S (nr L) /\
    (forall r, rings L' r = if Nat.eqb r (nr L) then fresh_with n i d else rings L r) /\ qtrace L' = qtrace L /\
    (forall k, qth L' k = if Nat.eqb k i then QE_mvtail d cq else qth L k).
Definition lret_step (L L' : lstate) : Prop :=
  exists i d cq, qth L i = QE_unlock_ret d cq /\ (forall r, rings L' r = rings L r) /\ nr L' = nr L /\
    qtrace L' = qtrace L ++ [(i, qsince L i, gclk L, QEnq d (S cq) n)] /\
    (forall k, qth L' k = if Nat.eqb k i then QIdle else qth L k).

Ltac lflat := cbn [rings nr qh qt mu qth gclk qsince qtrace cov].

(* a step that leaves rings and trace alone *)
Lemma quiet_none L L' :
  (forall r, rings L' r = rings L r) -> nr L' = nr L -> qtrace L' = qtrace L -> (forall k, lnk (qth L' k) = lnk (qth L k)) ->
  quiet_step L L'.
Proof.
  intros Hr Hnr Ht Hl. exists 0%nat, (rings L 0%nat), [], [], []. split.
  - intros r. rewrite Hr. destruct (Nat.eqb_spec r 0); [now subst|reflexivity].
  - split; [exact Hnr|]. split; [reflexivity|]. split; [now rewrite app_nil_r|]. split; [now rewrite app_nil_r|].
    split; [exact Hl|]. split; [left; split; intros x []|]. intros i a b ev [].
Qed.

Lemma lnk_upd (q : nat -> qstate) i s k : lnk s = lnk (q i) -> lnk (updf q i s k) = lnk (q k).
Proof. intros E. unfold updf. destruct (Nat.eqb_spec k i) as [->|]; auto. Qed.

(* a step that moves ring cq by ring-level steps *)
Lemma quiet_ring L L' cq ls er eq :
  (forall r, rings L' r = updf (rings L) cq (run n (rings L cq) ls) r) -> nr L' = nr L ->
  trace (run n (rings L cq) ls) = trace (rings L cq) ++ er -> qtrace L' = qtrace L ++ eq ->
  (forall k, lnk (qth L' k) = lnk (qth L k)) -> matched L cq er eq ->
  (forall i a b ev, In (i, a, b, ev) eq -> a = qsince L i /\ b = gclk L) -> quiet_step L L'.
Proof.
  intros Hr Hnr Ht Hq Hl Hm Hst. exists cq, (run n (rings L cq) ls), ls, er, eq. repeat (split; auto).
Qed.

Lemma trace_invoke st l : (forall i, l <> LStep i) -> trace (step n st l) = trace st.
Proof.
  intros Hl. destruct l as [i v|i|i| |]; unfold step, step0; try reflexivity.
  - destruct (th st i); reflexivity.
  - destruct (th st i); reflexivity.
  - exfalso. now apply (Hl i).
Qed.

Ltac unf := unfold qtick, set_q, set_qt, set_qh, set_mu, qret, qinvoke, Lscq.set_ring, set_cov, link; lflat.
Ltac stamps := solve [intros ? ? ? ? []|intros ? ? ? ? [E|[]]; inversion E; auto].
Ltac silent Eq := apply quiet_none; unf; auto; intros k; apply lnk_upd; rewrite Eq; reflexivity.

Lemma nosucc_nil : nosucc [].
Proof. intros x []. Qed.
Lemma qnosucc_nil : qnosucc [].
Proof. intros x []. Qed.

Lemma qstep_shape L l : LInv n K L -> (qthread l < K)%nat ->
  let L' := qstep n L l in quiet_step L L' \/ link_step L L' \/ lret_step L L'.
Proof.
  intros HL Hi. cbv zeta. unfold qstep. destruct l as [i v|i|i]; cbn [qthread] in Hi.
  - left. destruct (qth L i) eqn:Eq; try (apply quiet_none; reflexivity). silent Eq.
  - left. destruct (qth L i) eqn:Eq; try (apply quiet_none; reflexivity). silent Eq.
  - unfold qstep_th. destruct (qth L i) eqn:Eq.
    + left. apply quiet_none; reflexivity.
    + left. silent Eq.
    + left. destruct (S cq <? nr L)%nat; [silent Eq|].
      apply (quiet_ring L _ cq [LEnq i d] [] []); unf; auto; try stamps.
      * unfold run; cbn [fold_left]. rewrite trace_invoke by discriminate. now rewrite app_nil_r.
      * now rewrite app_nil_r.
      * intros k; apply lnk_upd; rewrite Eq; reflexivity.
      * left. split; [apply nosucc_nil|apply qnosucc_nil].
    + left. destruct (qt L =? cq)%nat; silent Eq.
    + (* QE_ring *) left. cbv zeta. unfold ring_step. rewrite is_idle_eq.
      destruct (enq_step n (rings L cq) i d (l_epc _ _ _ HL i d cq Eq)) as [(Hni & _ & _ & Htr)|[(Hid & _ & T & Htr & _)|(Hid & Htr & x & Hf)]].
      * rewrite Hni. apply (quiet_ring L _ cq [LStep i] [] []); unf; auto; try stamps.
        -- unfold run; cbn [fold_left]. rewrite Htr. now rewrite app_nil_r.
        -- now rewrite app_nil_r.
        -- left. split; [apply nosucc_nil|apply qnosucc_nil].
      * rewrite Hid. cbn [is_idle_b]. rewrite (last_ev_app _ _ _ _ _ _ Htr).
        apply (quiet_ring L _ cq [LStep i] [(i, since (rings L cq) i, clk (rings L cq), EvEnq d (Some T))] [(i, qsince L i, gclk L, QEnq d cq T)]); unf; auto; try stamps.
        -- intros k; apply lnk_upd; rewrite Eq; reflexivity.
        -- right; left. exists i, d, T. auto.
      * rewrite Hid. cbn [is_idle_b]. rewrite (last_ev_app _ _ _ _ _ _ Htr).
        apply (quiet_ring L _ cq [LStep i] [(i, since (rings L cq) i, clk (rings L cq), EvEnq d None)] []); unf; auto; try stamps.
        -- now rewrite app_nil_r.
        -- intros k; apply lnk_upd; rewrite Eq; reflexivity.
        -- left. split; [intros y [<-|[]]; exact I|apply qnosucc_nil].
    + left. apply (quiet_ring L _ cq [LClose] [] []); unf; auto; try stamps.
      * now rewrite app_nil_r.
      * now rewrite app_nil_r.
      * intros k; apply lnk_upd; rewrite Eq; reflexivity.
      * left. split; [apply nosucc_nil|apply qnosucc_nil].
    + left. destruct (mu L cq); [apply quiet_none; reflexivity|silent Eq].
    + left. destruct (S cq <? nr L)%nat; silent Eq.
    + left. silent Eq.
    + destruct (Nat.eqb_spec (S cq) (nr L)) as [Hnr|Hnr]; [|left; silent Eq].
      right; left. pose proof (l_fresh _ _ _ HL i _ _ _ Eq) as ->. exists i, d, cq. unf. repeat (split; auto).
    + left. destruct (qt L =? cq)%nat; silent Eq.
    + right; right. exists i, d, cq. unf. repeat (split; auto).
    + left. silent Eq.
    + left. apply (quiet_ring L _ (qh L) [LDeq i] [] []); unf; auto; try stamps.
      * unfold run; cbn [fold_left]. rewrite trace_invoke by discriminate. now rewrite app_nil_r.
      * now rewrite app_nil_r.
      * intros k; apply lnk_upd; rewrite Eq; reflexivity.
      * left. split; [apply nosucc_nil|apply qnosucc_nil].
    + (* QD_ring1 *) left. cbv zeta. unfold ring_step. rewrite is_idle_eq.
      destruct (deq_step n (rings L cq) i (l_dpc _ _ _ HL i cq (or_introl Eq))) as (_ & [(Hni & _ & Htr)|[(Hid & H & x & Htr & _)|(Hid & Htr & _)]]).
      * rewrite Hni. apply (quiet_ring L _ cq [LStep i] [] []); unf; auto; try stamps.
        -- unfold run; cbn [fold_left]. rewrite Htr. now rewrite app_nil_r.
        -- now rewrite app_nil_r.
        -- left. split; [apply nosucc_nil|apply qnosucc_nil].
      * rewrite Hid. cbn [is_idle_b]. rewrite (last_ev_app _ _ _ _ _ _ Htr).
        apply (quiet_ring L _ cq [LStep i] [(i, since (rings L cq) i, clk (rings L cq), EvDeq (Some (H, x)))] [(i, qsince L i, gclk L, QDeq (Some (cq, H, x)))]); unf; auto; try stamps.
        -- intros k; apply lnk_upd; rewrite Eq; reflexivity.
        -- right; right. exists i, H, x. auto.
      * rewrite Hid. cbn [is_idle_b]. rewrite (last_ev_app _ _ _ _ _ _ Htr).
        apply (quiet_ring L _ cq [LStep i] [(i, since (rings L cq) i, clk (rings L cq), EvDeq None)] []); unf; auto; try stamps.
        -- now rewrite app_nil_r.
        -- intros k; apply lnk_upd; rewrite Eq; reflexivity.
        -- left. split; [intros y [<-|[]]; exact I|apply qnosucc_nil].
    + left. destruct (S cq <? nr L)%nat; [silent Eq|].
      apply (quiet_ring L _ 0%nat [] [] [(i, qsince L i, gclk L, QDeq None)]); unf; auto; try stamps.
      * intros r. unfold run; cbn [fold_left]. unfold updf. destruct (Nat.eqb_spec r 0); [now subst|reflexivity].
      * now rewrite app_nil_r.
      * intros k; apply lnk_upd; rewrite Eq; reflexivity.
      * left. split; [apply nosucc_nil|intros y [<-|[]]; exact I].
    + left. apply (quiet_ring L _ cq [LResetThr; LDeq i] [] []); unf; auto; try stamps.
      * unfold run; cbn [fold_left]. rewrite !trace_invoke by discriminate. now rewrite app_nil_r.
      * now rewrite app_nil_r.
      * intros k; apply lnk_upd; rewrite Eq; reflexivity.
      * left. split; [apply nosucc_nil|apply qnosucc_nil].
    + (* QD_ring2 *) left. cbv zeta. unfold ring_step. rewrite is_idle_eq.
      destruct (deq_step n (rings L cq) i (l_dpc _ _ _ HL i cq (or_intror Eq))) as (_ & [(Hni & _ & Htr)|[(Hid & H & x & Htr & _)|(Hid & Htr & _)]]).
      * rewrite Hni. apply (quiet_ring L _ cq [LStep i] [] []); unf; auto; try stamps.
        -- unfold run; cbn [fold_left]. rewrite Htr. now rewrite app_nil_r.
        -- now rewrite app_nil_r.
        -- left. split; [apply nosucc_nil|apply qnosucc_nil].
      * rewrite Hid. cbn [is_idle_b]. rewrite (last_ev_app _ _ _ _ _ _ Htr).
        apply (quiet_ring L _ cq [LStep i] [(i, since (rings L cq) i, clk (rings L cq), EvDeq (Some (H, x)))] [(i, qsince L i, gclk L, QDeq (Some (cq, H, x)))]); unf; auto; try stamps.
        -- intros k; apply lnk_upd; rewrite Eq; reflexivity.
        -- right; right. exists i, H, x. auto.
      * rewrite Hid. cbn [is_idle_b]. rewrite (last_ev_app _ _ _ _ _ _ Htr).
        apply (quiet_ring L _ cq [LStep i] [(i, since (rings L cq) i, clk (rings L cq), EvDeq None)] []); unf; auto; try stamps.
        -- now rewrite app_nil_r.
        -- intros k; apply lnk_upd; rewrite Eq; reflexivity.
        -- left. split; [intros y [<-|[]]; exact I|apply qnosucc_nil].
    + left. destruct (qh L =? cq)%nat; silent Eq.
Qed.

End Shape.
