(* C05 - the LSCQ layer: the invariant of the list of rings, for every schedule of at most K <= n + 1 threads.
   Every ring keeps the ring-level invariants (Inv, Thr2 with the threads waiting to close it as the `busy` ones);
   a ring with a successor is closed; a ring the queue head has left - and already a ring whose second, post-reset
   Dequeue answered empty - is closed and DEAD: no enqueuer in flight holds a ticket at or above its head and no
   written value sits there, so nothing can be stranded in it. *)
From Coq Require Import ZArith List Bool Lia Arith.
Import ListNotations.
From VF Require Import C05.Scq C05.ScqAux C05.Lscq C05.ProofsScqInv C05.ProofsScqCount C05.ProofsScqThr C05.ProofsScqThr2
  C05.ProofsScqEmpty C05.ProofsScqDead C05.ProofsLscqFresh C05.ProofsLscqFresh2.
Open Scope Z_scope.

Definition in_ring (s : qstate) : option nat :=
  match s with QE_ring _ cq | QD_ring1 cq | QD_ring2 cq => Some cq | _ => None end.
Definition reg (s : qstate) : option nat :=
  match s with
  | QE_ldnext _ cq | QE_help _ cq | QE_ring _ cq | QE_close _ cq _ | QE_lock _ cq | QE_chk _ cq | QE_alloc _ cq
  | QE_link _ cq _ | QE_mvtail _ cq | QE_unlock_ret _ cq | QE_unlock_retry _ cq
  | QD_ring1 cq | QD_ldnext cq | QD_reset cq | QD_ring2 cq | QD_cas cq => Some cq
  | _ => None
  end.
(* the thread has closed ring cq *)
Definition clq (s : qstate) : option nat :=
  match s with
  | QE_lock _ cq | QE_chk _ cq | QE_alloc _ cq | QE_link _ cq _ | QE_mvtail _ cq | QE_unlock_ret _ cq | QE_unlock_retry _ cq => Some cq
  | _ => None
  end.
(* the thread is about to close ring r, having given up ticket x *)
Definition bzq (s : qstate) (r : nat) : option Z :=
  match s with QE_close _ cq x => if Nat.eqb cq r then Some x else None | _ => None end.
(* the thread has seen that ring cq has a successor *)
Definition nxt (s : qstate) : option nat :=
  match s with
  | QE_help _ cq | QE_mvtail _ cq | QE_unlock_ret _ cq | QD_reset cq | QD_ring2 cq | QD_cas cq => Some cq
  | _ => None
  end.
Definition bzr (L : lstate) (r : nat) : nat -> option Z := fun i => bzq (qth L i) r.

Section LInv.
Variable n : Z.
Hypothesis Hn : 1 <= n.
Variable K : nat.
Hypothesis HK : Z.of_nat K <= n + 1.

Record LInv (L : lstate) : Prop := {
  l_nr : (1 <= nr L)%nat;
  l_qh : (qh L < nr L)%nat;
  l_qt : (qt L < nr L)%nat;
  l_inv : forall r, Inv n (rings L r);
  l_d5 : forall r, d5inv (rings L r);
  l_thr : forall r, Thr2 n K (bzr L r) (cov L r) (rings L r);
  l_closed : forall r, (S r < nr L)%nat -> closed (rings L r) = true;
  l_clq : forall i cq, clq (qth L i) = Some cq -> closed (rings L cq) = true;
  l_reg : forall i cq, reg (qth L i) = Some cq -> (cq < nr L)%nat;
  l_nxt : forall i cq, nxt (qth L i) = Some cq -> (S cq < nr L)%nat;
  l_act : forall i r, th (rings L r) i <> Idle -> in_ring (qth L i) = Some r;
  l_epc : forall i d cq, qth L i = QE_ring d cq -> enq_pc d (th (rings L cq) i);
  l_dpc : forall i cq, qth L i = QD_ring1 cq \/ qth L i = QD_ring2 cq -> deq_pc (th (rings L cq) i);
  l_bnd : forall i, (K <= i)%nat -> qth L i = QIdle;
  l_r2 : forall i cq, qth L i = QD_ring2 cq ->
           closed (rings L cq) = true /\ (forall T, tgt (rings L cq) T -> T < cov L cq) /\
           (isF (th (rings L cq) i) = true -> dead (rings L cq));
  l_cas : forall i cq, qth L i = QD_cas cq -> closed (rings L cq) = true /\ dead (rings L cq);
  l_ret : forall r, (r < qh L)%nat -> closed (rings L r) = true /\ dead (rings L r);
  l_fresh : forall i d cq R, qth L i = QE_link d cq R -> R = fresh_with n i d;
  l_unl : forall r, (nr L <= r)%nat -> rings L r = init n /\ cov L r = 0
}.

Lemma thr2_bz_ext bz bz' cov st : (forall i, bz' i = bz i) -> Thr2 n K bz cov st -> Thr2 n K bz' cov st.
Proof.
  intros E HT. constructor; try apply HT.
  - intros i Hi. rewrite E. apply (u_bnd _ _ _ _ _ HT i Hi).
  - intros i x. rewrite E. apply (u_bz _ _ _ _ _ HT).
  - intros i k x. rewrite !E. apply (u_bzu _ _ _ _ _ HT).
  - intros Hc x Hx. destruct (u_ga _ _ _ _ _ HT Hc x Hx) as [H|[H|[H|(k & Hk)]]]; auto.
    right; right; right. exists k. now rewrite E.
Qed.

Lemma thr2_init : Thr2 n K (fun _ => None) 0 (init n).
Proof.
  constructor; cbn [init ring hd tl closed thr th wlog clog plog clk since trace].
  - intros i _. auto.
  - lia.
  - intros i. exact I.
  - intros i d T E. discriminate E.
  - intros i k T _ E. discriminate E.
  - intros i x E. discriminate E.
  - intros i k x _ E. discriminate E.
  - lia.
  - intros _ x Hx. lia.
  - intros T HhT [(k & Hk)|[Hw _]]; [discriminate Hk|discriminate Hw].
  - intros T HhT [(k & Hk)|[Hw _]]; [discriminate Hk|discriminate Hw].
Qed.

Lemma linv_init : LInv (linit n).
Proof.
  constructor; cbn [linit rings nr qh qt mu qth gclk qsince qtrace cov].
  - lia.
  - lia.
  - lia.
  - intros r. apply inv_init.
  - intros r i H E. discriminate E.
  - intros r. apply thr2_init.
  - intros r Hr. lia.
  - intros i cq E. discriminate E.
  - intros i cq E. discriminate E.
  - intros i cq E. discriminate E.
  - intros i r E. exfalso. apply E. reflexivity.
  - intros i d cq E. discriminate E.
  - intros i cq [E|E]; discriminate E.
  - intros i _. reflexivity.
  - intros i cq E. discriminate E.
  - intros i cq E. discriminate E.
  - intros r Hr. lia.
  - intros i d cq R E. discriminate E.
  - intros r _. auto.
Qed.

(* ------------------------------------------------------------------ generic steps *)
Ltac lflat := cbn [rings nr qh qt mu qth gclk qsince qtrace cov].

Lemma linv_tick L : LInv L -> LInv (qtick L).
Proof. intros HL. destruct HL. constructor; assumption. Qed.

(* thread i moves between two queue-level states outside any ring; rings, nr and cov stay *)
Lemma linv_move L i s qh' qt' mu' qf gc' sn' tr' :
  LInv L -> (i < K)%nat ->
  qf i = s -> (forall k, k <> i -> qf k = qth L k) ->
  in_ring (qth L i) = None -> in_ring s = None ->
  (forall r, bzq s r = bzq (qth L i) r) ->
  (forall cq, reg s = Some cq -> (cq < nr L)%nat) ->
  (forall cq, nxt s = Some cq -> (S cq < nr L)%nat) ->
  (forall cq, clq s = Some cq -> closed (rings L cq) = true) ->
  (qt' < nr L)%nat -> (qh' < nr L)%nat ->
  (forall r, (r < qh')%nat -> closed (rings L r) = true /\ dead (rings L r)) ->
  (forall cq, s = QD_cas cq -> closed (rings L cq) = true /\ dead (rings L cq)) ->
  (forall d cq R, s = QE_link d cq R -> R = fresh_with n i d) ->
  LInv (mkL (rings L) (nr L) qh' qt' mu' qf gc' sn' tr' (cov L)).
Proof.
  intros HL Hi Hqi Hoth Ho Hs Hbz Hreg Hnxt Hclq Hqt Hqh Hret Hcas Hfr.
  constructor; lflat.
  - apply (l_nr _ HL).
  - exact Hqh.
  - exact Hqt.
  - apply (l_inv _ HL).
  - apply (l_d5 _ HL).
  - intros r. apply (thr2_bz_ext (bzr L r)); [|apply (l_thr _ HL)].
    intros k. unfold bzr. lflat. destruct (Nat.eq_dec k i) as [->|Hk]; [rewrite Hqi; apply Hbz|now rewrite Hoth].
  - apply (l_closed _ HL).
  - intros k cq. destruct (Nat.eq_dec k i) as [->|Hk]; [rewrite Hqi; apply Hclq|rewrite Hoth by auto; apply (l_clq _ HL)].
  - intros k cq. destruct (Nat.eq_dec k i) as [->|Hk]; [rewrite Hqi; apply Hreg|rewrite Hoth by auto; apply (l_reg _ HL)].
  - intros k cq. destruct (Nat.eq_dec k i) as [->|Hk]; [rewrite Hqi; apply Hnxt|rewrite Hoth by auto; apply (l_nxt _ HL)].
  - intros k r Hk. destruct (Nat.eq_dec k i) as [->|Hki]; [|rewrite Hoth by auto; now apply (l_act _ HL)].
    pose proof (l_act _ HL i r Hk). congruence.
  - intros k d cq. destruct (Nat.eq_dec k i) as [->|Hk]; [rewrite Hqi; intros E; rewrite E in Hs; discriminate Hs|rewrite Hoth by auto; apply (l_epc _ HL)].
  - intros k cq. destruct (Nat.eq_dec k i) as [->|Hk]; [rewrite Hqi; intros [E|E]; rewrite E in Hs; discriminate Hs|rewrite Hoth by auto; apply (l_dpc _ HL)].
  - intros k Hk. rewrite Hoth by lia. apply (l_bnd _ HL k Hk).
  - intros k cq. destruct (Nat.eq_dec k i) as [->|Hk]; [rewrite Hqi; intros E; rewrite E in Hs; discriminate Hs|rewrite Hoth by auto; apply (l_r2 _ HL)].
  - intros k cq. destruct (Nat.eq_dec k i) as [->|Hk]; [rewrite Hqi; apply Hcas|rewrite Hoth by auto; apply (l_cas _ HL)].
  - exact Hret.
  - intros k d cq R. destruct (Nat.eq_dec k i) as [->|Hk]; [rewrite Hqi; apply Hfr|rewrite Hoth by auto; apply (l_fresh _ HL)].
  - apply (l_unl _ HL).
Qed.

(* ring cq is replaced by R' (a step inside it, a close, a reset), thread i moves to s *)
Lemma linv_ring L i s cq R' cov' rf qf cf gc' sn' tr' mu' :
  LInv L -> (i < K)%nat -> (cq < nr L)%nat ->
  rf cq = R' -> (forall r, r <> cq -> rf r = rings L r) ->
  qf i = s -> (forall k, k <> i -> qf k = qth L k) ->
  cf cq = cov' -> (forall r, r <> cq -> cf r = cov L r) ->
  Inv n R' -> d5inv R' ->
  Thr2 n K (fun k => if Nat.eqb k i then bzq s cq else bzr L cq k) cov' R' ->
  cov L cq <= cov' ->
  (closed (rings L cq) = true -> closed R' = true /\ (forall T, tgt R' T -> tgt (rings L cq) T) /\ hd (rings L cq) <= hd R') ->
  (forall k, k <> i -> th R' k = th (rings L cq) k) ->
  (in_ring (qth L i) = None \/ in_ring (qth L i) = Some cq) ->
  (th R' i <> Idle -> in_ring s = Some cq) ->
  (forall r, in_ring s = Some r -> r = cq) ->
  (forall d c, s = QE_ring d c -> enq_pc d (th R' i)) ->
  (forall c, s = QD_ring1 c \/ s = QD_ring2 c -> deq_pc (th R' i)) ->
  (forall r, r <> cq -> bzq s r = bzq (qth L i) r) ->
  (forall c, reg s = Some c -> (c < nr L)%nat) ->
  (forall c, nxt s = Some c -> (S c < nr L)%nat) ->
  (forall c, clq s = Some c -> c = cq /\ closed R' = true \/ c <> cq /\ closed (rings L c) = true) ->
  (forall c, s = QD_ring2 c -> closed R' = true /\ (forall T, tgt R' T -> T < cov') /\ (isF (th R' i) = true -> dead R')) ->
  (forall c, s = QD_cas c -> c = cq /\ closed R' = true /\ dead R') ->
  (forall d c R, s <> QE_link d c R) ->
  LInv (mkL rf (nr L) (qh L) (qt L) mu' qf gc' sn' tr' cf).
Proof.
  intros HL Hi Hcq Hrs Hro Hqi Hoth Hcs Hco HIR Hd5 HTR Hcov Hok Hth Hold Hact Hin Hepc Hdpc Hbz Hreg Hnxt Hclq Hr2 Hcas Hlk.
  assert (Hidle : forall r, r <> cq -> th (rings L r) i = Idle).
  { intros r Hr. destruct (th (rings L r) i) eqn:E; auto; exfalso;
      assert (Hne : th (rings L r) i <> Idle) by (rewrite E; discriminate);
      pose proof (l_act _ HL i r Hne) as Ha; destruct Hold as [Ho|Ho]; congruence. }
  assert (Hdead : closed (rings L cq) = true -> dead (rings L cq) -> dead R').
  { intros Hc Hd T HhT Ht. destruct (Hok Hc) as (_ & Hsub & Hhd). apply (Hd T ltac:(lia)). now apply Hsub. }
  constructor; lflat.
  - apply (l_nr _ HL).
  - apply (l_qh _ HL).
  - apply (l_qt _ HL).
  - intros r. destruct (Nat.eq_dec r cq) as [->|Hr]; [rewrite Hrs; exact HIR|rewrite Hro by auto; apply (l_inv _ HL)].
  - intros r. destruct (Nat.eq_dec r cq) as [->|Hr]; [rewrite Hrs; exact Hd5|rewrite Hro by auto; apply (l_d5 _ HL)].
  - intros r. destruct (Nat.eq_dec r cq) as [->|Hr]; [rewrite Hrs, Hcs|rewrite Hro, Hco by auto].
    + apply (thr2_bz_ext (fun k => if Nat.eqb k i then bzq s cq else bzr L cq k)); [|exact HTR].
      intros k. unfold bzr. lflat. destruct (Nat.eqb_spec k i) as [->|Hk]; [now rewrite Hqi|now rewrite Hoth].
    + apply (thr2_bz_ext (bzr L r)); [|apply (l_thr _ HL)].
      intros k. unfold bzr. lflat. destruct (Nat.eq_dec k i) as [->|Hk]; [rewrite Hqi; now apply Hbz|now rewrite Hoth].
  - intros r Hr. destruct (Nat.eq_dec r cq) as [->|Hrc]; [rewrite Hrs|rewrite Hro by auto; now apply (l_closed _ HL)].
    apply (Hok (l_closed _ HL cq Hr)).
  - intros k c. destruct (Nat.eq_dec k i) as [->|Hk]; [rewrite Hqi|rewrite Hoth by auto].
    + intros E. destruct (Hclq c E) as [[-> Hc]|[Hne Hc]]; [now rewrite Hrs|now rewrite Hro].
    + intros E. pose proof (l_clq _ HL k c E) as Hc. destruct (Nat.eq_dec c cq) as [->|Hcc]; [rewrite Hrs; apply (Hok Hc)|now rewrite Hro].
  - intros k c. destruct (Nat.eq_dec k i) as [->|Hk]; [rewrite Hqi; apply Hreg|rewrite Hoth by auto; apply (l_reg _ HL)].
  - intros k c. destruct (Nat.eq_dec k i) as [->|Hk]; [rewrite Hqi; apply Hnxt|rewrite Hoth by auto; apply (l_nxt _ HL)].
  - intros k r. destruct (Nat.eq_dec r cq) as [->|Hr]; [rewrite Hrs|rewrite Hro by auto].
    + intros Hk. destruct (Nat.eq_dec k i) as [->|Hki]; [rewrite Hqi; now apply Hact|].
      rewrite Hoth by auto. rewrite (Hth k Hki) in Hk. now apply (l_act _ HL).
    + intros Hk. destruct (Nat.eq_dec k i) as [->|Hki]; [rewrite (Hidle r Hr) in Hk; congruence|].
      rewrite Hoth by auto. now apply (l_act _ HL).
  - intros k d c. destruct (Nat.eq_dec k i) as [->|Hk]; [rewrite Hqi|rewrite Hoth by auto].
    + intros E. assert (c = cq) by (apply Hin; rewrite E; reflexivity). subst c. rewrite Hrs. now apply (Hepc d cq).
    + intros E. pose proof (l_epc _ HL k d c E) as Hp. destruct (Nat.eq_dec c cq) as [->|Hcc]; [rewrite Hrs; now rewrite (Hth k Hk)|now rewrite Hro].
  - intros k c. destruct (Nat.eq_dec k i) as [->|Hk]; [rewrite Hqi|rewrite Hoth by auto].
    + intros E. assert (c = cq) by (apply Hin; destruct E as [E|E]; rewrite E; reflexivity). subst c. rewrite Hrs. now apply (Hdpc cq).
    + intros E. pose proof (l_dpc _ HL k c E) as Hp. destruct (Nat.eq_dec c cq) as [->|Hcc]; [rewrite Hrs; now rewrite (Hth k Hk)|now rewrite Hro].
  - intros k Hk. rewrite Hoth by lia. apply (l_bnd _ HL k Hk).
  - intros k c. destruct (Nat.eq_dec k i) as [->|Hk]; [rewrite Hqi|rewrite Hoth by auto].
    + intros E. assert (c = cq) by (apply Hin; rewrite E; reflexivity). subst c. rewrite Hrs, Hcs. now apply (Hr2 cq).
    + intros E. destruct (l_r2 _ HL k c E) as (Hc & Hcv & Hf). destruct (Nat.eq_dec c cq) as [->|Hcc]; [rewrite Hrs, Hcs|rewrite Hro, Hco by auto; auto].
      destruct (Hok Hc) as (Hc' & Hsub & Hhd). split; [exact Hc'|]. split.
      * intros T Ht. pose proof (Hcv T (Hsub T Ht)). lia.
      * rewrite (Hth k Hk). intros HF. apply (Hdead Hc). now apply Hf.
  - intros k c. destruct (Nat.eq_dec k i) as [->|Hk]; [rewrite Hqi|rewrite Hoth by auto].
    + intros E. destruct (Hcas c E) as (-> & Hc & Hd). rewrite Hrs. auto.
    + intros E. destruct (l_cas _ HL k c E) as (Hc & Hd). destruct (Nat.eq_dec c cq) as [->|Hcc]; [rewrite Hrs|rewrite Hro by auto; auto].
      split; [apply (Hok Hc)|now apply Hdead].
  - intros r Hr. destruct (l_ret _ HL r Hr) as (Hc & Hd). destruct (Nat.eq_dec r cq) as [->|Hrc]; [rewrite Hrs|rewrite Hro by auto; auto].
    split; [apply (Hok Hc)|now apply Hdead].
  - intros k d c R. destruct (Nat.eq_dec k i) as [->|Hk]; [rewrite Hqi; intros E; exfalso; exact (Hlk d c R E)|rewrite Hoth by auto; apply (l_fresh _ HL)].
  - intros r Hr. assert (r <> cq) by lia. rewrite Hro, Hco by auto. apply (l_unl _ HL r Hr).
Qed.

End LInv.
