(* C05 specification: a FIFO queue is a list; enqueue appends, dequeue takes the first element. *)
From VF Require Import Common.Base C05.Model.

Fixpoint run {S X O} (step : S -> X -> S * O) (s : S) (xs : list X) : S * list O :=
  match xs with
  | [] => (s, [])
  | x :: t => let '(s1, o) := step s x in
              let '(s2, os) := run step s1 t in (s2, o :: os)
  end.

Section Fifo.
Variable D : Type.

Definition fifo_step (q : list D) (o : op D) : list D * out D :=
  match o with
  | Enq d => (q ++ [d], OEnq true)
  | Deq => match q with
           | [] => ([], ODeq None)
           | x :: q' => (q', ODeq (Some x))
           end
  end.
End Fifo.
Arguments fifo_step {D} q o.
