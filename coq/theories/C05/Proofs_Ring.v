(* C05: one SCQ ring run by one thread, for every ring size n >= 1 and every cache-line factor cl | n.
   Invariant Inv c q l: ring q (open if c = false, closed if c = true) holds exactly the list l,
   oldest first.  Ported from notes/spikes/SCQ_sequential_spike.v (ring as PositiveMap, slot index
   through cacheRemap, closed rings added). *)
From VF Require Import Common.Base C05.Model C05.Proofs_Remap.
From Coq Require Import FMapPositive.
Local Open Scope Z_scope.

Section Ring.
Variable D : Type.
Variable dnil : D.
Variable n cl : Z.
Hypothesis n_pos : 1 <= n.
Hypothesis cl_pos : 1 <= cl.
Hypothesis cl_div : (cl | n).

Notation rm := (remap n cl).
Notation rget := (rget D dnil).
Notation rset := (rset D).
Notation scq := (scq D).

(* ---- the ring as a total map ---- *)
Lemma rget_rset_same r i e : rget (rset r i e) i = e.
Proof. unfold Model.rget, Model.rset. rewrite PositiveMap.gss. reflexivity. Qed.

Lemma rget_rset_other r i j e : 0 <= i -> 0 <= j -> i <> j -> rget (rset r i e) j = rget r j.
Proof.
  intros Hi Hj Hne. unfold Model.rget, Model.rset. rewrite PositiveMap.gso; [reflexivity|].
  unfold key. intros E. apply Z2Pos.inj in E; lia.
Qed.

Lemma rm_nonneg a : 0 <= rm a.
Proof. apply (remap_range n cl n_pos cl_pos cl_div a). Qed.
Lemma rm_slot a b : rm a = rm b -> a mod n = b mod n.
Proof. apply (remap_inj_mod n cl n_pos cl_pos cl_div). Qed.
Lemma rm_add_n a : rm (a + n) = rm a.
Proof.
  apply (remap_eq_iff n cl n_pos cl_pos cl_div).
  replace (a + n) with (a + 1 * n) by lia. apply Z.mod_add. lia.
Qed.

(* ---- arithmetic ---- *)
Lemma div_add_n t : (t + n) / n = t / n + 1.
Proof. replace (t + n) with (t + 1 * n) by lia. rewrite Z.div_add by lia. reflexivity. Qed.
Lemma mod_inj a b : a mod n = b mod n -> a <= b < a + n -> a = b.
Proof.
  intros Hm Hr.
  assert (H : (b - a) mod n = 0).
  { rewrite Zminus_mod, Hm, Z.sub_diag. apply Z.mod_0_l. lia. }
  rewrite Z.mod_small in H by lia. lia.
Qed.
Lemma mod_inj' a b : a mod n = b mod n -> - n < b - a < n -> a = b.
Proof.
  intros Hm Hr. destruct (Z_le_gt_dec a b).
  - apply mod_inj; auto. lia.
  - symmetry. apply mod_inj; auto. lia.
Qed.
Lemma rm_inj' a b : rm a = rm b -> - n < b - a < n -> a = b.
Proof. intros E. apply mod_inj'. now apply rm_slot. Qed.

(* ---- the invariant ---- *)
Notation len l := (Z.of_nat (length l)).

Definition filled (q : scq) (i : Z) (d : D) : Prop :=
  let e := rget (ring q) (rm (hd q + i)) in
  safe e = true /\ emp e = false /\ cyc e = (hd q + i) / n /\ dat e = d.

Definition free_ok (q : scq) (k : Z) : Prop :=
  forall tau, hd q + k <= tau < hd q + n ->
    let e := rget (ring q) (rm tau) in emp e = true /\ safe e = true /\ cyc e < tau / n.

Record Inv (c : bool) (q : scq) (l : list D) : Prop := {
  inv_hd : n <= hd q;
  inv_closed : closed q = c;
  inv_tl : if c then tl q <= hd q + len l + 1 else tl q = hd q + len l;
  inv_len : len l <= n;
  inv_filled : forall i d, nth_error l i = Some d -> filled q (Z.of_nat i) d;
  inv_free : free_ok q (len l);
  inv_thr : l <> [] -> 0 <= thr q
}.

Lemma init_inv : Inv false (scq_init D n) [].
Proof.
  constructor; simpl; try lia; auto.
  - intros [|i] d H; discriminate.
  - intros tau Ht. unfold scq_init in Ht. simpl in Ht. cbv zeta.
    unfold Model.rget. rewrite PositiveMap.gempty. simpl. repeat split; auto.
    assert (1 <= tau / n); [|lia]. apply Z.div_le_lower_bound; lia.
  - congruence.
Qed.

(* enqueue into an open ring with room: first iteration succeeds *)
Theorem enq_ok q l d :
  Inv false q l -> len l < n ->
  exists q', enq_body D dnil n cl q d = (q', Some true) /\ Inv false q' (l ++ [d]).
Proof.
  intros [Hhd Hop Htl Hlen Hfill Hfree Hthr] Hroom. unfold enq_body. rewrite Hop.
  destruct (Hfree (tl q)) as (He & Hs & Hc); [lia|]. cbv zeta in *.
  rewrite He, Hs.
  assert (Hcb : (cyc (rget (ring q) (rm (tl q))) <? tl q / n) = true) by (apply Z.ltb_lt; lia).
  rewrite Hcb. cbn [andb orb]. eexists. split; [reflexivity|].
  assert (Hl1 : len (l ++ [d]) = len l + 1) by (rewrite app_length; simpl; lia).
  constructor; cbn [ring hd tl closed thr]; auto.
  - lia.
  - lia.
  - intros i x Hnth. unfold filled; cbn [ring hd].
    destruct (Nat.lt_ge_cases i (length l)) as [Hi|Hi].
    + rewrite nth_error_app1 in Hnth by auto. specialize (Hfill i x Hnth). unfold filled in Hfill.
      rewrite rget_rset_other; auto using rm_nonneg.
      intros E. apply rm_inj' in E; lia.
    + rewrite nth_error_app2 in Hnth by auto.
      destruct (i - length l)%nat eqn:Ei; [|destruct n0; discriminate]. simpl in Hnth. inversion Hnth; subst x.
      assert (Hx : hd q + Z.of_nat i = tl q) by (lia). rewrite Hx.
      rewrite rget_rset_same. simpl. auto.
  - intros tau Ht. rewrite Hl1 in Ht. cbn [hd] in Ht. cbv zeta. cbn [ring].
    rewrite rget_rset_other; auto using rm_nonneg.
    + apply Hfree. lia.
    + intros E. apply rm_inj' in E; lia.
  - intros _. unfold thr_full. destruct (thr q =? 2 * n - 1) eqn:E; [apply Z.eqb_eq in E|]; lia.
Qed.

(* enqueue into a full open ring: first iteration reports full, only the ticket counter moved *)
Theorem enq_full q l d :
  Inv false q l -> len l = n ->
  exists q', enq_body D dnil n cl q d = (q', Some false) /\
             ring q' = ring q /\ hd q' = hd q /\ tl q' = tl q + 1 /\ closed q' = false /\ thr q' = thr q.
Proof.
  intros [Hhd Hop Htl Hlen Hfill Hfree Hthr] Hfull. unfold enq_body. rewrite Hop.
  destruct l as [|x l']; [simpl in Hfull; lia|].
  pose proof (Hfill 0%nat x eq_refl) as (Hs & He & Hc & Hd). cbv zeta in *. change (Z.of_nat 0) with 0 in *.
  rewrite Z.add_0_r in *.
  assert (Hm : rm (tl q) = rm (hd q)) by (rewrite Htl, Hfull; apply rm_add_n).
  rewrite Hm, He. rewrite andb_false_r. cbn [andb].
  assert (Hb : (hd q + n <=? tl q + 1) = true) by (apply Z.leb_le; lia). rewrite Hb.
  eexists. split; [reflexivity|]. simpl. auto.
Qed.

Lemma close_inv q l : Inv false q l -> len l = n ->
  forall q', ring q' = ring q -> hd q' = hd q -> tl q' = tl q + 1 -> thr q' = thr q ->
  Inv true (set_closed D q') l.
Proof.
  intros [Hhd Hop Htl Hlen Hfill Hfree Hthr] Hfull q' Hr Hh Ht Hth.
  constructor; unfold set_closed; cbn [ring hd tl closed thr]; auto; try lia.
  - unfold filled in *. cbn [ring hd]. rewrite Hr, Hh. exact Hfill.
  - unfold free_ok in *. cbn [ring hd]. rewrite Hr, Hh. exact Hfree.
  - rewrite Hth. exact Hthr.
Qed.

(* free_ok after the head slot was released (dequeued or marked for the next cycle) *)
Lemma free_after_head q r' k e' :
  n <= hd q -> 0 <= k -> free_ok q (k + 1) \/ (k = 0 /\ free_ok q 0) ->
  emp e' = true -> safe e' = true -> cyc e' = hd q / n ->
  r' = rset (ring q) (rm (hd q)) e' ->
  forall q', ring q' = r' -> hd q' = hd q + 1 -> free_ok q' k.
Proof.
  intros Hhd Hk Hfree He Hs Hc -> q' Hr Hh tau Htau. rewrite Hh in Htau. cbv zeta. rewrite Hr.
  destruct (Z.eq_dec (rm tau) (rm (hd q))) as [E|E].
  - rewrite E, rget_rset_same.
    assert (tau = hd q + n).
    { assert (E2 : rm tau = rm (hd q + n)) by (rewrite rm_add_n; exact E). apply rm_inj' in E2; lia. }
    subst tau. rewrite div_add_n. repeat split; auto. lia.
  - rewrite rget_rset_other; auto using rm_nonneg.
    assert (tau <> hd q + n) by (intros ->; rewrite rm_add_n in E; congruence).
    destruct Hfree as [Hfree|[-> Hfree]]; apply Hfree; lia.
Qed.

(* dequeue from a non-empty ring (open or closed): first iteration returns the oldest element *)
Theorem deq_ok c q x l fuel :
  (1 <= fuel)%nat -> Inv c q (x :: l) ->
  exists q', scq_dequeue D dnil n cl fuel q = (q', Got x) /\ Inv c q' l.
Proof.
  intros Hfuel [Hhd Hop Htl Hlen Hfill Hfree Hthr]. unfold scq_dequeue.
  assert (Hl1 : len (x :: l) = len l + 1) by (simpl length; lia).
  rewrite Hl1 in *.
  assert (Ht : (thr q <? 0) = false) by (apply Z.ltb_ge; apply Hthr; discriminate). rewrite Ht.
  destruct fuel as [|fuel]; [lia|]. cbn [deq_loop]. unfold deq_body.
  pose proof (Hfill 0%nat x eq_refl) as (Hs & He & Hc & Hd). cbv zeta in *. change (Z.of_nat 0) with 0 in *.
  rewrite Z.add_0_r in *.
  rewrite Hc, Z.eqb_refl, Hd. eexists. split; [reflexivity|].
  constructor; cbn [ring hd tl closed thr]; auto; try lia.
  - destruct c; lia.
  - intros i d Hnth. specialize (Hfill (S i) d Hnth). unfold filled in *. cbn [ring hd].
    replace (hd q + 1 + Z.of_nat i) with (hd q + Z.of_nat (S i)) by lia.
    rewrite rget_rset_other; auto using rm_nonneg.
    intros E. apply rm_inj' in E; [lia|].
    assert (i < length l)%nat by (apply nth_error_Some; simpl in Hnth; congruence). lia.
  - eapply free_after_head with (q := q); [exact Hhd|lia|left; exact Hfree| | | |reflexivity|reflexivity|reflexivity];
      cbn [emp safe cyc]; auto.
Qed.

(* dequeue from an empty ring (open or closed): reports empty, stays an empty ring *)
Theorem deq_empty c q fuel :
  (1 <= fuel)%nat -> Inv c q [] ->
  exists q', scq_dequeue D dnil n cl fuel q = (q', Empty) /\ Inv c q' [].
Proof.
  intros Hfuel HI. unfold scq_dequeue. destruct (thr q <? 0) eqn:Et; [eauto|].
  destruct HI as [Hhd Hop Htl Hlen Hfill Hfree Hthr]. simpl length in *. change (Z.of_nat 0) with 0 in *.
  rewrite Z.add_0_r in *.
  destruct fuel as [|fuel]; [lia|]. cbn [deq_loop]. unfold deq_body.
  destruct (Hfree (hd q)) as (He & Hs & Hc); [lia|]. cbv zeta in *.
  assert (E1 : (cyc (rget (ring q) (rm (hd q))) =? hd q / n) = false) by (apply Z.eqb_neq; lia).
  assert (E2 : (cyc (rget (ring q) (rm (hd q))) <? hd q / n) = true) by (apply Z.ltb_lt; lia).
  rewrite E1, E2, He.
  assert (E3 : (tl q <=? hd q + 1) = true) by (apply Z.leb_le; destruct c; lia). rewrite E3.
  unfold fixstate. cbn [ring hd tl closed thr].
  assert (E4 : (hd q + 1 <? hd q + 1) = false) by (apply Z.ltb_ge; lia). rewrite E4.
  rewrite Hop.
  destruct c; cbn [orb].
  - (* closed: tail untouched *)
    eexists. split; [reflexivity|].
    constructor; cbn [ring hd tl closed thr length]; simpl length; change (Z.of_nat 0) with 0; auto; try lia.
    + intros [|i] d H; discriminate.
    + eapply free_after_head with (q := q) (k := 0); [exact Hhd|lia|right; split; [reflexivity|exact Hfree]| | | |reflexivity|reflexivity|reflexivity];
        cbn [emp safe cyc]; auto.
    + congruence.
  - assert (E5 : (hd q + 1 <=? tl q) = false) by (apply Z.leb_gt; lia). rewrite E5.
    eexists. split; [reflexivity|].
    constructor; cbn [ring hd tl closed thr length]; simpl length; change (Z.of_nat 0) with 0; auto; try lia.
    + intros [|i] d H; discriminate.
    + eapply free_after_head with (q := q) (k := 0); [exact Hhd|lia|right; split; [reflexivity|exact Hfree]| | | |reflexivity|reflexivity|reflexivity];
        cbn [emp safe cyc]; auto.
    + congruence.
Qed.

Lemma set_thr_inv c q l t : Inv c q l -> 0 <= t -> Inv c (set_thr D q t) l.
Proof.
  intros [Hhd Hop Htl Hlen Hfill Hfree Hthr] Ht.
  constructor; unfold set_thr; cbn [ring hd tl closed thr]; auto.
Qed.

(* fuel-bounded drivers on states satisfying the invariant *)
Lemma enq_loop_ok q l d fuel :
  (1 <= fuel)%nat -> Inv false q l -> len l < n ->
  exists q', enq_loop D dnil n cl fuel q d = (q', Some true) /\ Inv false q' (l ++ [d]).
Proof.
  intros Hf HI Hr. destruct fuel as [|fuel]; [lia|]. cbn [enq_loop].
  destruct (enq_ok q l d HI Hr) as (q' & E & HI'). rewrite E. eauto.
Qed.

Lemma enq_loop_full q l d fuel :
  (1 <= fuel)%nat -> Inv false q l -> len l = n ->
  exists q', enq_loop D dnil n cl fuel q d = (q', Some false) /\ Inv true (set_closed D q') l.
Proof.
  intros Hf HI Hr. destruct fuel as [|fuel]; [lia|]. cbn [enq_loop].
  destruct (enq_full q l d HI Hr) as (q' & E & H1 & H2 & H3 & H4 & H5). rewrite E.
  eexists. split; [reflexivity|]. eapply close_inv; eauto.
Qed.

End Ring.
