(* C05: the conditions of the property statement as Props over complete timed histories, and their
   executable twins.  Definitions only; the equivalences are in Proofs_Aspects.v.

   An event is one completed call: invocation stamp, response stamp (both drawn from one atomic
   counter, invocation before the call, response after it returned), calling thread, and what it did. *)
From VF Require Import Common.Base.
From Coq Require Import FMapPositive.
Local Open Scope Z_scope.

Inductive kind := HEnq (v : Z) | HDeq (v : Z) | HEmpty.
Record event := { inv : Z; resp : Z; who : Z; what : kind }.
Definition history := list event.

Definition before (a b : event) : Prop := resp a < inv b.      (* a returned before b was invoked *)
Definition is_enq (v : Z) (o : event) : Prop := what o = HEnq v.
Definition is_deq (v : Z) (o : event) : Prop := what o = HDeq v.

Definition enq_values (h : history) : list Z :=
  flat_map (fun o => match what o with HEnq v => [v] | _ => [] end) h.
Definition deq_values (h : history) : list Z :=
  flat_map (fun o => match what o with HDeq v => [v] | _ => [] end) h.

(* the harness enqueues every value once *)
Definition UniqueValues (h : history) : Prop := NoDup (enq_values h).

(* 1. no value is dequeued that was not enqueued (nor before its enqueue was even invoked) *)
Definition NoFresh (h : history) : Prop :=
  forall d v, In d h -> is_deq v d -> exists e, In e h /\ is_enq v e /\ ~ before d e.
(* 2. every enqueued value is dequeued at most once *)
Definition NoRepeat (h : history) : Prop := NoDup (deq_values h).
(* 3. values whose enqueues are ordered in real time are dequeued in that order: if enq a returned
      before enq b was invoked and b was dequeued, then a was dequeued too, and no dequeue of b returned
      before a dequeue of a was invoked *)
Definition OrderKept (h : history) : Prop :=
  forall ea eb db a b, In ea h -> In eb h -> In db h ->
    is_enq a ea -> is_enq b eb -> is_deq b db -> before ea eb ->
    (exists da, In da h /\ is_deq a da) /\
    (forall da, In da h -> is_deq a da -> ~ before db da).
(* 4. a dequeue reports empty only if the queue could have been empty at some instant during the call:
      some stamp s inside the call at which no value is definitely inside (enqueue returned by s,
      no dequeue of it invoked by s) *)
Definition present_at (h : history) (s : Z) : Prop :=
  exists e v, In e h /\ is_enq v e /\ resp e <= s /\ (forall d, In d h -> is_deq v d -> s < inv d).
Definition EmptyJustified (h : history) : Prop :=
  forall o, In o h -> what o = HEmpty -> exists s, inv o <= s < resp o /\ ~ present_at h s.
(* never lost: meaningful once the queue has been drained *)
Definition NoLoss (h : history) : Prop :=
  forall e v, In e h -> is_enq v e -> exists d, In d h /\ is_deq v d.
(* the history ends with a drain: some empty answer was invoked after every enqueue had returned *)
Definition Drained (h : history) : Prop :=
  exists o, In o h /\ what o = HEmpty /\ forall e v, In e h -> is_enq v e -> resp e <= inv o.

Definition Aspects (h : history) : Prop := NoFresh h /\ NoRepeat h /\ OrderKept h /\ EmptyJustified h.

(* the special case of 3 where both precedences are program order *)
Definition ProgramOrderKept (h : history) : Prop :=
  forall ea eb da db a b, In ea h -> In eb h -> In da h -> In db h ->
    is_enq a ea -> is_enq b eb -> is_deq a da -> is_deq b db ->
    who ea = who eb -> who da = who db -> before ea eb -> ~ before db da.

(* ---------------- executable twins ---------------- *)
Definition kind_eqb (a b : kind) : bool :=
  match a, b with
  | HEnq x, HEnq y | HDeq x, HDeq y => x =? y
  | HEmpty, HEmpty => true
  | _, _ => false
  end.
Definition beforeb (a b : event) : bool := resp a <? inv b.

Definition nofresh_b (h : history) : bool :=
  forallb (fun d => match what d with
                    | HDeq v => existsb (fun e => kind_eqb (what e) (HEnq v) && negb (beforeb d e)) h
                    | _ => true end) h.

Fixpoint nodup_b (l : list Z) : bool :=
  match l with
  | [] => true
  | x :: t => negb (existsb (Z.eqb x) t) && nodup_b t
  end.
Definition norepeat_b (h : history) : bool := nodup_b (deq_values h).
Definition unique_b (h : history) : bool := nodup_b (enq_values h).

Definition order_b (h : history) : bool :=
  forallb (fun db =>
    match what db with
    | HDeq b =>
      forallb (fun eb =>
        if kind_eqb (what eb) (HEnq b) then
          forallb (fun ea =>
            match what ea with
            | HEnq a =>
              if beforeb ea eb then
                existsb (fun da => kind_eqb (what da) (HDeq a)) h &&
                forallb (fun da => negb (kind_eqb (what da) (HDeq a) && beforeb db da)) h
              else true
            | _ => true
            end) h
        else true) h
    | _ => true
    end) h.

(* earliest invocation of a dequeue of v *)
Fixpoint deq_min (v : Z) (h : history) : option Z :=
  match h with
  | [] => None
  | d :: t => let r := deq_min v t in
              if kind_eqb (what d) (HDeq v)
              then Some (match r with None => inv d | Some b => Z.min (inv d) b end)
              else r
  end.
(* intervals [resp of the enqueue, first invocation of a dequeue of it) of definite presence *)
Definition intervals (h : history) : list (Z * option Z) :=
  flat_map (fun e => match what e with HEnq v => [(resp e, deq_min v h)] | _ => [] end) h.
Definition present_b (iv : list (Z * option Z)) (s : Z) : bool :=
  existsb (fun ab => (fst ab <=? s) && match snd ab with None => true | Some b => s <? b end) iv.
Definition zrange (a b : Z) : list Z := map (fun i => a + Z.of_nat i) (seq 0 (Z.to_nat (b - a))).
Definition empty_b (h : history) : bool :=
  let iv := intervals h in
  forallb (fun o => match what o with
                    | HEmpty => existsb (fun s => negb (present_b iv s)) (zrange (inv o) (resp o))
                    | _ => true end) h.

Definition aspects_b (h : history) : bool := nofresh_b h && norepeat_b h && order_b h && empty_b h.

(* ---------------- near-linear checks for long histories (maps keyed by value) ---------------- *)
Definition zkey (v : Z) : positive :=
  match v with Z0 => 1%positive | Zpos p => xO p | Zneg p => xI p end.

(* value -> its (last listed) enqueue event *)
Definition enq_map (h : history) : PositiveMap.t event :=
  fold_right (fun e m => match what e with HEnq v => PositiveMap.add (zkey v) e m | _ => m end)
             (PositiveMap.empty event) h.
Definition deq_set (h : history) : PositiveMap.t unit :=
  fold_right (fun e m => match what e with HDeq v => PositiveMap.add (zkey v) tt m | _ => m end)
             (PositiveMap.empty unit) h.

(* L1: every dequeued value has an enqueue that was invoked before the dequeue returned *)
Definition lin_nofresh_b (h : history) : bool :=
  let m := enq_map h in
  forallb (fun d => match what d with
                    | HDeq v => match PositiveMap.find (zkey v) m with
                                | Some e => kind_eqb (what e) (HEnq v) && negb (beforeb d e)
                                | None => false
                                end
                    | _ => true end) h.

(* L2: no value dequeued twice *)
Fixpoint nodup_pm (l : list Z) (seen : PositiveMap.t unit) : bool :=
  match l with
  | [] => true
  | x :: t => match PositiveMap.find (zkey x) seen with
              | Some _ => false
              | None => nodup_pm t (PositiveMap.add (zkey x) tt seen)
              end
  end.
Definition lin_norepeat_b (h : history) : bool := nodup_pm (deq_values h) (PositiveMap.empty unit).

(* L3: nothing lost (to be applied to drained histories) *)
Definition lin_noloss_b (h : history) : bool :=
  let s := deq_set h in
  forallb (fun v => match PositiveMap.find (zkey v) s with Some _ => true | None => false end) (enq_values h).

(* L4: per consumer and per producer, consecutive dequeues (in listing order) respect the enqueue order.
   State: (consumer, producer) -> the previous dequeue of that pair and the enqueue of its value. *)
Definition pkey (c p : Z) : positive := zkey (c * 65536 + p).
Definition lin_order_step (m : PositiveMap.t event) (st : PositiveMap.t (event * event) * bool) (d : event)
  : PositiveMap.t (event * event) * bool :=
  match what d with
  | HDeq a =>
    match PositiveMap.find (zkey a) m with
    | Some ea =>
      if kind_eqb (what ea) (HEnq a) then
        let k := pkey (who d) (who ea) in
        let ok := match PositiveMap.find k (fst st) with
                  | Some (db, eb) =>
                    (* eb/db: previous pair; violation: ea returned before eb was invoked, yet db returned
                       before d was invoked *)
                    negb (beforeb ea eb && beforeb db d)
                  | None => true
                  end in
        (PositiveMap.add k (d, ea) (fst st), snd st && ok)
      else st
    | None => st
    end
  | _ => st
  end.
Definition lin_order_b (h : history) : bool :=
  snd (fold_left (lin_order_step (enq_map h)) h (PositiveMap.empty (event * event), true)).

Definition lin_b (drained : bool) (h : history) : bool :=
  lin_nofresh_b h && lin_norepeat_b h && lin_order_b h && (if drained then lin_noloss_b h else true).
