(* C05: the four conditions of the property statement imply linearizability with respect to the
   FIFO queue (the direction "no bad pattern => linearizable" of Henzinger, Sezgin, Vafeiadis,
   "Aspect-oriented linearizability proofs", for complete histories with unique values).

   Proof: an invariant [Good q h] generalises the four conditions to "the queue already holds q and
   the operations h are still to be linearized"; [good_step] picks an operation of h that can be
   linearized next so that the invariant is kept:
     1. a dequeue of the head of q that no remaining operation precedes, else
     2. (q empty) an empty answer that no remaining operation precedes, else
     3. among the enqueues invoked before the earliest response of h, the one whose value's
        dequeue is invoked first (never dequeued = last). *)
From VF Require Import Common.Base Common.Hist C05.Model C05.Spec C05.Aspects C05.Proofs_Aspects C05.Lin.
Local Open Scope Z_scope.

(* ------------------------------------------------------------------ generic *)
Lemma list_dec_ex {A} (f : A -> bool) (l : list A) :
  (exists x, In x l /\ f x = true) \/ (forall x, In x l -> f x = false).
Proof.
  destruct (existsb f l) eqn:E.
  - left. apply existsb_exists in E. exact E.
  - right. intros x Hx. destruct (f x) eqn:Ef; auto.
    assert (existsb f l = true) by (apply existsb_exists; eauto). congruence.
Qed.

(* option Z ordered with None as +infinity *)
Definition ole (x y : option Z) : Prop :=
  match x, y with
  | _, None => True
  | None, Some _ => False
  | Some a, Some b => a <= b
  end.
Lemma ole_refl x : ole x x.
Proof. destruct x; simpl; [lia|exact I]. Qed.
Lemma ole_total x y : ole x y \/ ole y x.
Proof. destruct x, y; simpl; auto. lia. Qed.
Lemma ole_trans x y z : ole x y -> ole y z -> ole x z.
Proof. destruct x, y, z; simpl; auto; try lia; tauto. Qed.

Lemma argmin_opt {A} (k : A -> option Z) (l : list A) :
  l <> [] -> exists x, In x l /\ forall y, In y l -> ole (k x) (k y).
Proof.
  induction l as [|a l IH]; [congruence|]. intros _.
  destruct l as [|b l].
  - exists a. split; [now left|]. intros y [<-|[]]. apply ole_refl.
  - destruct IH as (m & Hm & Hmin); [discriminate|].
    destruct (ole_total (k a) (k m)) as [H|H].
    + exists a. split; [now left|]. intros y [<-|Hy]; [apply ole_refl|].
      eapply ole_trans; [exact H|now apply Hmin].
    + exists m. split; [now right|]. intros y [<-|Hy]; [exact H|now apply Hmin].
Qed.

Lemma in_perm_cons {A} (h h' : list A) o x : Permutation h (o :: h') -> (In x h <-> x = o \/ In x h').
Proof.
  intros HP. split.
  - intros H. apply (Permutation_in _ HP) in H. destruct H as [<-|H]; auto.
  - intros H. apply (Permutation_in _ (Permutation_sym HP)). destruct H as [->|H]; [now left|now right].
Qed.

(* ------------------------------------------------------------------ the invariant *)
Fixpoint qbefore (q : list Z) (a b : Z) : Prop :=
  match q with
  | [] => False
  | x :: t => (x = a /\ In b t) \/ qbefore t a b
  end.

Lemma qbefore_in q a b : qbefore q a b -> In a q.
Proof. induction q as [|x t IH]; simpl; [tauto|]. intros [[-> _]|H]; auto. Qed.

Lemma qbefore_app q c a b : qbefore (q ++ [c]) a b -> qbefore q a b \/ (In a q /\ b = c).
Proof.
  induction q as [|x t IH]; simpl.
  - intros [[_ []]|[]].
  - intros [[-> Hb]|H].
    + apply in_app_or in Hb as [Hb|[<-|[]]]; [left; simpl; left; auto|right; auto].
    + destruct (IH H) as [H1|[H1 H2]]; [left; simpl; right; exact H1|right; auto].
Qed.

Definition enq_in (h : history) (v : Z) : Prop := exists e, In e h /\ is_enq v e.

(* a is in front of b in the final order of enqueues *)
Definition precedes (q : list Z) (h : history) (a b : Z) : Prop :=
  qbefore q a b \/ (In a q /\ enq_in h b) \/
  (exists ea eb, In ea h /\ In eb h /\ is_enq a ea /\ is_enq b eb /\ before ea eb).

Definition present (q : list Z) (h : history) (s : Z) : Prop :=
  (exists v, In v q /\ forall d, In d h -> is_deq v d -> s < inv d) \/ present_at h s.

Definition ord_concl (h : history) (a : Z) (db : event) : Prop :=
  (exists da, In da h /\ is_deq a da) /\ (forall da, In da h -> is_deq a da -> ~ before db da).

Record Good (q : list Z) (h : history) : Prop := {
  g_wf : forall e, In e h -> inv e <= resp e;
  g_uniq : NoDup (q ++ enq_values h);
  g_fresh : forall d v, In d h -> is_deq v d -> In v q \/ exists e, In e h /\ is_enq v e /\ ~ before d e;
  g_rep : NoDup (deq_values h);
  g_ord : forall a b db, precedes q h a b -> In db h -> is_deq b db -> ord_concl h a db;
  g_emp : forall o, In o h -> what o = HEmpty -> exists s, inv o <= s < resp o /\ ~ present q h s
}.

Lemma good_init h : (forall e, In e h -> inv e <= resp e) -> UniqueValues h -> Aspects h -> Good [] h.
Proof.
  intros Hwf HU (H1 & H2 & H3 & H4). constructor.
  - exact Hwf.
  - exact HU.
  - intros d v Hd Dv. right. exact (H1 d v Hd Dv).
  - exact H2.
  - intros a b db Hp Hdb Db. destruct Hp as [Hq|[[Hq _]|(ea & eb & Hea & Heb & Ea & Eb & Hbef)]]; [destruct Hq|destruct Hq|].
    exact (H3 ea eb db a b Hea Heb Hdb Ea Eb Db Hbef).
  - intros o Ho Eo. destruct (H4 o Ho Eo) as (s & Hs & Hn). exists s. split; auto.
    intros [(v & [] & _)|Hp]. contradiction.
Qed.

(* ------------------------------------------------------------------ values of a permuted history *)
Lemma enq_values_perm h h' : Permutation h h' -> Permutation (enq_values h) (enq_values h').
Proof. intros HP. unfold enq_values. now apply Permutation_flat_map. Qed.
Lemma deq_values_perm h h' : Permutation h h' -> Permutation (deq_values h) (deq_values h').
Proof. intros HP. unfold deq_values. now apply Permutation_flat_map. Qed.

Lemma deq_unique h d1 d2 v : NoDup (deq_values h) -> In d1 h -> In d2 h -> is_deq v d1 -> is_deq v d2 -> d1 = d2.
Proof.
  unfold is_deq. induction h as [|x h IH]; simpl; [tauto|].
  intros Hnd H1 H2 E1 E2.
  assert (Hin : forall e, In e h -> what e = HDeq v -> In v (deq_values h)).
  { intros e He Ee. apply in_deq_values. exists e. auto. }
  destruct H1 as [->|H1], H2 as [->|H2]; auto.
  - unfold deq_values in Hnd. simpl in Hnd. rewrite E1 in Hnd. simpl in Hnd. inversion Hnd; subst. exfalso. eauto.
  - unfold deq_values in Hnd. simpl in Hnd. rewrite E2 in Hnd. simpl in Hnd. inversion Hnd; subst. exfalso. eauto.
  - apply IH; auto. unfold deq_values in Hnd. simpl in Hnd. destruct (what x); simpl in Hnd; auto. now inversion Hnd.
Qed.

Lemma nodup_app_r {A} (l1 l2 : list A) : NoDup (l1 ++ l2) -> NoDup l2.
Proof. induction l1 as [|a l1 IH]; simpl; auto. intros H. inversion H; auto. Qed.
Lemma nodup_app_l {A} (l1 l2 : list A) : NoDup (l1 ++ l2) -> NoDup l1.
Proof.
  induction l1 as [|a l1 IH]; simpl; [constructor|]. intros H. inversion H as [|? ? Hn Hd]; subst.
  constructor; auto. intros Hi. apply Hn. apply in_or_app. now left.
Qed.
Lemma nodup_app_disj {A} (l1 l2 : list A) x : NoDup (l1 ++ l2) -> In x l1 -> In x l2 -> False.
Proof.
  induction l1 as [|a l1 IH]; simpl; [tauto|]. intros H [->|H1] H2.
  - inversion H; subst. apply H3. apply in_or_app. now right.
  - inversion H; subst. eauto.
Qed.

Lemma not_all_later h v s :
  ~ (forall d, In d h -> is_deq v d -> s < inv d) -> exists d, In d h /\ is_deq v d /\ inv d <= s.
Proof.
  intros Hn.
  destruct (list_dec_ex (fun d => kind_eqb (what d) (HDeq v) && (inv d <=? s)) h) as [(d & Hd & Hc)|Hall].
  - apply andb_true_iff in Hc as [H1 H2]. apply kind_eqb_eq in H1. apply Z.leb_le in H2. exists d. auto.
  - exfalso. apply Hn. intros d Hd Dv. specialize (Hall d Hd). unfold is_deq in Dv.
    rewrite Dv, kind_eqb_refl in Hall. simpl in Hall. apply Z.leb_gt in Hall. exact Hall.
Qed.

Lemma precedes_left q h a b : precedes q h a b -> In a q \/ enq_in h a.
Proof.
  intros [H|[[H _]|(ea & eb & Hea & _ & Ea & _)]].
  - left. eapply qbefore_in; eauto.
  - now left.
  - right. exists ea. auto.
Qed.

(* ------------------------------------------------------------------ the three kinds of step *)

(* 1. a dequeue of the head of the queue *)
Lemma good_pop u q' h d h' :
  Good (u :: q') h -> Permutation h (d :: h') -> is_deq u d -> Good q' h'.
Proof.
  intros G HP Du.
  assert (Hin : forall x, In x h <-> x = d \/ In x h') by (intros; now apply in_perm_cons).
  assert (PE : Permutation (enq_values h) (enq_values h')).
  { rewrite (enq_values_perm _ _ HP). unfold enq_values. simpl. unfold is_deq in Du. rewrite Du. reflexivity. }
  assert (PD : Permutation (deq_values h) (u :: deq_values h')).
  { rewrite (deq_values_perm _ _ HP). unfold deq_values. simpl. unfold is_deq in Du. rewrite Du. reflexivity. }
  assert (ND : NoDup (u :: deq_values h')) by (eapply Permutation_NoDup; [exact PD|apply (g_rep _ _ G)]).
  assert (NU : NoDup (u :: (q' ++ enq_values h))) by exact (g_uniq _ _ G).
  assert (Hu1 : ~ In u q') by (inversion NU; subst; intros H; apply H1; apply in_or_app; now left).
  assert (Hu2 : ~ enq_in h u).
  { intros (e & He & Ee). inversion NU; subst. apply H1. apply in_or_app. right. apply in_enq_values. eauto. }
  assert (Hu3 : forall d0, In d0 h' -> ~ is_deq u d0).
  { intros d0 Hd0 D0. inversion ND; subst. apply H1. apply in_deq_values. eauto. }
  constructor.
  - intros e He. apply (g_wf _ _ G). apply Hin. now right.
  - inversion NU; subst. eapply Permutation_NoDup; [apply Permutation_app_head; exact PE|assumption].
  - intros d0 v Hd0 Dv.
    destruct (g_fresh _ _ G d0 v (proj2 (Hin d0) (or_intror Hd0)) Dv) as [[<-|Hv]|(e & He & Ee & Hb)].
    + exfalso. exact (Hu3 d0 Hd0 Dv).
    + now left.
    + right. exists e. split; [|auto]. apply Hin in He as [->|He]; auto.
      unfold is_enq, is_deq in *. congruence.
  - now inversion ND.
  - intros a b db Hp Hdb Db.
    assert (Hp' : precedes (u :: q') h a b).
    { destruct Hp as [H|[[H1 (e & He & Ee)]|(ea & eb & Hea & Heb & R)]].
      - left. simpl. now right.
      - right; left. split; [now right|]. exists e. split; auto. apply Hin; now right.
      - right; right. exists ea, eb. split; [apply Hin; now right|split; [apply Hin; now right|exact R]]. }
    assert (Hau : a <> u).
    { intros ->. destruct (precedes_left _ _ _ _ Hp) as [H|(e & He & Ee)]; [contradiction|].
      apply Hu2. exists e. split; auto. apply Hin; now right. }
    destruct (g_ord _ _ G a b db Hp' (proj2 (Hin db) (or_intror Hdb)) Db) as [(da & Hda & Da) Hno].
    split.
    + exists da. split; auto. apply Hin in Hda as [->|Hda]; auto. unfold is_deq in *. congruence.
    + intros da' Hda' Da'. apply Hno; auto. apply Hin; now right.
  - intros o Ho Eo. destruct (g_emp _ _ G o (proj2 (Hin o) (or_intror Ho)) Eo) as (s & Hs & Hn).
    exists s. split; auto. intros Hp. apply Hn.
    destruct Hp as [(v & Hv & Hall)|(e & v & He & Ee & Hr & Hall)].
    + left. exists v. split; [now right|]. intros d0 Hd0 D0. apply Hin in Hd0 as [->|Hd0]; [|now apply Hall].
      exfalso. unfold is_deq in *. assert (v = u) by congruence. subst. contradiction.
    + right. exists e, v. split; [apply Hin; now right|]. split; auto. split; auto.
      intros d0 Hd0 D0. apply Hin in Hd0 as [->|Hd0]; [|now apply Hall].
      exfalso. unfold is_deq in *. assert (v = u) by congruence. subst.
      apply Hu2. exists e. split; auto. apply Hin; now right.
Qed.

(* 2. an empty answer leaves the state alone *)
Lemma good_drop_empty q h o h' :
  Good q h -> Permutation h (o :: h') -> what o = HEmpty -> Good q h'.
Proof.
  intros G HP Eo.
  assert (Hin : forall x, In x h <-> x = o \/ In x h') by (intros; now apply in_perm_cons).
  assert (PE : Permutation (enq_values h) (enq_values h')).
  { rewrite (enq_values_perm _ _ HP). unfold enq_values. simpl. rewrite Eo. reflexivity. }
  assert (PD : Permutation (deq_values h) (deq_values h')).
  { rewrite (deq_values_perm _ _ HP). unfold deq_values. simpl. rewrite Eo. reflexivity. }
  constructor.
  - intros e He. apply (g_wf _ _ G). apply Hin. now right.
  - eapply Permutation_NoDup; [apply Permutation_app_head; exact PE|apply (g_uniq _ _ G)].
  - intros d0 v Hd0 Dv.
    destruct (g_fresh _ _ G d0 v (proj2 (Hin d0) (or_intror Hd0)) Dv) as [Hv|(e & He & Ee & Hb)]; [now left|].
    right. exists e. split; [|auto]. apply Hin in He as [->|He]; auto. unfold is_enq in *. congruence.
  - eapply Permutation_NoDup; [exact PD|apply (g_rep _ _ G)].
  - intros a b db Hp Hdb Db.
    assert (Hp' : precedes q h a b).
    { destruct Hp as [H|[[H1 (e & He & Ee)]|(ea & eb & Hea & Heb & R)]].
      - now left.
      - right; left. split; auto. exists e. split; auto. apply Hin; now right.
      - right; right. exists ea, eb. split; [apply Hin; now right|split; [apply Hin; now right|exact R]]. }
    destruct (g_ord _ _ G a b db Hp' (proj2 (Hin db) (or_intror Hdb)) Db) as [(da & Hda & Da) Hno].
    split.
    + exists da. split; auto. apply Hin in Hda as [->|Hda]; auto. unfold is_deq in *. congruence.
    + intros da' Hda' Da'. apply Hno; auto. apply Hin; now right.
  - intros x Hx Ex. destruct (g_emp _ _ G x (proj2 (Hin x) (or_intror Hx)) Ex) as (s & Hs & Hn).
    exists s. split; auto. intros Hp. apply Hn.
    destruct Hp as [(v & Hv & Hall)|(e & v & He & Ee & Hr & Hall)].
    + left. exists v. split; auto. intros d0 Hd0 D0. apply Hin in Hd0 as [->|Hd0]; [|now apply Hall].
      exfalso. unfold is_deq in *. congruence.
    + right. exists e, v. split; [apply Hin; now right|]. split; auto. split; auto.
      intros d0 Hd0 D0. apply Hin in Hd0 as [->|Hd0]; [|now apply Hall].
      exfalso. unfold is_deq in *. congruence.
Qed.

(* 3. an enqueue, under the two conditions that make it a safe choice *)
Lemma good_enq q h e a h' :
  Good q h -> Permutation h (e :: h') -> is_enq a e ->
  (forall c dc, enq_in h' c -> In dc h -> is_deq c dc -> ord_concl h a dc) ->
  (forall x, In x h' -> what x = HEmpty ->
     exists s, inv x <= s < resp x /\ ~ present q h s /\ ~ (forall d, In d h -> is_deq a d -> s < inv d)) ->
  Good (q ++ [a]) h'.
Proof.
  intros G HP Ea E2 E3.
  assert (Hin : forall x, In x h <-> x = e \/ In x h') by (intros; now apply in_perm_cons).
  assert (PE : Permutation (enq_values h) (a :: enq_values h')).
  { rewrite (enq_values_perm _ _ HP). unfold enq_values. simpl. unfold is_enq in Ea. rewrite Ea. reflexivity. }
  assert (PD : Permutation (deq_values h) (deq_values h')).
  { rewrite (deq_values_perm _ _ HP). unfold deq_values. simpl. unfold is_enq in Ea. rewrite Ea. reflexivity. }
  assert (Hdeq : forall d v, In d h -> is_deq v d -> In d h').
  { intros d v Hd Dv. apply Hin in Hd as [->|Hd]; auto. unfold is_enq, is_deq in *. congruence. }
  assert (Hoc : forall x db, In db h' -> ord_concl h x db -> ord_concl h' x db).
  { intros x db Hdb [(da & Hda & Da) Hno]. split.
    - exists da. split; auto. eapply Hdeq; eauto.
    - intros da' Hda' Da'. apply Hno; auto. apply Hin; now right. }
  constructor.
  - intros x Hx. apply (g_wf _ _ G). apply Hin. now right.
  - rewrite <- app_assoc. simpl. eapply Permutation_NoDup; [apply Permutation_app_head; exact PE|apply (g_uniq _ _ G)].
  - intros d0 v Hd0 Dv.
    destruct (g_fresh _ _ G d0 v (proj2 (Hin d0) (or_intror Hd0)) Dv) as [Hv|(e0 & He0 & Ee0 & Hb)].
    + left. apply in_or_app. now left.
    + apply Hin in He0 as [->|He0].
      * left. apply in_or_app. right. unfold is_enq in *. left. congruence.
      * right. exists e0. auto.
  - eapply Permutation_NoDup; [exact PD|apply (g_rep _ _ G)].
  - intros x y db Hp Hdb Db.
    assert (Hdbh : In db h) by (apply Hin; now right).
    apply Hoc; auto.
    destruct Hp as [H|[[H1 (ey & Hey & Ey)]|(ea & eb & Hea & Heb & R)]].
    + apply qbefore_app in H as [H|[H1 ->]].
      * apply (g_ord _ _ G x y db); auto. now left.
      * apply (g_ord _ _ G x a db); auto. right; left. split; auto. exists e. split; auto. apply Hin; now left.
    + apply in_app_or in H1 as [H1|[<-|[]]].
      * apply (g_ord _ _ G x y db); auto. right; left. split; auto. exists ey. split; auto. apply Hin; now right.
      * apply (E2 y db); auto. exists ey. auto.
    + apply (g_ord _ _ G x y db); auto. right; right. exists ea, eb.
      split; [apply Hin; now right|split; [apply Hin; now right|exact R]].
  - intros x Hx Ex. destruct (E3 x Hx Ex) as (s & Hs & Hn & Hna). exists s. split; auto.
    intros [(v & Hv & Hall)|(e0 & v & He0 & Ee0 & Hr & Hall)].
    + apply in_app_or in Hv as [Hv|[<-|[]]].
      * apply Hn. left. exists v. split; auto. intros d0 Hd0 D0. apply Hall; auto. eapply Hdeq; eauto.
      * apply Hna. intros d0 Hd0 D0. apply Hall; auto. eapply Hdeq; eauto.
    + apply Hn. right. exists e0, v. split; [apply Hin; now right|]. split; auto. split; auto.
      intros d0 Hd0 D0. apply Hall; auto. eapply Hdeq; eauto.
Qed.

(* ------------------------------------------------------------------ choosing the next operation *)
Definition min_b (h : history) (o : event) : bool := forallb (fun p => negb (beforeb p o)) h.

Lemma min_b_true h o : min_b h o = true -> forall p, In p h -> ~ before p o.
Proof.
  unfold min_b. rewrite forallb_forall. intros H p Hp. specialize (H p Hp).
  apply negb_true_iff in H. now apply beforeb_false.
Qed.
Lemma min_b_false h o : min_b h o = false -> exists p, In p h /\ before p o.
Proof.
  intros H. destruct (list_dec_ex (fun p => beforeb p o) h) as [(p & Hp & Hb)|Hall].
  - exists p. split; auto. now apply beforeb_spec.
  - exfalso. assert (min_b h o = true); [|congruence].
    unfold min_b. apply forallb_forall. intros p Hp. rewrite (Hall p Hp). reflexivity.
Qed.

Lemma good_unique q h : Good q h -> UniqueValues h.
Proof. intros G. exact (nodup_app_r _ _ (g_uniq _ _ G)). Qed.

(* the enqueue case: no dequeue of the head of q and (q empty) no empty answer is minimal *)
Lemma enq_case q h :
  Good q h -> h <> [] ->
  (forall u q', q = u :: q' -> forall d, In d h -> is_deq u d -> exists p, In p h /\ before p d) ->
  (q = [] -> forall x, In x h -> what x = HEmpty -> exists p, In p h /\ before p x) ->
  exists e a h', Permutation h (e :: h') /\ is_enq a e /\ (forall p, In p h -> ~ before p e) /\
    (forall c dc, enq_in h' c -> In dc h -> is_deq c dc -> ord_concl h a dc) /\
    (forall x, In x h' -> what x = HEmpty ->
       exists s, inv x <= s < resp x /\ ~ present q h s /\ ~ (forall d, In d h -> is_deq a d -> s < inv d)).
Proof.
  intros G Hne NP1 NP2.
  pose proof (good_unique _ _ G) as HU.
  (* the earliest response *)
  destruct (argmin_opt (fun p => Some (resp p)) h Hne) as (o & Ho & Hr0). simpl in Hr0.
  remember (resp o) as r0 eqn:Er0.
  assert (Hwf : forall p, In p h -> inv p <= resp p) by apply (g_wf _ _ G).
  pose proof (Hwf o Ho) as Hwo.
  (* a dequeue of the head of q invoked by r0 is impossible *)
  assert (Hhead : forall u q' du, q = u :: q' -> In du h -> is_deq u du -> inv du <= r0 -> False).
  { intros u q' du Eq Hdu Du Hle. destruct (NP1 u q' Eq du Hdu Du) as (p & Hp & Hb).
    unfold before in Hb. specialize (Hr0 p Hp). lia. }
  (* what o is *)
  assert (Hanchor : (exists v, is_enq v o) \/
                    (exists v ev, is_deq v o /\ q = [] /\ In ev h /\ is_enq v ev /\ inv ev <= r0)).
  { destruct (what o) as [v|v|] eqn:Eo.
    - left. exists v. exact Eo.
    - right. destruct (g_fresh _ _ G o v Ho Eo) as [Hv|(ev & Hev & Eev & Hnb)].
      + exfalso. destruct q as [|u q']; [destruct Hv|].
        destruct Hv as [<-|Hv].
        * apply (Hhead u q' o eq_refl Ho Eo). lia.
        * assert (Hp : precedes (u :: q') h u v) by (left; simpl; left; auto).
          destruct (g_ord _ _ G u v o Hp Ho Eo) as [(du & Hdu & Du) Hno].
          apply (Hhead u q' du eq_refl Hdu Du). specialize (Hno du Hdu Du). unfold before in Hno. lia.
      + destruct q as [|u q'].
        * exists v, ev. unfold before in Hnb. repeat split; auto. lia.
        * exfalso. assert (Hp : precedes (u :: q') h u v) by (right; left; split; [now left|exists ev; auto]).
          destruct (g_ord _ _ G u v o Hp Ho Eo) as [(du & Hdu & Du) Hno].
          apply (Hhead u q' du eq_refl Hdu Du). specialize (Hno du Hdu Du). unfold before in Hno. lia.
    - exfalso. destruct (g_emp _ _ G o Ho Eo) as (s & Hs & Hn).
      destruct q as [|u q'].
      + destruct (NP2 eq_refl o Ho Eo) as (p & Hp & Hb). unfold before in Hb. specialize (Hr0 p Hp). lia.
      + assert (Hex : exists du, In du h /\ is_deq u du /\ inv du <= s).
        { apply not_all_later. intros Hall. apply Hn. left. exists u. split; [now left|exact Hall]. }
        destruct Hex as (du & Hdu & Du & Hle). apply (Hhead u q' du eq_refl Hdu Du). lia. }
  (* candidates: the enqueues invoked by r0 *)
  set (cand := fun e : event => match what e with HEnq _ => inv e <=? r0 | _ => false end).
  set (vkey := fun e : event => match what e with HEnq a => deq_min a h | _ => None end).
  assert (Hcand : forall e, In e (filter cand h) <-> In e h /\ exists a, is_enq a e /\ inv e <= r0).
  { intros e. rewrite filter_In. unfold cand, is_enq. split.
    - intros [He Hc]. split; auto. destruct (what e) as [a| |]; try discriminate. exists a. split; auto. now apply Z.leb_le.
    - intros [He (a & Ea & Hle)]. split; auto. rewrite Ea. now apply Z.leb_le. }
  assert (Hne' : filter cand h <> []).
  { destruct Hanchor as [(v & Ev)|(v & ev & Dv & Eq & Hev & Eev & Hlev)].
    - intros E. assert (Hi : In o (filter cand h)) by (apply Hcand; split; auto; exists v; split; auto; lia).
      rewrite E in Hi. destruct Hi.
    - intros E. assert (Hi : In ev (filter cand h)) by (apply Hcand; split; auto; exists v; split; auto).
      rewrite E in Hi. destruct Hi. }
  destruct (argmin_opt vkey (filter cand h) Hne') as (e & He & Hmin).
  apply Hcand in He as [Heh (a & Ea & Hle)].
  destruct (in_split _ _ Heh) as (l1 & l2 & Eh).
  assert (HP : Permutation h (e :: l1 ++ l2)) by (rewrite Eh; symmetry; apply Permutation_middle).
  (* the chosen value's dequeue is not invoked after that of any candidate *)
  assert (Hkey : forall e' v' d' s, In e' (filter cand h) -> is_enq v' e' -> In d' h -> is_deq v' d' -> inv d' <= s ->
             (forall d, In d h -> is_deq a d -> s < inv d) -> False).
  { intros e' v' d' s He' Ev' Hd' Dv' Hle' Hall.
    pose proof (Hmin e' He') as Hole. unfold vkey in Hole. unfold is_enq in Ea, Ev'. rewrite Ea, Ev' in Hole.
    pose proof (proj1 (deq_min_spec a s h) Hall) as Hall'.
    assert (Hn : ~ match deq_min v' h with None => True | Some b => s < b end).
    { intros H. pose proof (proj2 (deq_min_spec v' s h) H d' Hd' Dv'). lia. }
    destruct (deq_min a h) as [b|], (deq_min v' h) as [b'|]; simpl in *; try lia; try tauto. }
  assert (An1 : forall c ec dc, In ec h -> is_enq c ec -> In dc h -> is_deq c dc ->
            exists e' v' d', In e' (filter cand h) /\ is_enq v' e' /\ In d' h /\ is_deq v' d' /\ inv d' <= resp dc).
  { intros c ec dc Hec Ec Hdc Dc.
    destruct (Z_le_gt_dec (inv ec) r0) as [Hl|Hg].
    - exists ec, c, dc. split; [apply Hcand; split; auto; exists c; auto|].
      repeat split; auto.
    - destruct Hanchor as [(v & Ev)|(v & ev & Dv & Eq & Hev & Eev & Hlev)].
      + assert (Hp : precedes q h v c).
        { right; right. exists o, ec. split; auto. split; auto. split; auto. split; auto. unfold before. lia. }
        destruct (g_ord _ _ G v c dc Hp Hdc Dc) as [(dv & Hdv & Ddv) Hno].
        exists o, v, dv. split; [apply Hcand; split; auto; exists v; split; auto; lia|].
        specialize (Hno dv Hdv Ddv). unfold before in Hno. repeat split; auto. lia.
      + exists ev, v, o. split; [apply Hcand; split; auto; exists v; auto|].
        assert (inv o <= resp dc); [|repeat split; auto].
        destruct (g_fresh _ _ G dc c Hdc Dc) as [Hv|(e1 & He1 & Ee1 & Hnb)]; [subst q; destruct Hv|].
        assert (e1 = ec) by (eapply unique_enq; eauto). subst e1. unfold before in Hnb. lia. }
  assert (An2 : forall s, r0 <= s -> ~ present q h s ->
            exists e' v' d', In e' (filter cand h) /\ is_enq v' e' /\ In d' h /\ is_deq v' d' /\ inv d' <= s).
  { intros s Hs Hn. destruct Hanchor as [(v & Ev)|(v & ev & Dv & Eq & Hev & Eev & Hlev)].
    - assert (Hex : exists dv, In dv h /\ is_deq v dv /\ inv dv <= s).
      { apply not_all_later. intros Hall. apply Hn. right. exists o, v.
        split; auto. split; auto. split; [lia|exact Hall]. }
      destruct Hex as (dv & Hdv & Ddv & Hle'). exists o, v, dv.
      split; [apply Hcand; split; auto; exists v; split; auto; lia|]. auto.
    - exists ev, v, o. split; [apply Hcand; split; auto; exists v; auto|].
      repeat split; auto. lia. }
  exists e, a, (l1 ++ l2). split; [exact HP|]. split; [exact Ea|]. split; [|split].
  - intros p Hp Hb. unfold before in Hb. specialize (Hr0 p Hp). lia.
  - intros c dc (ec & Hec & Ec) Hdc Dc.
    assert (Hech : In ec h) by (apply (in_perm_cons _ _ _ _ HP); now right).
    destruct (An1 c ec dc Hech Ec Hdc Dc) as (e' & v' & d' & He' & Ev' & Hd' & Dv' & Hle').
    split.
    + destruct (list_dec_ex (fun d => kind_eqb (what d) (HDeq a)) h) as [(da & Hda & Dk)|Hnone].
      * exists da. split; auto. apply kind_eqb_eq in Dk. exact Dk.
      * exfalso. apply (Hkey e' v' d' (resp dc)); auto. intros d Hd Dd. specialize (Hnone d Hd).
        unfold is_deq in Dd. rewrite Dd, kind_eqb_refl in Hnone. discriminate.
    + intros da Hda Da Hb. apply (Hkey e' v' d' (resp dc)); auto. intros d Hd Dd.
      assert (d = da) by (eapply deq_unique; eauto; apply (g_rep _ _ G)). subst d. exact Hb.
  - intros x Hx Ex.
    assert (Hxh : In x h) by (apply (in_perm_cons _ _ _ _ HP); now right).
    destruct (g_emp _ _ G x Hxh Ex) as (s & Hs & Hn). exists s. split; auto. split; auto.
    intros Hall.
    assert (Hrs : r0 <= s).
    { destruct q as [|u q'].
      - destruct (NP2 eq_refl x Hxh Ex) as (p & Hp & Hb). unfold before in Hb. specialize (Hr0 p Hp). lia.
      - assert (Hex : exists du, In du h /\ is_deq u du /\ inv du <= s).
        { apply not_all_later. intros Hall'. apply Hn. left. exists u. split; [now left|exact Hall']. }
        destruct Hex as (du & Hdu & Du & Hle').
        destruct (NP1 u q' eq_refl du Hdu Du) as (p & Hp & Hb). unfold before in Hb. specialize (Hr0 p Hp). lia. }
    destruct (An2 s Hrs Hn) as (e' & v' & d' & He' & Ev' & Hd' & Dv' & Hle').
    exact (Hkey e' v' d' s He' Ev' Hd' Dv' Hle' Hall).
Qed.

Lemma good_step q h : Good q h -> h <> [] ->
  exists o h' q', Permutation h (o :: h') /\ (forall p, In p h' -> ~ before p o) /\
    fifo_step q (call_of (what o)) = (q', ret_of (what o)) /\ Good q' h'.
Proof.
  intros G Hne.
  assert (Hcase : (exists u q' d, q = u :: q' /\ In d h /\ is_deq u d /\ min_b h d = true) \/
                  (exists x, q = [] /\ In x h /\ what x = HEmpty /\ min_b h x = true) \/
                  ((forall u q', q = u :: q' -> forall d, In d h -> is_deq u d -> exists p, In p h /\ before p d) /\
                   (q = [] -> forall x, In x h -> what x = HEmpty -> exists p, In p h /\ before p x))).
  { destruct q as [|u q'].
    - destruct (list_dec_ex (fun x => kind_eqb (what x) HEmpty && min_b h x) h) as [(x & Hx & Hc)|Hall].
      + right; left. apply andb_true_iff in Hc as [H1 H2]. apply kind_eqb_eq in H1. exists x. auto.
      + right; right. split; [intros u q' E; discriminate E|]. intros _ x Hx Ex. apply min_b_false.
        specialize (Hall x Hx). rewrite Ex in Hall. simpl in Hall. exact Hall.
    - destruct (list_dec_ex (fun d => kind_eqb (what d) (HDeq u) && min_b h d) h) as [(d & Hd & Hc)|Hall].
      + left. apply andb_true_iff in Hc as [H1 H2]. apply kind_eqb_eq in H1. exists u, q', d. auto.
      + right; right. split; [|intros E; discriminate E]. intros u0 q0 E d Hd Du. inversion E; subst.
        apply min_b_false. specialize (Hall d Hd). unfold is_deq in Du. rewrite Du, kind_eqb_refl in Hall. exact Hall. }
  destruct Hcase as [(u & q' & d & -> & Hd & Du & Hm)|[(x & -> & Hx & Ex & Hm)|[NP1 NP2]]].
  - destruct (in_split _ _ Hd) as (l1 & l2 & Eh).
    assert (HP : Permutation h (d :: l1 ++ l2)) by (rewrite Eh; symmetry; apply Permutation_middle).
    exists d, (l1 ++ l2), q'. split; [exact HP|]. split; [|split].
    + intros p Hp. apply (min_b_true _ _ Hm). apply (in_perm_cons _ _ _ _ HP). now right.
    + unfold is_deq in Du. rewrite Du. reflexivity.
    + eapply good_pop; eauto.
  - destruct (in_split _ _ Hx) as (l1 & l2 & Eh).
    assert (HP : Permutation h (x :: l1 ++ l2)) by (rewrite Eh; symmetry; apply Permutation_middle).
    exists x, (l1 ++ l2), []. split; [exact HP|]. split; [|split].
    + intros p Hp. apply (min_b_true _ _ Hm). apply (in_perm_cons _ _ _ _ HP). now right.
    + rewrite Ex. reflexivity.
    + eapply good_drop_empty; eauto.
  - destruct (enq_case q h G Hne NP1 NP2) as (e & a & h' & HP & Ea & Hmin & E2 & E3).
    exists e, h', (q ++ [a]). split; [exact HP|]. split; [|split].
    + intros p Hp. apply Hmin. apply (in_perm_cons _ _ _ _ HP). now right.
    + unfold is_enq in Ea. rewrite Ea. reflexivity.
    + eapply good_enq; eauto.
Qed.

(* ------------------------------------------------------------------ the linearization *)
Fixpoint rt_ok_ev (l : history) : Prop :=
  match l with
  | [] => True
  | o :: l' => (forall p, In p l' -> ~ before p o) /\ rt_ok_ev l'
  end.
Fixpoint seq_ev (q : list Z) (l : history) : Prop :=
  match l with
  | [] => True
  | o :: l' => let '(q1, r) := fifo_step q (call_of (what o)) in r = ret_of (what o) /\ seq_ev q1 l'
  end.

Lemma good_lin n : forall q h, length h = n -> Good q h ->
  exists l, Permutation h l /\ rt_ok_ev l /\ seq_ev q l.
Proof.
  induction n as [|n IH]; intros q h Hlen G.
  - destruct h; [|discriminate]. exists []. simpl. auto.
  - assert (Hne : h <> []) by (intros ->; discriminate).
    destruct (good_step q h G Hne) as (o & h' & q' & HP & Hmin & Hst & G').
    assert (Hl' : length h' = n). { apply Permutation_length in HP. simpl in HP. lia. }
    destruct (IH q' h' Hl' G') as (l & HPl & Hrt & Hsq).
    exists (o :: l). split; [rewrite HP; now constructor|]. split.
    + simpl. split; auto. intros p Hp. apply Hmin. eapply Permutation_in; [symmetry; exact HPl|exact Hp].
    + simpl. rewrite Hst. auto.
Qed.

Lemma rt_ok_transfer l : Stamped l -> rt_ok_ev l -> rt_ok (op Z) (out Z) (map to_op l).
Proof.
  induction l as [|o l IH]; intros HS H; simpl; auto.
  destruct H as [Hmin Hrt]. split.
  - intros p Hp. apply in_map_iff in Hp as (p0 & <- & Hp0). unfold to_op. cbn [Hist.inv Hist.resp].
    intros Hlt. apply (Hmin p0 Hp0). unfold before.
    pose proof (HS p0 (or_intror Hp0)) as W1. pose proof (HS o (or_introl eq_refl)) as W2.
    apply Z2N.inj_lt; auto; lia.
  - apply IH; auto. intros e He. apply HS. now right.
Qed.

Lemma seq_transfer l : forall q, seq_ev q l -> seq_ok (list Z) (op Z) (out Z) fifo_step q (map to_op l).
Proof.
  induction l as [|o l IH]; intros q H.
  - exists q. reflexivity.
  - simpl in H. destruct (fifo_step q (call_of (what o))) as [q1 r] eqn:Es. destruct H as [Hr Hs].
    destruct (IH q1 Hs) as (s' & Hs'). exists s'. simpl. rewrite Es. auto.
Qed.

Theorem aspects_linearizable h :
  Stamped h -> UniqueValues h -> Aspects h -> fifo_linearizable h.
Proof.
  intros HS HU HA.
  assert (G : Good [] h) by (apply good_init; auto; intros e He; apply HS; auto).
  destruct (good_lin (length h) [] h eq_refl G) as (l & HP & Hrt & Hsq).
  exists (map to_op l). split; [now apply Permutation_map|]. split.
  - apply rt_ok_transfer; auto. intros e He. apply HS. eapply Permutation_in; [symmetry; exact HP|exact He].
  - now apply seq_transfer.
Qed.

(* ------------------------------------------------------------------ the checker of Common/Hist.v for the FIFO spec *)
Lemma qcall_eqb_spec a b : qcall_eqb a b = true <-> a = b.
Proof.
  destruct a as [x|], b as [y|]; simpl; try (split; [discriminate|intros E; discriminate E]); [|tauto].
  rewrite Z.eqb_eq. split; [intros ->; reflexivity|intros E; now inversion E].
Qed.
Lemma qret_eqb_spec a b : qret_eqb a b = true <-> a = b.
Proof.
  destruct a as [x|x|], b as [y|y|]; simpl; try (split; [discriminate|intros E; discriminate E]); [| |tauto].
  - rewrite Bool.eqb_true_iff. split; [intros ->; reflexivity|intros E; now inversion E].
  - destruct x as [x|], y as [y|]; simpl; try (split; [discriminate|intros E; discriminate E]); [|tauto].
    rewrite Z.eqb_eq. split; [intros ->; reflexivity|intros E; now inversion E].
Qed.
Lemma qstate_eqb_spec a b : qstate_eqb a b = true <-> a = b.
Proof. apply list_eqb_eq. intros; apply Z.eqb_eq. Qed.

Theorem fifo_lin_check_correct h : fifo_lin_check h = true <-> fifo_linearizable h.
Proof.
  unfold fifo_lin_check, fifo_linearizable.
  apply lin_check_correct; [exact qret_eqb_spec|exact qcall_eqb_spec|exact qstate_eqb_spec].
Qed.

Lemma stamped_b_ok h : stamped_b h = true <-> Stamped h.
Proof.
  unfold stamped_b, Stamped. rewrite forallb_forall. split; intros H e He; specialize (H e He).
  - apply andb_true_iff in H as [H1 H2]. apply Z.leb_le in H1. apply Z.leb_le in H2. lia.
  - apply andb_true_iff. split; apply Z.leb_le; lia.
Qed.

(* ------------------------------------------------------------------ the converse: linearizable => the four conditions *)
(* the queue after the calls of l (results ignored) *)
Fixpoint exec (q : list Z) (l : history) : list Z :=
  match l with
  | [] => q
  | o :: t => exec (fst (fifo_step q (call_of (what o)))) t
  end.

Lemma seq_ev_app q l1 l2 : seq_ev q (l1 ++ l2) <-> seq_ev q l1 /\ seq_ev (exec q l1) l2.
Proof.
  revert q. induction l1 as [|o l1 IH]; intros q; simpl; [tauto|].
  destruct (fifo_step q (call_of (what o))) as [q1 r]. cbn [fst]. rewrite IH. tauto.
Qed.

Lemma enq_values_app l1 l2 : enq_values (l1 ++ l2) = enq_values l1 ++ enq_values l2.
Proof. apply flat_map_app. Qed.
Lemma deq_values_app l1 l2 : deq_values (l1 ++ l2) = deq_values l1 ++ deq_values l2.
Proof. apply flat_map_app. Qed.
Lemma enq_values_cons o t : enq_values (o :: t) = match what o with HEnq v => [v] | _ => [] end ++ enq_values t.
Proof. reflexivity. Qed.
Lemma deq_values_cons o t : deq_values (o :: t) = match what o with HDeq v => [v] | _ => [] end ++ deq_values t.
Proof. reflexivity. Qed.

(* FIFO: the dequeued values, in order, followed by the queue are the enqueued values, in order *)
Lemma fifo_inv l : forall q, seq_ev q l -> q ++ enq_values l = deq_values l ++ exec q l.
Proof.
  induction l as [|o t IH]; intros q H.
  - simpl. now rewrite app_nil_r.
  - rewrite enq_values_cons, deq_values_cons. simpl in H |- *.
    destruct (what o) as [v|v|] eqn:Eo; simpl in H |- *.
    + destruct H as [_ H]. rewrite <- (IH _ H). now rewrite <- app_assoc.
    + destruct q as [|x q']; simpl in H |- *; destruct H as [Hr H]; [discriminate|].
      inversion Hr; subst x. now rewrite <- (IH _ H).
    + destruct q as [|x q']; simpl in H |- *; destruct H as [Hr H]; [|discriminate].
      now rewrite <- (IH _ H).
Qed.

Lemma rt_ok_ev_app l1 l2 : rt_ok_ev (l1 ++ l2) -> forall p x, In p l1 -> In x l2 -> ~ before x p.
Proof.
  induction l1 as [|a l1 IH]; simpl; [tauto|]. intros [Hmin Hrt] p x [<-|Hp] Hx.
  - apply Hmin. apply in_or_app. now right.
  - now apply IH.
Qed.

Lemma rt_ok_back l : Stamped l -> rt_ok (op Z) (out Z) (map to_op l) -> rt_ok_ev l.
Proof.
  induction l as [|o l IH]; intros HS H; simpl; auto.
  simpl in H. destruct H as [Hmin Hrt]. split.
  - intros p Hp Hb. apply (Hmin (to_op p)); [now apply in_map|].
    unfold to_op. cbn [Hist.inv Hist.resp]. unfold before in Hb.
    pose proof (HS p (or_intror Hp)) as W1. pose proof (HS o (or_introl eq_refl)) as W2.
    apply Z2N.inj_lt; auto; lia.
  - apply IH; auto. intros e He. apply HS. now right.
Qed.

Lemma seq_back l : forall q, seq_ok (list Z) (op Z) (out Z) fifo_step q (map to_op l) -> seq_ev q l.
Proof.
  induction l as [|o l IH]; intros q [s' H]; simpl; auto.
  simpl in H. destruct (fifo_step q (call_of (what o))) as [q1 r]. destruct H as [Hr H].
  split; auto. apply IH. now exists s'.
Qed.

Lemma nodup_split_eq {A} (l : list A) b x1 y1 x2 y2 :
  NoDup l -> l = x1 ++ b :: y1 -> l = x2 ++ b :: y2 -> x1 = x2.
Proof.
  intros Hnd E1 E2. subst l. revert x2 Hnd E2. induction x1 as [|a x1 IH]; intros x2 Hnd E2.
  - destruct x2 as [|c x2]; auto. simpl in *. inversion E2 as [[Ec Et]]. subst c.
    exfalso. inversion Hnd as [|? ? Hn _]. apply Hn. rewrite Et. apply in_or_app. right. now left.
  - destruct x2 as [|c x2]; simpl in *.
    + inversion E2 as [[Ec Et]]. subst a. exfalso. inversion Hnd as [|? ? Hn _]. apply Hn.
      apply in_or_app. right; now left.
    + inversion E2 as [[Ec Et]]. subst c. f_equal. inversion Hnd as [|? ? _ Hnd']. eapply IH; eauto.
Qed.

Lemma max_inv_ex (l : history) : l <> [] -> exists p, In p l /\ forall x, In x l -> inv x <= inv p.
Proof.
  intros Hne. destruct (argmin_opt (fun p => Some (- inv p)) l Hne) as (p & Hp & Hmin).
  exists p. split; auto. intros x Hx. specialize (Hmin x Hx). simpl in Hmin. lia.
Qed.

Lemma stamps_app l1 l2 : stamps (l1 ++ l2) = stamps l1 ++ stamps l2.
Proof. apply flat_map_app. Qed.
Lemma inv_in_stamps l p : In p l -> In (inv p) (stamps l).
Proof. intros H. unfold stamps. apply in_flat_map. exists p. split; auto. now left. Qed.
Lemma resp_in_stamps l p : In p l -> In (resp p) (stamps l).
Proof. intros H. unfold stamps. apply in_flat_map. exists p. split; auto. right; now left. Qed.

Theorem seq_aspects l :
  Stamped l -> DistinctStamps l -> UniqueValues l -> rt_ok_ev l -> seq_ev [] l -> Aspects l.
Proof.
  intros HS HD HU Hrt Hsq.
  pose proof (fifo_inv l [] Hsq) as Hall. simpl in Hall.
  assert (HR : NoRepeat l).
  { unfold NoRepeat. unfold UniqueValues in HU. rewrite Hall in HU. exact (nodup_app_l _ _ HU). }
  (* what holds before a given position *)
  assert (Hpre : forall l1 o l2, l = l1 ++ o :: l2 ->
            seq_ev [] l1 /\ seq_ev (exec [] l1) (o :: l2) /\ enq_values l1 = deq_values l1 ++ exec [] l1).
  { intros l1 o l2 El. rewrite El in Hsq. apply seq_ev_app in Hsq as [H1 H2]. split; auto. split; auto.
    exact (fifo_inv l1 [] H1). }
  split; [|split; [exact HR|split]].
  - (* NoFresh *)
    intros d v Hd Dv. destruct (in_split _ _ Hd) as (l1 & l2 & El).
    destruct (Hpre l1 d l2 El) as (H1 & H2 & HI).
    simpl in H2. unfold is_deq in Dv. rewrite Dv in H2. simpl in H2.
    destruct (exec [] l1) as [|x q'] eqn:Eq; simpl in H2; destruct H2 as [Hr _]; [discriminate|].
    inversion Hr; subst x.
    assert (Hv : In v (enq_values l1)) by (rewrite HI; apply in_or_app; right; now left).
    apply in_enq_values in Hv as (e & He & Ee). exists e. split; [rewrite El; apply in_or_app; now left|].
    split; auto. rewrite El in Hrt. apply (rt_ok_ev_app _ _ Hrt e d He). now left.
  - (* OrderKept *)
    intros ea eb db a b Hea Heb Hdb Ea Eb Db Hbef.
    destruct (in_split _ _ Hdb) as (l1 & l2 & El).
    destruct (Hpre l1 db l2 El) as (H1 & H2 & HI).
    simpl in H2. unfold is_deq in Db. rewrite Db in H2. simpl in H2.
    destruct (exec [] l1) as [|x q'] eqn:Eq; simpl in H2; destruct H2 as [Hr _]; [discriminate|].
    inversion Hr; subst x.
    assert (Hrt' := Hrt). rewrite El in Hrt'.
    (* eb is in l1 *)
    assert (Hb1 : In b (enq_values l1)) by (rewrite HI; apply in_or_app; right; now left).
    apply in_enq_values in Hb1 as (eb' & Heb' & Eb').
    assert (eb' = eb).
    { eapply unique_enq; eauto. rewrite El. apply in_or_app. now left. }
    subst eb'.
    destruct (in_split _ _ Heb') as (m1 & m2 & Em).
    (* ea is in m1 *)
    assert (Wb : inv eb <= resp eb) by (apply HS; auto).
    assert (Ha1 : In ea m1).
    { rewrite El, Em in Hea. rewrite <- app_assoc in Hea. simpl in Hea.
      apply in_app_or in Hea as [Hea|[<-|Hea]]; auto.
      - exfalso. unfold before in Hbef. lia.
      - exfalso.
        assert (Hrt2 : rt_ok_ev ((m1 ++ [eb]) ++ (m2 ++ db :: l2))).
        { rewrite <- app_assoc. simpl. rewrite Em in Hrt'. rewrite <- app_assoc in Hrt'. exact Hrt'. }
        apply (rt_ok_ev_app _ _ Hrt2 eb ea); auto. apply in_or_app. right. now left. }
    assert (Hav : In a (enq_values m1)) by (apply in_enq_values; eauto).
    (* so a is dequeued in l1 *)
    assert (HU1 : NoDup (enq_values l1)).
    { unfold UniqueValues in HU. rewrite El, enq_values_app in HU. exact (nodup_app_l _ _ HU). }
    assert (Esplit : enq_values l1 = enq_values m1 ++ b :: enq_values m2).
    { rewrite Em, enq_values_app, enq_values_cons. unfold is_enq in Eb. rewrite Eb. reflexivity. }
    assert (Em1 : enq_values m1 = deq_values l1) by (eapply nodup_split_eq; [exact HU1|exact Esplit|exact HI]).
    rewrite Em1 in Hav. apply in_deq_values in Hav as (da & Hda & Da).
    assert (Hdal : In da l) by (rewrite El; apply in_or_app; now left).
    split.
    + exists da. auto.
    + intros da' Hda' Da'. assert (da' = da) by (eapply deq_unique; eauto). subst da'.
      apply (rt_ok_ev_app _ _ Hrt' da db Hda). now left.
  - (* EmptyJustified *)
    intros o Ho Eo. destruct (in_split _ _ Ho) as (l1 & l2 & El).
    destruct (Hpre l1 o l2 El) as (H1 & H2 & HI).
    simpl in H2. rewrite Eo in H2. simpl in H2.
    destruct (exec [] l1) as [|x q'] eqn:Eq; simpl in H2; destruct H2 as [Hr _]; [|discriminate].
    rewrite app_nil_r in HI.
    assert (Hrt' := Hrt). rewrite El in Hrt'.
    assert (HD' : NoDup (stamps l1 ++ [inv o; resp o] ++ stamps l2)).
    { unfold DistinctStamps in HD. rewrite El, stamps_app in HD. exact HD. }
    destruct (max_inv_ex (l1 ++ [o])) as (p & Hp & Hmax); [destruct l1; discriminate|].
    assert (Hpl : In p l1 \/ p = o) by (apply in_app_or in Hp as [Hp|[<-|[]]]; auto).
    assert (Hso : inv p < resp o).
    { destruct Hpl as [Hp1| ->].
      - assert (Hnb : ~ before o p) by (apply (rt_ok_ev_app _ _ Hrt' p o Hp1); now left).
        unfold before in Hnb.
        assert (inv p <> resp o); [|lia].
        intros E. apply (nodup_app_disj _ _ (inv p) HD'); [now apply inv_in_stamps|].
        rewrite E. right; now left.
      - pose proof (HS o Ho) as W.
        assert (inv o <> resp o); [|lia].
        intros E. apply nodup_app_r in HD'. simpl in HD'. inversion HD' as [|? ? Hn _]. apply Hn. rewrite E. now left. }
    exists (inv p). split; [split; auto; apply Hmax; apply in_or_app; right; now left|].
    intros (e & v & He & Ee & Hre & Hlater).
    rewrite El in He. apply in_app_or in He as [He|[<-|He]].
    + assert (Hv : In v (deq_values l1)) by (rewrite <- HI; apply in_enq_values; eauto).
      apply in_deq_values in Hv as (d & Hd & Dv).
      assert (inv p < inv d) by (apply Hlater; auto; rewrite El; apply in_or_app; now left).
      assert (inv d <= inv p) by (apply Hmax; apply in_or_app; now left). lia.
    + unfold is_enq in Ee. congruence.
    + assert (Hrt2 : rt_ok_ev ((l1 ++ [o]) ++ l2)) by (rewrite <- app_assoc; exact Hrt').
      assert (Hnb : ~ before e p) by (apply (rt_ok_ev_app _ _ Hrt2 p e Hp He)).
      unfold before in Hnb.
      assert (inv p <> resp e); [|lia].
      intros E.
      assert (HD2 : NoDup (stamps (l1 ++ [o]) ++ stamps l2)).
      { rewrite stamps_app. rewrite <- app_assoc. exact HD'. }
      apply (nodup_app_disj _ _ (inv p) HD2); [now apply inv_in_stamps|].
      rewrite E. now apply resp_in_stamps.
Qed.

Lemma aspects_perm h l : Permutation h l -> Aspects l -> Aspects h.
Proof.
  intros HP (A1 & A2 & A3 & A4).
  assert (Hin : forall x, In x h <-> In x l).
  { intros x. split; apply Permutation_in; [exact HP|now symmetry]. }
  split; [|split; [|split]].
  - intros d v Hd Dv. destruct (A1 d v (proj1 (Hin d) Hd) Dv) as (e & He & R). exists e. split; auto. now apply Hin.
  - unfold NoRepeat. eapply Permutation_NoDup; [symmetry; apply deq_values_perm; exact HP|exact A2].
  - intros ea eb db a b Hea Heb Hdb Ea Eb Db Hbef.
    destruct (A3 ea eb db a b (proj1 (Hin _) Hea) (proj1 (Hin _) Heb) (proj1 (Hin _) Hdb) Ea Eb Db Hbef) as [(da & Hda & Da) Hno].
    split.
    + exists da. split; auto. now apply Hin.
    + intros da' Hda' Da'. apply Hno; auto. now apply Hin.
  - intros o Ho Eo. destruct (A4 o (proj1 (Hin _) Ho) Eo) as (s & Hs & Hn). exists s. split; auto.
    intros (e & v & He & Ee & Hr & Hl). apply Hn. exists e, v. split; [now apply Hin|]. split; auto. split; auto.
    intros d Hd Dv. apply Hl; auto. now apply Hin.
Qed.

Theorem linearizable_aspects h :
  Stamped h -> DistinctStamps h -> UniqueValues h -> fifo_linearizable h -> Aspects h.
Proof.
  intros HS HD HU (l' & HP & Hrt & Hsq).
  apply Permutation_sym in HP. destruct (Permutation_map_inv _ _ HP) as (l & -> & HPl).
  assert (HSl : Stamped l) by (intros e He; apply HS; eapply Permutation_in; [symmetry; exact HPl|exact He]).
  apply (aspects_perm h l HPl). apply seq_aspects; auto.
  - unfold DistinctStamps in *. eapply Permutation_NoDup; [|exact HD]. unfold stamps. now apply Permutation_flat_map.
  - unfold UniqueValues in *. eapply Permutation_NoDup; [apply enq_values_perm; exact HPl|exact HU].
  - now apply rt_ok_back.
  - now apply seq_back.
Qed.

Lemma distinct_b_ok h : distinct_b h = true <-> DistinctStamps h.
Proof. apply nodup_b_ok. Qed.

(* ------------------------------------------------------------------ a history that starts with a non-empty queue *)
Lemma pre_events_stamps q : forall t e, In e (pre_events t q) ->
  t < inv e /\ inv e < resp e /\ resp e <= t + 2 * Z.of_nat (length q).
Proof.
  induction q as [|v q IH]; intros t e H; [destruct H|].
  cbn [pre_events length] in *. destruct H as [<-|H].
  - cbn [inv resp]. lia.
  - apply IH in H. lia.
Qed.

Lemma pre_lin_to q0 : forall t q s', 0 <= t ->
  (lin_to (list Z) (op Z) (out Z) fifo_step q (map to_op (pre_events t q0)) s' <-> s' = q ++ q0).
Proof.
  induction q0 as [|v q0 IH]; intros t q s' Ht.
  - cbn [pre_events map]. rewrite app_nil_r. split.
    + intros (l & HP & _ & Hs). apply Permutation_nil in HP. subst l. exact Hs.
    + intros ->. exists []. split; [constructor|split; [exact I|reflexivity]].
  - cbn [pre_events map].
    set (e0 := {| inv := t + 1; resp := t + 2; who := 0; what := HEnq v |}).
    assert (Hlater : forall p, In p (map to_op (pre_events (t + 2) q0)) ->
              (Hist.resp (to_op e0) < Hist.inv p)%N /\ (Hist.inv (to_op e0) < Hist.resp p)%N).
    { intros p Hp. apply in_map_iff in Hp as (e & <- & He). apply pre_events_stamps in He.
      unfold to_op, e0. cbn [Hist.inv Hist.resp inv resp].
      split; apply Z2N.inj_lt; lia. }
    split.
    + intros (l & HP & Hrt & Hs).
      destruct (cut_split (op Z) (out Z) l [to_op e0] (map to_op (pre_events (t + 2) q0))) as (l1 & l2 & -> & P1 & P2); auto.
      * intros p x [<-|[]] Hx. apply (Hlater x Hx).
      * intros p [<-|[]]. unfold to_op, e0. cbn [Hist.inv Hist.resp inv resp]. apply Z2N.inj_le; lia.
      * apply Permutation_length_1_inv in P1. subst l1. cbn [app] in *.
        cbn [seq_to rt_ok] in Hs, Hrt. unfold to_op at 1 in Hs. cbn [Hist.call Hist.ret e0 what call_of ret_of fifo_step] in Hs.
        destruct Hs as [_ Hs]. destruct Hrt as [_ Hrt].
        assert (HL : lin_to (list Z) (op Z) (out Z) fifo_step (q ++ [v]) (map to_op (pre_events (t + 2) q0)) s')
          by (exists l2; auto).
        apply (IH (t + 2) (q ++ [v]) s') in HL; [|lia]. rewrite HL, <- app_assoc. reflexivity.
    + intros ->.
      assert (HL : lin_to (list Z) (op Z) (out Z) fifo_step (q ++ [v]) (map to_op (pre_events (t + 2) q0)) ((q ++ [v]) ++ q0))
        by (apply IH; [lia|reflexivity]).
      destruct HL as (l2 & P2 & Hrt & Hs). exists (to_op e0 :: l2). split; [now constructor|]. split.
      * cbn [rt_ok]. split; auto. intros p Hp Hlt.
        assert (Hp' : In p (map to_op (pre_events (t + 2) q0))) by (eapply Permutation_in; [symmetry; exact P2|exact Hp]).
        destruct (Hlater p Hp') as [_ H2]. lia.
      * cbn [seq_to]. unfold to_op at 1. cbn [Hist.call Hist.ret e0 what call_of ret_of fifo_step].
        split; auto. rewrite <- app_assoc in Hs. exact Hs.
Qed.

Theorem prefix_encoding t q0 h :
  0 <= t -> (forall e, In e h -> t + 2 * Z.of_nat (length q0) < inv e /\ inv e <= resp e) ->
  (fifo_linearizable (pre_events t q0 ++ h) <->
   linearizable (list Z) (op Z) (out Z) fifo_step q0 (map to_op h)).
Proof.
  intros Ht Hh. unfold fifo_linearizable. rewrite map_app.
  assert (Hcut : quiescent_cut (op Z) (out Z) (map to_op (pre_events t q0) ++ map to_op h)
                   (map to_op (pre_events t q0)) (map to_op h)).
  { split; [reflexivity|]. split.
    - intros p x Hp Hx. apply in_map_iff in Hp as (e & <- & He). apply in_map_iff in Hx as (e' & <- & He').
      apply pre_events_stamps in He. destruct (Hh e' He') as [H1 H2].
      unfold to_op. cbn [Hist.inv Hist.resp]. apply Z2N.inj_lt; lia.
    - intros p Hp. apply in_app_or in Hp as [Hp|Hp]; apply in_map_iff in Hp as (e & <- & He);
        unfold to_op; cbn [Hist.inv Hist.resp]; apply Z2N.inj_le.
      + apply pre_events_stamps in He. lia.
      + apply pre_events_stamps in He. lia.
      + apply pre_events_stamps in He. lia.
      + destruct (Hh e He). lia.
      + destruct (Hh e He). lia.
      + destruct (Hh e He). lia. }
  rewrite (lin_segments (list Z) (op Z) (out Z) fifo_step [] _ _ _ Hcut). split.
  - intros (s' & HL & Hlin). apply (pre_lin_to q0 t [] s' Ht) in HL. simpl in HL. subst s'. exact Hlin.
  - intros Hlin. exists q0. split; [|exact Hlin]. apply (pre_lin_to q0 t [] q0 Ht). reflexivity.
Qed.

(* the two deciders on one recorded history *)
Corollary aspects_b_lin_check h :
  stamped_b h = true -> unique_b h = true -> aspects_b h = true -> fifo_lin_check h = true.
Proof.
  intros HS HU HA. apply fifo_lin_check_correct. apply aspects_linearizable.
  - now apply stamped_b_ok.
  - now apply unique_ok.
  - now apply aspects_b_ok_all.
Qed.

Corollary checkers_agree h :
  stamped_b h = true -> distinct_b h = true -> unique_b h = true -> aspects_b h = fifo_lin_check h.
Proof.
  intros HS HD HU. apply stamped_b_ok in HS. apply distinct_b_ok in HD. apply unique_ok in HU.
  destruct (aspects_b h) eqn:Ea, (fifo_lin_check h) eqn:El; auto.
  - apply aspects_b_ok_all in Ea. apply (aspects_linearizable h HS HU) in Ea.
    apply fifo_lin_check_correct in Ea. congruence.
  - apply fifo_lin_check_correct in El. apply (linearizable_aspects h HS HD HU) in El.
    apply aspects_b_ok_all in El. congruence.
Qed.

Print Assumptions aspects_linearizable.
Print Assumptions linearizable_aspects.
Print Assumptions fifo_lin_check_correct.
Print Assumptions checkers_agree.
Print Assumptions prefix_encoding.
