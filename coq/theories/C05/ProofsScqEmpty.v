(* C05 - the small-step SCQ ring under the thread bound: every empty answer is justified (fifth invariant [Jus]),
   hence every quiescent reachable state of an admissible run is linearizable. *)
From Coq Require Import ZArith List Bool Lia Arith.
Import ListNotations.
From VF Require Import Common.Base C05.Aspects C05.Proofs_Aspects C05.Lin C05.Proofs_Lin.
From VF Require Import C05.Scq C05.ProofsScqInv C05.ProofsScqSafe C05.ProofsScqOrd C05.ProofsScqCount C05.ProofsScqThr C05.ProofsScqFifo.
Open Scope Z_scope.

Definition isF (s : tstate) : bool := match s with F1 _ | F2 _ _ | F3 _ _ _ | F4 => true | _ => false end.

Section Frame.
Variable n : Z.
Hypothesis Hn : 1 <= n.

Ltac shape := unfold tick, goto, ret, invoke, set_tl, set_hd, set_thr, set_ring, add_w, add_c, add_p, set_closed;
  cbn [ring hd tl closed thr th wlog clog plog clk since trace].

(* what a step of thread i leaves alone *)
Lemma tstep_frame st i :
  let st' := tick (tstep n st i) in
  clk st' = clk st + 1 /\ since st' = since st /\ (forall k, k <> i -> th st' k = th st k) /\
  (trace st' = trace st \/ exists ev, trace st' = trace st ++ [(i, since st i, clk st, ev)]) /\
  hd st <= hd st'.
Proof.
  cbv zeta. unfold tstep.
  assert (Hoth : forall s k, k <> i -> updf (th st) i s k = th st k) by (intros; now apply updf_other).
  destruct (th st i) eqn:Ht; [shape; repeat split; auto; lia| | | | | | | | | | | | | | | | | | |].
  - unfold do_E1. destruct (closed st); shape; repeat split; auto; try lia; right; eauto.
  - unfold do_E2. destruct (_ && _); [destruct (safe _)|]; shape; repeat split; auto; lia.
  - unfold do_E3. destruct (_ <=? _); shape; repeat split; auto; lia.
  - unfold do_E4. destruct (entry_eqb _ _); shape; repeat split; auto; lia.
  - unfold do_E5. destruct (_ <=? _); shape; repeat split; auto; try lia; right; eauto.
  - unfold do_E6. destruct (_ =? _); shape; repeat split; auto; try lia; right; eauto.
  - unfold do_E7. shape; repeat split; auto; try lia; right; eauto.
  - unfold do_D0. destruct (_ <? _); shape; repeat split; auto; try lia; right; eauto.
  - unfold do_D1. shape; repeat split; auto; lia.
  - unfold do_D2. destruct (_ =? _); [|destruct (_ <? _)]; shape; repeat split; auto; lia.
  - unfold do_D3a. shape; repeat split; auto; lia.
  - unfold do_D3b. shape; repeat split; auto; try lia; right; eauto.
  - unfold do_D4. destruct (entry_eqb _ _); shape; repeat split; auto; lia.
  - unfold do_D5. destruct (_ <=? _); shape; repeat split; auto; lia.
  - unfold do_D7. destruct (_ <=? _); shape; repeat split; auto; try lia; right; eauto.
  - unfold do_F1. destruct (_ <? _); shape; repeat split; auto; lia.
  - unfold do_F2. destruct (_ || _); shape; repeat split; auto; lia.
  - unfold do_F3. destruct (_ && _); shape; repeat split; auto; lia.
  - unfold do_F4. shape; repeat split; auto; try lia; right; eauto.
Qed.

Lemma app_one_neq {A} (l : list A) x : l = l ++ [x] -> False.
Proof. intros E. apply (f_equal (@length _)) in E. rewrite app_length in E. cbn in E. lia. Qed.

Ltac evgoal := let ev := fresh "ev" in let E := fresh "E" in let Eev := fresh "Eev" in
  intros ev E Eev; first [exfalso; exact (app_one_neq _ _ E) | apply app_inv_head in E; inversion E; subst; discriminate].

(* what it does to thread i itself *)
Lemma tstep_self st i : Inv n st ->
  let st' := tick (tstep n st i) in
  (th st' i <> Idle -> th st i <> Idle) /\
  (forall T v, dticket (th st i) = Some T -> In (T, v) (wlog st) ->
     dticket (th st' i) = Some T \/ exists x, trace st' = trace st ++ [(i, since st i, clk st, EvDeq (Some (T, x)))]) /\
  (isF (th st' i) = true -> isF (th st i) = true \/ exists H, th st i = D5 H /\ tl st <= H + 1) /\
  (forall ev, trace st' = trace st ++ [(i, since st i, clk st, ev)] -> ev = EvDeq None ->
     (th st i = D0 /\ thr st < 0) \/ (exists H, th st i = D7 H /\ thr st <= 0) \/ th st i = F4) /\
  (forall H, th st' i = D5 H -> H < hd st').
Proof.
  intros HI. cbv zeta. unfold tstep. pose proof (i_t _ _ HI i) as Hti.
  destruct (th st i) eqn:Ht; cbn [tinv] in Hti.
  - shape. rewrite Ht. split; [congruence|]. split; [intros T v E; discriminate E|]. split; [discriminate|].
    split; [intros ev E; exfalso; exact (app_one_neq _ _ E)|intros H E; discriminate E].
  - unfold do_E1. destruct (closed st); shape; rewrite updf_same; repeat split; try congruence; try discriminate; evgoal.
  - unfold do_E2. destruct (_ && _); [destruct (safe _)|]; shape; rewrite updf_same; repeat split; try congruence; try discriminate;
      intros ev E; exfalso; exact (app_one_neq _ _ E).
  - unfold do_E3. destruct (_ <=? _); shape; rewrite updf_same; repeat split; try congruence; try discriminate;
      intros ev E; exfalso; exact (app_one_neq _ _ E).
  - unfold do_E4. destruct (entry_eqb _ _); shape; rewrite updf_same; repeat split; try congruence; try discriminate;
      intros ev E; exfalso; exact (app_one_neq _ _ E).
  - unfold do_E5. destruct (_ <=? _); shape; rewrite updf_same; repeat split; try congruence; try discriminate; evgoal.
  - unfold do_E6. destruct (_ =? _); shape; rewrite updf_same; repeat split; try congruence; try discriminate; evgoal.
  - unfold do_E7. shape; rewrite updf_same; repeat split; try congruence; try discriminate; evgoal.
  - unfold do_D0. destruct (thr st <? 0) eqn:Et; shape; rewrite updf_same; repeat split; try congruence; try discriminate.
    + intros ev E Eev. left. split; [reflexivity|now apply Z.ltb_lt].
    + intros ev E; exfalso; exact (app_one_neq _ _ E).
  - unfold do_D1. shape; rewrite updf_same; repeat split; try congruence; try discriminate.
    intros ev E; exfalso; exact (app_one_neq _ _ E).
  - (* D2 *) destruct Hti as (HH & Hp & Hc).
    unfold do_D2, slot, cyc_of. destruct (cyc (ring st (H mod n)) =? H / n) eqn:Ec; [|apply Z.eqb_neq in Ec; destruct (_ <? _)];
      shape; rewrite updf_same; repeat split; try congruence; try discriminate;
      try (intros ev E; exfalso; exact (app_one_neq _ _ E)).
    + intros T v E Hw. now left.
    + intros T v E Hw. now left.
    + intros T v E Hw. exfalso. cbn in E. inversion E; subst T.
      destruct (i_h _ _ HI H v Hw) as [Hx|(_ & Hx & _)]; [apply Hc; eapply in_fst; eauto|contradiction].
    + intros H0 E. inversion E; subst. lia.
  - unfold do_D3a. shape; rewrite updf_same; repeat split; try congruence; try discriminate.
    + intros T v E Hw. now left.
    + intros ev E; exfalso; exact (app_one_neq _ _ E).
  - unfold do_D3b. shape; rewrite updf_same; repeat split; try congruence; try discriminate.
    + intros T v E Hw. right. cbn in E. inversion E; subst T. eauto.
    + intros ev E Eev. apply app_inv_head in E. inversion E; subst. discriminate.
  - (* D4 *) destruct Hti as (HH & Hp & Hc & Hce).
    unfold do_D4, slot, cyc_of. destruct (entry_eqb _ _) eqn:Eq; shape; rewrite updf_same; repeat split; try congruence; try discriminate;
      try (intros ev E; exfalso; exact (app_one_neq _ _ E)).
    + intros T v E Hw. exfalso. cbn in E. inversion E; subst T. apply entry_eqb_eq in Eq.
      destruct (i_h _ _ HI H v Hw) as [Hx|(_ & Hx & _)]; [apply Hc; eapply in_fst; eauto|]. rewrite Eq in Hx. lia.
    + intros H0 E. inversion E; subst. lia.
    + intros T v E Hw. now left.
  - unfold do_D5. destruct (tl st <=? H + 1) eqn:Et; shape; rewrite updf_same; repeat split; try congruence; try discriminate;
      try (intros ev E; exfalso; exact (app_one_neq _ _ E)).
    intros _. right. exists H. split; [reflexivity|now apply Z.leb_le].
  - unfold do_D7. destruct (thr st <=? 0) eqn:Et; shape; rewrite updf_same; repeat split; try congruence; try discriminate.
    + intros ev E Eev. right; left. exists H. split; [reflexivity|now apply Z.leb_le].
    + intros ev E; exfalso; exact (app_one_neq _ _ E).
  - unfold do_F1. destruct (_ <? _); shape; rewrite updf_same; repeat split; try congruence; try discriminate; auto;
      intros ev E; exfalso; exact (app_one_neq _ _ E).
  - unfold do_F2. destruct (_ || _); shape; rewrite updf_same; repeat split; try congruence; try discriminate; auto;
      intros ev E; exfalso; exact (app_one_neq _ _ E).
  - unfold do_F3. destruct (_ && _); shape; rewrite updf_same; repeat split; try congruence; try discriminate; auto;
      intros ev E; exfalso; exact (app_one_neq _ _ E).
  - unfold do_F4. shape; rewrite updf_same; repeat split; try congruence; try discriminate; auto.
Qed.

End Frame.

(* ------------------------------------------------------------------ justified empty answers *)
(* at instant s the value of ticket T is spoken for: a Dequeue invoked by s has returned it or holds its ticket *)
Definition served (st : state) (s T : Z) : Prop :=
  (exists k c e x, In (k, c, e, EvDeq (Some (T, x))) (trace st) /\ c <= s) \/
  (exists k, dticket (th st k) = Some T /\ since st k <= s).
(* every Enqueue that returned by s is served at s *)
Definition just (st : state) (s : Z) : Prop :=
  forall i a b v T, In (i, a, b, EvEnq v (Some T)) (trace st) -> b <= s -> served st s T.

Record Jus (st : state) : Prop := {
  j_tr : forall i a b, In (i, a, b, EvDeq None) (trace st) -> exists s, a <= s < b /\ just st s;
  j_f : forall i, isF (th st i) = true -> exists s, since st i <= s < clk st /\ just st s;
  j_act : forall i, th st i <> Idle -> since st i < clk st;
  j_d5 : forall i H, th st i = D5 H -> H < hd st
}.

Section Jus.
Variable n : Z.
Hypothesis Hn : 1 <= n.
Variable K : nat.
Hypothesis HK : Z.of_nat K <= n + 1.

Lemma just_mono st st' s :
  Inv n st -> s < clk st ->
  (forall x, In x (trace st) -> In x (trace st')) ->
  (forall j a b ev, In (j, a, b, ev) (trace st') -> In (j, a, b, ev) (trace st) \/ b = clk st) ->
  (forall k T v, dticket (th st k) = Some T -> In (T, v) (wlog st) -> since st k <= s ->
     (dticket (th st' k) = Some T /\ since st' k <= s) \/
     (exists e x, In (k, since st k, e, EvDeq (Some (T, x))) (trace st'))) ->
  just st s -> just st' s.
Proof.
  intros HI Hs Hsub Hnew Hhold HJ i a b v T Hin Hb.
  destruct (Hnew _ _ _ _ Hin) as [Hold|E]; [|lia].
  destruct (HJ i a b v T Hold Hb) as [(k & c & e & x & Hk & Hc)|(k & Hk & Hsk)].
  - left. exists k, c, e, x. auto.
  - destruct (Hhold k T v Hk (i_tr_e _ _ HI _ _ _ _ _ Hold) Hsk) as [[H1 H2]|(e & x & Hx)].
    + right. exists k. auto.
    + left. exists k, (since st k), e, x. auto.
Qed.

(* at the instant before the current step everything whose ticket lies below head is served *)
Lemma just_now st :
  Inv n st -> Src st -> Ord st -> (forall i, th st i <> Idle -> since st i < clk st) ->
  (forall i a b v T, In (i, a, b, EvEnq v (Some T)) (trace st) -> ~ In T (map fst (clog st)) -> T < hd st) ->
  just st (clk st - 1).
Proof.
  intros HI HS HO Hact HC i a b v T Hin Hb.
  pose proof (i_tr_e _ _ HI _ _ _ _ _ Hin) as Hw.
  destruct (in_dec Z.eq_dec T (map fst (clog st))) as [Hc|Hnc].
  - apply in_map_iff in Hc as ([T' v'] & E & Hc). cbn in E. subst T'.
    destruct (s_c _ HS T v' Hc) as [(k & c & e & Hk)|(k & Hk)].
    + left. exists k, c, e, v'. split; [exact Hk|]. pose proof (o_tr _ HO _ _ _ _ Hk). lia.
    + right. exists k. split; [destruct Hk as [Hk|Hk]; rewrite Hk; reflexivity|].
      assert (th st k <> Idle) by (destruct Hk as [Hk|Hk]; rewrite Hk; discriminate).
      pose proof (Hact k H). lia.
  - pose proof (HC _ _ _ _ _ Hin Hnc) as Hlt. pose proof (i_w_rng _ _ HI _ _ Hw) as Hr.
    destruct (i_h _ _ HI T v Hw) as [Hx|(_ & _ & _ & Hnp)]; [exfalso; apply Hnc; eapply in_fst; eauto|].
    destruct (i_5 _ _ HI T ltac:(lia)) as [Hx|[Hx|(k & Hk)]]; [contradiction|contradiction|].
    right. exists k. split; [now apply pending_dticket|].
    assert (th st k <> Idle) by (intros E; rewrite E in Hk; discriminate Hk).
    pose proof (Hact k H). lia.
Qed.

Lemma cnt_pos (p : nat -> bool) i : (i < K)%nat -> p i = true -> (1 <= cnt K p)%nat.
Proof.
  intros Hi Hp. unfold cnt.
  assert (Hin : In i (filter p (seq 0 K))) by (apply filter_In; split; [apply in_seq; lia|exact Hp]).
  destruct (filter p (seq 0 K)); [destruct Hin|cbn; lia].
Qed.

Lemma jus_tstep st i :
  Inv n st -> Src st -> Ord st -> Thr n K st -> Jus st -> (i < K)%nat -> Jus (tick (tstep n st i)).
Proof.
  intros HI HS HO HT HJ Hi.
  destruct (tstep_frame n st i) as (Hclk & Hsin & Hoth & Htr & Hhd).
  destruct (tstep_self n st i HI) as (S0 & S1 & S2 & S3 & S5).
  set (st' := tick (tstep n st i)) in *.
  assert (Hsub : forall x, In x (trace st) -> In x (trace st')).
  { intros x Hx. destruct Htr as [E|(ev & E)]; rewrite E; [exact Hx|apply in_or_app; now left]. }
  assert (Hnew : forall j a b ev, In (j, a, b, ev) (trace st') -> In (j, a, b, ev) (trace st) \/ b = clk st).
  { intros j a b ev Hx. destruct Htr as [E|(ev0 & E)]; rewrite E in Hx; [now left|].
    apply in_app_or in Hx as [Hx|[Ex|[]]]; [now left|right]. now inversion Ex. }
  assert (Hkeep : forall s, s < clk st -> just st s -> just st' s).
  { intros s Hs. apply (just_mono st st' s HI Hs Hsub Hnew).
    intros k T v Hk Hw Hsk. destruct (Nat.eq_dec k i) as [->|Hki].
    - destruct (S1 T v Hk Hw) as [H1|(x & H1)].
      + left. rewrite Hsin. auto.
      + right. exists (clk st), x. rewrite H1. apply in_or_app. right. now left.
    - left. rewrite (Hoth k Hki), Hsin. auto. }
  assert (Hact : forall k, th st k <> Idle -> since st k < clk st) by apply (j_act _ HJ).
  constructor.
  - (* trace *)
    intros j a b Hin. destruct (Hnew _ _ _ _ Hin) as [Hold|Eb].
    + destruct (j_tr _ HJ j a b Hold) as (s & Hs & Hjs). exists s. split; [exact Hs|].
      apply Hkeep; [|exact Hjs]. pose proof (o_tr _ HO _ _ _ _ Hold). lia.
    + destruct Htr as [E|(ev & E)]; rewrite E in Hin.
      { pose proof (o_tr _ HO _ _ _ _ Hin). lia. }
      apply in_app_or in Hin as [Hin|[Ex|[]]]; [pose proof (o_tr _ HO _ _ _ _ Hin); lia|].
      inversion Ex; subst j a b ev.
      destruct (S3 (EvDeq None) E eq_refl) as [[Ht Hthr]|[(H & Ht & Hthr)|Ht]].
      * (* D0, threshold < 0 *)
        exists (clk st - 1). assert (th st i <> Idle) by (rewrite Ht; discriminate). pose proof (Hact i H).
        split; [lia|]. apply Hkeep; [lia|]. apply (just_now st HI HS HO Hact).
        intros i1 a1 b1 v1 T1 Hin1 Hnc. destruct (Z_lt_le_dec T1 (hd st)) as [|Hge]; [assumption|].
        pose proof (t_bud _ _ _ HT _ _ _ _ _ Hin1 Hnc Hge). lia.
      * (* D7, threshold <= 0 *)
        exists (clk st - 1). assert (th st i <> Idle) by (rewrite Ht; discriminate). pose proof (Hact i H0).
        split; [lia|]. apply Hkeep; [lia|]. apply (just_now st HI HS HO Hact).
        intros i1 a1 b1 v1 T1 Hin1 Hnc. destruct (Z_lt_le_dec T1 (hd st)) as [|Hge]; [assumption|].
        pose proof (t_bud _ _ _ HT _ _ _ _ _ Hin1 Hnc Hge) as Hb.
        assert ((1 <= Sx K st)%nat) by (apply (cnt_pos _ i Hi); rewrite Ht; reflexivity). lia.
      * (* F4 *)
        destruct (j_f _ HJ i ltac:(rewrite Ht; reflexivity)) as (s & Hs & Hjs).
        exists s. split; [lia|]. apply Hkeep; [lia|exact Hjs].
  - (* threads inside fixstate *)
    intros k Hk. destruct (Nat.eq_dec k i) as [->|Hki].
    + destruct (S2 Hk) as [Hf|(H & Ht & Htl)].
      * destruct (j_f _ HJ i Hf) as (s & Hs & Hjs). exists s. rewrite Hsin, Hclk. split; [lia|]. apply Hkeep; [lia|exact Hjs].
      * exists (clk st - 1). assert (th st i <> Idle) by (rewrite Ht; discriminate). pose proof (Hact i H0).
        rewrite Hsin, Hclk. split; [lia|]. apply Hkeep; [lia|]. apply (just_now st HI HS HO Hact).
        intros i1 a1 b1 v1 T1 Hin1 Hnc. pose proof (i_w_rng _ _ HI _ _ (i_tr_e _ _ HI _ _ _ _ _ Hin1)).
        pose proof (j_d5 _ HJ i H Ht). lia.
    + rewrite (Hoth k Hki) in Hk. destruct (j_f _ HJ k Hk) as (s & Hs & Hjs). exists s. rewrite Hsin, Hclk.
      split; [lia|]. apply Hkeep; [lia|exact Hjs].
  - intros k Hk. rewrite Hsin, Hclk. destruct (Nat.eq_dec k i) as [->|Hki].
    + pose proof (Hact i (S0 Hk)). lia.
    + rewrite (Hoth k Hki) in Hk. pose proof (Hact k Hk). lia.
  - intros k H Hk. destruct (Nat.eq_dec k i) as [->|Hki]; [exact (S5 H Hk)|].
    rewrite (Hoth k Hki) in Hk. pose proof (j_d5 _ HJ k H Hk). lia.
Qed.

(* steps that leave threads, stamps and trace alone *)
Lemma jus_same st st' :
  Inv n st -> th st' = th st -> since st' = since st -> trace st' = trace st -> hd st' = hd st -> clk st' = clk st + 1 ->
  Jus st -> Jus st'.
Proof.
  intros HI E1 E2 E3 E4 E5 HJ.
  assert (Hkeep : forall s, just st s -> just st' s).
  { intros s HJs i a b v T Hin Hb. rewrite E3 in Hin. destruct (HJs i a b v T Hin Hb) as [H|(k & Hk & Hs)].
    - left. now rewrite E3.
    - right. exists k. now rewrite E1, E2. }
  constructor.
  - intros i a b Hin. rewrite E3 in Hin. destruct (j_tr _ HJ i a b Hin) as (s & Hs & Hjs). exists s. auto.
  - intros i Hf. rewrite E1 in Hf. destruct (j_f _ HJ i Hf) as (s & Hs & Hjs). exists s. rewrite E2, E5. split; [lia|auto].
  - intros i Hi. rewrite E1 in Hi. pose proof (j_act _ HJ i Hi). rewrite E2, E5. lia.
  - intros i H Hi. rewrite E1 in Hi. rewrite E4. exact (j_d5 _ HJ i H Hi).
Qed.

(* an idle thread invokes a call *)
Lemma jus_invoke st i s0 :
  Inv n st -> Jus st -> th st i = Idle -> isF s0 = false -> dticket s0 = None -> (forall H, s0 <> D5 H) ->
  Jus (tick (invoke st i s0)).
Proof.
  intros HI HJ Ht Hf Hd H5. unfold tick, invoke.
  assert (Hkeep : forall s, just st s ->
            just (mkS (ring st) (hd st) (tl st) (closed st) (thr st) (updf (th st) i s0) (wlog st) (clog st) (plog st)
                      (clk st + 1) (updf (since st) i (clk st)) (trace st)) s).
  { intros s HJs j a b v T Hin Hb. cbn [trace] in Hin. destruct (HJs j a b v T Hin Hb) as [H|(k & Hk & Hs)].
    - now left.
    - right. exists k. cbn [th since]. destruct (Nat.eq_dec k i) as [->|Hki]; [rewrite Ht in Hk; discriminate Hk|].
      now rewrite !updf_other. }
  constructor; cbn [ring hd tl closed thr th wlog clog plog clk since trace].
  - intros j a b Hin. destruct (j_tr _ HJ j a b Hin) as (s & Hs & Hjs). exists s. auto.
  - intros k. unfold updf. destruct (Nat.eqb_spec k i); [rewrite Hf; discriminate|].
    intros Hk. destruct (j_f _ HJ k Hk) as (s & Hs & Hjs). exists s. split; [lia|auto].
  - intros k. unfold updf. destruct (Nat.eqb_spec k i); [intros _; lia|].
    intros Hk. pose proof (j_act _ HJ k Hk). lia.
  - intros k H. unfold updf. destruct (Nat.eqb_spec k i); [intros E; exfalso; exact (H5 H E)|apply (j_d5 _ HJ k H)].
Qed.

Lemma jus_step st l :
  Inv n st -> Src st -> Ord st -> Thr n K st -> Jus st -> lab_ok K l -> Jus (step n st l).
Proof.
  intros HI HS HO HT HJ Hl. unfold step. destruct l as [i v|i|i| |]; cbn [step0 lab_ok] in *.
  - destruct (th st i) eqn:Ht; try (apply (jus_same st); auto; reflexivity).
    apply jus_invoke; auto; discriminate.
  - destruct (th st i) eqn:Ht; try (apply (jus_same st); auto; reflexivity).
    apply jus_invoke; auto; discriminate.
  - now apply jus_tstep.
  - contradiction.
  - apply (jus_same st); auto; reflexivity.
Qed.

Lemma jus_init : Jus (init n).
Proof.
  constructor; cbn.
  - intros i a b [].
  - intros i E. discriminate E.
  - intros i E. congruence.
  - intros i H E. discriminate E.
Qed.

(* all five invariants along an admissible run *)
Lemma all_reach sched : forall st,
  Inv n st -> Src st -> Ord st -> Thr n K st -> Jus st -> good n K st sched ->
  let st' := run n st sched in Inv n st' /\ Src st' /\ Ord st' /\ Thr n K st' /\ Jus st'.
Proof.
  induction sched as [|l sched IH]; intros st HI HS HO HT HJ Hg; [cbn; auto|].
  cbn [run fold_left]. destruct Hg as (Hl & Hnf & Hg).
  apply IH; auto.
  - now apply inv_step.
  - now apply src_step.
  - now apply ord_step.
  - now apply thr_step.
  - now apply jus_step.
Qed.

(* ------------------------------------------------------------------ the fourth condition under the thread bound *)
Theorem scq_empty_justified_bounded sched :
  good n K (init n) sched ->
  let st := run n (init n) sched in
  quiescent st -> EmptyJustified (hist_of (trace st)).
Proof.
  intros Hg st Hq.
  destruct (all_reach sched (init n) (inv_init n) (src_init n) (ord_init n) (thr_init n Hn K) jus_init Hg)
    as (HI & HS & HO & HT & HJ). fold st in HI, HS, HO, HT, HJ.
  intros o Ho Eo.
  unfold hist_of in Ho. apply in_flat_map in Ho as ([[[i a] b] ev] & Hin & Hev).
  destruct ev as [v [T|]|[[H v]|]]; cbn in Hev; try tauto; destruct Hev as [<-|[]]; cbn in Eo; try discriminate.
  destruct (j_tr _ HJ i a b Hin) as (s & Hs & Hjs).
  exists s. cbn [inv resp]. split; [exact Hs|].
  intros (e & T & He & Ee & Hr & Hlater).
  destruct (hist_enq _ _ _ He Ee) as (ie & ve & Ie).
  destruct (Hjs _ _ _ _ _ Ie Hr) as [(k & c & e' & x & Hk & Hc)|(k & Hk & _)].
  - pose proof (deq_hist _ _ _ _ _ _ Hk) as Hd.
    specialize (Hlater _ Hd eq_refl). cbn [inv] in Hlater. lia.
  - rewrite Hq in Hk. discriminate Hk.
Qed.

Theorem scq_linearizable_bounded sched :
  good n K (init n) sched ->
  let st := run n (init n) sched in
  quiescent st -> fifo_linearizable (hist_of (trace st)).
Proof.
  intros Hg st Hq. apply (scq_linearizable_if_empty_justified n Hn sched Hq).
  now apply scq_empty_justified_bounded.
Qed.

End Jus.

(* ------------------------------------------------------------------ the hypothesis in observable form *)
Section Observable.
Variable n : Z.
Variable K : nat.

Lemma step_trace_prefix st l : exists suf, trace (step n st l) = trace st ++ suf.
Proof.
  unfold step. destruct l as [i v|i|i| |]; cbn [step0].
  - destruct (th st i); exists []; now rewrite app_nil_r.
  - destruct (th st i); exists []; now rewrite app_nil_r.
  - destruct (tstep_frame n st i) as (_ & _ & _ & [E|(ev & E)] & _); [exists []; now rewrite app_nil_r|eauto].
  - exists []. now rewrite app_nil_r.
  - exists []. now rewrite app_nil_r.
Qed.

Lemma run_trace_prefix sched : forall st, exists suf, trace (run n st sched) = trace st ++ suf.
Proof.
  induction sched as [|l sched IH]; intros st; [exists []; now rewrite app_nil_r|].
  cbn [run fold_left]. destruct (IH (step n st l)) as (s2 & E2). destruct (step_trace_prefix st l) as (s1 & E1).
  exists (s1 ++ s2). fold (run n (step n st l) sched). rewrite E2, E1, app_assoc. reflexivity.
Qed.

(* a run of threads below K without LClose in which no Enqueue returned false is admissible *)
Lemma good_of_trace sched : forall st,
  Forall (lab_ok K) sched ->
  (forall i a b v, ~ In (i, a, b, EvEnq v None) (trace (run n st sched))) ->
  good n K st sched.
Proof.
  induction sched as [|l sched IH]; intros st Hl Hno; [exact I|].
  inversion Hl as [|? ? Hl1 Hl2]; subst. cbn [good]. split; [exact Hl1|]. split.
  - destruct l as [i v|i|i| |]; cbn [nofail]; auto.
    destruct (th st i) eqn:Ht; auto. destruct (hd st + n <=? T + 1) eqn:Ef; auto. exfalso.
    cbn [run fold_left] in Hno. destruct (run_trace_prefix sched (step n st (LStep i))) as (suf & E).
    fold (run n (step n st (LStep i)) sched) in Hno. apply (Hno i (since st i) (clk st) d). rewrite E.
    apply in_or_app. left. unfold step, step0, tstep. rewrite Ht. unfold do_E5. rewrite Ef. cbn.
    apply in_or_app. right. now left.
  - apply IH; [exact Hl2|]. intros i a b v. exact (Hno i a b v).
Qed.
End Observable.

Print Assumptions scq_empty_justified_bounded.
Print Assumptions scq_linearizable_bounded.
