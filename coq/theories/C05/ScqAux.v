(* C05 - ghost helper shared by the ring-level threshold invariant and the LSCQ model. DEFINITIONS ONLY. *)
From Coq Require Import ZArith.
From VF Require Import C05.Scq.
Open Scope Z_scope.

(* the tail ticket a ring step of thread i gives up by failing, if it does *)
Definition fail_ticket (n : Z) (st : state) (i : nat) : option Z :=
  match th st i with
  | E1 _ => if closed st then Some (tl st) else None
  | E5 _ T => if hd st + n <=? T + 1 then Some T else None
  | _ => None
  end.
Definition bz_after (n : Z) (bz : nat -> option Z) (st : state) (i : nat) : nat -> option Z :=
  match fail_ticket n st i with Some x => updf bz i (Some x) | None => bz end.
