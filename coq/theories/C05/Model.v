(* C05 model: structure/queues/lscq (point.go / uint.go are the same text up to the payload type;
   lscq.go boxes the generic value and delegates to the pointer queue; util.go has the flag words
   and cacheRemap16Byte).  Executed by ONE thread: every CAS succeeds, so the code's `goto eqretry`
   / `goto dqretry` / fixstate-CAS retries are not taken; every `for` loop of the code is one
   [_body] function plus a fuel-bounded driver.  NO proofs in this file.

   n  = scqsize (entries per ring; the code's constant is 65536)
   cl = lscqcacheLineSize / 2 (16-byte entries per cache line; 32 on amd64)
   The ring is a PositiveMap with a default entry, so that n = 65536 is executable. *)
From VF Require Import Common.Base.
From Coq Require Import FMapPositive.
Local Open Scope Z_scope.

(* util.go: cacheRemap16Byte.  The code computes rawIndex with `index & (scqsize-1)`; for a power of
   two that is [mod] (Proofs_Remap.remap_land). *)
Definition remap (n cl : Z) (index : Z) : Z :=
  let raw := index mod n in
  let lines := n / cl in
  (raw mod lines) * cl + raw / lines.

Definition remap_land (n cl : Z) (index : Z) : Z :=
  let raw := Z.land index (n - 1) in
  let lines := n / cl in
  (raw mod lines) * cl + raw / lines.

Section SCQ.
Variable D : Type.
Variable dnil : D.                  (* nil pointer / 0: what an emptied slot holds *)
Variable n cl : Z.

(* scqNodePointer / scqNodeUint64: flags = isSafe(1) | isEmpty(1) | cycle(62), data *)
Record entry := { safe : bool; emp : bool; cyc : Z; dat : D }.
Definition entry0 : entry := {| safe := true; emp := true; cyc := 0; dat := dnil |}.   (* 1<<63 + 1<<62 *)

(* tail word = closed bit (bit 63) + 63-bit ticket counter *)
Record scq := { ring : PositiveMap.t entry; hd : Z; tl : Z; closed : bool; thr : Z }.

Definition key (i : Z) : positive := Z.to_pos (i + 1).
Definition rget (r : PositiveMap.t entry) (i : Z) : entry :=
  match PositiveMap.find (key i) r with Some e => e | None => entry0 end.
Definition rset (r : PositiveMap.t entry) (i : Z) (e : entry) : PositiveMap.t entry :=
  PositiveMap.add (key i) e r.

(* newPointerSCQ *)
Definition scq_init : scq :=
  {| ring := PositiveMap.empty entry; hd := n; tl := n; closed := false; thr := -1 |}.

Definition thr_full : Z := 2 * n - 1.       (* int64(scqsize)*2 - 1 *)

(* ---- pointerSCQ.Enqueue: one iteration of the for loop; None = go round again ---- *)
Definition enq_body (q : scq) (d : D) : scq * option bool :=
  let T := tl q in
  let q1 := {| ring := ring q; hd := hd q; tl := T + 1; closed := closed q; thr := thr q |} in   (* AddUint64(&tail,1) *)
  if closed q then (q1, Some false)
  else
    let j := remap n cl T in
    let e := rget (ring q) j in
    let cT := T / n in
    if (cyc e <? cT) && emp e && (safe e || (hd q <=? T)) then
      ({| ring := rset (ring q) j {| safe := true; emp := false; cyc := cT; dat := d |};
          hd := hd q; tl := T + 1; closed := false;
          thr := if thr q =? thr_full then thr q else thr_full |}, Some true)
    else if hd q + n <=? T + 1 then (q1, Some false)
    else (q1, None).

Fixpoint enq_loop (fuel : nat) (q : scq) (d : D) : scq * option bool :=   (* outer None = fuel exhausted *)
  match fuel with
  | O => (q, None)
  | S f => match enq_body q d with
           | (q', None) => enq_loop f q' d
           | r => r
           end
  end.

(* ---- fixstate(originalHead): its loop only repeats when the CAS loses a race ---- *)
Definition fixstate (q : scq) (oh : Z) : scq :=
  if oh <? hd q then q
  else if closed q || (hd q <=? tl q) then q          (* tailvalue >= head, closed bit included *)
  else {| ring := ring q; hd := hd q; tl := hd q; closed := closed q; thr := thr q |}.

Inductive dres := Got (d : D) | Empty | Again.

(* ---- pointerSCQ.Dequeue: one iteration of the for loop (after the threshold test) ---- *)
Definition deq_body (q : scq) : scq * dres :=
  let H := hd q in
  let j := remap n cl H in
  let e := rget (ring q) j in
  let cH := H / n in
  if cyc e =? cH then
    (* resetNode: data := nil, isEmpty := 1 *)
    ({| ring := rset (ring q) j {| safe := safe e; emp := true; cyc := cyc e; dat := dnil |};
        hd := H + 1; tl := tl q; closed := closed q; thr := thr q |}, Got (dat e))
  else
    let r2 := if cyc e <? cH then
                rset (ring q) j
                     (if emp e then {| safe := safe e; emp := true; cyc := cH; dat := dnil |}
                      else {| safe := false; emp := false; cyc := cyc e; dat := dat e |})
              else ring q in
    let q2 := {| ring := r2; hd := H + 1; tl := tl q; closed := closed q; thr := thr q |} in
    if tl q <=? H + 1 then
      let q3 := fixstate q2 (H + 1) in
      ({| ring := ring q3; hd := hd q3; tl := tl q3; closed := closed q3; thr := thr q3 - 1 |}, Empty)
    else
      let q3 := {| ring := r2; hd := H + 1; tl := tl q; closed := closed q; thr := thr q - 1 |} in
      if thr q <=? 0 then (q3, Empty) else (q3, Again).

Fixpoint deq_loop (fuel : nat) (q : scq) : scq * dres :=     (* outer Again = fuel exhausted *)
  match fuel with
  | O => (q, Again)
  | S f => match deq_body q with
           | (q', Again) => deq_loop f q'
           | r => r
           end
  end.

Definition scq_dequeue (fuel : nat) (q : scq) : scq * dres :=
  if thr q <? 0 then (q, Empty) else deq_loop fuel q.

(* ---- the linked list of rings.  [rings] starts at q.head and follows .next; rings dropped by the
   head advance leave the list (the code leaves them to the garbage collector; pointerSCQPool.Put is
   reached only when the link CAS fails, i.e. never by one thread, so every allocation is a fresh ring).
   [ti] = position of the ring q.tail points to. ---- *)
Record lscq := { rings : list scq; ti : nat }.

Definition lscq_init : lscq := {| rings := [scq_init]; ti := 0 |}.

Inductive op := Enq (d : D) | Deq.
Inductive out := OEnq (ok : bool) | ODeq (r : option D) | OFuel.

Definition set_closed (q : scq) : scq :=      (* atomicTestAndSetFirstBit(&cq.tail) *)
  {| ring := ring q; hd := hd q; tl := tl q; closed := true; thr := thr q |}.
Definition set_thr (q : scq) (t : Z) : scq :=
  {| ring := ring q; hd := hd q; tl := tl q; closed := closed q; thr := t |}.

(* PointerQueue.Enqueue: one iteration; None = continue *)
Definition lenq_body (fuel : nat) (L : lscq) (d : D) : lscq * option out :=
  let cq := nth (ti L) (rings L) scq_init in
  if (S (ti L) <? length (rings L))%nat then
    (* cq.next != nil: help move the tail *)
    ({| rings := rings L; ti := S (ti L) |}, None)
  else
    match enq_loop fuel cq d with
    | (cq', Some true) => ({| rings := upd (rings L) (ti L) cq'; ti := ti L |}, Some (OEnq true))
    | (cq', Some false) =>
        (* full: close cq, (under cq.mu, cq.next still nil) take a ring, enqueue into it, link it, move tail *)
        let ncq := fst (enq_loop fuel scq_init d) in
        ({| rings := upd (rings L) (ti L) (set_closed cq') ++ [ncq]; ti := S (ti L) |}, Some (OEnq true))
    | (cq', None) => ({| rings := upd (rings L) (ti L) cq'; ti := ti L |}, Some OFuel)
    end.

Fixpoint lenq_loop (fuel k : nat) (L : lscq) (d : D) : lscq * out :=
  match k with
  | O => (L, OFuel)
  | S k' => match lenq_body fuel L d with
            | (L', None) => lenq_loop fuel k' L' d
            | (L', Some o) => (L', o)
            end
  end.

(* PointerQueue.Dequeue: one iteration; None = head moved to the next ring, go round again *)
Definition ldeq_body (fuel : nat) (L : lscq) : lscq * option out :=
  match rings L with
  | [] => (L, Some OFuel)
  | cq :: rest =>
      match scq_dequeue fuel cq with
      | (cq1, Got d) => ({| rings := cq1 :: rest; ti := ti L |}, Some (ODeq (Some d)))
      | (cq1, Again) => ({| rings := cq1 :: rest; ti := ti L |}, Some OFuel)
      | (cq1, Empty) =>
          match rest with
          | [] => ({| rings := [cq1]; ti := ti L |}, Some (ODeq None))
          | _ :: _ =>
              let cq2 := set_thr cq1 thr_full in
              match scq_dequeue fuel cq2 with
              | (cq3, Got d) => ({| rings := cq3 :: rest; ti := ti L |}, Some (ODeq (Some d)))
              | (cq3, Again) => ({| rings := cq3 :: rest; ti := ti L |}, Some OFuel)
              | (cq3, Empty) => ({| rings := rest; ti := pred (ti L) |}, None)
              end
          end
      end
  end.

Fixpoint ldeq_loop (fuel k : nat) (L : lscq) : lscq * out :=
  match k with
  | O => (L, OFuel)
  | S k' => match ldeq_body fuel L with
            | (L', None) => ldeq_loop fuel k' L'
            | (L', Some o) => (L', o)
            end
  end.

Definition lscq_step (fuel : nat) (L : lscq) (o : op) : lscq * out :=
  match o with
  | Enq d => lenq_loop fuel fuel L d
  | Deq => ldeq_loop fuel fuel L
  end.

End SCQ.

Arguments Enq {D} d.
Arguments Deq {D}.
Arguments OEnq {D} ok.
Arguments ODeq {D} r.
Arguments OFuel {D}.
Arguments Got {D} d.
Arguments Empty {D}.
Arguments Again {D}.

(* the constants of util.go on amd64 (compared with the package's own values on every run) *)
Definition scqsize : Z := 65536.
Definition cacheline16 : Z := 32.

Arguments safe {D} e.
Arguments emp {D} e.
Arguments cyc {D} e.
Arguments dat {D} e.
Arguments ring {D} s.
Arguments hd {D} s.
Arguments tl {D} s.
Arguments closed {D} s.
Arguments thr {D} s.
Arguments rings {D} l.
Arguments ti {D} l.
