(* C05 - the small-step SCQ ring: tickets respect the real-time order of calls (third invariant [Ord], on the
   step counter, the invocation stamps and the trace), for every schedule. *)
From Coq Require Import ZArith List Bool Lia Arith.
Import ListNotations.
From VF Require Import C05.Scq C05.ProofsScqInv.
Open Scope Z_scope.

(* the enqueue ticket a thread works with, from the fetch-add to the return *)
Definition etk (s : tstate) : option Z :=
  match s with E2 _ T | E3 _ T _ | E4 _ T _ | E6 _ T | E7 _ T => Some T | _ => None end.
(* past the CAS *)
Definition e67 (s : tstate) : option Z :=
  match s with E6 _ T | E7 _ T => Some T | _ => None end.

Fixpoint enq_tickets (tr : list (nat * Z * Z * event)) : list Z :=
  match tr with
  | [] => []
  | (_, _, _, EvEnq _ (Some T)) :: t => T :: enq_tickets t
  | _ :: t => enq_tickets t
  end.
Lemma enq_tickets_app a b : enq_tickets (a ++ b) = enq_tickets a ++ enq_tickets b.
Proof.
  induction a as [|[[[i x] y] ev] a IH]; [reflexivity|]. cbn [app enq_tickets].
  destruct ev as [v [T|]|r]; cbn; now rewrite IH.
Qed.
Lemma enq_tickets_in tr T : In T (enq_tickets tr) <-> exists i a b v, In (i, a, b, EvEnq v (Some T)) tr.
Proof.
  induction tr as [|[[[i x] y] ev] tr IH]; cbn.
  - split; [tauto|intros (? & ? & ? & ? & [])].
  - destruct ev as [v [T'|]|r]; cbn; rewrite ?IH; split.
    + intros [<-|(i0 & a & b & v0 & H)]; [exists i, x, y, v; now left|exists i0, a, b, v0; now right].
    + intros (i0 & a & b & v0 & [E|H]); [inversion E; now left|right; eauto 6].
    + intros (i0 & a & b & v0 & H). exists i0, a, b, v0. now right.
    + intros (i0 & a & b & v0 & [E|H]); [discriminate E|eauto 6].
    + intros (i0 & a & b & v0 & H). exists i0, a, b, v0. now right.
    + intros (i0 & a & b & v0 & [E|H]); [discriminate E|eauto 6].
Qed.

Record Ord (st : state) : Prop := {
  o_since : forall k, 0 <= since st k <= clk st;
  o_tr : forall i a b ev, In (i, a, b, ev) (trace st) -> 0 <= a /\ a <= b < clk st;
  (* enqueue tickets follow the real-time order of Enqueue calls *)
  o_ee : forall i1 a1 b1 v1 T1 i2 a2 b2 v2 T2,
           In (i1, a1, b1, EvEnq v1 (Some T1)) (trace st) -> In (i2, a2, b2, EvEnq v2 (Some T2)) (trace st) ->
           b1 < a2 -> T1 < T2;
  o_et : forall i1 a1 b1 v1 T1 k T',
           In (i1, a1, b1, EvEnq v1 (Some T1)) (trace st) -> etk (th st k) = Some T' -> b1 < since st k -> T1 < T';
  (* dequeue tickets follow the real-time order of Dequeue calls *)
  o_dd : forall i1 a1 b1 v1 H1 i2 a2 b2 v2 H2,
           In (i1, a1, b1, EvDeq (Some (H1, v1))) (trace st) -> In (i2, a2, b2, EvDeq (Some (H2, v2))) (trace st) ->
           b1 < a2 -> H1 < H2;
  o_dt : forall i1 a1 b1 v1 H1 k H',
           In (i1, a1, b1, EvDeq (Some (H1, v1))) (trace st) -> dticket (th st k) = Some H' -> b1 < since st k -> H1 < H';
  (* a Dequeue that returned the value of ticket H did not return before the Enqueue with ticket H was invoked *)
  o_fr1 : forall i a b H v i' a' b' v',
           In (i, a, b, EvDeq (Some (H, v))) (trace st) -> In (i', a', b', EvEnq v' (Some H)) (trace st) -> a' <= b;
  o_fr2 : forall i a b H v k,
           In (i, a, b, EvDeq (Some (H, v))) (trace st) -> e67 (th st k) = Some H -> since st k <= b;
  (* one Enqueue call per written ticket *)
  o_u1 : NoDup (enq_tickets (trace st));
  o_u2 : forall k T, e67 (th st k) = Some T -> ~ In T (enq_tickets (trace st));
  o_u3 : forall k1 k2 T, k1 <> k2 -> e67 (th st k1) = Some T -> e67 (th st k2) = Some T -> False
}.

Lemma Ord_ext st st' :
  th st' = th st -> trace st' = trace st -> since st' = since st -> clk st' = clk st -> Ord st -> Ord st'.
Proof.
  intros E1 E2 E3 E4 HO. destruct st as [r h t c tr f w cl p k s tc], st' as [r' h' t' c' tr' f' w' cl' p' k' s' tc'].
  cbn in E1, E2, E3, E4. subst. destruct HO. constructor; assumption.
Qed.

Lemma ord_init n : Ord (init n).
Proof.
  constructor; cbn; try (intros; lia); try (intros; contradiction); try constructor; try discriminate.
Qed.

Section Ord.
Variable n : Z.
Hypothesis Hn : 1 <= n.

(* (A) thread i moves to s; trace and invocation stamps unchanged; one tick *)
Lemma ord_move st i s r h t c tr w cg p :
  Inv n st -> Ord st ->
  (forall T', etk s = Some T' -> etk (th st i) = Some T' \/
     forall i1 a1 b1 v1 T1, In (i1, a1, b1, EvEnq v1 (Some T1)) (trace st) -> T1 < T') ->
  (forall H', dticket s = Some H' -> dticket (th st i) = Some H' \/
     forall i1 a1 b1 v1 H1, In (i1, a1, b1, EvDeq (Some (H1, v1))) (trace st) -> H1 < H') ->
  (forall T, e67 s = Some T -> e67 (th st i) = Some T \/
     (~ In T (enq_tickets (trace st)) /\ (forall k, k <> i -> e67 (th st k) <> Some T) /\
      (forall i1 a1 b1 v1, ~ In (i1, a1, b1, EvDeq (Some (T, v1))) (trace st)))) ->
  Ord (mkS r h t c tr (updf (th st) i s) w cg p (clk st + 1) (since st) (trace st)).
Proof.
  intros HI HO He Hd H6. constructor; cbn [th trace since clk].
  - intros k. pose proof (o_since _ HO k). lia.
  - intros j a b ev Hin. pose proof (o_tr _ HO j a b ev Hin). lia.
  - apply (o_ee _ HO).
  - intros i1 a1 b1 v1 T1 k T' Hin. unfold updf. destruct (Nat.eqb_spec k i) as [->|Hk]; [|apply (o_et _ HO _ _ _ _ _ _ _ Hin)].
    intros Es Hb. destruct (He T' Es) as [He'|Hall].
    + exact (o_et _ HO _ _ _ _ _ _ _ Hin He' Hb).
    + eapply Hall; eauto.
  - apply (o_dd _ HO).
  - intros i1 a1 b1 v1 H1 k H' Hin. unfold updf. destruct (Nat.eqb_spec k i) as [->|Hk]; [|apply (o_dt _ HO _ _ _ _ _ _ _ Hin)].
    intros Es Hb. destruct (Hd H' Es) as [Hd'|Hall].
    + exact (o_dt _ HO _ _ _ _ _ _ _ Hin Hd' Hb).
    + eapply Hall; eauto.
  - apply (o_fr1 _ HO).
  - intros j a b H v k Hin. unfold updf. destruct (Nat.eqb_spec k i) as [->|Hk]; [|apply (o_fr2 _ HO _ _ _ _ _ _ Hin)].
    intros Es. destruct (H6 H Es) as [H6'|(_ & _ & Hnd)].
    + exact (o_fr2 _ HO _ _ _ _ _ _ Hin H6').
    + exfalso. eapply Hnd; eauto.
  - apply (o_u1 _ HO).
  - intros k T. unfold updf. destruct (Nat.eqb_spec k i) as [->|Hk]; [|apply (o_u2 _ HO)].
    intros Es. destruct (H6 T Es) as [H6'|(Hni & _)].
    + exact (o_u2 _ HO _ _ H6').
    + exact Hni.
  - intros k1 k2 T Hk. unfold updf.
    destruct (Nat.eqb_spec k1 i) as [->|H1], (Nat.eqb_spec k2 i) as [->|H2]; intros E1 E2.
    + contradiction.
    + destruct (H6 T E1) as [H6'|(_ & Hoth & _)].
      * exact (o_u3 _ HO i k2 T Hk H6' E2).
      * exact (Hoth k2 H2 E2).
    + destruct (H6 T E2) as [H6'|(_ & Hoth & _)].
      * exact (o_u3 _ HO k1 i T Hk E1 H6').
      * exact (Hoth k1 H1 E1).
    + exact (o_u3 _ HO k1 k2 T Hk E1 E2).
Qed.

(* (B) thread i returns with event ev; one tick *)
Lemma ord_ret st i ev r h t c tr w cg p :
  Inv n st -> Ord st ->
  match ev with
  | EvEnq v (Some T) => etk (th st i) = Some T /\ e67 (th st i) = Some T
  | EvDeq (Some (H, v)) => dticket (th st i) = Some H /\
                           (forall i' a' b' v', In (i', a', b', EvEnq v' (Some H)) (trace st) -> a' <= clk st) /\
                           (forall k, e67 (th st k) = Some H -> since st k <= clk st)
  | _ => True
  end ->
  Ord (mkS r h t c tr (updf (th st) i Idle) w cg p (clk st + 1) (since st) (trace st ++ [(i, since st i, clk st, ev)])).
Proof.
  intros HI HO Hev.
  assert (Hs : forall k, 0 <= since st k <= clk st) by apply (o_since _ HO).
  assert (Htr : forall j a b e, In (j, a, b, e) (trace st) -> 0 <= a /\ a <= b < clk st) by apply (o_tr _ HO).
  pose proof (Hs i) as Hsi.
  assert (Hetk : forall k T, etk (updf (th st) i Idle k) = Some T -> k <> i /\ etk (th st k) = Some T).
  { intros k T. unfold updf. destruct (Nat.eqb_spec k i); [discriminate|auto]. }
  assert (Hdtk : forall k T, dticket (updf (th st) i Idle k) = Some T -> k <> i /\ dticket (th st k) = Some T).
  { intros k T. unfold updf. destruct (Nat.eqb_spec k i); [discriminate|auto]. }
  assert (He67 : forall k T, e67 (updf (th st) i Idle k) = Some T -> k <> i /\ e67 (th st k) = Some T).
  { intros k T. unfold updf. destruct (Nat.eqb_spec k i); [discriminate|auto]. }
  constructor; cbn [th trace since clk].
  - intros k. specialize (Hs k). lia.
  - intros j a b e Hin. apply in_app_or in Hin as [Hin|[E|[]]].
    + specialize (Htr j a b e Hin). lia.
    + inversion E; subst. lia.
  - intros i1 a1 b1 v1 T1 i2 a2 b2 v2 T2 H1 H2 Hlt.
    apply in_app_or in H1 as [H1|[E1|[]]]; apply in_app_or in H2 as [H2|[E2|[]]].
    + exact (o_ee _ HO _ _ _ _ _ _ _ _ _ _ H1 H2 Hlt).
    + inversion E2; subst i2 a2 b2 ev. destruct Hev as [Hev _].
      exact (o_et _ HO _ _ _ _ _ _ _ H1 Hev Hlt).
    + inversion E1; subst i1 a1 b1 ev. specialize (Htr _ _ _ _ H2). lia.
    + inversion E1; subst. inversion E2; subst. lia.
  - intros i1 a1 b1 v1 T1 k T' H1 Es Hlt. apply Hetk in Es as [Hk Es].
    apply in_app_or in H1 as [H1|[E1|[]]].
    + exact (o_et _ HO _ _ _ _ _ _ _ H1 Es Hlt).
    + inversion E1; subst. specialize (Hs k). lia.
  - intros i1 a1 b1 v1 H1 i2 a2 b2 v2 H2 I1 I2 Hlt.
    apply in_app_or in I1 as [I1|[E1|[]]]; apply in_app_or in I2 as [I2|[E2|[]]].
    + exact (o_dd _ HO _ _ _ _ _ _ _ _ _ _ I1 I2 Hlt).
    + inversion E2; subst i2 a2 b2 ev. destruct Hev as [Hev _].
      exact (o_dt _ HO _ _ _ _ _ _ _ I1 Hev Hlt).
    + inversion E1; subst i1 a1 b1 ev. specialize (Htr _ _ _ _ I2). lia.
    + inversion E1; subst. inversion E2; subst. lia.
  - intros i1 a1 b1 v1 H1 k H' I1 Es Hlt. apply Hdtk in Es as [Hk Es].
    apply in_app_or in I1 as [I1|[E1|[]]].
    + exact (o_dt _ HO _ _ _ _ _ _ _ I1 Es Hlt).
    + inversion E1; subst. specialize (Hs k). lia.
  - intros j a b H v i' a' b' v' I1 I2.
    apply in_app_or in I1 as [I1|[E1|[]]]; apply in_app_or in I2 as [I2|[E2|[]]].
    + exact (o_fr1 _ HO _ _ _ _ _ _ _ _ _ I1 I2).
    + inversion E2; subst i' a' b' ev. destruct Hev as [_ Hev]. exact (o_fr2 _ HO _ _ _ _ _ _ I1 Hev).
    + inversion E1; subst j a b ev. destruct Hev as (_ & Hev & _). exact (Hev _ _ _ _ I2).
    + inversion E1; subst. discriminate E2.
  - intros j a b H v k I1 Es. apply He67 in Es as [Hk Es].
    apply in_app_or in I1 as [I1|[E1|[]]].
    + exact (o_fr2 _ HO _ _ _ _ _ _ I1 Es).
    + inversion E1; subst j a b ev. destruct Hev as (_ & _ & Hev). exact (Hev k Es).
  - rewrite enq_tickets_app. cbn [enq_tickets]. destruct ev as [v [T|]|rr]; rewrite ?app_nil_r; try apply (o_u1 _ HO).
    destruct Hev as [_ Hev]. apply nodup_snoc; [apply (o_u1 _ HO)|exact (o_u2 _ HO _ _ Hev)].
  - intros k T Es. apply He67 in Es as [Hk Es]. rewrite enq_tickets_app. intros Hin.
    apply in_app_or in Hin as [Hin|Hin]; [exact (o_u2 _ HO _ _ Es Hin)|].
    destruct ev as [v [T'|]|rr]; cbn in Hin; try tauto.
    destruct Hin as [<-|[]]. destruct Hev as [_ Hev]. exact (o_u3 _ HO k i T' Hk Es Hev).
  - intros k1 k2 T Hk E1 E2. apply He67 in E1 as [_ E1]. apply He67 in E2 as [_ E2]. exact (o_u3 _ HO k1 k2 T Hk E1 E2).
Qed.

(* (C) an idle thread invokes a call *)
Lemma ord_invoke st i s :
  Ord st -> th st i = Idle -> etk s = None -> dticket s = None -> e67 s = None -> Ord (tick (invoke st i s)).
Proof.
  intros HO Ht He Hd H6. unfold tick, invoke. constructor; cbn [th trace since clk].
  - intros k. pose proof (o_since _ HO i). unfold updf. destruct (Nat.eqb_spec k i); [lia|]. pose proof (o_since _ HO k). lia.
  - intros j a b ev Hin. pose proof (o_tr _ HO j a b ev Hin). lia.
  - apply (o_ee _ HO).
  - intros i1 a1 b1 v1 T1 k T' Hin. unfold updf at 1. destruct (Nat.eqb_spec k i) as [->|Hk]; [rewrite He; discriminate|].
    unfold updf. destruct (Nat.eqb_spec k i); [contradiction|]. apply (o_et _ HO _ _ _ _ _ _ _ Hin).
  - apply (o_dd _ HO).
  - intros i1 a1 b1 v1 H1 k H' Hin. unfold updf at 1. destruct (Nat.eqb_spec k i) as [->|Hk]; [rewrite Hd; discriminate|].
    unfold updf. destruct (Nat.eqb_spec k i); [contradiction|]. apply (o_dt _ HO _ _ _ _ _ _ _ Hin).
  - apply (o_fr1 _ HO).
  - intros j a b H v k Hin. unfold updf at 1. destruct (Nat.eqb_spec k i) as [->|Hk]; [rewrite H6; discriminate|].
    unfold updf. destruct (Nat.eqb_spec k i); [contradiction|]. apply (o_fr2 _ HO _ _ _ _ _ _ Hin).
  - apply (o_u1 _ HO).
  - intros k T. unfold updf. destruct (Nat.eqb_spec k i) as [->|Hk]; [rewrite H6; discriminate|apply (o_u2 _ HO)].
  - intros k1 k2 T Hk. unfold updf.
    destruct (Nat.eqb_spec k1 i), (Nat.eqb_spec k2 i); try (rewrite H6; discriminate); try (intros _; rewrite H6; discriminate).
    apply (o_u3 _ HO k1 k2 T Hk).
Qed.

(* (D) nothing but the tick *)
Lemma ord_tick st r h t c tr w cg p :
  Ord st -> Ord (mkS r h t c tr (th st) w cg p (clk st + 1) (since st) (trace st)).
Proof.
  intros HO. constructor; cbn [th trace since clk]; try apply HO.
  - intros k. pose proof (o_since _ HO k). lia.
  - intros j a b ev Hin. pose proof (o_tr _ HO j a b ev Hin). lia.
Qed.

(* ------------------------------------------------------------------ every step *)
Ltac shape := unfold tick, goto, ret, set_tl, set_hd, set_thr, set_ring, add_w, add_c, add_p;
  cbn [ring hd tl closed thr th wlog clog plog clk since trace].
Ltac keep HI HO Ht := apply (ord_move _ _ _ _ _ _ _ _ _ _ _ HI HO); rewrite Ht;
  [intros ? E; first [discriminate E|left; exact E]|intros ? E; first [discriminate E|left; exact E]|intros ? E; first [discriminate E|left; exact E]].
Ltac retn HI HO := apply (ord_ret _ _ _ _ _ _ _ _ _ _ _ HI HO); exact I.

Lemma ord_tstep st i : Inv n st -> Ord st -> Ord (tick (tstep n st i)).
Proof.
  intros HI HO. unfold tstep. destruct (th st i) eqn:Ht.
  - apply (Ord_ext {| ring := ring st; hd := hd st; tl := tl st; closed := closed st; thr := thr st; th := th st;
                      wlog := wlog st; clog := clog st; plog := plog st; clk := clk st + 1; since := since st; trace := trace st |});
      try reflexivity. now apply ord_tick.
  - (* E1 *)
    unfold do_E1. destruct (closed st); shape; [retn HI HO|].
    apply (ord_move _ _ _ _ _ _ _ _ _ _ _ HI HO); rewrite Ht; cbn [etk dticket e67 pending resetting]; try (intros ? E; discriminate E).
    intros T' E. inversion E; subst T'. right. intros i1 a1 b1 v1 T1 Hin.
    pose proof (i_w_rng _ _ HI _ _ (i_tr_e _ _ HI _ _ _ _ _ Hin)). lia.
  - unfold do_E2. destruct (_ && _); [destruct (safe _)|]; shape; keep HI HO Ht.
  - unfold do_E3. destruct (_ <=? _); shape; keep HI HO Ht.
  - (* E4 *)
    pose proof (i_t _ _ HI i) as Hti. rewrite Ht in Hti. cbn [tinv] in Hti. destruct Hti as (_ & Hw & _).
    unfold do_E4. destruct (entry_eqb _ _); shape; [|keep HI HO Ht].
    apply (ord_move _ _ _ _ _ _ _ _ _ _ _ HI HO); rewrite Ht; cbn [etk dticket e67 pending resetting]; try (intros ? E; first [discriminate E|left; exact E]).
    intros T0 E. inversion E; subst T0. right. split; [|split].
    + intros Hin. apply enq_tickets_in in Hin as (i1 & a1 & b1 & v1 & Hin). apply Hw. eapply in_fst. exact (i_tr_e _ _ HI _ _ _ _ _ Hin).
    + intros k Hk Ek. pose proof (i_t _ _ HI k) as Htk. destruct (th st k); try discriminate Ek; cbn in Ek; inversion Ek; subst;
        cbn [tinv] in Htk; apply Hw; eapply in_fst; exact Htk.
    + intros i1 a1 b1 v1 Hin. apply Hw. eapply in_fst. apply (i_c_w _ _ HI). exact (i_tr_d _ _ HI _ _ _ _ _ Hin).
  - unfold do_E5. destruct (_ <=? _); shape; [retn HI HO|keep HI HO Ht].
  - (* E6 *)
    unfold do_E6. destruct (_ =? _); shape; [|keep HI HO Ht].
    apply (ord_ret _ _ _ _ _ _ _ _ _ _ _ HI HO). rewrite Ht. split; reflexivity.
  - unfold do_E7. shape. apply (ord_ret _ _ _ _ _ _ _ _ _ _ _ HI HO). rewrite Ht. split; reflexivity.
  - unfold do_D0. destruct (_ <? _); shape; [retn HI HO|keep HI HO Ht].
  - (* D1 *)
    unfold do_D1. shape.
    apply (ord_move _ _ _ _ _ _ _ _ _ _ _ HI HO); rewrite Ht; cbn [etk dticket e67 pending resetting]; try (intros ? E; discriminate E).
    intros H' E. inversion E; subst H'. right. intros i1 a1 b1 v1 H1 Hin.
    exact (i_c_rng _ _ HI _ _ (i_tr_d _ _ HI _ _ _ _ _ Hin)).
  - unfold do_D2. destruct (_ =? _); [|destruct (_ <? _)]; shape; keep HI HO Ht.
  - unfold do_D3a. shape. keep HI HO Ht.
  - (* D3b *)
    unfold do_D3b. shape. apply (ord_ret _ _ _ _ _ _ _ _ _ _ _ HI HO). rewrite Ht. split; [reflexivity|]. split.
    + intros i' a' b' v' Hin. pose proof (o_tr _ HO _ _ _ _ Hin). lia.
    + intros k _. apply (o_since _ HO).
  - unfold do_D4. destruct (entry_eqb _ _); shape; keep HI HO Ht.
  - unfold do_D5. destruct (_ <=? _); shape; keep HI HO Ht.
  - unfold do_D7. destruct (_ <=? _); shape; [retn HI HO|keep HI HO Ht].
  - unfold do_F1. destruct (_ <? _); shape; keep HI HO Ht.
  - unfold do_F2. destruct (_ || _); shape; keep HI HO Ht.
  - unfold do_F3. destruct (_ && _); shape; keep HI HO Ht.
  - unfold do_F4. shape. retn HI HO.
Qed.

Lemma ord_step st l : Inv n st -> Ord st -> Ord (step n st l).
Proof.
  intros HI HO. unfold step. destruct l as [i v|i|i| |]; cbn [step0];
    [| | | |unfold tick, set_thr; cbn [ring hd tl closed thr th wlog clog plog clk since trace]; now apply ord_tick].
  - destruct (th st i) eqn:Ht; try (apply (Ord_ext (tick st)); try reflexivity; unfold tick; now apply ord_tick).
    now apply ord_invoke.
  - destruct (th st i) eqn:Ht; try (apply (Ord_ext (tick st)); try reflexivity; unfold tick; now apply ord_tick).
    now apply ord_invoke.
  - now apply ord_tstep.
  - unfold tick, set_closed. cbn [ring hd tl closed thr th wlog clog plog clk since trace]. now apply ord_tick.
Qed.

Theorem ord_reach sched : Ord (run n (init n) sched).
Proof.
  assert (H : forall st, Inv n st -> Ord st -> Ord (run n st sched)).
  { induction sched as [|l sched IH]; intros st HI HO; [exact HO|]. cbn [run fold_left]. apply IH; [now apply inv_step|now apply ord_step]. }
  apply H; [now apply inv_init|apply ord_init].
Qed.

End Ord.
