(* C05 property theorems about CONCURRENT executions of one SCQ ring (small-step model Scq.v: every atomic
   access of uint64SCQ.Enqueue / Dequeue / fixstate is one step of one thread; any number of threads; any
   schedule; sequentially consistent atomics).  Nothing but statements closed by [exact] and Print Assumptions. *)
From Coq Require Import ZArith List Bool Lia.
Import ListNotations.
From VF Require C05.Model.
From VF Require Import C05.Aspects C05.Lin.
From VF Require Import C05.Scq C05.ProofsScqInv C05.ProofsScqSafe C05.ProofsScqMutant C05.ProofsScqTie C05.ProofsScqOrd C05.ProofsScqFifo C05.ProofsScqThr C05.ProofsScqEmpty.
Open Scope Z_scope.

(* (a) the structural invariant [Inv] (ProofsScqInv.v) holds in every reachable state, for every ring size n >= 1,
   every number of threads and every schedule.  Spelled out below: tickets, cycles, slots. *)
Theorem C05_scq_invariant : forall n, 1 <= n -> forall sched, Inv n (run n (init n) sched).
Proof. exact inv_reach. Qed.

(* two threads never hold the same enqueue ticket (between the fetch-add on tail and the slot CAS) nor the same
   dequeue ticket (between the fetch-add on head and the end of the slot access); a held enqueue ticket has not
   been written with; tickets are below the counters *)
Theorem C05_scq_tickets : forall n, 1 <= n -> forall sched,
  let st := run n (init n) sched in
  (forall i k T, i <> k -> eticket (th st i) = Some T -> eticket (th st k) = Some T -> False) /\
  (forall i k H, i <> k -> dticket (th st i) = Some H -> dticket (th st k) = Some H -> False) /\
  (forall T v, In (T, v) (wlog st) -> n <= T < tl st) /\
  (forall H, In H (plog st) -> n <= H < hd st /\ ~ In H (map fst (clog st))) /\
  (forall H v, In (H, v) (clog st) -> H < hd st /\ In (H, v) (wlog st)).
Proof.
  intros n Hn sched st. pose proof (inv_reach n Hn sched) as HI. fold st in HI.
  split; [exact (i_ue _ _ HI)|]. split; [exact (i_ud _ _ HI)|]. split; [exact (i_w_rng _ _ HI)|]. split.
  - intros H Hin. split; [exact (i_p_rng _ _ HI H Hin)|exact (i_p_c _ _ HI H Hin)].
  - intros H v Hin. split; [exact (i_c_rng _ _ HI H v Hin)|exact (i_c_w _ _ HI _ Hin)].
Qed.

(* the cycle of a slot never decreases, whatever step is taken next *)
Theorem C05_scq_cycles_monotone : forall n, 1 <= n -> forall sched l j,
  let st := run n (init n) sched in cyc (ring st j) <= cyc (ring (step n st l) j).
Proof. intros n Hn sched l j st. apply cyc_mono. apply inv_reach. exact Hn. Qed.

(* a slot's content is consistent with the ticket that wrote it: a non-empty slot j of cycle c holds the value
   logged for ticket c*n+j, whose dequeuer has not gone past (unless that dequeuer is inside resetNode); a safe
   slot has been passed only by dequeue tickets of cycles <= its own; an empty slot of cycle c >= 1 was left
   by the dequeuer holding ticket c*n+j *)
Theorem C05_scq_slots : forall n, 1 <= n -> forall sched j,
  let st := run n (init n) sched in
  0 <= j < n ->
  0 <= cyc (ring st j) /\
  (emp (ring st j) = false ->
     ~ In (cyc (ring st j) * n + j) (plog st) /\
     ((In (cyc (ring st j) * n + j, dat (ring st j)) (wlog st) /\ ~ In (cyc (ring st j) * n + j) (map fst (clog st))) \/
      exists i, resetting (th st i) = Some (cyc (ring st j) * n + j))) /\
  (safe (ring st j) = true -> forall H, In H (plog st) -> H mod n = j -> H / n <= cyc (ring st j)) /\
  (emp (ring st j) = true -> 1 <= cyc (ring st j) ->
     In (cyc (ring st j) * n + j) (plog st) \/ In (cyc (ring st j) * n + j) (map fst (clog st))).
Proof.
  intros n Hn sched j st Hj. pose proof (inv_reach n Hn sched) as HI. fold st in HI.
  split; [exact (i_s0 _ _ HI j Hj)|]. split; [exact (i_s1 _ _ HI j Hj)|]. split.
  - intros Hs H Hin Hm. exact (i_s2 _ _ HI j H Hj Hs Hin Hm).
  - exact (i_s4 _ _ HI j Hj).
Qed.

(* (b) SAFETY.  wlog = (ticket, value) of the successful enqueue CASes, one per ticket.  A value returned by a
   completed Dequeue (with ticket H) is the value written by the one enqueue CAS with ticket H, H was never
   given up by a dequeuer, and no ticket is returned twice; every logged write belongs to an Enqueue call that
   is past its CAS (returned true, or about to) and conversely. *)
Theorem C05_scq_safety : forall n, 1 <= n -> forall sched,
  let st := run n (init n) sched in
  (forall H v, deq_returned st H v -> In (H, v) (wlog st) /\ ~ In H (plog st)) /\
  (forall T v, In (T, v) (wlog st) -> enq_returned st T v \/ enq_inflight st T v) /\
  (forall T v, enq_returned st T v \/ enq_inflight st T v -> In (T, v) (wlog st)) /\
  NoDup (map fst (wlog st)) /\
  NoDup (deq_tickets (trace st)).
Proof. exact scq_safety. Qed.

(* (c) NO LOSS.  A value written by an enqueue CAS with ticket T (in particular one whose Enqueue returned true)
   is, in every reachable state: returned by a completed Dequeue, or taken by a Dequeue that is inside
   resetNode and will return it, or still in its slot T mod n (non-empty, cycle T/n, that value) with dequeue
   ticket T neither given up nor consumed: either T has not been issued yet (hd <= T) or the thread that
   holds T is still before its decision on the slot.  The proof uses the isSafe bit (an unsafe slot is written
   only after head <= T was observed) and fails without it: C05_scq_needs_isSafe. *)
Theorem C05_scq_no_loss : forall n, 1 <= n -> forall sched,
  let st := run n (init n) sched in
  forall T v, In (T, v) (wlog st) ->
    deq_returned st T v \/ deq_inflight st T v \/
    (emp (ring st (T mod n)) = false /\ cyc (ring st (T mod n)) = T / n /\ dat (ring st (T mod n)) = v /\
     ~ In T (plog st) /\ ~ In T (map fst (clog st)) /\
     (T < hd st -> exists i, pending (th st i) = Some T)).
Proof. exact scq_no_loss. Qed.

(* the machine that decodes isSafe from the isEmpty bit in Enqueue (seeded change C05-10) violates (c): after
   [loss_schedule] (three threads, one slot, 21 steps) the value 2 is written with ticket 2 although the
   dequeuer holding ticket 2 has already gone past the slot; the faithful machine refuses that write *)
Theorem C05_scq_needs_isSafe :
  (let st := runm 1 (init 1) loss_schedule in
   In (2, 2) (wlog st) /\
   ~ (deq_returned st 2 2 \/ deq_inflight st 2 2 \/
      (emp (ring st (2 mod 1)) = false /\ cyc (ring st (2 mod 1)) = 2 / 1 /\ dat (ring st (2 mod 1)) = 2 /\
       ~ In 2 (plog st) /\ ~ In 2 (map fst (clog st)) /\ (2 < hd st -> exists i, pending (th st i) = Some 2)))) /\
  (let st := run 1 (init 1) loss_schedule in
   wlog st = [(1, 1)] /\ th st 0%nat = E5 2 2 /\ plog st = [2] /\ ring st 0 = mkE false true 1 0).
Proof. exact (conj mutant_loses_refuted faithful_refuses). Qed.

(* (d) FIFO, PARTIAL.  Full statement aimed at: for every schedule and every quiescent reachable state (all calls
   returned), the completed calls - as a timed history over tickets: Enqueue that wrote with ticket T = HEnq T,
   Dequeue that took ticket H = HDeq H, empty answer = HEmpty, failed Enqueues left out, stamps = step counter at
   invocation / return - satisfy all four conditions of the property statement, hence are linearizable
   (C05_aspects_lin).
   PROVED: three of the four - no fresh value, no repeat, real-time enqueue order kept by dequeues (incl. 'b
   dequeued => earlier-enqueued a dequeued') - plus unique values and well-formed stamps; therefore the history is
   linearizable as soon as its empty answers are justified (C05_scq_lin_if_empty_justified).
   MISSING, and in this generality FALSE: the fourth condition.  A ring on its own, used again after an Enqueue
   failed, answers empty with a value inside whose Enqueue returned long before: every failed attempt leaves an
   unwritten tail ticket behind, and 2n-1 unwritten tickets in front of a written one exhaust the threshold
   (C05_scq_empty_refuted: ONE thread, n = 1).  LSCQ closes a ring right after the first failed Enqueue, so at
   that level the run needs >= 2n-1 enqueuers failing on the same ring before it is closed.  A second way, with no
   failed Enqueue at all: C05_scq_threshold_refuted below. *)
Theorem C05_scq_fifo_order_partial : forall n, 1 <= n -> forall sched,
  let st := run n (init n) sched in
  quiescent st ->
  let h := hist_of (trace st) in
  Stamped h /\ UniqueValues h /\ NoFresh h /\ NoRepeat h /\ OrderKept h.
Proof. exact scq_fifo_order. Qed.
Theorem C05_scq_lin_if_empty_justified : forall n, 1 <= n -> forall sched,
  let st := run n (init n) sched in
  quiescent st -> EmptyJustified (hist_of (trace st)) -> fifo_linearizable (hist_of (trace st)).
Proof. exact scq_linearizable_if_empty_justified. Qed.
Theorem C05_scq_empty_refuted :
  let st := run 1 (init 1) false_empty_schedule in
  quiescent st /\
  map (fun x => snd x) (trace st) =
    [EvEnq 1 (Some 1); EvEnq 2 None; EvEnq 3 None; EvEnq 4 None; EvDeq (Some (1, 1)); EvEnq 9 (Some 5); EvDeq None] /\
  ring st 0 = mkE true false 5 9 /\ thr st = -1 /\
  ~ EmptyJustified (hist_of (trace st)) /\ ~ fifo_linearizable (hist_of (trace st)).
Proof. exact empty_refuted. Qed.
(* ... and, without any failed Enqueue, once more than 2n-1 dequeuers are stale (took tickets on an empty ring and
   stall before loading tail): their late threshold decrements drive the threshold below zero AFTER an Enqueue
   completed, a new Dequeue answers empty, a later one returns that value: not linearizable (n = 2, 8 threads;
   the published SCQ assumes at most n threads, the Go code has no such bound) *)
Theorem C05_scq_threshold_refuted :
  let st := run 2 (init 2) stale_schedule in
  quiescent st /\
  map (fun x => (fst (fst (fst x)), snd x)) (trace st) =
    [(0%nat, EvEnq 100 (Some 2)); (1%nat, EvDeq (Some (2, 100))); (0%nat, EvEnq 7 (Some 8)); (4%nat, EvDeq None);
     (5%nat, EvDeq None); (6%nat, EvDeq None); (0%nat, EvEnq 8 (Some 9)); (7%nat, EvDeq (Some (8, 7)));
     (1%nat, EvDeq (Some (9, 8))); (2%nat, EvDeq None); (3%nat, EvDeq None)] /\
  (forall i a b v, ~ In (i, a, b, EvEnq v None) (trace st)) /\
  ~ EmptyJustified (hist_of (trace st)) /\ ~ fifo_linearizable (hist_of (trace st)).
Proof. exact threshold_refuted. Qed.
(* (d) COMPLETED UNDER THE THREAD BOUND.  The two refutations above leave exactly one case: at most K <= n + 1 threads
   (the published SCQ assumes at most n; for this code, whose threshold is 2n-1 on a ring of n slots, n + 1 is the
   exact bound: exploration of the model finds false empty answers with n + 2 threads for n = 1..4 and none with
   n + 1), the ring is never closed (no LClose) and no Enqueue returns false (the ring never runs full) - which is
   how LSCQ uses a ring until it closes it.  Then the threshold always covers what is still to be charged to it:
   for every Enqueue that has returned with ticket T >= head and is not dequeued yet,
       threshold >= (dequeuers inside an iteration that will end in a decrement)
                    + (unwritten tail tickets in [head, T))                                   (t_bud of [Thr])
   because at the moment the threshold is (re)set to 2n-1 the unwritten tickets in front of T are either among
   the n-1 tickets right after head (a ticket given up by a non-failing Enqueue satisfies x + 2 <= head + n) or
   held by an enqueuer still in flight, and stale dequeuers and in-flight enqueuers are different threads, none
   of them the enqueuer of T: (K-1) + (n-1) <= 2n-1. *)
Theorem C05_scq_threshold_budget : forall n, 1 <= n -> forall K, Z.of_nat K <= n + 1 -> forall sched,
  good n K (init n) sched -> Thr n K (run n (init n) sched).
Proof. exact thr_reach. Qed.
(* hence every empty answer is justified: in every quiescent state reached by at most K <= n + 1 threads without
   LClose and without a failed Enqueue, each Dequeue that answered empty has an instant inside its call at which
   no value is definitely inside (EmptyJustified, the fourth condition, in the form C05_scq_lin_if_empty_justified
   consumes) ... *)
Theorem C05_scq_empty_justified_bounded : forall n, 1 <= n -> forall K, Z.of_nat K <= n + 1 -> forall sched,
  Forall (lab_ok K) sched ->
  let st := run n (init n) sched in
  (forall i a b v, ~ In (i, a, b, EvEnq v None) (trace st)) ->
  quiescent st -> EmptyJustified (hist_of (trace st)).
Proof.
  intros n Hn K HK sched Hl st Hno Hq. apply (scq_empty_justified_bounded n Hn K HK sched); [|exact Hq].
  now apply good_of_trace.
Qed.
(* ... and the completed calls are LINEARIZABLE with respect to the FIFO queue (definition of Common/Hist.v) *)
Theorem C05_scq_linearizable_bounded : forall n, 1 <= n -> forall K, Z.of_nat K <= n + 1 -> forall sched,
  Forall (lab_ok K) sched ->
  let st := run n (init n) sched in
  (forall i a b v, ~ In (i, a, b, EvEnq v None) (trace st)) ->
  quiescent st -> fifo_linearizable (hist_of (trace st)).
Proof.
  intros n Hn K HK sched Hl st Hno Hq. apply (scq_linearizable_bounded n Hn K HK sched); [|exact Hq].
  now apply good_of_trace.
Qed.
(* non-vacuity of the bounded theorems: three threads on a ring of two slots (K = 3 = n + 1), interleaved, with an
   empty answer, ending quiescent, no failed Enqueue *)
Example C05_scq_bounded_nonvacuous :
  let sched := [LEnq 0 7; LDeq 2; LStep 0; LStep 2; LStep 0; LEnq 1 8; LStep 1; LStep 0; LStep 1; LStep 1; LStep 0;
                LStep 0; LStep 1; LStep 1; LDeq 2; LStep 2; LStep 2; LStep 2; LDeq 0; LStep 0; LStep 2; LStep 2;
                LStep 0; LStep 0; LStep 0; LStep 0; LDeq 1] ++ repeat (LStep 1) 9 in
  let st := run 2 (init 2) sched in
  Forall (lab_ok 3) sched /\ quiescent st /\ (forall i a b v, ~ In (i, a, b, EvEnq v None) (trace st)) /\
  map (fun x => (fst (fst (fst x)), snd x)) (trace st) =
    [(2%nat, EvDeq None); (0%nat, EvEnq 7 (Some 2)); (1%nat, EvEnq 8 (Some 3)); (2%nat, EvDeq (Some (2, 7)));
     (0%nat, EvDeq (Some (3, 8))); (1%nat, EvDeq None)].
Proof.
  cbv zeta. split; [|split; [|split]].
  - repeat (constructor; [cbn; auto; lia|]). constructor.
  - intros i. do 3 (destruct i as [|i]; [vm_compute; reflexivity|]). vm_compute. reflexivity.
  - intros i a b v Hin.
    match type of Hin with In _ (trace ?S) =>
      assert (Hf : forallb (fun x => match snd x with EvEnq _ None => false | _ => true end) (trace S) = true) by (vm_compute; reflexivity)
    end.
    rewrite forallb_forall in Hf. specialize (Hf _ Hin). discriminate Hf.
  - vm_compute. reflexivity.
Qed.

(* the real-time order facts behind (d): tickets follow the order of calls *)
Theorem C05_scq_ticket_order : forall n, 1 <= n -> forall sched, Ord (run n (init n) sched).
Proof. exact ord_reach. Qed.

(* TIE to the functional model (Model.v: the model C05_seq / C05_ring_* are about and that the correspondence runs
   execute against the real code at ring size 65536).  [Sim q st]: head, tail, closed bit, threshold agree and
   slot `remap n cl r` of the functional ring equals residue slot r of the small-step ring.  One call executed by
   ONE thread of the small-step machine with nobody else moving ends in a state that simulates the functional
   model's result state and returns the functional model's answer ([mcall]: Model.enq_loop / Model.scq_dequeue;
   fuel exhaustion excluded), for every n >= 1, cl | n: the small-step machine run by one thread IS the
   functional model ... *)
Theorem C05_scq_solo_call : forall n cl, 1 <= n -> 1 <= cl -> (cl | n) ->
  forall fuel q st i c q' o,
  Sim n cl q st -> th st i = Idle -> mcall n cl fuel q c = (q', Some o) ->
  exists k st', run n st (label_of i c :: repeat (LStep i) k) = st' /\
    Sim n cl q' st' /\ others st st' i /\ th st' i = Idle /\
    exists e, evs st' = evs st ++ [(i, e)] /\ ev_ok e o.
Proof. exact solo_call. Qed.
(* ... and so for every sequence of calls from the initial states *)
Theorem C05_scq_solo_run : forall n cl, 1 <= n -> 1 <= cl -> (cl | n) ->
  forall fuel cs i q' outs,
  mseq n cl fuel (Model.scq_init Z n) cs = Some (q', outs) ->
  exists sched st', run n (init n) sched = st' /\ Forall (solo_label i) sched /\ Sim n cl q' st' /\
    exists es, map snd (evs st') = es /\ Forall2 ev_ok es outs.
Proof. exact solo_from_init. Qed.

(* non-vacuity: two enqueuers and two dequeuers interleaved on a ring of two slots (the first Dequeue sees the
   initial threshold -1 and answers empty, the second takes the value of the smaller ticket) *)
Example C05_scq_nonvacuous :
  let sched := [LEnq 0 7; LEnq 1 8; LStep 0; LStep 1; LDeq 2; LStep 2; LStep 1; LStep 1; LStep 0; LStep 0;
                LStep 2; LStep 2; LStep 2; LStep 2; LStep 1; LStep 1; LStep 0; LDeq 3; LStep 3; LStep 3; LStep 3;
                LStep 3; LStep 3] in
  let st := run 2 (init 2) sched in
  wlog st = [(2, 7); (3, 8)] /\
  map (fun x => snd x) (trace st) = [EvDeq None; EvEnq 8 (Some 3); EvEnq 7 (Some 2); EvDeq (Some (2, 7))].
Proof. vm_compute. split; reflexivity. Qed.

Print Assumptions C05_scq_invariant.
Print Assumptions C05_scq_tickets.
Print Assumptions C05_scq_cycles_monotone.
Print Assumptions C05_scq_slots.
Print Assumptions C05_scq_safety.
Print Assumptions C05_scq_no_loss.
Print Assumptions C05_scq_needs_isSafe.
Print Assumptions C05_scq_solo_call.
Print Assumptions C05_scq_solo_run.
Print Assumptions C05_scq_fifo_order_partial.
Print Assumptions C05_scq_lin_if_empty_justified.
Print Assumptions C05_scq_empty_refuted.
Print Assumptions C05_scq_ticket_order.
Print Assumptions C05_scq_threshold_refuted.
Print Assumptions C05_scq_threshold_budget.
Print Assumptions C05_scq_empty_justified_bounded.
Print Assumptions C05_scq_linearizable_bounded.
