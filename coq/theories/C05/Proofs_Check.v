(* C05: the two-list queue used by the checker is the FIFO specification. *)
From VF Require Import Common.Base C05.Model C05.Spec C05.Check.

Lemma bq_step_abs q o :
  fifo_step (bq_abs q) o = (bq_abs (fst (bq_step q o)), snd (bq_step q o)).
Proof.
  destruct q as [f b]. destruct o as [d|]; unfold bq_abs; simpl.
  - now rewrite app_assoc.
  - destruct f as [|x f]; simpl; [|reflexivity].
    rewrite <- rev_alt. destruct (rev b) as [|x f]; simpl; [reflexivity|]. now rewrite app_nil_r.
Qed.

Theorem bq_refines ops : forall q,
  snd (run bq_step q ops) = snd (run fifo_step (bq_abs q) ops).
Proof.
  induction ops as [|o ops IH]; intros q; [reflexivity|].
  cbn [run]. rewrite (bq_step_abs q o).
  destruct (bq_step q o) as [q' r]. cbn [fst snd]. specialize (IH q').
  destruct (run bq_step q' ops) as [q2 os]. destruct (run fifo_step (bq_abs q') ops) as [s2 os'].
  simpl in *. congruence.
Qed.
