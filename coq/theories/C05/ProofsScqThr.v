(* C05 - the small-step SCQ ring under the published SCQ assumptions, in the form that is true of this code:
   at most K <= n + 1 threads, the ring is never closed and no Enqueue fails (it never runs full).  Fourth
   invariant [Thr]: unwritten tail tickets in front of head are few, and the threshold always covers the stale
   dequeuers plus the unwritten tickets in front of every completed, not yet dequeued value. *)
From Coq Require Import ZArith List Bool Lia Arith.
Import ListNotations.
From VF Require Import C05.Scq C05.ProofsScqInv C05.ProofsScqCount.
Open Scope Z_scope.

(* the tail ticket an enqueuer holds, from the fetch-add until it is written or given up *)
Definition hold (s : tstate) : option Z :=
  match s with E2 _ T | E3 _ T _ | E4 _ T _ | E5 _ T => Some T | _ => None end.
Definition holdb (s : tstate) : bool := match hold s with Some _ => true | None => false end.

(* ticket x has been written *)
Definition wrw (w : list (Z * Z)) (x : Z) : bool := memz x (map fst w).
Notation wr st x := (wrw (wlog st) x).
(* a dequeuer inside an iteration that will end with a threshold decrement (unless its ticket gets written in time) *)
Definition stalew (w : list (Z * Z)) (s : tstate) : bool :=
  match s with
  | D2 H | D4 H _ => negb (wrw w H)
  | D5 _ | D7 _ | F1 _ | F2 _ _ | F3 _ _ _ | F4 => true
  | _ => false
  end.
Notation stale st s := (stalew (wlog st) s).

Section Thr.
Variable n : Z.
Hypothesis Hn : 1 <= n.
Variable K : nat.
Hypothesis HK : Z.of_nat K <= n + 1.

Definition Sx (st : state) : nat := cnt K (fun i => stale st (th st i)).
Definition G (st : state) (T : Z) : nat := gcnt (fun x => negb (wr st x)) (hd st) T.

Record Thr (st : state) : Prop := {
  t_closed : closed st = false;
  t_bnd : forall i, (K <= i)%nat -> th st i = Idle;
  t_le : thr st <= 2 * n - 1;
  t_fh : forall i, match th st i with F2 _ h | F3 _ h _ => h <= hd st | _ => True end;
  t_e5 : forall i d T, th st i = E5 d T -> n <= T < tl st;
  t_hu : forall i k T, i <> k -> hold (th st i) = Some T -> hold (th st k) = Some T -> False;
  t_ga : forall x, hd st <= x < tl st ->
           wr st x = true \/ (exists i, hold (th st i) = Some x) \/ x + 2 <= hd st + n;
  t_bud : forall i a b v T, In (i, a, b, EvEnq v (Some T)) (trace st) -> ~ In T (map fst (clog st)) -> hd st <= T ->
           Z.of_nat (Sx st) + Z.of_nat (G st T) <= thr st
}.

Lemma hold_lt st i T : Inv n st -> Thr st -> hold (th st i) = Some T -> n <= T < tl st.
Proof.
  intros HI HT E. pose proof (i_t _ _ HI i) as Hti. destruct (th st i) eqn:Et; try discriminate E; cbn in E; inversion E; subst;
    cbn [tinv] in Hti; try (destruct Hti as [Hti _]; exact Hti).
  exact (t_e5 _ HT i _ _ Et).
Qed.

Lemma filter_split {A} (w p : A -> bool) l :
  length (filter w l) = (length (filter (fun x => w x && p x) l) + length (filter (fun x => w x && negb (p x)) l))%nat.
Proof.
  induction l as [|a l IH]; [reflexivity|]. cbn [filter]. destruct (w a), (p a); cbn [andb negb length]; lia.
Qed.

Lemma below_len (w : Z -> bool) a c b : a <= c ->
  (length (filter (fun x => w x && Z.ltb x c) (zr a b)) <= Z.to_nat (c - a))%nat.
Proof.
  intros Hac. rewrite <- (zr_len a c). apply NoDup_incl_length.
  - apply NoDup_filter. apply zr_nodup.
  - intros x Hx. apply filter_In in Hx as [Hx Hc]. apply zr_in in Hx. apply andb_true_iff in Hc as [_ Hc].
    apply Z.ltb_lt in Hc. apply zr_in. lia.
Qed.

(* the bound behind the threshold 2n-1: stale dequeuers + unwritten tickets in front of a written ticket *)
Lemma arm_bound st i T :
  Inv n st -> Thr st -> (i < K)%nat -> hold (th st i) = None -> stale st (th st i) = false ->
  hd st <= T -> wr st T = true ->
  Z.of_nat (Sx st) + Z.of_nat (G st T) <= 2 * n - 1.
Proof.
  intros HI HT Hi Hh Hs HhT HwT.
  assert (HTtl : T < tl st).
  { apply memz_in in HwT. apply in_map_iff in HwT as ([T' v] & E & Hin). cbn in E. subst T'.
    pose proof (i_w_rng _ _ HI _ _ Hin). lia. }
  set (unw := fun x => negb (wr st x)).
  set (c := hd st + n - 1).
  assert (Hc : hd st <= c) by (unfold c; lia).
  unfold G, gcnt. fold unw. rewrite (filter_split unw (fun x => x <? c)).
  pose proof (below_len unw (hd st) c T Hc) as Hnear.
  assert (Hfar : (length (filter (fun x => unw x && negb (Z.ltb x c)) (zr (hd st) T)) <= cnt K (fun k => holdb (th st k)))%nat).
  { apply (pigeon K _ _ (fun x k => hold (th st k) = Some x)).
    - apply NoDup_filter. apply zr_nodup.
    - intros x Hx. apply filter_In in Hx as [Hx Hc']. apply zr_in in Hx. apply andb_true_iff in Hc' as [Hu Hc'].
      apply negb_true_iff in Hc'. apply Z.ltb_ge in Hc'. unfold unw in Hu. apply negb_true_iff in Hu.
      destruct (t_ga _ HT x ltac:(lia)) as [Hw|[(k & Hk)|Hb]]; [congruence| |unfold c in Hc'; lia].
      exists k. split; [|split; [unfold holdb; now rewrite Hk|exact Hk]].
      destruct (le_lt_dec K k) as [Hle|Hlt]; [|exact Hlt]. rewrite (t_bnd _ HT k Hle) in Hk. discriminate Hk.
    - intros x y k E1 E2. congruence. }
  assert (Hthreads : (cnt K (fun k => stale st (th st k)) + cnt K (fun k => holdb (th st k)) + 1 <= K)%nat).
  { apply (cnt_two K _ _ i); auto.
    - unfold holdb. now rewrite Hh.
    - intros k E1 E2. unfold holdb in E2. destruct (th st k); cbn in *; discriminate. }
  unfold Sx. replace (Z.to_nat (c - hd st)) with (Z.to_nat (n - 1)) in Hnear by (unfold c; f_equal; lia). lia.
Qed.

(* ------------------------------------------------------------------ how the two counts move *)
Lemma wr_cons w T d x : wrw ((T, d) :: w) x = (x =? T) || wrw w x.
Proof. reflexivity. Qed.

Lemma Sx_upd w f i s0 : (i < K)%nat ->
  (cnt K (fun k => stalew w (updf f i s0 k)) + b2n (stalew w (f i)) = cnt K (fun k => stalew w (f k)) + b2n (stalew w s0))%nat.
Proof.
  intros Hi. pose proof (cnt_upd K (fun k => stalew w (updf f i s0 k)) (fun k => stalew w (f k)) i Hi) as H.
  cbn beta in H. rewrite updf_same in H. apply H. intros k Hk. now rewrite updf_other.
Qed.

Lemma G_shift st T : hd st < T ->
  G st T = (b2n (negb (wr st (hd st))) + gcnt (fun x => negb (wr st x)) (hd st + 1) T)%nat.
Proof. intros H. unfold G. now apply gcnt_shift. Qed.

(* a pending dequeuer whose slot shows a different cycle holds an unwritten ticket *)
Lemma pending_unwritten st i H :
  Inv n st -> pending (th st i) = Some H -> cyc (ring st (H mod n)) <> H / n -> wr st H = false.
Proof.
  intros HI Hp Hc. apply memz_notin. intros Hin. apply in_map_iff in Hin as ([H' v] & E & Hin). cbn in E. subst H'.
  pose proof (i_t _ _ HI i) as Hti.
  assert (Hnc : ~ In H (map fst (clog st))).
  { destruct (th st i); try discriminate Hp; cbn in Hp; inversion Hp; subst; cbn [tinv] in Hti; tauto. }
  destruct (i_h _ _ HI H v Hin) as [Hx|(_ & Hx & _)]; [apply Hnc; eapply in_fst; eauto|contradiction].
Qed.

(* ------------------------------------------------------------------ the general step: thread i moves, counters stay *)
Lemma thr_gen st i s0 thr' trace' clog' r p k0 sn :
  Inv n st -> Thr st -> (i < K)%nat ->
  (hold s0 = hold (th st i) \/
   (hold s0 = None /\ forall x, hold (th st i) = Some x -> hd st <= x -> wr st x = true \/ x + 2 <= hd st + n)) ->
  match s0 with F2 _ h | F3 _ h _ => h <= hd st | _ => True end ->
  (forall d T, s0 = E5 d T -> n <= T < tl st) ->
  (forall j a b v T, In (j, a, b, EvEnq v (Some T)) trace' -> In (j, a, b, EvEnq v (Some T)) (trace st)) ->
  (forall T, In T (map fst (clog st)) -> In T (map fst clog')) ->
  Z.of_nat (b2n (stale st s0)) + thr st <= thr' + Z.of_nat (b2n (stale st (th st i))) ->
  thr' <= 2 * n - 1 ->
  Thr (mkS r (hd st) (tl st) (closed st) thr' (updf (th st) i s0) (wlog st) clog' p k0 sn trace').
Proof.
  intros HI HT Hi Hh Hf H5 Htr Hcl Hb Hle.
  assert (Hhold : forall k x, hold (updf (th st) i s0 k) = Some x -> hold (th st k) = Some x).
  { intros k x. unfold updf. destruct (Nat.eqb_spec k i) as [->|Hk]; auto.
    intros E. destruct Hh as [Hh|[Hh _]]; rewrite Hh in E; [exact E|discriminate E]. }
  constructor; cbn [ring hd tl closed thr th wlog clog plog clk since trace].
  - apply (t_closed _ HT).
  - intros k Hk. rewrite updf_other by lia. apply (t_bnd _ HT k Hk).
  - exact Hle.
  - intros k. unfold updf. destruct (Nat.eqb_spec k i); [exact Hf|apply (t_fh _ HT k)].
  - intros k d T. unfold updf. destruct (Nat.eqb_spec k i); [apply H5|apply (t_e5 _ HT k)].
  - intros a b T Hab E1 E2. exact (t_hu _ HT a b T Hab (Hhold _ _ E1) (Hhold _ _ E2)).
  - intros x Hx. destruct (t_ga _ HT x Hx) as [Hw|[(k & Hk)|Hb']]; [now left| |now right; right].
    destruct (Nat.eq_dec k i) as [->|Hki].
    + destruct Hh as [Hh|[Hh Hab]].
      * right; left. exists i. rewrite updf_same. congruence.
      * destruct (Hab x Hk ltac:(lia)) as [Hw|Hb']; [now left|now right; right].
    + right; left. exists k. now rewrite updf_other.
  - intros j a b v T Hin Hnc HhT.
    assert (Hnc' : ~ In T (map fst (clog st))) by (intros Hc; apply Hnc; now apply Hcl).
    pose proof (t_bud _ HT j a b v T (Htr _ _ _ _ _ Hin) Hnc' HhT) as Hbud.
    unfold Sx, G in *. cbn [th wlog hd] in *. pose proof (Sx_upd (wlog st) (th st) i s0 Hi) as Hu. lia.
Qed.

(* ------------------------------------------------------------------ the steps that move a counter or a log *)
Lemma thr_E1 st i d r p k0 sn :
  Inv n st -> Thr st -> (i < K)%nat -> th st i = E1 d ->
  Thr (mkS r (hd st) (tl st + 1) (closed st) (thr st) (updf (th st) i (E2 d (tl st))) (wlog st) (clog st) p k0 sn (trace st)).
Proof.
  intros HI HT Hi Ht.
  constructor; cbn [ring hd tl closed thr th wlog clog plog clk since trace].
  - apply (t_closed _ HT).
  - intros k Hk. rewrite updf_other by lia. apply (t_bnd _ HT k Hk).
  - apply (t_le _ HT).
  - intros k. unfold updf. destruct (Nat.eqb_spec k i); [exact I|apply (t_fh _ HT k)].
  - intros k d0 T. unfold updf. destruct (Nat.eqb_spec k i); [discriminate|].
    intros E. pose proof (t_e5 _ HT k _ _ E). lia.
  - intros a b T Hab. unfold updf. destruct (Nat.eqb_spec a i) as [->|Ha], (Nat.eqb_spec b i) as [->|Hb]; intros E1' E2'.
    + contradiction.
    + cbn in E1'. inversion E1'; subst T. pose proof (hold_lt _ _ _ HI HT E2'). lia.
    + cbn in E2'. inversion E2'; subst T. pose proof (hold_lt _ _ _ HI HT E1'). lia.
    + exact (t_hu _ HT a b T Hab E1' E2').
  - intros x Hx. destruct (Z.eq_dec x (tl st)) as [->|Hne].
    + right; left. exists i. now rewrite updf_same.
    + destruct (t_ga _ HT x ltac:(lia)) as [Hw|[(k & Hk)|Hb']]; [now left| |now right; right].
      right; left. exists k. destruct (Nat.eq_dec k i) as [->|Hki]; [rewrite Ht in Hk; discriminate Hk|now rewrite updf_other].
  - intros j a b v T Hin Hnc HhT. pose proof (t_bud _ HT j a b v T Hin Hnc HhT) as Hbud.
    unfold Sx, G in *. cbn [th wlog hd] in *. pose proof (Sx_upd (wlog st) (th st) i (E2 d (tl st)) Hi) as Hu.
    rewrite Ht in Hu. cbn in Hu. lia.
Qed.

Lemma thr_F3s st i oh h tv r p k0 sn :
  Inv n st -> Thr st -> (i < K)%nat -> th st i = F3 oh h tv -> tl st = tv ->
  Thr (mkS r (hd st) h (closed st) (thr st) (updf (th st) i F4) (wlog st) (clog st) p k0 sn (trace st)).
Proof.
  intros HI HT Hi Ht Etl.
  pose proof (i_t _ _ HI i) as Hti. rewrite Ht in Hti. cbn [tinv] in Hti.
  pose proof (t_fh _ HT i) as Hfh. rewrite Ht in Hfh.
  constructor; cbn [ring hd tl closed thr th wlog clog plog clk since trace].
  - apply (t_closed _ HT).
  - intros k Hk. rewrite updf_other by lia. apply (t_bnd _ HT k Hk).
  - apply (t_le _ HT).
  - intros k. unfold updf. destruct (Nat.eqb_spec k i); [exact I|apply (t_fh _ HT k)].
  - intros k d0 T. unfold updf. destruct (Nat.eqb_spec k i); [discriminate|].
    intros E. pose proof (t_e5 _ HT k _ _ E). lia.
  - intros a b T Hab. unfold updf. destruct (Nat.eqb_spec a i), (Nat.eqb_spec b i); intros E1' E2'; try discriminate.
    exact (t_hu _ HT a b T Hab E1' E2').
  - intros x Hx. lia.
  - intros j a b v T Hin Hnc HhT. pose proof (t_bud _ HT j a b v T Hin Hnc HhT) as Hbud.
    unfold Sx, G in *. cbn [th wlog hd] in *. pose proof (Sx_upd (wlog st) (th st) i F4 Hi) as Hu.
    rewrite Ht in Hu. cbn in Hu. lia.
Qed.

Lemma thr_D1 st i r p k0 sn :
  Inv n st -> Thr st -> (i < K)%nat -> th st i = D1 ->
  Thr (mkS r (hd st + 1) (tl st) (closed st) (thr st) (updf (th st) i (D2 (hd st))) (wlog st) (clog st) p k0 sn (trace st)).
Proof.
  intros HI HT Hi Ht.
  constructor; cbn [ring hd tl closed thr th wlog clog plog clk since trace].
  - apply (t_closed _ HT).
  - intros k Hk. rewrite updf_other by lia. apply (t_bnd _ HT k Hk).
  - apply (t_le _ HT).
  - intros k. unfold updf. destruct (Nat.eqb_spec k i); [exact I|].
    pose proof (t_fh _ HT k) as Hf. destruct (th st k); auto; lia.
  - intros k d0 T. unfold updf. destruct (Nat.eqb_spec k i); [discriminate|apply (t_e5 _ HT k)].
  - intros a b T Hab. unfold updf. destruct (Nat.eqb_spec a i), (Nat.eqb_spec b i); intros E1' E2'; try discriminate.
    exact (t_hu _ HT a b T Hab E1' E2').
  - intros x Hx. destruct (t_ga _ HT x ltac:(lia)) as [Hw|[(k & Hk)|Hb']]; [now left| |right; right; lia].
    right; left. exists k. destruct (Nat.eq_dec k i) as [->|Hki]; [rewrite Ht in Hk; discriminate Hk|now rewrite updf_other].
  - intros j a b v T Hin Hnc HhT. pose proof (t_bud _ HT j a b v T Hin Hnc ltac:(lia)) as Hbud.
    unfold Sx in *. cbn [th wlog hd] in *. pose proof (Sx_upd (wlog st) (th st) i (D2 (hd st)) Hi) as Hu.
    rewrite Ht in Hu. cbn [stalew b2n] in Hu.
    rewrite (G_shift st T ltac:(lia)) in Hbud. unfold G. cbn [hd wlog]. lia.
Qed.

Lemma thr_E4s st i d T e r p k0 sn :
  Inv n st -> Thr st -> (i < K)%nat -> th st i = E4 d T e ->
  Thr (mkS r (hd st) (tl st) (closed st) (thr st) (updf (th st) i (E6 d T)) ((T, d) :: wlog st) (clog st) p k0 sn (trace st)).
Proof.
  intros HI HT Hi Ht.
  assert (Hmono : forall x, wrw (wlog st) x = true -> wrw ((T, d) :: wlog st) x = true).
  { intros x Hx. rewrite wr_cons, Hx. apply orb_true_r. }
  constructor; cbn [ring hd tl closed thr th wlog clog plog clk since trace].
  - apply (t_closed _ HT).
  - intros k Hk. rewrite updf_other by lia. apply (t_bnd _ HT k Hk).
  - apply (t_le _ HT).
  - intros k. unfold updf. destruct (Nat.eqb_spec k i); [exact I|apply (t_fh _ HT k)].
  - intros k d0 T0. unfold updf. destruct (Nat.eqb_spec k i); [discriminate|apply (t_e5 _ HT k)].
  - intros a b T0 Hab. unfold updf. destruct (Nat.eqb_spec a i), (Nat.eqb_spec b i); intros E1' E2'; try discriminate.
    exact (t_hu _ HT a b T0 Hab E1' E2').
  - intros x Hx. destruct (t_ga _ HT x Hx) as [Hw|[(k & Hk)|Hb']]; [left; now apply Hmono| |now right; right].
    destruct (Nat.eq_dec k i) as [->|Hki].
    + rewrite Ht in Hk. cbn in Hk. inversion Hk; subst x. left. rewrite wr_cons, Z.eqb_refl. reflexivity.
    + right; left. exists k. now rewrite updf_other.
  - intros j a b v T0 Hin Hnc HhT. pose proof (t_bud _ HT j a b v T0 Hin Hnc HhT) as Hbud.
    unfold Sx, G in *. cbn [th wlog hd] in *.
    assert (H1 : (cnt K (fun k => stalew ((T, d) :: wlog st) (updf (th st) i (E6 d T) k)) <= cnt K (fun k => stalew (wlog st) (th st k)))%nat).
    { apply cnt_le. intros k Hk. unfold updf. destruct (Nat.eqb_spec k i) as [->|Hki]; [discriminate|].
      destruct (th st k); cbn [stalew]; auto; intros E; apply negb_true_iff in E; apply negb_true_iff;
        destruct (wrw (wlog st) H) eqn:Ew; auto; rewrite (Hmono _ Ew) in E; discriminate. }
    assert (H2 : (gcnt (fun x => negb (wrw ((T, d) :: wlog st) x)) (hd st) T0 <= gcnt (fun x => negb (wrw (wlog st) x)) (hd st) T0)%nat).
    { apply gcnt_le. intros x _ E. apply negb_true_iff in E. apply negb_true_iff.
      destruct (wrw (wlog st) x) eqn:Ew; auto. rewrite (Hmono _ Ew) in E. discriminate. }
    lia.
Qed.

Lemma thr_arm st i d T thr' r p k0 sn :
  Inv n st -> Thr st -> (i < K)%nat -> (th st i = E6 d T \/ th st i = E7 d T) -> thr' = 2 * n - 1 ->
  Thr (mkS r (hd st) (tl st) (closed st) thr' (updf (th st) i Idle) (wlog st) (clog st) p k0 sn
           (trace st ++ [(i, since st i, clk st, EvEnq d (Some T))])).
Proof.
  intros HI HT Hi Ht ->.
  assert (Hhold : hold (th st i) = None) by (destruct Ht as [Ht|Ht]; rewrite Ht; reflexivity).
  assert (Hst : stale st (th st i) = false) by (destruct Ht as [Ht|Ht]; rewrite Ht; reflexivity).
  assert (HwT : wr st T = true).
  { apply memz_in. pose proof (i_t _ _ HI i) as Hti. destruct Ht as [Ht|Ht]; rewrite Ht in Hti; cbn [tinv] in Hti; eapply in_fst; eauto. }
  assert (HSx : cnt K (fun k => stalew (wlog st) (updf (th st) i Idle k)) = Sx st).
  { pose proof (Sx_upd (wlog st) (th st) i Idle Hi) as Hu. rewrite Hst in Hu. cbn in Hu. unfold Sx. lia. }
  constructor; cbn [ring hd tl closed thr th wlog clog plog clk since trace].
  - apply (t_closed _ HT).
  - intros k Hk. rewrite updf_other by lia. apply (t_bnd _ HT k Hk).
  - lia.
  - intros k. unfold updf. destruct (Nat.eqb_spec k i); [exact I|apply (t_fh _ HT k)].
  - intros k d0 T0. unfold updf. destruct (Nat.eqb_spec k i); [discriminate|apply (t_e5 _ HT k)].
  - intros a b T0 Hab. unfold updf. destruct (Nat.eqb_spec a i), (Nat.eqb_spec b i); intros E1' E2'; try discriminate.
    exact (t_hu _ HT a b T0 Hab E1' E2').
  - intros x Hx. destruct (t_ga _ HT x Hx) as [Hw|[(k & Hk)|Hb']]; [now left| |now right; right].
    right; left. exists k. destruct (Nat.eq_dec k i) as [->|Hki]; [rewrite Hhold in Hk; discriminate Hk|now rewrite updf_other].
  - intros j a b v T0 Hin Hnc HhT. unfold Sx, G. cbn [th wlog hd]. rewrite HSx.
    apply in_app_or in Hin as [Hin|[E|[]]].
    + pose proof (t_bud _ HT j a b v T0 Hin Hnc HhT) as Hbud. pose proof (t_le _ HT). unfold G in Hbud. lia.
    + inversion E; subst j a b v T0. exact (arm_bound st i T HI HT Hi Hhold Hst HhT HwT).
Qed.

(* ------------------------------------------------------------------ every admissible step *)
Lemma Thr_ext st st' :
  closed st' = closed st -> th st' = th st -> thr st' = thr st -> hd st' = hd st -> tl st' = tl st ->
  wlog st' = wlog st -> clog st' = clog st -> trace st' = trace st -> Thr st -> Thr st'.
Proof.
  intros E1 E2 E3 E4 E5 E6 E7 E8 HT.
  destruct st as [r h t c tr f w cl p k s tc], st' as [r' h' t' c' tr' f' w' cl' p' k' s' tc'].
  cbn in E1, E2, E3, E4, E5, E6, E7, E8. subst. destruct HT. constructor; assumption.
Qed.

Lemma thr_reset st r p k0 sn :
  Thr st -> Thr (mkS r (hd st) (tl st) (closed st) (2 * n - 1) (th st) (wlog st) (clog st) p k0 sn (trace st)).
Proof.
  intros HT. constructor; cbn [ring hd tl closed thr th wlog clog plog clk since trace]; try apply HT; [lia|].
  intros j a b v T Hin Hnc HhT. pose proof (t_bud _ HT j a b v T Hin Hnc HhT). pose proof (t_le _ HT).
  unfold Sx, G in *. cbn [th wlog hd]. lia.
Qed.

(* labels of an admissible run: threads below K, the ring is never closed *)
Definition lab_ok (l : label) : Prop :=
  match l with LEnq i _ | LDeq i | LStep i => (i < K)%nat | LClose => False | LResetThr => True end.
(* the step is not a failing Enqueue (the full test at E5; E1 cannot fail while the ring is open) *)
Definition nofail (st : state) (l : label) : Prop :=
  match l with
  | LStep i => match th st i with E5 d T => (hd st + n <=? T + 1) = false | _ => True end
  | _ => True
  end.
Fixpoint good (st : state) (sched : list label) : Prop :=
  match sched with
  | [] => True
  | l :: r => lab_ok l /\ nofail st l /\ good (step n st l) r
  end.

Lemma consume_written st i H :
  Inv n st -> th st i = D2 H -> cyc (ring st (H mod n)) = H / n -> wr st H = true.
Proof.
  intros HI Ht Ec. pose proof (i_t _ _ HI i) as Hti. rewrite Ht in Hti. cbn [tinv] in Hti. destruct Hti as (HH & Hp & Hc).
  pose proof (mod_rng n Hn H) as Hj.
  assert (Htk : cyc (ring st (H mod n)) * n + H mod n = H) by (rewrite Ec; apply tk_eq; lia).
  assert (Hne : emp (ring st (H mod n)) = false).
  { destruct (emp (ring st (H mod n))) eqn:Ee; [|reflexivity]. exfalso.
    destruct (i_s4 _ _ HI (H mod n) Hj Ee) as [Hx|Hx].
    - rewrite Ec. apply div_ge1; lia.
    - rewrite Htk in Hx. contradiction.
    - rewrite Htk in Hx. contradiction. }
  apply memz_in. destruct (i_s1 _ _ HI (H mod n) Hj Hne) as [_ [[Hx _]|(k & Hk)]]; rewrite Htk in *.
  - eapply in_fst; eauto.
  - exfalso. destruct (Nat.eq_dec k i) as [->|Hki]; [rewrite Ht in Hk; discriminate Hk|].
    apply (i_ud _ _ HI i k H); auto; [rewrite Ht; reflexivity|now apply resetting_dticket].
Qed.

Ltac shape := unfold tick, goto, ret, invoke, set_tl, set_hd, set_thr, set_ring, add_w, add_c, add_p, set_closed;
  cbn [ring hd tl closed thr th wlog clog plog clk since trace].
Ltac gen HI HT Hi Ht := apply (thr_gen _ _ _ _ _ _ _ _ _ _ HI HT Hi); rewrite ?Ht; cbn [hold stalew b2n];
  [try (left; reflexivity)|try exact I|try (intros ? ? E; discriminate E)|
   try (intros ? ? ? ? ? Hin; first [exact Hin|apply in_app_or in Hin as [Hin|[E|[]]]; [exact Hin|discriminate E]])|
   try (intros ? Hin; exact Hin)|try lia|try (pose proof (t_le _ HT); lia)].

Lemma thr_tstep st i : Inv n st -> Thr st -> (i < K)%nat -> nofail st (LStep i) -> Thr (tick (tstep n st i)).
Proof.
  intros HI HT Hi Hnf. cbn [nofail] in Hnf. unfold tstep.
  pose proof (i_t _ _ HI i) as Hti.
  destruct (th st i) eqn:Ht; cbn [tinv] in Hti.
  - apply (Thr_ext st); try reflexivity. exact HT.
  - (* E1 *) unfold do_E1. rewrite (t_closed _ HT). shape. now apply thr_E1.
  - (* E2 *) destruct Hti as [HTr Hw]. unfold do_E2. destruct (_ && _); [destruct (safe _)|]; shape; gen HI HT Hi Ht.
    intros d0 T0 E. inversion E; subst. exact HTr.
  - (* E3 *) destruct Hti as (HTr & _). unfold do_E3. destruct (_ <=? _); shape; gen HI HT Hi Ht.
    intros d0 T0 E. inversion E; subst. exact HTr.
  - (* E4 *) unfold do_E4. destruct (entry_eqb _ _); shape; [now apply (thr_E4s st i d T e)|gen HI HT Hi Ht].
  - (* E5 *) unfold do_E5. rewrite Hnf. shape. gen HI HT Hi Ht.
    right. split; [reflexivity|]. intros x E _. inversion E; subst x. right. apply Z.leb_gt in Hnf. lia.
  - (* E6 *) unfold do_E6. destruct (thr st =? thr_full n) eqn:Eth; shape.
    + apply thr_arm; auto. apply Z.eqb_eq in Eth. exact Eth.
    + gen HI HT Hi Ht.
  - (* E7 *) unfold do_E7. shape. apply thr_arm; auto.
  - (* D0 *) unfold do_D0. destruct (_ <? _); shape; gen HI HT Hi Ht.
  - (* D1 *) unfold do_D1. shape. now apply thr_D1.
  - (* D2 *) unfold do_D2, slot, cyc_of.
    destruct (cyc (ring st (H mod n)) =? H / n) eqn:Ec; [apply Z.eqb_eq in Ec|apply Z.eqb_neq in Ec; destruct (_ <? _)]; shape.
    + pose proof (consume_written st i H HI Ht Ec) as Hw. gen HI HT Hi Ht.
      intros T Hin. now right.
    + gen HI HT Hi Ht.
    + pose proof (pending_unwritten st i H HI ltac:(rewrite Ht; reflexivity) Ec) as Hw. gen HI HT Hi Ht.
      rewrite Hw. cbn [negb b2n]. lia.
  - (* D3a *) unfold do_D3a. shape. gen HI HT Hi Ht.
  - (* D3b *) unfold do_D3b. shape. gen HI HT Hi Ht.
  - (* D4 *) destruct Hti as (_ & _ & _ & Hce). unfold do_D4, slot, cyc_of. destruct (entry_eqb _ _) eqn:Eq; shape.
    + apply entry_eqb_eq in Eq.
      assert (Hw : wr st H = false).
      { apply (pending_unwritten st i H HI); [rewrite Ht; reflexivity|]. rewrite Eq. lia. }
      gen HI HT Hi Ht. rewrite Hw. cbn [negb b2n]. lia.
    + gen HI HT Hi Ht.
  - (* D5 *) unfold do_D5. destruct (_ <=? _); shape; gen HI HT Hi Ht.
  - (* D7 *) unfold do_D7. destruct (_ <=? _); shape; gen HI HT Hi Ht.
  - (* F1 *) unfold do_F1. destruct (_ <? _); shape; gen HI HT Hi Ht. lia.
  - (* F2 *) pose proof (t_fh _ HT i) as Hfh. rewrite Ht in Hfh.
    unfold do_F2. destruct (_ || _); shape; gen HI HT Hi Ht. exact Hfh.
  - (* F3 *) unfold do_F3. destruct (negb (closed st) && (tl st =? tv)) eqn:Ec; shape.
    + apply andb_true_iff in Ec as [_ Ec]. apply Z.eqb_eq in Ec. now apply (thr_F3s st i oh h tv).
    + gen HI HT Hi Ht.
  - (* F4 *) unfold do_F4. shape. gen HI HT Hi Ht.
Qed.

Lemma thr_step st l : Inv n st -> Thr st -> lab_ok l -> nofail st l -> Thr (step n st l).
Proof.
  intros HI HT Hl Hnf. unfold step. destruct l as [i v|i|i| |]; cbn [step0 lab_ok] in *.
  - destruct (th st i) eqn:Ht; try (apply (Thr_ext st); try reflexivity; exact HT).
    shape. gen HI HT Hl Ht.
  - destruct (th st i) eqn:Ht; try (apply (Thr_ext st); try reflexivity; exact HT).
    shape. gen HI HT Hl Ht.
  - now apply thr_tstep.
  - contradiction.
  - shape. unfold thr_full. now apply thr_reset.
Qed.

Lemma thr_init : Thr (init n).
Proof.
  constructor; cbn [init ring hd tl closed thr th wlog clog plog clk since trace].
  - reflexivity.
  - intros i _. reflexivity.
  - lia.
  - intros i. exact I.
  - intros i d T E. discriminate E.
  - intros i k T _ E. discriminate E.
  - intros x Hx. lia.
  - intros j a b v T [].
Qed.

Theorem thr_reach sched : good (init n) sched -> Thr (run n (init n) sched).
Proof.
  assert (H : forall st, Inv n st -> Thr st -> good st sched -> Thr (run n st sched)).
  { induction sched as [|l sched IH]; intros st HI HT Hg; [exact HT|]. cbn [run fold_left]. destruct Hg as (Hl & Hnf & Hg).
    apply IH; [now apply inv_step|now apply thr_step|exact Hg]. }
  intros Hg. apply H; [now apply inv_init|apply thr_init|exact Hg].
Qed.

End Thr.
