(* C05 - the LSCQ layer: TIE to the functional model Model.v.  The small-step machine Lscq.v run by ONE thread is the
   functional LSCQ model (Model.lscq_step: the model C05_seq is about and that the correspondence runs execute
   against the code), call by call: same answers, and the rings from q.head on simulate the model's rings
   (ProofsScqTie.Sim, through the slot renaming cacheRemap16Byte). *)
From Coq Require Import ZArith List Bool Lia Arith.
Import ListNotations.
From VF Require Import Common.Base.
From VF Require C05.Model.
From VF Require C05.Proofs_Ring.
From VF Require Import C05.Scq C05.ScqAux C05.Lscq C05.ProofsScqInv C05.ProofsScqTie C05.ProofsLscqFresh C05.ProofsLscqFresh2.
Open Scope Z_scope.

Lemma fresh_is_run' n i d : fresh_with n i d = run n (init n) (LEnq i d :: repeat (LStep i) 5).
Proof. Transparent fresh_with. reflexivity. Opaque fresh_with. Qed.

Definition qevs (L : lstate) : list (nat * qevent) := map (fun x => (fst (fst (fst x)), snd x)) (qtrace L).

Section Tie.
Variable n cl : Z.
Hypothesis n_pos : 1 <= n.
Hypothesis cl_pos : 1 <= cl.
Hypothesis cl_div : (cl | n).
Variable i : nat.

(* what the solo thread i sees of a queue state: rings, indexes, its own pc, the lock table, the answers so far *)
Record Ag (L : lstate) (rf : nat -> state) (nrv qhv qtv : nat) (mf : nat -> option nat) (pc : qstate) (tr : list (nat * qevent)) : Prop := {
  a_r : forall r, rings L r = rf r;
  a_nr : nr L = nrv;
  a_qh : qh L = qhv;
  a_qt : qt L = qtv;
  a_mu : forall r, mu L r = mf r;
  a_pc : qth L i = pc;
  a_oth : forall j, j <> i -> qth L j = QIdle;
  a_tr : qevs L = tr
}.

Ltac lflat := cbn [rings nr qh qt mu qth gclk qsince qtrace cov].
Ltac unf := unfold qtick, set_q, set_qt, set_qh, set_mu, qret, qinvoke, Lscq.set_ring, set_cov, link; lflat.

Lemma ag_ext L rf rf' nrv qhv qtv mf mf' pc tr :
  (forall r, rf r = rf' r) -> (forall r, mf r = mf' r) -> Ag L rf nrv qhv qtv mf pc tr -> Ag L rf' nrv qhv qtv mf' pc tr.
Proof.
  intros E1 E2 [H1 H2 H3 H4 H5 H6 H7 H8]. constructor; auto.
  - intros r. now rewrite H1.
  - intros r. now rewrite H5.
Qed.

(* one queue-level step of thread i from a described state: the tactic that proves every instance below *)
Ltac fin L HA :=
  constructor; unf; rewrite ?(a_nr _ _ _ _ _ _ _ _ HA), ?(a_qh _ _ _ _ _ _ _ _ HA), ?(a_qt _ _ _ _ _ _ _ _ HA);
  [ intros r0; rewrite ?(a_r _ _ _ _ _ _ _ _ HA); unfold updf; repeat match goal with |- context [Nat.eqb ?a ?b] => destruct (Nat.eqb_spec a b); subst end;
      rewrite ?(a_r _ _ _ _ _ _ _ _ HA); try reflexivity; try congruence; try lia
  | rewrite ?(a_nr _ _ _ _ _ _ _ _ HA); try reflexivity
  | rewrite ?(a_qh _ _ _ _ _ _ _ _ HA); try reflexivity
  | rewrite ?(a_qt _ _ _ _ _ _ _ _ HA); try reflexivity
  | intros r0; unfold updf; repeat match goal with |- context [Nat.eqb ?a ?b] => destruct (Nat.eqb_spec a b); subst end;
      rewrite ?(a_mu _ _ _ _ _ _ _ _ HA); try reflexivity; try congruence
  | rewrite ?updf_same, ?(a_qt _ _ _ _ _ _ _ _ HA), ?(a_nr _ _ _ _ _ _ _ _ HA), ?(a_qh _ _ _ _ _ _ _ _ HA); try reflexivity; try exact (a_pc _ _ _ _ _ _ _ _ HA)
  | intros j0 Hj0; try rewrite updf_other by auto; exact (a_oth _ _ _ _ _ _ _ _ HA j0 Hj0)
  | unfold qevs; lflat; rewrite ?map_app; fold (qevs L); rewrite ?(a_tr _ _ _ _ _ _ _ _ HA); try reflexivity ].

Ltac start HA := unfold qstep, qstep_th; rewrite ?(a_pc _ _ _ _ _ _ _ _ HA); cbv zeta.

(* ---- Enqueue ---- *)
Lemma e_inv L rf nrv qhv qtv mf tr d : Ag L rf nrv qhv qtv mf QIdle tr ->
  Ag (qstep n L (QLEnq i d)) rf nrv qhv qtv mf (QE_ldtail d) tr.
Proof. intros HA. start HA. fin L HA. Qed.
Lemma e_ldtail L rf nrv qhv qtv mf tr d : Ag L rf nrv qhv qtv mf (QE_ldtail d) tr ->
  Ag (qstep n L (QLStep i)) rf nrv qhv qtv mf (QE_ldnext d qtv) tr.
Proof. intros HA. start HA. fin L HA. Qed.
Lemma e_ldnext_help L rf nrv qhv qtv mf tr d cq : Ag L rf nrv qhv qtv mf (QE_ldnext d cq) tr -> (S cq < nrv)%nat ->
  Ag (qstep n L (QLStep i)) rf nrv qhv qtv mf (QE_help d cq) tr.
Proof. intros HA Hlt. start HA. rewrite (a_nr _ _ _ _ _ _ _ _ HA). rewrite (proj2 (Nat.ltb_lt _ _) Hlt). fin L HA. Qed.
Lemma e_ldnext_enter L rf nrv qhv qtv mf tr d cq : Ag L rf nrv qhv qtv mf (QE_ldnext d cq) tr -> (nrv <= S cq)%nat ->
  Ag (qstep n L (QLStep i)) (updf rf cq (step n (rf cq) (LEnq i d))) nrv qhv qtv mf (QE_ring d cq) tr.
Proof. intros HA Hge. start HA. rewrite (a_nr _ _ _ _ _ _ _ _ HA). rewrite (proj2 (Nat.ltb_ge _ _) Hge). fin L HA. Qed.
Lemma e_help L rf nrv qhv mf tr d cq : Ag L rf nrv qhv cq mf (QE_help d cq) tr ->
  Ag (qstep n L (QLStep i)) rf nrv qhv (S cq) mf (QE_ldtail d) tr.
Proof. intros HA. start HA. rewrite (a_qt _ _ _ _ _ _ _ _ HA), Nat.eqb_refl. fin L HA. Qed.

Lemma is_idle_false s : s <> Idle -> is_idle s = false.
Proof. destruct s; auto. intros H. now elim H. Qed.

Definition ringpc (pc : qstate) (cq : nat) : Prop := (exists d, pc = QE_ring d cq) \/ pc = QD_ring1 cq \/ pc = QD_ring2 cq.

(* a step inside a ring call that does not finish it *)
Lemma ring_stay L rf nrv qhv qtv mf tr pc cq :
  Ag L rf nrv qhv qtv mf pc tr -> ringpc pc cq -> th (step n (rf cq) (LStep i)) i <> Idle ->
  Ag (qstep n L (QLStep i)) (updf rf cq (step n (rf cq) (LStep i))) nrv qhv qtv mf pc tr.
Proof.
  intros HA Hpc Hne. destruct Hpc as [(d & ->)|[-> | ->]]; start HA; unfold ring_step; rewrite (a_r _ _ _ _ _ _ _ _ HA cq), (is_idle_false _ Hne); fin L HA.
Qed.

(* the step that finishes the ring call *)
Lemma e_ring_ok L rf nrv qhv qtv mf tr d cq d' T :
  Ag L rf nrv qhv qtv mf (QE_ring d cq) tr ->
  th (step n (rf cq) (LStep i)) i = Idle -> last_ev (step n (rf cq) (LStep i)) = Some (EvEnq d' (Some T)) ->
  Ag (qstep n L (QLStep i)) (updf rf cq (step n (rf cq) (LStep i))) nrv qhv qtv mf QIdle (tr ++ [(i, QEnq d cq T)]).
Proof.
  intros HA Hid Hev. start HA. unfold ring_step. rewrite (a_r _ _ _ _ _ _ _ _ HA cq), Hid, Hev. cbn [is_idle]. fin L HA.
Qed.
Lemma e_ring_fail L rf nrv qhv qtv mf tr d cq d' :
  Ag L rf nrv qhv qtv mf (QE_ring d cq) tr ->
  th (step n (rf cq) (LStep i)) i = Idle -> last_ev (step n (rf cq) (LStep i)) = Some (EvEnq d' None) ->
  exists x, Ag (qstep n L (QLStep i)) (updf rf cq (step n (rf cq) (LStep i))) nrv qhv qtv mf (QE_close d cq x) tr.
Proof.
  intros HA Hid Hev. eexists. start HA. unfold ring_step. rewrite (a_r _ _ _ _ _ _ _ _ HA cq), Hid, Hev. cbn [is_idle]. fin L HA.
Qed.
Lemma e_close L rf nrv qhv qtv mf tr d cq x : Ag L rf nrv qhv qtv mf (QE_close d cq x) tr ->
  Ag (qstep n L (QLStep i)) (updf rf cq (step n (rf cq) LClose)) nrv qhv qtv mf (QE_lock d cq) tr.
Proof. intros HA. start HA. rewrite (a_r _ _ _ _ _ _ _ _ HA cq). fin L HA. Qed.
Lemma e_lock L rf nrv qhv qtv mf tr d cq : Ag L rf nrv qhv qtv mf (QE_lock d cq) tr -> mf cq = None ->
  Ag (qstep n L (QLStep i)) rf nrv qhv qtv (updf mf cq (Some i)) (QE_chk d cq) tr.
Proof. intros HA Hm. start HA. rewrite (a_mu _ _ _ _ _ _ _ _ HA cq), Hm. fin L HA. Qed.
Lemma e_chk L rf nrv qhv qtv mf tr d cq : Ag L rf nrv qhv qtv mf (QE_chk d cq) tr -> (nrv <= S cq)%nat ->
  Ag (qstep n L (QLStep i)) rf nrv qhv qtv mf (QE_alloc d cq) tr.
Proof. intros HA Hge. start HA. rewrite (a_nr _ _ _ _ _ _ _ _ HA). rewrite (proj2 (Nat.ltb_ge _ _) Hge). fin L HA. Qed.
Lemma e_alloc L rf nrv qhv qtv mf tr d cq : Ag L rf nrv qhv qtv mf (QE_alloc d cq) tr ->
  Ag (qstep n L (QLStep i)) rf nrv qhv qtv mf (QE_link d cq (fresh_with n i d)) tr.
Proof. intros HA. start HA. fin L HA. Qed.
Lemma e_link L rf qhv qtv mf tr d cq R : Ag L rf (S cq) qhv qtv mf (QE_link d cq R) tr ->
  Ag (qstep n L (QLStep i)) (updf rf (S cq) R) (S (S cq)) qhv qtv mf (QE_mvtail d cq) tr.
Proof. intros HA. start HA. rewrite (a_nr _ _ _ _ _ _ _ _ HA), Nat.eqb_refl. fin L HA. Qed.
Lemma e_mvtail L rf nrv qhv mf tr d cq : Ag L rf nrv qhv cq mf (QE_mvtail d cq) tr ->
  Ag (qstep n L (QLStep i)) rf nrv qhv (S cq) mf (QE_unlock_ret d cq) tr.
Proof. intros HA. start HA. rewrite (a_qt _ _ _ _ _ _ _ _ HA), Nat.eqb_refl. fin L HA. Qed.
Lemma e_unlock_ret L rf nrv qhv qtv mf tr d cq : Ag L rf nrv qhv qtv mf (QE_unlock_ret d cq) tr ->
  Ag (qstep n L (QLStep i)) rf nrv qhv qtv (updf mf cq None) QIdle (tr ++ [(i, QEnq d (S cq) n)]).
Proof. intros HA. start HA. fin L HA. Qed.

(* ---- Dequeue ---- *)
Lemma d_inv L rf nrv qhv qtv mf tr : Ag L rf nrv qhv qtv mf QIdle tr ->
  Ag (qstep n L (QLDeq i)) rf nrv qhv qtv mf QD_ldhead tr.
Proof. intros HA. start HA. fin L HA. Qed.
Lemma d_ldhead L rf nrv qhv qtv mf tr : Ag L rf nrv qhv qtv mf QD_ldhead tr ->
  Ag (qstep n L (QLStep i)) (updf rf qhv (step n (rf qhv) (LDeq i))) nrv qhv qtv mf (QD_ring1 qhv) tr.
Proof. intros HA. start HA. rewrite (a_qh _ _ _ _ _ _ _ _ HA), (a_r _ _ _ _ _ _ _ _ HA qhv). fin L HA. Qed.
Lemma d_ring_got L rf nrv qhv qtv mf tr pc cq H v :
  Ag L rf nrv qhv qtv mf pc tr -> (pc = QD_ring1 cq \/ pc = QD_ring2 cq) ->
  th (step n (rf cq) (LStep i)) i = Idle -> last_ev (step n (rf cq) (LStep i)) = Some (EvDeq (Some (H, v))) ->
  Ag (qstep n L (QLStep i)) (updf rf cq (step n (rf cq) (LStep i))) nrv qhv qtv mf QIdle (tr ++ [(i, QDeq (Some (cq, H, v)))]).
Proof.
  intros HA Hpc Hid Hev. destruct Hpc as [-> | ->]; start HA; unfold ring_step; rewrite (a_r _ _ _ _ _ _ _ _ HA cq), Hid, Hev; cbn [is_idle]; fin L HA.
Qed.
Lemma d_ring1_empty L rf nrv qhv qtv mf tr cq :
  Ag L rf nrv qhv qtv mf (QD_ring1 cq) tr ->
  th (step n (rf cq) (LStep i)) i = Idle -> last_ev (step n (rf cq) (LStep i)) = Some (EvDeq None) ->
  Ag (qstep n L (QLStep i)) (updf rf cq (step n (rf cq) (LStep i))) nrv qhv qtv mf (QD_ldnext cq) tr.
Proof.
  intros HA Hid Hev. start HA. unfold ring_step. rewrite (a_r _ _ _ _ _ _ _ _ HA cq), Hid, Hev. cbn [is_idle]. fin L HA.
Qed.
Lemma d_ring2_empty L rf nrv qhv qtv mf tr cq :
  Ag L rf nrv qhv qtv mf (QD_ring2 cq) tr ->
  th (step n (rf cq) (LStep i)) i = Idle -> last_ev (step n (rf cq) (LStep i)) = Some (EvDeq None) ->
  Ag (qstep n L (QLStep i)) (updf rf cq (step n (rf cq) (LStep i))) nrv qhv qtv mf (QD_cas cq) tr.
Proof.
  intros HA Hid Hev. start HA. unfold ring_step. rewrite (a_r _ _ _ _ _ _ _ _ HA cq), Hid, Hev. cbn [is_idle]. fin L HA.
Qed.
Lemma d_ldnext_none L rf nrv qhv qtv mf tr cq : Ag L rf nrv qhv qtv mf (QD_ldnext cq) tr -> (nrv <= S cq)%nat ->
  Ag (qstep n L (QLStep i)) rf nrv qhv qtv mf QIdle (tr ++ [(i, QDeq None)]).
Proof. intros HA Hge. start HA. rewrite (a_nr _ _ _ _ _ _ _ _ HA). rewrite (proj2 (Nat.ltb_ge _ _) Hge). fin L HA. Qed.
Lemma d_ldnext_more L rf nrv qhv qtv mf tr cq : Ag L rf nrv qhv qtv mf (QD_ldnext cq) tr -> (S cq < nrv)%nat ->
  Ag (qstep n L (QLStep i)) rf nrv qhv qtv mf (QD_reset cq) tr.
Proof. intros HA Hlt. start HA. rewrite (a_nr _ _ _ _ _ _ _ _ HA). rewrite (proj2 (Nat.ltb_lt _ _) Hlt). fin L HA. Qed.
Lemma d_reset L rf nrv qhv qtv mf tr cq : Ag L rf nrv qhv qtv mf (QD_reset cq) tr ->
  Ag (qstep n L (QLStep i)) (updf rf cq (step n (step n (rf cq) LResetThr) (LDeq i))) nrv qhv qtv mf (QD_ring2 cq) tr.
Proof. intros HA. start HA. rewrite (a_r _ _ _ _ _ _ _ _ HA cq). fin L HA. Qed.
Lemma d_cas L rf nrv qtv mf tr cq : Ag L rf nrv cq qtv mf (QD_cas cq) tr ->
  Ag (qstep n L (QLStep i)) rf nrv (S cq) qtv mf QD_ldhead tr.
Proof. intros HA. start HA. rewrite (a_qh _ _ _ _ _ _ _ _ HA), Nat.eqb_refl. fin L HA. Qed.

(* ------------------------------------------------------------------ running a ring call to its end *)
Lemma qrun_app L a b : qrun n L (a ++ b) = qrun n (qrun n L a) b.
Proof. unfold qrun. apply fold_left_app. Qed.
Lemma qrun_cons L l a : qrun n L (l :: a) = qrun n (qstep n L l) a.
Proof. reflexivity. Qed.

Lemma run_snoc st k : run n st (repeat (LStep i) (S k)) = run n (step n st (LStep i)) (repeat (LStep i) k).
Proof. reflexivity. Qed.

Lemma idle_dec (s : tstate) : {s = Idle} + {s <> Idle}.
Proof. destruct s; (now left) || (right; discriminate). Qed.

Lemma first_idle k : forall st, th st i <> Idle -> th (run n st (repeat (LStep i) k)) i = Idle ->
  exists m, (m < k)%nat /\ (forall j, (j <= m)%nat -> th (run n st (repeat (LStep i) j)) i <> Idle) /\
            th (run n st (repeat (LStep i) (S m))) i = Idle.
Proof.
  induction k as [|k IH]; intros st Hne Hid; [cbn in Hid; contradiction|].
  rewrite run_snoc in Hid. destruct (idle_dec (th (step n st (LStep i)) i)) as [E|E].
  - exists 0%nat. split; [lia|]. split; [intros j Hj; assert (j = 0%nat) by lia; subst; exact Hne|exact E].
  - destruct (IH _ E Hid) as (m & Hm & Hall & Hlast). exists (S m). split; [lia|]. split; [|rewrite run_snoc; exact Hlast].
    intros j Hj. destruct j as [|j]; [exact Hne|]. rewrite run_snoc. apply Hall. lia.
Qed.

(* an idle thread's steps only advance the clock *)
Lemma idle_steps k : forall st, th st i = Idle ->
  let st' := run n st (repeat (LStep i) k) in
  ring st' = ring st /\ hd st' = hd st /\ tl st' = tl st /\ closed st' = closed st /\ thr st' = thr st /\ th st' = th st /\ trace st' = trace st.
Proof.
  induction k as [|k IH]; intros st Hid; [cbn; repeat split; reflexivity|].
  cbv zeta. rewrite run_snoc.
  assert (E : step n st (LStep i) = tick st) by (unfold step, step0, tstep; now rewrite Hid).
  rewrite E. destruct (IH (tick st) Hid) as (H1 & H2 & H3 & H4 & H5 & H6 & H7). cbv zeta in *.
  rewrite H1, H2, H3, H4, H5, H6, H7. repeat split; reflexivity.
Qed.

Lemma ring_spin m : forall L rf nrv qhv qtv mf tr pc cq,
  Ag L rf nrv qhv qtv mf pc tr -> ringpc pc cq ->
  (forall j, (1 <= j <= m)%nat -> th (run n (rf cq) (repeat (LStep i) j)) i <> Idle) ->
  Ag (qrun n L (repeat (QLStep i) m)) (updf rf cq (run n (rf cq) (repeat (LStep i) m))) nrv qhv qtv mf pc tr.
Proof.
  induction m as [|m IH]; intros L rf nrv qhv qtv mf tr pc cq HA Hpc Hall.
  - cbn [repeat]. apply (ag_ext L rf _ nrv qhv qtv mf mf pc tr); auto.
    intros r. unfold updf. destruct (Nat.eqb_spec r cq); [now subst|reflexivity].
  - cbn [repeat]. rewrite qrun_cons.
    assert (H1 : th (step n (rf cq) (LStep i)) i <> Idle) by (apply (Hall 1%nat); lia).
    pose proof (ring_stay L rf nrv qhv qtv mf tr pc cq HA Hpc H1) as HA1.
    pose proof (IH _ _ _ _ _ _ _ _ cq HA1 Hpc) as HA2. rewrite updf_same in HA2.
    eapply ag_ext; [| |apply HA2].
    + intros r. unfold updf. destruct (Nat.eqb_spec r cq); reflexivity.
    + reflexivity.
    + intros j Hj. rewrite <- run_snoc. apply Hall. lia.
Qed.

Lemma last_ev_evs st tr0 j e : evs st = tr0 ++ [(j, e)] -> last_ev st = Some e.
Proof.
  unfold evs, last_ev. intros E.
  assert (E' : map (fun x : nat * Z * Z * event => (fst (fst (fst x)), snd x)) (rev (trace st)) = (j, e) :: rev tr0).
  { rewrite map_rev, E, rev_app_distr. reflexivity. }
  destruct (rev (trace st)) as [|[[[a b] c] ev] t]; [discriminate E'|]. cbn in E'. inversion E'. reflexivity.
Qed.

Lemma run_last st l m : run n st (repeat l (S m)) = step n (run n st (repeat l m)) l.
Proof. cbn [repeat]. rewrite repeat_cons. rewrite (ProofsScqTie.run_app n). reflexivity. Qed.

Notation Sim := (ProofsScqTie.Sim n cl).

(* a ring-level call that a solo run of k steps completes: the queue-level loop runs it up to the step that makes
   the thread idle; the ring then is the solo run's final ring up to the clock *)
Lemma ring_finish L rf nrv qhv qtv mf tr pc cq k st' e :
  Ag L rf nrv qhv qtv mf pc tr -> ringpc pc cq -> th (rf cq) i <> Idle ->
  run n (rf cq) (repeat (LStep i) k) = st' -> th st' i = Idle -> evs st' = evs (rf cq) ++ [(i, e)] ->
  exists m R1, Ag (qrun n L (repeat (QLStep i) m)) (updf rf cq R1) nrv qhv qtv mf pc tr /\
    let Rf := step n R1 (LStep i) in
    th Rf i = Idle /\ last_ev Rf = Some e /\
    ring Rf = ring st' /\ hd Rf = hd st' /\ tl Rf = tl st' /\ closed Rf = closed st' /\ thr Rf = thr st' /\ th Rf = th st'.
Proof.
  intros HA Hpc Hne Hrun Hid Hev. subst st'.
  destruct (first_idle k (rf cq) Hne Hid) as (m & Hm & Hall & Hlast).
  exists m, (run n (rf cq) (repeat (LStep i) m)). split.
  - apply ring_spin; auto. intros j Hj. apply Hall. lia.
  - cbv zeta. rewrite <- run_last.
    assert (Ek : repeat (LStep i) k = repeat (LStep i) (S m) ++ repeat (LStep i) (k - S m)) by (rewrite <- repeat_app; f_equal; lia).
    rewrite Ek, (ProofsScqTie.run_app n) in Hev |- *.
    destruct (idle_steps (k - S m) _ Hlast) as (H1 & H2 & H3 & H4 & H5 & H6 & H7). cbv zeta in *.
    split; [exact Hlast|]. split.
    + apply (last_ev_evs _ (evs (rf cq)) i). unfold evs in *. rewrite <- H7. exact Hev.
    + repeat split; auto.
Qed.

Lemma sim_close q st : Sim q st -> Sim (Model.set_closed Z q) (step n st LClose).
Proof. intros [S1 S2 S3 S4 S5 S6]. constructor; cbn; auto. Qed.
Lemma sim_reset q st : Sim q st -> Sim (Model.set_thr Z q (Model.thr_full n)) (step n st LResetThr).
Proof. intros [S1 S2 S3 S4 S5 S6]. constructor; cbn; auto. Qed.

(* the ring an enqueuer fills before linking it = the functional model's new ring *)
Lemma fresh_sim fuel d q1 b : Model.enq_loop Z 0 n cl fuel (Model.scq_init Z n) d = (q1, Some b) -> Sim q1 (fresh_with n i d).
Proof.
  intros El.
  assert (Hc : mcall n cl fuel (Model.scq_init Z n) (CEnq d) = (q1, Some (MEnq b))) by (cbn [mcall]; now rewrite El).
  destruct (solo_call n cl n_pos cl_pos cl_div fuel _ (init n) i (CEnq d) q1 _ (sim_init n cl) eq_refl Hc)
    as (k & st' & Hrun & HS & _ & Hid & _).
  cbn [label_of] in Hrun. rewrite (ProofsScqTie.run_cons n) in Hrun.
  rewrite fresh_is_run'. rewrite (ProofsScqTie.run_cons n).
  set (s0 := step n (init n) (LEnq i d)) in *.
  destruct (fresh_fields n n_pos 0%nat i d) as (_ & _ & _ & _ & Hfth & _). rewrite fresh_is_run', (ProofsScqTie.run_cons n) in Hfth. fold s0 in Hfth.
  destruct (Nat.le_ge_cases k 5) as [Hle|Hge].
  - assert (E5 : repeat (LStep i) 5 = repeat (LStep i) k ++ repeat (LStep i) (5 - k)) by (rewrite <- repeat_app; f_equal; lia).
    rewrite E5, (ProofsScqTie.run_app n), Hrun.
    destruct (idle_steps (5 - k) st' Hid) as (H1 & H2 & H3 & H4 & H5 & _). cbv zeta in *.
    apply (sim_ext n cl q1 st'); auto. intros r. now rewrite H1.
  - assert (Ek : repeat (LStep i) k = repeat (LStep i) 5 ++ repeat (LStep i) (k - 5)) by (rewrite <- repeat_app; f_equal; lia).
    rewrite Ek, (ProofsScqTie.run_app n) in Hrun.
    destruct (idle_steps (k - 5) (run n s0 (repeat (LStep i) 5)) (Hfth i)) as (H1 & H2 & H3 & H4 & H5 & _). cbv zeta in *. rewrite Hrun in *.
    apply (sim_ext n cl q1 st'); auto. intros r. now rewrite H1.
Qed.

(* ------------------------------------------------------------------ the simulation relation *)
Notation dflt := (Model.scq_init Z n).
Record LSim (M : Model.lscq Z) (rf : nat -> state) (nrv qhv qtv : nat) : Prop := {
  ls_len : nrv = (qhv + length (Model.rings M))%nat;
  ls_last : length (Model.rings M) = S (Model.ti M);
  ls_ti : qtv = (qhv + Model.ti M)%nat;
  ls_sim : forall k, (k < length (Model.rings M))%nat -> Sim (nth k (Model.rings M) dflt) (rf (qhv + k)%nat);
  ls_idle : forall r j, th (rf r) j = Idle
}.

Definition qev_ok (ev : qevent) (o : Model.out Z) : Prop :=
  match ev, o with
  | QEnq _ _ _, Model.OEnq true => True
  | QDeq (Some (_, _, x)), Model.ODeq (Some y) => x = y
  | QDeq None, Model.ODeq None => True
  | _, _ => False
  end.

Ltac shape := unfold tick, goto, ret, invoke, set_thr, set_closed;
  cbn [ring hd tl closed thr th wlog clog plog clk since trace].

(* entering a ring-level call *)
Lemma enter_facts st lab s0 : th st i = Idle -> (lab = LEnq i s0 \/ lab = LDeq i) ->
  let st1 := step n st lab in
  th st1 i <> Idle /\ evs st1 = evs st /\ (forall j, j <> i -> th st1 j = th st j).
Proof.
  intros Hid [-> | ->]; cbv zeta; unfold step, step0; rewrite Hid; shape; unfold evs; shape;
    (split; [rewrite updf_same; discriminate|]); (split; [reflexivity|]); intros j Hj; now apply updf_other.
Qed.

(* the common part of a ring-level call made from pc [pc0] (already inside the ring: th (rf cq) i is the entry state) *)
Lemma ring_call L rf nrv qhv qtv mf tr pc cq q' k st' e R0 :
  Ag L rf nrv qhv qtv mf pc tr -> ringpc pc cq ->
  th R0 i = Idle -> (forall j, th R0 j = Idle) ->
  (exists lab s0, (lab = LEnq i s0 \/ lab = LDeq i) /\ rf cq = step n R0 lab /\ run n R0 (lab :: repeat (LStep i) k) = st') ->
  Sim q' st' -> others R0 st' i -> th st' i = Idle -> evs st' = evs R0 ++ [(i, e)] ->
  exists m R1, Ag (qrun n L (repeat (QLStep i) m)) (updf rf cq R1) nrv qhv qtv mf pc tr /\
    let Rf := step n R1 (LStep i) in
    th Rf i = Idle /\ last_ev Rf = Some e /\ Sim q' Rf /\ (forall j, th Rf j = Idle) /\ closed Rf = closed st'.
Proof.
  intros HA Hpc Hid Hall (lab & s0 & Hlab & Hent & Hrun) HS Hoth Hid' Hev.
  destruct (enter_facts R0 lab s0 Hid Hlab) as (Hne & Hev1 & _). cbv zeta in *. rewrite <- Hent in *.
  rewrite (ProofsScqTie.run_cons n), <- Hent in Hrun.
  destruct (ring_finish L rf nrv qhv qtv mf tr pc cq k st' e HA Hpc Hne Hrun Hid' ltac:(rewrite Hev1; exact Hev))
    as (m & R1 & HA1 & Hf). cbv zeta in Hf. destruct Hf as (F1 & F2 & F3 & F4 & F5 & F6 & F7 & F8).
  exists m, R1. split; [exact HA1|]. cbv zeta. split; [exact F1|]. split; [exact F2|]. split.
  - apply (sim_ext n cl q' st'); auto. intros r. now rewrite F3.
  - split; [|exact F6]. intros j. rewrite F8. destruct (Nat.eq_dec j i) as [->|Hj]; [exact Hid'|]. rewrite (Hoth j Hj). apply Hall.
Qed.

Lemma mu_back cq r : updf (updf (fun _ : nat => @None nat) cq (Some i)) cq None r = None.
Proof. unfold updf. destruct (Nat.eqb_spec r cq); reflexivity. Qed.

(* ------------------------------------------------------------------ one Enqueue *)
Theorem enq_solo fuel k M d M' out L rf nrv qhv qtv tr :
  Ag L rf nrv qhv qtv (fun _ => None) QIdle tr -> LSim M rf nrv qhv qtv ->
  Model.lenq_loop Z 0 n cl fuel k M d = (M', out) -> out <> Model.OFuel ->
  exists m L' rf' nrv' qtv' ev,
    qrun n L (QLEnq i d :: repeat (QLStep i) m) = L' /\
    Ag L' rf' nrv' qhv qtv' (fun _ => None) QIdle (tr ++ [(i, ev)]) /\ LSim M' rf' nrv' qhv qtv' /\ qev_ok ev out.
Proof.
  intros HA HM Hl Hout. destruct k as [|k]; [cbn in Hl; inversion Hl; subst; contradiction|].
  cbn [Model.lenq_loop] in Hl. unfold Model.lenq_body in Hl.
  pose proof (ls_last _ _ _ _ _ HM) as Hlast. pose proof (ls_len _ _ _ _ _ HM) as Hlen. pose proof (ls_ti _ _ _ _ _ HM) as Hti.
  rewrite Hlast, Nat.ltb_irrefl in Hl.
  set (ti := Model.ti M) in *.
  assert (Ecq : exists cq, cq = qtv) by eauto. destruct Ecq as (cq & Ecq). rewrite <- Ecq in *.
  assert (Hnr : nrv = S cq) by lia.
  set (mq := nth ti (Model.rings M) dflt) in *.
  assert (HS0 : Sim mq (rf cq)) by (rewrite Hti; apply (ls_sim _ _ _ _ _ HM); lia).
  assert (Hidle0 := ls_idle _ _ _ _ _ HM).
  (* the three queue-level steps that reach the ring *)
  pose proof (e_inv L rf nrv qhv cq _ tr d HA) as A0.
  pose proof (e_ldtail _ rf nrv qhv cq _ tr d A0) as A1.
  pose proof (e_ldnext_enter _ rf nrv qhv cq _ tr d cq A1 ltac:(lia)) as A2.
  set (L2 := qstep n (qstep n (qstep n L (QLEnq i d)) (QLStep i)) (QLStep i)) in *.
  set (rf2 := updf rf cq (step n (rf cq) (LEnq i d))) in *.
  destruct (Model.enq_loop Z 0 n cl fuel mq d) as [mq' [b|]] eqn:El.
  2:{ inversion Hl; subst. contradiction. }
  assert (Hc : mcall n cl fuel mq (CEnq d) = (mq', Some (MEnq b))) by (cbn [mcall]; now rewrite El).
  destruct (solo_call n cl n_pos cl_pos cl_div fuel mq (rf cq) i (CEnq d) mq' _ HS0 (Hidle0 cq i) Hc)
    as (k0 & st' & Hrun & HS' & Hoth & Hid' & e & Hev & Hok).
  cbn [label_of] in Hrun.
  destruct (ring_call L2 rf2 nrv qhv cq _ tr (QE_ring d cq) cq mq' k0 st' e (rf cq) A2 ltac:(left; eauto) (Hidle0 cq i) (Hidle0 cq))
    as (m & R1 & A3 & Hf); auto.
  { exists (LEnq i d), d. split; [now left|]. split; [unfold rf2; now rewrite updf_same|exact Hrun]. }
  cbv zeta in Hf. destruct Hf as (F1 & F2 & F3 & F4 & F5).
  set (L3 := qrun n L2 (repeat (QLStep i) m)) in *. set (Rf := step n R1 (LStep i)) in *.
  assert (Erf3 : updf rf2 cq R1 cq = R1) by apply updf_same.
  destruct e as [d' r|r]; cbn [ev_ok] in Hok; [|destruct r as [[? ?]|]; contradiction].
  destruct b.
  - (* the ring accepted the value *)
    destruct r as [T|]; [|exfalso; apply (proj1 Hok eq_refl); reflexivity].
    inversion Hl; subst M' out. clear Hl.
    pose proof (e_ring_ok L3 (updf rf2 cq R1) nrv qhv cq _ tr d cq d' T A3) as A4. rewrite Erf3 in A4. specialize (A4 F1 F2).
    exists (2 + (m + 1))%nat, (qstep n L3 (QLStep i)), (updf rf cq Rf), nrv, cq, (QEnq d cq T).
    split.
    { rewrite qrun_cons. cbn [Nat.add repeat]. rewrite !qrun_cons. fold L2. rewrite repeat_app, qrun_app. fold L3. reflexivity. }
    split.
    { eapply ag_ext; [| |exact A4]; [|reflexivity]. intros r. unfold rf2, updf. destruct (Nat.eqb_spec r cq); reflexivity. }
    split; [|exact I].
    constructor; cbn [Model.rings Model.ti].
    + rewrite upd_length. exact Hlen.
    + rewrite upd_length. exact Hlast.
    + exact Hti.
    + intros j Hj. rewrite upd_length in Hj. unfold updf. destruct (Nat.eq_dec j ti) as [->|Hne].
      * rewrite nth_upd_same by lia. replace (qhv + ti)%nat with cq by lia. now rewrite Nat.eqb_refl.
      * rewrite nth_upd_other by auto. destruct (Nat.eqb_spec (qhv + j) cq) as [E|_]; [lia|].
        apply (ls_sim _ _ _ _ _ HM). exact Hj.
    + intros r j. unfold updf. destruct (Nat.eqb_spec r cq); [apply F4|apply Hidle0].
  - (* the ring is full: close it, fill a new ring, link it, move the tail *)
    destruct r as [T|]; [exfalso; assert (false = true) by (apply (proj2 Hok); discriminate); discriminate|].
    inversion Hl; subst M' out. clear Hl.
    destruct (e_ring_fail L3 (updf rf2 cq R1) nrv qhv cq _ tr d cq d' A3) as (x & A4); [now rewrite Erf3|now rewrite Erf3|]. rewrite Erf3 in A4.
    set (L4 := qstep n L3 (QLStep i)) in *. set (rf4 := updf (updf rf2 cq R1) cq Rf) in *.
    assert (Erf4 : rf4 cq = Rf) by apply updf_same.
    pose proof (e_close L4 rf4 nrv qhv cq _ tr d cq x A4) as A5. rewrite Erf4 in A5.
    set (Rc := step n Rf LClose) in *. set (rf5 := updf rf4 cq Rc) in *.
    pose proof (e_lock _ rf5 nrv qhv cq _ tr d cq A5 eq_refl) as A6.
    pose proof (e_chk _ rf5 nrv qhv cq _ tr d cq A6 ltac:(lia)) as A7.
    pose proof (e_alloc _ rf5 nrv qhv cq _ tr d cq A7) as A8.
    rewrite Hnr in A8. pose proof (e_link _ rf5 qhv cq _ tr d cq _ A8) as A9.
    pose proof (e_mvtail _ _ _ qhv _ tr d cq A9) as A10.
    pose proof (e_unlock_ret _ _ _ qhv _ _ tr d cq A10) as A11.
    set (rf6 := updf rf5 (S cq) (fresh_with n i d)) in *.
    eexists (2 + (m + 8))%nat, _, rf6, (S (S cq)), (S cq), (QEnq d (S cq) n).
    split.
    { rewrite qrun_cons. cbn [Nat.add repeat]. rewrite !qrun_cons. fold L2. rewrite repeat_app, qrun_app. fold L3. cbn [repeat]. rewrite !qrun_cons. reflexivity. }
    split.
    { eapply ag_ext; [| |exact A11]; [reflexivity|]. intros r. apply mu_back. }
    split; [|exact I].
    assert (Hfuel : exists q1, Model.enq_loop Z 0 n cl fuel dflt d = (q1, Some true)).
    { destruct fuel as [|f]; [discriminate El|]. cbn [Model.enq_loop].
      destruct (Proofs_Ring.enq_ok Z 0 n cl n_pos cl_pos cl_div dflt [] d (Proofs_Ring.init_inv Z 0 n cl n_pos) ltac:(cbn; lia)) as (q1 & E1 & _).
      rewrite E1. eauto. }
    destruct Hfuel as (q1 & Eq1). rewrite Eq1. cbn [fst].
    assert (Hrc : forall r, r <> cq -> r <> S cq -> rf6 r = rf r).
    { intros r H1 H2. unfold rf6, rf5, rf4, rf2, updf. destruct (Nat.eqb_spec r (S cq)); [contradiction|]. destruct (Nat.eqb_spec r cq); [contradiction|reflexivity]. }
    assert (Hr1 : rf6 cq = Rc).
    { unfold rf6, rf5, updf. destruct (Nat.eqb_spec cq (S cq)); [lia|]. now rewrite Nat.eqb_refl. }
    assert (Hr2 : rf6 (S cq) = fresh_with n i d) by (unfold rf6; apply updf_same).
    constructor; cbn [Model.rings Model.ti].
    + rewrite app_length, upd_length. cbn [length]. lia.
    + rewrite app_length, upd_length. cbn [length]. lia.
    + lia.
    + intros j Hj. rewrite app_length, upd_length in Hj. cbn [length] in Hj.
      destruct (Nat.eq_dec j (S ti)) as [->|Hne1].
      * rewrite app_nth2 by (rewrite upd_length; lia). rewrite upd_length, Hlast, Nat.sub_diag. cbn [nth].
        replace (qhv + S ti)%nat with (S cq) by lia. rewrite Hr2. exact (fresh_sim fuel d q1 true Eq1).
      * rewrite app_nth1 by (rewrite upd_length; lia). destruct (Nat.eq_dec j ti) as [->|Hne2].
        -- rewrite nth_upd_same by lia. replace (qhv + ti)%nat with cq by lia. rewrite Hr1. apply sim_close. exact F3.
        -- rewrite nth_upd_other by auto. rewrite Hrc by lia. apply (ls_sim _ _ _ _ _ HM). lia.
    + intros r j. destruct (Nat.eq_dec r cq) as [->|H1]; [rewrite Hr1; apply F4|].
      destruct (Nat.eq_dec r (S cq)) as [->|H2]; [rewrite Hr2; destruct (fresh_fields n n_pos 0%nat i d) as (_ & _ & _ & _ & Hth & _); apply Hth|].
      rewrite Hrc by auto. apply Hidle0.
Qed.

(* ------------------------------------------------------------------ one Dequeue *)
Definition Reach (L : lstate) (m : nat) (L' : lstate) : Prop := qrun n L (repeat (QLStep i) m) = L'.
Lemma reach_1 L : Reach L 1 (qstep n L (QLStep i)).
Proof. reflexivity. Qed.
Lemma reach_trans L a L1 b L2 : Reach L a L1 -> Reach L1 b L2 -> Reach L (a + b) L2.
Proof. unfold Reach. intros <- <-. now rewrite repeat_app, qrun_app. Qed.

Lemma reset_idle st j : th (step n st LResetThr) j = th st j.
Proof. reflexivity. Qed.

Theorem deq_solo fuel : forall k M M' out L rf nrv qhv qtv tr,
  Ag L rf nrv qhv qtv (fun _ => None) QD_ldhead tr -> LSim M rf nrv qhv qtv ->
  Model.ldeq_loop Z 0 n cl fuel k M = (M', out) -> out <> Model.OFuel ->
  exists m L' rf' qhv' ev,
    Reach L m L' /\ Ag L' rf' nrv qhv' qtv (fun _ => None) QIdle (tr ++ [(i, ev)]) /\ LSim M' rf' nrv qhv' qtv /\ qev_ok ev out.
Proof.
  induction k as [|k IH]; intros M M' out L rf nrv qhv qtv tr HA HM Hl Hout; [cbn in Hl; inversion Hl; subst; contradiction|].
  cbn [Model.ldeq_loop] in Hl. unfold Model.ldeq_body in Hl.
  pose proof (ls_last _ _ _ _ _ HM) as Hlast. pose proof (ls_len _ _ _ _ _ HM) as Hlen. pose proof (ls_ti _ _ _ _ _ HM) as Hti.
  assert (Hidle0 := ls_idle _ _ _ _ _ HM).
  destruct (Model.rings M) as [|mq rest] eqn:Er; [discriminate Hlast|]. cbn [length] in Hlast, Hlen.
  assert (HS0 : Sim mq (rf qhv)).
  { pose proof (ls_sim _ _ _ _ _ HM 0%nat) as H0. rewrite Er in H0. cbn [length nth] in H0. rewrite Nat.add_0_r in H0. apply H0. lia. }
  pose proof (d_ldhead L rf nrv qhv qtv _ tr HA) as A1.
  set (L1 := qstep n L (QLStep i)) in *. set (rf1 := updf rf qhv (step n (rf qhv) (LDeq i))) in *.
  destruct (Model.scq_dequeue Z 0 n cl fuel mq) as [mq1 res] eqn:Ed.
  assert (Hsimrest : forall rfx, (forall r, r <> qhv -> rfx r = rf r) -> forall j, (j < length rest)%nat -> Sim (nth j rest dflt) (rfx (qhv + S j)%nat)).
  { intros rfx Hx j Hj. rewrite Hx by lia. pose proof (ls_sim _ _ _ _ _ HM (S j)) as H0. rewrite Er in H0. cbn [length nth] in H0. apply H0. lia. }
  destruct res as [x| |].
  - (* first ring-level Dequeue got a value *)
    inversion Hl; subst M' out. clear Hl.
    assert (Hc : mcall n cl fuel mq CDeq = (mq1, Some (MDeq (Some x)))) by (cbn [mcall]; now rewrite Ed).
    destruct (solo_call n cl n_pos cl_pos cl_div fuel mq (rf qhv) i CDeq mq1 _ HS0 (Hidle0 qhv i) Hc)
      as (k0 & st' & Hrun & HS' & Hoth & Hid' & e & Hev & Hok).
    cbn [label_of] in Hrun.
    destruct (ring_call L1 rf1 nrv qhv qtv _ tr (QD_ring1 qhv) qhv mq1 k0 st' e (rf qhv) A1 ltac:(right; now left) (Hidle0 qhv i) (Hidle0 qhv))
      as (m & R1 & A2 & Hf); auto.
    { exists (LDeq i), 0. split; [now right|]. split; [unfold rf1; now rewrite updf_same|exact Hrun]. }
    cbv zeta in Hf. destruct Hf as (F1 & F2 & F3 & F4 & F5).
    destruct e as [d' r|[[H x']|]]; cbn [ev_ok] in Hok; try contradiction. subst x'.
    pose proof (d_ring_got _ (updf rf1 qhv R1) nrv qhv qtv _ tr (QD_ring1 qhv) qhv H x A2 (or_introl eq_refl)) as A3.
    rewrite updf_same in A3. specialize (A3 F1 F2).
    eexists (1 + (m + 1))%nat, _, (updf rf qhv (step n R1 (LStep i))), qhv, (QDeq (Some (qhv, H, x))).
    split; [eapply reach_trans; [apply reach_1|eapply reach_trans; [reflexivity|apply reach_1]]|].
    split.
    { eapply ag_ext; [| |exact A3]; [|reflexivity]. intros r. unfold rf1, updf. destruct (Nat.eqb_spec r qhv); reflexivity. }
    split; [|reflexivity].
    constructor; cbn [Model.rings Model.ti length]; auto.
    + intros j Hj. destruct j as [|j]; cbn [nth].
      * rewrite Nat.add_0_r, updf_same. exact F3.
      * apply Hsimrest; [|lia]. intros r Hr. now apply updf_other.
    + intros r j. unfold updf. destruct (Nat.eqb_spec r qhv); [apply F4|apply Hidle0].
  - (* first ring-level Dequeue found the ring empty *)
    assert (Hc : mcall n cl fuel mq CDeq = (mq1, Some (MDeq None))) by (cbn [mcall]; now rewrite Ed).
    destruct (solo_call n cl n_pos cl_pos cl_div fuel mq (rf qhv) i CDeq mq1 _ HS0 (Hidle0 qhv i) Hc)
      as (k0 & st' & Hrun & HS' & Hoth & Hid' & e & Hev & Hok).
    cbn [label_of] in Hrun.
    destruct (ring_call L1 rf1 nrv qhv qtv _ tr (QD_ring1 qhv) qhv mq1 k0 st' e (rf qhv) A1 ltac:(right; now left) (Hidle0 qhv i) (Hidle0 qhv))
      as (m & R1 & A2 & Hf); auto.
    { exists (LDeq i), 0. split; [now right|]. split; [unfold rf1; now rewrite updf_same|exact Hrun]. }
    cbv zeta in Hf. destruct Hf as (F1 & F2 & F3 & F4 & F5).
    destruct e as [d' r|[[H x']|]]; cbn [ev_ok] in Hok; try contradiction.
    pose proof (d_ring1_empty _ (updf rf1 qhv R1) nrv qhv qtv _ tr qhv A2) as A3. rewrite updf_same in A3. specialize (A3 F1 F2).
    set (Rf1 := step n R1 (LStep i)) in *. set (rf3 := updf (updf rf1 qhv R1) qhv Rf1) in *.
    assert (Erf3 : rf3 qhv = Rf1) by apply updf_same.
    assert (Orf3 : forall r, r <> qhv -> rf3 r = rf r).
    { intros r Hr. unfold rf3, rf1. now rewrite !updf_other. }
    assert (Hre3 : Reach L (1 + (m + 1)) (qstep n (qrun n L1 (repeat (QLStep i) m)) (QLStep i))).
    { eapply reach_trans; [apply reach_1|eapply reach_trans; [reflexivity|apply reach_1]]. }
    set (L3 := qstep n (qrun n L1 (repeat (QLStep i) m)) (QLStep i)) in *.
    destruct rest as [|mq2 rest'].
    + (* no further ring: the queue is empty *)
      inversion Hl; subst M' out. clear Hl. cbn [length] in *.
      pose proof (d_ldnext_none L3 rf3 nrv qhv qtv _ tr qhv A3 ltac:(lia)) as A4.
      eexists (1 + (m + 1) + 1)%nat, _, rf3, qhv, (QDeq None).
      split; [eapply reach_trans; [exact Hre3|apply reach_1]|]. split; [exact A4|]. split; [|exact I].
      constructor; cbn [Model.rings Model.ti length]; auto.
      * intros j Hj. assert (j = 0%nat) by lia. subst j. cbn [nth]. rewrite Nat.add_0_r, Erf3. exact F3.
      * intros r j. destruct (Nat.eq_dec r qhv) as [->|Hr]; [rewrite Erf3; apply F4|rewrite Orf3 by auto; apply Hidle0].
    + (* a next ring exists: reset the threshold and look once more *)
      cbn [length] in *.
      pose proof (d_ldnext_more L3 rf3 nrv qhv qtv _ tr qhv A3 ltac:(lia)) as A4.
      pose proof (d_reset _ rf3 nrv qhv qtv _ tr qhv A4) as A5. rewrite Erf3 in A5.
      set (Rm := step n Rf1 LResetThr) in *. set (rf5 := updf rf3 qhv (step n Rm (LDeq i))) in *.
      set (L5 := qstep n (qstep n L3 (QLStep i)) (QLStep i)) in *.
      assert (Hre5 : Reach L (1 + (m + 1) + 2) L5).
      { eapply reach_trans; [exact Hre3|]. unfold Reach, L5. reflexivity. }
      assert (HSm : Sim (Model.set_thr Z mq1 (Model.thr_full n)) Rm) by (apply sim_reset; exact F3).
      assert (Hidm : forall j, th Rm j = Idle) by (intros j; unfold Rm; rewrite reset_idle; apply F4).
      destruct (Model.scq_dequeue Z 0 n cl fuel (Model.set_thr Z mq1 (Model.thr_full n))) as [mq3 res2] eqn:Ed2.
      destruct res2 as [x| |].
      * (* second look got a value *)
        inversion Hl; subst M' out. clear Hl.
        assert (Hc2 : mcall n cl fuel (Model.set_thr Z mq1 (Model.thr_full n)) CDeq = (mq3, Some (MDeq (Some x)))) by (cbn [mcall]; now rewrite Ed2).
        destruct (solo_call n cl n_pos cl_pos cl_div fuel _ Rm i CDeq mq3 _ HSm (Hidm i) Hc2)
          as (k2 & st2 & Hrun2 & HS2 & Hoth2 & Hid2 & e2 & Hev2 & Hok2).
        cbn [label_of] in Hrun2.
        destruct (ring_call L5 rf5 nrv qhv qtv _ tr (QD_ring2 qhv) qhv mq3 k2 st2 e2 Rm A5 ltac:(right; now right) (Hidm i) Hidm)
          as (m2 & R2 & A6 & Hf2); auto.
        { exists (LDeq i), 0. split; [now right|]. split; [unfold rf5; now rewrite updf_same|exact Hrun2]. }
        cbv zeta in Hf2. destruct Hf2 as (G1 & G2 & G3 & G4 & G5).
        destruct e2 as [d' r|[[H x']|]]; cbn [ev_ok] in Hok2; try contradiction. subst x'.
        pose proof (d_ring_got _ (updf rf5 qhv R2) nrv qhv qtv _ tr (QD_ring2 qhv) qhv H x A6 (or_intror eq_refl)) as A7.
        rewrite updf_same in A7. specialize (A7 G1 G2).
        eexists (1 + (m + 1) + 2 + (m2 + 1))%nat, _, (updf rf qhv (step n R2 (LStep i))), qhv, (QDeq (Some (qhv, H, x))).
        split; [eapply reach_trans; [exact Hre5|eapply reach_trans; [reflexivity|apply reach_1]]|].
        split.
        { eapply ag_ext; [| |exact A7]; [|reflexivity]. intros r. unfold rf5, rf3, rf1, updf. destruct (Nat.eqb_spec r qhv); reflexivity. }
        split; [|reflexivity].
        constructor; cbn [Model.rings Model.ti length]; auto.
        -- intros j Hj. destruct j as [|j]; cbn [nth].
           ++ rewrite Nat.add_0_r, updf_same. exact G3.
           ++ apply (Hsimrest (updf rf qhv (step n R2 (LStep i)))); [|cbn [length]; lia]. intros r Hr. now apply updf_other.
        -- intros r j. unfold updf. destruct (Nat.eqb_spec r qhv); [apply G4|apply Hidle0].
      * (* second look found it empty again: move the head to the next ring and start over *)
        assert (Hc2 : mcall n cl fuel (Model.set_thr Z mq1 (Model.thr_full n)) CDeq = (mq3, Some (MDeq None))) by (cbn [mcall]; now rewrite Ed2).
        destruct (solo_call n cl n_pos cl_pos cl_div fuel _ Rm i CDeq mq3 _ HSm (Hidm i) Hc2)
          as (k2 & st2 & Hrun2 & HS2 & Hoth2 & Hid2 & e2 & Hev2 & Hok2).
        cbn [label_of] in Hrun2.
        destruct (ring_call L5 rf5 nrv qhv qtv _ tr (QD_ring2 qhv) qhv mq3 k2 st2 e2 Rm A5 ltac:(right; now right) (Hidm i) Hidm)
          as (m2 & R2 & A6 & Hf2); auto.
        { exists (LDeq i), 0. split; [now right|]. split; [unfold rf5; now rewrite updf_same|exact Hrun2]. }
        cbv zeta in Hf2. destruct Hf2 as (G1 & G2 & G3 & G4 & G5).
        destruct e2 as [d' r|[[H x']|]]; cbn [ev_ok] in Hok2; try contradiction.
        pose proof (d_ring2_empty _ (updf rf5 qhv R2) nrv qhv qtv _ tr qhv A6) as A7. rewrite updf_same in A7. specialize (A7 G1 G2).
        pose proof (d_cas _ _ nrv qtv _ tr qhv A7) as A8.
        set (rf7 := updf (updf rf5 qhv R2) qhv (step n R2 (LStep i))) in *.
        assert (Orf7 : forall r, r <> qhv -> rf7 r = rf r).
        { intros r Hr. unfold rf7, rf5. rewrite !updf_other by auto. now apply Orf3. }
        set (L8 := qstep n (qstep n (qrun n L5 (repeat (QLStep i) m2)) (QLStep i)) (QLStep i)) in *.
        assert (Hre8 : Reach L (1 + (m + 1) + 2 + (m2 + 2)) L8).
        { eapply reach_trans; [exact Hre5|eapply reach_trans; [reflexivity|]]. unfold Reach, L8. reflexivity. }
        assert (HM1 : LSim {| Model.rings := mq2 :: rest'; Model.ti := pred (Model.ti M) |} rf7 nrv (S qhv) qtv).
        { constructor; cbn [Model.rings Model.ti length].
          - lia.
          - lia.
          - lia.
          - intros j Hj. replace (S qhv + j)%nat with (qhv + S j)%nat by lia. apply (Hsimrest rf7 Orf7). cbn [length]. lia.
          - intros r j. destruct (Nat.eq_dec r qhv) as [->|Hr]; [unfold rf7; rewrite updf_same; apply G4|rewrite Orf7 by auto; apply Hidle0]. }
        destruct (IH _ _ _ L8 rf7 nrv (S qhv) qtv tr A8 HM1 Hl Hout) as (m3 & L' & rf' & qhv' & ev & Hre & HA' & HM' & Hok').
        exists (1 + (m + 1) + 2 + (m2 + 2) + m3)%nat, L', rf', qhv', ev.
        split; [eapply reach_trans; [exact Hre8|exact Hre]|]. auto.
      * inversion Hl; subst. contradiction.
  - inversion Hl; subst. contradiction.
Qed.

(* ------------------------------------------------------------------ one call, then every sequence of calls *)
Definition qlabel_of (o : Model.op Z) : qlabel := match o with Model.Enq d => QLEnq i d | Model.Deq => QLDeq i end.

Theorem lsolo_call fuel M o M' out L rf nrv qhv qtv tr :
  Ag L rf nrv qhv qtv (fun _ => None) QIdle tr -> LSim M rf nrv qhv qtv ->
  Model.lscq_step Z 0 n cl fuel M o = (M', out) -> out <> Model.OFuel ->
  exists m L' rf' nrv' qhv' qtv' ev,
    qrun n L (qlabel_of o :: repeat (QLStep i) m) = L' /\
    Ag L' rf' nrv' qhv' qtv' (fun _ => None) QIdle (tr ++ [(i, ev)]) /\ LSim M' rf' nrv' qhv' qtv' /\ qev_ok ev out.
Proof.
  intros HA HM Hs Hout. destruct o as [d|]; cbn [Model.lscq_step qlabel_of] in *.
  - destruct (enq_solo fuel fuel M d M' out L rf nrv qhv qtv tr HA HM Hs Hout) as (m & L' & rf' & nrv' & qtv' & ev & H1 & H2 & H3 & H4).
    exists m, L', rf', nrv', qhv, qtv', ev. auto.
  - pose proof (d_inv L rf nrv qhv qtv _ tr HA) as A0.
    destruct (deq_solo fuel fuel M M' out _ rf nrv qhv qtv tr A0 HM Hs Hout) as (m & L' & rf' & qhv' & ev & H1 & H2 & H3 & H4).
    exists m, L', rf', nrv, qhv', qtv, ev. split; [rewrite qrun_cons; exact H1|auto].
Qed.

Definition is_fuel (o : Model.out Z) : bool := match o with Model.OFuel => true | _ => false end.
Fixpoint lmseq (fuel : nat) (M : Model.lscq Z) (ops : list (Model.op Z)) : option (Model.lscq Z * list (Model.out Z)) :=
  match ops with
  | [] => Some (M, [])
  | o :: t =>
      let (M1, out) := Model.lscq_step Z 0 n cl fuel M o in
      if is_fuel out then None
      else match lmseq fuel M1 t with Some (M', outs) => Some (M', out :: outs) | None => None end
  end.
Definition qsolo_label (l : qlabel) : Prop := l = QLStep i \/ exists o, l = qlabel_of o.

Theorem lsolo_run_from fuel ops : forall M M' outs L rf nrv qhv qtv tr,
  Ag L rf nrv qhv qtv (fun _ => None) QIdle tr -> LSim M rf nrv qhv qtv ->
  lmseq fuel M ops = Some (M', outs) ->
  exists sched L' rf' nrv' qhv' qtv' es,
    qrun n L sched = L' /\ Forall qsolo_label sched /\
    Ag L' rf' nrv' qhv' qtv' (fun _ => None) QIdle (tr ++ es) /\ LSim M' rf' nrv' qhv' qtv' /\
    Forall2 qev_ok (map snd es) outs.
Proof.
  induction ops as [|o ops IH]; intros M M' outs L rf nrv qhv qtv tr HA HM Hs.
  - cbn in Hs. inversion Hs; subst. exists [], L, rf, nrv, qhv, qtv, []. rewrite app_nil_r. split; [reflexivity|]. split; [constructor|]. split; [exact HA|]. split; [exact HM|constructor].
  - cbn [lmseq] in Hs. destruct (Model.lscq_step Z 0 n cl fuel M o) as [M1 out] eqn:E1.
    destruct (is_fuel out) eqn:Ef; [discriminate Hs|].
    destruct (lmseq fuel M1 ops) as [[M2 outs2]|] eqn:E2; [|discriminate Hs]. inversion Hs; subst M2 outs. clear Hs.
    assert (Hout : out <> Model.OFuel) by (intros ->; discriminate Ef).
    destruct (lsolo_call fuel M o M1 out L rf nrv qhv qtv tr HA HM E1 Hout) as (m & L1 & rf1 & nrv1 & qhv1 & qtv1 & ev & R1 & A1 & S1 & O1).
    destruct (IH M1 M' outs2 L1 rf1 nrv1 qhv1 qtv1 _ A1 S1 E2) as (sched & L' & rf' & nrv' & qhv' & qtv' & es & R2 & F2 & A2 & S2 & O2).
    exists ((qlabel_of o :: repeat (QLStep i) m) ++ sched), L', rf', nrv', qhv', qtv', ((i, ev) :: es).
    split; [rewrite qrun_app, R1; exact R2|]. split.
    { apply Forall_app. split; [|exact F2]. constructor; [right; eauto|]. apply Forall_forall. intros l Hl. apply repeat_spec in Hl. now left. }
    split; [rewrite <- app_assoc in A2; exact A2|]. split; [exact S2|]. cbn [map snd]. constructor; auto.
Qed.

Theorem lsolo_run fuel ops M' outs :
  lmseq fuel (Model.lscq_init Z n) ops = Some (M', outs) ->
  exists sched L' rf nrv qhv qtv es,
    qrun n (linit n) sched = L' /\ Forall qsolo_label sched /\
    Ag L' rf nrv qhv qtv (fun _ => None) QIdle es /\ LSim M' rf nrv qhv qtv /\ Forall2 qev_ok (map snd es) outs.
Proof.
  intros Hs.
  assert (HA : Ag (linit n) (fun _ => init n) 1 0 0 (fun _ => None) QIdle []) by (constructor; reflexivity).
  assert (HM : LSim (Model.lscq_init Z n) (fun _ => init n) 1 0 0).
  { constructor; cbn; auto. intros k Hk. assert (k = 0%nat) by lia. subst. cbn. apply sim_init. }
  exact (lsolo_run_from fuel ops _ _ _ _ _ _ _ _ _ HA HM Hs).
Qed.

End Tie.
