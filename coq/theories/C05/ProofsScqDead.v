(* C05 - ring-level facts the LSCQ layer needs: what one ring step does to the targets (tickets held by enqueuers in
   flight or written and not dequeued), how a ring-level call reports its result, and when a closed ring is DEAD
   (no target at or above its head: nothing can ever be added to or found in it beyond what pending dequeuers hold). *)
From Coq Require Import ZArith List Bool Lia Arith.
Import ListNotations.
From VF Require Import C05.Scq C05.ScqAux C05.ProofsScqInv C05.ProofsScqCount C05.ProofsScqThr C05.ProofsScqThr2 C05.ProofsScqEmpty.
Open Scope Z_scope.

Definition dead (st : state) : Prop := forall T, hd st <= T -> ~ tgt st T.
Definition d5inv (st : state) : Prop := forall i H, th st i = D5 H -> H < hd st.

Definition enq_pc (d : Z) (s : tstate) : Prop :=
  match s with E1 d' | E2 d' _ | E3 d' _ _ | E4 d' _ _ | E5 d' _ | E6 d' _ | E7 d' _ => d' = d | _ => False end.
Definition is_idle_b (s : tstate) : bool := match s with Idle => true | _ => false end.
Definition deq_pc (s : tstate) : Prop :=
  match s with D0 | D1 | D2 _ | D3a _ _ | D3b _ _ | D4 _ _ | D5 _ | D7 _ | F1 _ | F2 _ _ | F3 _ _ _ | F4 => True | _ => False end.

Section Dead.
Variable n : Z.
Hypothesis Hn : 1 <= n.

Ltac shape := unfold tick, goto, ret, invoke, set_tl, set_hd, set_thr, set_ring, add_w, add_c, add_p, set_closed;
  cbn [ring hd tl closed thr th wlog clog plog clk since trace].

(* what one step of thread i does to the logs and to its own hold *)
Lemma tstep_logs st i :
  let st' := tick (tstep n st i) in
  closed st' = closed st /\
  (forall T, hold (th st' i) = Some T -> hold (th st i) = Some T \/ (exists d, th st i = E1 d /\ closed st = false /\ T = tl st)) /\
  (wlog st' = wlog st \/ exists d T e, th st i = E4 d T e /\ wlog st' = (T, d) :: wlog st) /\
  incl (clog st) (clog st').
Proof.
  cbv zeta. unfold tstep.
  destruct (th st i) eqn:Ht.
  - shape. rewrite Ht. split; [reflexivity|]. split; [intros T E; cbn in E; discriminate E|]. split; [now left|apply incl_refl].
  - unfold do_E1. destruct (closed st) eqn:Ec; shape; rewrite updf_same; repeat split; auto; try apply incl_refl;
      intros T E; cbn in E; try discriminate E. right. exists d. inversion E. auto.
  - unfold do_E2. destruct (_ && _); [destruct (safe _)|]; shape; rewrite updf_same; repeat split; auto; apply incl_refl.
  - unfold do_E3. destruct (_ <=? _); shape; rewrite updf_same; repeat split; auto; apply incl_refl.
  - unfold do_E4. destruct (entry_eqb _ _); shape; rewrite updf_same; repeat split; auto; try apply incl_refl.
    + intros T0 E; cbn in E; discriminate E.
    + right. eauto.
  - unfold do_E5. destruct (_ <=? _); shape; rewrite updf_same; repeat split; auto; try apply incl_refl; intros T0 E; cbn in E; discriminate E.
  - unfold do_E6. destruct (_ =? _); shape; rewrite updf_same; repeat split; auto; apply incl_refl.
  - unfold do_E7. shape; rewrite updf_same; repeat split; auto; apply incl_refl.
  - unfold do_D0. destruct (_ <? _); shape; rewrite updf_same; repeat split; auto; apply incl_refl.
  - unfold do_D1. shape; rewrite updf_same; repeat split; auto; apply incl_refl.
  - unfold do_D2. destruct (_ =? _); [|destruct (_ <? _)]; shape; rewrite updf_same; repeat split; auto; try apply incl_refl.
    apply incl_tl. apply incl_refl.
  - unfold do_D3a. shape; rewrite updf_same; repeat split; auto; apply incl_refl.
  - unfold do_D3b. shape; rewrite updf_same; repeat split; auto; apply incl_refl.
  - unfold do_D4. destruct (entry_eqb _ _); shape; rewrite updf_same; repeat split; auto; apply incl_refl.
  - unfold do_D5. destruct (_ <=? _); shape; rewrite updf_same; repeat split; auto; apply incl_refl.
  - unfold do_D7. destruct (_ <=? _); shape; rewrite updf_same; repeat split; auto; apply incl_refl.
  - unfold do_F1. destruct (_ <? _); shape; rewrite updf_same; repeat split; auto; apply incl_refl.
  - unfold do_F2. destruct (_ || _); shape; rewrite updf_same; repeat split; auto; apply incl_refl.
  - unfold do_F3. destruct (_ && _); shape; rewrite updf_same; repeat split; auto; apply incl_refl.
  - unfold do_F4. shape; rewrite updf_same; repeat split; auto; apply incl_refl.
Qed.

(* on a closed ring a step creates no target *)
Lemma tgt_tstep_closed st i T :
  closed st = true -> tgt (tick (tstep n st i)) T -> tgt st T.
Proof.
  intros Hcl Ht. destruct (tstep_frame n st i) as (_ & _ & Hoth & _ & _).
  destruct (tstep_logs st i) as (_ & Hh & Hw & Hc).
  destruct Ht as [(k & Hk)|[Hwr Hnc]].
  - destruct (Nat.eq_dec k i) as [->|Hki].
    + destruct (Hh T Hk) as [E|(d & _ & E & _)]; [left; eauto|congruence].
    + left. exists k. now rewrite <- (Hoth k Hki).
  - destruct Hw as [E|(d & T0 & e & Hti & E)]; rewrite E in Hwr.
    + right. split; [exact Hwr|]. intros Hin. apply Hnc. apply in_map_iff in Hin as ([T' v] & E' & Hin). cbn in E'. subst T'.
      eapply in_fst. apply Hc. exact Hin.
    + rewrite wr_cons in Hwr. apply orb_true_iff in Hwr as [Hwr|Hwr].
      * apply Z.eqb_eq in Hwr. subst T. left. exists i. rewrite Hti. reflexivity.
      * right. split; [exact Hwr|]. intros Hin. apply Hnc. apply in_map_iff in Hin as ([T' v] & E' & Hin). cbn in E'. subst T'.
        eapply in_fst. apply Hc. exact Hin.
Qed.

Lemma dead_tstep st i : closed st = true -> dead st -> dead (tick (tstep n st i)).
Proof.
  intros Hcl Hd T HhT Ht. destruct (tstep_frame n st i) as (_ & _ & _ & _ & Hhd).
  apply (Hd T ltac:(lia)). now apply (tgt_tstep_closed st i T).
Qed.

(* steps that do not touch tickets, logs or the head *)
Lemma dead_same st st' :
  (forall k T, hold (th st' k) = Some T -> hold (th st k) = Some T) -> wlog st' = wlog st -> clog st' = clog st -> hd st' = hd st ->
  dead st -> dead st'.
Proof.
  intros Hh Ew Ec Eh Hd T HhT [(k & Hk)|[Hw Hnc]]; rewrite Eh in HhT; apply (Hd T HhT).
  - left. exists k. now apply Hh.
  - right. rewrite Ew in Hw. rewrite Ec in Hnc. auto.
Qed.

Lemma d5inv_tstep st i : Inv n st -> d5inv st -> d5inv (tick (tstep n st i)).
Proof.
  intros HI Hd k H Hk. destruct (tstep_frame n st i) as (_ & _ & Hoth & _ & Hhd).
  destruct (tstep_self n st i HI) as (_ & _ & _ & _ & S5).
  destruct (Nat.eq_dec k i) as [->|Hki]; [exact (S5 H Hk)|]. rewrite (Hoth k Hki) in Hk. pose proof (Hd k H Hk). lia.
Qed.

(* ------------------------------------------------------------------ how a ring-level call reports its result *)
Lemma enq_step st i d : enq_pc d (th st i) ->
  let st' := step n st (LStep i) in
  (is_idle_b (th st' i) = false /\ enq_pc d (th st' i) /\ fail_ticket n st i = None /\ trace st' = trace st) \/
  (th st' i = Idle /\ fail_ticket n st i = None /\
     exists T, trace st' = trace st ++ [(i, since st i, clk st, EvEnq d (Some T))] /\ (th st i = E6 d T \/ th st i = E7 d T)) \/
  (th st' i = Idle /\ trace st' = trace st ++ [(i, since st i, clk st, EvEnq d None)] /\ exists x, fail_ticket n st i = Some x).
Proof.
  intros Hp. cbv zeta. unfold step, step0, tstep, fail_ticket.
  destruct (th st i) eqn:Ht; cbn [enq_pc] in Hp; try contradiction; subst.
  - unfold do_E1. destruct (closed st); shape; rewrite updf_same.
    + right; right. split; [reflexivity|]. split; [reflexivity|eauto].
    + left. cbn. auto.
  - unfold do_E2. destruct (_ && _); [destruct (safe _)|]; shape; rewrite updf_same; left; cbn; auto.
  - unfold do_E3. destruct (_ <=? _); shape; rewrite updf_same; left; cbn; auto.
  - unfold do_E4. destruct (entry_eqb _ _); shape; rewrite updf_same; left; cbn; auto.
  - unfold do_E5. destruct (_ <=? _); shape; rewrite updf_same.
    + right; right. split; [reflexivity|]. split; [reflexivity|eauto].
    + left. cbn. auto.
  - unfold do_E6. destruct (_ =? _); shape; rewrite updf_same.
    + right; left. split; [reflexivity|]. split; [reflexivity|]. exists T. auto.
    + left. cbn. auto.
  - unfold do_E7. shape; rewrite updf_same. right; left. split; [reflexivity|]. split; [reflexivity|]. exists T. auto.
Qed.

Lemma deq_step st i : deq_pc (th st i) ->
  let st' := step n st (LStep i) in
  fail_ticket n st i = None /\
  ((is_idle_b (th st' i) = false /\ deq_pc (th st' i) /\ trace st' = trace st) \/
   (th st' i = Idle /\ exists H x, trace st' = trace st ++ [(i, since st i, clk st, EvDeq (Some (H, x)))] /\ th st i = D3b H x) \/
   (th st' i = Idle /\ trace st' = trace st ++ [(i, since st i, clk st, EvDeq None)] /\
      ((th st i = D0 /\ thr st < 0) \/ (exists H, th st i = D7 H /\ thr st <= 0) \/ th st i = F4))).
Proof.
  intros Hp. cbv zeta. unfold step, step0, tstep, fail_ticket.
  destruct (th st i) eqn:Ht; cbn [deq_pc] in Hp; try contradiction; (split; [reflexivity|]).
  - unfold do_D0. destruct (thr st <? 0) eqn:Et; shape; rewrite updf_same.
    + right; right. split; [reflexivity|]. split; [reflexivity|]. left. split; [reflexivity|now apply Z.ltb_lt].
    + left. cbn. auto.
  - unfold do_D1. shape; rewrite updf_same. left. cbn. auto.
  - unfold do_D2. destruct (_ =? _); [|destruct (_ <? _)]; shape; rewrite updf_same; left; cbn; auto.
  - unfold do_D3a. shape; rewrite updf_same. left. cbn. auto.
  - unfold do_D3b. shape; rewrite updf_same. right; left. split; [reflexivity|]. eauto.
  - unfold do_D4. destruct (entry_eqb _ _); shape; rewrite updf_same; left; cbn; auto.
  - unfold do_D5. destruct (_ <=? _); shape; rewrite updf_same; left; cbn; auto.
  - unfold do_D7. destruct (thr st <=? 0) eqn:Et; shape; rewrite updf_same.
    + right; right. split; [reflexivity|]. split; [reflexivity|]. right; left. exists H. split; [reflexivity|now apply Z.leb_le].
    + left. cbn. auto.
  - unfold do_F1. destruct (_ <? _); shape; rewrite updf_same; left; cbn; auto.
  - unfold do_F2. destruct (_ || _); shape; rewrite updf_same; left; cbn; auto.
  - unfold do_F3. destruct (_ && _); shape; rewrite updf_same; left; cbn; auto.
  - unfold do_F4. shape; rewrite updf_same. right; right. split; [reflexivity|]. split; [reflexivity|]. auto.
Qed.

(* ------------------------------------------------------------------ when a ring is dead *)
Variable K : nat.
Hypothesis HK : Z.of_nat K <= n + 1.

Lemma tgt_lt bz cov st T : Inv n st -> Thr2 n K bz cov st -> tgt st T -> n <= T < tl st.
Proof.
  intros HI HT [(k & Hk)|[Hw _]].
  - exact (hold_lt2 n K bz cov st k T HI HT Hk).
  - apply memz_in in Hw. apply in_map_iff in Hw as ([T' v] & E & Hin). cbn in E. subst T'. exact (i_w_rng _ _ HI _ _ Hin).
Qed.

(* the threshold is exhausted although every target is covered: there is no target at or above head *)
Lemma dead_thr bz cov st i :
  Inv n st -> Thr2 n K bz cov st -> (forall T, tgt st T -> T < cov) ->
  (thr st < 0 \/ (thr st <= 0 /\ (i < K)%nat /\ stale st (th st i) = true)) -> dead st.
Proof.
  intros HI HT Hcov Hthr T HhT Ht.
  pose proof (u_bud _ _ _ _ _ HT T HhT Ht (or_introl (Hcov T Ht))) as Hb.
  destruct Hthr as [Hthr|(Hthr & Hi & Hs)]; [lia|].
  assert ((1 <= Sx K st)%nat) by (apply (cnt_pos K _ i Hi); exact Hs). lia.
Qed.

(* the tail is not ahead of the dequeuer's ticket: every ticket ever issued is below head *)
Lemma dead_tail bz cov st H : Inv n st -> Thr2 n K bz cov st -> tl st <= H + 1 -> H < hd st -> dead st.
Proof.
  intros HI HT Htl HH T HhT Ht. pose proof (tgt_lt bz cov st T HI HT Ht). lia.
Qed.

End Dead.
