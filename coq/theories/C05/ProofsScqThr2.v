(* C05 - the threshold invariant of ProofsScqThr.v generalised to the way LSCQ uses a ring: Enqueues may fail and
   the ring may be closed, but a thread whose Enqueue failed does nothing on this ring before it has closed it
   ([bz i = Some x]: thread i is in that state, x the tail ticket it gave up), and the threshold is reset from
   outside only on a closed ring ([cov]: the tail at the last such reset).  For every ticket T >= head that is
   held by an enqueuer in flight or written and not dequeued ([tgt]):
     stale dequeuers + unwritten tickets in [head, T) <= 2n-1                       (u_bt, for at most n+1 threads)
     and <= threshold once T is covered by its own threshold store or by a reset    (u_bud). *)
From Coq Require Import ZArith List Bool Lia Arith.
Import ListNotations.
From VF Require Import C05.Scq C05.ScqAux C05.ProofsScqInv C05.ProofsScqCount C05.ProofsScqThr.
Open Scope Z_scope.

Definition isS {A} (o : option A) : bool := match o with Some _ => true | None => false end.

Definition tgt (st : state) (T : Z) : Prop :=
  (exists i, hold (th st i) = Some T) \/ (wr st T = true /\ ~ In T (map fst (clog st))).
Definition covd (st : state) (cov T : Z) : Prop :=
  T < cov \/ exists i a b v, In (i, a, b, EvEnq v (Some T)) (trace st).

Section Thr2.
Variable n : Z.
Hypothesis Hn : 1 <= n.
Variable K : nat.
Hypothesis HK : Z.of_nat K <= n + 1.

Record Thr2 (bz : nat -> option Z) (cov : Z) (st : state) : Prop := {
  u_bnd : forall i, (K <= i)%nat -> th st i = Idle /\ bz i = None;
  u_le : thr st <= 2 * n - 1;
  u_fh : forall i, match th st i with F2 _ h | F3 _ h _ => h <= hd st | _ => True end;
  u_e5 : forall i d T, th st i = E5 d T -> n <= T < tl st;
  u_hu : forall i k T, i <> k -> hold (th st i) = Some T -> hold (th st k) = Some T -> False;
  u_bz : forall i x, bz i = Some x -> th st i = Idle /\ x < tl st /\ forall k, hold (th st k) <> Some x;
  u_bzu : forall i k x, i <> k -> bz i = Some x -> bz k = Some x -> False;
  u_cov : cov <= tl st;
  u_ga : closed st = false -> forall x, hd st <= x < tl st ->
           wr st x = true \/ (exists i, hold (th st i) = Some x) \/ x + 2 <= hd st + n \/ (exists i, bz i = Some x);
  u_bt : forall T, hd st <= T -> tgt st T -> Z.of_nat (Sx K st) + Z.of_nat (G st T) <= 2 * n - 1;
  u_bud : forall T, hd st <= T -> tgt st T -> covd st cov T -> Z.of_nat (Sx K st) + Z.of_nat (G st T) <= thr st
}.

Lemma hold_lt2 bz cov st i T : Inv n st -> Thr2 bz cov st -> hold (th st i) = Some T -> n <= T < tl st.
Proof.
  intros HI HT E. pose proof (i_t _ _ HI i) as Hti. destruct (th st i) eqn:Et; try discriminate E; cbn in E; inversion E; subst;
    cbn [tinv] in Hti; try (destruct Hti as [Hti _]; exact Hti).
  exact (u_e5 _ _ _ HT i _ _ Et).
Qed.

(* the count at the birth of a target: a new tail ticket on an open ring *)
Lemma birth_bound bz cov st i :
  Inv n st -> Thr2 bz cov st -> (i < K)%nat -> closed st = false ->
  hold (th st i) = None -> stale st (th st i) = false -> bz i = None ->
  Z.of_nat (Sx K st) + Z.of_nat (G st (tl st)) <= 2 * n - 1.
Proof.
  intros HI HT Hi Hcl Hh Hs Hb.
  set (unw := fun x => negb (wr st x)).
  set (c := hd st + n - 1).
  assert (Hc : hd st <= c) by (unfold c; lia).
  unfold G, gcnt. fold unw. rewrite (filter_split K unw (fun x => x <? c)).
  pose proof (below_len K unw (hd st) c (tl st) Hc) as Hnear.
  set (p := fun k => holdb (th st k) || isS (bz k)).
  assert (Hfar : (length (filter (fun x => unw x && negb (Z.ltb x c)) (zr (hd st) (tl st))) <= cnt K p)%nat).
  { apply (pigeon K _ _ (fun x k => hold (th st k) = Some x \/ bz k = Some x)).
    - apply NoDup_filter. apply zr_nodup.
    - intros x Hx. apply filter_In in Hx as [Hx Hc']. apply zr_in in Hx. apply andb_true_iff in Hc' as [Hu Hc'].
      apply negb_true_iff in Hc'. apply Z.ltb_ge in Hc'. unfold unw in Hu. apply negb_true_iff in Hu.
      destruct (u_ga _ _ _ HT Hcl x Hx) as [Hw|[(k & Hk)|[Hb'|(k & Hk)]]]; [congruence| |unfold c in Hc'; lia|].
      + exists k. split; [|split; [unfold p, holdb; now rewrite Hk|now left]].
        destruct (le_lt_dec K k) as [Hle|Hlt]; [|exact Hlt]. destruct (u_bnd _ _ _ HT k Hle) as [E _]. rewrite E in Hk. discriminate Hk.
      + exists k. split; [|split; [unfold p; rewrite Hk; apply orb_true_r|now right]].
        destruct (le_lt_dec K k) as [Hle|Hlt]; [|exact Hlt]. destruct (u_bnd _ _ _ HT k Hle) as [_ E]. congruence.
    - intros x y k [E1|E1] [E2|E2]; try congruence.
      + destruct (u_bz _ _ _ HT k y E2) as (Hid & _). rewrite Hid in E1. discriminate E1.
      + destruct (u_bz _ _ _ HT k x E1) as (Hid & _). rewrite Hid in E2. discriminate E2. }
  assert (Hthreads : (cnt K (fun k => stale st (th st k)) + cnt K p + 1 <= K)%nat).
  { apply (cnt_two K _ _ i); auto.
    - unfold p, holdb. now rewrite Hh, Hb.
    - intros k E1 E2. unfold p in E2. apply orb_true_iff in E2 as [E2|E2].
      + unfold holdb in E2. destruct (th st k); cbn in *; discriminate.
      + destruct (bz k) as [x|] eqn:Ebk; [|discriminate]. destruct (u_bz _ _ _ HT k x Ebk) as (Hid & _). rewrite Hid in E1. discriminate E1. }
  unfold Sx. replace (Z.to_nat (c - hd st)) with (Z.to_nat (n - 1)) in Hnear by (unfold c; f_equal; lia). lia.
Qed.

Lemma G_mono_T st T T' : T <= T' -> (G st T <= G st T')%nat.
Proof. intros H. unfold G. now apply gcnt_sub. Qed.

(* ------------------------------------------------------------------ the general step of a thread that is not in bz *)
Lemma thr2_gen bz cov st i s0 thr' trace' clog' r p k0 sn :
  Inv n st -> Thr2 bz cov st -> (i < K)%nat -> bz i = None ->
  (hold s0 = hold (th st i) \/
   (hold s0 = None /\ forall x, hold (th st i) = Some x -> hd st <= x -> wr st x = true \/ x + 2 <= hd st + n)) ->
  match s0 with F2 _ h | F3 _ h _ => h <= hd st | _ => True end ->
  (forall d T, s0 = E5 d T -> n <= T < tl st) ->
  (forall j a b v T, In (j, a, b, EvEnq v (Some T)) trace' -> In (j, a, b, EvEnq v (Some T)) (trace st)) ->
  (forall T, In T (map fst (clog st)) -> In T (map fst clog')) ->
  (b2n (stale st s0) <= b2n (stale st (th st i)))%nat ->
  Z.of_nat (b2n (stale st s0)) + thr st <= thr' + Z.of_nat (b2n (stale st (th st i))) ->
  thr' <= 2 * n - 1 ->
  (s0 = Idle \/ th st i <> Idle \/ True) ->
  Thr2 bz cov (mkS r (hd st) (tl st) (closed st) thr' (updf (th st) i s0) (wlog st) clog' p k0 sn trace').
Proof.
  intros HI HT Hi Hbi Hh Hf H5 Htr Hcl Hsl Hb Hle _.
  assert (Hhold : forall k x, hold (updf (th st) i s0 k) = Some x -> hold (th st k) = Some x).
  { intros k x. unfold updf. destruct (Nat.eqb_spec k i) as [->|Hk]; auto.
    intros E. destruct Hh as [Hh|[Hh _]]; rewrite Hh in E; [exact E|discriminate E]. }
  assert (Htgt : forall T, tgt (mkS r (hd st) (tl st) (closed st) thr' (updf (th st) i s0) (wlog st) clog' p k0 sn trace') T -> tgt st T).
  { intros T [(k & Hk)|[Hw Hnc]]; [left; exists k; now apply Hhold|right]. cbn [wlog clog] in *. split; [exact Hw|]. intros Hc. apply Hnc. now apply Hcl. }
  assert (Hcov : forall T, covd (mkS r (hd st) (tl st) (closed st) thr' (updf (th st) i s0) (wlog st) clog' p k0 sn trace') cov T -> covd st cov T).
  { intros T [Hc|(j & a & b & v & Hin)]; [now left|right]. cbn [trace] in Hin. exists j, a, b, v. now apply Htr. }
  pose proof (Sx_upd K (wlog st) (th st) i s0 Hi) as Hu.
  constructor; cbn [ring hd tl closed thr th wlog clog plog clk since trace].
  - intros k Hk. rewrite updf_other by lia. apply (u_bnd _ _ _ HT k Hk).
  - exact Hle.
  - intros k. unfold updf. destruct (Nat.eqb_spec k i); [exact Hf|apply (u_fh _ _ _ HT k)].
  - intros k d T. unfold updf. destruct (Nat.eqb_spec k i); [apply H5|apply (u_e5 _ _ _ HT k)].
  - intros a b T Hab E1 E2. exact (u_hu _ _ _ HT a b T Hab (Hhold _ _ E1) (Hhold _ _ E2)).
  - intros k x Hk. destruct (u_bz _ _ _ HT k x Hk) as (H1 & H2 & H3).
    assert (k <> i) by (intros ->; congruence). rewrite updf_other by auto. split; [exact H1|]. split; [exact H2|].
    intros k' E. apply (H3 k'). now apply Hhold.
  - apply (u_bzu _ _ _ HT).
  - apply (u_cov _ _ _ HT).
  - intros Hc x Hx. destruct (u_ga _ _ _ HT Hc x Hx) as [Hw|[(k & Hk)|[Hb'|Hb']]]; [now left| |now right; right; left|now right; right; right].
    destruct (Nat.eq_dec k i) as [->|Hki].
    + destruct Hh as [Hh|[Hh Hab]].
      * right; left. exists i. rewrite updf_same. congruence.
      * destruct (Hab x Hk ltac:(lia)) as [Hw|Hb']; [now left|now right; right; left].
    + right; left. exists k. now rewrite updf_other.
  - intros T HhT Ht. pose proof (u_bt _ _ _ HT T HhT (Htgt T Ht)) as Hbt.
    unfold Sx, G in *. cbn [th wlog hd] in *. lia.
  - intros T HhT Ht Hc. pose proof (u_bud _ _ _ HT T HhT (Htgt T Ht) (Hcov T Hc)) as Hbud.
    unfold Sx, G in *. cbn [th wlog hd] in *. lia.
Qed.

(* ------------------------------------------------------------------ the special steps *)
Ltac flat := cbn [ring hd tl closed thr th wlog clog plog clk since trace].

Lemma tgt_hold_other st st' i :
  (forall k, k <> i -> th st' k = th st k) -> hold (th st' i) = None -> wlog st' = wlog st -> clog st' = clog st ->
  forall T, tgt st' T -> tgt st T.
Proof.
  intros Hoth Hi Ew Ec T [(k & Hk)|[Hw Hnc]].
  - left. exists k. destruct (Nat.eq_dec k i) as [->|Hki]; [congruence|now rewrite <- Hoth].
  - right. rewrite Ew in Hw. rewrite Ec in Hnc. auto.
Qed.

(* E1 on an open ring: a new tail ticket *)
Lemma thr2_E1o bz cov st i d r p k0 sn :
  Inv n st -> Thr2 bz cov st -> (i < K)%nat -> bz i = None -> th st i = E1 d -> closed st = false ->
  Thr2 bz cov (mkS r (hd st) (tl st + 1) (closed st) (thr st) (updf (th st) i (E2 d (tl st))) (wlog st) (clog st) p k0 sn (trace st)).
Proof.
  intros HI HT Hi Hbi Ht Hcl.
  pose proof (Sx_upd K (wlog st) (th st) i (E2 d (tl st)) Hi) as Hu. rewrite Ht in Hu. cbn [stalew b2n] in Hu.
  assert (Hbb : Z.of_nat (Sx K st) + Z.of_nat (G st (tl st)) <= 2 * n - 1).
  { apply (birth_bound bz cov st i); auto; rewrite Ht; reflexivity. }
  assert (Htg : forall T, tgt (mkS r (hd st) (tl st + 1) (closed st) (thr st) (updf (th st) i (E2 d (tl st))) (wlog st) (clog st) p k0 sn (trace st)) T ->
                 T = tl st \/ tgt st T).
  { intros T [(k & Hk)|[Hw Hnc]]; [|right; right; auto]. flat. cbn [th] in Hk.
    destruct (Nat.eq_dec k i) as [->|Hki]; [rewrite updf_same in Hk; left; cbn in Hk; congruence|].
    rewrite updf_other in Hk by auto. right; left; eauto. }
  constructor; flat.
  - intros k Hk. rewrite updf_other by lia. apply (u_bnd _ _ _ HT k Hk).
  - apply (u_le _ _ _ HT).
  - intros k. unfold updf. destruct (Nat.eqb_spec k i); [exact I|apply (u_fh _ _ _ HT k)].
  - intros k d0 T. unfold updf. destruct (Nat.eqb_spec k i); [discriminate|]. intros E. pose proof (u_e5 _ _ _ HT k _ _ E). lia.
  - intros a b T Hab. unfold updf. destruct (Nat.eqb_spec a i) as [->|Ha], (Nat.eqb_spec b i) as [->|Hb]; intros E1' E2'.
    + contradiction.
    + cbn in E1'. inversion E1'; subst T. pose proof (hold_lt2 _ _ _ _ _ HI HT E2'). lia.
    + cbn in E2'. inversion E2'; subst T. pose proof (hold_lt2 _ _ _ _ _ HI HT E1'). lia.
    + exact (u_hu _ _ _ HT a b T Hab E1' E2').
  - intros k x Hk. destruct (u_bz _ _ _ HT k x Hk) as (H1 & H2 & H3).
    assert (k <> i) by (intros ->; congruence). rewrite updf_other by auto. split; [exact H1|]. split; [lia|].
    intros k'. unfold updf. destruct (Nat.eqb_spec k' i); [cbn; intros E; inversion E; lia|apply H3].
  - apply (u_bzu _ _ _ HT).
  - pose proof (u_cov _ _ _ HT). lia.
  - intros _ x Hx. destruct (Z.eq_dec x (tl st)) as [->|Hne].
    + right; left. exists i. now rewrite updf_same.
    + destruct (u_ga _ _ _ HT Hcl x ltac:(lia)) as [Hw|[(k & Hk)|[Hb'|Hb']]]; [now left| |now right; right; left|now right; right; right].
      right; left. exists k. destruct (Nat.eq_dec k i) as [->|Hki]; [rewrite Ht in Hk; discriminate Hk|now rewrite updf_other].
  - intros T HhT Htg'. unfold Sx, G. cbn [th wlog hd]. destruct (Htg T Htg') as [->|Hold].
    + unfold Sx, G in Hbb. lia.
    + pose proof (u_bt _ _ _ HT T HhT Hold) as Hbt. unfold Sx, G in Hbt. lia.
  - intros T HhT Htg' Hc. unfold Sx, G. cbn [th wlog hd]. destruct (Htg T Htg') as [->|Hold].
    + exfalso. destruct Hc as [Hc|(j & a & b & v & Hin)]; flat.
      * pose proof (u_cov _ _ _ HT). lia.
      * cbn [trace] in Hin. pose proof (i_w_rng _ _ HI _ _ (i_tr_e _ _ HI _ _ _ _ _ Hin)). lia.
    + pose proof (u_bud _ _ _ HT T HhT Hold Hc) as Hbud. unfold Sx, G in Hbud. lia.
Qed.

(* E1 on a closed ring: the ticket is taken and given up at once *)
Lemma thr2_E1c bz cov st i d r p k0 sn ev :
  Inv n st -> Thr2 bz cov st -> (i < K)%nat -> bz i = None -> th st i = E1 d -> closed st = true -> ev = EvEnq d None ->
  Thr2 (updf bz i (Some (tl st))) cov
       (mkS r (hd st) (tl st + 1) (closed st) (thr st) (updf (th st) i Idle) (wlog st) (clog st) p k0 sn (trace st ++ [(i, since st i, clk st, ev)])).
Proof.
  intros HI HT Hi Hbi Ht Hcl ->.
  pose proof (Sx_upd K (wlog st) (th st) i Idle Hi) as Hu. rewrite Ht in Hu. cbn [stalew b2n] in Hu.
  set (st' := mkS r (hd st) (tl st + 1) (closed st) (thr st) (updf (th st) i Idle) (wlog st) (clog st) p k0 sn (trace st ++ [(i, since st i, clk st, EvEnq d None)])).
  assert (Htg : forall T, tgt st' T -> tgt st T).
  { apply (tgt_hold_other st st' i); try reflexivity; [intros k Hk; unfold st'; flat; now rewrite updf_other|unfold st'; flat; now rewrite updf_same]. }
  assert (Hcv : forall T, covd st' cov T -> covd st cov T).
  { intros T [Hc|(j & a & b & v & Hin)]; [now left|right]. unfold st' in Hin. flat. cbn [trace] in Hin.
    apply in_app_or in Hin as [Hin|[E|[]]]; [eauto 6|discriminate E]. }
  constructor; fold st'; unfold st'; flat.
  - intros k Hk. rewrite !updf_other by lia. apply (u_bnd _ _ _ HT k Hk).
  - apply (u_le _ _ _ HT).
  - intros k. unfold updf. destruct (Nat.eqb_spec k i); [exact I|apply (u_fh _ _ _ HT k)].
  - intros k d0 T. unfold updf. destruct (Nat.eqb_spec k i); [discriminate|]. intros E. pose proof (u_e5 _ _ _ HT k _ _ E). lia.
  - intros a b T Hab. unfold updf. destruct (Nat.eqb_spec a i), (Nat.eqb_spec b i); intros E1' E2'; try discriminate.
    exact (u_hu _ _ _ HT a b T Hab E1' E2').
  - intros k x. unfold updf at 1. destruct (Nat.eqb_spec k i) as [->|Hki].
    + intros E. inversion E; subst x. rewrite updf_same. split; [reflexivity|]. split; [lia|].
      intros k'. unfold updf. destruct (Nat.eqb_spec k' i); [discriminate|]. intros E'. pose proof (hold_lt2 _ _ _ _ _ HI HT E'). lia.
    + intros Hk. destruct (u_bz _ _ _ HT k x Hk) as (H1 & H2 & H3). rewrite updf_other by auto. split; [exact H1|]. split; [lia|].
      intros k'. unfold updf. destruct (Nat.eqb_spec k' i); [discriminate|apply H3].
  - intros a b x Hab. unfold updf. destruct (Nat.eqb_spec a i) as [->|Ha], (Nat.eqb_spec b i) as [->|Hb]; intros E1' E2'.
    + contradiction.
    + inversion E1'; subst x. destruct (u_bz _ _ _ HT b _ E2') as (_ & H2 & _). lia.
    + inversion E2'; subst x. destruct (u_bz _ _ _ HT a _ E1') as (_ & H2 & _). lia.
    + exact (u_bzu _ _ _ HT a b x Hab E1' E2').
  - pose proof (u_cov _ _ _ HT). lia.
  - intros E. congruence.
  - intros T HhT Htg'. pose proof (u_bt _ _ _ HT T HhT (Htg T Htg')) as Hbt. unfold Sx, G in *. cbn [th wlog hd]. lia.
  - intros T HhT Htg' Hc. pose proof (u_bud _ _ _ HT T HhT (Htg T Htg') (Hcv T Hc)) as Hbud. unfold Sx, G in *. cbn [th wlog hd]. lia.
Qed.

(* E5 with the ring full: the Enqueue fails, its ticket stays unwritten *)
Lemma thr2_E5f bz cov st i d T r p k0 sn ev :
  Inv n st -> Thr2 bz cov st -> (i < K)%nat -> bz i = None -> th st i = E5 d T -> ev = EvEnq d None ->
  Thr2 (updf bz i (Some T)) cov
       (mkS r (hd st) (tl st) (closed st) (thr st) (updf (th st) i Idle) (wlog st) (clog st) p k0 sn (trace st ++ [(i, since st i, clk st, ev)])).
Proof.
  intros HI HT Hi Hbi Ht ->.
  pose proof (Sx_upd K (wlog st) (th st) i Idle Hi) as Hu. rewrite Ht in Hu. cbn [stalew b2n] in Hu.
  set (st' := mkS r (hd st) (tl st) (closed st) (thr st) (updf (th st) i Idle) (wlog st) (clog st) p k0 sn (trace st ++ [(i, since st i, clk st, EvEnq d None)])).
  assert (Htg : forall T0, tgt st' T0 -> tgt st T0).
  { apply (tgt_hold_other st st' i); try reflexivity; [intros k Hk; unfold st'; flat; now rewrite updf_other|unfold st'; flat; now rewrite updf_same]. }
  assert (Hcv : forall T0, covd st' cov T0 -> covd st cov T0).
  { intros T0 [Hc|(j & a & b & v & Hin)]; [now left|right]. unfold st' in Hin. cbn [trace] in Hin.
    apply in_app_or in Hin as [Hin|[E|[]]]; [eauto 6|discriminate E]. }
  assert (HiT : hold (th st i) = Some T) by (rewrite Ht; reflexivity).
  constructor; fold st'; unfold st'; flat.
  - intros k Hk. rewrite !updf_other by lia. apply (u_bnd _ _ _ HT k Hk).
  - apply (u_le _ _ _ HT).
  - intros k. unfold updf. destruct (Nat.eqb_spec k i); [exact I|apply (u_fh _ _ _ HT k)].
  - intros k d0 T0. unfold updf. destruct (Nat.eqb_spec k i); [discriminate|apply (u_e5 _ _ _ HT k)].
  - intros a b T0 Hab. unfold updf. destruct (Nat.eqb_spec a i), (Nat.eqb_spec b i); intros E1' E2'; try discriminate.
    exact (u_hu _ _ _ HT a b T0 Hab E1' E2').
  - intros k x. unfold updf at 1. destruct (Nat.eqb_spec k i) as [->|Hki].
    + intros E. inversion E; subst x. rewrite updf_same. split; [reflexivity|]. split; [exact (proj2 (u_e5 _ _ _ HT i _ _ Ht))|].
      intros k'. unfold updf. destruct (Nat.eqb_spec k' i) as [->|Hk']; [discriminate|]. intros E'. exact (u_hu _ _ _ HT i k' T (not_eq_sym Hk') HiT E').
    + intros Hk. destruct (u_bz _ _ _ HT k x Hk) as (H1 & H2 & H3). rewrite updf_other by auto. split; [exact H1|]. split; [exact H2|].
      intros k'. unfold updf. destruct (Nat.eqb_spec k' i); [discriminate|apply H3].
  - intros a b x Hab. unfold updf. destruct (Nat.eqb_spec a i) as [->|Ha], (Nat.eqb_spec b i) as [->|Hb]; intros E1' E2'.
    + contradiction.
    + inversion E1'; subst x. destruct (u_bz _ _ _ HT b _ E2') as (_ & _ & H3). exact (H3 i HiT).
    + inversion E2'; subst x. destruct (u_bz _ _ _ HT a _ E1') as (_ & _ & H3). exact (H3 i HiT).
    + exact (u_bzu _ _ _ HT a b x Hab E1' E2').
  - apply (u_cov _ _ _ HT).
  - intros Hc x Hx. destruct (u_ga _ _ _ HT Hc x Hx) as [Hw|[(k & Hk)|[Hb'|(k & Hk)]]]; [now left| |now right; right; left|].
    + destruct (Nat.eq_dec k i) as [->|Hki].
      * right; right; right. exists i. rewrite updf_same. congruence.
      * right; left. exists k. now rewrite updf_other.
    + right; right; right. exists k. rewrite updf_other; auto. intros ->. congruence.
  - intros T0 HhT Htg'. pose proof (u_bt _ _ _ HT T0 HhT (Htg T0 Htg')) as Hbt. unfold Sx, G in *. cbn [th wlog hd]. lia.
  - intros T0 HhT Htg' Hc. pose proof (u_bud _ _ _ HT T0 HhT (Htg T0 Htg') (Hcv T0 Hc)) as Hbud. unfold Sx, G in *. cbn [th wlog hd]. lia.
Qed.

(* E4 succeeds: the held ticket becomes a written one *)
Lemma thr2_E4s bz cov st i d T e r p k0 sn :
  Inv n st -> Thr2 bz cov st -> (i < K)%nat -> bz i = None -> th st i = E4 d T e ->
  Thr2 bz cov (mkS r (hd st) (tl st) (closed st) (thr st) (updf (th st) i (E6 d T)) ((T, d) :: wlog st) (clog st) p k0 sn (trace st)).
Proof.
  intros HI HT Hi Hbi Ht.
  set (st' := mkS r (hd st) (tl st) (closed st) (thr st) (updf (th st) i (E6 d T)) ((T, d) :: wlog st) (clog st) p k0 sn (trace st)).
  assert (Hmono : forall x, wrw (wlog st) x = true -> wrw ((T, d) :: wlog st) x = true).
  { intros x Hx. rewrite wr_cons, Hx. apply orb_true_r. }
  assert (HiT : hold (th st i) = Some T) by (rewrite Ht; reflexivity).
  assert (Htg : forall T0, tgt st' T0 -> tgt st T0).
  { intros T0 [(k & Hk)|[Hw Hnc]]; unfold st' in *; flat; cbn [th wlog clog] in *.
    - left. exists k. destruct (Nat.eq_dec k i) as [->|Hki]; [rewrite updf_same in Hk; discriminate Hk|now rewrite updf_other in Hk].
    - rewrite wr_cons in Hw. apply orb_true_iff in Hw as [Hw|Hw]; [apply Z.eqb_eq in Hw; subst T0; left; eauto|right; auto]. }
  assert (H1 : (cnt K (fun k => stalew ((T, d) :: wlog st) (updf (th st) i (E6 d T) k)) <= cnt K (fun k => stalew (wlog st) (th st k)))%nat).
  { apply cnt_le. intros k Hk. unfold updf. destruct (Nat.eqb_spec k i) as [->|Hki]; [discriminate|].
    destruct (th st k); cbn [stalew]; auto; intros E; apply negb_true_iff in E; apply negb_true_iff;
      destruct (wrw (wlog st) H) eqn:Ew; auto; rewrite (Hmono _ Ew) in E; discriminate. }
  assert (H2 : forall T0, (gcnt (fun x => negb (wrw ((T, d) :: wlog st) x)) (hd st) T0 <= gcnt (fun x => negb (wrw (wlog st) x)) (hd st) T0)%nat).
  { intros T0. apply gcnt_le. intros x _ E. apply negb_true_iff in E. apply negb_true_iff.
    destruct (wrw (wlog st) x) eqn:Ew; auto. rewrite (Hmono _ Ew) in E. discriminate. }
  constructor; fold st'; unfold st'; flat.
  - intros k Hk. rewrite updf_other by lia. apply (u_bnd _ _ _ HT k Hk).
  - apply (u_le _ _ _ HT).
  - intros k. unfold updf. destruct (Nat.eqb_spec k i); [exact I|apply (u_fh _ _ _ HT k)].
  - intros k d0 T0. unfold updf. destruct (Nat.eqb_spec k i); [discriminate|apply (u_e5 _ _ _ HT k)].
  - intros a b T0 Hab. unfold updf. destruct (Nat.eqb_spec a i), (Nat.eqb_spec b i); intros E1' E2'; try discriminate.
    exact (u_hu _ _ _ HT a b T0 Hab E1' E2').
  - intros k x Hk. destruct (u_bz _ _ _ HT k x Hk) as (H1' & H2' & H3).
    assert (k <> i) by (intros ->; congruence). rewrite updf_other by auto. split; [exact H1'|]. split; [exact H2'|].
    intros k'. unfold updf. destruct (Nat.eqb_spec k' i); [discriminate|apply H3].
  - apply (u_bzu _ _ _ HT).
  - apply (u_cov _ _ _ HT).
  - intros Hc x Hx. destruct (u_ga _ _ _ HT Hc x Hx) as [Hw|[(k & Hk)|[Hb'|Hb']]]; [left; now apply Hmono| |now right; right; left|now right; right; right].
    destruct (Nat.eq_dec k i) as [->|Hki].
    + rewrite Ht in Hk. cbn in Hk. inversion Hk; subst x. left. rewrite wr_cons, Z.eqb_refl. reflexivity.
    + right; left. exists k. now rewrite updf_other.
  - intros T0 HhT Htg'. pose proof (u_bt _ _ _ HT T0 HhT (Htg T0 Htg')) as Hbt. unfold Sx, G in *. cbn [th wlog hd]. specialize (H2 T0). lia.
  - intros T0 HhT Htg' Hc. pose proof (u_bud _ _ _ HT T0 HhT (Htg T0 Htg') Hc) as Hbud. unfold Sx, G in *. cbn [th wlog hd]. specialize (H2 T0). lia.
Qed.

(* the Enqueue returns true, after storing the threshold (E7) or having read 2n-1 (E6) *)
Lemma thr2_arm bz cov st i d T thr' r p k0 sn :
  Inv n st -> Thr2 bz cov st -> (i < K)%nat -> bz i = None -> (th st i = E6 d T \/ th st i = E7 d T) -> thr' = 2 * n - 1 ->
  Thr2 bz cov (mkS r (hd st) (tl st) (closed st) thr' (updf (th st) i Idle) (wlog st) (clog st) p k0 sn
                   (trace st ++ [(i, since st i, clk st, EvEnq d (Some T))])).
Proof.
  intros HI HT Hi Hbi Ht ->.
  set (st' := mkS r (hd st) (tl st) (closed st) (2 * n - 1) (updf (th st) i Idle) (wlog st) (clog st) p k0 sn (trace st ++ [(i, since st i, clk st, EvEnq d (Some T))])).
  assert (Hhold : hold (th st i) = None) by (destruct Ht as [Ht|Ht]; rewrite Ht; reflexivity).
  assert (Hst : stale st (th st i) = false) by (destruct Ht as [Ht|Ht]; rewrite Ht; reflexivity).
  assert (HSx : cnt K (fun k => stalew (wlog st) (updf (th st) i Idle k)) = Sx K st).
  { pose proof (Sx_upd K (wlog st) (th st) i Idle Hi) as Hu. rewrite Hst in Hu. cbn in Hu. unfold Sx. lia. }
  assert (Htg : forall T0, tgt st' T0 -> tgt st T0).
  { apply (tgt_hold_other st st' i); try reflexivity; [intros k Hk; unfold st'; flat; now rewrite updf_other|unfold st'; flat; now rewrite updf_same]. }
  constructor; fold st'; unfold st'; flat.
  - intros k Hk. rewrite updf_other by lia. apply (u_bnd _ _ _ HT k Hk).
  - lia.
  - intros k. unfold updf. destruct (Nat.eqb_spec k i); [exact I|apply (u_fh _ _ _ HT k)].
  - intros k d0 T0. unfold updf. destruct (Nat.eqb_spec k i); [discriminate|apply (u_e5 _ _ _ HT k)].
  - intros a b T0 Hab. unfold updf. destruct (Nat.eqb_spec a i), (Nat.eqb_spec b i); intros E1' E2'; try discriminate.
    exact (u_hu _ _ _ HT a b T0 Hab E1' E2').
  - intros k x Hk. destruct (u_bz _ _ _ HT k x Hk) as (H1' & H2' & H3).
    assert (k <> i) by (intros ->; congruence). rewrite updf_other by auto. split; [exact H1'|]. split; [exact H2'|].
    intros k'. unfold updf. destruct (Nat.eqb_spec k' i); [discriminate|apply H3].
  - apply (u_bzu _ _ _ HT).
  - apply (u_cov _ _ _ HT).
  - intros Hc x Hx. destruct (u_ga _ _ _ HT Hc x Hx) as [Hw|[(k & Hk)|[Hb'|Hb']]]; [now left| |now right; right; left|now right; right; right].
    right; left. exists k. destruct (Nat.eq_dec k i) as [->|Hki]; [rewrite Hhold in Hk; discriminate Hk|now rewrite updf_other].
  - intros T0 HhT Htg'. pose proof (u_bt _ _ _ HT T0 HhT (Htg T0 Htg')) as Hbt. unfold Sx, G in *. cbn [th wlog hd]. rewrite HSx. unfold Sx. lia.
  - intros T0 HhT Htg' _. pose proof (u_bt _ _ _ HT T0 HhT (Htg T0 Htg')) as Hbt. unfold Sx, G in *. cbn [th wlog hd]. rewrite HSx. unfold Sx. lia.
Qed.

(* D1: a new dequeue ticket *)
Lemma thr2_D1 bz cov st i r p k0 sn :
  Inv n st -> Thr2 bz cov st -> (i < K)%nat -> bz i = None -> th st i = D1 ->
  Thr2 bz cov (mkS r (hd st + 1) (tl st) (closed st) (thr st) (updf (th st) i (D2 (hd st))) (wlog st) (clog st) p k0 sn (trace st)).
Proof.
  intros HI HT Hi Hbi Ht.
  set (st' := mkS r (hd st + 1) (tl st) (closed st) (thr st) (updf (th st) i (D2 (hd st))) (wlog st) (clog st) p k0 sn (trace st)).
  assert (Htg : forall T0, tgt st' T0 -> tgt st T0).
  { apply (tgt_hold_other st st' i); try reflexivity; [intros k Hk; unfold st'; flat; now rewrite updf_other|unfold st'; flat; now rewrite updf_same]. }
  pose proof (Sx_upd K (wlog st) (th st) i (D2 (hd st)) Hi) as Hu. rewrite Ht in Hu. cbn [stalew b2n] in Hu.
  constructor; fold st'; unfold st'; flat.
  - intros k Hk. rewrite updf_other by lia. apply (u_bnd _ _ _ HT k Hk).
  - apply (u_le _ _ _ HT).
  - intros k. unfold updf. destruct (Nat.eqb_spec k i); [exact I|]. pose proof (u_fh _ _ _ HT k) as Hf. destruct (th st k); auto; lia.
  - intros k d0 T0. unfold updf. destruct (Nat.eqb_spec k i); [discriminate|apply (u_e5 _ _ _ HT k)].
  - intros a b T0 Hab. unfold updf. destruct (Nat.eqb_spec a i), (Nat.eqb_spec b i); intros E1' E2'; try discriminate.
    exact (u_hu _ _ _ HT a b T0 Hab E1' E2').
  - intros k x Hk. destruct (u_bz _ _ _ HT k x Hk) as (H1' & H2' & H3).
    assert (k <> i) by (intros ->; congruence). rewrite updf_other by auto. split; [exact H1'|]. split; [exact H2'|].
    intros k'. unfold updf. destruct (Nat.eqb_spec k' i); [discriminate|apply H3].
  - apply (u_bzu _ _ _ HT).
  - apply (u_cov _ _ _ HT).
  - intros Hc x Hx. destruct (u_ga _ _ _ HT Hc x ltac:(lia)) as [Hw|[(k & Hk)|[Hb'|Hb']]]; [now left| |right; right; left; lia|now right; right; right].
    right; left. exists k. destruct (Nat.eq_dec k i) as [->|Hki]; [rewrite Ht in Hk; discriminate Hk|now rewrite updf_other].
  - intros T0 HhT Htg'. pose proof (u_bt _ _ _ HT T0 ltac:(lia) (Htg T0 Htg')) as Hbt.
    unfold Sx in *. cbn [th wlog hd]. rewrite (G_shift st T0 ltac:(lia)) in Hbt. unfold G. cbn [hd wlog]. lia.
  - intros T0 HhT Htg' Hc. pose proof (u_bud _ _ _ HT T0 ltac:(lia) (Htg T0 Htg') Hc) as Hbud.
    unfold Sx in *. cbn [th wlog hd]. rewrite (G_shift st T0 ltac:(lia)) in Hbud. unfold G. cbn [hd wlog]. lia.
Qed.

(* fixstate moves the tail up to a head value *)
Lemma thr2_F3s bz cov st i oh h tv r p k0 sn :
  Inv n st -> Thr2 bz cov st -> (i < K)%nat -> bz i = None -> th st i = F3 oh h tv -> tl st = tv ->
  Thr2 bz cov (mkS r (hd st) h (closed st) (thr st) (updf (th st) i F4) (wlog st) (clog st) p k0 sn (trace st)).
Proof.
  intros HI HT Hi Hbi Ht Etl.
  pose proof (i_t _ _ HI i) as Hti. rewrite Ht in Hti. cbn [tinv] in Hti.
  pose proof (u_fh _ _ _ HT i) as Hfh. rewrite Ht in Hfh.
  set (st' := mkS r (hd st) h (closed st) (thr st) (updf (th st) i F4) (wlog st) (clog st) p k0 sn (trace st)).
  assert (Htg : forall T0, tgt st' T0 -> tgt st T0).
  { apply (tgt_hold_other st st' i); try reflexivity; [intros k Hk; unfold st'; flat; now rewrite updf_other|unfold st'; flat; now rewrite updf_same]. }
  pose proof (Sx_upd K (wlog st) (th st) i F4 Hi) as Hu. rewrite Ht in Hu. cbn [stalew b2n] in Hu.
  constructor; fold st'; unfold st'; flat.
  - intros k Hk. rewrite updf_other by lia. apply (u_bnd _ _ _ HT k Hk).
  - apply (u_le _ _ _ HT).
  - intros k. unfold updf. destruct (Nat.eqb_spec k i); [exact I|apply (u_fh _ _ _ HT k)].
  - intros k d0 T0. unfold updf. destruct (Nat.eqb_spec k i); [discriminate|]. intros E. pose proof (u_e5 _ _ _ HT k _ _ E). lia.
  - intros a b T0 Hab. unfold updf. destruct (Nat.eqb_spec a i), (Nat.eqb_spec b i); intros E1' E2'; try discriminate.
    exact (u_hu _ _ _ HT a b T0 Hab E1' E2').
  - intros k x Hk. destruct (u_bz _ _ _ HT k x Hk) as (H1' & H2' & H3).
    assert (k <> i) by (intros ->; congruence). rewrite updf_other by auto. split; [exact H1'|]. split; [lia|].
    intros k'. unfold updf. destruct (Nat.eqb_spec k' i); [discriminate|apply H3].
  - apply (u_bzu _ _ _ HT).
  - pose proof (u_cov _ _ _ HT). lia.
  - intros Hc x Hx. lia.
  - intros T0 HhT Htg'. pose proof (u_bt _ _ _ HT T0 HhT (Htg T0 Htg')) as Hbt. unfold Sx, G in *. cbn [th wlog hd]. lia.
  - intros T0 HhT Htg' Hc. assert (Hc' : covd st cov T0) by (destruct Hc as [Hc|Hc]; [now left|now right]).
    pose proof (u_bud _ _ _ HT T0 HhT (Htg T0 Htg') Hc') as Hbud. unfold Sx, G in *. cbn [th wlog hd]. lia.
Qed.

(* the ring is closed (by a thread that may have been waiting to do so) *)
Lemma thr2_close bz cov st i r p k0 sn :
  Thr2 bz cov st ->
  Thr2 (updf bz i None) cov (mkS r (hd st) (tl st) true (thr st) (th st) (wlog st) (clog st) p k0 sn (trace st)).
Proof.
  intros HT.
  assert (Hb : forall k x, updf bz i None k = Some x -> bz k = Some x).
  { intros k x. unfold updf. destruct (Nat.eqb_spec k i); [discriminate|auto]. }
  constructor; flat.
  - intros k Hk. destruct (u_bnd _ _ _ HT k Hk) as [H1 H2]. split; [exact H1|]. unfold updf. destruct (Nat.eqb_spec k i); auto.
  - apply (u_le _ _ _ HT).
  - apply (u_fh _ _ _ HT).
  - apply (u_e5 _ _ _ HT).
  - apply (u_hu _ _ _ HT).
  - intros k x Hk. exact (u_bz _ _ _ HT k x (Hb _ _ Hk)).
  - intros a b x Hab E1 E2. exact (u_bzu _ _ _ HT a b x Hab (Hb _ _ E1) (Hb _ _ E2)).
  - apply (u_cov _ _ _ HT).
  - discriminate.
  - intros T HhT Ht. exact (u_bt _ _ _ HT T HhT Ht).
  - intros T HhT Ht Hc. exact (u_bud _ _ _ HT T HhT Ht Hc).
Qed.

(* the threshold of a closed ring is reset from outside: every ticket issued so far is covered *)
Lemma thr2_reset bz cov st r p k0 sn :
  Thr2 bz cov st -> closed st = true ->
  Thr2 bz (tl st) (mkS r (hd st) (tl st) (closed st) (2 * n - 1) (th st) (wlog st) (clog st) p k0 sn (trace st)).
Proof.
  intros HT Hcl. constructor; flat; try apply HT.
  - lia.
  - lia.
  - intros T HhT Ht _. exact (u_bt _ _ _ HT T HhT Ht).
Qed.

(* ------------------------------------------------------------------ every step of a thread that is not waiting to close *)
Lemma Thr2_ext bz cov st st' :
  closed st' = closed st -> th st' = th st -> thr st' = thr st -> hd st' = hd st -> tl st' = tl st ->
  wlog st' = wlog st -> clog st' = clog st -> trace st' = trace st -> Thr2 bz cov st -> Thr2 bz cov st'.
Proof.
  intros E1 E2 E3 E4 E5 E6 E7 E8 HT.
  destruct st as [r h t c tr f w cl p k s tc], st' as [r' h' t' c' tr' f' w' cl' p' k' s' tc'].
  cbn in E1, E2, E3, E4, E5, E6, E7, E8. subst. destruct HT. constructor; assumption.
Qed.

Ltac shape := unfold tick, goto, ret, invoke, set_tl, set_hd, set_thr, set_ring, add_w, add_c, add_p, set_closed;
  cbn [ring hd tl closed thr th wlog clog plog clk since trace].
Ltac gen2 HI HT Hi Hbi Ht := apply (thr2_gen _ _ _ _ _ _ _ _ _ _ _ _ HI HT Hi Hbi); rewrite ?Ht; cbn [hold stalew b2n];
  [try (left; reflexivity)|try exact I|try (intros ? ? E; discriminate E)|
   try (intros ? ? ? ? ? Hin; first [exact Hin|apply in_app_or in Hin as [Hin|[E|[]]]; [exact Hin|discriminate E]])|
   try (intros ? Hin; exact Hin)|try lia|try lia|try (pose proof (u_le _ _ _ HT); lia)|auto].

Lemma thr2_tstep bz cov st i :
  Inv n st -> Thr2 bz cov st -> (i < K)%nat -> bz i = None ->
  Thr2 (bz_after n bz st i) cov (tick (tstep n st i)).
Proof.
  intros HI HT Hi Hbi. unfold bz_after, fail_ticket, tstep.
  pose proof (i_t _ _ HI i) as Hti.
  destruct (th st i) eqn:Ht; cbn [tinv] in Hti.
  - apply (Thr2_ext bz cov st); try reflexivity. exact HT.
  - (* E1 *) unfold do_E1. destruct (closed st) eqn:Ec; shape.
    + apply (thr2_E1c bz cov st i d); auto.
    + apply (thr2_E1o bz cov st i d); auto.
  - (* E2 *) destruct Hti as [HTr Hw]. unfold do_E2. destruct (_ && _); [destruct (safe _)|]; shape; gen2 HI HT Hi Hbi Ht.
    intros d0 T0 E. inversion E; subst. exact HTr.
  - (* E3 *) destruct Hti as (HTr & _). unfold do_E3. destruct (_ <=? _); shape; gen2 HI HT Hi Hbi Ht.
    intros d0 T0 E. inversion E; subst. exact HTr.
  - (* E4 *) unfold do_E4. destruct (entry_eqb _ _); shape; [now apply (thr2_E4s bz cov st i d T e)|gen2 HI HT Hi Hbi Ht].
  - (* E5 *) unfold do_E5. destruct (hd st + n <=? T + 1) eqn:Ef; shape.
    + apply (thr2_E5f bz cov st i d T); auto.
    + gen2 HI HT Hi Hbi Ht. right. split; [reflexivity|]. intros x E _. inversion E; subst x. right. apply Z.leb_gt in Ef. lia.
  - (* E6 *) unfold do_E6. destruct (thr st =? thr_full n) eqn:Eth; shape.
    + apply thr2_arm; auto. apply Z.eqb_eq in Eth. exact Eth.
    + gen2 HI HT Hi Hbi Ht.
  - (* E7 *) unfold do_E7. shape. apply thr2_arm; auto.
  - (* D0 *) unfold do_D0. destruct (_ <? _); shape; gen2 HI HT Hi Hbi Ht.
  - (* D1 *) unfold do_D1. shape. now apply thr2_D1.
  - (* D2 *) unfold do_D2, slot, cyc_of.
    destruct (cyc (ring st (H mod n)) =? H / n) eqn:Ec; [apply Z.eqb_eq in Ec|apply Z.eqb_neq in Ec; destruct (_ <? _)]; shape.
    + pose proof (consume_written n Hn K st i H HI Ht Ec) as Hw. gen2 HI HT Hi Hbi Ht.
      intros T Hin. now right.
    + gen2 HI HT Hi Hbi Ht.
    + pose proof (pending_unwritten n st i H HI ltac:(rewrite Ht; reflexivity) Ec) as Hw. gen2 HI HT Hi Hbi Ht;
        rewrite Hw; cbn [negb b2n]; lia.
  - (* D3a *) unfold do_D3a. shape. gen2 HI HT Hi Hbi Ht.
  - (* D3b *) unfold do_D3b. shape. gen2 HI HT Hi Hbi Ht.
  - (* D4 *) destruct Hti as (_ & _ & _ & Hce). unfold do_D4, slot, cyc_of. destruct (entry_eqb _ _) eqn:Eq; shape.
    + apply entry_eqb_eq in Eq.
      assert (Hw : wr st H = false).
      { apply (pending_unwritten n st i H HI); [rewrite Ht; reflexivity|]. rewrite Eq. lia. }
      gen2 HI HT Hi Hbi Ht; rewrite Hw; cbn [negb b2n]; lia.
    + gen2 HI HT Hi Hbi Ht.
  - (* D5 *) unfold do_D5. destruct (_ <=? _); shape; gen2 HI HT Hi Hbi Ht.
  - (* D7 *) unfold do_D7. destruct (_ <=? _); shape; gen2 HI HT Hi Hbi Ht.
  - (* F1 *) unfold do_F1. destruct (_ <? _); shape; gen2 HI HT Hi Hbi Ht. lia.
  - (* F2 *) pose proof (u_fh _ _ _ HT i) as Hfh. rewrite Ht in Hfh.
    unfold do_F2. destruct (_ || _); shape; gen2 HI HT Hi Hbi Ht. exact Hfh.
  - (* F3 *) unfold do_F3. destruct (negb (closed st) && (tl st =? tv)) eqn:Ec; shape.
    + apply andb_true_iff in Ec as [_ Ec]. apply Z.eqb_eq in Ec. now apply (thr2_F3s bz cov st i oh h tv).
    + gen2 HI HT Hi Hbi Ht.
  - (* F4 *) unfold do_F4. shape. gen2 HI HT Hi Hbi Ht.
Qed.

(* an idle thread that is not waiting to close invokes a ring-level call *)
Lemma thr2_invoke bz cov st i s0 :
  Inv n st -> Thr2 bz cov st -> (i < K)%nat -> bz i = None -> th st i = Idle ->
  hold s0 = None -> stale st s0 = false -> (forall oh h, s0 <> F2 oh h) -> (forall oh h tv, s0 <> F3 oh h tv) ->
  (forall d T, s0 <> E5 d T) ->
  Thr2 bz cov (tick (invoke st i s0)).
Proof.
  intros HI HT Hi Hbi Ht Hh Hs HF2 HF3 H5. shape.
  apply (thr2_gen _ _ _ _ _ _ _ _ _ _ _ _ HI HT Hi Hbi); rewrite ?Ht; cbn [hold stalew b2n].
  - left. exact Hh.
  - destruct s0; auto; exfalso; [eapply HF2|eapply HF3]; reflexivity.
  - intros d T E. exfalso. exact (H5 d T E).
  - auto.
  - auto.
  - rewrite Hs. cbn. lia.
  - rewrite Hs. cbn. lia.
  - apply (u_le _ _ _ HT).
  - auto.
Qed.

End Thr2.
