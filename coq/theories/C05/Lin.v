(* C05: the recorded histories of Aspects.v as histories of Common/Hist.v, and the verified
   linearizability checker of Hist.v instantiated with the FIFO queue specification of Spec.v.
   Definitions only; Proofs_Lin.v has the lemmas. *)
From VF Require Import Common.Base Common.Hist C05.Model C05.Spec C05.Aspects.
Local Open Scope Z_scope.

(* what was called and what it returned (Enqueue always returns true in the recorded runs) *)
Definition call_of (k : kind) : op Z :=
  match k with HEnq v => Enq v | _ => Deq end.
Definition ret_of (k : kind) : out Z :=
  match k with HEnq _ => OEnq true | HDeq v => ODeq (Some v) | HEmpty => ODeq None end.

Definition qop := Hist.op (op Z) (out Z).
Definition to_op (e : event) : qop :=
  Hist.Build_op (Z.to_N (inv e)) (Z.to_N (resp e)) (call_of (what e)) (ret_of (what e)).

(* stamps come from a counter that starts at 0; a call is invoked before it returns *)
Definition Stamped (h : history) : Prop := forall e, In e h -> 0 <= inv e <= resp e.
Definition stamped_b (h : history) : bool := forallb (fun e => (0 <=? inv e) && (inv e <=? resp e)) h.

(* all stamps of a recording are different (they are drawn from one atomic counter) *)
Definition stamps (h : history) : list Z := flat_map (fun e => [inv e; resp e]) h.
Definition DistinctStamps (h : history) : Prop := NoDup (stamps h).
Definition distinct_b (h : history) : bool := nodup_b (stamps h).

(* linearizable with respect to the FIFO queue that starts empty: the definition of Common/Hist.v *)
Definition fifo_linearizable (h : history) : Prop :=
  linearizable (list Z) (op Z) (out Z) fifo_step [] (map to_op h).

(* the contents q of the queue as sequential enqueues stamped t+1, t+2, ..., t+2|q| (used to record a history
   that starts with a non-empty queue: Proofs_Lin.prefix_encoding) *)
Fixpoint pre_events (t : Z) (q : list Z) : history :=
  match q with
  | [] => []
  | v :: q' => {| inv := t + 1; resp := t + 2; who := 0; what := HEnq v |} :: pre_events (t + 2) q'
  end.

(* boolean equalities for the checker *)
Definition qcall_eqb (a b : op Z) : bool :=
  match a, b with
  | Enq x, Enq y => x =? y
  | Deq, Deq => true
  | _, _ => false
  end.
Definition qret_eqb (a b : out Z) : bool :=
  match a, b with
  | OEnq x, OEnq y => Bool.eqb x y
  | ODeq x, ODeq y => option_eqb Z.eqb x y
  | OFuel, OFuel => true
  | _, _ => false
  end.
Definition qstate_eqb (a b : list Z) : bool := list_eqb Z.eqb a b.

Definition fifo_lin_check (h : history) : bool :=
  lin_check (list Z) (op Z) (out Z) fifo_step qret_eqb qcall_eqb qstate_eqb [] (map to_op h).
