(* C05 property theorems. Nothing but statements closed by [exact] and Print Assumptions. *)
From VF Require Import Common.Base Common.Hist C05.Model C05.Spec C05.Aspects C05.Lin C05.Check
  C05.Proofs_Remap C05.Proofs_Ring C05.Proofs_LSCQ C05.Proofs_Aspects C05.Proofs_Check C05.Proofs_Lin.
Local Open Scope Z_scope.

(* (1) cacheRemap16Byte permutes the slots of a ring, for the constants of util.go (and the code's
   `index & (scqsize-1)` is the model's `index mod scqsize`) ... *)
Theorem C05_remap_bij :
  (forall i j, 0 <= i < scqsize -> 0 <= j < scqsize ->
     remap scqsize cacheline16 i = remap scqsize cacheline16 j -> i = j) /\
  (forall i, 0 <= remap scqsize cacheline16 i < scqsize) /\
  (forall k, 0 <= k < scqsize -> exists i, 0 <= i < scqsize /\ remap scqsize cacheline16 i = k) /\
  (forall i, 0 <= i -> remap_land scqsize cacheline16 i = remap scqsize cacheline16 i).
Proof. exact remap_bij_real. Qed.
(* ... and for every ring size n and every number cl | n of entries per cache line *)
Theorem C05_remap_inj_all : forall n cl, 1 <= n -> 1 <= cl -> (cl | n) ->
  forall i j, 0 <= i < n -> 0 <= j < n -> remap n cl i = remap n cl j -> i = j.
Proof. exact remap_inj. Qed.

(* (2) run by one thread, the list of rings is a FIFO queue: for EVERY ring size n >= 1 (cl | n, e.g.
   cl = 1), every payload type, every operation list and every fuel >= 2 the outputs (Enqueue ->
   true, Dequeue -> oldest value / empty) are those of the list specification; in particular no loop
   runs out of fuel, nothing is lost, duplicated or invented across full ring -> close -> new ring ->
   drain -> head advance, and the threshold never makes a non-empty queue report empty. *)
Theorem C05_seq : forall (D : Type) (dnil : D) n cl, 1 <= n -> 1 <= cl -> (cl | n) ->
  forall fuel, (2 <= fuel)%nat -> forall ops,
  snd (run (lscq_step D dnil n cl fuel) (lscq_init D n) ops) = snd (run fifo_step [] ops).
Proof. exact lscq_refines_fifo. Qed.
(* the instance the correspondence run executes *)
Theorem C05_seq_real : forall ops,
  snd (run (lscq_step Z 0 scqsize cacheline16 FUEL) (lscq_init Z scqsize) ops) = snd (run fifo_step [] ops).
Proof.
  exact (lscq_refines_fifo Z 0 scqsize cacheline16 scqsize_pos cacheline16_pos cacheline16_div FUEL (le_n_S _ _ (le_S _ _ (le_n 1)))).
Qed.
(* ring level: what one Enqueue / Dequeue does to a ring holding the list l *)
Theorem C05_ring_enq : forall (D : Type) (dnil : D) n cl, 1 <= n -> 1 <= cl -> (cl | n) ->
  forall q l d, Inv D dnil n cl false q l -> Z.of_nat (length l) < n ->
  exists q', enq_body D dnil n cl q d = (q', Some true) /\ Inv D dnil n cl false q' (l ++ [d]).
Proof. exact enq_ok. Qed.
Theorem C05_ring_deq : forall (D : Type) (dnil : D) n cl, 1 <= n -> 1 <= cl -> (cl | n) ->
  forall c q x l fuel, (1 <= fuel)%nat -> Inv D dnil n cl c q (x :: l) ->
  exists q', scq_dequeue D dnil n cl fuel q = (q', Got x) /\ Inv D dnil n cl c q' l.
Proof. exact deq_ok. Qed.
(* the checker's specification queue is the list specification *)
Theorem C05_checker_spec : forall ops q, snd (run bq_step q ops) = snd (run fifo_step (bq_abs q) ops).
Proof. exact bq_refines. Qed.

(* (3) the history checker decides exactly the four conditions of the statement *)
Theorem C05_aspects_b_ok : forall h, UniqueValues h ->
  (aspects_b h = true <-> NoFresh h /\ NoRepeat h /\ OrderKept h /\ EmptyJustified h).
Proof. intros h _. exact (aspects_b_ok_all h). Qed.
Theorem C05_unique_b_ok : forall h, unique_b h = true <-> UniqueValues h.
Proof. exact unique_ok. Qed.
(* the near-linear checks applied to long histories follow from the four conditions ... *)
Theorem C05_lin_follows : forall h drained,
  UniqueValues h -> Aspects h -> (drained = true -> Drained h) -> lin_b drained h = true.
Proof. exact lin_follows. Qed.
(* ... in detail: nothing lost once an empty answer follows all enqueues; program order; and what they
   establish on their own *)
Theorem C05_drained_noloss : forall h, EmptyJustified h -> Drained h -> NoLoss h.
Proof. exact drained_noloss. Qed.
Theorem C05_program_order : forall h, OrderKept h -> ProgramOrderKept h.
Proof. exact order_program. Qed.
Theorem C05_lin_sound : forall h,
  (lin_nofresh_b h = true -> NoFresh h) /\ (lin_norepeat_b h = true <-> NoRepeat h) /\ (lin_noloss_b h = true <-> NoLoss h).
Proof. intros h. split; [apply lin_nofresh_sound|split; [apply lin_norepeat_ok|apply lin_noloss_ok]]. Qed.

(* (4) the title's word "linearizable".  A recorded history is turned into a history of Common/Hist.v by
   [to_op] (Enqueue v -> call Enq v / result true, Dequeue -> v -> call Deq / result Some v, empty answer ->
   call Deq / result None; stamps as they are).  For complete histories with unique enqueued values whose
   stamps are non-negative with invocation <= response, the four conditions of the statement imply
   linearizability - the definition [linearizable] of Common/Hist.v - with respect to the FIFO queue
   specification started empty (the direction of Henzinger, Sezgin, Vafeiadis that a check needs) ... *)
Theorem C05_aspects_lin : forall h, Stamped h -> UniqueValues h ->
  NoFresh h /\ NoRepeat h /\ OrderKept h /\ EmptyJustified h ->
  linearizable (list Z) (op Z) (out Z) fifo_step [] (map to_op h).
Proof. exact aspects_linearizable. Qed.
(* ... and conversely, when all stamps are different (one atomic counter), a linearizable history meets
   the four conditions: on such histories the statement's conditions ARE linearizability *)
Theorem C05_lin_aspects : forall h, Stamped h -> DistinctStamps h -> UniqueValues h ->
  linearizable (list Z) (op Z) (out Z) fifo_step [] (map to_op h) ->
  NoFresh h /\ NoRepeat h /\ OrderKept h /\ EmptyJustified h.
Proof. exact linearizable_aspects. Qed.
(* the generic verified checker of Common/Hist.v instantiated with the FIFO specification decides it;
   on well-formed recordings the two deciders run on every tiny history return the same verdict *)
Theorem C05_lin_check_ok : forall h,
  fifo_lin_check h = true <-> linearizable (list Z) (op Z) (out Z) fifo_step [] (map to_op h).
Proof. exact fifo_lin_check_correct. Qed.
Theorem C05_checkers_agree : forall h,
  stamped_b h = true -> distinct_b h = true -> unique_b h = true -> aspects_b h = fifo_lin_check h.
Proof. exact checkers_agree. Qed.
Theorem C05_wellformed_b_ok : forall h,
  (stamped_b h = true <-> Stamped h) /\ (distinct_b h = true <-> DistinctStamps h).
Proof. intros h. split; [apply stamped_b_ok|apply distinct_b_ok]. Qed.

(* a recording that starts with the queue holding q0 (the tiny segment-crossing runs: q0 is what a checked sequential
   prefix left in the queue): putting q0 in front as sequential enqueues stamped before every recorded call turns
   "linearizable from q0" into "linearizable from the empty queue", which is what CLin decides *)
Theorem C05_prefix_encoding : forall t q0 h,
  0 <= t -> (forall e, In e h -> t + 2 * Z.of_nat (length q0) < Aspects.inv e /\ Aspects.inv e <= Aspects.resp e) ->
  (linearizable (list Z) (op Z) (out Z) fifo_step [] (map to_op (pre_events t q0 ++ h)) <->
   linearizable (list Z) (op Z) (out Z) fifo_step q0 (map to_op h)).
Proof. exact prefix_encoding. Qed.

(* non-vacuity: a ring of 2 entries crossing two segment boundaries; a history meeting the conditions
   and histories violating each of them *)
Example C05_nonvacuous :
  let ops := [Enq 1; Enq 2; Enq 3; Deq; Enq 4; Enq 5; Deq; Deq; Deq; Deq; Deq; Enq 6; Deq] in
  snd (run (lscq_step Z 0 2 1 2) (lscq_init Z 2) ops)
    = [OEnq true; OEnq true; OEnq true; ODeq (Some 1); OEnq true; OEnq true; ODeq (Some 2); ODeq (Some 3);
       ODeq (Some 4); ODeq (Some 5); ODeq None; OEnq true; ODeq (Some 6)]
  /\ length (rings (fst (run (lscq_step Z 0 2 1 2) (lscq_init Z 2) (firstn 6 ops)))) = 3%nat
  /\ (let ev a b w k := {| inv := a; resp := b; who := w; what := k |} in
      let good := [ev 1 4 1 (HEnq 10); ev 2 3 2 HEmpty; ev 5 8 1 (HEnq 11); ev 6 9 2 (HDeq 10); ev 10 11 2 (HDeq 11); ev 12 13 2 HEmpty] in
      Aspects good /\ UniqueValues good /\ Drained good /\ lin_b true good = true
      /\ aspects_b [ev 1 2 1 (HEnq 10); ev 3 4 2 HEmpty] = false
      /\ aspects_b [ev 1 2 1 (HEnq 10); ev 3 4 1 (HEnq 11); ev 5 6 2 (HDeq 11); ev 7 8 2 (HDeq 10)] = false
      /\ aspects_b [ev 1 2 1 (HEnq 10); ev 3 4 2 (HDeq 10); ev 5 6 2 (HDeq 10)] = false
      /\ aspects_b [ev 1 2 2 (HDeq 10); ev 3 4 1 (HEnq 10)] = false).
Proof.
  cbv zeta. split; [vm_compute; reflexivity|]. split; [vm_compute; reflexivity|].
  split; [apply aspects_b_ok_all; vm_compute; reflexivity|].
  split; [apply unique_ok; vm_compute; reflexivity|].
  split.
  - eexists. split; [do 5 right; left; reflexivity|]. split; [reflexivity|].
    intros e v [<-|[<-|[<-|[<-|[<-|[<-|[]]]]]]] E; try discriminate E; simpl; lia.
  - repeat split; vm_compute; reflexivity.
Qed.

(* non-vacuity of (4): a contended history that is linearizable / one that is not, decided both ways *)
Example C05_lin_nonvacuous :
  let ev a b w k := {| Aspects.inv := a; Aspects.resp := b; who := w; what := k |} in
  let good := [ev 1 6 1 (HEnq 10); ev 2 5 2 (HEnq 11); ev 3 8 3 (HDeq 11); ev 4 7 4 HEmpty; ev 9 10 3 (HDeq 10); ev 11 12 4 HEmpty] in
  let bad := [ev 1 2 1 (HEnq 10); ev 3 4 1 (HEnq 11); ev 5 8 2 (HDeq 11); ev 6 7 3 HEmpty] in
  (Stamped good /\ DistinctStamps good /\ UniqueValues good /\ Aspects good /\
   linearizable (list Z) (op Z) (out Z) fifo_step [] (map to_op good)) /\
  (Stamped bad /\ DistinctStamps bad /\ UniqueValues bad /\ ~ Aspects bad /\
   ~ linearizable (list Z) (op Z) (out Z) fifo_step [] (map to_op bad)).
Proof.
  cbv zeta. split.
  - split; [apply stamped_b_ok; vm_compute; reflexivity|].
    split; [apply distinct_b_ok; vm_compute; reflexivity|].
    split; [apply unique_ok; vm_compute; reflexivity|].
    split; [apply aspects_b_ok_all; vm_compute; reflexivity|].
    apply fifo_lin_check_correct. vm_compute. reflexivity.
  - split; [apply stamped_b_ok; vm_compute; reflexivity|].
    split; [apply distinct_b_ok; vm_compute; reflexivity|].
    split; [apply unique_ok; vm_compute; reflexivity|].
    split.
    + intros H. apply aspects_b_ok_all in H. vm_compute in H. discriminate H.
    + intros H. apply fifo_lin_check_correct in H. vm_compute in H. discriminate H.
Qed.

Print Assumptions C05_remap_bij.
Print Assumptions C05_remap_inj_all.
Print Assumptions C05_seq.
Print Assumptions C05_seq_real.
Print Assumptions C05_ring_enq.
Print Assumptions C05_ring_deq.
Print Assumptions C05_checker_spec.
Print Assumptions C05_aspects_b_ok.
Print Assumptions C05_unique_b_ok.
Print Assumptions C05_lin_follows.
Print Assumptions C05_drained_noloss.
Print Assumptions C05_program_order.
Print Assumptions C05_lin_sound.
Print Assumptions C05_aspects_lin.
Print Assumptions C05_lin_aspects.
Print Assumptions C05_lin_check_ok.
Print Assumptions C05_checkers_agree.
Print Assumptions C05_wellformed_b_ok.
Print Assumptions C05_prefix_encoding.
