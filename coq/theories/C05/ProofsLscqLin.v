(* C05 - the LSCQ layer: the completed queue-level calls of a quiescent reachable state, as a timed history over
   (ring, ticket) identities, satisfy three of the four conditions of the property statement (no fresh value, no
   repeat, real-time enqueue order kept by dequeues - within a ring by the ticket order of the ring, across rings
   because the ring a call works on never moves backwards and a ring the head has left is drained), hence are
   linearizable as soon as the empty answers are justified. *)
From Coq Require Import ZArith List Bool Lia Arith.
Import ListNotations.
From VF Require Import Common.Base C05.Aspects C05.Proofs_Aspects C05.Lin C05.Proofs_Lin.
From VF Require Import C05.Scq C05.ScqAux C05.Lscq C05.ProofsScqInv C05.ProofsScqSafe C05.ProofsScqOrd C05.ProofsScqTie
  C05.ProofsScqCount C05.ProofsScqThr C05.ProofsScqThr2
  C05.ProofsScqEmpty C05.ProofsScqDead C05.ProofsLscqFresh C05.ProofsLscqFresh2 C05.ProofsLscq C05.ProofsLscqStep C05.ProofsLscqShape
  C05.ProofsLscqSafe C05.ProofsLscqThm C05.ProofsLscqTime.
Open Scope Z_scope.

(* completed queue-level calls as events; the value of an Enqueue / Dequeue is the identity (ring, ticket) under an
   injective encoding *)
Definition qev_of (enc : nat -> Z -> Z) (x : nat * Z * Z * qevent) : list Aspects.event :=
  match x with
  | (i, a, b, QEnq _ r T) => [{| inv := a; resp := b; who := Z.of_nat i; what := HEnq (enc r T) |}]
  | (i, a, b, QDeq (Some (r, H, _))) => [{| inv := a; resp := b; who := Z.of_nat i; what := HDeq (enc r H) |}]
  | (i, a, b, QDeq None) => [{| inv := a; resp := b; who := Z.of_nat i; what := HEmpty |}]
  end.
Definition qhist (enc : nat -> Z -> Z) (tr : list (nat * Z * Z * qevent)) : history := flat_map (qev_of enc) tr.
Definition qquiescent (L : lstate) : Prop := forall i, qth L i = QIdle.
Definition enc_ok (enc : nat -> Z -> Z) : Prop :=
  forall r T r' T', 0 <= T -> 0 <= T' -> enc r T = enc r' T' -> r = r' /\ T = T'.

Section QHist.
Variable enc : nat -> Z -> Z.

Lemma qh_enq tr e x : In e (qhist enc tr) -> is_enq x e -> exists i d r T, x = enc r T /\ In (i, inv e, resp e, QEnq d r T) tr.
Proof.
  unfold qhist. rewrite in_flat_map. intros ([[[i a] b] ev] & Hin & He) Ee.
  destruct ev as [d r T|[[[r H] v]|]]; cbn in He; destruct He as [<-|[]]; unfold is_enq in Ee; cbn in Ee; try discriminate.
  inversion Ee; subst. cbn. eauto 8.
Qed.
Lemma qh_deq tr e x : In e (qhist enc tr) -> is_deq x e -> exists i r H v, x = enc r H /\ In (i, inv e, resp e, QDeq (Some (r, H, v))) tr.
Proof.
  unfold qhist. rewrite in_flat_map. intros ([[[i a] b] ev] & Hin & He) Ee.
  destruct ev as [d r T|[[[r H] v]|]]; cbn in He; destruct He as [<-|[]]; unfold is_deq in Ee; cbn in Ee; try discriminate.
  inversion Ee; subst. cbn. eauto 8.
Qed.
Lemma enq_qh tr i a b d r T : In (i, a, b, QEnq d r T) tr ->
  In {| inv := a; resp := b; who := Z.of_nat i; what := HEnq (enc r T) |} (qhist enc tr).
Proof. intros Hin. unfold qhist. apply in_flat_map. exists (i, a, b, QEnq d r T). split; [exact Hin|now left]. Qed.
Lemma deq_qh tr i a b r H v : In (i, a, b, QDeq (Some (r, H, v))) tr ->
  In {| inv := a; resp := b; who := Z.of_nat i; what := HDeq (enc r H) |} (qhist enc tr).
Proof. intros Hin. unfold qhist. apply in_flat_map. exists (i, a, b, QDeq (Some (r, H, v))). split; [exact Hin|now left]. Qed.

Lemma enq_values_qh tr : enq_values (qhist enc tr) = map (fun p => enc (fst p) (snd p)) (qenq_ids tr).
Proof.
  induction tr as [|[[[i a] b] ev] tr IH]; [reflexivity|].
  unfold qhist, qenq_ids in *. cbn [flat_map]. unfold enq_values in *. rewrite flat_map_app, map_app, IH.
  destruct ev as [d r T|[[[r H] v]|]]; reflexivity.
Qed.
Lemma deq_values_qh tr : deq_values (qhist enc tr) = map (fun p => enc (fst p) (snd p)) (qdeq_ids tr).
Proof.
  induction tr as [|[[[i a] b] ev] tr IH]; [reflexivity|].
  unfold qhist, qdeq_ids in *. cbn [flat_map]. unfold deq_values in *. rewrite flat_map_app, map_app, IH.
  destruct ev as [d r T|[[[r H] v]|]]; reflexivity.
Qed.

Lemma nodup_map_on {A B} (f : A -> B) (l : list A) :
  NoDup l -> (forall x y, In x l -> In y l -> f x = f y -> x = y) -> NoDup (map f l).
Proof.
  intros Hl Hf. induction Hl as [|x l Hx Hl IH]; [constructor|]. cbn. constructor.
  - intros Hin. apply in_map_iff in Hin as (y & E & Hy). apply Hx. rewrite (Hf x y); auto; [now left|now right].
  - apply IH. intros a b Ha Hb. apply Hf; now right.
Qed.

End QHist.

Section FifoQ.
Variable n : Z.
Hypothesis Hn : 1 <= n.
Variable K : nat.
Hypothesis HK : Z.of_nat K <= n + 1.
Variable enc : nat -> Z -> Z.
Hypothesis Henc : enc_ok enc.

Section State.
Variable L : lstate.
Hypothesis HL : LInv n K L.
Hypothesis HQ : QT n L.
Hypothesis HS : ST L.
Hypothesis HR : RI L.
Hypothesis HC : CK n L.
Hypothesis Hq : qquiescent L.

Lemma ring_idle r i : th (rings L r) i = Idle.
Proof.
  destruct (th (rings L r) i) eqn:E; auto; exfalso;
    assert (Hne : th (rings L r) i <> Idle) by (rewrite E; discriminate);
    pose proof (l_act _ _ _ HL i r Hne) as Ha; rewrite Hq in Ha; discriminate Ha.
Qed.

Lemma ord_ring r : Ord (rings L r).
Proof. destruct (t_proj _ _ HQ r) as (rs & ->). now apply ord_reach. Qed.
Lemma src_ring r : Src (rings L r).
Proof. destruct (t_proj _ _ HQ r) as (rs & ->). apply src_reach. Qed.

Lemma enq_ticket_pos i a b d r T : In (i, a, b, QEnq d r T) (qtrace L) -> 0 <= T.
Proof.
  intros Hin. destruct (t_e1 _ _ HQ _ _ _ _ _ _ Hin) as (i0 & a0 & b0 & Hin0).
  pose proof (i_w_rng _ _ (l_inv _ _ _ HL r) _ _ (i_tr_e _ _ (l_inv _ _ _ HL r) _ _ _ _ _ Hin0)). lia.
Qed.
Lemma deq_ticket_pos i a b r H v : In (i, a, b, QDeq (Some (r, H, v))) (qtrace L) -> 0 <= H.
Proof.
  intros Hin. destruct (t_d1 _ _ HQ _ _ _ _ _ _ Hin) as (i0 & a0 & b0 & Hin0).
  pose proof (i_tr_d _ _ (l_inv _ _ _ HL r) _ _ _ _ _ Hin0) as Hc. apply (i_c_w _ _ (l_inv _ _ _ HL r)) in Hc.
  pose proof (i_w_rng _ _ (l_inv _ _ _ HL r) _ _ Hc). lia.
Qed.

(* at quiescence every value written into a ring whose dequeue ticket has been issued has been returned *)
Lemma returned_below_head r T d : In (T, d) (wlog (rings L r)) -> T < hd (rings L r) ->
  exists j a b, In (j, a, b, QDeq (Some (r, T, d))) (qtrace L).
Proof.
  intros Hw Hlt. destruct (no_loss_inv n Hn K L HL HQ r T d Hw) as [Hx|[(j & Hj & _)|(_ & _ & _ & _ & _ & H6 & _)]].
  - exact Hx.
  - exfalso. rewrite ring_idle in Hj. destruct Hj as [Hj|Hj]; discriminate Hj.
  - exfalso. destruct (H6 Hlt) as (j & Hj & _). rewrite ring_idle in Hj. discriminate Hj.
Qed.

(* two Enqueues into the same ring ordered in real time took their tickets in that order *)
Lemma same_ring_enq_order r i1 a1 b1 d1 T1 i2 a2 b2 d2 T2 :
  In (i1, a1, b1, QEnq d1 r T1) (qtrace L) -> In (i2, a2, b2, QEnq d2 r T2) (qtrace L) -> b1 < a2 -> T1 < T2.
Proof.
  intros H1 H2 Hlt. destruct (HC r) as (g & Hc).
  destruct (t_e1 _ _ HQ _ _ _ _ _ _ H1) as (j1 & x1 & y1 & E1). destruct (t_e1 _ _ HQ _ _ _ _ _ _ H2) as (j2 & x2 & y2 & E2).
  destruct (c_enq _ _ _ _ Hc _ _ _ _ _ _ _ _ _ H1 E1) as (_ & G1). destruct (c_enq _ _ _ _ Hc _ _ _ _ _ _ _ _ _ H2 E2) as (G2 & _).
  pose proof (ord_ring r) as HO. pose proof (o_tr _ HO _ _ _ _ E1) as S1. pose proof (o_tr _ HO _ _ _ _ E2) as S2.
  apply (o_ee _ HO _ _ _ _ _ _ _ _ _ _ E1 E2).
  destruct (Z.lt_ge_cases y1 x2) as [|Hge]; [assumption|]. pose proof (c_mono _ _ _ _ Hc x2 y1 ltac:(lia) ltac:(lia) ltac:(lia)). lia.
Qed.
Lemma same_ring_deq_order r i1 a1 b1 H1 v1 i2 a2 b2 H2 v2 :
  In (i1, a1, b1, QDeq (Some (r, H1, v1))) (qtrace L) -> In (i2, a2, b2, QDeq (Some (r, H2, v2))) (qtrace L) -> b1 < a2 -> H1 < H2.
Proof.
  intros D1 D2 Hlt. destruct (HC r) as (g & Hc).
  destruct (t_d1 _ _ HQ _ _ _ _ _ _ D1) as (j1 & x1 & y1 & E1). destruct (t_d1 _ _ HQ _ _ _ _ _ _ D2) as (j2 & x2 & y2 & E2).
  destruct (c_deq _ _ _ _ Hc _ _ _ _ _ _ _ _ _ D1 E1) as (_ & G1). destruct (c_deq _ _ _ _ Hc _ _ _ _ _ _ _ _ _ D2 E2) as (G2 & _).
  pose proof (ord_ring r) as HO. pose proof (o_tr _ HO _ _ _ _ E1) as S1. pose proof (o_tr _ HO _ _ _ _ E2) as S2.
  apply (o_dd _ HO _ _ _ _ _ _ _ _ _ _ E1 E2).
  destruct (Z.lt_ge_cases y1 x2) as [|Hge]; [assumption|]. pose proof (c_mono _ _ _ _ Hc x2 y1 ltac:(lia) ltac:(lia) ltac:(lia)). lia.
Qed.

Theorem fifo_order_state :
  let h := qhist enc (qtrace L) in
  Stamped h /\ UniqueValues h /\ NoFresh h /\ NoRepeat h /\ OrderKept h.
Proof.
  intros h. split; [|split; [|split; [|split]]].
  - (* Stamped *)
    intros e He. unfold h, qhist in He. apply in_flat_map in He as ([[[i a] b] ev] & Hin & He).
    pose proof (s_tr _ HS _ _ _ _ Hin) as Hs.
    destruct ev as [d r T|[[[r H] v]|]]; cbn in He; destruct He as [<-|[]]; cbn; lia.
  - unfold UniqueValues, h. rewrite enq_values_qh. apply nodup_map_on; [apply (t_ne _ _ HQ)|].
    intros [r T] [r' T'] Hx Hy E. cbn in E. apply qenq_ids_in in Hx as (i & a & b & d & Hx). apply qenq_ids_in in Hy as (i' & a' & b' & d' & Hy).
    destruct (Henc r T r' T' (enq_ticket_pos _ _ _ _ _ _ Hx) (enq_ticket_pos _ _ _ _ _ _ Hy) E) as [-> ->]. reflexivity.
  - (* NoFresh *)
    intros d x Hd Dd. destruct (qh_deq enc _ _ _ Hd Dd) as (i & r & H & v & -> & Hin).
    destruct (t_d1 _ _ HQ _ _ _ _ _ _ Hin) as (i0 & a0 & b0 & Hin0).
    pose proof (l_inv _ _ _ HL r) as HI.
    assert (Hw : In (H, v) (wlog (rings L r))) by (apply (i_c_w _ _ HI); exact (i_tr_d _ _ HI _ _ _ _ _ Hin0)).
    destruct (s_w _ (src_ring r) H v Hw) as [Hret|(k & Hk)]; [|exfalso; rewrite ring_idle in Hk; destruct Hk as [Hk|Hk]; discriminate Hk].
    destruct (t_e2 _ _ HQ r H v Hret) as [(i1 & a1 & b1 & Hin1)|(k & c & Hk & _)]; [|exfalso; rewrite Hq in Hk; discriminate Hk].
    exists {| inv := a1; resp := b1; who := Z.of_nat i1; what := HEnq (enc r H) |}.
    split; [eapply enq_qh; eauto|]. split; [reflexivity|]. unfold before. cbn [inv].
    destruct Hret as (i2 & a2 & b2 & Hin2). destruct (HC r) as (g & Hc).
    destruct (c_enq _ _ _ _ Hc _ _ _ _ _ _ _ _ _ Hin1 Hin2) as (G1 & _). destruct (c_deq _ _ _ _ Hc _ _ _ _ _ _ _ _ _ Hin Hin0) as (_ & G2).
    pose proof (ord_ring r) as HO. pose proof (o_fr1 _ HO _ _ _ _ _ _ _ _ _ Hin0 Hin2) as Hfr.
    pose proof (o_tr _ HO _ _ _ _ Hin0) as S0. pose proof (o_tr _ HO _ _ _ _ Hin2) as S2.
    pose proof (c_mono _ _ _ _ Hc a2 b0 ltac:(lia) Hfr ltac:(lia)). lia.
  - unfold NoRepeat, h. rewrite deq_values_qh. apply nodup_map_on; [apply (t_nd _ _ HQ)|].
    intros [r T] [r' T'] Hx Hy E. cbn in E. apply qdeq_ids_in in Hx as (i & a & b & d & Hx). apply qdeq_ids_in in Hy as (i' & a' & b' & d' & Hy).
    destruct (Henc r T r' T' (deq_ticket_pos _ _ _ _ _ _ Hx) (deq_ticket_pos _ _ _ _ _ _ Hy) E) as [-> ->]. reflexivity.
  - (* OrderKept *)
    intros ea eb db a b Hea Heb Hdb Ea Eb Db Hbef.
    destruct (qh_enq enc _ _ _ Hea Ea) as (ia & da & ra & Ta & -> & Ia).
    destruct (qh_enq enc _ _ _ Heb Eb) as (ib & db0 & rb & Tb & -> & Ib).
    destruct (qh_deq enc _ _ _ Hdb Db) as (id & rd & Hd & vd & Ed & Id).
    destruct (Henc _ _ _ _ (enq_ticket_pos _ _ _ _ _ _ Ib) (deq_ticket_pos _ _ _ _ _ _ Id) Ed) as [<- <-].
    unfold before in Hbef.
    pose proof (r_ee _ HR _ _ _ _ _ _ _ _ _ _ _ _ Ia Ib Hbef) as Hrr.
    assert (Hwa : In (Ta, da) (wlog (rings L ra))).
    { destruct (t_e1 _ _ HQ _ _ _ _ _ _ Ia) as (j & x & y & E). exact (i_tr_e _ _ (l_inv _ _ _ HL ra) _ _ _ _ _ E). }
    assert (Hsame : ra = rb -> Ta < Tb) by (intros ->; exact (same_ring_enq_order _ _ _ _ _ _ _ _ _ _ _ Ia Ib Hbef)).
    assert (Hda : exists j x y, In (j, x, y, QDeq (Some (ra, Ta, da))) (qtrace L)).
    { destruct (Nat.eq_dec ra rb) as [E|Hne].
      - apply returned_below_head; [exact Hwa|]. pose proof (Hsame E) as Hlt. subst rb.
        destruct (t_d1 _ _ HQ _ _ _ _ _ _ Id) as (j & x & y & E). pose proof (l_inv _ _ _ HL ra) as HI.
        pose proof (i_c_rng _ _ HI _ _ (i_tr_d _ _ HI _ _ _ _ _ E)). lia.
      - assert (Hlt : (ra < qh L)%nat) by (pose proof (r_dh1 _ HR _ _ _ _ _ _ Id); lia).
        destruct (ring_order_inv n Hn K L HL HQ ra Hlt) as (_ & _ & Hall). destruct (Hall Ta da Hwa) as (Hh & _).
        now apply returned_below_head. }
    split.
    + destruct Hda as (j & x & y & Hin). exists {| inv := x; resp := y; who := Z.of_nat j; what := HDeq (enc ra Ta) |}.
      split; [eapply deq_qh; eauto|reflexivity].
    + intros da' Hda' Da Hb'. destruct (qh_deq enc _ _ _ Hda' Da) as (k & r' & H' & v' & E' & Ida).
      destruct (Henc _ _ _ _ (enq_ticket_pos _ _ _ _ _ _ Ia) (deq_ticket_pos _ _ _ _ _ _ Ida) E') as [<- <-].
      unfold before in Hb'.
      pose proof (r_dd _ HR _ _ _ _ _ _ _ _ _ _ _ _ Id Ida Hb') as Hrr'.
      assert (E : ra = rb) by lia. subst rb.
      pose proof (same_ring_deq_order _ _ _ _ _ _ _ _ _ _ _ Id Ida Hb'). pose proof (Hsame eq_refl). lia.
Qed.

End State.

Theorem lscq_fifo_order sched : (forall l, In l sched -> (qthread l < K)%nat) ->
  let L := qrun n (linit n) sched in
  qquiescent L ->
  let h := qhist enc (qtrace L) in
  Stamped h /\ UniqueValues h /\ NoFresh h /\ NoRepeat h /\ OrderKept h.
Proof.
  intros Hs L Hq. destruct (all_reach n Hn K HK sched Hs) as (HL & HQ & HS & HR & HC). fold L in HL, HQ, HS, HR, HC.
  now apply fifo_order_state.
Qed.

Corollary lscq_lin_if_empty_justified sched : (forall l, In l sched -> (qthread l < K)%nat) ->
  let L := qrun n (linit n) sched in
  qquiescent L -> EmptyJustified (qhist enc (qtrace L)) -> fifo_linearizable (qhist enc (qtrace L)).
Proof.
  intros Hs L Hq HE. destruct (lscq_fifo_order sched Hs Hq) as (H1 & H2 & H3 & H4 & H5).
  apply aspects_linearizable; [exact H1|exact H2|]. split; [exact H3|split; [exact H4|split; [exact H5|exact HE]]].
Qed.

End FifoQ.

(* an injective encoding exists *)
Definition enc_sq (r : nat) (T : Z) : Z := (Z.of_nat r + T) * (Z.of_nat r + T) + Z.of_nat r.
Lemma enc_sq_ok : enc_ok enc_sq.
Proof.
  intros r T r' T' HT HT' E. unfold enc_sq in E.
  assert (Hs : Z.of_nat r + T = Z.of_nat r' + T') by nia.
  assert (Z.of_nat r = Z.of_nat r') by nia. split; [lia|lia].
Qed.
