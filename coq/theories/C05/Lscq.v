(* C05 - the LSCQ layer (Uint64Queue of structure/queues/lscq/uint.go) as an executable small-step concurrent
   system over the ring machines of Scq.v.  DEFINITIONS ONLY; proofs are in ProofsLscq*.v.

   Shared memory: the linked list of rings = ring ids 0 .. nr-1 (ring r's `next` is non-nil iff r+1 < nr: linking
   a ring is appending it), each ring a state of Scq.v (its own head / tail / closed bit / threshold / slots and
   the ring-level control of every thread inside it), the queue's head and tail ring pointers qh, qt, and one
   mutex per ring (cq.mu).  Every atomic access of the queue-level code is one step of one thread; inside
   cq.Enqueue / cq.Dequeue a step of the thread is a step of that ring's machine (Scq.step).  The ring that the
   code takes from uint64SCQPool and fills privately (ncq.Enqueue(data), nobody else can reach it) is built in
   ONE step as the state the ring machine reaches when that thread runs alone ([fresh_with]); the pool is
   modelled as always returning a new ring: the code Puts a ring back only after a lost link CAS, which cannot
   happen under cq.mu, and Dequeue never Puts a retired ring (it is left to the garbage collector).
   Ghost: a global step counter, invocation stamps and the trace of completed queue-level calls; a dequeued value
   carries (ring, ticket), an enqueue (ring, ticket) of the slot it went to. *)
From Coq Require Import ZArith List Bool Arith.
Import ListNotations.
From VF Require Import C05.Scq C05.ScqAux.
Open Scope Z_scope.

Inductive qstate :=
| QIdle
| QE_ldtail (d : Z)                         (* Enqueue: about to load q.tail *)
| QE_ldnext (d : Z) (cq : nat)              (* about to load cq.next *)
| QE_help (d : Z) (cq : nat)                (* next != nil: about to CAS q.tail from cq to cq.next *)
| QE_ring (d : Z) (cq : nat)                (* inside cq.Enqueue(d) *)
| QE_close (d : Z) (cq : nat) (x : Z)       (* ring full: about to set the closed bit of cq.tail; ghost x = the tail ticket given up *)
| QE_lock (d : Z) (cq : nat)                (* about to lock cq.mu *)
| QE_chk (d : Z) (cq : nat)                 (* holding cq.mu: about to load cq.next *)
| QE_alloc (d : Z) (cq : nat)               (* about to take a ring from the pool and enqueue d into it *)
| QE_link (d : Z) (cq : nat) (r : state)    (* about to CAS cq.next from nil to the new ring r *)
| QE_mvtail (d : Z) (cq : nat)              (* linked: about to CAS q.tail from cq to the new ring *)
| QE_unlock_ret (d : Z) (cq : nat)          (* about to unlock cq.mu and return true *)
| QE_unlock_retry (d : Z) (cq : nat)        (* about to unlock cq.mu and go round again *)
| QD_ldhead                                 (* Dequeue: about to load q.head *)
| QD_ring1 (cq : nat)                       (* inside the first cq.Dequeue() *)
| QD_ldnext (cq : nat)                      (* it answered empty: about to load cq.next *)
| QD_reset (cq : nat)                       (* next != nil: about to store cq.threshold := 2*scqsize-1 *)
| QD_ring2 (cq : nat)                       (* inside the second cq.Dequeue() *)
| QD_cas (cq : nat).                        (* still empty: about to CAS q.head from cq to cq.next *)

Inductive qevent :=
| QEnq (v : Z) (r : nat) (T : Z)            (* Enqueue(v) returned true; the value went to ring r, ticket T *)
| QDeq (x : option (nat * Z * Z)).          (* Dequeue returned (v, true) taken from (ring, ticket), or (0, false) *)

Record lstate := mkL {
  rings : nat -> state; nr : nat; qh : nat; qt : nat; mu : nat -> option nat;
  qth : nat -> qstate;
  gclk : Z; qsince : nat -> Z; qtrace : list (nat * Z * Z * qevent);
  cov : nat -> Z                  (* ghost: the tail of ring r when its threshold was last reset by a dequeuer *)
}.

Inductive qlabel :=
| QLEnq (i : nat) (v : Z)      (* idle thread i invokes Enqueue(v) *)
| QLDeq (i : nat)              (* idle thread i invokes Dequeue() *)
| QLStep (i : nat).            (* thread i performs its next atomic access *)

Definition is_idle (s : tstate) : bool := match s with Idle => true | _ => false end.
(* the event of the call that has just returned = the last entry of the ring's trace *)
Definition last_ev (st : state) : option event :=
  match rev (trace st) with (_, _, _, ev) :: _ => Some ev | [] => None end.

Section LSCQ.
Variable n : Z.                 (* scqsize *)

(* the ring a thread fills privately before linking it: Enqueue(d) run alone on a new ring (E1 E2 E4 E6 E7) *)
Definition fresh_with (i : nat) (d : Z) : state := run n (init n) (LEnq i d :: repeat (LStep i) 5).

Definition linit : lstate :=
  mkL (fun _ => init n) 1 0 0 (fun _ => None) (fun _ => QIdle) 0 (fun _ => 0) [] (fun _ => 0).

Definition set_q (L : lstate) (i : nat) (s : qstate) : lstate :=
  mkL (rings L) (nr L) (qh L) (qt L) (mu L) (updf (qth L) i s) (gclk L) (qsince L) (qtrace L) (cov L).
Definition set_ring (L : lstate) (r : nat) (R : state) : lstate :=
  mkL (updf (rings L) r R) (nr L) (qh L) (qt L) (mu L) (qth L) (gclk L) (qsince L) (qtrace L) (cov L).
Definition set_qt (L : lstate) (t : nat) : lstate :=
  mkL (rings L) (nr L) (qh L) t (mu L) (qth L) (gclk L) (qsince L) (qtrace L) (cov L).
Definition set_qh (L : lstate) (h : nat) : lstate :=
  mkL (rings L) (nr L) h (qt L) (mu L) (qth L) (gclk L) (qsince L) (qtrace L) (cov L).
Definition set_mu (L : lstate) (r : nat) (o : option nat) : lstate :=
  mkL (rings L) (nr L) (qh L) (qt L) (updf (mu L) r o) (qth L) (gclk L) (qsince L) (qtrace L) (cov L).
Definition link (L : lstate) (R : state) : lstate :=
  mkL (updf (rings L) (nr L) R) (S (nr L)) (qh L) (qt L) (mu L) (qth L) (gclk L) (qsince L) (qtrace L) (cov L).
Definition qret (L : lstate) (i : nat) (ev : qevent) : lstate :=
  mkL (rings L) (nr L) (qh L) (qt L) (mu L) (updf (qth L) i QIdle) (gclk L) (qsince L)
      (qtrace L ++ [(i, qsince L i, gclk L, ev)]) (cov L).
Definition qinvoke (L : lstate) (i : nat) (s : qstate) : lstate :=
  mkL (rings L) (nr L) (qh L) (qt L) (mu L) (updf (qth L) i s) (gclk L) (updf (qsince L) i (gclk L)) (qtrace L) (cov L).
Definition set_cov (L : lstate) (r : nat) (c : Z) : lstate :=
  mkL (rings L) (nr L) (qh L) (qt L) (mu L) (qth L) (gclk L) (qsince L) (qtrace L) (updf (cov L) r c).
Definition qtick (L : lstate) : lstate :=
  mkL (rings L) (nr L) (qh L) (qt L) (mu L) (qth L) (gclk L + 1) (qsince L) (qtrace L) (cov L).

(* one step of thread i inside ring cq *)
Definition ring_step (L : lstate) (cq i : nat) : state := step n (rings L cq) (LStep i).

Definition qstep_th (L : lstate) (i : nat) : lstate :=
  match qth L i with
  | QIdle => L
  | QE_ldtail d => set_q L i (QE_ldnext d (qt L))
  | QE_ldnext d cq =>
      if (S cq <? nr L)%nat then set_q L i (QE_help d cq)
      else set_q (set_ring L cq (step n (rings L cq) (LEnq i d))) i (QE_ring d cq)       (* enters cq.Enqueue(d) *)
  | QE_help d cq =>
      set_q (if (qt L =? cq)%nat then set_qt L (S cq) else L) i (QE_ldtail d)
  | QE_ring d cq =>
      let R := ring_step L cq i in
      let L1 := set_ring L cq R in
      if is_idle (th R i) then
        match last_ev R with
        | Some (EvEnq _ (Some T)) => qret L1 i (QEnq d cq T)
        | _ => set_q L1 i (QE_close d cq (match fail_ticket n (rings L cq) i with Some x => x | None => 0 end))
        end
      else L1
  | QE_close d cq _ => set_q (set_ring L cq (step n (rings L cq) LClose)) i (QE_lock d cq)
  | QE_lock d cq =>
      match mu L cq with
      | None => set_q (set_mu L cq (Some i)) i (QE_chk d cq)
      | Some _ => L                                                       (* blocked *)
      end
  | QE_chk d cq =>
      if (S cq <? nr L)%nat then set_q L i (QE_unlock_retry d cq) else set_q L i (QE_alloc d cq)
  | QE_alloc d cq => set_q L i (QE_link d cq (fresh_with i d))
  | QE_link d cq R =>
      if (S cq =? nr L)%nat then set_q (link L R) i (QE_mvtail d cq)
      else set_q L i (QE_unlock_retry d cq)                               (* lost CAS: the ring goes back to the pool *)
  | QE_mvtail d cq =>
      set_q (if (qt L =? cq)%nat then set_qt L (S cq) else L) i (QE_unlock_ret d cq)
  | QE_unlock_ret d cq => qret (set_mu L cq None) i (QEnq d (S cq) n)
  | QE_unlock_retry d cq => set_q (set_mu L cq None) i (QE_ldtail d)
  | QD_ldhead =>
      let cq := qh L in
      set_q (set_ring L cq (step n (rings L cq) (LDeq i))) i (QD_ring1 cq)              (* enters cq.Dequeue() *)
  | QD_ring1 cq =>
      let R := ring_step L cq i in
      let L1 := set_ring L cq R in
      if is_idle (th R i) then
        match last_ev R with
        | Some (EvDeq (Some (H, v))) => qret L1 i (QDeq (Some (cq, H, v)))
        | _ => set_q L1 i (QD_ldnext cq)
        end
      else L1
  | QD_ldnext cq =>
      if (S cq <? nr L)%nat then set_q L i (QD_reset cq) else qret L i (QDeq None)
  | QD_reset cq =>
      let R := step n (step n (rings L cq) LResetThr) (LDeq i) in                      (* store, then enters cq.Dequeue() *)
      set_q (set_cov (set_ring L cq R) cq (tl (rings L cq))) i (QD_ring2 cq)
  | QD_ring2 cq =>
      let R := ring_step L cq i in
      let L1 := set_ring L cq R in
      if is_idle (th R i) then
        match last_ev R with
        | Some (EvDeq (Some (H, v))) => qret L1 i (QDeq (Some (cq, H, v)))
        | _ => set_q L1 i (QD_cas cq)
        end
      else L1
  | QD_cas cq =>
      set_q (if (qh L =? cq)%nat then set_qh L (S cq) else L) i QD_ldhead
  end.

Definition qstep (L : lstate) (l : qlabel) : lstate :=
  qtick (match l with
         | QLEnq i v => match qth L i with QIdle => qinvoke L i (QE_ldtail v) | _ => L end
         | QLDeq i => match qth L i with QIdle => qinvoke L i QD_ldhead | _ => L end
         | QLStep i => qstep_th L i
         end).

Definition qrun (L : lstate) (sched : list qlabel) : lstate := fold_left qstep sched L.

End LSCQ.
