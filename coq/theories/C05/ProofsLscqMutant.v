(* C05 - the LSCQ layer really depends on the closed bit surviving fixstate: the same queue-level machine over a ring
   machine with ONE change in fixstate (the closed bit stripped from the tail word before the 'closed or normal'
   test, seeded change C05-13) re-opens a retired ring; an enqueuer that had entered that ring before it was
   closed then writes its value into it after q.head has moved on, and the value is lost.  Two threads, n = 1. *)
From Coq Require Import ZArith List Bool Lia.
Import ListNotations.
From VF Require Import C05.Aspects C05.Lin C05.Proofs_Lin.
From VF Require Import C05.Scq C05.ScqAux C05.Lscq C05.ProofsLscqLin.
Open Scope Z_scope.

Section Gen.
Variable n : Z.
(* the queue-level machine over an arbitrary ring step function (Lscq.qstep is the instance rs = Scq.step n) *)
Variable rs : state -> label -> state.

Definition gstep_th (L : lstate) (i : nat) : lstate :=
  match qth L i with
  | QIdle => L
  | QE_ldtail d => set_q L i (QE_ldnext d (qt L))
  | QE_ldnext d cq =>
      if (S cq <? nr L)%nat then set_q L i (QE_help d cq)
      else set_q (Lscq.set_ring L cq (rs (rings L cq) (LEnq i d))) i (QE_ring d cq)
  | QE_help d cq => set_q (if (qt L =? cq)%nat then set_qt L (S cq) else L) i (QE_ldtail d)
  | QE_ring d cq =>
      let R := rs (rings L cq) (LStep i) in
      let L1 := Lscq.set_ring L cq R in
      if is_idle (th R i) then
        match last_ev R with
        | Some (EvEnq _ (Some T)) => qret L1 i (QEnq d cq T)
        | _ => set_q L1 i (QE_close d cq (match fail_ticket n (rings L cq) i with Some x => x | None => 0 end))
        end
      else L1
  | QE_close d cq _ => set_q (Lscq.set_ring L cq (rs (rings L cq) LClose)) i (QE_lock d cq)
  | QE_lock d cq => match mu L cq with None => set_q (set_mu L cq (Some i)) i (QE_chk d cq) | Some _ => L end
  | QE_chk d cq => if (S cq <? nr L)%nat then set_q L i (QE_unlock_retry d cq) else set_q L i (QE_alloc d cq)
  | QE_alloc d cq => set_q L i (QE_link d cq (fresh_with n i d))
  | QE_link d cq R => if (S cq =? nr L)%nat then set_q (link L R) i (QE_mvtail d cq) else set_q L i (QE_unlock_retry d cq)
  | QE_mvtail d cq => set_q (if (qt L =? cq)%nat then set_qt L (S cq) else L) i (QE_unlock_ret d cq)
  | QE_unlock_ret d cq => qret (set_mu L cq None) i (QEnq d (S cq) n)
  | QE_unlock_retry d cq => set_q (set_mu L cq None) i (QE_ldtail d)
  | QD_ldhead => let cq := qh L in set_q (Lscq.set_ring L cq (rs (rings L cq) (LDeq i))) i (QD_ring1 cq)
  | QD_ring1 cq =>
      let R := rs (rings L cq) (LStep i) in
      let L1 := Lscq.set_ring L cq R in
      if is_idle (th R i) then
        match last_ev R with
        | Some (EvDeq (Some (H, v))) => qret L1 i (QDeq (Some (cq, H, v)))
        | _ => set_q L1 i (QD_ldnext cq)
        end
      else L1
  | QD_ldnext cq => if (S cq <? nr L)%nat then set_q L i (QD_reset cq) else qret L i (QDeq None)
  | QD_reset cq =>
      let R := rs (rs (rings L cq) LResetThr) (LDeq i) in
      set_q (set_cov (Lscq.set_ring L cq R) cq (tl (rings L cq))) i (QD_ring2 cq)
  | QD_ring2 cq =>
      let R := rs (rings L cq) (LStep i) in
      let L1 := Lscq.set_ring L cq R in
      if is_idle (th R i) then
        match last_ev R with
        | Some (EvDeq (Some (H, v))) => qret L1 i (QDeq (Some (cq, H, v)))
        | _ => set_q L1 i (QD_cas cq)
        end
      else L1
  | QD_cas cq => set_q (if (qh L =? cq)%nat then set_qh L (S cq) else L) i QD_ldhead
  end.
Definition gstep (L : lstate) (l : qlabel) : lstate :=
  qtick (match l with
         | QLEnq i v => match qth L i with QIdle => qinvoke L i (QE_ldtail v) | _ => L end
         | QLDeq i => match qth L i with QIdle => qinvoke L i QD_ldhead | _ => L end
         | QLStep i => gstep_th L i
         end).
Definition grun (L : lstate) (sched : list qlabel) : lstate := fold_left gstep sched L.
End Gen.

(* with the faithful ring step it is the machine of Lscq.v *)
Lemma gstep_faithful n L l : gstep n (step n) L l = qstep n L l.
Proof. reflexivity. Qed.

(* fixstate with the closed bit stripped before the comparison; the CAS then installs head as the new tail word,
   closed bit cleared *)
Definition do_F2m (st : state) (i : nat) (oh h : Z) : state :=
  if h <=? tl st then goto st i F4 else goto st i (F3 oh h (tl st)).
Definition do_F3m (st : state) (i : nat) (oh h tv : Z) : state :=
  if tl st =? tv then
    goto (mkS (ring st) (hd st) h false (thr st) (th st) (wlog st) (clog st) (plog st) (clk st) (since st) (trace st)) i F4
  else goto st i (F1 oh).
Definition stepm (n : Z) (st : state) (l : label) : state :=
  match l with
  | LStep i => match th st i with
               | F2 oh h => tick (do_F2m st i oh h)
               | F3 oh h tv => tick (do_F3m st i oh h tv)
               | _ => step n st l
               end
  | _ => step n st l
  end.

Definition reopen_schedule : list qlabel :=
  [QLEnq 0 1] ++ repeat (QLStep 0) 8 ++            (* thread 0: Enqueue(1) completes in ring 0 *)
  [QLEnq 0 2; QLStep 0; QLStep 0] ++               (* thread 0: Enqueue(2) reads q.tail = ring 0, next = nil, enters the ring call - and stalls *)
  [QLEnq 1 3] ++ repeat (QLStep 1) 30 ++           (* thread 1: Enqueue(3): ring 0 full, closes it, links ring 1 holding 3 *)
  [QLDeq 1] ++ repeat (QLStep 1) 15 ++             (* thread 1: Dequeue -> 1 *)
  [QLDeq 1] ++ repeat (QLStep 1) 60 ++             (* thread 1: Dequeue: ring 0 empty, reset, empty again (overrunning the tail: fixstate), head -> ring 1, -> 3 *)
  repeat (QLStep 0) 40 ++                          (* thread 0 wakes up *)
  [QLDeq 1] ++ repeat (QLStep 1) 30.               (* thread 1: Dequeue *)

Definition qanswers (L : lstate) : list (nat * qevent) := map (fun x => (fst (fst (fst x)), snd x)) (qtrace L).

(* the faithful machine: thread 0 finds ring 0 closed, goes round, puts 2 into ring 1; the last Dequeue returns it *)
Example faithful_keeps :
  let L := qrun 1 (linit 1) reopen_schedule in
  qanswers L = [(0%nat, QEnq 1 0 1); (1%nat, QEnq 3 1 1); (1%nat, QDeq (Some (0%nat, 1, 1))); (1%nat, QDeq (Some (1%nat, 1, 3)));
                (0%nat, QEnq 2 1 2); (1%nat, QDeq (Some (1%nat, 2, 2)))] /\
  closed (rings L 0%nat) = true.
Proof. vm_compute. split; reflexivity. Qed.

(* the mutant: the second, post-reset Dequeue of thread 1 overruns the tail of the closed ring 0, fixstate CASes
   tail := head and thereby clears the closed bit; thread 0 then gets ticket 4 in ring 0 and stores 2 there although
   q.head is already at ring 1: Enqueue(2) returned, the value sits at the head of a ring nobody will look at again,
   the next Dequeue answers empty - not linearizable *)
Example mutant_loses :
  let L := grun 1 (stepm 1) (linit 1) reopen_schedule in
  qanswers L = [(0%nat, QEnq 1 0 1); (1%nat, QEnq 3 1 1); (1%nat, QDeq (Some (0%nat, 1, 1))); (1%nat, QDeq (Some (1%nat, 1, 3)));
                (0%nat, QEnq 2 0 4); (1%nat, QDeq None)] /\
  qquiescent L /\ qh L = 1%nat /\ closed (rings L 0%nat) = false /\ hd (rings L 0%nat) = 4 /\
  wlog (rings L 0%nat) = [(4, 2); (1, 1)] /\ clog (rings L 0%nat) = [(1, 1)] /\
  ~ fifo_linearizable (qhist enc_sq (qtrace L)).
Proof.
  cbv zeta. split; [vm_compute; reflexivity|]. split.
  { intros i. destruct i as [|[|i]]; vm_compute; reflexivity. }
  repeat (split; [vm_compute; reflexivity|]).
  intros HL. apply fifo_lin_check_correct in HL. vm_compute in HL. discriminate HL.
Qed.
