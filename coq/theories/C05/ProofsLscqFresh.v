(* C05 - the ring a thread fills privately before linking it (Lscq.fresh_with): its state, and the ring-level
   invariants it satisfies. *)
From Coq Require Import ZArith List Bool Lia Arith.
Import ListNotations.
From VF Require Import C05.Scq C05.ScqAux C05.Lscq C05.ProofsScqInv C05.ProofsScqCount C05.ProofsScqThr C05.ProofsScqThr2 C05.ProofsScqDead.
Open Scope Z_scope.

Section Fresh.
Variable n : Z.
Hypothesis Hn : 1 <= n.
Variable K : nat.
Hypothesis HK : Z.of_nat K <= n + 1.

Lemma n_div : n / n = 1.
Proof. apply Z.div_same. lia. Qed.
Lemma n_mod : n mod n = 0.
Proof. apply Z.mod_same. lia. Qed.

Ltac flat := cbn [ring hd tl closed thr th wlog clog plog clk since trace].
Ltac one := unfold step at 1; unfold step0, tstep, tick; flat; rewrite ?updf_same; cbv iota; flat.

Lemma run_cons' st l ls : run n st (l :: ls) = run n (step n st l) ls.
Proof. reflexivity. Qed.
Ltac onestep := rewrite run_cons'; unfold step, step0, tstep, tick; flat; rewrite ?updf_same; cbv iota; flat.

Lemma fresh_fields i d :
  let R := fresh_with n i d in
  hd R = n /\ tl R = n + 1 /\ closed R = false /\ thr R = 2 * n - 1 /\ (forall k, th R k = Idle) /\
  wlog R = [(n, d)] /\ clog R = [] /\ plog R = [] /\
  trace R = [(i, 0, 5, EvEnq d (Some n))] /\
  ring R 0 = mkE true false 1 d /\ (forall j, j <> 0 -> ring R j = entry0).
Proof.
  cbv zeta. unfold fresh_with. cbn [repeat].
  rewrite run_cons'. unfold step, step0, tick, init. flat. unfold invoke. flat.
  onestep. unfold do_E1. flat. unfold goto, set_tl. flat.
  onestep. unfold do_E2, slot, cyc_of. flat. rewrite n_div. cbn [entry0 cyc emp safe].
  replace (0 <? 1) with true by reflexivity. cbn [andb]. unfold goto. flat.
  onestep. unfold do_E4, slot, cyc_of. flat.
  replace (entry_eqb entry0 {| safe := true; emp := true; cyc := 0; dat := 0 |}) with true by reflexivity.
  unfold goto, add_w, Scq.set_ring. flat.
  onestep. unfold do_E6. flat.
  assert (Hne : (-1 =? thr_full n) = false) by (apply Z.eqb_neq; unfold thr_full; lia). rewrite Hne. unfold goto. flat.
  onestep. unfold do_E7, ret, set_thr. flat.
  cbn [run fold_left]. flat. rewrite n_div, n_mod. unfold thr_full.
  repeat split; try reflexivity; try (intros k; unfold updf; destruct (Nat.eqb k i); reflexivity);
    try (rewrite updf_same; reflexivity).
  intros j Hj. unfold updr. destruct (Z.eqb_spec j 0); [contradiction|reflexivity].
Qed.

End Fresh.
