(* C05 - the small-step SCQ ring: who holds a logged value (second, independent invariant), monotone cycles,
   and the safety / no-loss theorems for every schedule. *)
From Coq Require Import ZArith List Bool Lia Arith.
Import ListNotations.
From VF Require Import C05.Scq C05.ProofsScqInv.
Open Scope Z_scope.

Section Safe.
Variable n : Z.
Hypothesis Hn : 1 <= n.

(* an Enqueue past its CAS that has not returned yet / a Dequeue that has taken a value and not returned yet *)
Definition enq_inflight (st : state) (T v : Z) : Prop := exists i, th st i = E6 v T \/ th st i = E7 v T.
Definition deq_inflight (st : state) (H v : Z) : Prop := exists i, th st i = D3a H v \/ th st i = D3b H v.
Definition enq_returned (st : state) (T v : Z) : Prop := exists i a b, In (i, a, b, EvEnq v (Some T)) (trace st).
Definition deq_returned (st : state) (H v : Z) : Prop := exists i a b, In (i, a, b, EvDeq (Some (H, v))) (trace st).

Record Src (st : state) : Prop := {
  s_w : forall T v, In (T, v) (wlog st) -> enq_returned st T v \/ enq_inflight st T v;
  s_c : forall H v, In (H, v) (clog st) -> deq_returned st H v \/ deq_inflight st H v
}.

Definition holder (s : tstate) : bool :=
  match s with E6 _ _ | E7 _ _ | D3a _ _ | D3b _ _ => true | _ => false end.

(* thread i, not holding a logged value, moves to a state that does not hold one either; logs unchanged, trace grows *)
Lemma src_th st i s tr' r h t c tr p k0 s0 :
  Src st -> holder (th st i) = false -> holder s = false -> (forall x, In x (trace st) -> In x tr') ->
  Src (mkS r h t c tr (updf (th st) i s) (wlog st) (clog st) p k0 s0 tr').
Proof.
  intros HS Hh Hs Htr. constructor; unfold enq_returned, enq_inflight, deq_returned, deq_inflight in *; cbn [wlog clog th trace].
  - intros T v Hin. destruct (s_w _ HS T v Hin) as [(k & a & b & Hk)|(k & Hk)].
    + left. exists k, a, b. auto.
    + right. exists k. destruct (Nat.eq_dec k i) as [->|Hki]; [|now rewrite updf_other].
      exfalso. destruct Hk as [Hk|Hk]; rewrite Hk in Hh; discriminate Hh.
  - intros H v Hin. destruct (s_c _ HS H v Hin) as [(k & a & b & Hk)|(k & Hk)].
    + left. exists k, a, b. auto.
    + right. exists k. destruct (Nat.eq_dec k i) as [->|Hki]; [|now rewrite updf_other].
      exfalso. destruct Hk as [Hk|Hk]; rewrite Hk in Hh; discriminate Hh.
Qed.

Ltac plain HS Ht := apply src_th; [exact HS|rewrite Ht; reflexivity|reflexivity|auto].
Ltac plain_ret HS Ht := apply src_th; [exact HS|rewrite Ht; reflexivity|reflexivity|intros x Hx; apply in_or_app; now left].

Lemma src_tstep st i : Src st -> Src (tstep n st i).
Proof.
  intros HS. unfold tstep. destruct (th st i) eqn:Ht; [exact HS| | | | | | | | | | | | | | | | | | |].
  - unfold do_E1, ret, goto, set_tl. destruct (closed st); cbn [ring hd tl closed thr th wlog clog plog clk since trace]; [plain_ret HS Ht|plain HS Ht].
  - unfold do_E2, goto. destruct (_ && _); [destruct (safe _)|]; plain HS Ht.
  - unfold do_E3, goto. destruct (_ <=? _); plain HS Ht.
  - unfold do_E4, goto, add_w, set_ring. destruct (entry_eqb _ _); cbn [ring hd tl closed thr th wlog clog plog clk since trace]; [|plain HS Ht].
    constructor; unfold enq_returned, enq_inflight, deq_returned, deq_inflight in *; cbn [wlog clog th trace].
    + intros T0 v [E|Hin].
      * inversion E; subst. right. exists i. left. apply updf_same.
      * destruct (s_w _ HS T0 v Hin) as [Hx|(k & Hk)]; [now left|right]. exists k.
        destruct (Nat.eq_dec k i) as [->|Hki]; [|now rewrite updf_other].
        exfalso. destruct Hk as [Hk|Hk]; rewrite Hk in Ht; discriminate Ht.
    + intros H v Hin. destruct (s_c _ HS H v Hin) as [Hx|(k & Hk)]; [now left|right]. exists k.
      destruct (Nat.eq_dec k i) as [->|Hki]; [|now rewrite updf_other].
      exfalso. destruct Hk as [Hk|Hk]; rewrite Hk in Ht; discriminate Ht.
  - unfold do_E5, ret, goto. destruct (_ <=? _); [plain_ret HS Ht|plain HS Ht].
  - (* E6 *)
    unfold do_E6, ret, goto. destruct (_ =? _).
    + constructor; unfold enq_returned, enq_inflight, deq_returned, deq_inflight in *; cbn [wlog clog th trace].
      * intros T0 v Hin. destruct (s_w _ HS T0 v Hin) as [(k & a & b & Hk)|(k & Hk)].
        -- left. exists k, a, b. apply in_or_app. now left.
        -- destruct (Nat.eq_dec k i) as [->|Hki]; [|right; exists k; now rewrite updf_other].
           left. exists i, (since st i), (clk st). apply in_or_app. right. left.
           destruct Hk as [Hk|Hk]; rewrite Hk in Ht; inversion Ht; subst; reflexivity.
      * intros H v Hin. destruct (s_c _ HS H v Hin) as [(k & a & b & Hk)|(k & Hk)].
        -- left. exists k, a, b. apply in_or_app. now left.
        -- right. exists k. destruct (Nat.eq_dec k i) as [->|Hki]; [|now rewrite updf_other].
           exfalso. destruct Hk as [Hk|Hk]; rewrite Hk in Ht; discriminate Ht.
    + constructor; unfold enq_returned, enq_inflight, deq_returned, deq_inflight in *; cbn [wlog clog th trace].
      * intros T0 v Hin. destruct (s_w _ HS T0 v Hin) as [Hx|(k & Hk)]; [now left|right].
        destruct (Nat.eq_dec k i) as [->|Hki]; [|exists k; now rewrite updf_other].
        exists i. right. rewrite updf_same. destruct Hk as [Hk|Hk]; rewrite Hk in Ht; inversion Ht; subst; reflexivity.
      * intros H v Hin. destruct (s_c _ HS H v Hin) as [Hx|(k & Hk)]; [now left|right]. exists k.
        destruct (Nat.eq_dec k i) as [->|Hki]; [|now rewrite updf_other].
        exfalso. destruct Hk as [Hk|Hk]; rewrite Hk in Ht; discriminate Ht.
  - (* E7 *)
    unfold do_E7, ret, set_thr. constructor; unfold enq_returned, enq_inflight, deq_returned, deq_inflight in *; cbn [ring hd tl closed thr th wlog clog plog clk since trace].
    + intros T0 v Hin. destruct (s_w _ HS T0 v Hin) as [(k & a & b & Hk)|(k & Hk)].
      * left. exists k, a, b. apply in_or_app. now left.
      * destruct (Nat.eq_dec k i) as [->|Hki]; [|right; exists k; now rewrite updf_other].
        left. exists i, (since st i), (clk st). apply in_or_app. right. left.
        destruct Hk as [Hk|Hk]; rewrite Hk in Ht; inversion Ht; subst; reflexivity.
    + intros H v Hin. destruct (s_c _ HS H v Hin) as [(k & a & b & Hk)|(k & Hk)].
      * left. exists k, a, b. apply in_or_app. now left.
      * right. exists k. destruct (Nat.eq_dec k i) as [->|Hki]; [|now rewrite updf_other].
        exfalso. destruct Hk as [Hk|Hk]; rewrite Hk in Ht; discriminate Ht.
  - unfold do_D0, ret, goto. destruct (_ <? _); [plain_ret HS Ht|plain HS Ht].
  - unfold do_D1, goto, set_hd. cbn [ring hd tl closed thr th wlog clog plog clk since trace]. plain HS Ht.
  - (* D2 *)
    unfold do_D2, goto, add_c, add_p. destruct (_ =? _); [|destruct (_ <? _)]; cbn [ring hd tl closed thr th wlog clog plog clk since trace]; [|plain HS Ht|].
    + constructor; unfold enq_returned, enq_inflight, deq_returned, deq_inflight in *; cbn [wlog clog th trace].
      * intros T0 v Hin. destruct (s_w _ HS T0 v Hin) as [Hx|(k & Hk)]; [now left|right]. exists k.
        destruct (Nat.eq_dec k i) as [->|Hki]; [|now rewrite updf_other].
        exfalso. destruct Hk as [Hk|Hk]; rewrite Hk in Ht; discriminate Ht.
      * intros H0 v [E|Hin].
        -- inversion E; subst. right. exists i. left. apply updf_same.
        -- destruct (s_c _ HS H0 v Hin) as [Hx|(k & Hk)]; [now left|right]. exists k.
           destruct (Nat.eq_dec k i) as [->|Hki]; [|now rewrite updf_other].
           exfalso. destruct Hk as [Hk|Hk]; rewrite Hk in Ht; discriminate Ht.
    + constructor; unfold enq_returned, enq_inflight, deq_returned, deq_inflight in *; cbn [wlog clog th trace].
      * intros T0 v Hin. destruct (s_w _ HS T0 v Hin) as [Hx|(k & Hk)]; [now left|right]. exists k.
        destruct (Nat.eq_dec k i) as [->|Hki]; [|now rewrite updf_other].
        exfalso. destruct Hk as [Hk|Hk]; rewrite Hk in Ht; discriminate Ht.
      * intros H0 v Hin. destruct (s_c _ HS H0 v Hin) as [Hx|(k & Hk)]; [now left|right]. exists k.
        destruct (Nat.eq_dec k i) as [->|Hki]; [|now rewrite updf_other].
        exfalso. destruct Hk as [Hk|Hk]; rewrite Hk in Ht; discriminate Ht.
  - (* D3a *)
    unfold do_D3a, goto, set_ring. constructor; unfold enq_returned, enq_inflight, deq_returned, deq_inflight in *; cbn [ring hd tl closed thr th wlog clog plog clk since trace].
    + intros T0 v Hin. destruct (s_w _ HS T0 v Hin) as [Hx|(k & Hk)]; [now left|right]. exists k.
      destruct (Nat.eq_dec k i) as [->|Hki]; [|now rewrite updf_other].
      exfalso. destruct Hk as [Hk|Hk]; rewrite Hk in Ht; discriminate Ht.
    + intros H0 v Hin. destruct (s_c _ HS H0 v Hin) as [Hx|(k & Hk)]; [now left|right].
      destruct (Nat.eq_dec k i) as [->|Hki]; [|exists k; now rewrite updf_other].
      exists i. right. rewrite updf_same. destruct Hk as [Hk|Hk]; rewrite Hk in Ht; inversion Ht; subst; reflexivity.
  - (* D3b *)
    unfold do_D3b, ret, set_ring. constructor; unfold enq_returned, enq_inflight, deq_returned, deq_inflight in *; cbn [ring hd tl closed thr th wlog clog plog clk since trace].
    + intros T0 v Hin. destruct (s_w _ HS T0 v Hin) as [(k & a & b & Hk)|(k & Hk)].
      * left. exists k, a, b. apply in_or_app. now left.
      * right. exists k. destruct (Nat.eq_dec k i) as [->|Hki]; [|now rewrite updf_other].
        exfalso. destruct Hk as [Hk|Hk]; rewrite Hk in Ht; discriminate Ht.
    + intros H0 v Hin. destruct (s_c _ HS H0 v Hin) as [(k & a & b & Hk)|(k & Hk)].
      * left. exists k, a, b. apply in_or_app. now left.
      * destruct (Nat.eq_dec k i) as [->|Hki]; [|right; exists k; now rewrite updf_other].
        left. exists i, (since st i), (clk st). apply in_or_app. right. left.
        destruct Hk as [Hk|Hk]; rewrite Hk in Ht; inversion Ht; subst; reflexivity.
  - (* D4 *)
    unfold do_D4, goto, add_p, set_ring. destruct (entry_eqb _ _); cbn [ring hd tl closed thr th wlog clog plog clk since trace]; plain HS Ht.
  - unfold do_D5, goto. destruct (_ <=? _); plain HS Ht.
  - unfold do_D7, ret, goto, set_thr. destruct (_ <=? _); cbn [ring hd tl closed thr th wlog clog plog clk since trace]; [plain_ret HS Ht|plain HS Ht].
  - unfold do_F1, goto. destruct (_ <? _); plain HS Ht.
  - unfold do_F2, goto. destruct (_ || _); plain HS Ht.
  - unfold do_F3, goto, set_tl. destruct (_ && _); cbn [ring hd tl closed thr th wlog clog plog clk since trace]; plain HS Ht.
  - unfold do_F4, ret, set_thr. cbn [ring hd tl closed thr th wlog clog plog clk since trace]. plain_ret HS Ht.
Qed.

Lemma src_ext st st' :
  th st' = th st -> wlog st' = wlog st -> clog st' = clog st -> trace st' = trace st -> Src st -> Src st'.
Proof.
  intros E1 E2 E3 E4 [H1 H2]. constructor; unfold enq_returned, enq_inflight, deq_returned, deq_inflight in *.
  - intros T v Hin. rewrite E2 in Hin. destruct (H1 T v Hin) as [(k & a & b & Hk)|(k & Hk)].
    + left. exists k, a, b. now rewrite E4.
    + right. exists k. now rewrite E1.
  - intros H v Hin. rewrite E3 in Hin. destruct (H2 H v Hin) as [(k & a & b & Hk)|(k & Hk)].
    + left. exists k, a, b. now rewrite E4.
    + right. exists k. now rewrite E1.
Qed.

Lemma src_step st l : Src st -> Src (step n st l).
Proof.
  intros HS. unfold step. apply (src_ext (step0 n st l)); try reflexivity.
  destruct l as [i v|i|i| |]; cbn [step0]; [| | | |apply (src_ext st); auto].
  - destruct (th st i) eqn:Ht; try exact HS. unfold invoke. plain HS Ht.
  - destruct (th st i) eqn:Ht; try exact HS. unfold invoke. plain HS Ht.
  - now apply src_tstep.
  - apply (src_ext st); auto.
Qed.

Lemma src_init : Src (init n).
Proof. constructor; cbn; intros ? ? []. Qed.

Theorem src_reach sched : Src (run n (init n) sched).
Proof.
  assert (H : forall st, Src st -> Src (run n st sched)).
  { induction sched as [|l sched IH]; intros st HS; [exact HS|]. cbn [run fold_left]. apply IH. now apply src_step. }
  apply H. apply src_init.
Qed.

(* ------------------------------------------------------------------ cycles never decrease *)
Lemma cyc_mono_tstep st i j : Inv n st -> cyc (ring st j) <= cyc (ring (tstep n st i) j).
Proof.
  intros HI. unfold tstep. destruct (th st i) eqn:Ht; try lia.
  - unfold do_E1. destruct (closed st); cbn; lia.
  - unfold do_E2. destruct (_ && _); [destruct (safe _)|]; cbn; lia.
  - unfold do_E3. destruct (_ <=? _); cbn; lia.
  - pose proof (i_t _ _ HI i) as Hti. rewrite Ht in Hti. cbn [tinv] in Hti.
    destruct Hti as (_ & _ & _ & _ & Hc & _).
    unfold do_E4, slot, cyc_of. destruct (entry_eqb _ _) eqn:Eq; cbn; [|lia].
    apply entry_eqb_eq in Eq. unfold updr. destruct (Z.eqb_spec j (T mod n)) as [->|]; [|lia].
    rewrite Eq. cbn. lia.
  - unfold do_E5. destruct (_ <=? _); cbn; lia.
  - unfold do_E6. destruct (_ =? _); cbn; lia.
  - cbn. lia.
  - unfold do_D0. destruct (_ <? _); cbn; lia.
  - cbn. lia.
  - unfold do_D2. destruct (_ =? _); [|destruct (_ <? _)]; cbn; lia.
  - unfold do_D3a, slot. cbn. unfold updr. destruct (Z.eqb_spec j (H mod n)) as [->|]; cbn; lia.
  - unfold do_D3b, slot. cbn. unfold updr. destruct (Z.eqb_spec j (H mod n)) as [->|]; cbn; lia.
  - pose proof (i_t _ _ HI i) as Hti. rewrite Ht in Hti. cbn [tinv] in Hti.
    destruct Hti as (_ & _ & _ & Hc).
    unfold do_D4, slot, cyc_of. destruct (entry_eqb _ _) eqn:Eq; cbn; [|lia].
    apply entry_eqb_eq in Eq. unfold updr. destruct (Z.eqb_spec j (H mod n)) as [->|]; [|lia].
    rewrite Eq. destruct (emp e); cbn; lia.
  - unfold do_D5. destruct (_ <=? _); cbn; lia.
  - unfold do_D7. destruct (_ <=? _); cbn; lia.
  - unfold do_F1. destruct (_ <? _); cbn; lia.
  - unfold do_F2. destruct (_ || _); cbn; lia.
  - unfold do_F3. destruct (_ && _); cbn; lia.
  - cbn. lia.
Qed.

Theorem cyc_mono st l j : Inv n st -> cyc (ring st j) <= cyc (ring (step n st l) j).
Proof.
  intros HI. unfold step. cbn [tick ring]. destruct l as [i v|i|i| |]; cbn [step0]; [| | | |cbn; lia].
  - destruct (th st i); cbn; lia.
  - destruct (th st i); cbn; lia.
  - now apply cyc_mono_tstep.
  - cbn. lia.
Qed.

(* ------------------------------------------------------------------ safety and no loss, for every schedule *)
Theorem scq_safety sched :
  let st := run n (init n) sched in
  (forall H v, deq_returned st H v -> In (H, v) (wlog st) /\ ~ In H (plog st)) /\
  (forall T v, In (T, v) (wlog st) -> enq_returned st T v \/ enq_inflight st T v) /\
  (forall T v, enq_returned st T v \/ enq_inflight st T v -> In (T, v) (wlog st)) /\
  NoDup (map fst (wlog st)) /\
  NoDup (deq_tickets (trace st)).
Proof.
  intros st. pose proof (inv_reach n Hn sched) as HI. pose proof (src_reach sched) as HS. fold st in HI, HS.
  split; [|split; [|split; [|split]]].
  - intros H v (i & a & b & Hin). pose proof (i_tr_d _ _ HI i a b H v Hin) as Hc. split.
    + now apply (i_c_w _ _ HI).
    + intros Hp. apply (i_p_c _ _ HI H Hp). eapply in_fst; eauto.
  - apply (s_w _ HS).
  - intros T v [(i & a & b & Hin)|(i & Hi)].
    + exact (i_tr_e _ _ HI i a b v T Hin).
    + pose proof (i_t _ _ HI i) as Hti. destruct Hi as [Hi|Hi]; rewrite Hi in Hti; exact Hti.
  - apply (i_w_nd _ _ HI).
  - apply (i_tr_nd _ _ HI).
Qed.

Theorem scq_no_loss sched :
  let st := run n (init n) sched in
  forall T v, In (T, v) (wlog st) ->
    deq_returned st T v \/ deq_inflight st T v \/
    (emp (ring st (T mod n)) = false /\ cyc (ring st (T mod n)) = T / n /\ dat (ring st (T mod n)) = v /\
     ~ In T (plog st) /\ ~ In T (map fst (clog st)) /\
     (T < hd st -> exists i, pending (th st i) = Some T)).
Proof.
  intros st T v Hw. pose proof (inv_reach n Hn sched) as HI. pose proof (src_reach sched) as HS. fold st in HI, HS.
  assert (Hcl : In (T, v) (clog st) -> deq_returned st T v \/ deq_inflight st T v \/
     (emp (ring st (T mod n)) = false /\ cyc (ring st (T mod n)) = T / n /\ dat (ring st (T mod n)) = v /\
     ~ In T (plog st) /\ ~ In T (map fst (clog st)) /\ (T < hd st -> exists i, pending (th st i) = Some T))).
  { intros Hc. destruct (s_c _ HS T v Hc) as [Hx|Hx]; auto. }
  destruct (i_h _ _ HI T v Hw) as [Hc|(H1 & H2 & H3 & H4)]; [now apply Hcl|].
  destruct (in_dec Z.eq_dec T (map fst (clog st))) as [Hin|Hnin].
  - apply in_map_iff in Hin as ([T' v'] & E & Hin). cbn in E. subst T'.
    assert (v' = v) by (eapply nodup_fst_fun; [apply (i_w_nd _ _ HI)|apply (i_c_w _ _ HI); exact Hin|exact Hw]).
    subst v'. now apply Hcl.
  - right; right. repeat (split; [assumption|]). intros Hlt.
    pose proof (i_w_rng _ _ HI T v Hw) as Hr.
    destruct (i_5 _ _ HI T ltac:(lia)) as [Hx|[Hx|Hx]]; [contradiction|contradiction|exact Hx].
Qed.

End Safe.

Print Assumptions inv_reach.
Print Assumptions scq_safety.
Print Assumptions scq_no_loss.
Print Assumptions cyc_mono.
