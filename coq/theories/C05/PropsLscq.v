(* C05 property theorems about CONCURRENT executions of the whole LSCQ (lscq.go / uint.go Uint64Queue, and the
   pointer / generic twins): small-step model Lscq.v = a list of Scq.v ring machines + q.head / q.tail ring indexes
   + per-thread control for the queue-level Enqueue / Dequeue code; every atomic access (load of q.tail, q.head,
   cq.next, the closing bit-set, mu.Lock / Unlock, the link CAS, the CASes on q.tail / q.head, the threshold store)
   is one step of one thread, a ring-level call runs the Scq.v steps of that ring one at a time, closing is a step of
   the enqueuer whose ring-level Enqueue failed.  A ring taken from the pool is modelled as a freshly allocated ring
   filled privately by its owner before the link (fresh_with): Dequeue never Puts a retired ring back, and the only
   Put (lost link CAS) is unreachable under cq.mu.  Threads are bounded by K <= n + 1 (n = scqsize), the exact bound
   of the ring-level threshold argument (C05_scq_threshold_refuted: n + 2 threads break one ring).
   Nothing but statements closed by [exact] and Print Assumptions. *)
From Coq Require Import ZArith List Bool Lia Arith.
Import ListNotations.
From VF Require Import C05.Aspects C05.Lin.
From VF Require Import C05.Scq C05.ScqAux C05.Lscq C05.ProofsScqInv C05.ProofsScqSafe C05.ProofsScqThr C05.ProofsScqThr2 C05.ProofsScqDead
  C05.ProofsLscq C05.ProofsLscqStep C05.ProofsLscqShape C05.ProofsLscqSafe C05.ProofsLscqThm C05.ProofsLscqTime C05.ProofsLscqLin C05.ProofsLscqJus C05.ProofsLscqTie C05.ProofsLscqMutant C05.ProofsLscqEx.
From VF Require C05.Model.
Open Scope Z_scope.

(* (1) STRUCTURE.  In every reachable state (any schedule of threads 0..K-1, K <= n+1): at least one ring is linked,
   q.head and q.tail point to linked rings; every ring is a reachable state of the ring machine Scq.v (so every
   any-schedule ring theorem of PropsScq.v holds for it: tickets, cycles, slots, safety, no loss, ticket order);
   only the last linked ring can be open; a thread is inside ring r only while its queue-level code is inside the
   ring-level call on r. *)
Theorem C05_lscq_invariant : forall n, 1 <= n -> forall K, Z.of_nat K <= n + 1 ->
  forall sched, (forall l, In l sched -> (qthread l < K)%nat) ->
  let L := qrun n (linit n) sched in
  (1 <= nr L)%nat /\ (qh L < nr L)%nat /\ (qt L < nr L)%nat /\
  (forall r, exists rs, rings L r = run n (init n) rs) /\
  (forall r, (nr L <= r)%nat -> rings L r = init n) /\
  (forall r, (S r < nr L)%nat -> closed (rings L r) = true) /\
  (forall i r, th (rings L r) i <> Idle -> in_ring (qth L i) = Some r) /\
  (forall i, (K <= i)%nat -> qth L i = QIdle).
Proof. exact lscq_invariant. Qed.

(* (2) RETIRED RINGS ARE DEAD.  [tgt st T]: ticket T is held by an enqueuer in flight (between its fetch-add and the
   end of its slot attempt) or written and not consumed; [dead st]: no such ticket at or above the ring's head.  A
   ring the queue head has left - already a ring whose second, post-reset Dequeue answered empty, before the CAS
   on q.head - is closed and dead: nothing is in it beyond what dequeuers already inside hold, and nothing can be
   added.  This is what excludes 'a stale enqueuer writing into a retired ring' (seeded changes C05-12, C05-13: both
   break it - the first by un-linking, so that nr is no longer monotone, the second by re-opening a closed ring). *)
Theorem C05_lscq_retired_rings_dead : forall n, 1 <= n -> forall K, Z.of_nat K <= n + 1 ->
  forall sched, (forall l, In l sched -> (qthread l < K)%nat) ->
  let L := qrun n (linit n) sched in
  (forall r, (r < qh L)%nat -> closed (rings L r) = true /\ dead (rings L r)) /\
  (forall i cq, qth L i = QD_cas cq -> closed (rings L cq) = true /\ dead (rings L cq)).
Proof. exact lscq_retired. Qed.

(* a closed ring accepts no new ticket after its close instant: whatever step comes next, it stays closed, its head
   does not move back and its set of targets only shrinks (a value can still be written by an enqueuer that took
   its ticket before the close, with that ticket) *)
Theorem C05_lscq_closed_ring_final : forall n, 1 <= n -> forall K, Z.of_nat K <= n + 1 ->
  forall sched l, (forall l, In l sched -> (qthread l < K)%nat) -> (qthread l < K)%nat ->
  let L := qrun n (linit n) sched in let L' := qstep n L l in
  forall r, closed (rings L r) = true ->
    closed (rings L' r) = true /\ (forall T, tgt (rings L' r) T -> tgt (rings L r) T) /\ hd (rings L r) <= hd (rings L' r).
Proof. exact lscq_closed_final. Qed.

(* (3) SAFETY ACROSS RINGS.  A value is identified by (ring, ticket).  A completed queue-level Dequeue returned the
   value written by the enqueue CAS with that ticket in that (linked) ring; a completed queue-level Enqueue wrote
   its value with its ticket into its ring; every value in a ring was written by a queue-level Enqueue(d) that has
   returned, or is past its CAS inside the ring call, or has linked the ring it filled and is on its way out;
   no (ring, ticket) is returned twice by Enqueues, none twice by Dequeues; one write per ticket in every ring. *)
Theorem C05_lscq_safety : forall n, 1 <= n -> forall K, Z.of_nat K <= n + 1 ->
  forall sched, (forall l, In l sched -> (qthread l < K)%nat) ->
  let L := qrun n (linit n) sched in
  (forall i a b r H v, In (i, a, b, QDeq (Some (r, H, v))) (qtrace L) -> (r < nr L)%nat /\ In (H, v) (wlog (rings L r))) /\
  (forall i a b d r T, In (i, a, b, QEnq d r T) (qtrace L) -> (r < nr L)%nat /\ In (T, d) (wlog (rings L r))) /\
  (forall r T d, In (T, d) (wlog (rings L r)) ->
     (exists i a b, In (i, a, b, QEnq d r T) (qtrace L)) \/
     (exists i, (th (rings L r) i = E6 d T \/ th (rings L r) i = E7 d T) /\ qth L i = QE_ring d r) \/
     (exists i cq, lnk (qth L i) = Some (d, cq) /\ r = S cq /\ T = n)) /\
  NoDup (qenq_ids (qtrace L)) /\ NoDup (qdeq_ids (qtrace L)) /\
  (forall r, NoDup (map fst (wlog (rings L r)))).
Proof. exact lscq_safety. Qed.

(* (4) NO LOSS ACROSS RINGS.  A value written into ring r with ticket T (in particular one whose queue-level Enqueue
   returned) is, in every reachable state: returned by a completed queue-level Dequeue; or taken by a dequeuer that
   is inside the ring call on r and about to return it; or still in its slot, its dequeue ticket neither given up
   nor consumed, and then - if the ring head is already past T - the dequeuer holding ticket T is inside the ring
   call on r, and - if q.head has left ring r - the ring head IS past T. *)
Theorem C05_lscq_no_loss : forall n, 1 <= n -> forall K, Z.of_nat K <= n + 1 ->
  forall sched, (forall l, In l sched -> (qthread l < K)%nat) ->
  let L := qrun n (linit n) sched in
  forall r T d, In (T, d) (wlog (rings L r)) ->
    (exists j a b, In (j, a, b, QDeq (Some (r, T, d))) (qtrace L)) \/
    (exists j, (th (rings L r) j = D3a T d \/ th (rings L r) j = D3b T d) /\ in_ring (qth L j) = Some r) \/
    (emp (ring (rings L r) (T mod n)) = false /\ cyc (ring (rings L r) (T mod n)) = T / n /\ dat (ring (rings L r) (T mod n)) = d /\
     ~ In T (plog (rings L r)) /\ ~ In T (map fst (clog (rings L r))) /\
     (T < hd (rings L r) -> exists j, pending (th (rings L r) j) = Some T /\ in_ring (qth L j) = Some r) /\
     ((r < qh L)%nat -> T < hd (rings L r))).
Proof. exact lscq_no_loss. Qed.

(* (5) ORDER OF THE RINGS, state form.  Once q.head has left ring r: the ring is closed, no enqueuer in flight holds
   a ticket at or above its head, and EVERY value ever written into it has its dequeue ticket issued and is either
   returned by a completed queue-level Dequeue or in the hands of a dequeuer that is still inside the ring call on
   r (so that Dequeue was invoked before q.head moved on).  Values of ring r+1 are handed out only through q.head,
   hence only to Dequeues that read q.head after that instant. *)
Theorem C05_lscq_ring_order : forall n, 1 <= n -> forall K, Z.of_nat K <= n + 1 ->
  forall sched, (forall l, In l sched -> (qthread l < K)%nat) ->
  let L := qrun n (linit n) sched in
  forall r, (r < qh L)%nat ->
    closed (rings L r) = true /\
    (forall i T, hold (th (rings L r) i) = Some T -> T < hd (rings L r)) /\
    (forall T d, In (T, d) (wlog (rings L r)) ->
       T < hd (rings L r) /\
       ((exists j a b, In (j, a, b, QDeq (Some (r, T, d))) (qtrace L)) \/
        (exists j, in_ring (qth L j) = Some r /\
           (th (rings L r) j = D3a T d \/ th (rings L r) j = D3b T d \/ pending (th (rings L r) j) = Some T)))).
Proof. exact lscq_ring_order. Qed.

(* (6) THE WHOLE QUEUE IS LINEARIZABLE (at most K <= n+1 threads).  For every schedule and every quiescent reachable
   state (all queue-level calls returned), the completed calls - as a timed history over identities: Enqueue that
   wrote with ticket T into ring r = HEnq (enc r T), Dequeue that took ticket H of ring r = HDeq (enc r H), empty
   answer = HEmpty, stamps = the global step counter at invocation / return, enc any injective encoding of
   (ring, ticket); one exists: C05_lscq_encoding - satisfy all four conditions of the property statement, hence are
   linearizable with respect to the FIFO queue (definition of Common/Hist.v, through C05_aspects_lin).
   First three conditions (C05_lscq_fifo_order): no fresh value, no repeat, real-time enqueue order kept by dequeues
   (incl. 'b dequeued => earlier-enqueued a dequeued'): inside one ring by the ticket order of the ring
   (C05_scq_ticket_order, transported from the ring's own step counter to the global one by a monotone map), across
   rings because the ring an Enqueue / a Dequeue works on never moves backwards in real time and a ring the head
   has left is drained (5); plus unique values and well-formed stamps.
   Fourth condition (C05_lscq_empty_justified_bounded): a queue-level Dequeue answers empty only after the ring-level
   Dequeue on ring cq answered empty and cq.next was nil afterwards.  At the instant that ring-level answer was
   decided (threshold found exhausted, or tail found at or below the dequeuer's ticket before fixstate) every value
   whose queue-level Enqueue had returned was spoken for by a Dequeue invoked earlier: in ring cq because the
   threshold budget of the generalised ring invariant Thr2 - which, unlike C05_scq_threshold_budget, allows failed
   Enqueues and closing, the failed ticket's owner being busy until it has closed the ring - puts every returned,
   not consumed value below the ring head; in the rings before cq because they are retired (2), (5); and no ring
   after cq holds a returned value because none was linked when cq.next was read.  This is the composition of the
   per-ring argument of C05_scq_empty_justified_bounded with the cross-ring order; the ring-level theorem itself
   could not be reused because the last ring may already be closed. *)
Theorem C05_lscq_fifo_order : forall n, 1 <= n -> forall K, Z.of_nat K <= n + 1 ->
  forall enc, enc_ok enc ->
  forall sched, (forall l, In l sched -> (qthread l < K)%nat) ->
  let L := qrun n (linit n) sched in
  qquiescent L ->
  let h := qhist enc (qtrace L) in
  Stamped h /\ UniqueValues h /\ NoFresh h /\ NoRepeat h /\ OrderKept h.
Proof. exact lscq_fifo_order. Qed.
Theorem C05_lscq_lin_if_empty_justified : forall n, 1 <= n -> forall K, Z.of_nat K <= n + 1 ->
  forall enc, enc_ok enc ->
  forall sched, (forall l, In l sched -> (qthread l < K)%nat) ->
  let L := qrun n (linit n) sched in
  qquiescent L -> EmptyJustified (qhist enc (qtrace L)) -> fifo_linearizable (qhist enc (qtrace L)).
Proof. exact lscq_lin_if_empty_justified. Qed.
Theorem C05_lscq_encoding : enc_ok enc_sq.
Proof. exact enc_sq_ok. Qed.
Theorem C05_lscq_empty_justified_bounded : forall n, 1 <= n -> forall K, Z.of_nat K <= n + 1 ->
  forall enc, enc_ok enc ->
  forall sched, (forall l, In l sched -> (qthread l < K)%nat) ->
  let L := qrun n (linit n) sched in
  qquiescent L -> EmptyJustified (qhist enc (qtrace L)).
Proof. exact (fun n Hn K HK enc _ => lscq_empty_justified n Hn K HK enc). Qed.
Theorem C05_lscq_linearizable_bounded : forall n, 1 <= n -> forall K, Z.of_nat K <= n + 1 ->
  forall enc, enc_ok enc ->
  forall sched, (forall l, In l sched -> (qthread l < K)%nat) ->
  let L := qrun n (linit n) sched in
  qquiescent L -> fifo_linearizable (qhist enc (qtrace L)).
Proof. exact lscq_linearizable. Qed.

(* the closed bit must survive fixstate.  [grun n rs]: the queue-level machine of Lscq.v over an arbitrary ring step
   function rs (grun n (step n) = qrun n by definition: gstep_faithful); [stepm]: Scq.step with ONE change, the
   closed bit stripped from the tail word before fixstate's 'closed or normal' test, so that the CAS tail := head
   of a dequeuer that overran a closed ring clears the bit (seeded change C05-13).  Under [reopen_schedule] (two
   threads, n = 1: an enqueuer stalls inside ring 0 before its fetch-add; the other thread fills, closes, drains and
   overruns ring 0 and moves q.head on) the mutant lets the stalled enqueuer store its value at the head of ring 0
   after q.head has left it - Enqueue(2) returned, the following Dequeue answers empty, the history is not
   linearizable, (2) and (4) fail - while the faithful machine sends that enqueuer round to ring 1 and the last
   Dequeue returns 2 *)
Theorem C05_lscq_needs_closed_bit :
  (let L := grun 1 (stepm 1) (linit 1) reopen_schedule in
   qanswers L = [(0%nat, QEnq 1 0 1); (1%nat, QEnq 3 1 1); (1%nat, QDeq (Some (0%nat, 1, 1))); (1%nat, QDeq (Some (1%nat, 1, 3)));
                 (0%nat, QEnq 2 0 4); (1%nat, QDeq None)] /\
   qquiescent L /\ qh L = 1%nat /\ closed (rings L 0%nat) = false /\ hd (rings L 0%nat) = 4 /\
   wlog (rings L 0%nat) = [(4, 2); (1, 1)] /\ clog (rings L 0%nat) = [(1, 1)] /\
   ~ fifo_linearizable (qhist enc_sq (qtrace L))) /\
  (let L := qrun 1 (linit 1) reopen_schedule in
   qanswers L = [(0%nat, QEnq 1 0 1); (1%nat, QEnq 3 1 1); (1%nat, QDeq (Some (0%nat, 1, 1))); (1%nat, QDeq (Some (1%nat, 1, 3)));
                 (0%nat, QEnq 2 1 2); (1%nat, QDeq (Some (1%nat, 2, 2)))] /\
   closed (rings L 0%nat) = true).
Proof. exact (conj mutant_loses faithful_keeps). Qed.

(* (7) TIE to the functional model (Model.v: the model C05_seq is about and that the correspondence runs execute
   against the real code at ring size 65536).  [Ag i L rf nr qh qt mu pc es]: the queue state L has rings rf, nr
   linked rings, q.head = qh, q.tail = qt, lock table mu, thread i at pc (everybody else idle) and has answered es so
   far; [LSim M rf nr qh qt]: the functional queue M has nr - qh rings, its k-th ring is simulated by ring qh + k
   (ProofsScqTie.Sim: head, tail, closed bit, threshold, every slot through cacheRemap16Byte), its tail index is its
   last ring = qt - qh, and no thread is inside any ring.  One queue-level call executed by ONE thread of the
   small-step machine with nobody else moving ends in a state that simulates the functional model's result state
   and gives the functional model's answer (fuel exhaustion excluded), for every n >= 1, cl | n - including the
   paths full ring -> close -> allocate -> link -> move tail, and empty ring -> reset threshold -> look again -> move
   head; and so for every sequence of calls from the initial states: the small-step LSCQ run by one thread IS the
   functional model. *)
Theorem C05_lscq_solo_call : forall n cl, 1 <= n -> 1 <= cl -> (cl | n) ->
  forall i fuel M o M' out L rf nrv qhv qtv tr,
  Ag i L rf nrv qhv qtv (fun _ => None) QIdle tr -> LSim n cl M rf nrv qhv qtv ->
  Model.lscq_step Z 0 n cl fuel M o = (M', out) -> out <> Model.OFuel ->
  exists m L' rf' nrv' qhv' qtv' ev,
    qrun n L (qlabel_of i o :: repeat (QLStep i) m) = L' /\
    Ag i L' rf' nrv' qhv' qtv' (fun _ => None) QIdle (tr ++ [(i, ev)]) /\ LSim n cl M' rf' nrv' qhv' qtv' /\ qev_ok ev out.
Proof. exact lsolo_call. Qed.
Theorem C05_lscq_solo_run : forall n cl, 1 <= n -> 1 <= cl -> (cl | n) ->
  forall i fuel ops M' outs,
  lmseq n cl fuel (Model.lscq_init Z n) ops = Some (M', outs) ->
  exists sched L' rf nrv qhv qtv es,
    qrun n (linit n) sched = L' /\ Forall (qsolo_label i) sched /\
    Ag i L' rf nrv qhv qtv (fun _ => None) QIdle es /\ LSim n cl M' rf nrv qhv qtv /\ Forall2 qev_ok (map snd es) outs.
Proof. exact lsolo_run. Qed.
(* non-vacuity of the premise: the functional model across a ring boundary, n = 2 *)
Example C05_lscq_solo_nonvacuous :
  option_map snd (lmseq 2 1 50 (Model.lscq_init Z 2)
    [Model.Enq 1; Model.Enq 2; Model.Enq 3; Model.Deq; Model.Deq; Model.Deq; Model.Deq]) =
  Some [Model.OEnq true; Model.OEnq true; Model.OEnq true; Model.ODeq (Some 1); Model.ODeq (Some 2); Model.ODeq (Some 3); Model.ODeq None].
Proof. exact lscq_solo_nonvacuous. Qed.

(* non-vacuity: n = 1, K = 2.  Thread 0 enqueues 1 and 2, thread 1 dequeues concurrently; Enqueue(2) finds ring 0
   full, closes it, fills and links ring 1; the consumer drains ring 0, resets its threshold, finds it empty again,
   moves q.head and takes 2 from ring 1 *)
Example C05_lscq_nonvacuous :
  let sched := [QLEnq 0 1] ++ repeat (QLStep 0) 8 ++ [QLEnq 0 2; QLDeq 1] ++ alt01 9 ++ [QLDeq 1] ++ alt01 12 ++ [QLDeq 1] ++ alt01 30 in
  let L := qrun 1 (linit 1) sched in
  (forall l, In l sched -> (qthread l < 2)%nat) /\
  map (fun x => (fst (fst (fst x)), snd x)) (qtrace L) =
    [(0%nat, QEnq 1 0 1); (1%nat, QDeq (Some (0%nat, 1, 1))); (0%nat, QEnq 2 1 1); (1%nat, QDeq (Some (1%nat, 1, 2)))] /\
  nr L = 2%nat /\ qh L = 1%nat /\ qt L = 1%nat /\ closed (rings L 0%nat) = true /\ closed (rings L 1%nat) = false /\
  qquiescent L.
Proof. exact lscq_nonvacuous. Qed.

Print Assumptions C05_lscq_invariant.
Print Assumptions C05_lscq_retired_rings_dead.
Print Assumptions C05_lscq_closed_ring_final.
Print Assumptions C05_lscq_safety.
Print Assumptions C05_lscq_no_loss.
Print Assumptions C05_lscq_ring_order.
Print Assumptions C05_lscq_fifo_order.
Print Assumptions C05_lscq_lin_if_empty_justified.
Print Assumptions C05_lscq_encoding.
Print Assumptions C05_lscq_empty_justified_bounded.
Print Assumptions C05_lscq_linearizable_bounded.
Print Assumptions C05_lscq_needs_closed_bit.
Print Assumptions C05_lscq_solo_call.
Print Assumptions C05_lscq_solo_run.
