(* C05 - the LSCQ layer: every step of the queue-level machine keeps the invariant LInv (threads below K <= n + 1). *)
From Coq Require Import ZArith List Bool Lia Arith.
Import ListNotations.
From VF Require Import C05.Scq C05.ScqAux C05.Lscq C05.ProofsScqInv C05.ProofsScqCount C05.ProofsScqThr C05.ProofsScqThr2
  C05.ProofsScqEmpty C05.ProofsScqDead C05.ProofsLscqFresh C05.ProofsLscqFresh2 C05.ProofsLscq.
Open Scope Z_scope.

Definition ROK (st st' : state) : Prop :=
  closed st = true -> closed st' = true /\ (forall T, tgt st' T -> tgt st T) /\ hd st <= hd st'.

Section Step.
Variable n : Z.
Hypothesis Hn : 1 <= n.
Variable K : nat.
Hypothesis HK : Z.of_nat K <= n + 1.

Ltac shape := unfold tick, goto, ret, invoke, set_thr, set_closed;
  cbn [ring hd tl closed thr th wlog clog plog clk since trace].
Ltac lflat := cbn [rings nr qh qt mu qth gclk qsince qtrace cov].

Lemma rok_same st st' :
  (closed st = true -> closed st' = true) ->
  (forall k T, hold (th st' k) = Some T -> hold (th st k) = Some T) -> wlog st' = wlog st -> clog st' = clog st -> hd st' = hd st ->
  ROK st st'.
Proof.
  intros Hc Hh Ew Ec Eh Hcl. split; [auto|]. split; [|lia].
  intros T [(k & Hk)|[Hw Hnc]].
  - left. exists k. now apply Hh.
  - right. rewrite Ew in Hw. rewrite Ec in Hnc. auto.
Qed.

Lemma rok_trans a b c : ROK a b -> ROK b c -> ROK a c.
Proof.
  intros H1 H2 Hc. destruct (H1 Hc) as (Hb & S1 & L1). destruct (H2 Hb) as (Hcc & S2 & L2).
  split; [auto|]. split; [auto|lia].
Qed.

Lemma rok_tstep st i : ROK st (step n st (LStep i)).
Proof.
  intros Hc. unfold step, step0. destruct (tstep_logs n st i) as (Ecl & _). destruct (tstep_frame n st i) as (_ & _ & _ & _ & Hhd).
  split; [congruence|]. split; [|exact Hhd]. intros T. now apply tgt_tstep_closed.
Qed.

Lemma invoke_facts st i s0 : th st i = Idle -> hold s0 = None -> (forall H, s0 <> D5 H) -> d5inv st ->
  let st' := tick (invoke st i s0) in
  d5inv st' /\ ROK st st' /\ (forall k, k <> i -> th st' k = th st k) /\ th st' i = s0.
Proof.
  intros Ht Hh H5 Hd. cbv zeta. shape. split; [|split; [|split]].
  - intros k H. cbn [th hd]. unfold updf. destruct (Nat.eqb_spec k i); [intros E; exfalso; exact (H5 H E)|apply Hd].
  - apply rok_same; cbn [closed th wlog clog hd]; auto.
    intros k T. unfold updf. destruct (Nat.eqb_spec k i); [congruence|auto].
  - intros k Hk. cbn [th]. now apply updf_other.
  - cbn [th]. apply updf_same.
Qed.

(* ------------------------------------------------------------------ steps outside the rings *)
Ltac mv HL Hi Eq s :=
  unfold qtick, set_q, set_qt, set_qh, set_mu, qret, qinvoke; lflat;
  apply (linv_move n K _ _ s _ _ _ _ _ _ _ HL Hi);
  [apply updf_same|intros; now apply updf_other|rewrite Eq; reflexivity|reflexivity|rewrite Eq; try reflexivity| | | | | | | |].

Lemma ret_old L : LInv n K L -> forall r, (r < qh L)%nat -> closed (rings L r) = true /\ dead (rings L r).
Proof. intros HL. apply (l_ret _ _ _ HL). Qed.

Lemma st_invoke L i s : LInv n K L -> (i < K)%nat -> qth L i = QIdle -> (s = QD_ldhead \/ exists d, s = QE_ldtail d) ->
  LInv n K (qtick (qinvoke L i s)).
Proof.
  intros HL Hi Eq Hs.
  assert (Hq := l_qt _ _ _ HL). assert (Hh := l_qh _ _ _ HL). assert (Hr := ret_old L HL).
  destruct Hs as [->|(d & ->)].
  - mv HL Hi Eq QD_ldhead; auto; try (intros; discriminate).
  - mv HL Hi Eq (QE_ldtail d); auto; try (intros; discriminate).
Qed.

Ltac pre HL := assert (Hq := l_qt _ _ _ HL); assert (Hh := l_qh _ _ _ HL); assert (Hr := ret_old _ HL).
Ltac inj E := injection E as <-.

Lemma st_ldtail L i d : LInv n K L -> (i < K)%nat -> qth L i = QE_ldtail d ->
  LInv n K (qtick (set_q L i (QE_ldnext d (qt L)))).
Proof.
  intros HL Hi Eq. pre HL. mv HL Hi Eq (QE_ldnext d (qt L)); auto; try (intros; discriminate).
  intros cq E. inj E. exact Hq.
Qed.

Lemma st_ldnext_help L i d cq : LInv n K L -> (i < K)%nat -> qth L i = QE_ldnext d cq -> (S cq < nr L)%nat ->
  LInv n K (qtick (set_q L i (QE_help d cq))).
Proof.
  intros HL Hi Eq Hlt. pre HL. mv HL Hi Eq (QE_help d cq); auto; try (intros; discriminate).
  - intros c E. inj E. lia.
  - intros c E. inj E. lia.
Qed.

Lemma st_help L i d cq : LInv n K L -> (i < K)%nat -> qth L i = QE_help d cq ->
  LInv n K (qtick (set_q (if (qt L =? cq)%nat then set_qt L (S cq) else L) i (QE_ldtail d))).
Proof.
  intros HL Hi Eq. pre HL. assert (Hx := l_nxt _ _ _ HL i cq). rewrite Eq in Hx. specialize (Hx eq_refl).
  destruct (qt L =? cq)%nat; mv HL Hi Eq (QE_ldtail d); auto; try (intros; discriminate).
Qed.

Ltac regof HL i cq Eq := assert (Hg := l_reg _ _ _ HL i cq); rewrite Eq in Hg; specialize (Hg eq_refl).
Ltac clqof HL i cq Eq := assert (Hc := l_clq _ _ _ HL i cq); rewrite Eq in Hc; specialize (Hc eq_refl).
Ltac nxtof HL i cq Eq := assert (Hx := l_nxt _ _ _ HL i cq); rewrite Eq in Hx; specialize (Hx eq_refl).

Lemma st_lock L i d cq : LInv n K L -> (i < K)%nat -> qth L i = QE_lock d cq ->
  LInv n K (qtick (set_q (set_mu L cq (Some i)) i (QE_chk d cq))).
Proof.
  intros HL Hi Eq. pre HL. regof HL i cq Eq. clqof HL i cq Eq.
  mv HL Hi Eq (QE_chk d cq); auto; try (intros; discriminate).
  - intros c E. inj E. exact Hg.
  - intros c E. inj E. exact Hc.
Qed.

Lemma st_chk L i d cq : LInv n K L -> (i < K)%nat -> qth L i = QE_chk d cq ->
  LInv n K (qtick (if (S cq <? nr L)%nat then set_q L i (QE_unlock_retry d cq) else set_q L i (QE_alloc d cq))).
Proof.
  intros HL Hi Eq. pre HL. regof HL i cq Eq. clqof HL i cq Eq.
  destruct (S cq <? nr L)%nat.
  - mv HL Hi Eq (QE_unlock_retry d cq); auto; try (intros; discriminate).
    + intros c E. inj E. exact Hg.
    + intros c E. inj E. exact Hc.
  - mv HL Hi Eq (QE_alloc d cq); auto; try (intros; discriminate).
    + intros c E. inj E. exact Hg.
    + intros c E. inj E. exact Hc.
Qed.

Lemma st_alloc L i d cq : LInv n K L -> (i < K)%nat -> qth L i = QE_alloc d cq ->
  LInv n K (qtick (set_q L i (QE_link d cq (fresh_with n i d)))).
Proof.
  intros HL Hi Eq. pre HL. regof HL i cq Eq. clqof HL i cq Eq.
  mv HL Hi Eq (QE_link d cq (fresh_with n i d)); auto; try (intros; discriminate).
  - intros c E. inj E. exact Hg.
  - intros c E. inj E. exact Hc.
  - intros d' c R E. injection E as <- <- <-. reflexivity.
Qed.

Lemma st_link_lost L i d cq R : LInv n K L -> (i < K)%nat -> qth L i = QE_link d cq R ->
  LInv n K (qtick (set_q L i (QE_unlock_retry d cq))).
Proof.
  intros HL Hi Eq. pre HL. regof HL i cq Eq. clqof HL i cq Eq.
  mv HL Hi Eq (QE_unlock_retry d cq); auto; try (intros; discriminate).
  - intros c E. inj E. exact Hg.
  - intros c E. inj E. exact Hc.
Qed.

Lemma st_mvtail L i d cq : LInv n K L -> (i < K)%nat -> qth L i = QE_mvtail d cq ->
  LInv n K (qtick (set_q (if (qt L =? cq)%nat then set_qt L (S cq) else L) i (QE_unlock_ret d cq))).
Proof.
  intros HL Hi Eq. pre HL. regof HL i cq Eq. clqof HL i cq Eq. nxtof HL i cq Eq.
  destruct (qt L =? cq)%nat; mv HL Hi Eq (QE_unlock_ret d cq); auto; try (intros; discriminate);
    try (intros c E; inj E; assumption).
Qed.

Lemma st_unlock_ret L i d cq ev : LInv n K L -> (i < K)%nat -> qth L i = QE_unlock_ret d cq ->
  LInv n K (qtick (qret (set_mu L cq None) i ev)).
Proof.
  intros HL Hi Eq. pre HL. mv HL Hi Eq QIdle; auto; try (intros; discriminate).
Qed.

Lemma st_unlock_retry L i d cq : LInv n K L -> (i < K)%nat -> qth L i = QE_unlock_retry d cq ->
  LInv n K (qtick (set_q (set_mu L cq None) i (QE_ldtail d))).
Proof.
  intros HL Hi Eq. pre HL. mv HL Hi Eq (QE_ldtail d); auto; try (intros; discriminate).
Qed.

Lemma st_dldnext L i cq : LInv n K L -> (i < K)%nat -> qth L i = QD_ldnext cq ->
  LInv n K (qtick (if (S cq <? nr L)%nat then set_q L i (QD_reset cq) else qret L i (QDeq None))).
Proof.
  intros HL Hi Eq. pre HL. regof HL i cq Eq.
  destruct (Nat.ltb_spec (S cq) (nr L)).
  - mv HL Hi Eq (QD_reset cq); auto; try (intros; discriminate); try (intros c E; inj E; assumption).
  - mv HL Hi Eq QIdle; auto; try (intros; discriminate).
Qed.

Lemma st_cas L i cq : LInv n K L -> (i < K)%nat -> qth L i = QD_cas cq ->
  LInv n K (qtick (set_q (if (qh L =? cq)%nat then set_qh L (S cq) else L) i QD_ldhead)).
Proof.
  intros HL Hi Eq. pre HL. nxtof HL i cq Eq. destruct (l_cas _ _ _ HL i cq Eq) as (Hc & Hd).
  destruct (Nat.eqb_spec (qh L) cq); mv HL Hi Eq QD_ldhead; auto; try (intros; discriminate).
  intros r Hlt. destruct (Nat.eq_dec r cq) as [->|]; [auto|apply Hr; lia].
Qed.

(* ------------------------------------------------------------------ a new ring is linked *)
Lemma reg_of_clq s c : clq s = Some c -> reg s = Some c.
Proof. destruct s; cbn; congruence. Qed.
Lemma reg_of_bzq s r x : bzq s r = Some x -> reg s = Some r.
Proof. destruct s; cbn; try discriminate. destruct (Nat.eqb_spec cq r); [congruence|discriminate]. Qed.

Lemma st_link L i d cq R : LInv n K L -> (i < K)%nat -> qth L i = QE_link d cq R -> S cq = nr L ->
  LInv n K (qtick (set_q (link L R) i (QE_mvtail d cq))).
Proof.
  intros HL Hi Eq Hnr. pre HL. regof HL i cq Eq. clqof HL i cq Eq.
  assert (HR := l_fresh _ _ _ HL i d cq R Eq). subst R.
  destruct (fresh_fields n Hn K i d) as (_ & _ & _ & _ & Hth & _).
  unfold qtick, set_q, link. lflat.
  assert (Hoth : forall k, k <> i -> updf (qth L) i (QE_mvtail d cq) k = qth L k) by (intros; now apply updf_other).
  assert (Hro : forall r, (r < nr L)%nat -> updf (rings L) (nr L) (fresh_with n i d) r = rings L r) by (intros; apply updf_other; lia).
  assert (Hrk : forall k c, k <> i -> reg (qth L k) = Some c -> updf (rings L) (nr L) (fresh_with n i d) c = rings L c).
  { intros k c _ E. apply Hro. exact (l_reg _ _ _ HL k c E). }
  constructor; lflat.
  - lia.
  - lia.
  - lia.
  - intros r. unfold updf. destruct (Nat.eqb_spec r (nr L)); [apply (fresh_inv n Hn)|apply (l_inv _ _ _ HL)].
  - intros r. unfold updf. destruct (Nat.eqb_spec r (nr L)); [apply (fresh_d5 n Hn K)|apply (l_d5 _ _ _ HL)].
  - intros r. destruct (Nat.eq_dec r (nr L)) as [->|Hrn]; [rewrite updf_same|rewrite updf_other by auto].
    + apply (fresh_thr2 n Hn K).
      * intros k. unfold bzr. lflat. destruct (Nat.eq_dec k i) as [->|Hk]; [rewrite updf_same; reflexivity|rewrite Hoth by auto].
        destruct (bzq (qth L k) (nr L)) eqn:E; [|reflexivity]. apply reg_of_bzq in E. pose proof (l_reg _ _ _ HL k _ E). lia.
      * destruct (l_unl _ _ _ HL (nr L) (le_n _)) as (_ & ->). lia.
    + apply (thr2_bz_ext n K (bzr L r)); [|apply (l_thr _ _ _ HL)].
      intros k. unfold bzr. lflat. destruct (Nat.eq_dec k i) as [->|Hk]; [rewrite updf_same, Eq; reflexivity|now rewrite Hoth].
  - intros r Hlt. rewrite Hro by lia. destruct (Nat.eq_dec r cq) as [->|Hrc]; [exact Hc|apply (l_closed _ _ _ HL); lia].
  - intros k c. destruct (Nat.eq_dec k i) as [->|Hk]; [rewrite updf_same|rewrite Hoth by auto].
    + intros E. inj E. rewrite Hro by lia. exact Hc.
    + intros E. rewrite (Hrk k c Hk (reg_of_clq _ _ E)). now apply (l_clq _ _ _ HL k).
  - intros k c. destruct (Nat.eq_dec k i) as [->|Hk]; [rewrite updf_same|rewrite Hoth by auto].
    + intros E. inj E. lia.
    + intros E. pose proof (l_reg _ _ _ HL k c E). lia.
  - intros k c. destruct (Nat.eq_dec k i) as [->|Hk]; [rewrite updf_same|rewrite Hoth by auto].
    + intros E. inj E. lia.
    + intros E. pose proof (l_nxt _ _ _ HL k c E). lia.
  - intros k r. destruct (Nat.eq_dec r (nr L)) as [->|Hrn]; [rewrite updf_same|rewrite updf_other by auto].
    + rewrite Hth. congruence.
    + intros Hk. pose proof (l_act _ _ _ HL k r Hk) as Ha. destruct (Nat.eq_dec k i) as [->|Hki]; [rewrite Eq in Ha; discriminate Ha|now rewrite Hoth].
  - intros k d' c. destruct (Nat.eq_dec k i) as [->|Hk]; [rewrite updf_same; discriminate|rewrite Hoth by auto].
    intros E. rewrite (Hrk k c Hk) by (rewrite E; reflexivity). now apply (l_epc _ _ _ HL).
  - intros k c. destruct (Nat.eq_dec k i) as [->|Hk]; [rewrite updf_same; intros [E|E]; discriminate E|rewrite Hoth by auto].
    intros E. rewrite (Hrk k c Hk) by (destruct E as [E|E]; rewrite E; reflexivity). now apply (l_dpc _ _ _ HL).
  - intros k Hk. rewrite Hoth by lia. apply (l_bnd _ _ _ HL k Hk).
  - intros k c. destruct (Nat.eq_dec k i) as [->|Hk]; [rewrite updf_same; discriminate|rewrite Hoth by auto].
    intros E. rewrite (Hrk k c Hk) by (rewrite E; reflexivity). exact (l_r2 _ _ _ HL k c E).
  - intros k c. destruct (Nat.eq_dec k i) as [->|Hk]; [rewrite updf_same; discriminate|rewrite Hoth by auto].
    intros E. rewrite (Hrk k c Hk) by (rewrite E; reflexivity). exact (l_cas _ _ _ HL k c E).
  - intros r Hlt. rewrite Hro by lia. now apply Hr.
  - intros k d' c R. destruct (Nat.eq_dec k i) as [->|Hk]; [rewrite updf_same; discriminate|rewrite Hoth by auto]. intros E. exact (l_fresh _ _ _ HL k d' c R E).
  - intros r Hlt. rewrite updf_other by lia. apply (l_unl _ _ _ HL). lia.
Qed.

(* ------------------------------------------------------------------ a thread enters a ring-level call *)
Lemma idle_out L i r : LInv n K L -> in_ring (qth L i) = None -> th (rings L r) i = Idle.
Proof.
  intros HL Ho. destruct (th (rings L r) i) eqn:E; auto; exfalso;
    assert (Hne : th (rings L r) i <> Idle) by (rewrite E; discriminate);
    pose proof (l_act _ _ _ HL i r Hne) as Ha; congruence.
Qed.

Lemma st_enter L i cq s0 s gc sn tr :
  LInv n K L -> (i < K)%nat -> (cq < nr L)%nat ->
  in_ring (qth L i) = None -> (forall r, bzq (qth L i) r = None) ->
  Inv n (tick (invoke (rings L cq) i s0)) ->
  hold s0 = None -> (forall w, stalew w s0 = false) ->
  (forall oh h, s0 <> F2 oh h) -> (forall oh h tv, s0 <> F3 oh h tv) -> (forall d T, s0 <> E5 d T) -> (forall H, s0 <> D5 H) ->
  in_ring s = Some cq -> (forall d c, s = QE_ring d c -> enq_pc d s0) -> (forall c, s = QD_ring1 c \/ s = QD_ring2 c -> deq_pc s0) ->
  (forall r, bzq s r = None) -> reg s = Some cq -> nxt s = None -> clq s = None -> (forall c, s <> QD_ring2 c) ->
  LInv n K (mkL (updf (rings L) cq (tick (invoke (rings L cq) i s0))) (nr L) (qh L) (qt L) (mu L) (updf (qth L) i s) gc sn tr (cov L)).
Proof.
  intros HL Hi Hcq Ho Hbz HIR Hh Hs HF2 HF3 H5 HD5 Hin Hepc Hdpc Hbs Hreg Hnxt Hclq Hn2.
  assert (Hid := idle_out L i cq HL Ho).
  destruct (invoke_facts (rings L cq) i s0 Hid Hh HD5 (l_d5 _ _ _ HL cq)) as (Hd5 & Hok & Hth & Hti).
  apply (linv_ring n K L i s cq (tick (invoke (rings L cq) i s0)) (cov L cq) _ _ _ _ _ _ _ HL Hi Hcq).
  - apply updf_same.
  - intros; now apply updf_other.
  - apply updf_same.
  - intros; now apply updf_other.
  - reflexivity.
  - reflexivity.
  - exact HIR.
  - exact Hd5.
  - apply (thr2_bz_ext n K (bzr L cq)).
    + intros k. destruct (Nat.eqb_spec k i) as [->|]; [|reflexivity]. unfold bzr. now rewrite Hbs, Hbz.
    + apply thr2_invoke; auto. apply (l_inv _ _ _ HL). apply (l_thr _ _ _ HL). unfold bzr. apply Hbz.
  - lia.
  - exact Hok.
  - exact Hth.
  - now left.
  - auto.
  - intros r E. congruence.
  - intros d c E. rewrite Hti. eauto.
  - intros c E. rewrite Hti. eauto.
  - intros r _. now rewrite Hbs, Hbz.
  - intros c E. congruence.
  - intros c E. congruence.
  - intros c E. congruence.
  - intros c E. exfalso. exact (Hn2 c E).
  - intros c E. rewrite E in Hin. discriminate Hin.
  - intros d c R E. rewrite E in Hin. discriminate Hin.
Qed.

Lemma st_ldnext_enter L i d cq : LInv n K L -> (i < K)%nat -> qth L i = QE_ldnext d cq ->
  LInv n K (qtick (set_q (Lscq.set_ring L cq (step n (rings L cq) (LEnq i d))) i (QE_ring d cq))).
Proof.
  intros HL Hi Eq. regof HL i cq Eq.
  assert (Ho : in_ring (qth L i) = None) by (rewrite Eq; reflexivity).
  assert (Hid := idle_out L i cq HL Ho).
  assert (HIR := inv_step n Hn (rings L cq) (LEnq i d) (l_inv _ _ _ HL cq)).
  unfold step, step0 in *. rewrite Hid in *.
  unfold qtick, set_q, Lscq.set_ring. lflat.
  apply st_enter; auto; try (intros; discriminate); try reflexivity.
  - intros r. rewrite Eq. reflexivity.
  - intros d' c E. injection E as <- <-. reflexivity.
  - intros c [E|E]; discriminate E.
Qed.

Lemma st_ldhead L i : LInv n K L -> (i < K)%nat -> qth L i = QD_ldhead ->
  LInv n K (qtick (set_q (Lscq.set_ring L (qh L) (step n (rings L (qh L)) (LDeq i))) i (QD_ring1 (qh L)))).
Proof.
  intros HL Hi Eq. pre HL.
  assert (Ho : in_ring (qth L i) = None) by (rewrite Eq; reflexivity).
  assert (Hid := idle_out L i (qh L) HL Ho).
  assert (HIR := inv_step n Hn (rings L (qh L)) (LDeq i) (l_inv _ _ _ HL (qh L))).
  unfold step, step0 in *. rewrite Hid in *.
  unfold qtick, set_q, Lscq.set_ring. lflat.
  apply st_enter; auto; try (intros; discriminate); try reflexivity.
  - intros r. rewrite Eq. reflexivity.
Qed.

(* ------------------------------------------------------------------ close and reset *)
Lemma dead_rok st st' : ROK st st' -> closed st = true -> dead st -> dead st'.
Proof. intros Hok Hc Hd T HhT Ht. destruct (Hok Hc) as (_ & Hsub & Hhd). apply (Hd T ltac:(lia)). now apply Hsub. Qed.

Lemma st_close L i d cq x : LInv n K L -> (i < K)%nat -> qth L i = QE_close d cq x ->
  LInv n K (qtick (set_q (Lscq.set_ring L cq (step n (rings L cq) LClose)) i (QE_lock d cq))).
Proof.
  intros HL Hi Eq. regof HL i cq Eq.
  assert (Ho : in_ring (qth L i) = None) by (rewrite Eq; reflexivity).
  assert (Hid := idle_out L i cq HL Ho).
  assert (HIR := inv_step n Hn (rings L cq) LClose (l_inv _ _ _ HL cq)).
  unfold qtick, set_q, Lscq.set_ring. lflat.
  apply (linv_ring n K L i (QE_lock d cq) cq (step n (rings L cq) LClose) (cov L cq) _ _ _ _ _ _ _ HL Hi Hg).
  - apply updf_same.
  - intros; now apply updf_other.
  - apply updf_same.
  - intros; now apply updf_other.
  - reflexivity.
  - reflexivity.
  - exact HIR.
  - intros k H E. exact (l_d5 _ _ _ HL cq k H E).
  - apply (thr2_bz_ext n K (updf (bzr L cq) i None)).
    + intros k. unfold updf. destruct (Nat.eqb_spec k i); reflexivity.
    + unfold step, step0. shape. apply thr2_close. apply (l_thr _ _ _ HL).
  - lia.
  - apply rok_same; auto.
  - intros k _. reflexivity.
  - now left.
  - intros E. exfalso. apply E. exact Hid.
  - intros r E. discriminate E.
  - intros d' c E. discriminate E.
  - intros c [E|E]; discriminate E.
  - intros r Hr. rewrite Eq. cbn [bzq]. destruct (Nat.eqb_spec cq r); [congruence|reflexivity].
  - intros c E. inj E. exact Hg.
  - intros c E. discriminate E.
  - intros c E. inj E. left. auto.
  - intros c E. discriminate E.
  - intros c E. discriminate E.
  - intros d' c R E. discriminate E.
Qed.

Lemma st_reset L i cq : LInv n K L -> (i < K)%nat -> qth L i = QD_reset cq ->
  LInv n K (qtick (set_q (set_cov (Lscq.set_ring L cq (step n (step n (rings L cq) LResetThr) (LDeq i))) cq (tl (rings L cq))) i (QD_ring2 cq))).
Proof.
  intros HL Hi Eq. regof HL i cq Eq. nxtof HL i cq Eq.
  assert (Hcl := l_closed _ _ _ HL cq Hx).
  assert (Ho : in_ring (qth L i) = None) by (rewrite Eq; reflexivity).
  assert (Hid := idle_out L i cq HL Ho).
  assert (HI0 := l_inv _ _ _ HL cq). assert (HT0 := l_thr _ _ _ HL cq).
  assert (HIm := inv_step n Hn (rings L cq) LResetThr HI0).
  assert (HIR := inv_step n Hn _ (LDeq i) HIm).
  set (R := rings L cq) in *. set (Rm := step n R LResetThr) in *.
  assert (Hidm : th Rm i = Idle) by exact Hid.
  assert (HTm : Thr2 n K (bzr L cq) (tl R) Rm).
  { unfold Rm, step, step0, thr_full. shape. apply (thr2_reset n K (bzr L cq) (cov L cq)); auto. }
  assert (Hokm : ROK R Rm) by (apply rok_same; auto).
  assert (Hd5m : d5inv Rm) by (intros k H E; exact (l_d5 _ _ _ HL cq k H E)).
  assert (HE : step n Rm (LDeq i) = tick (invoke Rm i D0)) by (unfold step, step0; now rewrite Hidm).
  rewrite HE in *.
  destruct (invoke_facts Rm i D0 Hidm eq_refl ltac:(discriminate) Hd5m) as (Hd5 & Hok & Hth & Hti).
  assert (Hbi : bzr L cq i = None) by (unfold bzr; rewrite Eq; reflexivity).
  assert (Hok2 := rok_trans _ _ _ Hokm Hok).
  unfold qtick, set_q, set_cov, Lscq.set_ring. lflat.
  apply (linv_ring n K L i (QD_ring2 cq) cq (tick (invoke Rm i D0)) (tl R) _ _ _ _ _ _ _ HL Hi Hg).
  - apply updf_same.
  - intros; now apply updf_other.
  - apply updf_same.
  - intros; now apply updf_other.
  - apply updf_same.
  - intros; now apply updf_other.
  - exact HIR.
  - exact Hd5.
  - apply (thr2_bz_ext n K (bzr L cq)).
    + intros k. destruct (Nat.eqb_spec k i) as [->|]; [now rewrite Hbi|reflexivity].
    + apply thr2_invoke; auto; try discriminate.
  - apply (u_cov _ _ _ _ _ HT0).
  - exact Hok2.
  - intros k Hk. rewrite (Hth k Hk). reflexivity.
  - now left.
  - reflexivity.
  - intros r E. now inj E.
  - intros d' c E. discriminate E.
  - intros c _. rewrite Hti. exact I.
  - intros r _. rewrite Eq. reflexivity.
  - intros c E. inj E. exact Hg.
  - intros c E. inj E. exact Hx.
  - intros c E. discriminate E.
  - intros c _. destruct (Hok2 Hcl) as (Hc' & Hsub & _). split; [exact Hc'|]. split.
    + intros T Ht. apply Hsub in Ht. apply (tgt_lt n K (bzr L cq) (cov L cq) R T HI0 HT0 Ht).
    + rewrite Hti. discriminate.
  - intros c E. discriminate E.
  - intros d' c R0 E. discriminate E.
Qed.

(* ------------------------------------------------------------------ steps inside a ring *)
Lemma last_ev_app st tr a b c ev : trace st = tr ++ [(a, b, c, ev)] -> last_ev st = Some ev.
Proof. intros E. unfold last_ev. rewrite E, rev_app_distr. reflexivity. Qed.

Lemma is_idle_eq s : is_idle s = is_idle_b s.
Proof. destruct s; reflexivity. Qed.

(* what every step of thread i inside ring cq provides *)
Lemma ring_common L i cq :
  LInv n K L -> (i < K)%nat -> in_ring (qth L i) = Some cq -> bzr L cq i = None ->
  let R := rings L cq in let R' := step n R (LStep i) in
  Inv n R' /\ d5inv R' /\ ROK R R' /\ (forall k, k <> i -> th R' k = th R k) /\
  Thr2 n K (bz_after n (bzr L cq) R i) (cov L cq) R'.
Proof.
  intros HL Hi Hin Hbi. cbv zeta.
  assert (HI0 := l_inv _ _ _ HL cq). assert (HT0 := l_thr _ _ _ HL cq).
  split; [apply inv_step; auto|]. split; [apply d5inv_tstep; auto; apply (l_d5 _ _ _ HL)|]. split; [apply rok_tstep|].
  split; [apply (tstep_frame n (rings L cq) i)|]. apply thr2_tstep; auto.
Qed.

Lemma st_ering L i d cq : LInv n K L -> (i < K)%nat -> qth L i = QE_ring d cq ->
  LInv n K (qtick (
      let R := ring_step n L cq i in
      let L1 := Lscq.set_ring L cq R in
      if is_idle (th R i) then
        match last_ev R with
        | Some (EvEnq _ (Some T)) => qret L1 i (QEnq d cq T)
        | _ => set_q L1 i (QE_close d cq (match fail_ticket n (rings L cq) i with Some x => x | None => 0 end))
        end
      else L1)).
Proof.
  intros HL Hi Eq. regof HL i cq Eq.
  assert (Hin : in_ring (qth L i) = Some cq) by (rewrite Eq; reflexivity).
  assert (Hbi : bzr L cq i = None) by (unfold bzr; rewrite Eq; reflexivity).
  destruct (ring_common L i cq HL Hi Hin Hbi) as (HIR & Hd5 & Hok & Hth & HTR).
  assert (Hp := l_epc _ _ _ HL i d cq Eq).
  cbv zeta. unfold ring_step. rewrite is_idle_eq.
  destruct (enq_step n (rings L cq) i d Hp) as [(Hni & Hp' & Hf & Htr)|[(Hid & Hf & T & Htr & _)|(Hid & Htr & x & Hf)]].
  - rewrite Hni. unfold qtick, Lscq.set_ring. lflat.
    apply (linv_ring n K L i (QE_ring d cq) cq (step n (rings L cq) (LStep i)) (cov L cq) _ _ _ _ _ _ _ HL Hi Hg);
      auto; try (intros; discriminate); try (intros ? [E|E]; discriminate E); try (intros; now apply updf_other); try apply updf_same; try lia.
    + apply (thr2_bz_ext n K (bzr L cq)); [|unfold bz_after in HTR; now rewrite Hf in HTR].
      intros k. destruct (Nat.eqb_spec k i) as [->|]; [now rewrite Hbi|reflexivity].
    + intros r E. now inj E.
    + intros d' c E. injection E as <- <-. exact Hp'.
    + intros r _. now rewrite Eq.
    + intros c E. inj E. exact Hg.
  - rewrite Hid. cbn [is_idle_b]. rewrite (last_ev_app _ _ _ _ _ _ Htr). unfold qtick, qret, Lscq.set_ring. lflat.
    apply (linv_ring n K L i QIdle cq (step n (rings L cq) (LStep i)) (cov L cq) _ _ _ _ _ _ _ HL Hi Hg);
      auto; try (intros; discriminate); try (intros ? [E|E]; discriminate E); try (intros; now apply updf_other); try apply updf_same; try lia.
    + apply (thr2_bz_ext n K (bzr L cq)); [|unfold bz_after in HTR; now rewrite Hf in HTR].
      intros k. destruct (Nat.eqb_spec k i) as [->|]; [now rewrite Hbi|reflexivity].
    + intros E. congruence.
    + intros r _. now rewrite Eq.
  - rewrite Hid. cbn [is_idle_b]. rewrite (last_ev_app _ _ _ _ _ _ Htr). rewrite Hf. unfold qtick, set_q, Lscq.set_ring. lflat.
    apply (linv_ring n K L i (QE_close d cq x) cq (step n (rings L cq) (LStep i)) (cov L cq) _ _ _ _ _ _ _ HL Hi Hg);
      auto; try (intros; discriminate); try (intros ? [E|E]; discriminate E); try (intros; now apply updf_other); try apply updf_same; try lia.
    + apply (thr2_bz_ext n K (updf (bzr L cq) i (Some x))); [|unfold bz_after in HTR; now rewrite Hf in HTR].
      intros k. unfold updf. destruct (Nat.eqb_spec k i) as [->|]; [cbn [bzq]; now rewrite Nat.eqb_refl|reflexivity].
    + intros E. congruence.
    + intros r Hr. rewrite Eq. cbn [bzq]. destruct (Nat.eqb_spec cq r); [congruence|reflexivity].
    + intros c E. inj E. exact Hg.
Qed.

Ltac ringtac := auto; try (intros; discriminate); try (intros ? [E|E]; discriminate E); try (intros; now apply updf_other);
  try apply updf_same; try lia.

Lemma st_dring1 L i cq : LInv n K L -> (i < K)%nat -> qth L i = QD_ring1 cq ->
  LInv n K (qtick (
      let R := ring_step n L cq i in
      let L1 := Lscq.set_ring L cq R in
      if is_idle (th R i) then
        match last_ev R with
        | Some (EvDeq (Some (H, v))) => qret L1 i (QDeq (Some (cq, H, v)))
        | _ => set_q L1 i (QD_ldnext cq)
        end
      else L1)).
Proof.
  intros HL Hi Eq. regof HL i cq Eq.
  assert (Hin : in_ring (qth L i) = Some cq) by (rewrite Eq; reflexivity).
  assert (Hbi : bzr L cq i = None) by (unfold bzr; rewrite Eq; reflexivity).
  destruct (ring_common L i cq HL Hi Hin Hbi) as (HIR & Hd5 & Hok & Hth & HTR).
  assert (Hp := l_dpc _ _ _ HL i cq (or_introl Eq)).
  cbv zeta. unfold ring_step. rewrite is_idle_eq.
  destruct (deq_step n (rings L cq) i Hp) as (Hf & [(Hni & Hp' & Htr)|[(Hid & H & x & Htr & _)|(Hid & Htr & _)]]);
    unfold bz_after in HTR; rewrite Hf in HTR.
  - rewrite Hni. unfold qtick, Lscq.set_ring. lflat.
    apply (linv_ring n K L i (QD_ring1 cq) cq (step n (rings L cq) (LStep i)) (cov L cq) _ _ _ _ _ _ _ HL Hi Hg); ringtac.
    + apply (thr2_bz_ext n K (bzr L cq)); [|exact HTR].
      intros k. destruct (Nat.eqb_spec k i) as [->|]; [now rewrite Hbi|reflexivity].
    + intros r E. now inj E.
    + intros r _. now rewrite Eq.
    + intros c E. inj E. exact Hg.
  - rewrite Hid. cbn [is_idle_b]. rewrite (last_ev_app _ _ _ _ _ _ Htr). unfold qtick, qret, Lscq.set_ring. lflat.
    apply (linv_ring n K L i QIdle cq (step n (rings L cq) (LStep i)) (cov L cq) _ _ _ _ _ _ _ HL Hi Hg); ringtac.
    + apply (thr2_bz_ext n K (bzr L cq)); [|exact HTR].
      intros k. destruct (Nat.eqb_spec k i) as [->|]; [now rewrite Hbi|reflexivity].
    + intros E. congruence.
    + intros r _. now rewrite Eq.
  - rewrite Hid. cbn [is_idle_b]. rewrite (last_ev_app _ _ _ _ _ _ Htr). unfold qtick, set_q, Lscq.set_ring. lflat.
    apply (linv_ring n K L i (QD_ldnext cq) cq (step n (rings L cq) (LStep i)) (cov L cq) _ _ _ _ _ _ _ HL Hi Hg); ringtac.
    + apply (thr2_bz_ext n K (bzr L cq)); [|exact HTR].
      intros k. destruct (Nat.eqb_spec k i) as [->|]; [now rewrite Hbi|reflexivity].
    + intros E. congruence.
    + intros r _. now rewrite Eq.
    + intros c E. inj E. exact Hg.
Qed.

Lemma st_dring2 L i cq : LInv n K L -> (i < K)%nat -> qth L i = QD_ring2 cq ->
  LInv n K (qtick (
      let R := ring_step n L cq i in
      let L1 := Lscq.set_ring L cq R in
      if is_idle (th R i) then
        match last_ev R with
        | Some (EvDeq (Some (H, v))) => qret L1 i (QDeq (Some (cq, H, v)))
        | _ => set_q L1 i (QD_cas cq)
        end
      else L1)).
Proof.
  intros HL Hi Eq. regof HL i cq Eq. nxtof HL i cq Eq.
  assert (Hin : in_ring (qth L i) = Some cq) by (rewrite Eq; reflexivity).
  assert (Hbi : bzr L cq i = None) by (unfold bzr; rewrite Eq; reflexivity).
  destruct (ring_common L i cq HL Hi Hin Hbi) as (HIR & Hd5 & Hok & Hth & HTR).
  assert (Hp := l_dpc _ _ _ HL i cq (or_intror Eq)).
  destruct (l_r2 _ _ _ HL i cq Eq) as (Hcl & Hcv & HF).
  assert (HI0 := l_inv _ _ _ HL cq). assert (HT0 := l_thr _ _ _ HL cq). assert (HD0 := l_d5 _ _ _ HL cq).
  destruct (Hok Hcl) as (Hcl' & Hsub & Hhd).
  cbv zeta. unfold ring_step. rewrite is_idle_eq.
  destruct (deq_step n (rings L cq) i Hp) as (Hf & [(Hni & Hp' & Htr)|[(Hid & H & x & Htr & _)|(Hid & Htr & Hwhy)]]);
    unfold bz_after in HTR; rewrite Hf in HTR.
  - rewrite Hni. unfold qtick, Lscq.set_ring. lflat.
    apply (linv_ring n K L i (QD_ring2 cq) cq (step n (rings L cq) (LStep i)) (cov L cq) _ _ _ _ _ _ _ HL Hi Hg); ringtac.
    + apply (thr2_bz_ext n K (bzr L cq)); [|exact HTR].
      intros k. destruct (Nat.eqb_spec k i) as [->|]; [now rewrite Hbi|reflexivity].
    + intros r E. now inj E.
    + intros r _. now rewrite Eq.
    + intros c E. inj E. exact Hg.
    + intros c E. inj E. exact Hx.
    + intros c _. split; [exact Hcl'|]. split; [intros T Ht; apply Hcv; now apply Hsub|].
      intros HF'. apply (dead_rok _ _ Hok Hcl).
      destruct (tstep_self n (rings L cq) i HI0) as (_ & _ & S3 & _).
      destruct (S3 HF') as [Hold|(H & Ht5 & Htl)]; [now apply HF|].
      apply (dead_tail n K (bzr L cq) (cov L cq) (rings L cq) H HI0 HT0 Htl). exact (HD0 i H Ht5).
  - rewrite Hid. cbn [is_idle_b]. rewrite (last_ev_app _ _ _ _ _ _ Htr). unfold qtick, qret, Lscq.set_ring. lflat.
    apply (linv_ring n K L i QIdle cq (step n (rings L cq) (LStep i)) (cov L cq) _ _ _ _ _ _ _ HL Hi Hg); ringtac.
    + apply (thr2_bz_ext n K (bzr L cq)); [|exact HTR].
      intros k. destruct (Nat.eqb_spec k i) as [->|]; [now rewrite Hbi|reflexivity].
    + intros E. congruence.
    + intros r _. now rewrite Eq.
  - rewrite Hid. cbn [is_idle_b]. rewrite (last_ev_app _ _ _ _ _ _ Htr). unfold qtick, set_q, Lscq.set_ring. lflat.
    assert (Hdead : dead (rings L cq)).
    { destruct Hwhy as [(Ht0 & Hthr)|[(H & Ht7 & Hthr)|Ht4]].
      - apply (dead_thr n K (bzr L cq) (cov L cq) (rings L cq) i HI0 HT0 Hcv). now left.
      - apply (dead_thr n K (bzr L cq) (cov L cq) (rings L cq) i HI0 HT0 Hcv). right. rewrite Ht7. auto.
      - apply HF. now rewrite Ht4. }
    apply (linv_ring n K L i (QD_cas cq) cq (step n (rings L cq) (LStep i)) (cov L cq) _ _ _ _ _ _ _ HL Hi Hg); ringtac.
    + apply (thr2_bz_ext n K (bzr L cq)); [|exact HTR].
      intros k. destruct (Nat.eqb_spec k i) as [->|]; [now rewrite Hbi|reflexivity].
    + intros E. congruence.
    + intros r _. now rewrite Eq.
    + intros c E. inj E. exact Hg.
    + intros c E. inj E. exact Hx.
    + intros c E. inj E. split; [reflexivity|]. split; [exact Hcl'|]. now apply (dead_rok _ _ Hok Hcl).
Qed.

(* ------------------------------------------------------------------ every step, every run *)
Definition qthread (l : qlabel) : nat := match l with QLEnq i _ | QLDeq i | QLStep i => i end.

Lemma linv_qstep L l : LInv n K L -> (qthread l < K)%nat -> LInv n K (qstep n L l).
Proof.
  intros HL Hi. unfold qstep. destruct l as [i v|i|i]; cbn [qthread] in Hi.
  - destruct (qth L i) eqn:Eq; try (now apply linv_tick). apply st_invoke; eauto.
  - destruct (qth L i) eqn:Eq; try (now apply linv_tick). apply st_invoke; eauto.
  - unfold qstep_th. destruct (qth L i) eqn:Eq.
    + now apply linv_tick.
    + now apply st_ldtail.
    + destruct (Nat.ltb_spec (S cq) (nr L)); [now apply (st_ldnext_help L i d cq)|now apply st_ldnext_enter].
    + now apply st_help.
    + now apply st_ering.
    + eapply st_close; eauto.
    + destruct (mu L cq); [now apply linv_tick|now apply st_lock].
    + now apply st_chk.
    + now apply st_alloc.
    + destruct (Nat.eqb_spec (S cq) (nr L)); [eapply st_link; eauto|eapply st_link_lost; eauto].
    + now apply st_mvtail.
    + eapply st_unlock_ret; eauto.
    + now apply st_unlock_retry.
    + now apply st_ldhead.
    + now apply st_dring1.
    + now apply st_dldnext.
    + now apply st_reset.
    + now apply st_dring2.
    + now apply st_cas.
Qed.

Lemma linv_reach sched : (forall l, In l sched -> (qthread l < K)%nat) -> LInv n K (qrun n (linit n) sched).
Proof.
  intros Hs. unfold qrun.
  assert (G : forall L, LInv n K L -> LInv n K (fold_left (qstep n) sched L)).
  { induction sched as [|l s IH]; intros L HL; [exact HL|]. cbn [fold_left]. apply IH.
    - intros l' Hl'. apply Hs. now right.
    - apply linv_qstep; auto. apply Hs. now left. }
  apply G. now apply linv_init.
Qed.

End Step.
