(* C05 - counting lemmas used by the threshold argument of the small-step SCQ ring. *)
From Coq Require Import ZArith List Bool Lia Arith FinFun.
Import ListNotations.
Open Scope Z_scope.

Definition b2n (b : bool) : nat := if b then 1%nat else 0%nat.

Definition memz (x : Z) (l : list Z) : bool := existsb (Z.eqb x) l.
Lemma memz_in x l : memz x l = true <-> In x l.
Proof.
  unfold memz. rewrite existsb_exists. split.
  - intros (y & Hy & E). apply Z.eqb_eq in E. now subst.
  - intros H. exists x. split; [exact H|apply Z.eqb_refl].
Qed.
Lemma memz_notin x l : memz x l = false <-> ~ In x l.
Proof. rewrite <- memz_in. destruct (memz x l); split; congruence. Qed.

(* ---- counting over the threads 0 .. K-1 ---- *)
Section Cnt.
Variable K : nat.
Definition cnt (p : nat -> bool) : nat := length (filter p (seq 0 K)).

Lemma filter_len_le {A} (p q : A -> bool) l :
  (forall x, In x l -> p x = true -> q x = true) -> (length (filter p l) <= length (filter q l))%nat.
Proof.
  induction l as [|a l IH]; intros H; [apply Nat.le_refl|]. cbn [filter].
  assert (IH' : (length (filter p l) <= length (filter q l))%nat) by (apply IH; intros; apply H; auto; now right).
  destruct (p a) eqn:Ep.
  - rewrite (H a (or_introl eq_refl) Ep). cbn. lia.
  - destruct (q a); cbn; lia.
Qed.

Lemma cnt_le p q : (forall i, (i < K)%nat -> p i = true -> q i = true) -> (cnt p <= cnt q)%nat.
Proof. intros H. apply filter_len_le. intros i Hi. apply in_seq in Hi. apply H. lia. Qed.

Lemma filter_len_ext {A} (p q : A -> bool) l :
  (forall x, In x l -> p x = q x) -> length (filter p l) = length (filter q l).
Proof.
  induction l as [|a l IH]; intros H; [reflexivity|]. cbn [filter].
  rewrite (H a (or_introl eq_refl)). pose proof (IH (fun x Hx => H x (or_intror Hx))) as E. destruct (q a); cbn [length]; lia.
Qed.

Lemma cnt_ext p q : (forall i, (i < K)%nat -> p i = q i) -> cnt p = cnt q.
Proof. intros H. apply filter_len_ext. intros i Hi. apply in_seq in Hi. apply H. lia. Qed.

(* changing the predicate at one index *)
Lemma filter_len_upd (p q : nat -> bool) i l :
  NoDup l -> In i l -> (forall k, k <> i -> p k = q k) ->
  (length (filter p l) + b2n (q i) = length (filter q l) + b2n (p i))%nat.
Proof.
  induction l as [|a l IH]; intros Hnd Hin Hoth; [destruct Hin|].
  inversion Hnd as [|? ? Hna Hnd']; subst. cbn [filter]. destruct Hin as [->|Hin].
  - assert (E : length (filter p l) = length (filter q l)).
    { apply filter_len_ext. intros x Hx. apply Hoth. intros ->. contradiction. }
    destruct (p i), (q i); cbn; lia.
  - assert (Hai : a <> i) by (intros ->; contradiction).
    rewrite (Hoth a Hai). specialize (IH Hnd' Hin Hoth). destruct (q a); cbn; lia.
Qed.

Lemma cnt_upd p q i : (i < K)%nat -> (forall k, k <> i -> p k = q k) ->
  (cnt p + b2n (q i) = cnt q + b2n (p i))%nat.
Proof.
  intros Hi H. apply filter_len_upd; auto; [apply seq_NoDup|apply in_seq; lia].
Qed.

(* two disjoint predicates that both miss some index *)
Lemma cnt_two p q i0 : (i0 < K)%nat -> p i0 = false -> q i0 = false ->
  (forall i, p i = true -> q i = true -> False) -> (cnt p + cnt q + 1 <= K)%nat.
Proof.
  intros Hi Hp Hq Hd.
  assert (H : forall l, NoDup l -> In i0 l -> (length (filter p l) + length (filter q l) + 1 <= length l)%nat).
  { induction l as [|a l IH]; intros Hnd Hin; [destruct Hin|].
    inversion Hnd as [|? ? Hna Hnd']; subst. cbn [filter length]. destruct Hin as [->|Hin].
    - rewrite Hp, Hq.
      assert (forall l', (length (filter p l') + length (filter q l') <= length l')%nat).
      { induction l' as [|b l' IH']; [cbn; lia|]. cbn [filter length].
        destruct (p b) eqn:Eb, (q b) eqn:Eb'; cbn [length]; try lia. exfalso. eauto. }
      specialize (H l). lia.
    - specialize (IH Hnd' Hin). destruct (p a) eqn:Ea, (q a) eqn:Ea'; cbn [length]; try lia. exfalso. eauto. }
  unfold cnt. specialize (H (seq 0 K) (seq_NoDup _ _)). rewrite seq_length in H. apply H. apply in_seq. lia.
Qed.

(* pigeonhole: distinct items with distinct partners among the indices satisfying p *)
Lemma pigeon (l : list Z) (p : nat -> bool) (R : Z -> nat -> Prop) :
  NoDup l ->
  (forall x, In x l -> exists i, (i < K)%nat /\ p i = true /\ R x i) ->
  (forall x y i, R x i -> R y i -> x = y) ->
  (length l <= cnt p)%nat.
Proof.
  intros Hnd Hex Hinj. unfold cnt.
  assert (H : forall (L : list nat) l, NoDup l ->
             (forall x, In x l -> exists i, In i L /\ R x i) -> (length l <= length L)%nat).
  { clear l Hnd Hex. intros L l. revert L. induction l as [|x l IH]; intros L Hnd Hex; [cbn; lia|].
    inversion Hnd as [|? ? Hnx Hnd']; subst.
    destruct (Hex x (or_introl eq_refl)) as (i & Hi & Ri).
    destruct (in_split _ _ Hi) as (L1 & L2 & ->).
    assert (Hl : (length l <= length (L1 ++ L2))%nat).
    { apply IH; auto. intros y Hy. destruct (Hex y (or_intror Hy)) as (k & Hk & Rk).
      exists k. split; [|exact Rk]. apply in_app_or in Hk as [Hk|[<-|Hk]]; [apply in_or_app; now left| |apply in_or_app; now right].
      exfalso. apply Hnx. rewrite (Hinj x y i Ri Rk). exact Hy. }
    rewrite app_length in *. cbn [length]. lia. }
  apply H; auto. intros x Hx. destruct (Hex x Hx) as (i & Hi & Hp & Ri). exists i. split; [|exact Ri].
  apply filter_In. split; [apply in_seq; lia|exact Hp].
Qed.
End Cnt.

(* ---- counting over a range of tickets ---- *)
Definition zr (a b : Z) : list Z := map (fun k => a + Z.of_nat k) (seq 0 (Z.to_nat (b - a))).
Lemma zr_in a b x : In x (zr a b) <-> a <= x < b.
Proof.
  unfold zr. rewrite in_map_iff. split.
  - intros (k & <- & Hk). apply in_seq in Hk. lia.
  - intros H. exists (Z.to_nat (x - a)). split; [lia|]. apply in_seq. lia.
Qed.
Lemma zr_nodup a b : NoDup (zr a b).
Proof.
  unfold zr. apply Injective_map_NoDup; [|apply seq_NoDup]. intros x y E. lia.
Qed.
Lemma zr_len a b : length (zr a b) = Z.to_nat (b - a).
Proof. unfold zr. now rewrite map_length, seq_length. Qed.
Lemma zr_empty a b : b <= a -> zr a b = [].
Proof. intros H. unfold zr. replace (Z.to_nat (b - a)) with 0%nat by lia. reflexivity. Qed.
Lemma zr_cons a b : a < b -> zr a b = a :: zr (a + 1) b.
Proof.
  intros H. unfold zr. replace (Z.to_nat (b - a)) with (S (Z.to_nat (b - (a + 1)))) by lia.
  cbn [seq map]. f_equal; [lia|]. rewrite <- seq_shift, map_map. apply map_ext. intros k. lia.
Qed.

Definition gcnt (w : Z -> bool) (a b : Z) : nat := length (filter w (zr a b)).
Lemma gcnt_shift w a b : a < b -> gcnt w a b = (b2n (w a) + gcnt w (a + 1) b)%nat.
Proof. intros H. unfold gcnt. rewrite (zr_cons a b H). cbn [filter]. destruct (w a); reflexivity. Qed.
Lemma gcnt_le w w' a b : (forall x, a <= x < b -> w x = true -> w' x = true) -> (gcnt w a b <= gcnt w' a b)%nat.
Proof. intros H. apply filter_len_le. intros x Hx. apply zr_in in Hx. now apply H. Qed.
Lemma gcnt_empty w a b : b <= a -> gcnt w a b = 0%nat.
Proof. intros H. unfold gcnt. now rewrite zr_empty. Qed.
Lemma gcnt_sub w a b c : b <= c -> (gcnt w a b <= gcnt w a c)%nat.
Proof.
  intros H. unfold gcnt.
  assert (E : filter w (zr a b) = filter (fun x => w x && (x <? b)) (zr a c)).
  { destruct (Z_le_gt_dec b a) as [Hba|Hba].
    - rewrite zr_empty by lia. cbn. symmetry. 
      assert (Hall : forall l, (forall x, In x l -> a <= x) -> filter (fun x => w x && (x <? b)) l = []).
      { induction l as [|y l IH]; intros Hl; [reflexivity|]. cbn [filter].
        assert (y <? b = false) by (apply Z.ltb_ge; specialize (Hl y (or_introl eq_refl)); lia).
        rewrite H0, andb_false_r. apply IH. intros; apply Hl; now right. }
      apply Hall. intros x Hx. apply zr_in in Hx. lia.
    - unfold zr. replace (Z.to_nat (c - a)) with (Z.to_nat (b - a) + Z.to_nat (c - b))%nat by lia.
      rewrite seq_app, map_app, filter_app.
      assert (E1 : filter (fun x => w x && (x <? b)) (map (fun k => a + Z.of_nat k) (seq 0 (Z.to_nat (b - a))))
                   = filter w (map (fun k => a + Z.of_nat k) (seq 0 (Z.to_nat (b - a))))).
      { apply filter_ext_in. intros x Hx. apply in_map_iff in Hx as (k & <- & Hk). apply in_seq in Hk.
        assert (a + Z.of_nat k <? b = true) by (apply Z.ltb_lt; lia). rewrite H0. apply andb_true_r. }
      assert (E2 : filter (fun x => w x && (x <? b)) (map (fun k => a + Z.of_nat k) (seq (0 + Z.to_nat (b - a)) (Z.to_nat (c - b)))) = []).
      { assert (Hall : forall l, (forall x, In x l -> b <= x) -> filter (fun x => w x && (x <? b)) l = []).
        { induction l as [|y l IH]; intros Hl; [reflexivity|]. cbn [filter].
          assert (y <? b = false) by (apply Z.ltb_ge; apply Hl; now left).
          rewrite H0, andb_false_r. apply IH. intros; apply Hl; now right. }
        apply Hall. intros x Hx. apply in_map_iff in Hx as (k & <- & Hk). apply in_seq in Hk. lia. }
      rewrite E1, E2, app_nil_r. reflexivity. }
  rewrite E. apply filter_len_le. intros x _ Hx. apply andb_true_iff in Hx. tauto.
Qed.
Lemma gcnt_len w a b : (gcnt w a b <= Z.to_nat (b - a))%nat.
Proof.
  unfold gcnt. rewrite <- (zr_len a b). generalize (zr a b). intros l.
  induction l as [|x l IH]; cbn [filter length]; [lia|]. destruct (w x); cbn [length]; lia.
Qed.
