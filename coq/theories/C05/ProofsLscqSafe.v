(* C05 - the LSCQ layer: the queue-level trace against the traces of the rings.  Every ring of a reachable queue
   state is a reachable state of the ring machine Scq.v (under the schedule of ring-level steps the queue-level
   threads issued on it), so every any-schedule ring theorem applies to it; a queue-level call returns exactly what
   the ring-level call it made returned, once. *)
From Coq Require Import ZArith List Bool Lia Arith.
Import ListNotations.
From VF Require Import C05.Scq C05.ScqAux C05.Lscq C05.ProofsScqInv C05.ProofsScqSafe C05.ProofsScqOrd C05.ProofsScqTie
  C05.ProofsScqCount C05.ProofsScqThr C05.ProofsScqThr2
  C05.ProofsScqEmpty C05.ProofsScqDead C05.ProofsLscqFresh C05.ProofsLscqFresh2 C05.ProofsLscq C05.ProofsLscqStep C05.ProofsLscqShape.
Open Scope Z_scope.

Definition qenq_ids (tr : list (nat * Z * Z * qevent)) : list (nat * Z) :=
  flat_map (fun x => match snd x with QEnq _ r T => [(r, T)] | _ => [] end) tr.
Definition qdeq_ids (tr : list (nat * Z * Z * qevent)) : list (nat * Z) :=
  flat_map (fun x => match snd x with QDeq (Some (r, H, _)) => [(r, H)] | _ => [] end) tr.

Lemma qenq_ids_in tr r T : In (r, T) (qenq_ids tr) <-> exists i a b d, In (i, a, b, QEnq d r T) tr.
Proof.
  unfold qenq_ids. rewrite in_flat_map. split.
  - intros ([[[i a] b] ev] & Hin & He). cbn in He. destruct ev as [d r' T'|[[[r' H] v]|]]; cbn in He; try tauto.
    destruct He as [E|[]]. inversion E; subst. eauto.
  - intros (i & a & b & d & Hin). exists (i, a, b, QEnq d r T). split; [exact Hin|now left].
Qed.
Lemma qdeq_ids_in tr r H : In (r, H) (qdeq_ids tr) <-> exists i a b v, In (i, a, b, QDeq (Some (r, H, v))) tr.
Proof.
  unfold qdeq_ids. rewrite in_flat_map. split.
  - intros ([[[i a] b] ev] & Hin & He). cbn in He. destruct ev as [d r' T'|[[[r' H'] v]|]]; cbn in He; try tauto.
    destruct He as [E|[]]. inversion E; subst. eauto.
  - intros (i & a & b & v & Hin). exists (i, a, b, QDeq (Some (r, H, v))). split; [exact Hin|now left].
Qed.
Lemma qenq_ids_app a b : qenq_ids (a ++ b) = qenq_ids a ++ qenq_ids b.
Proof. unfold qenq_ids. now rewrite flat_map_app. Qed.
Lemma qdeq_ids_app a b : qdeq_ids (a ++ b) = qdeq_ids a ++ qdeq_ids b.
Proof. unfold qdeq_ids. now rewrite flat_map_app. Qed.

Lemma qnosucc_enq eq : qnosucc eq -> qenq_ids eq = [].
Proof.
  intros H. induction eq as [|x l IH]; [reflexivity|]. unfold qenq_ids in *. cbn [flat_map].
  rewrite IH by (intros y Hy; apply H; now right). pose proof (H x (or_introl eq_refl)) as Hx.
  destruct (snd x) as [d r T|[[[r h] v]|]]; try contradiction; reflexivity.
Qed.
Lemma qnosucc_deq eq : qnosucc eq -> qdeq_ids eq = [].
Proof.
  intros H. induction eq as [|x l IH]; [reflexivity|]. unfold qdeq_ids in *. cbn [flat_map].
  rewrite IH by (intros y Hy; apply H; now right). pose proof (H x (or_introl eq_refl)) as Hx.
  destruct (snd x) as [d r T|[[[r h] v]|]]; try contradiction; reflexivity.
Qed.

Lemma nodup_snoc {A} (l : list A) x : NoDup l -> ~ In x l -> NoDup (l ++ [x]).
Proof.
  intros Hl Hx. induction Hl as [|y l Hy Hl IH]; cbn; [constructor; [tauto|constructor]|].
  constructor.
  - rewrite in_app_iff. intros [H|[H|[]]]; [tauto|]. subst. apply Hx. now left.
  - apply IH. intros H. apply Hx. now right.
Qed.
Lemma nodup_snoc_inv {A} (l : list A) x : NoDup (l ++ [x]) -> ~ In x l.
Proof.
  intros H Hin. apply NoDup_remove_2 in H. rewrite app_nil_r in H. contradiction.
Qed.

Lemma deq_tickets_ret st H v : deq_returned st H v -> In H (deq_tickets (trace st)).
Proof.
  intros (i & a & b & Hin). induction (trace st) as [|[[[i0 x] y] ev] tr IH]; [destruct Hin|].
  destruct Hin as [E|Hin].
  - inversion E; subst. cbn. now left.
  - cbn. destruct ev as [d [T|]|[[H' v']|]]; cbn; auto.
Qed.

Lemma fresh_is_run n i d : fresh_with n i d = run n (init n) (LEnq i d :: repeat (LStep i) 5).
Proof. Transparent fresh_with. reflexivity. Opaque fresh_with. Qed.

Section Safe.
Variable n : Z.
Hypothesis Hn : 1 <= n.
Variable K : nat.
Hypothesis HK : Z.of_nat K <= n + 1.

Record QT (L : lstate) : Prop := {
  t_proj : forall r, exists rs, rings L r = run n (init n) rs;
  t_e1 : forall i a b d r T, In (i, a, b, QEnq d r T) (qtrace L) -> enq_returned (rings L r) T d;
  t_d1 : forall i a b r H v, In (i, a, b, QDeq (Some (r, H, v))) (qtrace L) -> deq_returned (rings L r) H v;
  t_d2 : forall r H v, deq_returned (rings L r) H v -> exists i a b, In (i, a, b, QDeq (Some (r, H, v))) (qtrace L);
  t_e2 : forall r T d, enq_returned (rings L r) T d ->
           (exists i a b, In (i, a, b, QEnq d r T) (qtrace L)) \/ (exists i cq, lnk (qth L i) = Some (d, cq) /\ r = S cq /\ T = n);
  t_ne : NoDup (qenq_ids (qtrace L));
  t_nd : NoDup (qdeq_ids (qtrace L));
  t_lu : forall i j d d' cq, lnk (qth L i) = Some (d, cq) -> lnk (qth L j) = Some (d', cq) -> i = j;
  t_ex : forall i d cq, lnk (qth L i) = Some (d, cq) -> ~ In (S cq, n) (qenq_ids (qtrace L));
  t_lr : forall i d cq, lnk (qth L i) = Some (d, cq) -> enq_returned (rings L (S cq)) n d
}.

Lemma qt_init : QT (linit n).
Proof.
  constructor; cbn [linit rings nr qh qt mu qth gclk qsince qtrace cov].
  - intros r. exists []. reflexivity.
  - intros i a b d r T [].
  - intros i a b r H v [].
  - intros r H v (i & a & b & []).
  - intros r T d (i & a & b & []).
  - constructor.
  - constructor.
  - intros i j d d' cq E. discriminate E.
  - intros i d cq E. discriminate E.
  - intros i d cq E. discriminate E.
Qed.

Lemma enq_ret_mono st st' er T d : trace st' = trace st ++ er -> enq_returned st T d -> enq_returned st' T d.
Proof. intros E (i & a & b & Hin). exists i, a, b. rewrite E. apply in_or_app. now left. Qed.
Lemma deq_ret_mono st st' er H v : trace st' = trace st ++ er -> deq_returned st H v -> deq_returned st' H v.
Proof. intros E (i & a & b & Hin). exists i, a, b. rewrite E. apply in_or_app. now left. Qed.

Lemma qt_quiet L L' : QT L -> quiet_step n L L' -> QT L'.
Proof.
  intros HQ (cq & R' & ls & er & eq & Hr & Hnr & HR & Htr & Hq & Hl & Hm & _).
  destruct (t_proj _ HQ cq) as (rs & Hrs).
  assert (HR' : R' = run n (init n) (rs ++ ls)) by (rewrite run_app, <- Hrs; exact HR).
  assert (HI' : Inv n R') by (rewrite HR'; now apply inv_reach).
  assert (HO' : Ord R') by (rewrite HR'; now apply ord_reach).
  assert (Hre : forall r T d, enq_returned (rings L r) T d -> enq_returned (rings L' r) T d).
  { intros r T d H. rewrite Hr. destruct (Nat.eqb_spec r cq) as [->|]; [eapply enq_ret_mono; eauto|exact H]. }
  assert (Hrd : forall r H v, deq_returned (rings L r) H v -> deq_returned (rings L' r) H v).
  { intros r H v H0. rewrite Hr. destruct (Nat.eqb_spec r cq) as [->|]; [eapply deq_ret_mono; eauto|exact H0]. }
  assert (Hcq : rings L' cq = R') by (rewrite Hr; now rewrite Nat.eqb_refl).
  constructor.
  - intros r. rewrite Hr. destruct (Nat.eqb_spec r cq); [eauto|apply (t_proj _ HQ)].
  - intros i a b d r T Hin. rewrite Hq in Hin. apply in_app_or in Hin as [Hin|Hin]; [apply Hre; eapply (t_e1 _ HQ); eauto|].
    destruct Hm as [(_ & Hns)|[(i0 & d0 & T0 & Er & Eq & _)|(i0 & H0 & v0 & Er & Eq & _)]].
    + exfalso. exact (Hns _ Hin).
    + rewrite Eq in Hin. destruct Hin as [E|[]]. inversion E; subst. rewrite Hcq. eexists _, _, _. rewrite Htr. apply in_or_app. right. now left.
    + rewrite Eq in Hin. destruct Hin as [E|[]]. discriminate E.
  - intros i a b r H v Hin. rewrite Hq in Hin. apply in_app_or in Hin as [Hin|Hin]; [apply Hrd; eapply (t_d1 _ HQ); eauto|].
    destruct Hm as [(_ & Hns)|[(i0 & d0 & T0 & Er & Eq & _)|(i0 & H0 & v0 & Er & Eq & _)]].
    + exfalso. exact (Hns _ Hin).
    + rewrite Eq in Hin. destruct Hin as [E|[]]. discriminate E.
    + rewrite Eq in Hin. destruct Hin as [E|[]]. inversion E; subst. rewrite Hcq. eexists _, _, _. rewrite Htr. apply in_or_app. right. now left.
  - intros r H v Hd. rewrite Hq.
    assert (Hold : deq_returned (rings L r) H v -> exists i a b, In (i, a, b, QDeq (Some (r, H, v))) (qtrace L ++ eq)).
    { intros Ho. destruct (t_d2 _ HQ r H v Ho) as (i & a & b & Hin). exists i, a, b. apply in_or_app. now left. }
    rewrite Hr in Hd. destruct (Nat.eqb_spec r cq) as [->|]; [|auto].
    destruct Hd as (i & a & b & Hin). rewrite Htr in Hin. apply in_app_or in Hin as [Hin|Hin]; [apply Hold; exists i, a, b; exact Hin|].
    destruct Hm as [(Hns & _)|[(i0 & d0 & T0 & Er & Eq & _)|(i0 & H0 & v0 & Er & Eq & _)]].
    + exfalso. exact (Hns _ Hin).
    + rewrite Er in Hin. destruct Hin as [E|[]]. discriminate E.
    + rewrite Er in Hin. destruct Hin as [E|[]]. inversion E; subst. eexists _, _, _. apply in_or_app. right. now left.
  - intros r T d He. rewrite Hq.
    assert (Hold : enq_returned (rings L r) T d ->
      (exists i a b, In (i, a, b, QEnq d r T) (qtrace L ++ eq)) \/ (exists i c, lnk (qth L' i) = Some (d, c) /\ r = S c /\ T = n)).
    { intros Ho. destruct (t_e2 _ HQ r T d Ho) as [(i & a & b & Hin)|(i & c & E1 & E2 & E3)].
      - left. exists i, a, b. apply in_or_app. now left.
      - right. exists i, c. rewrite Hl. auto. }
    rewrite Hr in He. destruct (Nat.eqb_spec r cq) as [->|]; [|auto].
    destruct He as (i & a & b & Hin). rewrite Htr in Hin. apply in_app_or in Hin as [Hin|Hin]; [apply Hold; exists i, a, b; exact Hin|].
    destruct Hm as [(Hns & _)|[(i0 & d0 & T0 & Er & Eq & _)|(i0 & H0 & v0 & Er & Eq & _)]].
    + exfalso. exact (Hns _ Hin).
    + rewrite Er in Hin. destruct Hin as [E|[]]. inversion E; subst. left. eexists _, _, _. apply in_or_app. right. now left.
    + rewrite Er in Hin. destruct Hin as [E|[]]. discriminate E.
  - rewrite Hq, qenq_ids_app.
    destruct Hm as [(_ & Hns)|[(i0 & d0 & T0 & Er & Eq & _)|(i0 & H0 & v0 & Er & Eq & _)]].
    + rewrite (qnosucc_enq _ Hns), app_nil_r. apply (t_ne _ HQ).
    + rewrite Eq. cbn. apply nodup_snoc; [apply (t_ne _ HQ)|]. intros Hin. apply qenq_ids_in in Hin as (i & a & b & d & Hin).
      pose proof (t_e1 _ HQ _ _ _ _ _ _ Hin) as (i' & a' & b' & Hin').
      pose proof (o_u1 _ HO') as Hnd. rewrite Htr, Er, enq_tickets_app in Hnd. cbn in Hnd. apply nodup_snoc_inv in Hnd. apply Hnd.
      apply enq_tickets_in. eauto.
    + rewrite Eq. cbn. rewrite app_nil_r. apply (t_ne _ HQ).
  - rewrite Hq, qdeq_ids_app.
    destruct Hm as [(_ & Hns)|[(i0 & d0 & T0 & Er & Eq & _)|(i0 & H0 & v0 & Er & Eq & _)]].
    + rewrite (qnosucc_deq _ Hns), app_nil_r. apply (t_nd _ HQ).
    + rewrite Eq. cbn. rewrite app_nil_r. apply (t_nd _ HQ).
    + rewrite Eq. cbn. apply nodup_snoc; [apply (t_nd _ HQ)|]. intros Hin. apply qdeq_ids_in in Hin as (i & a & b & v & Hin).
      pose proof (t_d1 _ HQ _ _ _ _ _ _ Hin) as Hret. apply deq_tickets_ret in Hret.
      pose proof (i_tr_nd _ _ HI') as Hnd. rewrite Htr, Er, deq_tickets_app in Hnd. cbn in Hnd. apply nodup_snoc_inv in Hnd. now apply Hnd.
  - intros i j d d' c. rewrite !Hl. apply (t_lu _ HQ).
  - intros i d c E. rewrite Hl in E. rewrite Hq, qenq_ids_app. intros Hin. apply in_app_or in Hin as [Hin|Hin]; [exact (t_ex _ HQ i d c E Hin)|].
    destruct Hm as [(_ & Hns)|[(i0 & d0 & T0 & Er & Eq & _)|(i0 & H0 & v0 & Er & Eq & _)]].
    + rewrite (qnosucc_enq _ Hns) in Hin. destruct Hin.
    + rewrite Eq in Hin. cbn in Hin. destruct Hin as [E'|[]]. rewrite Er in Htr. inversion E'; subst.
      destruct (t_lr _ HQ i d c E) as (i' & a' & b' & Hin').
      pose proof (o_u1 _ HO') as Hnd. rewrite Htr, enq_tickets_app in Hnd. cbn in Hnd. apply nodup_snoc_inv in Hnd. apply Hnd.
      apply enq_tickets_in. eauto.
    + rewrite Eq in Hin. cbn in Hin. destruct Hin.
  - intros i d c E. rewrite Hl in E. apply Hre. exact (t_lr _ HQ i d c E).
Qed.

Lemma qt_link L L' : LInv n K L -> QT L -> link_step n L L' -> QT L'.
Proof.
  intros HL HQ (i & d & cq & Eq & Hnr & Hnr' & Hr & Hq & Hth).
  destruct (fresh_fields n Hn K i d) as (_ & _ & _ & _ & _ & _ & _ & _ & Hft & _).
  destruct (l_unl _ _ _ HL (nr L) (le_n _)) as (Hinit & _).
  assert (Hno_e : forall T x, ~ enq_returned (rings L (nr L)) T x) by (intros T x (i0 & a & b & Hin); rewrite Hinit in Hin; destruct Hin).
  assert (Hno_d : forall H x, ~ deq_returned (rings L (nr L)) H x) by (intros H x (i0 & a & b & Hin); rewrite Hinit in Hin; destruct Hin).
  assert (Hli : lnk (qth L i) = None) by (rewrite Eq; reflexivity).
  assert (Hlo : forall k, k <> i -> qth L' k = qth L k) by (intros k Hk; rewrite Hth; destruct (Nat.eqb_spec k i); [contradiction|reflexivity]).
  assert (Hls : qth L' i = QE_mvtail d cq) by (rewrite Hth; now rewrite Nat.eqb_refl).
  assert (Hlk : forall k x c, lnk (qth L' k) = Some (x, c) -> (k = i /\ x = d /\ c = cq) \/ (k <> i /\ lnk (qth L k) = Some (x, c) /\ (S c < nr L)%nat)).
  { intros k x c E. destruct (Nat.eq_dec k i) as [->|Hk].
    - rewrite Hls in E. cbn in E. inversion E. auto.
    - right. rewrite (Hlo k Hk) in E. split; [auto|]. split; [auto|]. apply (l_nxt _ _ _ HL k c).
      destruct (qth L k); cbn in E; try discriminate E; inversion E; reflexivity. }
  constructor.
  - intros r. rewrite Hr. destruct (Nat.eqb_spec r (nr L)); [|apply (t_proj _ HQ)]. eexists. apply fresh_is_run.
  - intros i0 a b x r T Hin. rewrite Hq in Hin. pose proof (t_e1 _ HQ _ _ _ _ _ _ Hin) as He. rewrite Hr.
    destruct (Nat.eqb_spec r (nr L)) as [->|]; [exfalso; exact (Hno_e _ _ He)|exact He].
  - intros i0 a b r H v Hin. rewrite Hq in Hin. pose proof (t_d1 _ HQ _ _ _ _ _ _ Hin) as He. rewrite Hr.
    destruct (Nat.eqb_spec r (nr L)) as [->|]; [exfalso; exact (Hno_d _ _ He)|exact He].
  - intros r H v Hd. rewrite Hq. rewrite Hr in Hd. destruct (Nat.eqb_spec r (nr L)) as [->|]; [|now apply (t_d2 _ HQ)].
    destruct Hd as (i0 & a & b & Hin). rewrite Hft in Hin. destruct Hin as [E|[]]. discriminate E.
  - intros r T x He. rewrite Hq. rewrite Hr in He. destruct (Nat.eqb_spec r (nr L)) as [->|Hrn].
    + destruct He as (i0 & a & b & Hin). rewrite Hft in Hin. destruct Hin as [E|[]]. inversion E; subst.
      right. exists i0, cq. rewrite Hls. auto.
    + destruct (t_e2 _ HQ r T x He) as [Hl|(k & c & E1 & E2 & E3)]; [now left|]. right. exists k, c.
      assert (k <> i) by (intros ->; rewrite Hli in E1; discriminate E1). rewrite (Hlo k) by auto. auto.
  - rewrite Hq. apply (t_ne _ HQ).
  - rewrite Hq. apply (t_nd _ HQ).
  - intros a b x y c Ea Eb. destruct (Hlk _ _ _ Ea) as [(-> & -> & ->)|(Ha & Ea' & Hca)]; destruct (Hlk _ _ _ Eb) as [(-> & -> & Ec)|(Hb & Eb' & Hcb)]; auto; try lia.
    exact (t_lu _ HQ _ _ _ _ _ Ea' Eb').
  - intros k x c E. rewrite Hq. destruct (Hlk _ _ _ E) as [(-> & -> & ->)|(Hk & E' & Hc)]; [|exact (t_ex _ HQ k x c E')].
    intros Hin. apply qenq_ids_in in Hin as (i0 & a & b & d0 & Hin). rewrite Hnr in Hin. exact (Hno_e _ _ (t_e1 _ HQ _ _ _ _ _ _ Hin)).
  - intros k x c E. destruct (Hlk _ _ _ E) as [(-> & -> & ->)|(Hk & E' & Hc)].
    + rewrite Hr, Hnr, Nat.eqb_refl. exists i, 0, 5. rewrite Hft. now left.
    + rewrite Hr. destruct (Nat.eqb_spec (S c) (nr L)); [lia|]. exact (t_lr _ HQ k x c E').
Qed.

Lemma qt_lret L L' : QT L -> lret_step n L L' -> QT L'.
Proof.
  intros HQ (i & d & cq & Eq & Hr & Hnr & Hq & Hth).
  assert (Hli : lnk (qth L i) = Some (d, cq)) by (rewrite Eq; reflexivity).
  assert (Hlo : forall k, k <> i -> qth L' k = qth L k) by (intros k Hk; rewrite Hth; destruct (Nat.eqb_spec k i); [contradiction|reflexivity]).
  assert (Hls : qth L' i = QIdle) by (rewrite Hth; now rewrite Nat.eqb_refl).
  assert (Hlk : forall k x c, lnk (qth L' k) = Some (x, c) -> k <> i /\ lnk (qth L k) = Some (x, c)).
  { intros k x c E. destruct (Nat.eq_dec k i) as [->|Hk]; [rewrite Hls in E; discriminate E|]. rewrite (Hlo k Hk) in E. auto. }
  constructor.
  - intros r. rewrite Hr. apply (t_proj _ HQ).
  - intros i0 a b x r T Hin. rewrite Hr. rewrite Hq in Hin. apply in_app_or in Hin as [Hin|[E|[]]]; [eapply (t_e1 _ HQ); eauto|].
    inversion E; subst. exact (t_lr _ HQ _ _ _ Hli).
  - intros i0 a b r H v Hin. rewrite Hr. rewrite Hq in Hin. apply in_app_or in Hin as [Hin|[E|[]]]; [eapply (t_d1 _ HQ); eauto|discriminate E].
  - intros r H v Hd. rewrite Hr in Hd. destruct (t_d2 _ HQ r H v Hd) as (i0 & a & b & Hin). exists i0, a, b. rewrite Hq. apply in_or_app. now left.
  - intros r T x He. rewrite Hr in He. rewrite Hq. destruct (t_e2 _ HQ r T x He) as [(i0 & a & b & Hin)|(k & c & E1 & E2 & E3)].
    + left. exists i0, a, b. apply in_or_app. now left.
    + destruct (Nat.eq_dec k i) as [->|Hk].
      * rewrite Hli in E1. inversion E1; subst. left. exists i, (qsince L i), (gclk L). apply in_or_app. right. now left.
      * right. exists k, c. rewrite (Hlo k Hk). auto.
  - rewrite Hq, qenq_ids_app. cbn. apply nodup_snoc; [apply (t_ne _ HQ)|exact (t_ex _ HQ _ _ _ Hli)].
  - rewrite Hq, qdeq_ids_app. cbn. rewrite app_nil_r. apply (t_nd _ HQ).
  - intros a b x y c Ea Eb. destruct (Hlk _ _ _ Ea) as (_ & Ea'). destruct (Hlk _ _ _ Eb) as (_ & Eb'). exact (t_lu _ HQ _ _ _ _ _ Ea' Eb').
  - intros k x c E. destruct (Hlk _ _ _ E) as (Hk & E'). rewrite Hq, qenq_ids_app. cbn. intros Hin.
    apply in_app_or in Hin as [Hin|[E0|[]]]; [exact (t_ex _ HQ k x c E' Hin)|]. inversion E0; subst. apply Hk. symmetry. exact (t_lu _ HQ _ _ _ _ _ Hli E').
  - intros k x c E. destruct (Hlk _ _ _ E) as (Hk & E'). rewrite Hr. exact (t_lr _ HQ k x c E').
Qed.

Lemma qt_reach sched : (forall l, In l sched -> (qthread l < K)%nat) ->
  LInv n K (qrun n (linit n) sched) /\ QT (qrun n (linit n) sched).
Proof.
  intros Hs. unfold qrun.
  assert (G : forall L, LInv n K L /\ QT L -> LInv n K (fold_left (qstep n) sched L) /\ QT (fold_left (qstep n) sched L)).
  { induction sched as [|l s IH]; intros L HL; [exact HL|]. cbn [fold_left]. apply IH.
    - intros l' Hl'. apply Hs. now right.
    - destruct HL as [HL HQ]. assert (Hl : (qthread l < K)%nat) by (apply Hs; now left).
      split; [now apply linv_qstep|].
      destruct (qstep_shape n K L l HL Hl) as [H|[H|H]]; [eapply qt_quiet; eauto|eapply qt_link; eauto|eapply qt_lret; eauto]. }
  apply G. split; [now apply linv_init|apply qt_init].
Qed.

End Safe.
