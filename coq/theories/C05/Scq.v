(* C05 - ONE SCQ ring (uint64SCQ of structure/queues/lscq/uint.go) as an executable small-step concurrent
   system.  DEFINITIONS ONLY; proofs are in ProofsScq*.v.

   Shared memory (sequentially consistent atomics, Go's model for sync/atomic and for the LOCKed
   instructions of asm.s):
     ring   : slot index -> entry (isSafe, isEmpty, cycle, data word).  Slots are indexed by the RESIDUE
              T mod n of a ticket; the code stores residue r at the physical index cacheRemap16Byte(r), a
              bijection of [0, n) (C05_remap_bij), i.e. a renaming of the slots that no step observes.
     hd, tl : the head counter and the 63-bit ticket part of the tail word; closed = bit 63 of the tail
              word (set by the LSCQ layer, label LClose; LResetThr is the LSCQ layer's threshold store).  Counters are unbounded (no 2^63 wrap-around).
     thr    : threshold.
   n = scqsize (65536 in util.go); the theorems hold for every n >= 1.
   Threads: any number (thread ids are naturals; an idle thread starts a call chosen by the schedule).
   Every atomic access of Enqueue / Dequeue / fixstate is ONE step of ONE thread:
     Enqueue  E1 fetch-add tail   E2 load slot flags   E3 load head (only if the slot is unsafe)
              E4 128-bit CAS of the slot   E5 load head (full test)   E6 load threshold   E7 store threshold
     Dequeue  D0 load threshold   D1 fetch-add head   D2 128-bit load of the slot
              D3a store data := 0 / D3b LOCK BTS isEmpty (the two instructions of resetNode)
              D4 128-bit CAS of the slot   D5 load tail   D7 fetch-add threshold -1
     fixstate F1 load head   F2 load tail word   F3 CAS tail   F4 fetch-add threshold -1 (after fixstate)
   Ghost state (never read by a branch of the step function):
     wlog   : (ticket, value) of every successful enqueue CAS (E4)
     clog   : (ticket, value) of every dequeue that found its own cycle in the slot (D2) and will return it
     plog   : dequeue tickets whose holder has gone past its slot without taking a value
     clk, since, trace : a step counter, the invocation stamp of each thread's current call, and the
              completed calls (thread, invocation stamp, response stamp, event). *)
From Coq Require Import ZArith List Bool.
Import ListNotations.
Open Scope Z_scope.

Record entry := mkE { safe : bool; emp : bool; cyc : Z; dat : Z }.

Definition entry_eqb (a b : entry) : bool :=
  Bool.eqb (safe a) (safe b) && Bool.eqb (emp a) (emp b) && (cyc a =? cyc b) && (dat a =? dat b).

(* newSCQFlags(true, true, 0), data 0 *)
Definition entry0 : entry := mkE true true 0 0.

Inductive tstate :=
| Idle
| E1 (d : Z)                         (* about to fetch-add tail *)
| E2 (d T : Z)                       (* eqretry: about to load the flags of slot T mod n *)
| E3 (d T : Z) (e : entry)           (* flags loaded (e, data 0), slot unsafe: about to load head *)
| E4 (d T : Z) (e : entry)           (* about to CAS the slot from e to (safe, non-empty, T/n, d) *)
| E5 (d T : Z)                       (* about to load head for the full test *)
| E6 (d T : Z)                       (* CAS done: about to load threshold *)
| E7 (d T : Z)                       (* about to store threshold *)
| D0                                 (* about to load threshold *)
| D1                                 (* about to fetch-add head *)
| D2 (H : Z)                         (* dqretry: about to load the slot H mod n (16 bytes) *)
| D3a (H x : Z)                      (* own cycle found, value x: about to store data := 0 *)
| D3b (H x : Z)                      (* about to set isEmpty *)
| D4 (H : Z) (e : entry)             (* older cycle e loaded: about to CAS the slot *)
| D5 (H : Z)                         (* about to load tail *)
| D7 (H : Z)                         (* about to fetch-add threshold -1 *)
| F1 (oh : Z)                        (* fixstate(oh): about to load head *)
| F2 (oh h : Z)                      (* about to load the tail word *)
| F3 (oh h tv : Z)                   (* about to CAS tail from tv to h *)
| F4.                                (* fixstate returned: about to fetch-add threshold -1 *)

Inductive event :=
| EvEnq (v : Z) (r : option Z)       (* Enqueue(v): Some T = returned true after writing with ticket T; None = false *)
| EvDeq (r : option (Z * Z)).        (* Dequeue: Some (H, v) = (v, true) taken with ticket H; None = (0, false) *)

Record state := mkS {
  ring : Z -> entry; hd : Z; tl : Z; closed : bool; thr : Z;
  th : nat -> tstate;
  wlog : list (Z * Z); clog : list (Z * Z); plog : list Z;
  clk : Z; since : nat -> Z; trace : list (nat * Z * Z * event)
}.

Inductive label :=
| LEnq (i : nat) (v : Z)     (* idle thread i invokes Enqueue(v) *)
| LDeq (i : nat)             (* idle thread i invokes Dequeue() *)
| LStep (i : nat)            (* thread i performs its next atomic access *)
| LClose                     (* the LSCQ layer closes the ring: atomicTestAndSetFirstBit(&cq.tail) *)
| LResetThr.                 (* the LSCQ layer resets the threshold of a drained, closed ring: StoreInt64(&cq.threshold, 2*scqsize-1) *)

Definition updf {A} (f : nat -> A) (i : nat) (x : A) : nat -> A := fun k => if Nat.eqb k i then x else f k.
Definition updr (r : Z -> entry) (j : Z) (e : entry) : Z -> entry := fun k => if k =? j then e else r k.

Section SCQ.
Variable n : Z.                       (* scqsize *)

Definition thr_full : Z := 2 * n - 1.
Definition slot (T : Z) : Z := T mod n.
Definition cyc_of (T : Z) : Z := T / n.

Definition init : state :=
  mkS (fun _ => entry0) n n false (-1) (fun _ => Idle) [] [] [] 0 (fun _ => 0) [].

(* thread i moves to s *)
Definition goto (st : state) (i : nat) (s : tstate) : state :=
  mkS (ring st) (hd st) (tl st) (closed st) (thr st) (updf (th st) i s)
      (wlog st) (clog st) (plog st) (clk st) (since st) (trace st).
(* thread i returns with event ev *)
Definition ret (st : state) (i : nat) (ev : event) : state :=
  mkS (ring st) (hd st) (tl st) (closed st) (thr st) (updf (th st) i Idle)
      (wlog st) (clog st) (plog st) (clk st) (since st)
      (trace st ++ [(i, since st i, clk st, ev)]).
Definition set_tl (st : state) (t : Z) : state :=
  mkS (ring st) (hd st) t (closed st) (thr st) (th st) (wlog st) (clog st) (plog st) (clk st) (since st) (trace st).
Definition set_hd (st : state) (h : Z) : state :=
  mkS (ring st) h (tl st) (closed st) (thr st) (th st) (wlog st) (clog st) (plog st) (clk st) (since st) (trace st).
Definition set_thr (st : state) (t : Z) : state :=
  mkS (ring st) (hd st) (tl st) (closed st) t (th st) (wlog st) (clog st) (plog st) (clk st) (since st) (trace st).
Definition set_ring (st : state) (j : Z) (e : entry) : state :=
  mkS (updr (ring st) j e) (hd st) (tl st) (closed st) (thr st) (th st) (wlog st) (clog st) (plog st) (clk st) (since st) (trace st).
Definition add_w (st : state) (T v : Z) : state :=
  mkS (ring st) (hd st) (tl st) (closed st) (thr st) (th st) ((T, v) :: wlog st) (clog st) (plog st) (clk st) (since st) (trace st).
Definition add_c (st : state) (H v : Z) : state :=
  mkS (ring st) (hd st) (tl st) (closed st) (thr st) (th st) (wlog st) ((H, v) :: clog st) (plog st) (clk st) (since st) (trace st).
Definition add_p (st : state) (H : Z) : state :=
  mkS (ring st) (hd st) (tl st) (closed st) (thr st) (th st) (wlog st) (clog st) (H :: plog st) (clk st) (since st) (trace st).
Definition set_closed (st : state) : state :=
  mkS (ring st) (hd st) (tl st) true (thr st) (th st) (wlog st) (clog st) (plog st) (clk st) (since st) (trace st).
Definition invoke (st : state) (i : nat) (s : tstate) : state :=
  mkS (ring st) (hd st) (tl st) (closed st) (thr st) (updf (th st) i s)
      (wlog st) (clog st) (plog st) (clk st) (updf (since st) i (clk st)) (trace st).
Definition tick (st : state) : state :=
  mkS (ring st) (hd st) (tl st) (closed st) (thr st) (th st) (wlog st) (clog st) (plog st) (clk st + 1) (since st) (trace st).

(* ---- Enqueue ---- *)
(* tailvalue := AddUint64(&q.tail, 1) - 1; closed -> return false *)
Definition do_E1 (st : state) (i : nat) (d : Z) : state :=
  let T := tl st in
  if closed st then ret (set_tl st (T + 1)) i (EvEnq d None)
  else goto (set_tl st (T + 1)) i (E2 d T).
(* entFlags := LoadUint64(&entAddr.flags); cycleEnt < cycleT && isEmpty && (isSafe || ...) *)
Definition do_E2 (st : state) (i : nat) (d T : Z) : state :=
  let r := ring st (slot T) in
  let e := mkE (safe r) (emp r) (cyc r) 0 in            (* ent := scqNodeUint64{flags: entFlags} *)
  if (cyc r <? cyc_of T) && emp r then
    if safe r then goto st i (E4 d T e) else goto st i (E3 d T e)
  else goto st i (E5 d T).
(* ... || LoadUint64(&q.head) <= T *)
Definition do_E3 (st : state) (i : nat) (d T : Z) (e : entry) : state :=
  if hd st <=? T then goto st i (E4 d T e) else goto st i (E5 d T).
(* compareAndSwapSCQNodeUint64(entAddr, ent, newEnt); failure: goto eqretry *)
Definition do_E4 (st : state) (i : nat) (d T : Z) (e : entry) : state :=
  if entry_eqb (ring st (slot T)) e
  then goto (add_w (set_ring st (slot T) (mkE true false (cyc_of T) d)) T d) i (E6 d T)
  else goto st i (E2 d T).
(* if T+1 >= LoadUint64(&q.head)+scqsize { return false }; else next iteration *)
Definition do_E5 (st : state) (i : nat) (d T : Z) : state :=
  if hd st + n <=? T + 1 then ret st i (EvEnq d None) else goto st i (E1 d).
Definition do_E6 (st : state) (i : nat) (d T : Z) : state :=
  if thr st =? thr_full then ret st i (EvEnq d (Some T)) else goto st i (E7 d T).
Definition do_E7 (st : state) (i : nat) (d T : Z) : state :=
  ret (set_thr st thr_full) i (EvEnq d (Some T)).

(* ---- Dequeue ---- *)
Definition do_D0 (st : state) (i : nat) : state :=
  if thr st <? 0 then ret st i (EvDeq None) else goto st i D1.
Definition do_D1 (st : state) (i : nat) : state :=
  goto (set_hd st (hd st + 1)) i (D2 (hd st)).
(* ent := loadSCQNodeUint64(entAddr) *)
Definition do_D2 (st : state) (i : nat) (H : Z) : state :=
  let r := ring st (slot H) in
  if cyc r =? cyc_of H then goto (add_c st H (dat r)) i (D3a H (dat r))
  else if cyc r <? cyc_of H then goto st i (D4 H r)
  else goto (add_p st H) i (D5 H).
(* resetNode: MOVQ $0, 8(DX) *)
Definition do_D3a (st : state) (i : nat) (H x : Z) : state :=
  let r := ring st (slot H) in
  goto (set_ring st (slot H) (mkE (safe r) (emp r) (cyc r) 0)) i (D3b H x).
(* resetNode: LOCK BTSQ $62, (DX); return ent.data, true *)
Definition do_D3b (st : state) (i : nat) (H x : Z) : state :=
  let r := ring st (slot H) in
  ret (set_ring st (slot H) (mkE (safe r) true (cyc r) (dat r))) i (EvDeq (Some (H, x))).
(* compareAndSwapSCQNodeUint64(entAddr, ent, newEnt); failure: goto dqretry *)
Definition do_D4 (st : state) (i : nat) (H : Z) (e : entry) : state :=
  if entry_eqb (ring st (slot H)) e
  then
    let ne := if emp e then mkE (safe e) true (cyc_of H) 0 else mkE false false (cyc e) (dat e) in
    goto (add_p (set_ring st (slot H) ne) H) i (D5 H)
  else goto st i (D2 H).
(* T := uint64Get63(LoadUint64(&q.tail)); if T <= H+1 { fixstate(H+1); ... } *)
Definition do_D5 (st : state) (i : nat) (H : Z) : state :=
  if tl st <=? H + 1 then goto st i (F1 (H + 1)) else goto st i (D7 H).
(* if AddInt64(&q.threshold, -1)+1 <= 0 { return } *)
Definition do_D7 (st : state) (i : nat) (H : Z) : state :=
  if thr st <=? 0 then ret (set_thr st (thr st - 1)) i (EvDeq None)
  else goto (set_thr st (thr st - 1)) i D1.

(* ---- fixstate(oh) ---- *)
Definition do_F1 (st : state) (i : nat) (oh : Z) : state :=
  if oh <? hd st then goto st i F4 else goto st i (F2 oh (hd st)).
(* tailvalue >= head, the closed bit included *)
Definition do_F2 (st : state) (i : nat) (oh h : Z) : state :=
  if closed st || (h <=? tl st) then goto st i F4 else goto st i (F3 oh h (tl st)).
(* CompareAndSwapUint64(&q.tail, tailvalue, head): the word compared includes the closed bit (0 in tailvalue) *)
Definition do_F3 (st : state) (i : nat) (oh h tv : Z) : state :=
  if negb (closed st) && (tl st =? tv) then goto (set_tl st h) i F4 else goto st i (F1 oh).
Definition do_F4 (st : state) (i : nat) : state :=
  ret (set_thr st (thr st - 1)) i (EvDeq None).

Definition tstep (st : state) (i : nat) : state :=
  match th st i with
  | Idle => st
  | E1 d => do_E1 st i d
  | E2 d T => do_E2 st i d T
  | E3 d T e => do_E3 st i d T e
  | E4 d T e => do_E4 st i d T e
  | E5 d T => do_E5 st i d T
  | E6 d T => do_E6 st i d T
  | E7 d T => do_E7 st i d T
  | D0 => do_D0 st i
  | D1 => do_D1 st i
  | D2 H => do_D2 st i H
  | D3a H x => do_D3a st i H x
  | D3b H x => do_D3b st i H x
  | D4 H e => do_D4 st i H e
  | D5 H => do_D5 st i H
  | D7 H => do_D7 st i H
  | F1 oh => do_F1 st i oh
  | F2 oh h => do_F2 st i oh h
  | F3 oh h tv => do_F3 st i oh h tv
  | F4 => do_F4 st i
  end.

Definition step0 (st : state) (l : label) : state :=
  match l with
  | LEnq i v => match th st i with Idle => invoke st i (E1 v) | _ => st end
  | LDeq i => match th st i with Idle => invoke st i D0 | _ => st end
  | LStep i => tstep st i
  | LClose => set_closed st
  | LResetThr => set_thr st thr_full
  end.

Definition step (st : state) (l : label) : state := tick (step0 st l).

Definition run (st : state) (sched : list label) : state := fold_left step sched st.

End SCQ.
