(* C05: the executable history checkers decide exactly the Props of Aspects.v; the near-linear
   checks follow from the Aspects. *)
From VF Require Import Common.Base C05.Aspects.
From Coq Require Import FMapPositive.
Local Open Scope Z_scope.

Lemma kind_eqb_eq a b : kind_eqb a b = true <-> a = b.
Proof.
  destruct a, b; simpl; try (split; [discriminate|congruence]); try tauto;
    rewrite Z.eqb_eq; split; congruence.
Qed.
Lemma kind_eqb_refl a : kind_eqb a a = true.
Proof. now apply kind_eqb_eq. Qed.
Lemma beforeb_spec a b : beforeb a b = true <-> before a b.
Proof. unfold beforeb, before. apply Z.ltb_lt. Qed.
Lemma beforeb_false a b : beforeb a b = false <-> ~ before a b.
Proof. unfold beforeb, before. rewrite Z.ltb_ge. lia. Qed.

(* ---- 1 ---- *)
Theorem nofresh_ok h : nofresh_b h = true <-> NoFresh h.
Proof.
  unfold nofresh_b, NoFresh. rewrite forallb_forall. split.
  - intros H d v Hd Hv. specialize (H d Hd). unfold is_deq in Hv. rewrite Hv in H.
    apply existsb_exists in H. destruct H as (e & He & Hb). apply andb_true_iff in Hb. destruct Hb as [H1 H2].
    exists e. repeat split; auto.
    + apply kind_eqb_eq in H1. exact H1.
    + apply beforeb_false. now apply negb_true_iff.
  - intros H d Hd. destruct (what d) as [v|v|] eqn:E; auto.
    destruct (H d v Hd E) as (e & He & Hen & Hnb). apply existsb_exists. exists e. split; auto.
    apply andb_true_iff. split.
    + apply kind_eqb_eq. exact Hen.
    + apply negb_true_iff. now apply beforeb_false.
Qed.

(* ---- 2 ---- *)
Lemma nodup_b_ok l : nodup_b l = true <-> NoDup l.
Proof.
  induction l as [|x l IH]; simpl.
  - split; [constructor|reflexivity].
  - rewrite andb_true_iff, negb_true_iff, IH. split.
    + intros [H1 H2]. constructor; auto. intros Hin.
      assert (existsb (Z.eqb x) l = true) by (apply existsb_exists; exists x; split; auto; apply Z.eqb_refl).
      congruence.
    + intros H. inversion H as [|? ? Hn Hd]; subst. split; auto.
      destruct (existsb (Z.eqb x) l) eqn:E; auto. apply existsb_exists in E as (y & Hy & Ey).
      apply Z.eqb_eq in Ey. subst. contradiction.
Qed.
Theorem norepeat_ok h : norepeat_b h = true <-> NoRepeat h.
Proof. apply nodup_b_ok. Qed.
Theorem unique_ok h : unique_b h = true <-> UniqueValues h.
Proof. apply nodup_b_ok. Qed.

(* ---- 3 ---- *)
Theorem order_ok h : order_b h = true <-> OrderKept h.
Proof.
  unfold order_b, OrderKept. split.
  - intros H ea eb db a b Hea Heb Hdb Ea Eb Db Hbef.
    rewrite forallb_forall in H. specialize (H db Hdb). unfold is_enq, is_deq in *. rewrite Db in H.
    rewrite forallb_forall in H. specialize (H eb Heb). rewrite Eb, kind_eqb_refl in H.
    rewrite forallb_forall in H. specialize (H ea Hea). rewrite Ea in H.
    apply beforeb_spec in Hbef. rewrite Hbef in H. apply andb_true_iff in H as [H1 H2]. split.
    + apply existsb_exists in H1 as (da & Hda & Ek). apply kind_eqb_eq in Ek. eauto.
    + intros da Hda Da. rewrite forallb_forall in H2. specialize (H2 da Hda). rewrite Da, kind_eqb_refl in H2.
      simpl in H2. apply negb_true_iff in H2. now apply beforeb_false.
  - intros H. apply forallb_forall. intros db Hdb. destruct (what db) as [|b|] eqn:Db; auto.
    apply forallb_forall. intros eb Heb. destruct (kind_eqb (what eb) (HEnq b)) eqn:Eb; auto.
    apply kind_eqb_eq in Eb.
    apply forallb_forall. intros ea Hea. destruct (what ea) as [a| |] eqn:Ea; auto.
    destruct (beforeb ea eb) eqn:Ebef; auto. apply beforeb_spec in Ebef.
    destruct (H ea eb db a b Hea Heb Hdb Ea Eb Db Ebef) as [(da & Hda & Da) Hno].
    apply andb_true_iff. split.
    + apply existsb_exists. exists da. split; auto. apply kind_eqb_eq. exact Da.
    + apply forallb_forall. intros da' Hda'. apply negb_true_iff.
      destruct (kind_eqb (what da') (HDeq a)) eqn:Ek; auto. apply kind_eqb_eq in Ek. simpl.
      apply beforeb_false. now apply Hno.
Qed.

(* ---- 4 ---- *)
Lemma deq_min_spec v s h :
  (forall d, In d h -> is_deq v d -> s < inv d) <->
  match deq_min v h with None => True | Some b => s < b end.
Proof.
  induction h as [|d h IH]; simpl.
  - split; auto. intros _ d [].
  - destruct (kind_eqb (what d) (HDeq v)) eqn:E.
    + apply kind_eqb_eq in E. split.
      * intros H. assert (H1 : s < inv d) by (apply H; auto).
        assert (H2 : forall d0, In d0 h -> is_deq v d0 -> s < inv d0) by (intros; apply H; auto).
        apply (proj1 IH) in H2. destruct (deq_min v h); lia.
      * intros H d0 [<-|Hin] Hd0.
        -- destruct (deq_min v h); lia.
        -- assert (H2 : match deq_min v h with None => True | Some b => s < b end) by (destruct (deq_min v h); auto; lia).
           exact (proj2 IH H2 d0 Hin Hd0).
    + split.
      * intros H. apply (proj1 IH). intros; apply H; auto.
      * intros H d0 [<-|Hin] Hd0.
        -- unfold is_deq in Hd0. rewrite Hd0, kind_eqb_refl in E. discriminate.
        -- exact (proj2 IH H d0 Hin Hd0).
Qed.

Lemma in_intervals h a ob :
  In (a, ob) (intervals h) <-> exists e v, In e h /\ is_enq v e /\ a = resp e /\ ob = deq_min v h.
Proof.
  unfold intervals. rewrite in_flat_map. split.
  - intros (e & He & Hin). destruct (what e) as [v| |] eqn:E; simpl in Hin; try tauto.
    destruct Hin as [Hin|[]]. inversion Hin; subst. exists e, v. auto.
  - intros (e & v & He & Ev & -> & ->). exists e. split; auto. unfold is_enq in Ev. rewrite Ev. simpl. auto.
Qed.

Lemma present_b_ok h s : present_b (intervals h) s = true <-> present_at h s.
Proof.
  unfold present_b, present_at. rewrite existsb_exists. split.
  - intros ([a ob] & Hin & Hc). apply in_intervals in Hin as (e & v & He & Ev & -> & ->). simpl in Hc.
    apply andb_true_iff in Hc as [H1 H2]. apply Z.leb_le in H1.
    exists e, v. repeat split; auto. apply deq_min_spec.
    destruct (deq_min v h); auto. now apply Z.ltb_lt.
  - intros (e & v & He & Ev & Hr & Hd). exists (resp e, deq_min v h). split.
    + apply in_intervals. exists e, v. auto.
    + simpl. apply andb_true_iff. split; [now apply Z.leb_le|].
      apply deq_min_spec in Hd. destruct (deq_min v h); auto. now apply Z.ltb_lt.
Qed.

Lemma zrange_In a b s : In s (zrange a b) <-> a <= s < b.
Proof.
  unfold zrange. rewrite in_map_iff. split.
  - intros (i & <- & Hi). apply in_seq in Hi. lia.
  - intros H. exists (Z.to_nat (s - a)). split; [lia|]. apply in_seq. lia.
Qed.

Theorem empty_ok h : empty_b h = true <-> EmptyJustified h.
Proof.
  unfold empty_b, EmptyJustified. rewrite forallb_forall. split.
  - intros H o Ho Eo. specialize (H o Ho). rewrite Eo in H.
    apply existsb_exists in H as (s & Hs & Hn). apply zrange_In in Hs. exists s. split; auto.
    apply negb_true_iff in Hn. intros Hp. apply present_b_ok in Hp. congruence.
  - intros H o Ho. destruct (what o) eqn:Eo; auto.
    destruct (H o Ho Eo) as (s & Hs & Hn). apply existsb_exists. exists s. split; [now apply zrange_In|].
    apply negb_true_iff. destruct (present_b (intervals h) s) eqn:E; auto.
    apply present_b_ok in E. contradiction.
Qed.

Theorem aspects_b_ok_all h : aspects_b h = true <-> Aspects h.
Proof.
  unfold aspects_b, Aspects. rewrite !andb_true_iff, nofresh_ok, norepeat_ok, order_ok, empty_ok. tauto.
Qed.

(* ---- consequences used on long histories ---- *)

(* an empty answer invoked after an enqueue returned implies that the value was dequeued *)
Lemma empty_forces_dequeue h o e v :
  EmptyJustified h -> In o h -> what o = HEmpty -> In e h -> is_enq v e -> resp e <= inv o ->
  exists d, In d h /\ is_deq v d /\ inv d < resp o.
Proof.
  intros HE Ho Eo He Ev Hr. destruct (HE o Ho Eo) as (s & Hs & Hn).
  (* decide with the boolean twin whether some dequeue of v was invoked by s *)
  destruct (existsb (fun d => kind_eqb (what d) (HDeq v) && (inv d <=? s)) h) eqn:Ex.
  - apply existsb_exists in Ex as (d & Hd & Hc). apply andb_true_iff in Hc as [H1 H2].
    apply kind_eqb_eq in H1. apply Z.leb_le in H2. exists d. repeat split; auto. lia.
  - exfalso. apply Hn. exists e, v. repeat split; auto; [lia|].
    intros d Hd Dv. destruct (Z_lt_le_dec s (inv d)) as [|Hle]; auto.
    assert (existsb (fun d => kind_eqb (what d) (HDeq v) && (inv d <=? s)) h = true).
    { apply existsb_exists. exists d. split; auto. unfold is_deq in Dv. rewrite Dv, kind_eqb_refl. simpl. now apply Z.leb_le. }
    congruence.
Qed.

Theorem drained_noloss h : EmptyJustified h -> Drained h -> NoLoss h.
Proof.
  intros HE (o & Ho & Eo & Hall) e v He Ev.
  destruct (empty_forces_dequeue h o e v HE Ho Eo He Ev (Hall e v He Ev)) as (d & Hd & Dv & _). eauto.
Qed.

Theorem order_program h : OrderKept h -> ProgramOrderKept h.
Proof.
  intros H ea eb da db a b Hea Heb Hda Hdb Ea Eb Da Db _ _ Hbef.
  destruct (H ea eb db a b Hea Heb Hdb Ea Eb Db Hbef) as [_ Hno]. now apply Hno.
Qed.

(* maps keyed by value *)
Lemma zkey_inj a b : zkey a = zkey b -> a = b.
Proof. destruct a, b; simpl; intros H; try discriminate; try reflexivity; inversion H; reflexivity. Qed.

Lemma enq_map_sound h k e : PositiveMap.find k (enq_map h) = Some e -> In e h /\ exists v, what e = HEnq v /\ k = zkey v.
Proof.
  induction h as [|x h IH]; simpl.
  - rewrite PositiveMap.gempty. discriminate.
  - destruct (what x) as [v| |] eqn:Ex; try (intros H; destruct (IH H) as [H1 H2]; auto).
    rewrite PositiveMapAdditionalFacts.gsspec. destruct (PositiveMap.E.eq_dec k (zkey v)) as [->|Hne].
    + intros H. inversion H; subst. split; auto. eauto.
    + intros H. destruct (IH H) as [H1 H2]; auto.
Qed.

Lemma enq_map_complete h e v : In e h -> what e = HEnq v -> exists e', PositiveMap.find (zkey v) (enq_map h) = Some e'.
Proof.
  induction h as [|x h IH]; simpl; [tauto|]. intros [->|Hin] Ev.
  - rewrite Ev. rewrite PositiveMap.gss. eauto.
  - destruct (what x) as [w| |] eqn:Ex; auto.
    rewrite PositiveMapAdditionalFacts.gsspec. destruct (PositiveMap.E.eq_dec (zkey v) (zkey w)); eauto.
Qed.

Lemma unique_enq h e1 e2 v : UniqueValues h -> In e1 h -> In e2 h -> what e1 = HEnq v -> what e2 = HEnq v -> e1 = e2.
Proof.
  unfold UniqueValues. induction h as [|x h IH]; simpl; [tauto|].
  intros Hnd H1 H2 E1 E2.
  assert (Hin : forall e, In e h -> what e = HEnq v -> In v (enq_values h)).
  { intros e He Ee. unfold enq_values. apply in_flat_map. exists e. split; auto. rewrite Ee. simpl; auto. }
  destruct H1 as [->|H1], H2 as [->|H2]; auto.
  - rewrite E1 in Hnd. simpl in Hnd. inversion Hnd; subst. exfalso. eauto.
  - rewrite E2 in Hnd. simpl in Hnd. inversion Hnd; subst. exfalso. eauto.
  - apply IH; auto. destruct (what x); simpl in Hnd; auto. now inversion Hnd.
Qed.

Theorem lin_nofresh_follows h : UniqueValues h -> NoFresh h -> lin_nofresh_b h = true.
Proof.
  intros HU HN. unfold lin_nofresh_b. apply forallb_forall. intros d Hd.
  destruct (what d) as [|v|] eqn:Ed; auto.
  destruct (HN d v Hd Ed) as (e & He & Ev & Hnb).
  destruct (enq_map_complete h e v He Ev) as (e' & Ef). rewrite Ef.
  destruct (enq_map_sound h _ _ Ef) as (He' & w & Ew & Ek). apply zkey_inj in Ek. subst w.
  assert (e' = e) by (eapply unique_enq; eauto). subst e'.
  rewrite Ew, kind_eqb_refl. simpl. apply negb_true_iff. now apply beforeb_false.
Qed.

Lemma nodup_pm_ok l : forall seen,
  nodup_pm l seen = true <-> NoDup l /\ forall x, In x l -> PositiveMap.find (zkey x) seen = None.
Proof.
  induction l as [|x l IH]; intros seen; simpl.
  - split; [intros _; split; [constructor|tauto]|reflexivity].
  - destruct (PositiveMap.find (zkey x) seen) eqn:Ef.
    + split; [discriminate|]. intros [_ H]. rewrite H in Ef by auto. discriminate.
    + rewrite IH. split.
      * intros [Hnd Hs]. split.
        -- constructor; auto. intros Hin. specialize (Hs x Hin). rewrite PositiveMap.gss in Hs. discriminate.
        -- intros y [<-|Hy]; auto. specialize (Hs y Hy).
           rewrite PositiveMapAdditionalFacts.gsspec in Hs. destruct (PositiveMap.E.eq_dec (zkey y) (zkey x)); [discriminate|auto].
      * intros [Hnd Hs]. inversion Hnd; subst. split; auto.
        intros y Hy. rewrite PositiveMapAdditionalFacts.gsspec.
        destruct (PositiveMap.E.eq_dec (zkey y) (zkey x)) as [E|]; auto.
        apply zkey_inj in E. subst. contradiction.
Qed.

Theorem lin_norepeat_ok h : lin_norepeat_b h = true <-> NoRepeat h.
Proof.
  unfold lin_norepeat_b, NoRepeat. rewrite nodup_pm_ok. split; [tauto|].
  intros H. split; auto. intros. apply PositiveMap.gempty.
Qed.

Lemma deq_set_spec h v : PositiveMap.find (zkey v) (deq_set h) <> None <-> In v (deq_values h).
Proof.
  induction h as [|x h IH]; simpl.
  - rewrite PositiveMap.gempty. tauto.
  - destruct (what x) as [|w|] eqn:Ex; simpl; auto.
    rewrite PositiveMapAdditionalFacts.gsspec. destruct (PositiveMap.E.eq_dec (zkey v) (zkey w)) as [E|Hne].
    + apply zkey_inj in E. subst. split; [auto|discriminate].
    + rewrite IH. split; [auto|]. intros [->|]; [congruence|auto].
Qed.

Lemma in_deq_values h v : In v (deq_values h) <-> exists d, In d h /\ is_deq v d.
Proof.
  unfold deq_values. rewrite in_flat_map. split.
  - intros (d & Hd & Hin). destruct (what d) as [|w|] eqn:E; simpl in Hin; try tauto.
    destruct Hin as [->|[]]. eauto.
  - intros (d & Hd & Dv). exists d. split; auto. unfold is_deq in Dv. rewrite Dv. simpl; auto.
Qed.
Lemma in_enq_values h v : In v (enq_values h) <-> exists e, In e h /\ is_enq v e.
Proof.
  unfold enq_values. rewrite in_flat_map. split.
  - intros (d & Hd & Hin). destruct (what d) as [w| |] eqn:E; simpl in Hin; try tauto.
    destruct Hin as [->|[]]. eauto.
  - intros (d & Hd & Dv). exists d. split; auto. unfold is_enq in Dv. rewrite Dv. simpl; auto.
Qed.

Theorem lin_noloss_ok h : lin_noloss_b h = true <-> NoLoss h.
Proof.
  unfold lin_noloss_b, NoLoss. rewrite forallb_forall. split.
  - intros H e v He Ev. apply in_deq_values. apply deq_set_spec.
    assert (Hv : In v (enq_values h)) by (apply in_enq_values; eauto).
    specialize (H v Hv). destruct (PositiveMap.find (zkey v) (deq_set h)); congruence.
  - intros H v Hv. apply in_enq_values in Hv as (e & He & Ev).
    destruct (H e v He Ev) as (d & Hd & Dv).
    assert (Hn : PositiveMap.find (zkey v) (deq_set h) <> None) by (apply deq_set_spec, in_deq_values; eauto).
    destruct (PositiveMap.find (zkey v) (deq_set h)); congruence.
Qed.

(* L4 only ever tests instances of OrderKept *)
Definition pair_ok (h : history) (p : event * event) : Prop :=
  In (fst p) h /\ In (snd p) h /\ exists b, what (fst p) = HDeq b /\ what (snd p) = HEnq b.

Lemma lin_order_steps h : OrderKept h -> forall l st,
  incl l h -> (forall k p, PositiveMap.find k (fst st) = Some p -> pair_ok h p) -> snd st = true ->
  snd (fold_left (lin_order_step (enq_map h)) l st) = true.
Proof.
  intros HO. induction l as [|d l IH]; intros st Hincl Hst Hok; simpl; auto.
  assert (Hd : In d h) by (apply Hincl; simpl; auto).
  assert (Hl : incl l h) by (intros x Hx; apply Hincl; simpl; auto).
  unfold lin_order_step at 2.
  destruct (what d) as [|a|] eqn:Ed; try solve [apply IH; auto].
  destruct (PositiveMap.find (zkey a) (enq_map h)) as [ea|] eqn:Ef; try solve [apply IH; auto].
  destruct (kind_eqb (what ea) (HEnq a)) eqn:Ek; try solve [apply IH; auto].
  apply kind_eqb_eq in Ek. destruct (enq_map_sound h _ _ Ef) as (Hea & _).
  apply IH; auto; cbn [fst snd].
  - intros k p. rewrite PositiveMapAdditionalFacts.gsspec.
    destruct (PositiveMap.E.eq_dec k (pkey (who d) (who ea))).
    + intros H. inversion H; subst p. unfold pair_ok. simpl. repeat split; auto. eauto.
    + apply Hst.
  - rewrite Hok. simpl.
    destruct (PositiveMap.find (pkey (who d) (who ea)) (fst st)) as [[db eb]|] eqn:Ep; auto.
    destruct (Hst _ _ Ep) as (Hdb & Heb & b & Db & Eb). simpl in *.
    apply negb_true_iff. destruct (beforeb ea eb) eqn:E1; auto. simpl.
    apply beforeb_spec in E1. apply beforeb_false.
    destruct (HO ea eb db a b Hea Heb Hdb Ek Eb Db E1) as [_ Hno]. now apply Hno.
Qed.

Theorem lin_order_follows h : OrderKept h -> lin_order_b h = true.
Proof.
  intros HO. unfold lin_order_b. apply lin_order_steps; auto.
  - apply incl_refl.
  - intros k p. simpl. rewrite PositiveMap.gempty. discriminate.
Qed.

Theorem lin_follows h drained :
  UniqueValues h -> Aspects h -> (drained = true -> Drained h) -> lin_b drained h = true.
Proof.
  intros HU (H1 & H2 & H3 & H4) Hd. unfold lin_b.
  rewrite (lin_nofresh_follows h HU H1). rewrite (proj2 (lin_norepeat_ok h) H2).
  rewrite (lin_order_follows h H3). simpl.
  destruct drained; auto. apply lin_noloss_ok. apply drained_noloss; auto.
Qed.

(* what the near-linear checks guarantee on their own *)
Theorem lin_nofresh_sound h : lin_nofresh_b h = true -> NoFresh h.
Proof.
  unfold lin_nofresh_b. rewrite forallb_forall. intros H d v Hd Dv. specialize (H d Hd).
  unfold is_deq in Dv. rewrite Dv in H.
  destruct (PositiveMap.find (zkey v) (enq_map h)) as [e|] eqn:Ef; [|discriminate].
  apply andb_true_iff in H as [H1 H2]. apply kind_eqb_eq in H1. apply negb_true_iff in H2.
  destruct (enq_map_sound h _ _ Ef) as (He & _). exists e. repeat split; auto. now apply beforeb_false.
Qed.

Print Assumptions aspects_b_ok_all.
Print Assumptions lin_follows.
