(* C05 - tie between the two models of one SCQ ring: a call executed by ONE thread of the small-step machine
   (Scq.v) with nobody else moving computes exactly what the functional single-thread model (Model.v, the one
   C05_seq / C05_ring_* are about and the correspondence runs execute at the real ring size) computes. *)
From Coq Require Import ZArith List Bool Lia Arith.
Import ListNotations.
From VF Require C05.Model C05.Proofs_Remap C05.Proofs_Ring.
From VF Require Import C05.Scq C05.ProofsScqInv.
Open Scope Z_scope.

Section Tie.
Variable n cl : Z.
Hypothesis n_pos : 1 <= n.
Hypothesis cl_pos : 1 <= cl.
Hypothesis cl_div : (cl | n).

Notation rm := (Model.remap n cl).
Notation mget := (Model.rget Z 0).
Notation mset := (Model.rset Z).
Notation mscq := (Model.scq Z).

Definition cv (e : entry) : Model.entry Z :=
  {| Model.safe := safe e; Model.emp := emp e; Model.cyc := cyc e; Model.dat := dat e |}.

Record Sim (q : mscq) (st : state) : Prop := {
  sim_hd : Model.hd q = hd st;
  sim_tl : Model.tl q = tl st;
  sim_cl : Model.closed q = closed st;
  sim_thr : Model.thr q = thr st;
  sim_ring : forall r, 0 <= r < n -> mget (Model.ring q) (rm r) = cv (ring st r);
  sim_zero : forall r, 0 <= r < n -> emp (ring st r) = true -> dat (ring st r) = 0
}.

Lemma sim_init : Sim (Model.scq_init Z n) (init n).
Proof.
  constructor; cbn; try reflexivity.
  intros r _. unfold Model.rget. rewrite FMapPositive.PositiveMap.gempty. reflexivity.
Qed.

Lemma sim_slot q st T : Sim q st -> mget (Model.ring q) (rm T) = cv (ring st (T mod n)).
Proof.
  intros HS. rewrite <- (Proofs_Remap.remap_mod n cl n_pos T). apply (sim_ring _ _ HS). apply Z.mod_pos_bound. lia.
Qed.

(* updating the slot of ticket T on both sides *)
Lemma sim_upd q st T e hd' tl' cl' thr' h t c tr f w cg p k s tc :
  Sim q st -> (emp e = true -> dat e = 0) ->
  hd' = h -> tl' = t -> cl' = c -> thr' = tr ->
  Sim {| Model.ring := mset (Model.ring q) (rm T) (cv e); Model.hd := hd'; Model.tl := tl'; Model.closed := cl'; Model.thr := thr' |}
      (mkS (updr (ring st) (T mod n) e) h t c tr f w cg p k s tc).
Proof.
  intros HS Hz -> -> -> ->. constructor; cbn; try reflexivity.
  - intros r Hr. unfold updr. destruct (Z.eqb_spec r (T mod n)) as [->|Hne].
    + rewrite (Proofs_Remap.remap_mod n cl n_pos T). apply Proofs_Ring.rget_rset_same.
    + rewrite Proofs_Ring.rget_rset_other.
      * apply (sim_ring _ _ HS r Hr).
      * apply (Proofs_Remap.remap_range n cl n_pos cl_pos cl_div).
      * apply (Proofs_Remap.remap_range n cl n_pos cl_pos cl_div).
      * intros E. apply (Proofs_Remap.remap_inj_mod n cl n_pos cl_pos cl_div) in E.
        rewrite (Z.mod_small r) in E by lia. congruence.
  - intros r Hr. unfold updr. destruct (Z.eqb_spec r (T mod n)); [exact Hz|apply (sim_zero _ _ HS r Hr)].
Qed.

(* only counters / threshold change *)
Lemma sim_same q st hd' tl' cl' thr' h t c tr f w cg p k s tc :
  Sim q st -> hd' = h -> tl' = t -> cl' = c -> thr' = tr ->
  Sim {| Model.ring := Model.ring q; Model.hd := hd'; Model.tl := tl'; Model.closed := cl'; Model.thr := thr' |}
      (mkS (ring st) h t c tr f w cg p k s tc).
Proof.
  intros HS -> -> -> ->. constructor; cbn; try reflexivity; [apply (sim_ring _ _ HS)|apply (sim_zero _ _ HS)].
Qed.

Definition evs (st : state) : list (nat * event) := map (fun x => (fst (fst (fst x)), snd x)) (trace st).
Definition others (st st' : state) (i : nat) : Prop := forall k, k <> i -> th st' k = th st k.

Lemma run_cons st l ls : run n st (l :: ls) = run n (step n st l) ls.
Proof. reflexivity. Qed.
Lemma updf_others {A} (f : nat -> A) i x k : k <> i -> updf f i x k = f k.
Proof. apply updf_other. Qed.

Ltac flat := cbn [ring hd tl closed thr th wlog clog plog clk since trace].
(* one LStep of thread i from a state whose thread i is known *)
Ltac onestep :=
  cbv zeta; rewrite run_cons; unfold step, step0, tstep, tick; flat; rewrite ?updf_same; cbv iota; flat.

Lemma evs_app st x tr : trace st = tr ++ [x] -> evs st = map (fun x => (fst (fst (fst x)), snd x)) tr ++ [(fst (fst (fst x)), snd x)].
Proof. intros E. unfold evs. rewrite E, map_app. reflexivity. Qed.

Lemma cas_ok r sf : safe r = sf -> emp r = true -> dat r = 0 -> entry_eqb r (mkE sf true (cyc r) 0) = true.
Proof. intros E1 E2 E3. apply entry_eqb_eq. destruct r; cbn in *; subst; reflexivity. Qed.

Lemma enq_iter q st i d q' res :
  Sim q st -> th st i = E1 d -> Model.enq_body Z 0 n cl q d = (q', res) ->
  exists k st', run n st (repeat (LStep i) k) = st' /\
    Sim q' st' /\ others st st' i /\
    match res with
    | None => th st' i = E1 d /\ evs st' = evs st
    | Some b => th st' i = Idle /\ exists r, evs st' = evs st ++ [(i, EvEnq d r)] /\ (b = true <-> r <> None)
    end.
Proof.
  intros HS Ht Hb. unfold Model.enq_body in Hb.
  pose proof (sim_hd _ _ HS) as Ehd. pose proof (sim_tl _ _ HS) as Etl.
  pose proof (sim_cl _ _ HS) as Ecl. pose proof (sim_thr _ _ HS) as Ethr.
  pose proof (sim_slot _ _ (Model.tl q) HS) as Eslot.
  destruct (Model.closed q) eqn:Eclosed.
  - (* closed *)
    inversion Hb; subst q' res. exists 1%nat. eexists. split. { cbn [repeat]. onestep.
    rewrite Ht. unfold do_E1. rewrite <- Ecl. unfold ret, set_tl. flat. cbn [run fold_left]. reflexivity. }
    split; [apply (sim_same q st); auto; flat; lia|]. split; [intros k Hk; now apply updf_other|].
    split; [apply updf_same|]. exists None. split; [|split; [discriminate|congruence]].
    unfold evs. cbn [trace]. rewrite map_app. reflexivity.
  - (* open *)
    rewrite Eslot in Hb. cbn [cv Model.safe Model.emp Model.cyc Model.dat] in Hb. rewrite Etl, Ehd, Ethr in Hb.
    set (T := tl st) in *. set (r := ring st (T mod n)) in *.
    assert (HTn : 0 <= T mod n < n) by (apply Z.mod_pos_bound; lia).
    pose proof (sim_zero _ _ HS (T mod n) HTn) as Hz. fold r in Hz.
    destruct ((cyc r <? T / n) && emp r) eqn:EA.
    + apply andb_true_iff in EA as [EA1 EA2].
      cbn [andb] in Hb.
      destruct (safe r) eqn:Es.
      * (* safe: E1 E2 E4 E6 [E7] *)
        cbn [orb] in Hb. inversion Hb; subst q' res. clear Hb.
        destruct (thr st =? Model.thr_full n) eqn:Eth.
        -- exists 4%nat. eexists. split. { cbn [repeat].
           onestep. rewrite Ht. unfold do_E1. rewrite <- Ecl. unfold goto, set_tl. flat.
           onestep. unfold do_E2, slot, cyc_of. flat. fold T. fold r. rewrite EA1, EA2, Es. cbn [andb]. unfold goto. flat.
           onestep. unfold do_E4, slot, cyc_of. flat. fold r. rewrite (cas_ok r _ Es EA2 (Hz EA2)). unfold goto, add_w, set_ring. flat.
           onestep. unfold do_E6. flat. unfold thr_full. unfold Model.thr_full in Eth. rewrite Eth. unfold ret. flat.
           cbn [run fold_left]. reflexivity. }
           split; [apply (sim_upd q st T (mkE true false (T / n) d)); auto; try discriminate; flat; lia|].
           split; [intros k Hk; flat; now rewrite !updf_other by auto|].
           flat. split; [apply updf_same|]. exists (Some T). split; [|split; [discriminate|reflexivity]].
           unfold evs. flat. rewrite map_app. reflexivity.
        -- exists 5%nat. eexists. split. { cbn [repeat].
           onestep. rewrite Ht. unfold do_E1. rewrite <- Ecl. unfold goto, set_tl. flat.
           onestep. unfold do_E2, slot, cyc_of. flat. fold T. fold r. rewrite EA1, EA2, Es. cbn [andb]. unfold goto. flat.
           onestep. unfold do_E4, slot, cyc_of. flat. fold r. rewrite (cas_ok r _ Es EA2 (Hz EA2)). unfold goto, add_w, set_ring. flat.
           onestep. unfold do_E6. flat. unfold thr_full. unfold Model.thr_full in Eth. rewrite Eth. unfold goto. flat.
           onestep. unfold do_E7, ret, set_thr. flat.
           cbn [run fold_left]. reflexivity. }
           split; [apply (sim_upd q st T (mkE true false (T / n) d)); auto; try discriminate; flat; unfold thr_full, Model.thr_full; lia|].
           split; [intros k Hk; flat; now rewrite !updf_other by auto|].
           flat. split; [apply updf_same|]. exists (Some T). split; [|split; [discriminate|reflexivity]].
           unfold evs. flat. rewrite map_app. reflexivity.
      * (* unsafe *)
        cbn [orb] in Hb. destruct (hd st <=? T) eqn:Eh.
        -- (* head <= T: E1 E2 E3 E4 E6 [E7] *)
           inversion Hb; subst q' res. clear Hb.
           destruct (thr st =? Model.thr_full n) eqn:Eth.
           ++ exists 5%nat. eexists. split. { cbn [repeat].
              onestep. rewrite Ht. unfold do_E1. rewrite <- Ecl. unfold goto, set_tl. flat.
              onestep. unfold do_E2, slot, cyc_of. flat. fold T. fold r. rewrite EA1, EA2, Es. cbn [andb]. unfold goto. flat.
              onestep. unfold do_E3. flat. rewrite Eh. unfold goto. flat.
              onestep. unfold do_E4, slot, cyc_of. flat. fold r. rewrite (cas_ok r _ Es EA2 (Hz EA2)). unfold goto, add_w, set_ring. flat.
              onestep. unfold do_E6. flat. unfold thr_full. unfold Model.thr_full in Eth. rewrite Eth. unfold ret. flat.
              cbn [run fold_left]. reflexivity. }
              split; [apply (sim_upd q st T (mkE true false (T / n) d)); auto; try discriminate; flat; lia|].
              split; [intros k Hk; flat; now rewrite !updf_other by auto|].
              flat. split; [apply updf_same|]. exists (Some T). split; [|split; [discriminate|reflexivity]].
              unfold evs. flat. rewrite map_app. reflexivity.
           ++ exists 6%nat. eexists. split. { cbn [repeat].
              onestep. rewrite Ht. unfold do_E1. rewrite <- Ecl. unfold goto, set_tl. flat.
              onestep. unfold do_E2, slot, cyc_of. flat. fold T. fold r. rewrite EA1, EA2, Es. cbn [andb]. unfold goto. flat.
              onestep. unfold do_E3. flat. rewrite Eh. unfold goto. flat.
              onestep. unfold do_E4, slot, cyc_of. flat. fold r. rewrite (cas_ok r _ Es EA2 (Hz EA2)). unfold goto, add_w, set_ring. flat.
              onestep. unfold do_E6. flat. unfold thr_full. unfold Model.thr_full in Eth. rewrite Eth. unfold goto. flat.
              onestep. unfold do_E7, ret, set_thr. flat.
              cbn [run fold_left]. reflexivity. }
              split; [apply (sim_upd q st T (mkE true false (T / n) d)); auto; try discriminate; flat; unfold thr_full, Model.thr_full; lia|].
              split; [intros k Hk; flat; now rewrite !updf_other by auto|].
              flat. split; [apply updf_same|]. exists (Some T). split; [|split; [discriminate|reflexivity]].
              unfold evs. flat. rewrite map_app. reflexivity.
        -- (* head > T: E1 E2 E3 E5 *)
           destruct (hd st + n <=? T + 1) eqn:Ef; inversion Hb; subst q' res; clear Hb.
           ++ exists 4%nat. eexists. split. { cbn [repeat].
              onestep. rewrite Ht. unfold do_E1. rewrite <- Ecl. unfold goto, set_tl. flat.
              onestep. unfold do_E2, slot, cyc_of. flat. fold T. fold r. rewrite EA1, EA2, Es. cbn [andb]. unfold goto. flat.
              onestep. unfold do_E3. flat. rewrite Eh. unfold goto. flat.
              onestep. unfold do_E5. flat. rewrite Ef. unfold ret. flat.
              cbn [run fold_left]. reflexivity. }
              split; [apply (sim_same q st); auto; flat; lia|].
              split; [intros k Hk; flat; now rewrite !updf_other by auto|].
              flat. split; [apply updf_same|]. exists None. split; [|split; [discriminate|congruence]].
              unfold evs. flat. rewrite map_app. reflexivity.
           ++ exists 4%nat. eexists. split. { cbn [repeat].
              onestep. rewrite Ht. unfold do_E1. rewrite <- Ecl. unfold goto, set_tl. flat.
              onestep. unfold do_E2, slot, cyc_of. flat. fold T. fold r. rewrite EA1, EA2, Es. cbn [andb]. unfold goto. flat.
              onestep. unfold do_E3. flat. rewrite Eh. unfold goto. flat.
              onestep. unfold do_E5. flat. rewrite Ef. unfold goto. flat.
              cbn [run fold_left]. reflexivity. }
              split; [apply (sim_same q st); auto; flat; lia|].
              split; [intros k Hk; flat; now rewrite !updf_other by auto|].
              flat. split; [apply updf_same|]. reflexivity.
    + (* the slot cannot be used: E1 E2 E5 *)
      cbn [andb] in Hb.
      destruct (hd st + n <=? T + 1) eqn:Ef; inversion Hb; subst q' res; clear Hb.
      * exists 3%nat. eexists. split. { cbn [repeat].
        onestep. rewrite Ht. unfold do_E1. rewrite <- Ecl. unfold goto, set_tl. flat.
        onestep. unfold do_E2, slot, cyc_of. flat. fold T. fold r. rewrite EA. unfold goto. flat.
        onestep. unfold do_E5. flat. rewrite Ef. unfold ret. flat.
        cbn [run fold_left]. reflexivity. }
        split; [apply (sim_same q st); auto; flat; lia|].
        split; [intros k Hk; flat; now rewrite !updf_other by auto|].
        flat. split; [apply updf_same|]. exists None. split; [|split; [discriminate|congruence]].
        unfold evs. flat. rewrite map_app. reflexivity.
      * exists 3%nat. eexists. split. { cbn [repeat].
        onestep. rewrite Ht. unfold do_E1. rewrite <- Ecl. unfold goto, set_tl. flat.
        onestep. unfold do_E2, slot, cyc_of. flat. fold T. fold r. rewrite EA. unfold goto. flat.
        onestep. unfold do_E5. flat. rewrite Ef. unfold goto. flat.
        cbn [run fold_left]. reflexivity. }
        split; [apply (sim_same q st); auto; flat; lia|].
        split; [intros k Hk; flat; now rewrite !updf_other by auto|].
        flat. split; [apply updf_same|]. reflexivity.
Qed.

(* ------------------------------------------------------------------ Dequeue *)
Lemma run_app st l1 l2 : run n st (l1 ++ l2) = run n (run n st l1) l2.
Proof. unfold run. apply fold_left_app. Qed.
Lemma repeat_add {A} (x : A) a b : repeat x (a + b) = repeat x a ++ repeat x b.
Proof. induction a; cbn; [reflexivity|now rewrite IHa]. Qed.

Lemma eqb_refl_entry r : entry_eqb r r = true.
Proof. now apply entry_eqb_eq. Qed.

(* the slot handling of an iteration that does not find its own cycle: D1 D2 [D4] *)
Definition slot_pass (q : mscq) : mscq :=
  let H := Model.hd q in
  let j := rm H in
  let e := mget (Model.ring q) j in
  let cH := H / n in
  let r2 := if Model.cyc e <? cH then
              mset (Model.ring q) j
                   (if Model.emp e then {| Model.safe := Model.safe e; Model.emp := true; Model.cyc := cH; Model.dat := 0 |}
                    else {| Model.safe := false; Model.emp := false; Model.cyc := Model.cyc e; Model.dat := Model.dat e |})
            else Model.ring q in
  {| Model.ring := r2; Model.hd := H + 1; Model.tl := Model.tl q; Model.closed := Model.closed q; Model.thr := Model.thr q |}.

Lemma deq_phase1 q st i :
  Sim q st -> th st i = D1 ->
  Model.cyc (mget (Model.ring q) (rm (Model.hd q))) <> Model.hd q / n ->
  exists k st', run n st (repeat (LStep i) k) = st' /\
    Sim (slot_pass q) st' /\ others st st' i /\ th st' i = D5 (Model.hd q) /\ evs st' = evs st.
Proof.
  intros HS Ht Hne. unfold slot_pass.
  pose proof (sim_hd _ _ HS) as Ehd. pose proof (sim_tl _ _ HS) as Etl.
  pose proof (sim_cl _ _ HS) as Ecl. pose proof (sim_thr _ _ HS) as Ethr.
  pose proof (sim_slot _ _ (Model.hd q) HS) as Eslot.
  rewrite Eslot in *. cbn [cv Model.safe Model.emp Model.cyc Model.dat] in *. rewrite Ehd in *.
  set (H := hd st) in *. set (r := ring st (H mod n)) in *.
  assert (HHn : 0 <= H mod n < n) by (apply Z.mod_pos_bound; lia).
  pose proof (sim_zero _ _ HS (H mod n) HHn) as Hz. fold r in Hz.
  assert (Ene : (cyc r =? H / n) = false) by (now apply Z.eqb_neq).
  destruct (cyc r <? H / n) eqn:Elt.
  - (* older cycle: D1 D2 D4 *)
    exists 3%nat. eexists. split.
    { cbn [repeat].
      onestep. rewrite Ht. unfold do_D1, goto, set_hd. flat.
      onestep. unfold do_D2, slot, cyc_of. flat. fold H. fold r. rewrite Ene, Elt. unfold goto. flat.
      onestep. unfold do_D4, slot, cyc_of. flat. fold H. fold r. rewrite eqb_refl_entry. unfold goto, add_p, set_ring. flat.
      cbn [run fold_left]. reflexivity. }
    split.
    { destruct (emp r) eqn:Ee.
      - apply (sim_upd q st H (mkE (safe r) true (H / n) 0)); auto; flat; lia.
      - apply (sim_upd q st H (mkE false false (cyc r) (dat r))); auto; try discriminate; flat; lia. }
    split; [intros k Hk; flat; now rewrite !updf_other by auto|].
    flat. split; [apply updf_same|reflexivity].
  - (* newer cycle: D1 D2 *)
    exists 2%nat. eexists. split.
    { cbn [repeat].
      onestep. rewrite Ht. unfold do_D1, goto, set_hd. flat.
      onestep. unfold do_D2, slot, cyc_of. flat. fold H. fold r. rewrite Ene, Elt. unfold goto, add_p. flat.
      cbn [run fold_left]. reflexivity. }
    split; [apply (sim_same q st); auto; flat; lia|].
    split; [intros k Hk; flat; now rewrite !updf_other by auto|].
    flat. split; [apply updf_same|reflexivity].
Qed.

(* what follows the slot handling: D5, then fixstate (F1 F2 [F3] F4) or D7 *)
Definition tailpart (q2 : mscq) (H : Z) : mscq * Model.dres Z :=
  if Model.tl q2 <=? H + 1 then
    let q3 := Model.fixstate Z q2 (H + 1) in
    ({| Model.ring := Model.ring q3; Model.hd := Model.hd q3; Model.tl := Model.tl q3; Model.closed := Model.closed q3;
        Model.thr := Model.thr q3 - 1 |}, Model.Empty)
  else
    let q3 := {| Model.ring := Model.ring q2; Model.hd := Model.hd q2; Model.tl := Model.tl q2; Model.closed := Model.closed q2;
                 Model.thr := Model.thr q2 - 1 |} in
    if Model.thr q2 <=? 0 then (q3, Model.Empty) else (q3, Model.Again).

Lemma deq_phase2 q2 st i H q' res :
  Sim q2 st -> th st i = D5 H -> Model.hd q2 = H + 1 -> tailpart q2 H = (q', res) ->
  exists k st', run n st (repeat (LStep i) k) = st' /\
    Sim q' st' /\ others st st' i /\
    match res with
    | Model.Again => th st' i = D1 /\ evs st' = evs st
    | Model.Empty => th st' i = Idle /\ evs st' = evs st ++ [(i, EvDeq None)]
    | Model.Got _ => False
    end.
Proof.
  intros HS Ht Hh Hb. unfold tailpart, Model.fixstate in Hb.
  pose proof (sim_hd _ _ HS) as Ehd. pose proof (sim_tl _ _ HS) as Etl.
  pose proof (sim_cl _ _ HS) as Ecl. pose proof (sim_thr _ _ HS) as Ethr.
  rewrite Etl, Ecl, Ethr in Hb. rewrite Ehd in Hb, Hh.
  destruct (tl st <=? H + 1) eqn:Et.
  - (* fixstate *)
    assert (E1 : (H + 1 <? hd st) = false) by (apply Z.ltb_ge; lia).
    rewrite E1 in Hb.
    destruct (closed st || (hd st <=? tl st)) eqn:E2.
    + cbn [Model.ring Model.hd Model.tl Model.closed Model.thr] in Hb. inversion Hb; subst q' res. clear Hb.
      exists 4%nat. eexists. split.
      { cbn [repeat].
        onestep. rewrite Ht. unfold do_D5. rewrite Et. unfold goto. flat.
        onestep. unfold do_F1. flat. rewrite E1. unfold goto. flat.
        onestep. unfold do_F2. flat. rewrite E2. unfold goto. flat.
        onestep. unfold do_F4, ret, set_thr. flat.
        cbn [run fold_left]. reflexivity. }
      split; [apply (sim_same q2 st); auto; flat; lia|].
      split; [intros k Hk; flat; now rewrite !updf_other by auto|].
      flat. split; [apply updf_same|]. unfold evs. flat. rewrite map_app. reflexivity.
    + cbn [Model.ring Model.hd Model.tl Model.closed Model.thr] in Hb. inversion Hb; subst q' res. clear Hb.
      apply orb_false_iff in E2 as [E2a E2b].
      exists 5%nat. eexists. split.
      { cbn [repeat].
        onestep. rewrite Ht. unfold do_D5. rewrite Et. unfold goto. flat.
        onestep. unfold do_F1. flat. rewrite E1. unfold goto. flat.
        onestep. unfold do_F2. flat. rewrite E2a, E2b. cbn [orb]. unfold goto. flat.
        onestep. unfold do_F3. flat. rewrite ?E2a, Z.eqb_refl. cbn [negb andb]. unfold goto, set_tl. flat.
        onestep. unfold do_F4, ret, set_thr. flat.
        cbn [run fold_left]. reflexivity. }
      split; [apply (sim_same q2 st); auto; flat; lia|].
      split; [intros k Hk; flat; now rewrite !updf_other by auto|].
      flat. split; [apply updf_same|]. unfold evs. flat. rewrite map_app. reflexivity.
  - destruct (thr st <=? 0) eqn:E3; inversion Hb; subst q' res; clear Hb.
    + exists 2%nat. eexists. split.
      { cbn [repeat].
        onestep. rewrite Ht. unfold do_D5. rewrite Et. unfold goto. flat.
        onestep. unfold do_D7. flat. rewrite E3. unfold ret, set_thr. flat.
        cbn [run fold_left]. reflexivity. }
      split; [apply (sim_same q2 st); auto; flat; lia|].
      split; [intros k Hk; flat; now rewrite !updf_other by auto|].
      flat. split; [apply updf_same|]. unfold evs. flat. rewrite map_app. reflexivity.
    + exists 2%nat. eexists. split.
      { cbn [repeat].
        onestep. rewrite Ht. unfold do_D5. rewrite Et. unfold goto. flat.
        onestep. unfold do_D7. flat. rewrite E3. unfold goto, set_thr. flat.
        cbn [run fold_left]. reflexivity. }
      split; [apply (sim_same q2 st); auto; flat; lia|].
      split; [intros k Hk; flat; now rewrite !updf_other by auto|].
      flat. split; [apply updf_same|reflexivity].
Qed.

Lemma sim_ext q st st' :
  Sim q st -> (forall r, ring st' r = ring st r) -> hd st' = hd st -> tl st' = tl st -> closed st' = closed st ->
  thr st' = thr st -> Sim q st'.
Proof.
  intros [S1 S2 S3 S4 S5 S6] Er E1 E2 E3 E4. constructor; try congruence.
  - intros r Hr. rewrite Er. auto.
  - intros r Hr. rewrite Er. auto.
Qed.

Lemma deq_body_tail q :
  Model.cyc (mget (Model.ring q) (rm (Model.hd q))) <> Model.hd q / n ->
  Model.deq_body Z 0 n cl q = tailpart (slot_pass q) (Model.hd q).
Proof.
  intros Hne. unfold Model.deq_body. apply Z.eqb_neq in Hne. rewrite Hne. reflexivity.
Qed.

Lemma deq_iter q st i q' res :
  Sim q st -> th st i = D1 -> Model.deq_body Z 0 n cl q = (q', res) ->
  exists k st', run n st (repeat (LStep i) k) = st' /\
    Sim q' st' /\ others st st' i /\
    match res with
    | Model.Again => th st' i = D1 /\ evs st' = evs st
    | Model.Empty => th st' i = Idle /\ evs st' = evs st ++ [(i, EvDeq None)]
    | Model.Got x => th st' i = Idle /\ exists H, evs st' = evs st ++ [(i, EvDeq (Some (H, x)))]
    end.
Proof.
  intros HS Ht Hb.
  destruct (Z.eq_dec (Model.cyc (mget (Model.ring q) (rm (Model.hd q)))) (Model.hd q / n)) as [Heq|Hne].
  - (* own cycle: D1 D2 D3a D3b *)
    unfold Model.deq_body in Hb. apply Z.eqb_eq in Heq. rewrite Heq in Hb. inversion Hb; subst q' res. clear Hb.
    apply Z.eqb_eq in Heq.
    pose proof (sim_hd _ _ HS) as Ehd. pose proof (sim_tl _ _ HS) as Etl.
    pose proof (sim_cl _ _ HS) as Ecl. pose proof (sim_thr _ _ HS) as Ethr.
    pose proof (sim_slot _ _ (Model.hd q) HS) as Eslot.
    rewrite Eslot in *. cbn [cv Model.safe Model.emp Model.cyc Model.dat] in *. rewrite Ehd in *.
    set (H := hd st) in *. set (r := ring st (H mod n)) in *.
    assert (Ee : (cyc r =? H / n) = true) by (now apply Z.eqb_eq).
    exists 4%nat. eexists. split.
    { cbn [repeat].
      onestep. rewrite Ht. unfold do_D1, goto, set_hd. flat.
      onestep. unfold do_D2, slot, cyc_of. flat. fold H. fold r. rewrite Ee. unfold goto, add_c. flat.
      onestep. unfold do_D3a, slot. flat. fold H. fold r. unfold goto, set_ring. flat.
      onestep. unfold do_D3b, slot. flat. fold H. rewrite updr_same. cbn [safe emp cyc dat]. unfold ret, set_ring. flat.
      cbn [run fold_left]. reflexivity. }
    split.
    { assert (Hsim : Sim {| Model.ring := mset (Model.ring q) (rm H) (cv (mkE (safe r) true (cyc r) 0));
                            Model.hd := H + 1; Model.tl := Model.tl q; Model.closed := Model.closed q; Model.thr := Model.thr q |}
                         (mkS (updr (ring st) (H mod n) (mkE (safe r) true (cyc r) 0)) (H + 1) (tl st) (closed st) (thr st)
                              (th st) (wlog st) (clog st) (plog st) (clk st) (since st) (trace st)))
        by (apply (sim_upd q st H (mkE (safe r) true (cyc r) 0)); auto).
      apply (sim_ext _ _ _ Hsim); try reflexivity.
      intros r0. flat. unfold updr. destruct (Z.eqb_spec r0 (H mod n)); reflexivity. }
    split; [intros k Hk; flat; now rewrite !updf_other by auto|].
    flat. split; [apply updf_same|]. exists H. unfold evs. flat. rewrite map_app. reflexivity.
  - rewrite (deq_body_tail q Hne) in Hb.
    destruct (deq_phase1 q st i HS Ht Hne) as (k1 & st1 & R1 & S1 & O1 & T1 & V1).
    assert (Hh : Model.hd (slot_pass q) = Model.hd q + 1) by reflexivity.
    destruct (deq_phase2 (slot_pass q) st1 i (Model.hd q) q' res S1 T1 Hh Hb) as (k2 & st2 & R2 & S2 & O2 & M2).
    exists (k1 + k2)%nat, st2. split; [rewrite repeat_add, run_app, R1; exact R2|].
    split; [exact S2|]. split; [intros k Hk; rewrite (O2 k Hk); apply (O1 k Hk)|].
    destruct res as [x| |]; [contradiction|rewrite <- V1; exact M2|rewrite <- V1; exact M2].
Qed.

(* ------------------------------------------------------------------ whole calls *)
Lemma enq_call fuel : forall q st i d q' b,
  Sim q st -> th st i = E1 d -> Model.enq_loop Z 0 n cl fuel q d = (q', Some b) ->
  exists k st', run n st (repeat (LStep i) k) = st' /\
    Sim q' st' /\ others st st' i /\ th st' i = Idle /\
    exists r, evs st' = evs st ++ [(i, EvEnq d r)] /\ (b = true <-> r <> None).
Proof.
  induction fuel as [|fuel IH]; intros q st i d q' b HS Ht Hl; [discriminate Hl|].
  cbn [Model.enq_loop] in Hl. destruct (Model.enq_body Z 0 n cl q d) as [q1 [b1|]] eqn:Eb.
  - inversion Hl; subst q1 b1.
    destruct (enq_iter q st i d q' (Some b) HS Ht Eb) as (k & st' & R & S1 & O1 & T1 & M1).
    exists k, st'. auto.
  - destruct (enq_iter q st i d q1 None HS Ht Eb) as (k1 & st1 & R1 & S1 & O1 & T1 & V1).
    destruct (IH q1 st1 i d q' b S1 T1 Hl) as (k2 & st2 & R2 & S2 & O2 & T2 & r & V2 & B2).
    exists (k1 + k2)%nat, st2. split; [rewrite repeat_add, run_app, R1; exact R2|].
    split; [exact S2|]. split; [intros k Hk; rewrite (O2 k Hk); apply (O1 k Hk)|]. split; [exact T2|].
    exists r. rewrite <- V1. auto.
Qed.

Lemma deq_call fuel : forall q st i q' res,
  Sim q st -> th st i = D1 -> Model.deq_loop Z 0 n cl fuel q = (q', res) -> res <> Model.Again ->
  exists k st', run n st (repeat (LStep i) k) = st' /\
    Sim q' st' /\ others st st' i /\ th st' i = Idle /\
    match res with
    | Model.Got x => exists H, evs st' = evs st ++ [(i, EvDeq (Some (H, x)))]
    | _ => evs st' = evs st ++ [(i, EvDeq None)]
    end.
Proof.
  induction fuel as [|fuel IH]; intros q st i q' res HS Ht Hl Hna; [cbn in Hl; inversion Hl; subst; contradiction|].
  cbn [Model.deq_loop] in Hl. destruct (Model.deq_body Z 0 n cl q) as [q1 r1] eqn:Eb.
  destruct (deq_iter q st i q1 r1 HS Ht Eb) as (k1 & st1 & R1 & S1 & O1 & M1).
  destruct r1 as [x| |].
  - inversion Hl; subst q1 res. destruct M1 as [T1 V1]. exists k1, st1. auto.
  - inversion Hl; subst q1 res. destruct M1 as [T1 V1]. exists k1, st1. auto.
  - destruct M1 as [T1 V1].
    destruct (IH q1 st1 i q' res S1 T1 Hl Hna) as (k2 & st2 & R2 & S2 & O2 & T2 & M2).
    exists (k1 + k2)%nat, st2. split; [rewrite repeat_add, run_app, R1; exact R2|].
    split; [exact S2|]. split; [intros k Hk; rewrite (O2 k Hk); apply (O1 k Hk)|]. split; [exact T2|].
    rewrite <- V1. exact M2.
Qed.

(* results of the two models *)
Inductive cmd := CEnq (d : Z) | CDeq.
Inductive mout := MEnq (b : bool) | MDeq (r : option Z).

(* one call of the functional ring model; None = fuel exhausted *)
Definition mcall (fuel : nat) (q : mscq) (c : cmd) : mscq * option mout :=
  match c with
  | CEnq d => match Model.enq_loop Z 0 n cl fuel q d with
              | (q', Some b) => (q', Some (MEnq b))
              | (q', None) => (q', None)
              end
  | CDeq => match Model.scq_dequeue Z 0 n cl fuel q with
            | (q', Model.Got x) => (q', Some (MDeq (Some x)))
            | (q', Model.Empty) => (q', Some (MDeq None))
            | (q', Model.Again) => (q', None)
            end
  end.

Definition ev_ok (e : event) (o : mout) : Prop :=
  match e, o with
  | EvEnq _ r, MEnq b => b = true <-> r <> None
  | EvDeq None, MDeq None => True
  | EvDeq (Some (_, x)), MDeq (Some y) => x = y
  | _, _ => False
  end.

Definition label_of (i : nat) (c : cmd) : label := match c with CEnq d => LEnq i d | CDeq => LDeq i end.

(* ONE call of thread i from a state where it is idle, nobody else moving *)
Theorem solo_call fuel q st i c q' o :
  Sim q st -> th st i = Idle -> mcall fuel q c = (q', Some o) ->
  exists k st', run n st (label_of i c :: repeat (LStep i) k) = st' /\
    Sim q' st' /\ others st st' i /\ th st' i = Idle /\
    exists e, evs st' = evs st ++ [(i, e)] /\ ev_ok e o.
Proof.
  intros HS Ht Hc. destruct c as [d|]; cbn [mcall label_of] in *.
  - destruct (Model.enq_loop Z 0 n cl fuel q d) as [q1 [b|]] eqn:El; inversion Hc; subst q1 o. clear Hc.
    set (s0 := step n st (LEnq i d)).
    assert (HS0 : Sim q s0).
    { unfold s0, step, step0, tick. rewrite Ht. unfold invoke. apply (sim_ext q st); auto. }
    assert (Ht0 : th s0 i = E1 d).
    { unfold s0, step, step0, tick. rewrite Ht. unfold invoke. flat. apply updf_same. }
    assert (Ho0 : others st s0 i).
    { intros k Hk. unfold s0, step, step0, tick. rewrite Ht. unfold invoke. flat. now apply updf_other. }
    assert (Hv0 : evs s0 = evs st).
    { unfold s0, step, step0, tick. rewrite Ht. reflexivity. }
    destruct (enq_call fuel q s0 i d q' b HS0 Ht0 El) as (k & st' & R & S1 & O1 & T1 & r & V1 & B1).
    exists k, st'. split; [rewrite run_cons; exact R|]. split; [exact S1|].
    split; [intros j Hj; rewrite (O1 j Hj); apply (Ho0 j Hj)|]. split; [exact T1|].
    exists (EvEnq d r). rewrite <- Hv0. auto.
  - unfold Model.scq_dequeue in Hc.
    set (s0 := step n st (LDeq i)).
    assert (HS0 : Sim q s0).
    { unfold s0, step, step0, tick. rewrite Ht. unfold invoke. apply (sim_ext q st); auto. }
    assert (Ht0 : th s0 i = D0).
    { unfold s0, step, step0, tick. rewrite Ht. unfold invoke. flat. apply updf_same. }
    assert (Ho0 : others st s0 i).
    { intros k Hk. unfold s0, step, step0, tick. rewrite Ht. unfold invoke. flat. now apply updf_other. }
    assert (Hv0 : evs s0 = evs st).
    { unfold s0, step, step0, tick. rewrite Ht. reflexivity. }
    pose proof (sim_thr _ _ HS0) as Ethr.
    destruct (Model.thr q <? 0) eqn:Eth.
    + (* threshold < 0: D0 returns empty *)
      inversion Hc; subst q' o. clear Hc.
      exists 1%nat. eexists. split.
      { rewrite run_cons. fold s0. cbn [repeat]. rewrite run_cons. cbn [run fold_left]. reflexivity. }
      assert (Hstep : step n s0 (LStep i) = tick (ret s0 i (EvDeq None))).
      { unfold step, step0, tstep. rewrite Ht0. unfold do_D0. rewrite <- Ethr, Eth. reflexivity. }
      rewrite Hstep. unfold tick, ret. flat.
      split; [apply (sim_ext q s0); auto|].
      split; [intros j Hj; flat; rewrite updf_other by auto; apply (Ho0 j Hj)|].
      split; [apply updf_same|]. exists (EvDeq None). split; [|exact I].
      unfold evs at 1. flat. rewrite map_app. fold (evs s0). rewrite Hv0. reflexivity.
    + (* D0 goes on to D1 *)
      destruct (Model.deq_loop Z 0 n cl fuel q) as [q1 r1] eqn:El.
      assert (Hstep : step n s0 (LStep i) = tick (goto s0 i D1)).
      { unfold step, step0, tstep. rewrite Ht0. unfold do_D0. rewrite <- Ethr, Eth. reflexivity. }
      set (s1 := tick (goto s0 i D1)).
      assert (HS1 : Sim q s1) by (apply (sim_ext q s0); auto).
      assert (Ht1 : th s1 i = D1) by (unfold s1, tick, goto; flat; apply updf_same).
      assert (Ho1 : others st s1 i).
      { intros j Hj. unfold s1, tick, goto. flat. rewrite updf_other by auto. apply (Ho0 j Hj). }
      assert (Hv1 : evs s1 = evs st) by (rewrite <- Hv0; reflexivity).
      assert (Hna : r1 <> Model.Again) by (intros ->; discriminate Hc).
      destruct (deq_call fuel q s1 i q1 r1 HS1 Ht1 El Hna) as (k & st' & R & S1 & O1 & T1 & M1).
      exists (S k), st'. split.
      { rewrite run_cons. fold s0. cbn [repeat]. rewrite run_cons, Hstep. exact R. }
      destruct r1 as [x| |]; inversion Hc; subst q1 o; clear Hc.
      * split; [exact S1|]. split; [intros j Hj; rewrite (O1 j Hj); apply (Ho1 j Hj)|]. split; [exact T1|].
        destruct M1 as (H & V1). exists (EvDeq (Some (H, x))). rewrite <- Hv1. split; [exact V1|reflexivity].
      * split; [exact S1|]. split; [intros j Hj; rewrite (O1 j Hj); apply (Ho1 j Hj)|]. split; [exact T1|].
        exists (EvDeq None). rewrite <- Hv1. split; [exact M1|exact I].
Qed.

(* a sequence of calls of thread i, one after the other; None = some call ran out of fuel *)
Fixpoint mseq (fuel : nat) (q : mscq) (cs : list cmd) : option (mscq * list mout) :=
  match cs with
  | [] => Some (q, [])
  | c :: t => match mcall fuel q c with
              | (q1, Some o) => match mseq fuel q1 t with
                                | Some (q', os) => Some (q', o :: os)
                                | None => None
                                end
              | (_, None) => None
              end
  end.

Definition solo_label (i : nat) (l : label) : Prop := l = LStep i \/ exists c, l = label_of i c.

Theorem solo_run fuel cs : forall q st i q' outs,
  Sim q st -> th st i = Idle -> mseq fuel q cs = Some (q', outs) ->
  exists sched st', run n st sched = st' /\ Forall (solo_label i) sched /\
    Sim q' st' /\ others st st' i /\ th st' i = Idle /\
    exists es, evs st' = evs st ++ map (pair i) es /\ Forall2 ev_ok es outs.
Proof.
  induction cs as [|c cs IH]; intros q st i q' outs HS Ht Hm.
  - inversion Hm; subst q' outs. exists [], st. split; [reflexivity|]. split; [constructor|].
    split; [exact HS|]. split; [intros k _; reflexivity|]. split; [exact Ht|].
    exists []. cbn. rewrite app_nil_r. split; [reflexivity|constructor].
  - cbn [mseq] in Hm. destruct (mcall fuel q c) as [q1 [o|]] eqn:Ec; [|discriminate Hm].
    destruct (mseq fuel q1 cs) as [[q2 os]|] eqn:Es; [|discriminate Hm]. inversion Hm; subst q2 outs. clear Hm.
    destruct (solo_call fuel q st i c q1 o HS Ht Ec) as (k & st1 & R1 & S1 & O1 & T1 & e & V1 & K1).
    destruct (IH q1 st1 i q' os S1 T1 Es) as (sched & st2 & R2 & F2 & S2 & O2 & T2 & es & V2 & K2).
    exists ((label_of i c :: repeat (LStep i) k) ++ sched), st2.
    split; [rewrite run_app, R1; exact R2|]. split.
    { apply Forall_app. split; [|exact F2]. constructor; [right; now exists c|].
      apply Forall_forall. intros l Hl. apply repeat_spec in Hl. now left. }
    split; [exact S2|]. split; [intros j Hj; rewrite (O2 j Hj); apply (O1 j Hj)|]. split; [exact T2|].
    exists (e :: es). split; [|constructor; assumption].
    rewrite V2, V1, <- app_assoc. reflexivity.
Qed.

(* from the initial states: what the functional ring model answers is what the small-step machine answers when
   one thread runs alone *)
Corollary solo_from_init fuel cs i q' outs :
  mseq fuel (Model.scq_init Z n) cs = Some (q', outs) ->
  exists sched st', run n (init n) sched = st' /\ Forall (solo_label i) sched /\ Sim q' st' /\
    exists es, map snd (evs st') = es /\ Forall2 ev_ok es outs.
Proof.
  intros Hm. destruct (solo_run fuel cs _ (init n) i q' outs sim_init eq_refl Hm)
    as (sched & st' & R & F & S1 & _ & _ & es & V & K).
  exists sched, st'. split; [exact R|]. split; [exact F|]. split; [exact S1|].
  exists es. split; [|exact K]. rewrite V. cbn. rewrite map_map. cbn. apply map_id.
Qed.

End Tie.

Print Assumptions solo_call.
Print Assumptions solo_run.
Print Assumptions solo_from_init.
