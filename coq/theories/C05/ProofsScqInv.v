(* C05 - the small-step SCQ ring of Scq.v: the structural invariant and its preservation by every step
   of every thread under every schedule. *)
From Coq Require Import ZArith List Bool Lia Arith.
Import ListNotations.
From VF Require Import C05.Scq.
Open Scope Z_scope.

(* ------------------------------------------------------------------ small facts *)
Lemma updf_same {A} (f : nat -> A) i x : updf f i x i = x.
Proof. unfold updf. now rewrite Nat.eqb_refl. Qed.
Lemma updf_other {A} (f : nat -> A) i x k : k <> i -> updf f i x k = f k.
Proof. intros H. unfold updf. destruct (Nat.eqb_spec k i); [contradiction|reflexivity]. Qed.
Lemma updr_same r j e : updr r j e j = e.
Proof. unfold updr. now rewrite Z.eqb_refl. Qed.
Lemma updr_other r j e k : k <> j -> updr r j e k = r k.
Proof. intros H. unfold updr. destruct (Z.eqb_spec k j); [contradiction|reflexivity]. Qed.

Lemma entry_eqb_eq a b : entry_eqb a b = true <-> a = b.
Proof.
  unfold entry_eqb. destruct a as [s1 e1 c1 d1], b as [s2 e2 c2 d2]. cbn [safe emp cyc dat].
  rewrite !andb_true_iff, !Bool.eqb_true_iff, !Z.eqb_eq. split.
  - intros [[[-> ->] ->] ->]. reflexivity.
  - intros E. inversion E. auto.
Qed.

Definition eticket (s : tstate) : option Z :=
  match s with E2 _ T | E3 _ T _ | E4 _ T _ => Some T | _ => None end.
Definition pending (s : tstate) : option Z :=
  match s with D2 H | D4 H _ => Some H | _ => None end.
Definition resetting (s : tstate) : option Z :=
  match s with D3a H _ | D3b H _ => Some H | _ => None end.
Definition dticket (s : tstate) : option Z :=
  match pending s with Some H => Some H | None => resetting s end.

Definition same_flags (a b : entry) : Prop := safe a = safe b /\ emp a = emp b /\ cyc a = cyc b.

Fixpoint deq_tickets (tr : list (nat * Z * Z * event)) : list Z :=
  match tr with
  | [] => []
  | (_, _, _, EvDeq (Some (H, _))) :: t => H :: deq_tickets t
  | _ :: t => deq_tickets t
  end.

Lemma deq_tickets_app a b : deq_tickets (a ++ b) = deq_tickets a ++ deq_tickets b.
Proof.
  induction a as [|[[[i x] y] ev] a IH]; [reflexivity|]. cbn [app deq_tickets].
  destruct ev as [v r|[[H v]|]]; cbn; now rewrite IH.
Qed.
Lemma deq_tickets_in tr H : In H (deq_tickets tr) -> exists i a b v, In (i, a, b, EvDeq (Some (H, v))) tr.
Proof.
  induction tr as [|[[[i x] y] ev] tr IH]; cbn; [tauto|].
  destruct ev as [v r|[[H' v]|]]; cbn.
  - intros Hi. destruct (IH Hi) as (i0 & a & b & v0 & Hin). exists i0, a, b, v0. now right.
  - intros [<-|Hi].
    + exists i, x, y, v. now left.
    + destruct (IH Hi) as (i0 & a & b & v0 & Hin). exists i0, a, b, v0. now right.
  - intros Hi. destruct (IH Hi) as (i0 & a & b & v0 & Hin). exists i0, a, b, v0. now right.
Qed.

Section Inv.
Variable n : Z.
Hypothesis Hn : 1 <= n.

Lemma tk_div c j : 0 <= j < n -> (c * n + j) / n = c.
Proof. intros Hj. rewrite Z.add_comm, Z.div_add by lia. rewrite Z.div_small by lia. lia. Qed.
Lemma tk_mod c j : 0 <= j < n -> (c * n + j) mod n = j.
Proof. intros Hj. rewrite Z.add_comm, Z.mod_add by lia. apply Z.mod_small. lia. Qed.
Lemma tk_eq T : (T / n) * n + T mod n = T.
Proof. pose proof (Z.div_mod T n). lia. Qed.
Lemma mod_rng T : 0 <= T mod n < n.
Proof. apply Z.mod_pos_bound. lia. Qed.
Lemma div_ge1 T : n <= T -> 1 <= T / n.
Proof. intros H. apply Z.div_le_lower_bound; lia. Qed.
Lemma div_mono a b : a <= b -> a / n <= b / n.
Proof. intros H. apply Z.div_le_mono; lia. Qed.
Lemma same_div_mod a b : a / n = b / n -> a mod n = b mod n -> a = b.
Proof. intros H1 H2. rewrite <- (tk_eq a), <- (tk_eq b). now rewrite H1, H2. Qed.

(* what a thread's registers promise *)
Definition tinv (st : state) (s : tstate) : Prop :=
  match s with
  | E2 d T => n <= T < tl st /\ ~ In T (map fst (wlog st))
  | E3 d T e =>
      n <= T < tl st /\ ~ In T (map fst (wlog st)) /\
      emp e = true /\ dat e = 0 /\ cyc e < T / n /\ safe e = false /\
      (cyc e < cyc (ring st (T mod n)) \/ same_flags (ring st (T mod n)) e)
  | E4 d T e =>
      n <= T < tl st /\ ~ In T (map fst (wlog st)) /\
      emp e = true /\ dat e = 0 /\ cyc e < T / n /\
      (cyc e < cyc (ring st (T mod n)) \/ same_flags (ring st (T mod n)) e) /\
      (forall H, In H (plog st) -> H mod n = T mod n -> T / n <= H / n -> cyc e < cyc (ring st (T mod n)))
  | E6 d T | E7 d T => In (T, d) (wlog st)
  | D2 H => n <= H < hd st /\ ~ In H (plog st) /\ ~ In H (map fst (clog st))
  | D4 H e => n <= H < hd st /\ ~ In H (plog st) /\ ~ In H (map fst (clog st)) /\ cyc e < H / n
  | D3a H x => In (H, x) (clog st) /\ emp (ring st (H mod n)) = false /\
               cyc (ring st (H mod n)) = H / n /\ dat (ring st (H mod n)) = x
  | D3b H x => In (H, x) (clog st) /\ emp (ring st (H mod n)) = false /\
               cyc (ring st (H mod n)) = H / n /\ dat (ring st (H mod n)) = 0
  | F3 oh h tv => tv < h
  | _ => True
  end.

Record Inv (st : state) : Prop := {
  i_hd : n <= hd st;
  i_tl : n <= tl st;
  i_w_nd : NoDup (map fst (wlog st));
  i_w_rng : forall T v, In (T, v) (wlog st) -> n <= T < tl st;
  i_c_w : incl (clog st) (wlog st);
  i_c_nd : NoDup (map fst (clog st));
  i_c_rng : forall H v, In (H, v) (clog st) -> H < hd st;
  i_p_rng : forall H, In H (plog st) -> n <= H < hd st;
  i_p_c : forall H, In H (plog st) -> ~ In H (map fst (clog st));
  i_t : forall i, tinv st (th st i);
  i_ue : forall i k T, i <> k -> eticket (th st i) = Some T -> eticket (th st k) = Some T -> False;
  i_ud : forall i k H, i <> k -> dticket (th st i) = Some H -> dticket (th st k) = Some H -> False;
  i_s0 : forall j, 0 <= j < n -> 0 <= cyc (ring st j);
  i_s1 : forall j, 0 <= j < n -> emp (ring st j) = false ->
           ~ In (cyc (ring st j) * n + j) (plog st) /\
           ((In (cyc (ring st j) * n + j, dat (ring st j)) (wlog st) /\
             ~ In (cyc (ring st j) * n + j) (map fst (clog st))) \/
            exists i, resetting (th st i) = Some (cyc (ring st j) * n + j));
  i_s2 : forall j H, 0 <= j < n -> safe (ring st j) = true -> In H (plog st) -> H mod n = j ->
           H / n <= cyc (ring st j);
  i_s4 : forall j, 0 <= j < n -> emp (ring st j) = true -> 1 <= cyc (ring st j) ->
           In (cyc (ring st j) * n + j) (plog st) \/ In (cyc (ring st j) * n + j) (map fst (clog st));
  i_h : forall T v, In (T, v) (wlog st) -> In (T, v) (clog st) \/
           (emp (ring st (T mod n)) = false /\ cyc (ring st (T mod n)) = T / n /\
            dat (ring st (T mod n)) = v /\ ~ In T (plog st));
  i_5 : forall H, n <= H < hd st ->
           In H (plog st) \/ In H (map fst (clog st)) \/ exists i, pending (th st i) = Some H;
  i_tr_d : forall i a b H v, In (i, a, b, EvDeq (Some (H, v))) (trace st) -> In (H, v) (clog st);
  i_tr_e : forall i a b v T, In (i, a, b, EvEnq v (Some T)) (trace st) -> In (T, v) (wlog st);
  i_tr_nd : NoDup (deq_tickets (trace st));
  i_tr_r : forall i H, resetting (th st i) = Some H -> ~ In H (deq_tickets (trace st))
}.

(* Inv only reads these components *)
Lemma Inv_ext st st' :
  ring st' = ring st -> hd st' = hd st -> tl st' = tl st -> th st' = th st ->
  wlog st' = wlog st -> clog st' = clog st -> plog st' = plog st -> trace st' = trace st ->
  Inv st -> Inv st'.
Proof.
  intros E1 E2 E3 E4 E5 E6 E7 E8 HI.
  destruct st as [r h t c tr f w cl p k s tc], st' as [r' h' t' c' tr' f' w' cl' p' k' s' tc'].
  cbn in E1, E2, E3, E4, E5, E6, E7, E8. subst.
  destruct HI. constructor; assumption.
Qed.

Lemma inv_init : Inv (init n).
Proof.
  constructor; cbn [init ring hd tl closed thr th wlog clog plog trace map tinv eticket dticket pending resetting deq_tickets entry0 safe emp cyc dat].
  - lia.
  - lia.
  - constructor.
  - intros T v [].
  - intros x [].
  - constructor.
  - intros H v [].
  - intros H [].
  - intros H [].
  - intros i. exact I.
  - intros i k T _ E. discriminate E.
  - intros i k T _ E. discriminate E.
  - intros j _. lia.
  - intros j _ E. discriminate E.
  - intros j H _ _ [].
  - intros j _ _ E. lia.
  - intros T v [].
  - intros H HH. lia.
  - intros i a b H v [].
  - intros i a b v T [].
  - constructor.
  - intros i H E. discriminate E.
Qed.

Ltac sred := unfold goto, ret, invoke, tick, set_tl, set_hd, set_thr, set_ring, add_w, add_c, add_p, set_closed in *;
  cbn [ring hd tl closed thr th wlog clog plog clk since trace] in *.

Lemma updf_pres {A B} (g : A -> B) (f : nat -> A) i s k : g s = g (f i) -> g (updf f i s k) = g (f k).
Proof. intros E. unfold updf. destruct (Nat.eqb_spec k i); [subst; exact E|reflexivity]. Qed.

Lemma dticket_pres s s' : pending s = pending s' -> resetting s = resetting s' -> dticket s = dticket s'.
Proof. intros E1 E2. unfold dticket. now rewrite E1, E2. Qed.

(* a thread moves to a state whose promises hold and which keeps (or drops) its enqueue ticket and keeps its
   dequeue stage; nothing else changes *)
Lemma inv_th st i s tr' :
  Inv st -> tinv st s ->
  (forall T, eticket s = Some T -> eticket (th st i) = Some T \/ forall k, k <> i -> eticket (th st k) <> Some T) ->
  pending s = pending (th st i) -> resetting s = resetting (th st i) ->
  (forall k a b H v, In (k, a, b, EvDeq (Some (H, v))) tr' -> In (H, v) (clog st)) ->
  (forall k a b v T, In (k, a, b, EvEnq v (Some T)) tr' -> In (T, v) (wlog st)) ->
  deq_tickets tr' = deq_tickets (trace st) ->
  Inv (mkS (ring st) (hd st) (tl st) (closed st) (thr st) (updf (th st) i s)
           (wlog st) (clog st) (plog st) (clk st) (since st) tr').
Proof.
  intros HI Hs He Hp Hr Htd Hte Hdt.
  assert (Het : forall a b T, a <> b -> eticket (updf (th st) i s a) = Some T -> eticket (updf (th st) i s b) = Some T -> False).
  { intros a b T Hab. unfold updf. destruct (Nat.eqb_spec a i) as [->|Ha], (Nat.eqb_spec b i) as [->|Hb]; intros E1 E2.
    - contradiction.
    - destruct (He T E1) as [E|E]; [exact (i_ue _ HI i b T Hab E E2)|exact (E b Hb E2)].
    - destruct (He T E2) as [E|E]; [exact (i_ue _ HI a i T Hab E1 E)|exact (E a Ha E1)].
    - exact (i_ue _ HI a b T Hab E1 E2). }
  assert (Hd : forall k, dticket (updf (th st) i s k) = dticket (th st k)).
  { intros k. apply updf_pres. now apply dticket_pres. }
  constructor; cbn [ring hd tl closed thr th wlog clog plog clk since trace].
  - apply HI.
  - apply HI.
  - apply HI.
  - apply HI.
  - apply HI.
  - apply HI.
  - apply HI.
  - apply HI.
  - apply HI.
  - intros k. unfold updf. destruct (Nat.eqb_spec k i); [exact Hs|apply (i_t _ HI)].
  - exact Het.
  - intros a b H Hab E1 E2. rewrite Hd in E1, E2. exact (i_ud _ HI a b H Hab E1 E2).
  - apply HI.
  - intros j Hj Ej. destruct (i_s1 _ HI j Hj Ej) as [H1 H2]. split; [exact H1|].
    destruct H2 as [H2|(k & Hk)]; [now left|right]. exists k. rewrite (updf_pres resetting); auto.
  - apply HI.
  - apply HI.
  - apply HI.
  - intros H HH. destruct (i_5 _ HI H HH) as [H1|[H1|(k & Hk)]]; auto.
    right; right. exists k. rewrite (updf_pres pending); auto.
  - exact Htd.
  - exact Hte.
  - rewrite Hdt. apply HI.
  - intros k H E. rewrite (updf_pres resetting) in E by auto. rewrite Hdt. exact (i_tr_r _ HI k H E).
Qed.

Lemma inv_goto st i s :
  Inv st -> tinv st s ->
  (forall T, eticket s = Some T -> eticket (th st i) = Some T \/ forall k, k <> i -> eticket (th st k) <> Some T) ->
  pending s = pending (th st i) -> resetting s = resetting (th st i) ->
  Inv (goto st i s).
Proof.
  intros HI Hs He Hp Hr. unfold goto. apply inv_th; auto.
  - intros k a b H v. apply (i_tr_d _ HI).
  - intros k a b v T. apply (i_tr_e _ HI).
Qed.

(* a call returns without a dequeued value *)
Lemma inv_ret st i ev :
  Inv st -> pending (th st i) = None -> resetting (th st i) = None ->
  match ev with
  | EvEnq v (Some T) => In (T, v) (wlog st)
  | EvDeq (Some _) => False
  | _ => True
  end ->
  Inv (ret st i ev).
Proof.
  intros HI Hp Hr Hev. unfold ret. apply inv_th; auto.
  - exact I.
  - intros T E. discriminate E.
  - intros k a b H v Hin. apply in_app_or in Hin as [Hin|[E|[]]]; [eapply (i_tr_d _ HI); eauto|].
    inversion E; subst. contradiction.
  - intros k a b v T Hin. apply in_app_or in Hin as [Hin|[E|[]]]; [eapply (i_tr_e _ HI); eauto|].
    inversion E; subst. exact Hev.
  - rewrite deq_tickets_app. cbn [deq_tickets]. destruct ev as [v r|[[H v]|]]; [| contradiction |]; now rewrite app_nil_r.
Qed.

Lemma inv_set_thr st t : Inv st -> Inv (set_thr st t).
Proof. apply Inv_ext; reflexivity. Qed.
Lemma inv_tick st : Inv st -> Inv (tick st).
Proof. apply Inv_ext; reflexivity. Qed.
Lemma inv_set_closed st : Inv st -> Inv (set_closed st).
Proof. apply Inv_ext; reflexivity. Qed.

(* ------------------------------------------------------------------ steps that only move the thread *)
Ltac goto_tac HI Ht :=
  apply inv_goto;
  [exact HI
  |cbn [tinv]
  |rewrite Ht; cbn [eticket]; try discriminate; auto
  |rewrite Ht; reflexivity
  |rewrite Ht; reflexivity].
Ltac ret_tac HI Ht :=
  apply inv_ret; [try apply inv_set_thr; exact HI|cbn [th set_thr]; rewrite Ht; reflexivity|cbn [th set_thr]; rewrite Ht; reflexivity|].
Ltac own HI Ht i Hti := pose proof (i_t _ HI i) as Hti; rewrite Ht in Hti; cbn [tinv] in Hti.

Lemma inv_do_E2 st i d T : Inv st -> th st i = E2 d T -> Inv (do_E2 n st i d T).
Proof.
  intros HI Ht. own HI Ht i Hti. destruct Hti as [HT Hw].
  unfold do_E2, slot, cyc_of.
  destruct ((cyc (ring st (T mod n)) <? T / n) && emp (ring st (T mod n))) eqn:Ec.
  - apply andb_true_iff in Ec as [Ec Ee]. apply Z.ltb_lt in Ec.
    destruct (safe (ring st (T mod n))) eqn:Es.
    + goto_tac HI Ht. cbn [safe emp cyc dat].
      split; [exact HT|]. split; [exact Hw|]. split; [exact Ee|]. split; [reflexivity|]. split; [exact Ec|]. split.
      * right. unfold same_flags. cbn [safe emp cyc]. auto.
      * intros H HH Hm Hc. pose proof (i_s2 _ HI (T mod n) H (mod_rng T) Es HH Hm). lia.
    + goto_tac HI Ht. cbn [safe emp cyc dat].
      split; [exact HT|]. split; [exact Hw|]. split; [exact Ee|]. split; [reflexivity|]. split; [exact Ec|].
      split; [reflexivity|]. right. unfold same_flags. cbn [safe emp cyc]. auto.
  - goto_tac HI Ht. exact I.
Qed.

Lemma inv_do_E3 st i d T e : Inv st -> th st i = E3 d T e -> Inv (do_E3 st i d T e).
Proof.
  intros HI Ht. own HI Ht i Hti.
  destruct Hti as (HT & Hw & He & Hd & Hc & Hs & HR).
  unfold do_E3. destruct (hd st <=? T) eqn:Eh.
  - apply Z.leb_le in Eh. goto_tac HI Ht.
    split; [exact HT|]. split; [exact Hw|]. split; [exact He|]. split; [exact Hd|]. split; [exact Hc|]. split; [exact HR|].
    intros H HH Hm Hcy. exfalso.
    pose proof (i_p_rng _ HI H HH) as HHr.
    assert (H / n <= T / n) by (apply div_mono; lia).
    assert (H = T) by (apply same_div_mod; lia). lia.
  - goto_tac HI Ht. exact I.
Qed.

Lemma inv_do_E5 st i d T : Inv st -> th st i = E5 d T -> Inv (do_E5 n st i d T).
Proof.
  intros HI Ht. unfold do_E5. destruct (hd st + n <=? T + 1).
  - ret_tac HI Ht. exact I.
  - goto_tac HI Ht. exact I.
Qed.

Lemma inv_do_E6 st i d T : Inv st -> th st i = E6 d T -> Inv (do_E6 n st i d T).
Proof.
  intros HI Ht. own HI Ht i Hti.
  unfold do_E6. destruct (thr st =? thr_full n).
  - ret_tac HI Ht. exact Hti.
  - goto_tac HI Ht. exact Hti.
Qed.

Lemma inv_do_E7 st i d T : Inv st -> th st i = E7 d T -> Inv (do_E7 n st i d T).
Proof.
  intros HI Ht. own HI Ht i Hti.
  unfold do_E7. ret_tac HI Ht. exact Hti.
Qed.

Lemma inv_do_D0 st i : Inv st -> th st i = D0 -> Inv (do_D0 st i).
Proof.
  intros HI Ht. unfold do_D0. destruct (thr st <? 0).
  - ret_tac HI Ht. exact I.
  - goto_tac HI Ht. exact I.
Qed.

Lemma inv_do_D5 st i H : Inv st -> th st i = D5 H -> Inv (do_D5 st i H).
Proof.
  intros HI Ht. unfold do_D5. destruct (tl st <=? H + 1); goto_tac HI Ht; exact I.
Qed.

Lemma inv_do_D7 st i H : Inv st -> th st i = D7 H -> Inv (do_D7 st i H).
Proof.
  intros HI Ht. unfold do_D7. destruct (thr st <=? 0).
  - ret_tac HI Ht. exact I.
  - apply inv_goto; [apply inv_set_thr; exact HI|exact I|cbn; discriminate|cbn [th set_thr]; rewrite Ht; reflexivity|cbn [th set_thr]; rewrite Ht; reflexivity].
Qed.

Lemma inv_do_F1 st i oh : Inv st -> th st i = F1 oh -> Inv (do_F1 st i oh).
Proof.
  intros HI Ht. unfold do_F1. destruct (oh <? hd st); goto_tac HI Ht; exact I.
Qed.

Lemma inv_do_F2 st i oh h : Inv st -> th st i = F2 oh h -> Inv (do_F2 st i oh h).
Proof.
  intros HI Ht. unfold do_F2. destruct (closed st || (h <=? tl st)) eqn:E.
  - goto_tac HI Ht; exact I.
  - apply orb_false_iff in E as [_ E]. apply Z.leb_gt in E. goto_tac HI Ht. exact E.
Qed.

Lemma inv_do_F4 st i : Inv st -> th st i = F4 -> Inv (do_F4 st i).
Proof.
  intros HI Ht. unfold do_F4. ret_tac HI Ht. exact I.
Qed.

Lemma inv_invoke st i s :
  Inv st -> th st i = Idle -> tinv st s -> eticket s = None -> pending s = None -> resetting s = None ->
  Inv (invoke st i s).
Proof.
  intros HI Ht Hs He Hp Hr.
  apply (Inv_ext (goto st i s)); try reflexivity.
  apply inv_goto; auto.
  - rewrite He. discriminate.
  - rewrite Ht. exact Hp.
  - rewrite Ht. exact Hr.
Qed.

(* ------------------------------------------------------------------ tail moves forward: E1, F3 *)
Lemma tinv_tl st t s : tl st <= t -> tinv st s -> tinv (set_tl st t) s.
Proof.
  intros Ht. destruct s; cbn [tinv]; sred; intuition lia.
Qed.

Lemma inv_set_tl st t : tl st <= t -> Inv st -> Inv (set_tl st t).
Proof.
  intros Ht HI. constructor.
  - exact (i_hd _ HI).
  - sred. pose proof (i_tl _ HI). lia.
  - exact (i_w_nd _ HI).
  - sred. intros T v Hin. pose proof (i_w_rng _ HI T v Hin). lia.
  - exact (i_c_w _ HI).
  - exact (i_c_nd _ HI).
  - exact (i_c_rng _ HI).
  - exact (i_p_rng _ HI).
  - exact (i_p_c _ HI).
  - intros i. apply tinv_tl; auto. apply (i_t _ HI).
  - exact (i_ue _ HI).
  - exact (i_ud _ HI).
  - exact (i_s0 _ HI).
  - exact (i_s1 _ HI).
  - exact (i_s2 _ HI).
  - exact (i_s4 _ HI).
  - exact (i_h _ HI).
  - exact (i_5 _ HI).
  - exact (i_tr_d _ HI).
  - exact (i_tr_e _ HI).
  - exact (i_tr_nd _ HI).
  - exact (i_tr_r _ HI).
Qed.

Lemma eticket_lt st k T : Inv st -> eticket (th st k) = Some T -> T < tl st.
Proof.
  intros HI E. pose proof (i_t _ HI k) as Hk. destruct (th st k); try discriminate E; cbn in E; inversion E; subst;
    cbn [tinv] in Hk; destruct Hk as [Hk _]; lia.
Qed.

Lemma inv_do_E1 st i d : Inv st -> th st i = E1 d -> Inv (do_E1 st i d).
Proof.
  intros HI Ht. unfold do_E1.
  assert (HI' : Inv (set_tl st (tl st + 1))) by (apply inv_set_tl; auto; lia).
  destruct (closed st).
  - apply inv_ret; [exact HI'|cbn [th set_tl]; rewrite Ht; reflexivity|cbn [th set_tl]; rewrite Ht; reflexivity|exact I].
  - apply inv_goto; [exact HI'| | |cbn [th set_tl]; rewrite Ht; reflexivity|cbn [th set_tl]; rewrite Ht; reflexivity].
    + cbn [tinv tl set_tl wlog]. pose proof (i_tl _ HI). split; [lia|].
      intros Hin. apply in_map_iff in Hin as ([T v] & E & Hin). cbn in E. subst T.
      pose proof (i_w_rng _ HI _ _ Hin). lia.
    + intros T E. cbn [eticket] in E. inversion E; subst T. right. intros k Hk Ek. cbn [th set_tl] in Ek.
      pose proof (eticket_lt st k _ HI Ek). lia.
Qed.

Lemma inv_do_F3 st i oh h tv : Inv st -> th st i = F3 oh h tv -> Inv (do_F3 st i oh h tv).
Proof.
  intros HI Ht. own HI Ht i Hti. unfold do_F3.
  destruct (negb (closed st) && (tl st =? tv)) eqn:E.
  - apply andb_true_iff in E as [_ E]. apply Z.eqb_eq in E.
    apply inv_goto; [apply inv_set_tl; [lia|exact HI]|exact I|cbn; discriminate|cbn [th set_tl]; rewrite Ht; reflexivity|cbn [th set_tl]; rewrite Ht; reflexivity].
  - goto_tac HI Ht. exact I.
Qed.

(* ------------------------------------------------------------------ D1: a new dequeue ticket *)
Lemma dticket_lt st k H : Inv st -> dticket (th st k) = Some H -> H < hd st.
Proof.
  intros HI E. pose proof (i_t _ HI k) as Hk. destruct (th st k); try discriminate E; cbn in E; inversion E; subst;
    cbn [tinv] in Hk; destruct Hk as [Hk _]; try lia; exact (i_c_rng _ HI _ _ Hk).
Qed.

Lemma tinv_hd st h s : hd st <= h -> tinv st s -> tinv (set_hd st h) s.
Proof.
  intros Ht. destruct s; cbn [tinv]; sred; intuition lia.
Qed.

Lemma inv_do_D1 st i : Inv st -> th st i = D1 -> Inv (do_D1 st i).
Proof.
  intros HI Ht. unfold do_D1.
  assert (Hd : forall k, k <> i -> dticket (updf (th st) i (D2 (hd st)) k) = dticket (th st k)).
  { intros k Hk. now rewrite updf_other. }
  constructor; sred.
  - pose proof (i_hd _ HI). lia.
  - apply HI.
  - apply HI.
  - apply HI.
  - apply HI.
  - apply HI.
  - intros H v Hin. pose proof (i_c_rng _ HI H v Hin). lia.
  - intros H Hin. pose proof (i_p_rng _ HI H Hin). lia.
  - apply HI.
  - intros k. unfold updf. destruct (Nat.eqb_spec k i) as [->|Hk].
    + cbn [tinv hd plog clog]. pose proof (i_hd _ HI). split; [lia|]. split.
      * intros Hin. pose proof (i_p_rng _ HI _ Hin). lia.
      * intros Hin. apply in_map_iff in Hin as ([H0 v] & E & Hin). cbn in E. subst H0.
        pose proof (i_c_rng _ HI _ _ Hin). lia.
    + apply (tinv_hd st (hd st + 1) (th st k)); [lia|apply (i_t _ HI)].
  - intros a b T Hab. unfold updf. destruct (Nat.eqb_spec a i) as [->|Ha], (Nat.eqb_spec b i) as [->|Hb]; intros E1 E2;
      try discriminate; try contradiction. exact (i_ue _ HI a b T Hab E1 E2).
  - intros a b H Hab. destruct (Nat.eq_dec a i) as [->|Ha], (Nat.eq_dec b i) as [->|Hb]; try contradiction.
    + rewrite updf_same, (Hd b Hb). cbn. intros E1 E2. inversion E1; subst H.
      pose proof (dticket_lt st b _ HI E2). lia.
    + rewrite updf_same, (Hd a Ha). cbn. intros E1 E2. inversion E2; subst H.
      pose proof (dticket_lt st a _ HI E1). lia.
    + rewrite (Hd a Ha), (Hd b Hb). apply (i_ud _ HI a b H Hab).
  - apply HI.
  - intros j Hj Ej. destruct (i_s1 _ HI j Hj Ej) as [H1 H2]. split; [exact H1|].
    destruct H2 as [H2|(k & Hk)]; [now left|right]. exists k.
    destruct (Nat.eq_dec k i) as [->|Hki]; [rewrite Ht in Hk; discriminate Hk|now rewrite updf_other].
  - apply HI.
  - apply HI.
  - apply HI.
  - intros H HH. destruct (Z.eq_dec H (hd st)) as [->|Hne].
    + right; right. exists i. now rewrite updf_same.
    + destruct (i_5 _ HI H ltac:(lia)) as [H1|[H1|(k & Hk)]]; auto.
      right; right. exists k.
      destruct (Nat.eq_dec k i) as [->|Hki]; [rewrite Ht in Hk; discriminate Hk|now rewrite updf_other].
  - apply HI.
  - apply HI.
  - apply HI.
  - intros k H E. destruct (Nat.eq_dec k i) as [->|Hki]; [rewrite updf_same in E; discriminate E|].
    rewrite updf_other in E by auto. exact (i_tr_r _ HI k H E).
Qed.

(* ------------------------------------------------------------------ E4: the enqueue CAS *)
Lemma in_fst {A B} (l : list (A * B)) a b : In (a, b) l -> In a (map fst l).
Proof. intros H. apply in_map_iff. exists (a, b). auto. Qed.

Lemma inv_do_E4 st i d T e : Inv st -> th st i = E4 d T e -> Inv (do_E4 n st i d T e).
Proof.
  intros HI Ht. own HI Ht i Hti. destruct Hti as (HT & Hw & He & Hd & Hc & HR & HK).
  unfold do_E4, slot, cyc_of. destruct (entry_eqb (ring st (T mod n)) e) eqn:Eq.
  2:{ goto_tac HI Ht. auto. }
  apply entry_eqb_eq in Eq.
  pose proof (mod_rng T) as Hj. set (j := T mod n) in *.
  assert (HTp : ~ In T (plog st)).
  { intros Hin. pose proof (HK T Hin eq_refl (Z.le_refl _)) as Hlt. rewrite Eq in Hlt. lia. }
  assert (HTc : ~ In T (map fst (clog st))).
  { intros Hin. apply in_map_iff in Hin as ([T' v] & E & Hin). cbn in E. subst T'.
    apply Hw. eapply in_fst. apply (i_c_w _ HI). exact Hin. }
  assert (Hoth : forall k, k <> i -> updf (th st) i (E6 d T) k = th st k) by (intros; now apply updf_other).
  constructor; sred.
  - apply HI.
  - apply HI.
  - cbn [map fst]. constructor; [exact Hw|apply HI].
  - intros T' v [E|Hin]; [inversion E; subst; exact HT|exact (i_w_rng _ HI _ _ Hin)].
  - apply incl_tl. apply HI.
  - apply HI.
  - apply HI.
  - apply HI.
  - apply HI.
  - intros k. destruct (Nat.eq_dec k i) as [->|Hk].
    + rewrite updf_same. cbn [tinv wlog]. now left.
    + rewrite (Hoth k Hk). pose proof (i_t _ HI k) as Hk'.
      destruct (th st k) as [|d'|d' T'|d' T' e'|d' T' e'|d' T'|d' T'|d' T'| | |H'|H' x|H' x|H' e'|H'|H'|oh|oh h|oh h tv|] eqn:Ek;
        cbn [tinv] in *; sred; try exact Hk'.
      * destruct Hk' as [H1 H2]. split; [exact H1|]. cbn [map fst]. intros [E|Hin]; [|auto].
        subst T'. apply (i_ue _ HI i k T); auto; [rewrite Ht|rewrite Ek]; reflexivity.
      * destruct Hk' as (H1 & H2 & H3 & H4 & H5 & H6 & H7). repeat (split; [assumption|]). split.
        { cbn [map fst]. intros [E|Hin]; [|auto].
          subst T'. apply (i_ue _ HI i k T); auto; [rewrite Ht|rewrite Ek]; reflexivity. }
        repeat (split; [assumption|]).
        destruct (Z.eq_dec (T' mod n) j) as [Ej|Ej].
        { rewrite Ej, updr_same. cbn [cyc]. left. rewrite Ej, Eq in H7. destruct H7 as [H7|(_ & _ & H7)]; lia. }
        { rewrite updr_other by auto. exact H7. }
      * destruct Hk' as (H1 & H2 & H3 & H4 & H5 & H7 & H8). split; [assumption|]. split.
        { cbn [map fst]. intros [E|Hin]; [|auto].
          subst T'. apply (i_ue _ HI i k T); auto; [rewrite Ht|rewrite Ek]; reflexivity. }
        repeat (split; [assumption|]).
        destruct (Z.eq_dec (T' mod n) j) as [Ej|Ej].
        { rewrite Ej, updr_same. cbn [cyc]. rewrite Ej, Eq in H7.
          assert (cyc e' < T / n) by (destruct H7 as [H7|(_ & _ & H7)]; lia). split; [now left|]. intros; assumption. }
        { rewrite updr_other by auto. split; assumption. }
      * now right.
      * now right.
      * destruct Hk' as (H1 & H2 & H3 & H4). split; [exact H1|].
        destruct (Z.eq_dec (H' mod n) j) as [Ej|Ej]; [rewrite Ej, Eq in H2; congruence|].
        rewrite updr_other by auto. auto.
      * destruct Hk' as (H1 & H2 & H3 & H4). split; [exact H1|].
        destruct (Z.eq_dec (H' mod n) j) as [Ej|Ej]; [rewrite Ej, Eq in H2; congruence|].
        rewrite updr_other by auto. auto.
  - intros a b T' Hab. unfold updf. destruct (Nat.eqb_spec a i), (Nat.eqb_spec b i); intros E1 E2; try discriminate.
    exact (i_ue _ HI a b T' Hab E1 E2).
  - intros a b H Hab E1 E2. apply (i_ud _ HI a b H Hab).
    + revert E1. unfold updf. destruct (Nat.eqb_spec a i); [discriminate|auto].
    + revert E2. unfold updf. destruct (Nat.eqb_spec b i); [discriminate|auto].
  - intros j' Hj'. unfold updr. destruct (Z.eqb_spec j' j); [cbn [cyc]; pose proof (div_ge1 T); lia|apply HI; auto].
  - intros j' Hj'. destruct (Z.eq_dec j' j) as [->|Ej].
    + rewrite !updr_same. intros _. cbn [cyc dat]. unfold j. rewrite tk_eq. split; [exact HTp|]. left. split; [now left|exact HTc].
    + rewrite !updr_other by auto. intros Ee. destruct (i_s1 _ HI j' Hj' Ee) as [H1 H2]. split; [exact H1|].
      destruct H2 as [[H2 H3]|(k & Hk)]; [left; split; [now right|exact H3]|right].
      exists k. destruct (Nat.eq_dec k i) as [->|Hki]; [rewrite Ht in Hk; discriminate Hk|now rewrite Hoth].
  - intros j' H Hj'. unfold updr. destruct (Z.eqb_spec j' j) as [->|Ej].
    + intros _ Hin Hm. cbn [cyc]. destruct (Z_le_gt_dec (H / n) (T / n)) as [|Hgt]; [assumption|].
      exfalso. pose proof (HK H Hin Hm ltac:(lia)) as Hlt. rewrite Eq in Hlt. lia.
    + apply (i_s2 _ HI); auto.
  - intros j' Hj'. unfold updr. destruct (Z.eqb_spec j' j) as [->|Ej]; [cbn [emp]; discriminate|apply (i_s4 _ HI); auto].
  - intros T' v [E|Hin].
    + inversion E; subst T' v. right. fold j. rewrite updr_same. cbn [emp cyc dat]. auto.
    + destruct (i_h _ HI T' v Hin) as [H1|(H1 & H2 & H3 & H4)]; [now left|right].
      destruct (Z.eq_dec (T' mod n) j) as [Ej|Ej]; [rewrite Ej, Eq in H1; congruence|].
      rewrite updr_other by auto. auto.
  - intros H HH. destruct (i_5 _ HI H HH) as [H1|[H1|(k & Hk)]]; auto.
    right; right. exists k. destruct (Nat.eq_dec k i) as [->|Hki]; [rewrite Ht in Hk; discriminate Hk|now rewrite Hoth].
  - apply HI.
  - intros k a b v T' Hin. right. exact (i_tr_e _ HI k a b v T' Hin).
  - apply HI.
  - intros k H E. destruct (Nat.eq_dec k i) as [->|Hki]; [rewrite updf_same in E; discriminate E|].
    rewrite Hoth in E by auto. exact (i_tr_r _ HI k H E).
Qed.

(* ------------------------------------------------------------------ D2: the dequeuer looks at its slot *)
Lemma resetting_dticket s H : resetting s = Some H -> dticket s = Some H.
Proof. destruct s; cbn; intros E; try discriminate; exact E. Qed.
Lemma pending_dticket s H : pending s = Some H -> dticket s = Some H.
Proof. destruct s; cbn; intros E; try discriminate; exact E. Qed.
Lemma nodup_fst_fun {A B} (l : list (A * B)) a b c : NoDup (map fst l) -> In (a, b) l -> In (a, c) l -> b = c.
Proof.
  induction l as [|[x y] l IH]; cbn; [tauto|]. intros Hnd [E1|H1] [E2|H2].
  - congruence.
  - inversion E1; subst. inversion Hnd as [|? ? Hni Hnd']; subst. exfalso. apply Hni. eapply in_fst; eauto.
  - inversion E2; subst. inversion Hnd as [|? ? Hni Hnd']; subst. exfalso. apply Hni. eapply in_fst; eauto.
  - inversion Hnd as [|? ? Hni Hnd']; subst. eauto.
Qed.

Lemma inv_do_D2 st i H : Inv st -> th st i = D2 H -> Inv (do_D2 n st i H).
Proof.
  intros HI Ht. own HI Ht i Hti. destruct Hti as (HH & Hp & Hc).
  unfold do_D2, slot, cyc_of.
  pose proof (mod_rng H) as Hj. set (j := H mod n) in *.
  assert (Hoth : forall s k, k <> i -> updf (th st) i s k = th st k) by (intros; now apply updf_other).
  assert (Hnr : forall k, resetting (th st k) = Some H -> False).
  { intros k Hk. destruct (Nat.eq_dec k i) as [->|Hki]; [rewrite Ht in Hk; discriminate Hk|].
    apply (i_ud _ HI i k H); auto; [rewrite Ht; reflexivity|now apply resetting_dticket]. }
  assert (Hnp : forall k, k <> i -> pending (th st k) = Some H -> False).
  { intros k Hki Hk. apply (i_ud _ HI i k H); auto; [rewrite Ht; reflexivity|now apply pending_dticket]. }
  destruct (cyc (ring st j) =? H / n) eqn:Ec; [apply Z.eqb_eq in Ec|apply Z.eqb_neq in Ec; destruct (cyc (ring st j) <? H / n) eqn:Ec2; [apply Z.ltb_lt in Ec2|apply Z.ltb_ge in Ec2]].
  - (* own cycle: take the value *)
    assert (Htk : cyc (ring st j) * n + j = H) by (rewrite Ec; apply tk_eq).
    assert (Hne : emp (ring st j) = false).
    { destruct (emp (ring st j)) eqn:Ee; [|reflexivity]. exfalso.
      destruct (i_s4 _ HI j Hj Ee) as [Hx|Hx].
      - rewrite Ec. apply div_ge1. lia.
      - rewrite Htk in Hx. contradiction.
      - rewrite Htk in Hx. contradiction. }
    assert (Hw : In (H, dat (ring st j)) (wlog st)).
    { destruct (i_s1 _ HI j Hj Hne) as [_ [[Hx _]|(k & Hk)]]; rewrite Htk in *; [exact Hx|exfalso; eauto]. }
    constructor; sred.
    + apply HI.
    + apply HI.
    + apply HI.
    + apply HI.
    + intros x [<-|Hx]; [exact Hw|exact (i_c_w _ HI x Hx)].
    + cbn [map fst]. constructor; [exact Hc|apply HI].
    + intros H' v [E|Hin]; [injection E as E1 _; rewrite <- E1; lia|exact (i_c_rng _ HI _ _ Hin)].
    + apply HI.
    + intros H' Hin. cbn [map fst]. intros [E|Hin']; [subst H'; contradiction|exact (i_p_c _ HI H' Hin Hin')].
    + intros k. destruct (Nat.eq_dec k i) as [->|Hk].
      * rewrite updf_same. cbn [tinv clog]. fold j. split; [now left|]. auto.
      * rewrite Hoth by auto. pose proof (i_t _ HI k) as Hk'.
        destruct (th st k) eqn:Ek; cbn [tinv] in *; sred; try exact Hk'.
        -- destruct Hk' as (H1 & H2 & H3). split; [exact H1|]. split; [exact H2|]. cbn [map fst]. intros [E|Hin]; [|auto].
           apply (Hnp k Hk). rewrite Ek. cbn. now rewrite E.
        -- destruct Hk' as (H1 & H2). split; [now right|exact H2].
        -- destruct Hk' as (H1 & H2). split; [now right|exact H2].
        -- destruct Hk' as (H1 & H2 & H3 & H4). split; [exact H1|]. split; [exact H2|]. split; [|exact H4].
           cbn [map fst]. intros [E|Hin]; [|auto]. apply (Hnp k Hk). rewrite Ek. cbn. now rewrite E.
    + intros a b T Hab. unfold updf. destruct (Nat.eqb_spec a i), (Nat.eqb_spec b i); intros E1 E2; try discriminate.
      exact (i_ue _ HI a b T Hab E1 E2).
    + intros a b H' Hab E1 E2.
      assert (Hd : forall k, dticket (updf (th st) i (D3a H (dat (ring st j))) k) = dticket (th st k)).
      { intros k. apply updf_pres. rewrite Ht. reflexivity. }
      rewrite Hd in E1, E2. exact (i_ud _ HI a b H' Hab E1 E2).
    + apply HI.
    + intros j' Hj' Ee. destruct (i_s1 _ HI j' Hj' Ee) as [H1 H2]. split; [exact H1|].
      destruct (Z.eq_dec (cyc (ring st j') * n + j') H) as [Etk|Etk].
      * right. exists i. rewrite updf_same. cbn. now rewrite Etk.
      * destruct H2 as [[H2 H3]|(k & Hk)].
        -- left. split; [exact H2|]. cbn [map fst]. intros [E|Hin]; [congruence|auto].
        -- right. exists k. destruct (Nat.eq_dec k i) as [->|Hki]; [rewrite Ht in Hk; discriminate Hk|now rewrite Hoth].
    + apply HI.
    + intros j' Hj' Ee Hc1. destruct (i_s4 _ HI j' Hj' Ee Hc1) as [Hx|Hx]; [now left|right; now right].
    + intros T v Hin. destruct (i_h _ HI T v Hin) as [Hx|Hx]; [left; now right|now right].
    + intros H' HH'. destruct (i_5 _ HI H' HH') as [H1|[H1|(k & Hk)]]; [now left|right; left; now right|].
      destruct (Nat.eq_dec k i) as [->|Hki].
      * rewrite Ht in Hk. cbn in Hk. inversion Hk; subst H'. right; left. now left.
      * right; right. exists k. now rewrite Hoth.
    + intros k a b H' v Hin. right. exact (i_tr_d _ HI k a b H' v Hin).
    + apply HI.
    + apply HI.
    + intros k H' E. destruct (Nat.eq_dec k i) as [->|Hki].
      * rewrite updf_same in E. cbn in E. inversion E; subst H'. intros Hin.
        apply deq_tickets_in in Hin as (i0 & a & b & v & Hin). apply (i_tr_d _ HI) in Hin. apply Hc. eapply in_fst; eauto.
      * rewrite Hoth in E by auto. exact (i_tr_r _ HI k H' E).
  - (* an older cycle: go and CAS *)
    goto_tac HI Ht. fold j. auto.
  - (* a newer cycle: nothing to take *)
    assert (Hgt : H / n < cyc (ring st j)) by lia.
    constructor; sred.
    + apply HI.
    + apply HI.
    + apply HI.
    + apply HI.
    + apply HI.
    + apply HI.
    + apply HI.
    + intros H' [<-|Hin]; [exact HH|exact (i_p_rng _ HI _ Hin)].
    + intros H' [<-|Hin]; [exact Hc|exact (i_p_c _ HI _ Hin)].
    + intros k. destruct (Nat.eq_dec k i) as [->|Hk].
      * rewrite updf_same. exact I.
      * rewrite Hoth by auto. pose proof (i_t _ HI k) as Hk'.
        destruct (th st k) as [|d'|d' T'|d' T' e'|d' T' e'|d' T'|d' T'|d' T'| | |H'|H' x|H' x|H' e'|H'|H'|oh|oh h|oh h tv|] eqn:Ek;
          cbn [tinv] in *; sred; try exact Hk'.
        -- destruct Hk' as (H1 & H2 & H3 & H4 & H5 & H7 & H8). repeat (split; [assumption|]).
           intros H0 [<-|Hin] Hm Hcy; [|eauto].
           fold j in Hm. rewrite <- Hm in *.
           destruct H7 as [H7|(_ & _ & H7)]; lia.
        -- destruct Hk' as (H1 & H2 & H3). split; [exact H1|]. split; [|exact H3].
           intros [E|Hin]; [|auto]. apply (Hnp k Hk). rewrite Ek. cbn. now rewrite E.
        -- destruct Hk' as (H1 & H2 & H3 & H4). split; [exact H1|]. split; [|split; assumption].
           intros [E|Hin]; [|auto]. apply (Hnp k Hk). rewrite Ek. cbn. now rewrite E.
    + intros a b T Hab. unfold updf. destruct (Nat.eqb_spec a i), (Nat.eqb_spec b i); intros E1 E2; try discriminate.
      exact (i_ue _ HI a b T Hab E1 E2).
    + intros a b H' Hab. unfold updf. destruct (Nat.eqb_spec a i), (Nat.eqb_spec b i); intros E1 E2; try discriminate.
      exact (i_ud _ HI a b H' Hab E1 E2).
    + apply HI.
    + intros j' Hj' Ee. destruct (i_s1 _ HI j' Hj' Ee) as [H1 H2]. split.
      * intros [E|Hin]; [|auto].
        assert (j' = j) by (unfold j; rewrite E; symmetry; now apply tk_mod). subst j'.
        assert (cyc (ring st j) = H / n) by (rewrite E; symmetry; now apply tk_div). lia.
      * destruct H2 as [H2|(k & Hk)]; [now left|right]. exists k.
        destruct (Nat.eq_dec k i) as [->|Hki]; [rewrite Ht in Hk; discriminate Hk|now rewrite Hoth].
    + intros j' H' Hj' Es [<-|Hin] Hm; [|eapply (i_s2 _ HI); eauto].
      fold j in Hm. subst j'. lia.
    + intros j' Hj' Ee Hc1. destruct (i_s4 _ HI j' Hj' Ee Hc1) as [Hx|Hx]; [left; now right|now right].
    + intros T v Hin. destruct (i_h _ HI T v Hin) as [Hx|(H1 & H2 & H3 & H4)]; [now left|right].
      repeat (split; [assumption|]). intros [E|Hin']; [|auto]. subst T. fold j in H2. lia.
    + intros H' HH'. destruct (i_5 _ HI H' HH') as [H1|[H1|(k & Hk)]]; [left; now right|right; now left|].
      destruct (Nat.eq_dec k i) as [->|Hki].
      * rewrite Ht in Hk. cbn in Hk. inversion Hk; subst H'. left. now left.
      * right; right. exists k. now rewrite Hoth.
    + apply HI.
    + apply HI.
    + apply HI.
    + intros k H' E. destruct (Nat.eq_dec k i) as [->|Hki]; [rewrite updf_same in E; discriminate E|].
      rewrite Hoth in E by auto. exact (i_tr_r _ HI k H' E).
Qed.

(* ------------------------------------------------------------------ D3a / D3b: resetNode *)
Lemma nodup_snoc {A} (l : list A) a : NoDup l -> ~ In a l -> NoDup (l ++ [a]).
Proof.
  induction l as [|x l IH]; cbn; intros Hnd Hn'; [constructor; [tauto|constructor]|].
  inversion Hnd as [|? ? Hx Hl]; subst. constructor.
  - intros Hin. apply in_app_or in Hin as [Hin|[E|[]]]; [contradiction|subst; apply Hn'; now left].
  - apply IH; auto.
Qed.

Lemma inv_do_D3a st i H x : Inv st -> th st i = D3a H x -> Inv (do_D3a n st i H x).
Proof.
  intros HI Ht. own HI Ht i Hti. destruct Hti as (Hcl & Hne & Hcy & Hda).
  unfold do_D3a, slot. pose proof (mod_rng H) as Hj. set (j := H mod n) in *.
  assert (Htk : cyc (ring st j) * n + j = H) by (rewrite Hcy; apply tk_eq).
  assert (Hoth : forall s k, k <> i -> updf (th st) i s k = th st k) by (intros; now apply updf_other).
  assert (Hres : forall k, resetting (updf (th st) i (D3b H x) k) = resetting (th st k)).
  { intros k. apply updf_pres. rewrite Ht. reflexivity. }
  assert (Hpen : forall k, pending (updf (th st) i (D3b H x) k) = pending (th st k)).
  { intros k. apply updf_pres. rewrite Ht. reflexivity. }
  assert (Hslot : forall k H', k <> i -> resetting (th st k) = Some H' -> H' mod n = j -> cyc (ring st j) = H' / n -> False).
  { intros k H' Hki Hk Hm Hc'. assert (H' = H) by (apply same_div_mod; [lia|exact Hm]). subst H'.
    apply (i_ud _ HI i k H); auto; [rewrite Ht; reflexivity|now apply resetting_dticket]. }
  constructor; sred.
  - apply HI.
  - apply HI.
  - apply HI.
  - apply HI.
  - apply HI.
  - apply HI.
  - apply HI.
  - apply HI.
  - apply HI.
  - intros k. destruct (Nat.eq_dec k i) as [->|Hk].
    + rewrite updf_same. cbn [tinv clog ring]. fold j. rewrite updr_same. cbn [emp cyc dat]. auto.
    + rewrite Hoth by auto. pose proof (i_t _ HI k) as Hk'.
      destruct (th st k) as [|d'|d' T'|d' T' e'|d' T' e'|d' T'|d' T'|d' T'| | |H'|H' x'|H' x'|H' e'|H'|H'|oh|oh h|oh h tv|] eqn:Ek;
        cbn [tinv] in *; sred; try exact Hk'.
      * destruct Hk' as (H1 & H2 & H3 & H4 & H5 & H6 & H7). repeat (split; [assumption|]).
        destruct (Z.eq_dec (T' mod n) j) as [Ej|Ej]; [|rewrite updr_other by auto; exact H7].
        rewrite Ej in *. rewrite updr_same. unfold same_flags in *. cbn [safe emp cyc]. exact H7.
      * destruct Hk' as (H1 & H2 & H3 & H4 & H5 & H7 & H8). repeat (split; [assumption|]).
        destruct (Z.eq_dec (T' mod n) j) as [Ej|Ej]; [|rewrite updr_other by auto; split; assumption].
        rewrite Ej in *. rewrite updr_same. unfold same_flags in *. cbn [safe emp cyc]. split; assumption.
      * destruct Hk' as (H1 & H2 & H3 & H4). split; [exact H1|].
        destruct (Z.eq_dec (H' mod n) j) as [Ej|Ej]; [|rewrite updr_other by auto; auto].
        exfalso. rewrite Ej in H3. apply (Hslot k H' Hk); auto. rewrite Ek. reflexivity.
      * destruct Hk' as (H1 & H2 & H3 & H4). split; [exact H1|].
        destruct (Z.eq_dec (H' mod n) j) as [Ej|Ej]; [|rewrite updr_other by auto; auto].
        exfalso. rewrite Ej in H3. apply (Hslot k H' Hk); auto. rewrite Ek. reflexivity.
  - intros a b T Hab. unfold updf. destruct (Nat.eqb_spec a i), (Nat.eqb_spec b i); intros E1 E2; try discriminate.
    exact (i_ue _ HI a b T Hab E1 E2).
  - intros a b H' Hab E1 E2.
    assert (Hd : forall k, dticket (updf (th st) i (D3b H x) k) = dticket (th st k)).
    { intros k. apply updf_pres. rewrite Ht. reflexivity. }
    rewrite Hd in E1, E2. exact (i_ud _ HI a b H' Hab E1 E2).
  - intros j' Hj'. destruct (Z.eq_dec j' j) as [->|Ej]; [rewrite updr_same; cbn [cyc]|rewrite updr_other by auto]; apply (i_s0 _ HI); auto.
  - intros j' Hj'. destruct (Z.eq_dec j' j) as [->|Ej].
    + rewrite !updr_same. cbn [emp cyc dat]. intros _. destruct (i_s1 _ HI j Hj Hne) as [H1 _]. split; [exact H1|].
      right. exists i. rewrite updf_same. cbn. now rewrite Htk.
    + rewrite !updr_other by auto. intros Ee. destruct (i_s1 _ HI j' Hj' Ee) as [H1 H2]. split; [exact H1|].
      destruct H2 as [H2|(k & Hk)]; [now left|right]. exists k. now rewrite Hres.
  - intros j' H' Hj'. destruct (Z.eq_dec j' j) as [->|Ej]; [rewrite updr_same; cbn [safe cyc]|rewrite updr_other by auto]; apply (i_s2 _ HI); auto.
  - intros j' Hj'. destruct (Z.eq_dec j' j) as [->|Ej]; [rewrite updr_same; cbn [emp cyc]; congruence|rewrite updr_other by auto; apply (i_s4 _ HI); auto].
  - intros T v Hin. destruct (i_h _ HI T v Hin) as [Hx|(H1 & H2 & H3 & H4)]; [now left|].
    destruct (Z.eq_dec (T mod n) j) as [Ej|Ej]; [|right; rewrite updr_other by auto; auto].
    left. rewrite Ej in *. assert (T = H) by (apply same_div_mod; [lia|exact Ej]). subst T.
    assert (Ev : v = x) by (eapply nodup_fst_fun; [apply (i_w_nd _ HI)|exact Hin|apply (i_c_w _ HI); exact Hcl]). rewrite Ev. exact Hcl.
  - intros H' HH'. destruct (i_5 _ HI H' HH') as [H1|[H1|(k & Hk)]]; auto.
    right; right. exists k. now rewrite Hpen.
  - apply HI.
  - apply HI.
  - apply HI.
  - intros k H' E. rewrite Hres in E. exact (i_tr_r _ HI k H' E).
Qed.

Lemma inv_do_D3b st i H x : Inv st -> th st i = D3b H x -> Inv (do_D3b n st i H x).
Proof.
  intros HI Ht. own HI Ht i Hti. destruct Hti as (Hcl & Hne & Hcy & Hda).
  unfold do_D3b, slot. pose proof (mod_rng H) as Hj. set (j := H mod n) in *.
  assert (Htk : cyc (ring st j) * n + j = H) by (rewrite Hcy; apply tk_eq).
  assert (Hoth : forall s k, k <> i -> updf (th st) i s k = th st k) by (intros; now apply updf_other).
  assert (Hslot : forall k H', k <> i -> resetting (th st k) = Some H' -> H' mod n = j -> cyc (ring st j) = H' / n -> False).
  { intros k H' Hki Hk Hm Hc'. assert (H' = H) by (apply same_div_mod; [lia|exact Hm]). subst H'.
    apply (i_ud _ HI i k H); auto; [rewrite Ht; reflexivity|now apply resetting_dticket]. }
  assert (Hpen : forall k, pending (updf (th st) i Idle k) = pending (th st k)).
  { intros k. apply updf_pres. rewrite Ht. reflexivity. }
  constructor; sred.
  - apply HI.
  - apply HI.
  - apply HI.
  - apply HI.
  - apply HI.
  - apply HI.
  - apply HI.
  - apply HI.
  - apply HI.
  - intros k. destruct (Nat.eq_dec k i) as [->|Hk].
    + rewrite updf_same. exact I.
    + rewrite Hoth by auto. pose proof (i_t _ HI k) as Hk'.
      destruct (th st k) as [|d'|d' T'|d' T' e'|d' T' e'|d' T'|d' T'|d' T'| | |H'|H' x'|H' x'|H' e'|H'|H'|oh|oh h|oh h tv|] eqn:Ek;
        cbn [tinv] in *; sred; try exact Hk'.
      * destruct Hk' as (H1 & H2 & H3 & H4 & H5 & H6 & H7). repeat (split; [assumption|]).
        destruct (Z.eq_dec (T' mod n) j) as [Ej|Ej]; [|rewrite updr_other by auto; exact H7].
        rewrite Ej in *. rewrite updr_same. cbn [cyc]. left.
        destruct H7 as [H7|(_ & H7 & _)]; [exact H7|congruence].
      * destruct Hk' as (H1 & H2 & H3 & H4 & H5 & H7 & H8). repeat (split; [assumption|]).
        destruct (Z.eq_dec (T' mod n) j) as [Ej|Ej]; [|rewrite updr_other by auto; split; assumption].
        rewrite Ej in *. rewrite updr_same. cbn [cyc]. split; [|exact H8]. left.
        destruct H7 as [H7|(_ & H7 & _)]; [exact H7|congruence].
      * destruct Hk' as (H1 & H2 & H3 & H4). split; [exact H1|].
        destruct (Z.eq_dec (H' mod n) j) as [Ej|Ej]; [|rewrite updr_other by auto; auto].
        exfalso. rewrite Ej in H3. apply (Hslot k H' Hk); auto. rewrite Ek. reflexivity.
      * destruct Hk' as (H1 & H2 & H3 & H4). split; [exact H1|].
        destruct (Z.eq_dec (H' mod n) j) as [Ej|Ej]; [|rewrite updr_other by auto; auto].
        exfalso. rewrite Ej in H3. apply (Hslot k H' Hk); auto. rewrite Ek. reflexivity.
  - intros a b T Hab. unfold updf. destruct (Nat.eqb_spec a i), (Nat.eqb_spec b i); intros E1 E2; try discriminate.
    exact (i_ue _ HI a b T Hab E1 E2).
  - intros a b H' Hab. unfold updf. destruct (Nat.eqb_spec a i), (Nat.eqb_spec b i); intros E1 E2; try discriminate.
    exact (i_ud _ HI a b H' Hab E1 E2).
  - intros j' Hj'. destruct (Z.eq_dec j' j) as [->|Ej]; [rewrite updr_same; cbn [cyc]|rewrite updr_other by auto]; apply (i_s0 _ HI); auto.
  - intros j' Hj'. destruct (Z.eq_dec j' j) as [->|Ej].
    + rewrite !updr_same. cbn [emp]. discriminate.
    + rewrite !updr_other by auto. intros Ee. destruct (i_s1 _ HI j' Hj' Ee) as [H1 H2]. split; [exact H1|].
      destruct H2 as [H2|(k & Hk)]; [now left|right]. exists k.
      destruct (Nat.eq_dec k i) as [->|Hki]; [|now rewrite Hoth].
      exfalso. rewrite Ht in Hk. cbn in Hk. inversion Hk as [Hk'].
      apply Ej. rewrite <- (tk_mod (cyc (ring st j')) j' Hj'). rewrite <- Hk'. reflexivity.
  - intros j' H' Hj'. destruct (Z.eq_dec j' j) as [->|Ej]; [rewrite updr_same; cbn [safe cyc]|rewrite updr_other by auto]; apply (i_s2 _ HI); auto.
  - intros j' Hj'. destruct (Z.eq_dec j' j) as [->|Ej]; [|rewrite updr_other by auto; apply (i_s4 _ HI); auto].
    rewrite updr_same. cbn [emp cyc]. intros _ _. right. rewrite Htk. eapply in_fst; eauto.
  - intros T v Hin. destruct (i_h _ HI T v Hin) as [Hx|(H1 & H2 & H3 & H4)]; [now left|].
    destruct (Z.eq_dec (T mod n) j) as [Ej|Ej]; [|right; rewrite updr_other by auto; auto].
    left. rewrite Ej in *. assert (T = H) by (apply same_div_mod; [lia|exact Ej]). subst T.
    assert (Ev : v = x) by (eapply nodup_fst_fun; [apply (i_w_nd _ HI)|exact Hin|apply (i_c_w _ HI); exact Hcl]). rewrite Ev. exact Hcl.
  - intros H' HH'. destruct (i_5 _ HI H' HH') as [H1|[H1|(k & Hk)]]; auto.
    right; right. exists k. now rewrite Hpen.
  - intros k a b H' v Hin. apply in_app_or in Hin as [Hin|[E|[]]]; [exact (i_tr_d _ HI k a b H' v Hin)|].
    injection E as _ _ _ E1 E2. rewrite <- E1, <- E2. exact Hcl.
  - intros k a b v T Hin. apply in_app_or in Hin as [Hin|[E|[]]]; [exact (i_tr_e _ HI k a b v T Hin)|discriminate E].
  - rewrite deq_tickets_app. cbn [deq_tickets]. apply nodup_snoc; [apply HI|].
    apply (i_tr_r _ HI i H). rewrite Ht. reflexivity.
  - intros k H' E. destruct (Nat.eq_dec k i) as [->|Hki]; [rewrite updf_same in E; discriminate E|].
    rewrite Hoth in E by auto. rewrite deq_tickets_app. cbn [deq_tickets]. intros Hin.
    apply in_app_or in Hin as [Hin|[E'|[]]]; [exact (i_tr_r _ HI k H' E Hin)|].
    subst H'. apply (i_ud _ HI i k H); auto; [rewrite Ht; reflexivity|now apply resetting_dticket].
Qed.

(* ------------------------------------------------------------------ D4: the dequeuer's CAS on an older cycle *)
Lemma inv_do_D4 st i H e : Inv st -> th st i = D4 H e -> Inv (do_D4 n st i H e).
Proof.
  intros HI Ht. own HI Ht i Hti. destruct Hti as (HH & Hp & Hc & Hce).
  unfold do_D4, slot, cyc_of. destruct (entry_eqb (ring st (H mod n)) e) eqn:Eq.
  2:{ goto_tac HI Ht. auto. }
  apply entry_eqb_eq in Eq.
  pose proof (mod_rng H) as Hj. set (j := H mod n) in *.
  assert (Hoth : forall s k, k <> i -> updf (th st) i s k = th st k) by (intros; now apply updf_other).
  assert (Hnp : forall k, k <> i -> pending (th st k) = Some H -> False).
  { intros k Hki Hk. apply (i_ud _ HI i k H); auto; [rewrite Ht; reflexivity|now apply pending_dticket]. }
  assert (Hue : forall a b T, a <> b -> eticket (updf (th st) i (D5 H) a) = Some T -> eticket (updf (th st) i (D5 H) b) = Some T -> False).
  { intros a b T Hab. unfold updf. destruct (Nat.eqb_spec a i), (Nat.eqb_spec b i); intros E1 E2; try discriminate.
    exact (i_ue _ HI a b T Hab E1 E2). }
  assert (Hud : forall a b T, a <> b -> dticket (updf (th st) i (D5 H) a) = Some T -> dticket (updf (th st) i (D5 H) b) = Some T -> False).
  { intros a b T Hab. unfold updf. destruct (Nat.eqb_spec a i), (Nat.eqb_spec b i); intros E1 E2; try discriminate.
    exact (i_ud _ HI a b T Hab E1 E2). }
  assert (H5 : forall H', n <= H' < hd st -> In H' (H :: plog st) \/ In H' (map fst (clog st)) \/
                 exists k, pending (updf (th st) i (D5 H) k) = Some H').
  { intros H' HH'. destruct (i_5 _ HI H' HH') as [H1|[H1|(k & Hk)]]; [left; now right|right; now left|].
    destruct (Nat.eq_dec k i) as [->|Hki].
    - rewrite Ht in Hk. cbn in Hk. inversion Hk; subst H'. left. now left.
    - right; right. exists k. now rewrite Hoth. }
  assert (Hrr : forall k H', resetting (updf (th st) i (D5 H) k) = Some H' -> ~ In H' (deq_tickets (trace st))).
  { intros k H' E. destruct (Nat.eq_dec k i) as [->|Hki]; [rewrite updf_same in E; discriminate E|].
    rewrite Hoth in E by auto. exact (i_tr_r _ HI k H' E). }
  assert (Hwit : forall T, (exists k, resetting (th st k) = Some T) -> exists k, resetting (updf (th st) i (D5 H) k) = Some T).
  { intros T (k & Hk). exists k. destruct (Nat.eq_dec k i) as [->|Hki]; [rewrite Ht in Hk; discriminate Hk|now rewrite Hoth]. }
  destruct (emp e) eqn:Ee.
  - (* empty: advance the cycle *)
    constructor; sred.
    + apply HI.
    + apply HI.
    + apply HI.
    + apply HI.
    + apply HI.
    + apply HI.
    + apply HI.
    + intros H' [<-|Hin]; [exact HH|exact (i_p_rng _ HI _ Hin)].
    + intros H' [<-|Hin]; [exact Hc|exact (i_p_c _ HI _ Hin)].
    + intros k. destruct (Nat.eq_dec k i) as [->|Hk].
      * rewrite updf_same. exact I.
      * rewrite Hoth by auto. pose proof (i_t _ HI k) as Hk'.
        destruct (th st k) as [|d'|d' T'|d' T' e'|d' T' e'|d' T'|d' T'|d' T'| | |H'|H' x'|H' x'|H' e'|H'|H'|oh|oh h|oh h tv|] eqn:Ek;
          cbn [tinv] in *; sred; try exact Hk'.
        -- destruct Hk' as (H1 & H2 & H3 & H4 & H6 & H7 & H8). repeat (split; [assumption|]).
           destruct (Z.eq_dec (T' mod n) j) as [Ej|Ej]; [|rewrite updr_other by auto; exact H8].
           rewrite Ej in *. rewrite updr_same. cbn [cyc]. left. rewrite Eq in H8.
           destruct H8 as [H8|(_ & _ & H8)]; lia.
        -- destruct Hk' as (H1 & H2 & H3 & H4 & H6 & H8 & H9). repeat (split; [assumption|]).
           destruct (Z.eq_dec (T' mod n) j) as [Ej|Ej].
           ++ rewrite Ej in *. rewrite updr_same. cbn [cyc]. rewrite Eq in H8.
              assert (cyc e' < H / n) by (destruct H8 as [H8|(_ & _ & H8)]; lia). split; [now left|]. intros; assumption.
           ++ rewrite updr_other by auto. split; [exact H8|]. intros H0 [<-|Hin] Hm Hcy; [exfalso; apply Ej; symmetry; exact Hm|eauto].
        -- destruct Hk' as (H1 & H2 & H3). split; [exact H1|]. split; [|exact H3].
           intros [E|Hin]; [|auto]. apply (Hnp k Hk). rewrite Ek. cbn. now rewrite E.
        -- destruct Hk' as (H1 & H2 & H3 & H4). split; [exact H1|].
           destruct (Z.eq_dec (H' mod n) j) as [Ej|Ej]; [rewrite Ej, Eq in H2; congruence|].
           rewrite updr_other by auto. auto.
        -- destruct Hk' as (H1 & H2 & H3 & H4). split; [exact H1|].
           destruct (Z.eq_dec (H' mod n) j) as [Ej|Ej]; [rewrite Ej, Eq in H2; congruence|].
           rewrite updr_other by auto. auto.
        -- destruct Hk' as (H1 & H2 & H3 & H4). split; [exact H1|]. split; [|split; assumption].
           intros [E|Hin]; [|auto]. apply (Hnp k Hk). rewrite Ek. cbn. now rewrite E.
    + exact Hue.
    + exact Hud.
    + intros j' Hj'. destruct (Z.eq_dec j' j) as [->|Ej]; [rewrite updr_same; cbn [cyc]; pose proof (div_ge1 H); lia|rewrite updr_other by auto; apply (i_s0 _ HI); auto].
    + intros j' Hj'. destruct (Z.eq_dec j' j) as [->|Ej]; [rewrite !updr_same; cbn [emp]; discriminate|].
      rewrite !updr_other by auto. intros Ee'. destruct (i_s1 _ HI j' Hj' Ee') as [H1 H2]. split.
      * intros [E|Hin]; [|auto]. apply Ej. unfold j. rewrite E. symmetry. now apply tk_mod.
      * destruct H2 as [H2|H2]; [now left|right; now apply Hwit].
    + intros j' H' Hj'. destruct (Z.eq_dec j' j) as [->|Ej].
      * rewrite updr_same. cbn [safe cyc]. intros Es [<-|Hin] Hm; [lia|].
        rewrite <- Eq in Es. pose proof (i_s2 _ HI j H' Hj Es Hin Hm) as Hle. rewrite Eq in Hle. lia.
      * rewrite updr_other by auto. intros Es [<-|Hin] Hm; [exfalso; apply Ej; symmetry; exact Hm|eapply (i_s2 _ HI); eauto].
    + intros j' Hj'. destruct (Z.eq_dec j' j) as [->|Ej].
      * rewrite updr_same. cbn [emp cyc]. intros _ _. left. left. unfold j. symmetry. apply tk_eq.
      * rewrite updr_other by auto. intros E1 E2. destruct (i_s4 _ HI j' Hj' E1 E2) as [Hx|Hx]; [left; now right|now right].
    + intros T v Hin. destruct (i_h _ HI T v Hin) as [Hx|(H1 & H2 & H3 & H4)]; [now left|right].
      destruct (Z.eq_dec (T mod n) j) as [Ej|Ej]; [rewrite Ej, Eq in H1; congruence|].
      rewrite updr_other by auto. repeat (split; [assumption|]). intros [E|Hin']; [|auto]. subst T. contradiction.
    + exact H5.
    + apply HI.
    + apply HI.
    + apply HI.
    + exact Hrr.
  - (* occupied by an older cycle: mark it unsafe *)
    assert (Hne : emp (ring st j) = false) by (rewrite Eq; exact Ee).
    constructor; sred.
    + apply HI.
    + apply HI.
    + apply HI.
    + apply HI.
    + apply HI.
    + apply HI.
    + apply HI.
    + intros H' [<-|Hin]; [exact HH|exact (i_p_rng _ HI _ Hin)].
    + intros H' [<-|Hin]; [exact Hc|exact (i_p_c _ HI _ Hin)].
    + intros k. destruct (Nat.eq_dec k i) as [->|Hk].
      * rewrite updf_same. exact I.
      * rewrite Hoth by auto. pose proof (i_t _ HI k) as Hk'.
        destruct (th st k) as [|d'|d' T'|d' T' e'|d' T' e'|d' T'|d' T'|d' T'| | |H'|H' x'|H' x'|H' e'|H'|H'|oh|oh h|oh h tv|] eqn:Ek;
          cbn [tinv] in *; sred; try exact Hk'.
        -- destruct Hk' as (H1 & H2 & H3 & H4 & H6 & H7 & H8). repeat (split; [assumption|]).
           destruct (Z.eq_dec (T' mod n) j) as [Ej|Ej]; [|rewrite updr_other by auto; exact H8].
           rewrite Ej in *. rewrite updr_same. cbn [cyc]. left. rewrite Eq in H8.
           destruct H8 as [H8|(_ & H8 & _)]; [exact H8|congruence].
        -- destruct Hk' as (H1 & H2 & H3 & H4 & H6 & H8 & H9). repeat (split; [assumption|]).
           destruct (Z.eq_dec (T' mod n) j) as [Ej|Ej].
           ++ rewrite Ej in *. rewrite updr_same. cbn [cyc]. rewrite Eq in H8.
              assert (cyc e' < cyc e) by (destruct H8 as [H8|(_ & H8 & _)]; [exact H8|congruence]).
              split; [now left|]. intros; assumption.
           ++ rewrite updr_other by auto. split; [exact H8|]. intros H0 [<-|Hin] Hm Hcy; [exfalso; apply Ej; symmetry; exact Hm|eauto].
        -- destruct Hk' as (H1 & H2 & H3). split; [exact H1|]. split; [|exact H3].
           intros [E|Hin]; [|auto]. apply (Hnp k Hk). rewrite Ek. cbn. now rewrite E.
        -- destruct Hk' as (H1 & H2 & H3 & H4). split; [exact H1|].
           destruct (Z.eq_dec (H' mod n) j) as [Ej|Ej]; [|rewrite updr_other by auto; auto].
           rewrite Ej in *. rewrite updr_same. cbn [emp cyc dat]. rewrite Eq in *. auto.
        -- destruct Hk' as (H1 & H2 & H3 & H4). split; [exact H1|].
           destruct (Z.eq_dec (H' mod n) j) as [Ej|Ej]; [|rewrite updr_other by auto; auto].
           rewrite Ej in *. rewrite updr_same. cbn [emp cyc dat]. rewrite Eq in *. auto.
        -- destruct Hk' as (H1 & H2 & H3 & H4). split; [exact H1|]. split; [|split; assumption].
           intros [E|Hin]; [|auto]. apply (Hnp k Hk). rewrite Ek. cbn. now rewrite E.
    + exact Hue.
    + exact Hud.
    + intros j' Hj'. destruct (Z.eq_dec j' j) as [->|Ej]; [rewrite updr_same; cbn [cyc]; rewrite <- Eq|rewrite updr_other by auto]; apply (i_s0 _ HI); auto.
    + intros j' Hj'. destruct (Z.eq_dec j' j) as [->|Ej].
      * rewrite !updr_same. cbn [emp cyc dat]. intros _. destruct (i_s1 _ HI j Hj Hne) as [H1 H2]. rewrite Eq in H1, H2. split.
        -- intros [E|Hin]; [|auto]. assert (cyc e = H / n) by (rewrite E; symmetry; now apply tk_div). lia.
        -- destruct H2 as [H2|H2]; [now left|right; now apply Hwit].
      * rewrite !updr_other by auto. intros Ee'. destruct (i_s1 _ HI j' Hj' Ee') as [H1 H2]. split.
        -- intros [E|Hin]; [|auto]. apply Ej. unfold j. rewrite E. symmetry. now apply tk_mod.
        -- destruct H2 as [H2|H2]; [now left|right; now apply Hwit].
    + intros j' H' Hj'. destruct (Z.eq_dec j' j) as [->|Ej].
      * rewrite updr_same. cbn [safe]. discriminate.
      * rewrite updr_other by auto. intros Es [<-|Hin] Hm; [exfalso; apply Ej; symmetry; exact Hm|eapply (i_s2 _ HI); eauto].
    + intros j' Hj'. destruct (Z.eq_dec j' j) as [->|Ej].
      * rewrite updr_same. cbn [emp]. discriminate.
      * rewrite updr_other by auto. intros E1 E2. destruct (i_s4 _ HI j' Hj' E1 E2) as [Hx|Hx]; [left; now right|now right].
    + intros T v Hin. destruct (i_h _ HI T v Hin) as [Hx|(H1 & H2 & H3 & H4)]; [now left|right].
      destruct (Z.eq_dec (T mod n) j) as [Ej|Ej].
      * rewrite Ej in *. rewrite updr_same. cbn [emp cyc dat]. rewrite Eq in *. split; [reflexivity|]. repeat (split; [assumption|]).
        intros [E|Hin']; [|auto]. subst T. lia.
      * rewrite updr_other by auto. repeat (split; [assumption|]). intros [E|Hin']; [|auto]. subst T. contradiction.
    + exact H5.
    + apply HI.
    + apply HI.
    + apply HI.
    + exact Hrr.
Qed.

(* ------------------------------------------------------------------ every step, every schedule *)
Lemma inv_tstep st i : Inv st -> Inv (tstep n st i).
Proof.
  intros HI. unfold tstep. destruct (th st i) eqn:Ht.
  - exact HI.
  - now apply inv_do_E1.
  - now apply inv_do_E2.
  - now apply inv_do_E3.
  - now apply inv_do_E4.
  - now apply inv_do_E5.
  - now apply inv_do_E6.
  - now apply inv_do_E7.
  - now apply inv_do_D0.
  - now apply inv_do_D1.
  - now apply inv_do_D2.
  - now apply inv_do_D3a.
  - now apply inv_do_D3b.
  - now apply inv_do_D4.
  - now apply inv_do_D5.
  - now apply inv_do_D7.
  - now apply inv_do_F1.
  - now apply inv_do_F2.
  - now apply inv_do_F3.
  - now apply inv_do_F4.
Qed.

Lemma inv_step st l : Inv st -> Inv (step n st l).
Proof.
  intros HI. unfold step. apply inv_tick. destruct l as [i v|i|i| |]; cbn [step0]; [| | | |now apply inv_set_thr].
  - destruct (th st i) eqn:Ht; try exact HI. apply inv_invoke; auto. exact I.
  - destruct (th st i) eqn:Ht; try exact HI. apply inv_invoke; auto. exact I.
  - now apply inv_tstep.
  - now apply inv_set_closed.
Qed.

Theorem inv_run sched : forall st, Inv st -> Inv (run n st sched).
Proof.
  induction sched as [|l sched IH]; intros st HI; [exact HI|].
  cbn [run fold_left]. apply IH. now apply inv_step.
Qed.

Theorem inv_reach sched : Inv (run n (init n) sched).
Proof. apply inv_run. apply inv_init. Qed.

End Inv.
