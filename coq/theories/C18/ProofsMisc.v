(* C18 proofs, part 3: Orderly and ReduceChan. *)
From VF Require Import C18.Stage C18.Rel C18.Proofs.

Section PM.
Context {T : Type}.

(* ================================= Orderly ================================= *)
Definition log_lab (l : label T) : list (nat * bool) :=
  match l with spawn i => [(i, true)] | exit i => [(i, false)] | _ => [] end.
Definition log_of (tr : list (label T)) : list (nat * bool) := flat_map log_lab tr.

Lemma log_snoc tr l : log_of (tr ++ [l]) = log_of tr ++ log_lab l.
Proof. unfold log_of. rewrite flat_map_app. cbn [flat_map]. now rewrite app_nil_r. Qed.

Lemma expected_S i : orderly_expected (S i) = orderly_expected i ++ [(i, true); (i, false)].
Proof. unfold orderly_expected. rewrite seq_S, flat_map_app. cbn [flat_map Nat.add]. now rewrite app_nil_r. Qed.

Lemma expected_split i n : i <= n -> exists r, orderly_expected n = orderly_expected i ++ r.
Proof.
  intros H. unfold orderly_expected. replace n with (i + (n - i)) by lia. rewrite seq_app, flat_map_app.
  eexists. reflexivity.
Qed.

(* task i+1 is started only after task i has finished *)
Definition ordered (tr : list (label T)) : Prop :=
  forall t1 t2 i, tr = t1 ++ spawn (S i) :: t2 -> In (exit i) t1.

Lemma snoc_split {A} (t1 t2 tr : list A) a b :
  t1 ++ a :: t2 = tr ++ [b] -> (t2 = [] /\ t1 = tr /\ a = b) \/ (exists t2', t2 = t2' ++ [b] /\ tr = t1 ++ a :: t2').
Proof.
  intros H. destruct t2 as [|c t2 _] using rev_ind.
  - left. change (t1 ++ [a] = tr ++ [b]) in H. apply app_inj_tail in H as [-> ->]. auto.
  - right. exists t2. replace (t1 ++ a :: t2 ++ [c]) with ((t1 ++ a :: t2) ++ [c]) in H by (now rewrite <- app_assoc).
    apply app_inj_tail in H as [<- ->]. auto.
Qed.

Section Orderly.
Variable n : nat.

Definition YInv (tr : list (label T)) (s : ypc) : Prop :=
  ordered tr /\
  match s with
  | YRun i => i <= n /\ log_of tr = orderly_expected i /\ forall k, k < i -> In (exit k) tr
  | YWait i => i < n /\ log_of tr = orderly_expected i ++ [(i, true)] /\ forall k, k < i -> In (exit k) tr
  | YRet => log_of tr = orderly_expected n
  end.

Lemma ordered_keep tr l : (forall i, l <> spawn (S i)) -> ordered tr -> ordered (tr ++ [l]).
Proof.
  intros Hl Ho t1 t2 i E. symmetry in E. apply snoc_split in E as [(_ & _ & E)|(t2' & _ & E)].
  - exfalso. eapply Hl. symmetry. exact E.
  - eapply Ho. exact E.
Qed.

Lemma orderly_step_inv tr s l s' : YInv tr s -> orderly_step n s l = Some s' -> YInv (tr ++ [l]) s'.
Proof.
  intros [Ho I] St. destruct s as [i|i|]; cbn [orderly_step] in St.
  - destruct I as (Hi & Hl & He).
    destruct l as [a w|a|j w| |j|id|id|]; try discriminate.
    + (* spawn *)
      destruct ((i <? n) && Nat.eqb i id) eqn:E; [|discriminate]. apply andb_true_iff in E as [E1 E2].
      apply Nat.ltb_lt in E1. apply Nat.eqb_eq in E2. subst id. inversion St; subst s'. split.
      * intros t1 t2 k E. symmetry in E. apply snoc_split in E as [(_ & -> & E)|(t2' & _ & E)].
        -- inversion E; subst i. apply He. lia.
        -- eapply Ho. exact E.
      * cbn [YInv]. split; [exact E1|]. split; [rewrite log_snoc, Hl; reflexivity|].
        intros k Hk. apply in_or_app. left. now apply He.
    + (* return *)
      destruct (i <? n) eqn:E; [discriminate|]. apply Nat.ltb_ge in E. inversion St; subst s'. split.
      * apply ordered_keep; [discriminate|exact Ho].
      * cbn [YInv]. rewrite log_snoc. cbn [log_lab]. rewrite app_nil_r. now replace n with i by lia.
  - destruct I as (Hi & Hl & He).
    destruct l as [a w|a|j w| |j|id|id|]; try discriminate.
    destruct (Nat.eqb i id) eqn:E; [|discriminate]. apply Nat.eqb_eq in E. subst id. inversion St; subst s'. split.
    + apply ordered_keep; [discriminate|exact Ho].
    + cbn [YInv]. split; [lia|]. split.
      * rewrite log_snoc, Hl, expected_S. cbn [log_lab]. now rewrite <- app_assoc.
      * intros k Hk. apply in_or_app. destruct (Nat.eq_dec k i) as [->|Ne]; [right; now left|left; apply He; lia].
  - destruct l; discriminate.
Qed.

Lemma orderly_inv : forall tr s, run (orderly_step n) (YRun 0) tr = Some s -> YInv tr s.
Proof.
  induction tr as [|l tr IH] using rev_ind; intros s H.
  - cbn [run] in H. inversion H; subst. split.
    + intros t1 t2 i E. destruct t1; discriminate.
    + cbn. split; [lia|]. split; [reflexivity|]. intros k Hk. lia.
  - rewrite run_snoc in H. destruct (run (orderly_step n) (YRun 0) tr) as [s1|] eqn:R; [|discriminate].
    eapply orderly_step_inv; [apply IH; reflexivity|exact H].
Qed.

Definition returned (s : ypc) : bool := match s with YRet => true | _ => false end.

Theorem orderly_safe (tr : list (label T)) s :
  run (orderly_step n) (YRun 0) tr = Some s -> orderly_rel n (log_of tr) (returned s).
Proof.
  intros H. apply orderly_inv in H. destruct H as [_ I]. unfold orderly_rel.
  destruct s as [i|i|]; cbn [YInv returned] in *.
  - destruct I as (Hi & Hl & _). rewrite Hl. split; [apply expected_split; exact Hi|discriminate].
  - destruct I as (Hi & Hl & _). rewrite Hl. split; [|discriminate].
    destruct (expected_split (S i) n Hi) as [r Hr]. rewrite expected_S in Hr.
    exists ((i, false) :: r). rewrite Hr. rewrite <- !app_assoc. reflexivity.
  - rewrite I. split; [exists []; now rewrite app_nil_r|reflexivity].
Qed.

Theorem orderly_after (tr : list (label T)) s :
  run (orderly_step n) (YRun 0) tr = Some s ->
  forall t1 t2 i, tr = t1 ++ spawn (S i) :: t2 -> In (exit i) t1.
Proof. intros H. apply orderly_inv in H. now destruct H. Qed.

End Orderly.

Lemma evprefix_b_ok : forall a b, evprefix_b a b = true <-> exists r, b = a ++ r.
Proof.
  induction a as [|x a IH]; intros b; cbn [evprefix_b].
  - split; [intros _; now exists b|reflexivity].
  - destruct b as [|y b].
    + split; [discriminate|]. intros [r H]. discriminate.
    + rewrite andb_true_iff, IH. unfold ev_eqb. rewrite andb_true_iff, Nat.eqb_eq, Bool.eqb_true_iff. split.
      * intros [[E1 E2] [r ->]]. exists r. destruct x, y. cbn [fst snd] in *. now subst.
      * intros [r H]. cbn [app] in H. inversion H; subst. split; [auto|now exists r].
Qed.

Lemma ev_eqb_ok a b : ev_eqb a b = true <-> a = b.
Proof.
  unfold ev_eqb. rewrite andb_true_iff, Nat.eqb_eq, Bool.eqb_true_iff. destruct a, b. cbn [fst snd].
  split; [intros [-> ->]; reflexivity|intros E; inversion E; auto].
Qed.

Theorem orderly_rel_b_ok n log ret : orderly_rel_b n log ret = true <-> orderly_rel n log ret.
Proof.
  unfold orderly_rel_b, orderly_rel. rewrite andb_true_iff, evprefix_b_ok. split.
  - intros [H1 H2]. split; [exact H1|]. intros ->. cbn [negb orb] in H2. now apply (list_eqb_eq ev_eqb ev_eqb_ok).
  - intros [H1 H2]. split; [exact H1|]. destruct ret; [|reflexivity]. cbn [negb orb].
    apply (list_eqb_eq ev_eqb ev_eqb_ok). now apply H2.
Qed.

(* ================================= ReduceChan ================================= *)
Section Reduce.
Variable zero : T.
Variable fn : T -> T -> T.
Variable nil_in : bool.

Definition RInv (tr : list (label T)) (s : rpc T) : Prop :=
  match s with
  | RFirst => ins_of 0 tr = []
  | RLoop acc => ins_of 0 tr <> [] /\ acc = reduce_spec zero fn (ins_of 0 tr)
  | RRet r => r = reduce_spec zero fn (ins_of 0 tr)
  end.

Lemma reduce_snoc xs v : xs <> [] -> reduce_spec zero fn (xs ++ [v]) = fn (reduce_spec zero fn xs) v.
Proof. destruct xs as [|x r]; [congruence|]. intros _. cbn [app reduce_spec]. now rewrite fold_left_app. Qed.

Lemma reduce_step_inv tr s l s' : RInv tr s -> reduce_step zero fn s l = Some s' -> RInv (tr ++ [l]) s'.
Proof.
  intros I St. destruct s as [|acc|r]; cbn [RInv] in I.
  - destruct l as [i w|i|j w| |j|id|id|]; cbn [reduce_step] in St; try discriminate;
      (destruct i; [|discriminate]); inversion St; subst s'; cbn [RInv]; rewrite ins_snoc, I; cbn [in_lab Nat.eqb app].
    + split; [discriminate|reflexivity].
    + reflexivity.
  - destruct I as [Hne ->].
    destruct l as [i w|i|j w| |j|id|id|]; cbn [reduce_step] in St; try discriminate;
      (destruct i; [|discriminate]); inversion St; subst s'; cbn [RInv]; rewrite ins_snoc; cbn [in_lab Nat.eqb].
    + split; [destruct (ins_of 0 tr); [congruence|discriminate]|]. now rewrite reduce_snoc.
    + now rewrite app_nil_r.
  - destruct l; discriminate.
Qed.

Theorem reduce_ok : forall tr s,
  run (reduce_step zero fn) (reduce_init zero nil_in) tr = Some s -> RInv tr s.
Proof.
  induction tr as [|l tr IH] using rev_ind; intros s H.
  - cbn [run] in H. inversion H; subst. unfold reduce_init. destruct nil_in; reflexivity.
  - rewrite run_snoc in H. destruct (run (reduce_step zero fn) (reduce_init zero nil_in) tr) as [s1|] eqn:R; [|discriminate].
    eapply reduce_step_inv; [apply IH; reflexivity|exact H].
Qed.

(* ReduceChan = fold_left over the received sequence (zero value for a nil or empty input) *)
Theorem reduce_fold tr r :
  run (reduce_step zero fn) (reduce_init zero nil_in) tr = Some (RRet r) ->
  r = match ins_of 0 tr with [] => zero | x :: rest => fold_left fn rest x end.
Proof. intros H. apply reduce_ok in H. exact H. Qed.

End Reduce.

End PM.
