(* C18 model: every goroutine of app/bconcurrent as an executable labelled transition system.
   A state is a program counter plus the loop variables; [step s l = Some s'] says that label [l] is enabled
   in [s] and leads to [s'].  A Go [select] is the set of enabled labels of the state (any of them may fire);
   the environment (producers, consumers, the owner of the context) is unconstrained: whatever label is
   enabled may happen next, a receive may deliver any value.  NO proofs in this file.

   Channel indices: [recv i v] = a value taken from input channel [i], [send j v] = a value handed to output
   channel [j].  Single-input / single-output combinators use index 0.

   Anchors (worktree app/bconcurrent):
     stream.go     Stream, TaskN, TaskFn, TaskWhile, SkipN, SkipFn, SkipWhile  (ctx-aware, unbuffered out)
     pipeline.go   Pipeline   (no ctx, out buffered 1, [for v := range in])
     map_reduce.go MapChan    (no ctx, out buffered 1, nil input: closed output, no goroutine), ReduceChan
     fan_in.go     FanInRec (reflect.Select, case removed on close), MergeChannel (nil-ing the closed side)
     fan_out.go    FanOut (sync: sends in output order; async: one goroutine per send, WaitGroup before close)
     orderly.go    Orderly (Do = Add(1) + go; Wait) *)
From VF Require Export Common.Base.

Section Stage.
Context {T : Type}.
Variable Teqb : T -> T -> bool.       (* decides which pending value a [send] label carries *)

Inductive label :=
| recv (i : nat) (v : T)
| recv_closed (i : nat)
| send (j : nat) (v : T)
| ctx_done
| close_out (j : nat)
| spawn (id : nat)
| exit (id : nat)
| tau.                                 (* internal step: [default] branch of a polling select, WaitGroup released, return *)

(* ---------------------------------------------------------------------------------------------- *)
(* 1. The generic one-input one-output stage.                                                       *)
(* What a stage does with a received value is a sequential transducer over a counter [q : nat]:     *)
(*    t_fin q   = the loop condition fails / the goroutine returns before receiving again           *)
(*    t_react q v = new counter and what happens to v                                               *)

Inductive action := Emit (w : T) | Drop | DropPoll.   (* DropPoll: SkipWhile's [select {case <-ctx.Done(): return; default:}] *)

Record transducer := {
  t_fin : nat -> bool;
  t_react : nat -> T -> nat * action;
  t_aware : bool                       (* does every select of the stage have a [<-ctx.Done()] case *)
}.

Inductive kind :=
| KTaskN (n : nat)                     (* for i := 0; i < num; i++ { recv; send } *)
| KTaskFn (p : T -> bool)              (* recv; if fn(v) { send } *)
| KTaskWhile (p : T -> bool)           (* recv; if fn(v) { send; return } *)
| KSkipN (n : nat)                     (* n receives without send, then recv; send for ever *)
| KSkipFn (p : T -> bool)              (* recv; if !fn(v) { send } *)
| KSkipWhile (p : T -> bool)           (* recv; if fn(v) { poll ctx } else { send; then recv; send for ever } *)
| KMap (g : T -> T)                    (* MapChan: for v := range in { out <- fn(v) }, no ctx *)
| KPipe                                (* Pipeline: for v := range in { out <- v }, no ctx *)
| KStreamId.                           (* Stream seen as a stage over its argument slice: ctx-aware identity *)

Definition tr_of (k : kind) : transducer :=
  match k with
  | KTaskN n => {| t_fin := fun q => n <=? q; t_react := fun q v => (S q, Emit v); t_aware := true |}
  | KTaskFn p => {| t_fin := fun _ => false; t_react := fun q v => (q, if p v then Emit v else Drop); t_aware := true |}
  | KTaskWhile p => {| t_fin := fun q => 1 <=? q;
                       t_react := fun q v => if p v then (1, Emit v) else (q, Drop); t_aware := true |}
  | KSkipN n => {| t_fin := fun _ => false;
                   t_react := fun q v => if q <? n then (S q, Drop) else (q, Emit v); t_aware := true |}
  | KSkipFn p => {| t_fin := fun _ => false; t_react := fun q v => (q, if p v then Drop else Emit v); t_aware := true |}
  | KSkipWhile p => {| t_fin := fun _ => false;
                       t_react := fun q v => match q with
                                             | O => if p v then (0, DropPoll) else (1, Emit v)
                                             | S _ => (q, Emit v)
                                             end;
                       t_aware := true |}
  | KMap g => {| t_fin := fun _ => false; t_react := fun q v => (q, Emit (g v)); t_aware := false |}
  | KPipe => {| t_fin := fun _ => false; t_react := fun q v => (q, Emit v); t_aware := false |}
  | KStreamId => {| t_fin := fun _ => false; t_react := fun q v => (q, Emit v); t_aware := true |}
  end.

Definition emitted (a : action) : list T := match a with Emit w => [w] | _ => [] end.

(* the list function a transducer computes, and the counter it ends in; both stop consuming at [t_fin] *)
Fixpoint tr_run (M : transducer) (q : nat) (xs : list T) : list T :=
  match xs with
  | [] => []
  | x :: r => if t_fin M q then [] else let '(q', a) := t_react M q x in emitted a ++ tr_run M q' r
  end.
Fixpoint tr_state (M : transducer) (q : nat) (xs : list T) : nat :=
  match xs with
  | [] => q
  | x :: r => if t_fin M q then q else tr_state M (fst (t_react M q x)) r
  end.

(* the stage receives an element only while its loop has not ended: [tr_live M q xs] says that the whole of xs can be
   consumed from counter q (no element is taken after t_fin) - TaskN n takes at most n elements, TaskWhile none
   after its match *)
Fixpoint tr_live (M : transducer) (q : nat) (xs : list T) : bool :=
  match xs with
  | [] => true
  | x :: r => negb (t_fin M q) && tr_live M (fst (t_react M q x)) r
  end.

(* which received elements the user's function (predicate / map function) is applied to: [uses q] = the stage in
   counter q evaluates fn on the element it has just received (before anything else happens to it). The user
   function is never applied to anything else: in particular not when the receive reports the input closed. *)
Definition uses_of (k : kind) (q : nat) : bool :=
  match k with
  | KTaskFn _ | KTaskWhile _ | KSkipFn _ | KMap _ => true
  | KSkipWhile _ => Nat.eqb q 0          (* only while still skipping; the pass-through loop does not call fn *)
  | KTaskN _ | KSkipN _ | KPipe | KStreamId => false
  end.
Fixpoint tr_calls (M : transducer) (uses : nat -> bool) (q : nat) (xs : list T) : list T :=
  match xs with
  | [] => []
  | x :: r => if t_fin M q then []
              else (if uses q then [x] else []) ++ tr_calls M uses (fst (t_react M q x)) r
  end.

(* the list functions the property names *)
Fixpoint find_first (p : T -> bool) (xs : list T) : list T :=
  match xs with [] => [] | x :: r => if p x then [x] else find_first p r end.
Fixpoint drop_while (p : T -> bool) (xs : list T) : list T :=
  match xs with [] => [] | x :: r => if p x then drop_while p r else x :: r end.
Definition fn_of (k : kind) (xs : list T) : list T :=
  match k with
  | KTaskN n => firstn n xs
  | KTaskFn p => filter p xs
  | KTaskWhile p => find_first p xs
  | KSkipN n => skipn n xs
  | KSkipFn p => filter (fun x => negb (p x)) xs
  | KSkipWhile p => drop_while p xs
  | KMap g => map g xs
  | KPipe | KStreamId => xs
  end.

(* program counter of the stage goroutine *)
Inductive pc :=
| PRecv (q : nat)                      (* blocked in select { <-ctx.Done() ; v, ok := <-in }  (or plain range receive) *)
| PSend (q : nat) (v : T)              (* blocked in select { <-ctx.Done() ; out <- v }       (or plain send) *)
| PPoll (q : nat)                      (* non-blocking select { <-ctx.Done() ; default } *)
| PClose                               (* returning: the deferred close(out) is next *)
| PClosed                              (* out closed, goroutine about to end *)
| PDone.                               (* goroutine gone *)

Definition next (M : transducer) (q : nat) : pc := if t_fin M q then PClose else PRecv q.

(* nil_in: MapChan(nil) closes its output at once (no goroutine); the other combinators are not given nil *)
Definition stage_init (M : transducer) (nil_in : bool) : pc := if nil_in then PClose else next M 0.

Definition step (M : transducer) (s : pc) (l : label) : option pc :=
  match s, l with
  | PRecv q, recv 0 v =>
      let '(q', a) := t_react M q v in
      Some (match a with Emit w => PSend q' w | Drop => next M q' | DropPoll => PPoll q' end)
  | PRecv q, recv_closed 0 => Some PClose
  | PRecv q, ctx_done => if t_aware M then Some PClose else None
  | PSend q v, send 0 w => if Teqb v w then Some (next M q) else None
  | PSend q v, ctx_done => if t_aware M then Some PClose else None
  | PPoll q, ctx_done => if t_aware M then Some PClose else None
  | PPoll q, tau => Some (next M q)
  | PClose, close_out 0 => Some PClosed
  | PClosed, exit 0 => Some PDone
  | _, _ => None
  end.

Definition blocked (s : pc) : bool := match s with PRecv _ | PSend _ _ => true | _ => false end.

(* ---------------------------------------------------------------------------------------------- *)
(* 2. Stream(ctx, values...): for _, value := range values { select { <-ctx.Done(): return; out <- value } } *)
Inductive spc := SSend (rest : list T) | SClose | SClosed | SDone.
Definition snext (rest : list T) : spc := match rest with [] => SClose | _ => SSend rest end.
Definition stream_init (values : list T) : spc := snext values.
Definition stream_step (s : spc) (l : label) : option spc :=
  match s, l with
  | SSend (v :: rest), send 0 w => if Teqb v w then Some (snext rest) else None
  | SSend _, ctx_done => Some SClose
  | SClose, close_out 0 => Some SClosed
  | SClosed, exit 0 => Some SDone
  | _, _ => None
  end.

(* ---------------------------------------------------------------------------------------------- *)
(* 3. Fan-in: FanInRec(channels...) and MergeChannel(a, b).  [open] = which sources are still selected on
      (FanInRec removes the case of a closed channel, MergeChannel sets the variable to nil; a nil argument of
      MergeChannel starts as not open).  No ctx.  The loop ends when no source is open. *)
Inductive fpc := FLoop (open : list bool) | FSend (open : list bool) (v : T) | FClose | FClosed | FDone.
Definition fnext (open : list bool) : fpc := if existsb (fun b => b) open then FLoop open else FClose.
Definition fanin_init (open0 : list bool) : fpc := fnext open0.
Definition fanin_step (s : fpc) (l : label) : option fpc :=
  match s, l with
  | FLoop open, recv i v => if nth i open false then Some (FSend open v) else None
  | FLoop open, recv_closed i => if nth i open false then Some (fnext (upd open i false)) else None
  | FSend open v, send 0 w => if Teqb v w then Some (fnext open) else None
  | FClose, close_out 0 => Some FClosed
  | FClosed, exit 0 => Some FDone
  | _, _ => None
  end.

(* ---------------------------------------------------------------------------------------------- *)
(* 4. Fan-out: FanOut(in, out []chan, async).  [n] outputs.  Synchronous: out[0] <- v; out[1] <- v; ... in order.
      Asynchronous: wg.Add(1); go func(){ defer wg.Done(); ch <- v }() per output: the children that have not
      delivered yet are part of the state ([pend]); a child's delivery is the label [send j v].  On input close:
      wg.Wait() (label [tau], enabled only when no child is pending), then close(out[0]), close(out[1]), ... *)
Inductive opc :=
| ORecv | OSend (v : T) (j : nat) | OSpawn (v : T) (j : nat) | OWait | OClose (j : nat) | OClosed | ODone.
Record ostate := { o_pc : opc; o_pend : list (nat * T) }.

Definition pair_eqb (a b : nat * T) : bool := Nat.eqb (fst a) (fst b) && Teqb (snd a) (snd b).
Fixpoint remove_first (x : nat * T) (l : list (nat * T)) : option (list (nat * T)) :=
  match l with
  | [] => None
  | y :: r => if pair_eqb x y then Some r
              else match remove_first x r with Some r' => Some (y :: r') | None => None end
  end.

Definition fanout_init : ostate := {| o_pc := ORecv; o_pend := [] |}.
Definition after_out (async : bool) (n : nat) (v : T) (j : nat) : opc :=
  if S j <? n then (if async then OSpawn v (S j) else OSend v (S j)) else ORecv.
Definition fanout_step (async : bool) (n : nat) (s : ostate) (l : label) : option ostate :=
  match l with
  | send j w =>
      if async then
        match remove_first (j, w) (o_pend s) with
        | Some p' => Some {| o_pc := o_pc s; o_pend := p' |}
        | None => None
        end
      else match o_pc s with
           | OSend v j' => if Nat.eqb j j' && Teqb v w
                           then Some {| o_pc := after_out async n v j'; o_pend := o_pend s |} else None
           | _ => None
           end
  | recv 0 v =>
      match o_pc s with
      | ORecv => Some {| o_pc := if 0 <? n then (if async then OSpawn v 0 else OSend v 0) else ORecv;
                         o_pend := o_pend s |}
      | _ => None
      end
  | recv_closed 0 => match o_pc s with ORecv => Some {| o_pc := OWait; o_pend := o_pend s |} | _ => None end
  | spawn j =>
      match o_pc s with
      | OSpawn v j' => if Nat.eqb j j'
                       then Some {| o_pc := after_out async n v j'; o_pend := o_pend s ++ [(j', v)] |} else None
      | _ => None
      end
  | tau =>
      match o_pc s, o_pend s with
      | OWait, [] => Some {| o_pc := if 0 <? n then OClose 0 else OClosed; o_pend := [] |}
      | _, _ => None
      end
  | close_out j =>
      match o_pc s with
      | OClose j' => if Nat.eqb j j'
                     then Some {| o_pc := if S j' <? n then OClose (S j') else OClosed; o_pend := o_pend s |} else None
      | _ => None
      end
  | exit 0 => match o_pc s with OClosed => Some {| o_pc := ODone; o_pend := o_pend s |} | _ => None end
  | _ => None
  end.

(* ---------------------------------------------------------------------------------------------- *)
(* 5. Orderly(tasks): for each task { task.Do() (Add(1); go fn; Done) ; task.Wait() }.
      [spawn i] = goroutine of task i started, [exit i] = it finished (Done), [tau] = Orderly returns. *)
Inductive ypc := YRun (i : nat) | YWait (i : nat) | YRet.
Definition orderly_step (n : nat) (s : ypc) (l : label) : option ypc :=
  match s, l with
  | YRun i, spawn j => if (i <? n) && Nat.eqb i j then Some (YWait i) else None
  | YRun i, tau => if i <? n then None else Some YRet
  | YWait i, exit j => if Nat.eqb i j then Some (YRun (S i)) else None
  | _, _ => None
  end.

(* ---------------------------------------------------------------------------------------------- *)
(* 6. ReduceChan(in, fn): nil -> zero; out := <-in (zero when closed and empty); for v := range in { out = fn(out, v) }.
      A closed channel stays closed, so the receive that finds the input closed and empty ends the call. *)
Variable zero : T.
Inductive rpc := RFirst | RLoop (acc : T) | RRet (r : T).
Definition reduce_init (nil_in : bool) : rpc := if nil_in then RRet zero else RFirst.
Definition reduce_step (fn : T -> T -> T) (s : rpc) (l : label) : option rpc :=
  match s, l with
  | RFirst, recv 0 v => Some (RLoop v)
  | RFirst, recv_closed 0 => Some (RRet zero)
  | RLoop acc, recv 0 v => Some (RLoop (fn acc v))
  | RLoop acc, recv_closed 0 => Some (RRet acc)
  | _, _ => None
  end.
(* the argument pairs the reducer is called with: (first, second), (fn first second, third), ... *)
Fixpoint reduce_calls_from (fn : T -> T -> T) (acc : T) (xs : list T) : list (T * T) :=
  match xs with [] => [] | x :: r => (acc, x) :: reduce_calls_from fn (fn acc x) r end.
Definition reduce_calls (fn : T -> T -> T) (xs : list T) : list (T * T) :=
  match xs with [] => [] | x :: r => reduce_calls_from fn x r end.
Definition reduce_spec (fn : T -> T -> T) (xs : list T) : T :=
  match xs with [] => zero | x :: r => fold_left fn r x end.

(* ---------------------------------------------------------------------------------------------- *)
(* Traces and what each side of a channel observes of them. *)
Fixpoint run {S} (stp : S -> label -> option S) (s : S) (tr : list label) : option S :=
  match tr with
  | [] => Some s
  | l :: r => match stp s l with Some s' => run stp s' r | None => None end
  end.

Definition ins_of (i : nat) (tr : list label) : list T :=
  flat_map (fun l => match l with recv i' v => if Nat.eqb i i' then [v] else [] | _ => [] end) tr.
Definition outs_of (j : nat) (tr : list label) : list T :=
  flat_map (fun l => match l with send j' v => if Nat.eqb j j' then [v] else [] | _ => [] end) tr.
Definition closes_of (j : nat) (tr : list label) : nat :=
  length (filter (fun l => match l with close_out j' => Nat.eqb j j' | _ => false end) tr).
Definition has_ctx (tr : list label) : bool := existsb (fun l => match l with ctx_done => true | _ => false end) tr.
Definition in_closed (i : nat) (tr : list label) : bool :=
  existsb (fun l => match l with recv_closed i' => Nat.eqb i i' | _ => false end) tr.
Definition closed_of (j : nat) (tr : list label) : bool := 0 <? closes_of j tr.

End Stage.

Arguments label : clear implicits.
Arguments action : clear implicits.
Arguments transducer : clear implicits.
Arguments kind : clear implicits.
Arguments pc : clear implicits.
Arguments spc : clear implicits.
Arguments fpc : clear implicits.
Arguments opc : clear implicits.
Arguments ostate : clear implicits.
Arguments rpc : clear implicits.
