(* C18 proofs, part 2: fan-in (FanInRec, MergeChannel) and fan-out (FanOut sync / async). *)
From VF Require Import C18.Stage C18.Rel C18.Proofs.

Section PF.
Context {T : Type}.
Variable Teqb : T -> T -> bool.
Hypothesis Teqb_ok : forall a b, Teqb a b = true <-> a = b.

Lemma nth_map_seq {A} (f : nat -> A) n j d : j < n -> nth j (map f (seq 0 n)) d = f j.
Proof.
  intros H. rewrite (nth_indep _ d (f 0)) by (rewrite map_length, seq_length; exact H).
  rewrite map_nth. now rewrite seq_nth.
Qed.

(* ================================= fan-in ================================= *)
Lemma select_nil_out i tags : @select T i tags [] = [].
Proof. destruct tags; reflexivity. Qed.

Lemma select_snoc i : forall tags (out : list T) t v, length tags = length out ->
  select i (tags ++ [t]) (out ++ [v]) = select i tags out ++ (if Nat.eqb i t then [v] else []).
Proof.
  induction tags as [|a tags IH]; intros [|o out] t v H; cbn [length] in H; try discriminate.
  - cbn. destruct (Nat.eqb i t); reflexivity.
  - cbn [app select]. rewrite IH by lia. destruct (Nat.eqb i a); reflexivity.
Qed.

Lemma allnil_ok (srcs : list (list T)) :
  forallb (fun s => match s with [] => true | _ :: _ => false end) srcs = true <->
  forall i, i < length srcs -> nth i srcs [] = [].
Proof.
  rewrite forallb_forall. split.
  - intros H i Hi. specialize (H _ (nth_In srcs [] Hi)). destruct (nth i srcs []); [reflexivity|discriminate].
  - intros H s Hs. destruct (In_nth _ _ [] Hs) as (i & Hi & E). rewrite <- E, (H i Hi). reflexivity.
Qed.

Theorem merge_b_ok : forall (out : list T) srcs, merge_b Teqb srcs out = true <-> Merge srcs out.
Proof.
  induction out as [|o r IH]; intros srcs; cbn [merge_b].
  - rewrite allnil_ok. unfold Merge. split.
    + intros H. exists []. split; [reflexivity|]. split; [constructor|]. intros i Hi. now rewrite (H i Hi).
    + intros (tags & _ & _ & H) i Hi. rewrite <- (H i Hi). apply select_nil_out.
  - rewrite existsb_exists. split.
    + intros (i & Hi & Hb). apply in_seq in Hi. destruct (nth i srcs []) as [|x s] eqn:E; [discriminate|].
      apply andb_true_iff in Hb as [Hx Hm]. apply Teqb_ok in Hx. subst x. apply IH in Hm.
      destruct Hm as (tags & Hl & Hf & Hs). rewrite upd_length in Hf, Hs.
      exists (i :: tags). split; [cbn [length]; now rewrite Hl|]. split; [constructor; [lia|exact Hf]|].
      intros j Hj. cbn [select]. destruct (Nat.eqb j i) eqn:Eji.
      * apply Nat.eqb_eq in Eji. subst j. rewrite (Hs i Hj), nth_upd_same by lia. now rewrite E.
      * apply Nat.eqb_neq in Eji. rewrite (Hs j Hj). apply nth_upd_other. congruence.
    + intros (tags & Hl & Hf & Hs). destruct tags as [|t tags]; [discriminate|].
      cbn [length] in Hl. inversion Hf as [|? ? Ht Hf']; subst.
      exists t. split; [apply in_seq; lia|].
      pose proof (Hs t Ht) as Et. cbn [select] in Et. rewrite Nat.eqb_refl in Et. rewrite <- Et.
      rewrite (proj2 (Teqb_ok o o) eq_refl). cbn [andb]. apply IH.
      exists tags. split; [lia|]. rewrite upd_length. split; [exact Hf'|].
      intros j Hj. destruct (Nat.eq_dec j t) as [->|Ne].
      * now rewrite nth_upd_same by lia.
      * rewrite nth_upd_other by congruence. rewrite <- (Hs j Hj). cbn [select].
        destruct (Nat.eqb j t) eqn:E; [apply Nat.eqb_eq in E; contradiction|reflexivity].
Qed.

Theorem fanin_rel_b_ok ins (outs : list T) closed :
  fanin_rel_b Teqb ins outs closed = true <-> fanin_rel ins outs closed.
Proof.
  unfold fanin_rel_b, fanin_rel. destruct closed; [apply merge_b_ok|].
  rewrite orb_true_iff, merge_b_ok, existsb_exists. split; (intros [H|(p & Hp & H)]; [now left|right; exists p]).
  - split; [exact Hp|now apply merge_b_ok].
  - split; [exact Hp|now apply merge_b_ok].
Qed.

Section FanIn.
Variable open0 : list bool.
Let n := length open0.

Definition MF (tr : list (label T)) (o : list T) : Prop :=
  exists tags, length tags = length o /\ Forall (fun t => t < n) tags /\
               forall j, j < n -> select j tags o = ins_of j tr.
Definition OpenOk (tr : list (label T)) (open : list bool) : Prop :=
  length open = n /\ forall j, j < n -> nth j open false = nth j open0 false && negb (in_closed j tr).
Definition AllClosed (tr : list (label T)) : Prop :=
  forall j, j < n -> nth j open0 false = true -> in_closed j tr = true.

Definition FInv (tr : list (label T)) (s : fpc T) : Prop :=
  match s with
  | FLoop open => OpenOk tr open /\ MF tr (outs_of 0 tr) /\ closes_of 0 tr = 0
  | FSend open v => OpenOk tr open /\ MF tr (outs_of 0 tr ++ [v]) /\ closes_of 0 tr = 0 /\
                    exists i, i < n /\ In v (ins_of i tr)
  | FClose => MF tr (outs_of 0 tr) /\ AllClosed tr /\ closes_of 0 tr = 0
  | FClosed | FDone => MF tr (outs_of 0 tr) /\ AllClosed tr /\ closes_of 0 tr = 1
  end.

Lemma existsb_id_false (l : list bool) : existsb (fun b => b) l = false -> forall j, nth j l false = false.
Proof.
  induction l as [|b l IH]; intros H j; [destruct j; reflexivity|].
  cbn [existsb] in H. apply orb_false_iff in H as [-> H]. destruct j; [reflexivity|]. cbn [nth]. now apply IH.
Qed.

Lemma fnext_inv tr open : OpenOk tr open -> MF tr (outs_of 0 tr) -> closes_of 0 tr = 0 -> FInv tr (fnext open).
Proof.
  intros HO HM Hc. unfold fnext. destruct (existsb (fun b => b) open) eqn:E; cbn [FInv]; [auto|].
  split; [exact HM|]. split; [|exact Hc]. intros j Hj H0. destruct HO as [_ HO].
  pose proof (existsb_id_false _ E j) as F. rewrite (HO j Hj), H0 in F. cbn [andb] in F.
  now apply negb_false_iff in F.
Qed.

Lemma MF_keep tr l o : (forall j, in_lab j l = []) -> MF tr o -> MF (tr ++ [l]) o.
Proof.
  intros Hl (tags & H1 & H2 & H3). exists tags. repeat split; auto.
  intros j Hj. rewrite ins_snoc, Hl, app_nil_r. auto.
Qed.
Lemma OpenOk_keep tr l open : (forall j, rc_lab j l = false) -> OpenOk tr open -> OpenOk (tr ++ [l]) open.
Proof.
  intros Hl [H1 H2]. split; [exact H1|]. intros j Hj. rewrite rc_snoc, Hl, orb_false_r. auto.
Qed.
Lemma AllClosed_keep tr l : AllClosed tr -> AllClosed (tr ++ [l]).
Proof. intros H j Hj H0. rewrite rc_snoc, (H j Hj H0). reflexivity. Qed.

Lemma fanin_step_inv tr s l s' : FInv tr s -> fanin_step Teqb s l = Some s' -> FInv (tr ++ [l]) s'.
Proof.
  intros I St. destruct s as [open|open v| | |]; cbn [FInv] in I.
  - destruct I as (HO & HM & Hc).
    destruct l as [i w|i|j w| |j|id|id|]; cbn [fanin_step] in St; try discriminate.
    + (* recv i w *)
      destruct (nth i open false) eqn:Ei; [|discriminate]. inversion St; subst s'; clear St.
      assert (Hi : i < n).
      { destruct HO as [HL _]. destruct (Nat.lt_ge_cases i n) as [|Hge]; [assumption|].
        rewrite nth_overflow in Ei by lia. discriminate. }
      cbn [FInv]. split; [apply OpenOk_keep; auto|]. split; [|split].
      * destruct HM as (tags & H1 & H2 & H3). rewrite outs_snoc. cbn [out_lab]. rewrite app_nil_r.
        exists (tags ++ [i]). split; [rewrite !app_length; cbn [length]; lia|].
        split; [apply Forall_app; split; [exact H2|constructor; [exact Hi|constructor]]|].
        intros j Hj. rewrite select_snoc by exact H1. rewrite ins_snoc, (H3 j Hj). reflexivity.
      * rewrite closes_snoc. cbn [close_lab]. lia.
      * exists i. split; [exact Hi|]. rewrite ins_snoc. cbn [in_lab]. rewrite Nat.eqb_refl.
        apply in_or_app. right. now left.
    + (* recv_closed i *)
      destruct (nth i open false) eqn:Ei; [|discriminate]. inversion St; subst s'; clear St.
      apply fnext_inv.
      * destruct HO as [HL HO]. split; [now rewrite upd_length|]. intros j Hj.
        rewrite rc_snoc. cbn [rc_lab]. destruct (Nat.eq_dec i j) as [->|Ne].
        -- rewrite nth_upd_same by lia. rewrite Nat.eqb_refl, orb_true_r. cbn [negb]. now rewrite andb_false_r.
        -- rewrite nth_upd_other by exact Ne. rewrite (HO j Hj).
           destruct (Nat.eqb j i) eqn:E; [apply Nat.eqb_eq in E; congruence|]. now rewrite orb_false_r.
      * rewrite outs_snoc. cbn [out_lab]. rewrite app_nil_r. apply MF_keep; auto.
      * rewrite closes_snoc. cbn [close_lab]. lia.
  - destruct I as (HO & HM & Hc & _).
    destruct l as [i w|i|j w| |j|id|id|]; cbn [fanin_step] in St; try discriminate.
    destruct j; [|discriminate]. destruct (Teqb v w) eqn:E; [|discriminate]. apply Teqb_ok in E. subst w.
    inversion St; subst s'; clear St. apply fnext_inv.
    + apply OpenOk_keep; auto.
    + rewrite outs_snoc. cbn [out_lab Nat.eqb]. apply MF_keep; auto.
    + rewrite closes_snoc. cbn [close_lab]. lia.
  - destruct I as (HM & HA & Hc).
    destruct l as [i w|i|j w| |j|id|id|]; cbn [fanin_step] in St; try discriminate.
    destruct j; [|discriminate]. inversion St; subst s'; clear St. cbn [FInv].
    split; [rewrite outs_snoc; cbn [out_lab]; rewrite app_nil_r; apply MF_keep; auto|].
    split; [now apply AllClosed_keep|]. rewrite closes_snoc. cbn [close_lab Nat.eqb]. lia.
  - destruct I as (HM & HA & Hc).
    destruct l as [i w|i|j w| |j|id|id|]; cbn [fanin_step] in St; try discriminate.
    destruct id; [|discriminate]. inversion St; subst s'; clear St. cbn [FInv].
    split; [rewrite outs_snoc; cbn [out_lab]; rewrite app_nil_r; apply MF_keep; auto|].
    split; [now apply AllClosed_keep|]. rewrite closes_snoc. cbn [close_lab]. lia.
  - destruct l; discriminate.
Qed.

Lemma fanin_inv : forall tr s, run (fanin_step Teqb) (fanin_init open0) tr = Some s -> FInv tr s.
Proof.
  induction tr as [|l tr IH] using rev_ind; intros s H.
  - cbn [run] in H. inversion H; subst. apply fnext_inv.
    + split; [reflexivity|]. intros j Hj. cbn. now rewrite andb_true_r.
    + exists []. split; [reflexivity|]. split; [constructor|]. intros j Hj. reflexivity.
    + reflexivity.
  - rewrite run_snoc in H. destruct (run (fanin_step Teqb) (fanin_init open0) tr) as [s1|] eqn:R; [|discriminate].
    eapply fanin_step_inv; [apply IH; reflexivity|exact H].
Qed.

Definition srcs_of (tr : list (label T)) : list (list T) := map (fun j => ins_of j tr) (seq 0 n).

Lemma MF_Merge tr o : MF tr o -> Merge (srcs_of tr) o.
Proof.
  intros (tags & H1 & H2 & H3). exists tags. unfold srcs_of. rewrite map_length, seq_length.
  split; [exact H1|]. split; [exact H2|]. intros j Hj. rewrite nth_map_seq by exact Hj. auto.
Qed.

Theorem fanin_safe tr s :
  run (fanin_step Teqb) (fanin_init open0) tr = Some s ->
  fanin_rel (srcs_of tr) (outs_of 0 tr) (closed_of 0 tr).
Proof.
  intros H. apply fanin_inv in H. unfold fanin_rel, closed_of.
  destruct s as [open|open v| | |]; cbn [FInv] in H.
  - destruct H as (_ & HM & Hc). rewrite Hc. cbn. left. now apply MF_Merge.
  - destruct H as (_ & HM & Hc & (i & Hi & Hin)). rewrite Hc. cbn. right. exists v.
    split; [|now apply MF_Merge]. apply in_concat. exists (ins_of i tr). split; [|exact Hin].
    unfold srcs_of. apply in_map_iff. exists i. split; [reflexivity|apply in_seq; lia].
  - destruct H as (HM & _ & Hc). rewrite Hc. cbn. left. now apply MF_Merge.
  - destruct H as (HM & _ & Hc). rewrite Hc. cbn. now apply MF_Merge.
  - destruct H as (HM & _ & Hc). rewrite Hc. cbn. now apply MF_Merge.
Qed.

(* the output is closed exactly once, after every (non-nil) source was seen closed and everything was delivered *)
Theorem fanin_close tr :
  run (fanin_step Teqb) (fanin_init open0) tr = Some FDone ->
  closes_of 0 tr = 1 /\ Merge (srcs_of tr) (outs_of 0 tr) /\
  forall j, j < n -> nth j open0 false = true -> in_closed j tr = true.
Proof. intros H. apply fanin_inv in H. destruct H as (HM & HA & Hc). split; [exact Hc|]. split; [now apply MF_Merge|exact HA]. Qed.

End FanIn.

(* ================================= fan-out ================================= *)
Lemma cnt_app x (a b : list T) : cnt Teqb x (a ++ b) = cnt Teqb x a + cnt Teqb x b.
Proof. unfold cnt. now rewrite filter_app, app_length. Qed.
Lemma cnt_one x w : cnt Teqb x [w] = if Teqb x w then 1 else 0.
Proof. unfold cnt. cbn [filter]. destruct (Teqb x w); reflexivity. Qed.

Lemma cnt_pos_in x (l : list T) : 0 < cnt Teqb x l -> In x l.
Proof.
  unfold cnt. intros H. destruct (filter (Teqb x) l) as [|y r] eqn:E; [cbn in H; lia|].
  assert (Hy : In y (filter (Teqb x) l)) by (rewrite E; now left).
  apply filter_In in Hy as [Hy1 Hy2]. apply Teqb_ok in Hy2. now subst.
Qed.

Definition cntp (j : nat) (x : T) (p : list (nat * T)) : nat :=
  length (filter (fun q => Nat.eqb (fst q) j && Teqb x (snd q)) p).

Lemma cntp_app j x a b : cntp j x (a ++ b) = cntp j x a + cntp j x b.
Proof. unfold cntp. now rewrite filter_app, app_length. Qed.

Lemma remove_first_cnt j w : forall p p', remove_first Teqb (j, w) p = Some p' ->
  forall j' x, cntp j' x p = cntp j' x p' + (if Nat.eqb j j' && Teqb x w then 1 else 0).
Proof.
  induction p as [|[a b] p IH]; intros p' H j' x; cbn [remove_first] in H; [discriminate|].
  unfold pair_eqb in H. cbn [fst snd] in H.
  destruct (Nat.eqb j a && Teqb w b) eqn:E.
  - inversion H; subst p'. apply andb_true_iff in E as [E1 E2]. apply Nat.eqb_eq in E1. apply Teqb_ok in E2. subst a b.
    unfold cntp. cbn [filter fst snd]. rewrite (Nat.eqb_sym j j').
    destruct (Nat.eqb j' j && Teqb x w); cbn [length]; lia.
  - destruct (remove_first Teqb (j, w) p) as [r|] eqn:R; [|discriminate]. inversion H; subst p'.
    specialize (IH r eq_refl j' x). unfold cntp in *. cbn [filter fst snd].
    destruct (Nat.eqb a j' && Teqb x b); cbn [length]; lia.
Qed.

Section FanOut.
Variable n : nat.

Definition closes_ok (tr : list (label T)) (f : nat -> nat) : Prop := forall j, j < n -> closes_of j tr = f j.

(* ---- synchronous ---- *)
Definition SyInv (tr : list (label T)) (s : ostate T) : Prop :=
  let c := ins_of 0 tr in
  o_pend s = [] /\
  match o_pc s with
  | ORecv | OWait => forall j, j < n -> outs_of j tr = c /\ closes_of j tr = 0
  | OSend v j0 => j0 < n /\ exists c', c = c' ++ [v] /\
                  forall j, j < n -> closes_of j tr = 0 /\ outs_of j tr = if j <? j0 then c else c'
  | OSpawn _ _ => False
  | OClose j0 => j0 < n /\ forall j, j < n -> outs_of j tr = c /\ closes_of j tr = if j <? j0 then 1 else 0
  | OClosed | ODone => forall j, j < n -> outs_of j tr = c /\ closes_of j tr = 1
  end.

Lemma out_lab_other j (l : label T) : (forall j' w, l <> send j' w) -> out_lab j l = [].
Proof. intros H. destruct l; try reflexivity. exfalso. eapply H. reflexivity. Qed.

Lemma sync_step_inv tr s l s' : SyInv tr s -> fanout_step Teqb false n s l = Some s' -> SyInv (tr ++ [l]) s'.
Proof.
  intros [Hp I] St. destruct s as [pc0 pend]. cbn [o_pc o_pend] in *. subst pend.
  destruct l as [i w|i|j w| |j|id|id|]; cbn [fanout_step o_pc o_pend] in St; try discriminate.
  - (* recv *)
    destruct i; [|discriminate]. destruct pc0; try discriminate. inversion St; subst s'; clear St.
    split; [reflexivity|]. cbn [o_pc]. rewrite ins_snoc. cbn [in_lab Nat.eqb].
    destruct (0 <? n) eqn:E0.
    + apply Nat.ltb_lt in E0. split; [exact E0|]. exists (ins_of 0 tr). split; [reflexivity|].
      intros j Hj. destruct (I j Hj) as [Ho Hc]. rewrite closes_snoc, outs_snoc. cbn [close_lab out_lab].
      rewrite app_nil_r. split; [lia|]. now cbn.
    + apply Nat.ltb_ge in E0. intros j Hj. lia.
  - (* recv_closed *)
    destruct i; [|discriminate]. destruct pc0; try discriminate. inversion St; subst s'; clear St.
    split; [reflexivity|]. cbn [o_pc]. intros j Hj. destruct (I j Hj) as [Ho Hc].
    rewrite ins_snoc, outs_snoc, closes_snoc. cbn [in_lab out_lab close_lab]. rewrite !app_nil_r. split; [exact Ho|lia].
  - (* send *)
    destruct pc0 as [|v j0|v j0| |j0| |]; try discriminate.
    destruct (Nat.eqb j j0 && Teqb v w) eqn:E; [|discriminate]. apply andb_true_iff in E as [E1 E2].
    apply Nat.eqb_eq in E1. apply Teqb_ok in E2. subst j w. inversion St; subst s'; clear St.
    destruct I as (Hj0 & c' & Ec & I). split; [reflexivity|]. cbn [o_pc]. unfold after_out.
    assert (Ei : ins_of 0 (tr ++ [send j0 v]) = ins_of 0 tr) by (rewrite ins_snoc; cbn [in_lab]; apply app_nil_r).
    destruct (S j0 <? n) eqn:En.
    + apply Nat.ltb_lt in En. split; [exact En|]. exists c'. rewrite Ei. split; [exact Ec|].
      intros j Hj. destruct (I j Hj) as [Hc Ho]. rewrite closes_snoc, outs_snoc. cbn [close_lab out_lab].
      split; [lia|]. destruct (Nat.eqb j j0) eqn:Ej.
      * apply Nat.eqb_eq in Ej. subst j. rewrite Ho, Nat.ltb_irrefl.
        replace (j0 <? S j0) with true by (symmetry; apply Nat.ltb_lt; lia). now rewrite Ec.
      * apply Nat.eqb_neq in Ej. rewrite app_nil_r, Ho.
        destruct (j <? j0) eqn:L1; [apply Nat.ltb_lt in L1|apply Nat.ltb_ge in L1].
        -- replace (j <? S j0) with true by (symmetry; apply Nat.ltb_lt; lia). reflexivity.
        -- replace (j <? S j0) with false by (symmetry; apply Nat.ltb_ge; lia). reflexivity.
    + apply Nat.ltb_ge in En. rewrite Ei. intros j Hj. destruct (I j Hj) as [Hc Ho].
      rewrite closes_snoc, outs_snoc. cbn [close_lab out_lab]. split; [|lia].
      destruct (Nat.eqb j j0) eqn:Ej.
      * apply Nat.eqb_eq in Ej. subst j. rewrite Ho, Nat.ltb_irrefl. now rewrite Ec.
      * apply Nat.eqb_neq in Ej. rewrite app_nil_r, Ho.
        replace (j <? j0) with true by (symmetry; apply Nat.ltb_lt; lia). reflexivity.
  - (* close_out *)
    destruct pc0 as [|v j0|v j0| |j0| |]; try discriminate.
    destruct (Nat.eqb j j0) eqn:E; [|discriminate]. apply Nat.eqb_eq in E. subst j. inversion St; subst s'; clear St.
    destruct I as (Hj0 & I). split; [reflexivity|]. cbn [o_pc].
    assert (G : forall j, j < n -> outs_of j (tr ++ [close_out j0]) = ins_of 0 (tr ++ [close_out j0]) /\
                                   closes_of j (tr ++ [close_out j0]) = if j <? S j0 then 1 else 0).
    { intros j Hj. destruct (I j Hj) as [Ho Hc]. rewrite ins_snoc, outs_snoc, closes_snoc. cbn [in_lab out_lab close_lab].
      rewrite !app_nil_r. split; [exact Ho|]. rewrite Hc.
      destruct (Nat.eqb j j0) eqn:Ej.
      - apply Nat.eqb_eq in Ej. subst j. rewrite Nat.ltb_irrefl.
        replace (j0 <? S j0) with true by (symmetry; apply Nat.ltb_lt; lia). reflexivity.
      - apply Nat.eqb_neq in Ej. destruct (j <? j0) eqn:L1; [apply Nat.ltb_lt in L1|apply Nat.ltb_ge in L1].
        + replace (j <? S j0) with true by (symmetry; apply Nat.ltb_lt; lia). reflexivity.
        + replace (j <? S j0) with false by (symmetry; apply Nat.ltb_ge; lia). reflexivity. }
    destruct (S j0 <? n) eqn:En.
    + apply Nat.ltb_lt in En. split; [exact En|exact G].
    + apply Nat.ltb_ge in En. intros j Hj. destruct (G j Hj) as [G1 G2]. split; [exact G1|].
      rewrite G2. replace (j <? S j0) with true by (symmetry; apply Nat.ltb_lt; lia). reflexivity.
  - (* spawn *)
    destruct pc0 as [|v j0|v j0| |j0| |]; try discriminate. destruct I.
  - (* exit *)
    destruct id; [|discriminate]. destruct pc0; try discriminate. inversion St; subst s'; clear St.
    split; [reflexivity|]. cbn [o_pc]. intros j Hj. destruct (I j Hj) as [Ho Hc].
    rewrite ins_snoc, outs_snoc, closes_snoc. cbn [in_lab out_lab close_lab]. rewrite !app_nil_r. split; [exact Ho|lia].
  - (* tau *)
    destruct pc0; try discriminate. inversion St; subst s'; clear St. split; [reflexivity|]. cbn [o_pc].
    assert (G : forall j, j < n -> outs_of j (tr ++ [tau]) = ins_of 0 (tr ++ [tau]) /\ closes_of j (tr ++ [tau]) = 0).
    { intros j Hj. destruct (I j Hj) as [Ho Hc]. rewrite ins_snoc, outs_snoc, closes_snoc. cbn [in_lab out_lab close_lab].
      rewrite !app_nil_r. split; [exact Ho|lia]. }
    destruct (0 <? n) eqn:E0.
    + apply Nat.ltb_lt in E0. split; [exact E0|]. intros j Hj. destruct (G j Hj). split; [assumption|].
      now replace (j <? 0) with false by (symmetry; apply Nat.ltb_ge; lia).
    + apply Nat.ltb_ge in E0. intros j Hj. lia.
Qed.

Lemma sync_inv : forall tr s, run (fanout_step Teqb false n) fanout_init tr = Some s -> SyInv tr s.
Proof.
  induction tr as [|l tr IH] using rev_ind; intros s H.
  - cbn [run] in H. inversion H; subst. split; [reflexivity|]. cbn. intros j Hj. auto.
  - rewrite run_snoc in H. destruct (run (fanout_step Teqb false n) fanout_init tr) as [s1|] eqn:R; [|discriminate].
    eapply sync_step_inv; [apply IH; reflexivity|exact H].
Qed.

(* ---- asynchronous ---- *)
Definition extra (pc0 : opc T) (j : nat) (x : T) : nat :=
  match pc0 with OSpawn v j0 => if (j0 <=? j) && Teqb x v then 1 else 0 | _ => 0 end.

Definition AsInv (tr : list (label T)) (s : ostate T) : Prop :=
  (forall j x, j < n -> cnt Teqb x (outs_of j tr) + cntp j x (o_pend s) + extra (o_pc s) j x = cnt Teqb x (ins_of 0 tr)) /\
  match o_pc s with
  | ORecv | OWait => forall j, j < n -> closes_of j tr = 0
  | OSpawn v j0 => j0 < n /\ forall j, j < n -> closes_of j tr = 0
  | OSend _ _ => False
  | OClose j0 => j0 < n /\ o_pend s = [] /\ forall j, j < n -> closes_of j tr = if j <? j0 then 1 else 0
  | OClosed | ODone => o_pend s = [] /\ forall j, j < n -> closes_of j tr = 1
  end.

Lemma async_step_inv tr s l s' : AsInv tr s -> fanout_step Teqb true n s l = Some s' -> AsInv (tr ++ [l]) s'.
Proof.
  intros [C I] St. destruct s as [pc0 pend]. cbn [o_pc o_pend] in *.
  destruct l as [i w|i|j w| |j|id|id|]; cbn [fanout_step o_pc o_pend] in St; try discriminate.
  - (* recv *)
    destruct i; [|discriminate]. destruct pc0; try discriminate. inversion St; subst s'; clear St; unfold AsInv; cbn [o_pc o_pend]. cbn [o_pc o_pend].
    split.
    + intros j x Hj. specialize (C j x Hj). cbn [extra] in C.
      rewrite ins_snoc, outs_snoc. cbn [in_lab out_lab Nat.eqb]. rewrite app_nil_r, cnt_app, cnt_one.
      destruct (0 <? n) eqn:E0; [|apply Nat.ltb_ge in E0; lia]. cbn [o_pc o_pend extra Nat.leb andb]. lia.
    + destruct (0 <? n) eqn:E0.
      * apply Nat.ltb_lt in E0. split; [exact E0|]. intros j Hj. rewrite closes_snoc. cbn [close_lab]. rewrite (I j Hj). lia.
      * intros j Hj. rewrite closes_snoc. cbn [close_lab]. rewrite (I j Hj). lia.
  - (* recv_closed *)
    destruct i; [|discriminate]. destruct pc0; try discriminate. inversion St; subst s'; clear St; unfold AsInv; cbn [o_pc o_pend]. cbn [o_pc o_pend].
    split.
    + intros j x Hj. specialize (C j x Hj). rewrite ins_snoc, outs_snoc. cbn [in_lab out_lab]. now rewrite !app_nil_r.
    + intros j Hj. rewrite closes_snoc. cbn [close_lab]. rewrite (I j Hj). lia.
  - (* send: a child delivers *)
    destruct (remove_first Teqb (j, w) pend) as [p'|] eqn:R; [|discriminate]. inversion St; subst s'; clear St; unfold AsInv; cbn [o_pc o_pend].
    cbn [o_pc o_pend]. pose proof (remove_first_cnt _ _ _ _ R) as RC.
    assert (Hne : pend <> []) by (intros ->; discriminate).
    split.
    + intros j1 x Hj. specialize (C j1 x Hj). rewrite (RC j1 x) in C.
      rewrite ins_snoc, outs_snoc. cbn [in_lab out_lab]. rewrite app_nil_r.
      rewrite (Nat.eqb_sym j1 j). destruct (Nat.eqb j j1); cbn [andb] in C.
      * rewrite cnt_app, cnt_one. lia.
      * rewrite app_nil_r. lia.
    + destruct pc0 as [|v j0|v j0| |j0| |]; try (destruct I as (? & ? & ?); congruence);
        try (destruct I as (? & ?); congruence); try exact I.
      * intros j1 Hj. rewrite closes_snoc. cbn [close_lab]. rewrite (I j1 Hj). lia.
      * destruct I as [Hj0 I]. split; [exact Hj0|]. intros j1 Hj. rewrite closes_snoc. cbn [close_lab]. rewrite (I j1 Hj). lia.
      * intros j1 Hj. rewrite closes_snoc. cbn [close_lab]. rewrite (I j1 Hj). lia.
  - (* close_out *)
    destruct pc0 as [|v j0|v j0| |j0| |]; try discriminate.
    destruct (Nat.eqb j j0) eqn:E; [|discriminate]. apply Nat.eqb_eq in E. subst j. inversion St; subst s'; clear St; unfold AsInv; cbn [o_pc o_pend].
    destruct I as (Hj0 & Hp & I). cbn [o_pc o_pend]. split.
    + intros j x Hj. specialize (C j x Hj). rewrite ins_snoc, outs_snoc. cbn [in_lab out_lab]. rewrite !app_nil_r.
      destruct (S j0 <? n); exact C.
    + assert (G : forall j, j < n -> closes_of j (tr ++ [close_out j0]) = if j <? S j0 then 1 else 0).
      { intros j Hj. rewrite closes_snoc, (I j Hj). cbn [close_lab].
        destruct (Nat.eqb j j0) eqn:Ej.
        - apply Nat.eqb_eq in Ej. subst j. rewrite Nat.ltb_irrefl.
          replace (j0 <? S j0) with true by (symmetry; apply Nat.ltb_lt; lia). reflexivity.
        - apply Nat.eqb_neq in Ej. destruct (j <? j0) eqn:L1; [apply Nat.ltb_lt in L1|apply Nat.ltb_ge in L1].
          + replace (j <? S j0) with true by (symmetry; apply Nat.ltb_lt; lia). reflexivity.
          + replace (j <? S j0) with false by (symmetry; apply Nat.ltb_ge; lia). reflexivity. }
      destruct (S j0 <? n) eqn:En.
      * apply Nat.ltb_lt in En. repeat split; auto.
      * apply Nat.ltb_ge in En. split; [exact Hp|]. intros j Hj. rewrite (G j Hj).
        replace (j <? S j0) with true by (symmetry; apply Nat.ltb_lt; lia). reflexivity.
  - (* spawn *)
    destruct pc0 as [|v j0|v j0| |j0| |]; try discriminate.
    destruct (Nat.eqb id j0) eqn:E; [|discriminate]. apply Nat.eqb_eq in E. subst id. inversion St; subst s'; clear St; unfold AsInv; cbn [o_pc o_pend].
    destruct I as (Hj0 & I). cbn [o_pc o_pend]. unfold after_out. split.
    + intros j x Hj. specialize (C j x Hj). cbn [extra] in C.
      rewrite ins_snoc, outs_snoc. cbn [in_lab out_lab]. rewrite !app_nil_r, cntp_app.
      unfold cntp at 2. cbn [filter fst snd].
      destruct (S j0 <? n) eqn:En; cbn [extra].
      * destruct (Teqb x v); rewrite ?andb_true_r, ?andb_false_r in *; cbn [length]; [|lia].
        destruct (Nat.eqb j0 j) eqn:E1; [apply Nat.eqb_eq in E1; subst j|apply Nat.eqb_neq in E1].
        -- rewrite Nat.leb_refl in C. replace (S j0 <=? j0) with false by (symmetry; apply Nat.leb_gt; lia). cbn [length]. lia.
        -- destruct (j0 <=? j) eqn:L1; [apply Nat.leb_le in L1|apply Nat.leb_gt in L1].
           ++ replace (S j0 <=? j) with true by (symmetry; apply Nat.leb_le; lia). cbn [length]. lia.
           ++ replace (S j0 <=? j) with false by (symmetry; apply Nat.leb_gt; lia). cbn [length]. lia.
      * apply Nat.ltb_ge in En. destruct (Teqb x v); rewrite ?andb_true_r, ?andb_false_r in *; cbn [length]; [|lia].
        destruct (Nat.eqb j0 j) eqn:E1; [apply Nat.eqb_eq in E1; subst j|apply Nat.eqb_neq in E1].
        -- rewrite Nat.leb_refl in C. cbn [length]. lia.
        -- replace (j0 <=? j) with false in C by (symmetry; apply Nat.leb_gt; lia). cbn [length]. lia.
    + destruct (S j0 <? n) eqn:En.
      * apply Nat.ltb_lt in En. split; [exact En|]. intros j Hj. rewrite closes_snoc. cbn [close_lab]. rewrite (I j Hj). lia.
      * intros j Hj. rewrite closes_snoc. cbn [close_lab]. rewrite (I j Hj). lia.
  - (* exit *)
    destruct id; [|discriminate]. destruct pc0; try discriminate. inversion St; subst s'; clear St; unfold AsInv; cbn [o_pc o_pend]. cbn [o_pc o_pend].
    destruct I as [Hp I]. split.
    + intros j x Hj. specialize (C j x Hj). rewrite ins_snoc, outs_snoc. cbn [in_lab out_lab]. now rewrite !app_nil_r.
    + split; [exact Hp|]. intros j Hj. rewrite closes_snoc. cbn [close_lab]. rewrite (I j Hj). lia.
  - (* tau *)
    destruct pc0; try discriminate. destruct pend; [|discriminate]. inversion St; subst s'; clear St; unfold AsInv; cbn [o_pc o_pend]. cbn [o_pc o_pend].
    split.
    + intros j x Hj. specialize (C j x Hj). rewrite ins_snoc, outs_snoc. cbn [in_lab out_lab]. rewrite !app_nil_r.
      destruct (0 <? n); exact C.
    + destruct (0 <? n) eqn:E0.
      * apply Nat.ltb_lt in E0. split; [exact E0|]. split; [reflexivity|]. intros j Hj.
        rewrite closes_snoc. cbn [close_lab]. rewrite (I j Hj).
        now replace (j <? 0) with false by (symmetry; apply Nat.ltb_ge; lia).
      * apply Nat.ltb_ge in E0. split; [reflexivity|]. intros j Hj. lia.
Qed.

Lemma async_inv : forall tr s, run (fanout_step Teqb true n) fanout_init tr = Some s -> AsInv tr s.
Proof.
  induction tr as [|l tr IH] using rev_ind; intros s H.
  - cbn [run] in H. inversion H; subst. split; [intros j x Hj; reflexivity|]. cbn. auto.
  - rewrite run_snoc in H. destruct (run (fanout_step Teqb true n) fanout_init tr) as [s1|] eqn:R; [|discriminate].
    eapply async_step_inv; [apply IH; reflexivity|exact H].
Qed.

Definition outs_list (tr : list (label T)) : list (list T) := map (fun j => outs_of j tr) (seq 0 n).
Definition closed_list (tr : list (label T)) : list bool := map (fun j => closed_of j tr) (seq 0 n).

Theorem fanout_safe async tr s :
  run (fanout_step Teqb async n) fanout_init tr = Some s ->
  fanout_rel Teqb async n (ins_of 0 tr) (outs_list tr) (closed_list tr).
Proof.
  intros H. unfold fanout_rel, outs_list, closed_list. rewrite !map_length, seq_length.
  split; [reflexivity|]. split; [reflexivity|]. intros j Hj. cbv zeta.
  rewrite !nth_map_seq by exact Hj. unfold closed_of. destruct async.
  - apply async_inv in H. destruct H as [C I]. split.
    + intros x. specialize (C j x Hj). lia.
    + intros Hc x. apply Nat.ltb_lt in Hc. specialize (C j x Hj).
      destruct s as [pc0 pend]. cbn [o_pc o_pend] in *.
      destruct pc0 as [|v j0|v j0| |j0| |]; try (rewrite (I j Hj) in Hc; lia); try destruct I.
      * rewrite (H0 j Hj) in Hc. lia.
      * destruct H0 as [-> _]. cbn in C. lia.
      * subst pend. cbn in C. lia.
      * subst pend. cbn in C. lia.
  - apply sync_inv in H. destruct H as [_ I]. destruct s as [pc0 pend]. cbn [o_pc] in I.
    destruct pc0 as [|v j0|v j0| |j0| |]; try destruct I.
    + destruct (I j Hj) as [Ho Hc]. rewrite Ho, Hc. split; [apply prefix_refl|reflexivity].
    + destruct H0 as (c' & Ec & I). destruct (I j Hj) as [Hc Ho]. rewrite Ho, Hc, Ec.
      split; [|discriminate]. destruct (j <? j0); [apply prefix_refl|apply prefix_app_l].
    + destruct (I j Hj) as [Ho Hc]. rewrite Ho, Hc. split; [apply prefix_refl|reflexivity].
    + destruct (H0 j Hj) as [Ho Hc]. rewrite Ho. split; [apply prefix_refl|reflexivity].
    + destruct (I j Hj) as [Ho Hc]. rewrite Ho. split; [apply prefix_refl|reflexivity].
    + destruct (I j Hj) as [Ho Hc]. rewrite Ho. split; [apply prefix_refl|reflexivity].
Qed.

(* when the fan-out goroutine is gone every output was closed exactly once and, in synchronous mode, received
   the input sequence itself; in asynchronous mode each value as often as it was received *)
Theorem fanout_close async tr :
  run (fanout_step Teqb async n) fanout_init tr = Some {| o_pc := ODone; o_pend := [] |} \/
  (exists p, run (fanout_step Teqb async n) fanout_init tr = Some {| o_pc := ODone; o_pend := p |}) ->
  forall j, j < n -> closes_of j tr = 1.
Proof.
  intros H j Hj. assert (H' : exists p, run (fanout_step Teqb async n) fanout_init tr = Some {| o_pc := ODone; o_pend := p |}).
  { destruct H as [H|H]; [now exists []|exact H]. }
  destruct H' as [p H']. destruct async.
  - apply async_inv in H'. destruct H' as [_ [_ I]]. auto.
  - apply sync_inv in H'. destruct H' as [_ I]. cbn [o_pc] in I. now destruct (I j Hj).
Qed.

End FanOut.

(* counting occurrences = permutation *)
Definition T_dec : forall a b : T, {a = b} + {a <> b}.
Proof.
  intros a b. destruct (Teqb a b) eqn:E; [left; now apply Teqb_ok|right].
  intros ->. rewrite (proj2 (Teqb_ok b b) eq_refl) in E. discriminate.
Defined.

Lemma cnt_count_occ x (l : list T) : cnt Teqb x l = count_occ T_dec l x.
Proof.
  unfold cnt. induction l as [|y l IH]; [reflexivity|]. cbn [filter count_occ].
  destruct (T_dec y x) as [->|Ne].
  - rewrite (proj2 (Teqb_ok x x) eq_refl). cbn [length]. now rewrite IH.
  - destruct (Teqb x y) eqn:E; [apply Teqb_ok in E; congruence|exact IH].
Qed.

Theorem cnt_perm (a b : list T) : (forall x, cnt Teqb x a = cnt Teqb x b) <-> Permutation a b.
Proof.
  rewrite (Permutation_count_occ T_dec). split; intros H x; specialize (H x); now rewrite ?cnt_count_occ in *.
Qed.

Lemma forall_cnt_le (o ins : list T) :
  forallb (fun x => cnt Teqb x o <=? cnt Teqb x ins) o = true <-> forall x, cnt Teqb x o <= cnt Teqb x ins.
Proof.
  rewrite forallb_forall. split.
  - intros H x. destruct (cnt Teqb x o) eqn:E; [lia|]. rewrite <- E. apply Nat.leb_le. apply H. apply cnt_pos_in. lia.
  - intros H x _. apply Nat.leb_le. apply H.
Qed.
Lemma forall_cnt_eq (o ins : list T) :
  forallb (fun x => Nat.eqb (cnt Teqb x o) (cnt Teqb x ins)) (o ++ ins) = true <-> forall x, cnt Teqb x o = cnt Teqb x ins.
Proof.
  rewrite forallb_forall. split.
  - intros H x. destruct (cnt Teqb x o) eqn:E1.
    + destruct (cnt Teqb x ins) eqn:E2; [reflexivity|]. rewrite <- E1, <- E2. apply Nat.eqb_eq. apply H.
      apply in_or_app. right. apply cnt_pos_in. lia.
    + rewrite <- E1. apply Nat.eqb_eq. apply H. apply in_or_app. left. apply cnt_pos_in. lia.
  - intros H x _. apply Nat.eqb_eq. apply H.
Qed.

Theorem fanout_rel_b_ok async n ins outs closed :
  fanout_rel_b Teqb async n ins outs closed = true <-> fanout_rel Teqb async n ins outs closed.
Proof.
  unfold fanout_rel_b, fanout_rel. rewrite !andb_true_iff, !Nat.eqb_eq, forallb_forall.
  split.
  - intros [[H1 H2] H3]. split; [exact H1|]. split; [exact H2|]. intros j Hj. cbv zeta.
    assert (Hin : In j (seq 0 n)) by (apply in_seq; lia). specialize (H3 j Hin). cbv zeta in H3. destruct async.
    + apply andb_true_iff in H3 as [A B]. split; [now apply forall_cnt_le|].
      intros Hc. rewrite Hc in B. cbn [negb orb] in B. now apply forall_cnt_eq.
    + apply andb_true_iff in H3 as [A B]. split; [now apply (prefix_b_ok Teqb Teqb_ok)|].
      intros Hc. rewrite Hc in B. cbn [negb orb] in B. now apply (leqb_ok Teqb Teqb_ok).
  - intros (H1 & H2 & H3). split; [split; assumption|]. intros j Hj. apply in_seq in Hj. cbv zeta.
    specialize (H3 j ltac:(lia)). cbv zeta in H3. destruct async.
    + destruct H3 as [A B]. apply andb_true_iff. split; [now apply forall_cnt_le|].
      destruct (nth j closed false); [|reflexivity]. cbn [negb orb]. apply forall_cnt_eq. now apply B.
    + destruct H3 as [A B]. apply andb_true_iff. split; [now apply (prefix_b_ok Teqb Teqb_ok)|].
      destruct (nth j closed false); [|reflexivity]. cbn [negb orb]. apply (leqb_ok Teqb Teqb_ok). now apply B.
Qed.

End PF.
