(* C18 property theorems. Nothing but statements closed by [exact]/[apply] and Print Assumptions.
   Teqb is any decidable equality on the value type (premise Teqb_ok); the checker instantiates T := Z.
   "trace" = any label sequence the executable transition system accepts from its initial state: the
   environment (producers, consumers, owner of the context) is unconstrained. *)
From VF Require Import C18.Stage C18.Rel C18.Proofs C18.ProofsFan C18.ProofsMisc C18.Check.

Section Props.
Context {T : Type}.
Variable Teqb : T -> T -> bool.
Hypothesis Teqb_ok : forall a b, Teqb a b = true <-> a = b.

(* every trace of a one-in one-out stage (TaskN, TaskFn, TaskWhile, SkipN, SkipFn, SkipWhile, MapChan, Pipeline):
   what was sent is a prefix of the transducer's function of what was received; equal to it once closed without
   cancellation *)
Theorem C18_stage_safe : forall (M : transducer T) (nil_in : bool) (tr : list (label T)) (s : pc T),
  run (step Teqb M) (stage_init M nil_in) tr = Some s ->
  stage_rel M 0 (ins_of 0 tr) (outs_of 0 tr) (closed_of 0 tr) (has_ctx tr).
Proof. exact (stage_safe Teqb Teqb_ok). Qed.

(* ... together with the user-function calls: in every trace the predicate / map function is applied exactly to the
   received elements the combinator evaluates (uses_of), in order, once each; never to anything else (in
   particular not to a fabricated zero value when the receive reports the input closed) *)
Theorem C18_stage_safe_calls : forall (M : transducer T) (uses : nat -> bool) (nil_in : bool) (tr : list (label T)) (s : pc T),
  run (step Teqb M) (stage_init M nil_in) tr = Some s ->
  stage_rel_c M uses 0 (ins_of 0 tr) (outs_of 0 tr) (closed_of 0 tr) (has_ctx tr) (tr_calls M uses 0 (ins_of 0 tr)).
Proof. exact (stage_safe_c Teqb Teqb_ok). Qed.
Theorem C18_calls_received_only : forall (M : transducer T) (uses : nat -> bool) (c : list T) (q : nat),
  exists mask : list bool, length mask = length c /\ tr_calls M uses q c = map snd (filter fst (combine mask c)).
Proof. exact tr_calls_sub. Qed.
Theorem C18_stage_rel_c_b_ok : forall (M : transducer T) uses incap ins outs closed cancelled calls,
  stage_rel_c_b Teqb M uses incap ins outs closed cancelled calls = true <->
  stage_rel_c M uses incap ins outs closed cancelled calls.
Proof. exact (stage_rel_c_b_ok Teqb Teqb_ok). Qed.

(* the transducer of each combinator computes the list function the property names *)
Theorem C18_stage_function : forall (k : kind T) (xs : list T), tr_run (tr_of k) 0 xs = fn_of k xs.
Proof. exact stage_function. Qed.

(* without cancellation the output is closed only after the input closed (everything received was processed),
   or the combinator's own loop ended (TaskN after n, TaskWhile after its match), or MapChan got nil *)
Theorem C18_stage_close_cause : forall (M : transducer T) (nil_in : bool) (tr : list (label T)) (s : pc T),
  run (step Teqb M) (stage_init M nil_in) tr = Some s -> closed_of 0 tr = true -> has_ctx tr = false ->
  outs_of 0 tr = tr_run M 0 (ins_of 0 tr) /\
  (in_closed 0 tr = true \/ t_fin M (tr_state M 0 (ins_of 0 tr)) = true \/ nil_in = true).
Proof. exact (stage_close_cause Teqb Teqb_ok). Qed.

(* every terminal state is preceded by exactly one close_out, which is the last act before the goroutine ends:
   no value is sent after the close *)
Theorem C18_stage_close : forall (M : transducer T) (nil_in : bool) (tr : list (label T)),
  run (step Teqb M) (stage_init M nil_in) tr = Some PDone ->
  closes_of 0 tr = 1 /\
  exists tr1, tr = tr1 ++ [close_out 0; exit 0] /\ closes_of 0 tr1 = 0 /\ outs_of 0 tr = outs_of 0 tr1.
Proof. exact (stage_close Teqb Teqb_ok). Qed.

(* a ctx-aware stage blocked on a channel operation has ctx_done enabled, and from there the goroutine ends in
   two further steps (close_out, exit) which are the only ones possible *)
Theorem C18_stage_cancel : forall (M : transducer T) (s : pc T),
  t_aware M = true -> blocked s = true ->
  step Teqb M s ctx_done = Some PClose /\
  run (step Teqb M) s [ctx_done; close_out 0; exit 0] = Some PDone /\
  (forall l s', step Teqb M PClose l = Some s' -> l = close_out 0 /\ s' = PClosed) /\
  (forall l s', step Teqb M PClosed l = Some s' -> l = exit 0 /\ s' = PDone).
Proof.
  intros M s Ha Hb. pose proof (stage_cancel Teqb M s Ha Hb) as H.
  destruct (cancel_then_exit Teqb M) as (H1 & H2 & H3 & _).
  split; [exact H|]. split; [cbn [run]; rewrite H; exact H3|]. split; assumption.
Qed.

(* the stages that do not watch ctx (MapChan, Pipeline) never leave by ctx_done *)
Theorem C18_unaware_no_ctx : forall (M : transducer T), t_aware M = false ->
  forall tr s s0, run (step Teqb M) s0 tr = Some s -> has_ctx tr = false.
Proof. exact (unaware_no_ctx Teqb). Qed.

Theorem C18_stage_rel_b_ok : forall (M : transducer T) incap ins outs closed cancelled,
  stage_rel_b Teqb M incap ins outs closed cancelled = true <-> stage_rel M incap ins outs closed cancelled.
Proof. exact (stage_rel_b_ok Teqb Teqb_ok). Qed.

(* Stream *)
Theorem C18_stream_safe : forall (values : list T) (tr : list (label T)) (s : spc T),
  run (stream_step Teqb) (stream_init values) tr = Some s ->
  stage_rel (tr_of KStreamId) (length values) values (outs_of 0 tr) (closed_of 0 tr) (has_ctx tr).
Proof. exact (stream_safe Teqb Teqb_ok). Qed.
Theorem C18_stream_close_cancel : forall (values rest : list T) (tr : list (label T)),
  (run (stream_step Teqb) (stream_init values) tr = Some SDone -> closes_of 0 tr = 1) /\
  stream_step Teqb (SSend rest) ctx_done = Some SClose /\
  run (stream_step Teqb) SClose [close_out 0; exit 0] = Some SDone.
Proof.
  intros values rest tr. split; [apply (stream_close Teqb Teqb_ok)|apply stream_cancel].
Qed.

(* FanInRec / MergeChannel: the output is a merge of the sources (per-source order kept, multiset union), up to
   one received value not yet sent; the output is closed once, after every non-nil source was seen closed *)
Theorem C18_fanin_safe : forall (open0 : list bool) (tr : list (label T)) (s : fpc T),
  run (fanin_step Teqb) (fanin_init open0) tr = Some s ->
  fanin_rel (srcs_of open0 tr) (outs_of 0 tr) (closed_of 0 tr).
Proof. exact (fanin_safe Teqb Teqb_ok). Qed.
Theorem C18_fanin_close : forall (open0 : list bool) (tr : list (label T)),
  run (fanin_step Teqb) (fanin_init open0) tr = Some FDone ->
  closes_of 0 tr = 1 /\ Merge (srcs_of open0 tr) (outs_of 0 tr) /\
  forall j, j < length open0 -> nth j open0 false = true -> in_closed j tr = true.
Proof. exact (fanin_close Teqb Teqb_ok). Qed.
Theorem C18_fanin_rel_b_ok : forall (ins : list (list T)) (outs : list T) closed,
  fanin_rel_b Teqb ins outs closed = true <-> fanin_rel ins outs closed.
Proof. exact (fanin_rel_b_ok Teqb Teqb_ok). Qed.

(* FanOut: every output gets every input: synchronously the sequence itself, asynchronously each value as often
   as it was received (a permutation once closed); every output is closed exactly once at the end *)
Theorem C18_fanout_safe : forall (n : nat) (async : bool) (tr : list (label T)) (s : ostate T),
  run (fanout_step Teqb async n) fanout_init tr = Some s ->
  fanout_rel Teqb async n (ins_of 0 tr) (outs_list n tr) (closed_list n tr).
Proof. exact (fanout_safe Teqb Teqb_ok). Qed.
Theorem C18_fanout_close : forall (n : nat) (async : bool) (tr : list (label T)) p,
  run (fanout_step Teqb async n) fanout_init tr = Some {| o_pc := ODone; o_pend := p |} ->
  forall j, j < n -> closes_of j tr = 1.
Proof. intros n async tr p H. apply (fanout_close Teqb Teqb_ok n async tr). right. now exists p. Qed.
Theorem C18_fanout_perm : forall (a b : list T), (forall x, cnt Teqb x a = cnt Teqb x b) <-> Permutation a b.
Proof. exact (cnt_perm Teqb Teqb_ok). Qed.
Theorem C18_fanout_rel_b_ok : forall async n (ins : list T) outs closed,
  fanout_rel_b Teqb async n ins outs closed = true <-> fanout_rel Teqb async n ins outs closed.
Proof. exact (fanout_rel_b_ok Teqb Teqb_ok). Qed.

(* Orderly: the start/finish log is a prefix of s0 f0 s1 f1 ..., the whole of it on return; in particular task
   i+1 is started only after task i has finished *)
Theorem C18_orderly : forall (n : nat) (tr : list (label T)) (s : ypc),
  run (orderly_step n) (YRun 0) tr = Some s ->
  orderly_rel n (log_of tr) (returned s) /\
  forall t1 t2 i, tr = t1 ++ spawn (S i) :: t2 -> In (exit i) t1.
Proof. intros n tr s H. split; [now apply orderly_safe|now apply (orderly_after n tr s)]. Qed.

(* ReduceChan = fold_left (zero value for a nil or empty input) *)
Theorem C18_reduce_fold : forall (zero : T) (fn : T -> T -> T) (nil_in : bool) (tr : list (label T)) (r : T),
  run (reduce_step zero fn) (reduce_init zero nil_in) tr = Some (RRet r) ->
  r = match ins_of 0 tr with [] => zero | x :: rest => fold_left fn rest x end.
Proof. exact reduce_fold. Qed.

End Props.

(* the run-time checker accepts exactly the recorded observations that satisfy the relations *)
Theorem C18_check_spec : forall c, prop_ok c = true <-> case_rel c.
Proof. exact prop_ok_spec. Qed.
Theorem C18_orderly_rel_b_ok : forall n log ret, orderly_rel_b n log ret = true <-> orderly_rel n log ret.
Proof. exact orderly_rel_b_ok. Qed.

(* non-vacuity: SkipN 1 receives 5, 6, 7; is cancelled while offering 7; closes; the run is accepted, a run that
   skipped two values is rejected; a fan-out and a fan-in trace exist *)
Example C18_nonvacuous :
  let M := tr_of (KSkipN 1 : kind Z) in
  let tr := [recv 0 5%Z; recv 0 6%Z; send 0 6%Z; recv 0 7%Z; ctx_done; close_out 0; exit 0] in
  run (step Z.eqb M) (stage_init M false) tr = Some PDone /\
  outs_of 0 tr = [6%Z] /\ has_ctx tr = true /\ closes_of 0 tr = 1 /\
  check_case (KStage (CSkipN 1) false 0 [5; 6; 7]%Z [6]%Z true true []) = 0 /\
  check_case (KStage (CSkipN 1) false 0 [5; 6; 7]%Z [6; 7]%Z true false []) = 0 /\
  check_case (KStage (CSkipN 1) false 0 [5; 6; 7]%Z [7]%Z true false []) = 2 /\
  check_case (KStage (CSkipN 1) false 0 [5; 6; 7]%Z [6]%Z true false []) = 2 /\
  check_case (KStage (CTaskN 1) false 0 [5]%Z [5]%Z true false []) = 0 /\
  check_case (KStage (CSkipFn (PLt 3)) false 0 [1; 4]%Z [4]%Z true false [1; 4]%Z) = 0 /\
  check_case (KStage (CSkipFn (PLt 3)) false 0 [1; 4]%Z [4]%Z true false [1; 4; 0]%Z) = 2 /\   (* fn called on a phantom element *)
  check_case (KStage (CSkipWhile (PLt 3)) false 0 [1; 4; 2]%Z [4; 2]%Z true false [1; 4]%Z) = 0 /\
  check_case (KReduce false RSub [5; 2; 1]%Z 2 [(5, 2); (3, 1)]%Z) = 0 /\
  check_case (KReduce false RSub [5; 2; 1]%Z 2 [(0, 5); (5, 2); (3, 1)]%Z) = 2 /\
  check_case (KStage (CTaskN 1) false 0 [5; 6]%Z [5]%Z true false []) = 2 /\     (* consumed an element after its loop had ended *)
  check_case (KStage (CTaskN 1) false 1 [5; 6]%Z [5]%Z true false []) = 0 /\     (* ... unless it may still sit in the input buffer *)
  run (fanout_step Z.eqb true 2) fanout_init
      [recv 0 1%Z; spawn 0; spawn 1; send 1 1%Z; recv_closed 0; send 0 1%Z; tau; close_out 0; close_out 1; exit 0]
    = Some {| o_pc := ODone; o_pend := [] |} /\
  run (fanin_step Z.eqb) (fanin_init [true; false; true])
      [recv 2 9%Z; send 0 9%Z; recv_closed 0; recv 2 8%Z; send 0 8%Z; recv_closed 2; close_out 0; exit 0] = Some FDone /\
  check_case (KFanIn [[1; 2]; []; [3]]%Z [3; 1; 2]%Z true) = 0 /\
  check_case (KFanIn [[1; 2]; []; [3]]%Z [2; 1; 3]%Z true) = 2.
Proof. vm_compute. repeat split; reflexivity. Qed.

Print Assumptions C18_stage_safe.
Print Assumptions C18_stage_safe_calls.
Print Assumptions C18_calls_received_only.
Print Assumptions C18_stage_rel_c_b_ok.
Print Assumptions C18_stage_function.
Print Assumptions C18_stage_close_cause.
Print Assumptions C18_stage_close.
Print Assumptions C18_stage_cancel.
Print Assumptions C18_unaware_no_ctx.
Print Assumptions C18_stage_rel_b_ok.
Print Assumptions C18_stream_safe.
Print Assumptions C18_stream_close_cancel.
Print Assumptions C18_fanin_safe.
Print Assumptions C18_fanin_close.
Print Assumptions C18_fanin_rel_b_ok.
Print Assumptions C18_fanout_safe.
Print Assumptions C18_fanout_close.
Print Assumptions C18_fanout_perm.
Print Assumptions C18_fanout_rel_b_ok.
Print Assumptions C18_orderly.
Print Assumptions C18_reduce_fold.
Print Assumptions C18_check_spec.
Print Assumptions C18_orderly_rel_b_ok.
