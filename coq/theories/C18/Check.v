(* C18 correspondence checker: decides one recorded run of a real bconcurrent combinator (values are int = Z).
   What is recorded is only what each side of a channel observes (Rel.v); the verdict is the boolean twin of the
   relation the transition system was proved to imply, plus liveness of the recorded run (the output was seen
   closed before the harness deadline).  kind 2 = the recorded observation violates the relation / was not closed;
   kind 1 = relation holds but the run without cancellation differs from the list function of the model
   (cannot happen when both theorems hold: kept as a cross-check of Rel against fn_of). *)
From VF Require Import C18.Stage C18.Rel C18.Proofs C18.ProofsFan C18.ProofsMisc.
Local Open Scope Z_scope.

Inductive pred := PTrue | PFalse | PModEq (m r : Z) | PLt (c : Z).
Definition pred_eval (p : pred) (v : Z) : bool :=
  match p with
  | PTrue => true | PFalse => false
  | PModEq m r => v mod m =? r
  | PLt c => v <? c
  end.

Inductive comb :=
| CStream | CTaskN (n : nat) | CTaskFn (p : pred) | CTaskWhile (p : pred)
| CSkipN (n : nat) | CSkipFn (p : pred) | CSkipWhile (p : pred)
| CMapChan (a b : Z)                    (* fn v = a * v + b *)
| CPipeline.

Definition kind_of_comb (c : comb) : kind Z :=
  match c with
  | CStream => KStreamId
  | CTaskN n => KTaskN n
  | CTaskFn p => KTaskFn (pred_eval p)
  | CTaskWhile p => KTaskWhile (pred_eval p)
  | CSkipN n => KSkipN n
  | CSkipFn p => KSkipFn (pred_eval p)
  | CSkipWhile p => KSkipWhile (pred_eval p)
  | CMapChan a b => KMap (fun v => a * v + b)
  | CPipeline => KPipe
  end.

(* reducers handed to ReduceChan. The zero value 0 is a left identity of the sum only: a fold that started from
   the zero value instead of the first element shows with every other member (product, max/min across 0,
   subtraction, keep-first, the affine one with b <> 0). *)
Inductive rfn := RSum | RProd | RMax | RMin | RSub | RFirst | RLast | RAffine (a b : Z).   (* r * a + v + b *)
Definition reduce_fn (f : rfn) (r v : Z) : Z :=
  match f with
  | RSum => r + v | RProd => r * v | RMax => Z.max r v | RMin => Z.min r v | RSub => r - v
  | RFirst => r | RLast => v | RAffine a b => r * a + v + b
  end.

Inductive case :=
| KStage (c : comb) (nil_in : bool) (incap : nat) (ins outs : list Z) (closed cancelled : bool)
         (calls : list Z)        (* the arguments the user's predicate / map function was called with, in order *)
| KFanIn (ins : list (list Z)) (outs : list Z) (closed : bool)          (* FanInRec / MergeChannel; a nil source is [] *)
| KFanOut (async : bool) (ins : list Z) (outs : list (list Z)) (closed : list bool)
| KReduce (nil_in : bool) (a : rfn) (ins : list Z) (result : Z) (calls : list (Z * Z))   (* reducer argument pairs *)
| KOrderly (n : nat) (log : list (nat * bool)) (returned : bool)
(* the caller's argument slice (tasks, channels, values) compared element by element with a copy taken before the call *)
| KUntouched (same : bool).

Definition zz_eqb (x y : Z * Z) : bool := (fst x =? fst y) && (snd x =? snd y).
Definition isnil {A} (l : list A) : bool := match l with [] => true | _ => false end.

(* the property, on what the implementation showed *)
Definition prop_ok (c : case) : bool :=
  match c with
  | KStage cb nil_in incap ins outs closed cancelled calls =>
      closed && (negb nil_in || isnil ins) &&
      stage_rel_c_b Z.eqb (tr_of (kind_of_comb cb)) (uses_of (kind_of_comb cb)) incap ins outs closed cancelled calls
  | KFanIn ins outs closed => closed && fanin_rel_b Z.eqb ins outs closed
  | KFanOut async ins outs closed =>
      forallb (fun b => b) closed && fanout_rel_b Z.eqb async (length outs) ins outs closed
  | KReduce nil_in a ins result calls =>
      (negb nil_in || isnil ins) && (result =? reduce_spec 0 (reduce_fn a) ins) &&
      list_eqb zz_eqb calls (reduce_calls (reduce_fn a) ins)
  | KOrderly n log returned => returned && orderly_rel_b n log returned
  | KUntouched same => same
  end.

(* without cancellation the output is the list function itself *)
Definition model_ok (c : case) : bool :=
  match c with
  | KStage cb _ _ ins outs closed cancelled _ =>
      cancelled || negb closed || leqb Z.eqb outs (fn_of (kind_of_comb cb) ins)
  | _ => true
  end.

Definition check_case (c : case) : nat :=
  if negb (prop_ok c) then 2 else if negb (model_ok c) then 1 else 0.

Definition mismatches (cs : list case) : list (nat * nat) := find_bad check_case cs.

(* what an accepted case means *)
Definition case_rel (c : case) : Prop :=
  match c with
  | KStage cb nil_in incap ins outs closed cancelled calls =>
      closed = true /\ (nil_in = true -> ins = []) /\
      stage_rel_c (tr_of (kind_of_comb cb)) (uses_of (kind_of_comb cb)) incap ins outs closed cancelled calls
  | KFanIn ins outs closed => closed = true /\ Merge ins outs
  | KFanOut async ins outs closed =>
      Forall (fun b => b = true) closed /\ fanout_rel Z.eqb async (length outs) ins outs closed
  | KReduce nil_in a ins result calls =>
      (nil_in = true -> ins = []) /\ result = match ins with [] => 0 | x :: r => fold_left (reduce_fn a) r x end /\
      calls = reduce_calls (reduce_fn a) ins
  | KOrderly n log returned => returned = true /\ log = orderly_expected n
  | KUntouched same => same = true
  end.

Lemma Zeqb_ok : forall a b : Z, Z.eqb a b = true <-> a = b.
Proof. exact Z.eqb_eq. Qed.

Lemma zz_eqb_ok a b : zz_eqb a b = true <-> a = b.
Proof.
  unfold zz_eqb. rewrite andb_true_iff, !Z.eqb_eq. destruct a, b. cbn [fst snd].
  split; [intros [-> ->]; reflexivity|intros E; inversion E; auto].
Qed.

Lemma isnil_ok {A} (l : list A) : isnil l = true <-> l = [].
Proof. destruct l; cbn; split; congruence. Qed.

Lemma imp_b (a b : bool) (P : Prop) : (b = true <-> P) -> (negb a || b = true <-> (a = true -> P)).
Proof.
  intros H. destruct a; cbn.
  - rewrite H. split; [intros p _; exact p|intros p; apply p; reflexivity].
  - split; [intros _ E; discriminate|reflexivity].
Qed.

Theorem prop_ok_spec c : prop_ok c = true <-> case_rel c.
Proof.
  destruct c as [cb nil_in incap ins outs closed cancelled calls|ins outs closed|async ins outs closed|nil_in a ins result calls|n log returned|same];
    cbn [prop_ok case_rel].
  - rewrite !andb_true_iff, (stage_rel_c_b_ok Z.eqb Zeqb_ok), (imp_b _ _ _ (isnil_ok ins)). tauto.
  - rewrite andb_true_iff, (fanin_rel_b_ok Z.eqb Zeqb_ok). unfold fanin_rel.
    split; [intros [-> H]; auto|intros [-> H]; auto].
  - rewrite andb_true_iff, (fanout_rel_b_ok Z.eqb Zeqb_ok), forallb_forall, Forall_forall. tauto.
  - rewrite !andb_true_iff, (imp_b _ _ _ (isnil_ok ins)), Z.eqb_eq, (list_eqb_eq zz_eqb zz_eqb_ok). unfold reduce_spec. tauto.
  - rewrite andb_true_iff, orderly_rel_b_ok. unfold orderly_rel. split.
    + intros [-> [_ H]]. auto.
    + intros [-> ->]. split; [reflexivity|]. split; [exists []; now rewrite app_nil_r|reflexivity].
  - tauto.
Qed.
