(* C18 proofs, part 1: the generic one-input one-output stage, Stream, the list functions, the boolean twin. *)
From VF Require Import C18.Stage C18.Rel.

Section P.
Context {T : Type}.
Variable Teqb : T -> T -> bool.
Hypothesis Teqb_ok : forall a b, Teqb a b = true <-> a = b.

Lemma Teqb_refl a : Teqb a a = true.
Proof. now apply Teqb_ok. Qed.

(* ---------- traces ---------- *)
Lemma run_app {S} (stp : S -> label T -> option S) t1 : forall s t2,
  run stp s (t1 ++ t2) = match run stp s t1 with Some s' => run stp s' t2 | None => None end.
Proof.
  induction t1 as [|l t1 IH]; intros s t2; cbn [run app]; [reflexivity|].
  destruct (stp s l) as [s'|]; [apply IH|reflexivity].
Qed.

Lemma run_snoc {S} (stp : S -> label T -> option S) s tr l :
  run stp s (tr ++ [l]) = match run stp s tr with Some s' => stp s' l | None => None end.
Proof.
  rewrite run_app. destruct (run stp s tr) as [s'|]; [|reflexivity].
  cbn [run]. destruct (stp s' l); reflexivity.
Qed.

Definition in_lab (i : nat) (l : label T) : list T :=
  match l with recv i' v => if Nat.eqb i i' then [v] else [] | _ => [] end.
Definition out_lab (j : nat) (l : label T) : list T :=
  match l with send j' v => if Nat.eqb j j' then [v] else [] | _ => [] end.
Definition close_lab (j : nat) (l : label T) : nat :=
  match l with close_out j' => if Nat.eqb j j' then 1 else 0 | _ => 0 end.
Definition ctx_lab (l : label T) : bool := match l with ctx_done => true | _ => false end.
Definition rc_lab (i : nat) (l : label T) : bool := match l with recv_closed i' => Nat.eqb i i' | _ => false end.

Lemma ins_snoc i tr l : ins_of i (tr ++ [l]) = ins_of i tr ++ in_lab i l.
Proof. unfold ins_of. rewrite flat_map_app. cbn [flat_map]. rewrite app_nil_r. destruct l; reflexivity. Qed.
Lemma outs_snoc j tr l : outs_of j (tr ++ [l]) = outs_of j tr ++ out_lab j l.
Proof. unfold outs_of. rewrite flat_map_app. cbn [flat_map]. rewrite app_nil_r. destruct l; reflexivity. Qed.
Lemma closes_snoc j tr l : closes_of j (tr ++ [l]) = closes_of j tr + close_lab j l.
Proof.
  unfold closes_of. rewrite filter_app, app_length. f_equal. cbn [filter].
  destruct l; cbn [close_lab length]; try reflexivity. destruct (Nat.eqb j j0); reflexivity.
Qed.
Lemma ctx_snoc tr l : @has_ctx T (tr ++ [l]) = has_ctx tr || ctx_lab l.
Proof. unfold has_ctx. rewrite existsb_app. cbn [existsb]. rewrite orb_false_r. destruct l; reflexivity. Qed.
Lemma rc_snoc i tr l : @in_closed T i (tr ++ [l]) = in_closed i tr || rc_lab i l.
Proof. unfold in_closed. rewrite existsb_app. cbn [existsb]. rewrite orb_false_r. destruct l; reflexivity. Qed.

(* ---------- prefixes ---------- *)
Lemma prefix_refl (a : list T) : prefix a a.
Proof. exists []. now rewrite app_nil_r. Qed.
Lemma prefix_app_l (a r : list T) : prefix a (a ++ r).
Proof. now exists r. Qed.
Lemma prefix_trans (a b c : list T) : prefix a b -> prefix b c -> prefix a c.
Proof. intros [r1 ->] [r2 ->]. exists (r1 ++ r2). now rewrite app_assoc. Qed.

Lemma prefix_b_ok : forall a b : list T, prefix_b Teqb a b = true <-> prefix a b.
Proof.
  induction a as [|x a IH]; intros b; cbn [prefix_b].
  - split; [intros _; now exists b|reflexivity].
  - destruct b as [|y b].
    + split; [discriminate|]. intros [r H]. discriminate.
    + rewrite andb_true_iff, Teqb_ok, IH. split.
      * intros [-> [r ->]]. now exists r.
      * intros [r H]. cbn [app] in H. inversion H; subst. split; [reflexivity|now exists r].
Qed.

Lemma leqb_ok (a b : list T) : leqb Teqb a b = true <-> a = b.
Proof. unfold leqb. apply list_eqb_eq. exact Teqb_ok. Qed.

Lemma prefix_firstn (c ins : list T) : prefix c ins <-> exists n, n <= length ins /\ c = firstn n ins.
Proof.
  split.
  - intros [r ->]. exists (length c). split; [rewrite app_length; lia|].
    rewrite firstn_app, Nat.sub_diag, firstn_all. cbn [firstn]. now rewrite app_nil_r.
  - intros (n & _ & ->). exists (skipn n ins). now rewrite firstn_skipn.
Qed.

(* ---------- transducers ---------- *)
Lemma tr_snoc (M : transducer T) : forall c q v,
  tr_run M q (c ++ [v]) =
    tr_run M q c ++ (if t_fin M (tr_state M q c) then [] else emitted (snd (t_react M (tr_state M q c) v))) /\
  tr_state M q (c ++ [v]) =
    (if t_fin M (tr_state M q c) then tr_state M q c else fst (t_react M (tr_state M q c) v)).
Proof.
  induction c as [|x c IH]; intros q v; cbn [app tr_run tr_state].
  - destruct (t_fin M q) eqn:F; [split; reflexivity|].
    destruct (t_react M q v) as [q' a]. cbn [fst snd]. now rewrite app_nil_r.
  - destruct (t_fin M q) eqn:F; [rewrite F; split; reflexivity|].
    destruct (t_react M q x) as [q1 a] eqn:R. cbn [fst].
    destruct (IH q1 v) as [IH1 IH2]. rewrite IH1, IH2. split; [now rewrite app_assoc|reflexivity].
Qed.

Lemma tr_live_snoc (M : transducer T) : forall c q v,
  tr_live M q (c ++ [v]) = tr_live M q c && negb (t_fin M (tr_state M q c)).
Proof.
  induction c as [|x c IH]; intros q v; cbn [app tr_live tr_state].
  - now rewrite andb_true_r.
  - destruct (t_fin M q) eqn:F; cbn [negb andb]; [reflexivity|]. apply IH.
Qed.

Lemma tr_live_nofin (M : transducer T) : (forall q, t_fin M q = false) -> forall c q, tr_live M q c = true.
Proof. intros H. induction c as [|x c IH]; intros q; cbn [tr_live]; [reflexivity|]. now rewrite H, IH. Qed.

(* the list function of each combinator *)
Lemma fn_taskn n : forall (xs : list T) q, tr_run (tr_of (KTaskN n)) q xs = firstn (n - q) xs.
Proof.
  induction xs as [|x r IH]; intros q; cbn [tr_run tr_of t_fin t_react].
  - now rewrite firstn_nil.
  - destruct (n <=? q) eqn:E.
    + apply Nat.leb_le in E. replace (n - q) with 0 by lia. reflexivity.
    + apply Nat.leb_gt in E. rewrite IH. cbn [emitted app].
      replace (n - q) with (S (n - S q)) by lia. reflexivity.
Qed.
Lemma fn_taskfn p : forall (xs : list T) q, tr_run (tr_of (KTaskFn p)) q xs = filter p xs.
Proof.
  induction xs as [|x r IH]; intros q; cbn [tr_run tr_of t_fin t_react filter]; [reflexivity|].
  rewrite IH. destruct (p x); reflexivity.
Qed.
Lemma fn_taskwhile p : forall (xs : list T), tr_run (tr_of (KTaskWhile p)) 0 xs = find_first p xs.
Proof.
  induction xs as [|x r IH]; cbn [tr_run tr_of t_fin t_react find_first]; [reflexivity|].
  cbn [Nat.leb]. destruct (p x).
  - cbn [emitted app]. destruct r; reflexivity.
  - cbn [emitted app]. exact IH.
Qed.
Lemma fn_skipn_all n : forall (xs : list T) q, n <= q -> tr_run (tr_of (KSkipN n)) q xs = xs.
Proof.
  induction xs as [|x r IH]; intros q H; cbn [tr_run tr_of t_fin t_react]; [reflexivity|].
  destruct (q <? n) eqn:E; [apply Nat.ltb_lt in E; lia|]. cbn [emitted app]. now rewrite IH.
Qed.
Lemma fn_skipn n : forall (xs : list T) q, q <= n -> tr_run (tr_of (KSkipN n)) q xs = skipn (n - q) xs.
Proof.
  induction xs as [|x r IH]; intros q H.
  - now rewrite skipn_nil.
  - cbn [tr_run tr_of t_fin t_react]. destruct (q <? n) eqn:E.
    + apply Nat.ltb_lt in E. cbn [emitted app]. rewrite IH by lia.
      replace (n - q) with (S (n - S q)) by lia. reflexivity.
    + apply Nat.ltb_ge in E. replace (n - q) with 0 by lia. cbn [emitted app skipn].
      f_equal. apply fn_skipn_all. lia.
Qed.
Lemma fn_skipfn p : forall (xs : list T) q, tr_run (tr_of (KSkipFn p)) q xs = filter (fun x => negb (p x)) xs.
Proof.
  induction xs as [|x r IH]; intros q; cbn [tr_run tr_of t_fin t_react filter]; [reflexivity|].
  rewrite IH. destruct (p x); reflexivity.
Qed.
Lemma fn_skipwhile_pass p : forall (xs : list T) q, tr_run (tr_of (KSkipWhile p)) (S q) xs = xs.
Proof.
  induction xs as [|x r IH]; intros q; cbn [tr_run tr_of t_fin t_react]; [reflexivity|].
  cbn [emitted app]. now rewrite IH.
Qed.
Lemma fn_skipwhile p : forall (xs : list T), tr_run (tr_of (KSkipWhile p)) 0 xs = drop_while p xs.
Proof.
  induction xs as [|x r IH]; cbn [tr_run tr_of t_fin t_react drop_while]; [reflexivity|].
  destruct (p x); cbn [emitted app]; [exact IH|]. f_equal. apply fn_skipwhile_pass.
Qed.
Lemma fn_map g : forall (xs : list T) q, tr_run (tr_of (KMap g)) q xs = map g xs.
Proof.
  induction xs as [|x r IH]; intros q; cbn [tr_run tr_of t_fin t_react map]; [reflexivity|].
  cbn [emitted app]. now rewrite IH.
Qed.
Lemma fn_id k : k = KPipe \/ k = KStreamId -> forall (xs : list T) q, tr_run (@tr_of T k) q xs = xs.
Proof.
  intros Hk; induction xs as [|x r IH]; intros q; [destruct Hk; subst; reflexivity|].
  destruct Hk; subst; cbn [tr_run tr_of t_fin t_react emitted app]; now rewrite IH.
Qed.

Theorem stage_function (k : kind T) xs : tr_run (tr_of k) 0 xs = fn_of k xs.
Proof.
  destruct k; cbn [fn_of].
  - rewrite fn_taskn. now rewrite Nat.sub_0_r.
  - apply fn_taskfn.
  - apply fn_taskwhile.
  - rewrite fn_skipn by lia. now rewrite Nat.sub_0_r.
  - apply fn_skipfn.
  - apply fn_skipwhile.
  - apply fn_map.
  - apply fn_id; auto.
  - apply fn_id; auto.
Qed.

(* ---------- the stage invariant ---------- *)
Section Inv.
Variable M : transducer T.
Variable nil_in : bool.

Definition Fin (tr : list (label T)) : Prop :=
  let c := ins_of 0 tr in let o := outs_of 0 tr in
  prefix o (tr_run M 0 c) /\
  (has_ctx tr = false ->
   o = tr_run M 0 c /\ (in_closed 0 tr = true \/ t_fin M (tr_state M 0 c) = true \/ nil_in = true)).

Definition SInv (tr : list (label T)) (s : pc T) : Prop :=
  let c := ins_of 0 tr in let o := outs_of 0 tr in
  match s with
  | PRecv q => q = tr_state M 0 c /\ t_fin M q = false /\ o = tr_run M 0 c /\ closes_of 0 tr = 0 /\ has_ctx tr = false
  | PSend q v => q = tr_state M 0 c /\ o ++ [v] = tr_run M 0 c /\ closes_of 0 tr = 0 /\ has_ctx tr = false
  | PPoll q => q = tr_state M 0 c /\ o = tr_run M 0 c /\ closes_of 0 tr = 0 /\ has_ctx tr = false
  | PClose => Fin tr /\ closes_of 0 tr = 0
  | PClosed => Fin tr /\ closes_of 0 tr = 1
  | PDone => Fin tr /\ closes_of 0 tr = 1
  end.

(* arriving at [next q] with everything delivered *)
Lemma next_inv tr q :
  q = tr_state M 0 (ins_of 0 tr) -> outs_of 0 tr = tr_run M 0 (ins_of 0 tr) ->
  closes_of 0 tr = 0 -> has_ctx tr = false -> SInv tr (next M q).
Proof.
  intros Hq Ho Hc Hx. unfold next. destruct (t_fin M q) eqn:F; cbn [SInv].
  - split; [|exact Hc]. split; [rewrite Ho; apply prefix_refl|].
    intros _. split; [exact Ho|]. right; left. now rewrite <- Hq.
  - auto.
Qed.

Lemma Fin_keep tr l :
  in_lab 0 l = [] -> out_lab 0 l = [] -> Fin tr -> Fin (tr ++ [l]).
Proof.
  intros Hi Ho [H1 H2]. unfold Fin. rewrite ins_snoc, outs_snoc, Hi, Ho, !app_nil_r, ctx_snoc, rc_snoc.
  split; [exact H1|]. intros Hx. apply orb_false_iff in Hx as [Hx _].
  destruct (H2 Hx) as [E [D|[D|D]]]; split; auto. left. now rewrite D.
Qed.

Lemma step_inv tr s l s' : SInv tr s -> step Teqb M s l = Some s' -> SInv (tr ++ [l]) s'.
Proof.
  intros I St. destruct s as [q|q v|q| | |]; cbn [SInv] in I.
  - (* PRecv *)
    destruct I as (Hq & Hf & Ho & Hc & Hx).
    destruct l as [i w|i|j w| |j|id|id|]; cbn [step] in St; try discriminate.
    + (* recv *)
      destruct i; [|discriminate].
      destruct (t_react M q w) as [q' a] eqn:R. inversion St; subst s'; clear St.
      destruct (tr_snoc M (ins_of 0 tr) 0 w) as [T1 T2]. rewrite <- Hq, Hf, R in T1, T2. cbn [fst snd] in T1, T2.
      assert (Ei : ins_of 0 (tr ++ [recv 0 w]) = ins_of 0 tr ++ [w]) by (rewrite ins_snoc; reflexivity).
      assert (Eo : outs_of 0 (tr ++ [recv 0 w]) = outs_of 0 tr) by (rewrite outs_snoc; cbn [out_lab]; apply app_nil_r).
      assert (Ec : closes_of 0 (tr ++ [recv 0 w]) = 0) by (rewrite closes_snoc; cbn [close_lab]; lia).
      assert (Ex : has_ctx (tr ++ [recv 0 w]) = false) by (rewrite ctx_snoc, Hx; reflexivity).
      destruct a as [u| |]; cbn [emitted] in T1.
      * cbn [SInv]. rewrite Ei, Eo, T1, T2, Ho. auto.
      * apply next_inv; rewrite ?Ei, ?Eo, ?T1, ?T2, ?app_nil_r; auto.
      * cbn [SInv]. rewrite Ei, Eo, T1, T2, app_nil_r. auto.
    + (* recv_closed *)
      destruct i; [|discriminate]. inversion St; subst s'; clear St. cbn [SInv].
      split; [|rewrite closes_snoc; cbn [close_lab]; lia].
      unfold Fin. rewrite ins_snoc, outs_snoc. cbn [in_lab out_lab]. rewrite !app_nil_r.
      split; [rewrite Ho; apply prefix_refl|]. intros _. split; [exact Ho|]. left.
      rewrite rc_snoc. cbn [rc_lab Nat.eqb]. apply orb_true_r.
    + (* ctx_done *)
      destruct (t_aware M); [|discriminate]. inversion St; subst s'; clear St. cbn [SInv].
      split; [|rewrite closes_snoc; cbn [close_lab]; lia].
      unfold Fin. rewrite ins_snoc, outs_snoc. cbn [in_lab out_lab]. rewrite !app_nil_r.
      split; [rewrite Ho; apply prefix_refl|]. rewrite ctx_snoc. cbn [ctx_lab]. rewrite orb_true_r. discriminate.
  - (* PSend *)
    destruct I as (Hq & Ho & Hc & Hx).
    destruct l as [i w|i|j w| |j|id|id|]; cbn [step] in St; try discriminate.
    + destruct j; [|discriminate]. destruct (Teqb v w) eqn:E; [|discriminate].
      apply Teqb_ok in E. subst w. inversion St; subst s'; clear St.
      apply next_inv.
      * rewrite ins_snoc. cbn [in_lab]. now rewrite app_nil_r.
      * rewrite ins_snoc, outs_snoc. cbn [in_lab out_lab Nat.eqb]. now rewrite app_nil_r.
      * rewrite closes_snoc; cbn [close_lab]; lia.
      * rewrite ctx_snoc, Hx; reflexivity.
    + destruct (t_aware M); [|discriminate]. inversion St; subst s'; clear St. cbn [SInv].
      split; [|rewrite closes_snoc; cbn [close_lab]; lia].
      unfold Fin. rewrite ins_snoc, outs_snoc. cbn [in_lab out_lab]. rewrite !app_nil_r.
      split; [rewrite <- Ho; apply prefix_app_l|]. rewrite ctx_snoc. cbn [ctx_lab]. rewrite orb_true_r. discriminate.
  - (* PPoll *)
    destruct I as (Hq & Ho & Hc & Hx).
    destruct l as [i w|i|j w| |j|id|id|]; cbn [step] in St; try discriminate.
    + destruct (t_aware M); [|discriminate]. inversion St; subst s'; clear St. cbn [SInv].
      split; [|rewrite closes_snoc; cbn [close_lab]; lia].
      unfold Fin. rewrite ins_snoc, outs_snoc. cbn [in_lab out_lab]. rewrite !app_nil_r.
      split; [rewrite Ho; apply prefix_refl|]. rewrite ctx_snoc. cbn [ctx_lab]. rewrite orb_true_r. discriminate.
    + inversion St; subst s'; clear St. apply next_inv.
      * rewrite ins_snoc. cbn [in_lab]. now rewrite app_nil_r.
      * rewrite ins_snoc, outs_snoc. cbn [in_lab out_lab]. now rewrite !app_nil_r.
      * rewrite closes_snoc; cbn [close_lab]; lia.
      * rewrite ctx_snoc, Hx; reflexivity.
  - (* PClose *)
    destruct I as (HF & Hc).
    destruct l as [i w|i|j w| |j|id|id|]; cbn [step] in St; try discriminate.
    destruct j; [|discriminate]. inversion St; subst s'; clear St. cbn [SInv].
    split; [apply Fin_keep; auto|]. rewrite closes_snoc. cbn [close_lab Nat.eqb]. lia.
  - (* PClosed *)
    destruct I as (HF & Hc).
    destruct l as [i w|i|j w| |j|id|id|]; cbn [step] in St; try discriminate.
    destruct id; [|discriminate]. inversion St; subst s'; clear St. cbn [SInv].
    split; [apply Fin_keep; auto|]. rewrite closes_snoc. cbn [close_lab]. lia.
  - destruct l; discriminate.
Qed.

Lemma init_inv : SInv [] (stage_init M nil_in).
Proof.
  unfold stage_init. destruct nil_in eqn:N.
  - cbn. split; [|reflexivity]. split; [apply prefix_refl|]. intros _. split; auto.
  - apply next_inv; reflexivity.
Qed.

Lemma stage_inv : forall tr s, run (step Teqb M) (stage_init M nil_in) tr = Some s -> SInv tr s.
Proof.
  induction tr as [|l tr IH] using rev_ind; intros s H.
  - cbn [run] in H. inversion H; subst. apply init_inv.
  - rewrite run_snoc in H. destruct (run (step Teqb M) (stage_init M nil_in) tr) as [s1|] eqn:R; [|discriminate].
    eapply step_inv; [apply IH; reflexivity|exact H].
Qed.

(* only a stage whose loop has not ended receives *)
Lemma stage_live : forall tr s, run (step Teqb M) (stage_init M nil_in) tr = Some s -> tr_live M 0 (ins_of 0 tr) = true.
Proof.
  induction tr as [|l tr IH] using rev_ind; intros s H; [reflexivity|].
  rewrite run_snoc in H. destruct (run (step Teqb M) (stage_init M nil_in) tr) as [s1|] eqn:R; [|discriminate].
  pose proof (IH _ eq_refl) as L. pose proof (stage_inv _ _ R) as I. rewrite ins_snoc.
  destruct l as [i w|i|j w| |j|id|id|]; cbn [in_lab]; rewrite ?app_nil_r; try exact L.
  destruct i; cbn [Nat.eqb]; [|now rewrite app_nil_r].
  destruct s1 as [q|q v|q| | |]; cbn [step] in H; try discriminate.
  cbn [SInv] in I. destruct I as (Hq & Hf & _). rewrite tr_live_snoc, L, <- Hq, Hf. reflexivity.
Qed.

End Inv.

(* ---------- stage_safe: every trace satisfies the relation ---------- *)
Theorem stage_safe (M : transducer T) nil_in tr s :
  run (step Teqb M) (stage_init M nil_in) tr = Some s ->
  stage_rel M 0 (ins_of 0 tr) (outs_of 0 tr) (closed_of 0 tr) (has_ctx tr).
Proof.
  intros H. pose proof (stage_live _ _ _ _ H) as HL. apply stage_inv in H. unfold stage_rel. exists (ins_of 0 tr).
  split; [apply prefix_refl|]. split; [lia|]. split; [exact HL|]. unfold closed_of.
  destruct s as [q|q v|q| | |]; cbn [SInv] in H.
  - destruct H as (_ & _ & Ho & Hc & _). rewrite Hc, Ho. split; [apply prefix_refl|discriminate].
  - destruct H as (_ & Ho & Hc & _). rewrite Hc, <- Ho. split; [apply prefix_app_l|discriminate].
  - destruct H as (_ & Ho & Hc & _). rewrite Hc, Ho. split; [apply prefix_refl|discriminate].
  - destruct H as ([H1 H2] & Hc). rewrite Hc. split; [exact H1|discriminate].
  - destruct H as ([H1 H2] & Hc). split; [exact H1|]. intros _ Hx. destruct (H2 Hx) as [E _]. auto.
  - destruct H as ([H1 H2] & Hc). split; [exact H1|]. intros _ Hx. destruct (H2 Hx) as [E _]. auto.
Qed.

(* without cancellation a stage closes only because its input closed, its loop ended, or (MapChan) the input was nil *)
Theorem stage_close_cause (M : transducer T) nil_in tr s :
  run (step Teqb M) (stage_init M nil_in) tr = Some s -> closed_of 0 tr = true -> has_ctx tr = false ->
  outs_of 0 tr = tr_run M 0 (ins_of 0 tr) /\
  (in_closed 0 tr = true \/ t_fin M (tr_state M 0 (ins_of 0 tr)) = true \/ nil_in = true).
Proof.
  intros H Hc Hx. apply stage_inv in H. unfold closed_of in Hc. apply Nat.ltb_lt in Hc.
  destruct s as [q|q v|q| | |]; cbn [SInv] in H.
  - destruct H as (_ & _ & _ & E & _); lia.
  - destruct H as (_ & _ & E & _); lia.
  - destruct H as (_ & _ & E & _); lia.
  - destruct H as (_ & E); lia.
  - destruct H as ([_ H2] & _). auto.
  - destruct H as ([_ H2] & _). auto.
Qed.

(* a stage that does not watch ctx never takes the ctx_done branch *)
Lemma unaware_no_ctx (M : transducer T) : t_aware M = false -> forall tr s s0,
  run (step Teqb M) s0 tr = Some s -> has_ctx tr = false.
Proof.
  intros Ha. induction tr as [|l tr IH]; intros s s0 H; [reflexivity|].
  cbn [run] in H. destruct (step Teqb M s0 l) as [s1|] eqn:St; [|discriminate].
  cbn [has_ctx existsb]. change (existsb _ tr) with (has_ctx tr). rewrite (IH _ _ H).
  destruct l; try reflexivity. destruct s0; cbn [step] in St; rewrite ?Ha in St; discriminate.
Qed.

(* ---------- stage_close: a finished goroutine closed its output exactly once, as its last act ---------- *)
Lemma step_to_done (M : transducer T) s l : step Teqb M s l = Some PDone -> s = PClosed /\ l = exit 0.
Proof.
  destruct s as [q|q v|q| | |], l as [i w|i|j w| |j|id|id|]; cbn [step]; try discriminate.
  - destruct i; [|discriminate]. destruct (t_react M q w) as [q' [u| |]]; unfold next; try discriminate;
      destruct (t_fin M q'); discriminate.
  - destruct i; discriminate.
  - destruct (t_aware M); discriminate.
  - destruct j; [|discriminate]. destruct (Teqb v w); [|discriminate]. unfold next. destruct (t_fin M q); discriminate.
  - destruct (t_aware M); discriminate.
  - destruct (t_aware M); discriminate.
  - unfold next. destruct (t_fin M q); discriminate.
  - destruct j; discriminate.
  - destruct id; [auto|discriminate].
Qed.
Lemma step_to_closed (M : transducer T) s l : step Teqb M s l = Some PClosed -> s = PClose /\ l = close_out 0.
Proof.
  destruct s as [q|q v|q| | |], l as [i w|i|j w| |j|id|id|]; cbn [step]; try discriminate.
  - destruct i; [|discriminate]. destruct (t_react M q w) as [q' [u| |]]; unfold next; try discriminate;
      destruct (t_fin M q'); discriminate.
  - destruct i; discriminate.
  - destruct (t_aware M); discriminate.
  - destruct j; [|discriminate]. destruct (Teqb v w); [|discriminate]. unfold next. destruct (t_fin M q); discriminate.
  - destruct (t_aware M); discriminate.
  - destruct (t_aware M); discriminate.
  - unfold next. destruct (t_fin M q); discriminate.
  - destruct j; [auto|discriminate].
  - destruct id; discriminate.
Qed.

Theorem stage_close (M : transducer T) nil_in tr :
  run (step Teqb M) (stage_init M nil_in) tr = Some PDone ->
  closes_of 0 tr = 1 /\
  exists tr1, tr = tr1 ++ [close_out 0; exit 0] /\ closes_of 0 tr1 = 0 /\
              outs_of 0 tr = outs_of 0 tr1.
Proof.
  intros H. pose proof (stage_inv M nil_in _ _ H) as I. cbn [SInv] in I. destruct I as [_ Hc1].
  split; [exact Hc1|].
  destruct tr as [|l tr _] using rev_ind.
  - cbn [run] in H. unfold stage_init, next in H. destruct nil_in; [discriminate|]. destruct (t_fin M 0); discriminate.
  - rewrite run_snoc in H. destruct (run (step Teqb M) (stage_init M nil_in) tr) as [s1|] eqn:R1; [|discriminate].
    apply step_to_done in H as [-> ->].
    destruct tr as [|l2 tr _] using rev_ind.
    + cbn [run] in R1. unfold stage_init, next in R1. destruct nil_in; [discriminate|]. destruct (t_fin M 0); discriminate.
    + rewrite run_snoc in R1. destruct (run (step Teqb M) (stage_init M nil_in) tr) as [s2|] eqn:R2; [|discriminate].
      apply step_to_closed in R1 as [-> ->].
      pose proof (stage_inv M nil_in _ _ R2) as I2. cbn [SInv] in I2. destruct I2 as [_ Hc0].
      exists tr. split; [now rewrite <- app_assoc|]. split; [exact Hc0|].
      rewrite !outs_snoc. cbn [out_lab]. now rewrite !app_nil_r.
Qed.

(* ---------- stage_cancel ---------- *)
Theorem stage_cancel (M : transducer T) s :
  t_aware M = true -> blocked s = true -> step Teqb M s ctx_done = Some PClose.
Proof. intros Ha Hb. destruct s; cbn [blocked] in Hb; try discriminate; cbn [step]; now rewrite Ha. Qed.

(* the polling select of SkipWhile is not blocking: it leaves by ctx_done or by its default branch *)
Lemma poll_not_stuck (M : transducer T) q : t_aware M = true ->
  step Teqb M (PPoll q) ctx_done = Some PClose /\ step Teqb M (PPoll q) tau = Some (next M q).
Proof. intros Ha. cbn [step]. now rewrite Ha. Qed.

(* after ctx_done nothing but close(out) and the end of the goroutine can happen: exit within two steps *)
Theorem cancel_then_exit (M : transducer T) :
  (forall l s', step Teqb M PClose l = Some s' -> l = close_out 0 /\ s' = PClosed) /\
  (forall l s', step Teqb M PClosed l = Some s' -> l = exit 0 /\ s' = PDone) /\
  run (step Teqb M) PClose [close_out 0; exit 0] = Some PDone /\
  (forall l, step Teqb M PDone l = None).
Proof.
  repeat split.
  - destruct l as [i w|i|j w| |j|id|id|]; cbn [step] in H; try discriminate. destruct j; [reflexivity|discriminate].
  - destruct l as [i w|i|j w| |j|id|id|]; cbn [step] in H; try discriminate. destruct j; [|discriminate]. now inversion H.
  - destruct l as [i w|i|j w| |j|id|id|]; cbn [step] in H; try discriminate. destruct id; [reflexivity|discriminate].
  - destruct l as [i w|i|j w| |j|id|id|]; cbn [step] in H; try discriminate. destruct id; [|discriminate]. now inversion H.
Qed.

(* ---------- the boolean twin ---------- *)
Theorem stage_rel_b_ok (M : transducer T) incap ins outs closed cancelled :
  stage_rel_b Teqb M incap ins outs closed cancelled = true <-> stage_rel M incap ins outs closed cancelled.
Proof.
  unfold stage_rel_b, stage_rel. rewrite existsb_exists. split.
  - intros (n & Hn & Hb). apply in_seq in Hn.
    apply andb_true_iff in Hb as [Hb H3]. apply andb_true_iff in Hb as [H1 H2]. apply andb_true_iff in H1 as [H1 HL].
    apply Nat.leb_le in H1. apply prefix_b_ok in H2.
    assert (Hl : length (firstn n ins) = n) by (rewrite firstn_length; lia).
    exists (firstn n ins). split; [apply prefix_firstn; exists n; split; [lia|reflexivity]|].
    split; [lia|]. split; [exact HL|]. split; [exact H2|].
    intros Hc Hx. subst closed cancelled. cbn [negb orb] in H3.
    apply andb_true_iff in H3 as [H3 H4]. apply leqb_ok in H3. split; [exact H3|].
    apply orb_true_iff in H4 as [H4|H4]; [left|now right].
    apply Nat.eqb_eq in H4. subst n. apply firstn_all.
  - intros (c & Hp & Hl & HL & Ho & Hc). apply prefix_firstn in Hp as (n & Hn & ->).
    assert (Hl' : length (firstn n ins) = n) by (rewrite firstn_length; lia).
    exists n. split; [apply in_seq; lia|].
    rewrite Hl' in Hl. apply andb_true_iff. split; [apply andb_true_iff; split; [apply andb_true_iff; split|]|].
    + apply Nat.leb_le. lia.
    + exact HL.
    + now apply prefix_b_ok.
    + destruct closed; [|reflexivity]. destruct cancelled; [reflexivity|]. cbn [negb orb].
      destruct (Hc eq_refl eq_refl) as [E D]. apply andb_true_iff. split; [now apply leqb_ok|].
      apply orb_true_iff. destruct D as [D|D]; [left|now right].
      apply Nat.eqb_eq. rewrite <- D. symmetry. exact Hl'.
Qed.

Theorem stage_rel_c_b_ok (M : transducer T) uses incap ins outs closed cancelled calls :
  stage_rel_c_b Teqb M uses incap ins outs closed cancelled calls = true <->
  stage_rel_c M uses incap ins outs closed cancelled calls.
Proof.
  unfold stage_rel_c_b, stage_rel_c. rewrite existsb_exists. split.
  - intros (n & Hn & Hb). apply in_seq in Hn.
    apply andb_true_iff in Hb as [Hb HC].
    apply andb_true_iff in Hb as [Hb H3]. apply andb_true_iff in Hb as [H1 H2]. apply andb_true_iff in H1 as [H1 HL].
    apply Nat.leb_le in H1. apply prefix_b_ok in H2. apply leqb_ok in HC.
    assert (Hl : length (firstn n ins) = n) by (rewrite firstn_length; lia).
    exists (firstn n ins). split; [apply prefix_firstn; exists n; split; [lia|reflexivity]|].
    split; [lia|]. split; [exact HL|]. split; [exact H2|]. split; [|exact HC].
    intros Hc Hx. subst closed cancelled. cbn [negb orb] in H3.
    apply andb_true_iff in H3 as [H3 H4]. apply leqb_ok in H3. split; [exact H3|].
    apply orb_true_iff in H4 as [H4|H4]; [left|now right].
    apply Nat.eqb_eq in H4. subst n. apply firstn_all.
  - intros (c & Hp & Hl & HL & Ho & Hc & HC). apply prefix_firstn in Hp as (n & Hn & ->).
    assert (Hl' : length (firstn n ins) = n) by (rewrite firstn_length; lia).
    exists n. split; [apply in_seq; lia|].
    rewrite Hl' in Hl. apply andb_true_iff. split; [|now apply leqb_ok].
    apply andb_true_iff. split; [apply andb_true_iff; split; [apply andb_true_iff; split|]|].
    + apply Nat.leb_le. lia.
    + exact HL.
    + now apply prefix_b_ok.
    + destruct closed; [|reflexivity]. destruct cancelled; [reflexivity|]. cbn [negb orb].
      destruct (Hc eq_refl eq_refl) as [E D]. apply andb_true_iff. split; [now apply leqb_ok|].
      apply orb_true_iff. destruct D as [D|D]; [left|now right].
      apply Nat.eqb_eq. rewrite <- D. symmetry. exact Hl'.
Qed.

Lemma stage_rel_c_weaken (M : transducer T) uses incap ins outs closed cancelled calls :
  stage_rel_c M uses incap ins outs closed cancelled calls -> stage_rel M incap ins outs closed cancelled.
Proof. intros (c & H1 & H2 & H3 & H4 & H5 & _). exists c. auto. Qed.

(* every trace, with the user-function calls the model makes on it: exactly the received elements the combinator
   evaluates, in order, once each, and nothing else *)
Theorem stage_safe_c (M : transducer T) uses nil_in tr s :
  run (step Teqb M) (stage_init M nil_in) tr = Some s ->
  stage_rel_c M uses 0 (ins_of 0 tr) (outs_of 0 tr) (closed_of 0 tr) (has_ctx tr) (tr_calls M uses 0 (ins_of 0 tr)).
Proof.
  intros H. destruct (stage_safe M nil_in tr s H) as (c & Hp & Hl & HL & Ho & Hc).
  assert (c = ins_of 0 tr).
  { destruct Hp as [r E]. assert (length r = 0) by (rewrite E, app_length in Hl; lia).
    destruct r; [|discriminate]. now rewrite app_nil_r in E. }
  subst c. exists (ins_of 0 tr). auto 10.
Qed.

Lemma mask_false (l : list T) : map snd (filter fst (combine (repeat false (length l)) l)) = [].
Proof. induction l as [|y l IH]; [reflexivity|]. cbn. exact IH. Qed.

(* the user function only ever sees received elements, in their order, each at most once *)
Lemma tr_calls_sub (M : transducer T) uses : forall c q, exists mask : list bool,
  length mask = length c /\ tr_calls M uses q c = map snd (filter fst (combine mask c)).
Proof.
  induction c as [|x c IH]; intros q; [exists []; split; reflexivity|].
  cbn [tr_calls]. destruct (t_fin M q).
  - exists (repeat false (length (x :: c))). split; [now rewrite repeat_length|].
    symmetry. apply mask_false.
  - destruct (IH (fst (t_react M q x))) as (m & Hm & E). exists (uses q :: m). split; [cbn; now rewrite Hm|].
    cbn [combine filter fst]. destruct (uses q); cbn [map snd app]; now rewrite E.
Qed.

(* a FIFO buffer of capacity [cap] in front of the stage: the relation over what was handed to the buffer *)
Lemma stage_rel_buffer (M : transducer T) c ins cap outs closed cancelled :
  stage_rel M 0 c outs closed cancelled -> prefix c ins -> length ins <= length c + cap ->
  (closed = true -> cancelled = false -> c = ins \/ t_fin M (tr_state M 0 c) = true) ->
  stage_rel M cap ins outs closed cancelled.
Proof.
  intros (c' & Hp & Hl & HL & Ho & Hc) Hpi Hli Hd.
  assert (c' = c).
  { destruct Hp as [r E]. assert (length r = 0) by (rewrite E, app_length in Hl; lia).
    destruct r; [|discriminate]. now rewrite app_nil_r in E. }
  subst c'. exists c. split; [exact Hpi|]. split; [exact Hli|]. split; [exact HL|]. split; [exact Ho|].
  intros H1 H2. destruct (Hc H1 H2) as [E _]. split; [exact E|auto].
Qed.

(* ---------- Stream ---------- *)
Section StreamInv.
Variable values : list T.

Definition SFin (tr : list (label T)) : Prop :=
  prefix (outs_of 0 tr) values /\ (has_ctx tr = false -> outs_of 0 tr = values).

Definition StInv (tr : list (label T)) (s : spc T) : Prop :=
  match s with
  | SSend rest => rest <> [] /\ outs_of 0 tr ++ rest = values /\ closes_of 0 tr = 0 /\ has_ctx tr = false
  | SClose => SFin tr /\ closes_of 0 tr = 0
  | SClosed => SFin tr /\ closes_of 0 tr = 1
  | SDone => SFin tr /\ closes_of 0 tr = 1
  end.

Lemma snext_inv tr rest :
  outs_of 0 tr ++ rest = values -> closes_of 0 tr = 0 -> has_ctx tr = false -> StInv tr (snext rest).
Proof.
  intros Ho Hc Hx. destruct rest as [|v r]; cbn [snext StInv].
  - rewrite app_nil_r in Ho. split; [|exact Hc]. split; [rewrite Ho; apply prefix_refl|auto].
  - split; [discriminate|auto].
Qed.

Lemma SFin_keep tr l : out_lab 0 l = [] -> SFin tr -> SFin (tr ++ [l]).
Proof.
  intros Ho [H1 H2]. unfold SFin. rewrite outs_snoc, Ho, app_nil_r, ctx_snoc. split; [exact H1|].
  intros Hx. apply orb_false_iff in Hx as [Hx _]. auto.
Qed.

Lemma stream_step_inv tr s l s' : StInv tr s -> stream_step Teqb s l = Some s' -> StInv (tr ++ [l]) s'.
Proof.
  intros I St. destruct s as [rest| | |]; cbn [StInv] in I.
  - destruct I as (Hr & Ho & Hc & Hx).
    destruct l as [i w|i|j w| |j|id|id|]; cbn [stream_step] in St; try (destruct rest; discriminate).
    + destruct rest as [|v r]; [discriminate|]. destruct j; [|discriminate].
      destruct (Teqb v w) eqn:E; [|discriminate]. apply Teqb_ok in E. subst w. inversion St; subst s'.
      apply snext_inv.
      * rewrite outs_snoc. cbn [out_lab Nat.eqb]. now rewrite <- app_assoc.
      * rewrite closes_snoc; cbn [close_lab]; lia.
      * now rewrite ctx_snoc, Hx.
    + assert (s' = SClose) by (destruct rest; now inversion St). subst s'. cbn [StInv].
      split; [|rewrite closes_snoc; cbn [close_lab]; lia].
      unfold SFin. rewrite outs_snoc. cbn [out_lab]. rewrite app_nil_r.
      split; [rewrite <- Ho; apply prefix_app_l|]. rewrite ctx_snoc. cbn [ctx_lab]. rewrite orb_true_r. discriminate.
  - destruct I as (HF & Hc).
    destruct l as [i w|i|j w| |j|id|id|]; cbn [stream_step] in St; try discriminate.
    destruct j; [|discriminate]. inversion St; subst s'. cbn [StInv].
    split; [apply SFin_keep; auto|]. rewrite closes_snoc. cbn [close_lab Nat.eqb]. lia.
  - destruct I as (HF & Hc).
    destruct l as [i w|i|j w| |j|id|id|]; cbn [stream_step] in St; try discriminate.
    destruct id; [|discriminate]. inversion St; subst s'. cbn [StInv].
    split; [apply SFin_keep; auto|]. rewrite closes_snoc. cbn [close_lab]. lia.
  - destruct l; discriminate.
Qed.

Lemma stream_inv : forall tr s, run (stream_step Teqb) (stream_init values) tr = Some s -> StInv tr s.
Proof.
  induction tr as [|l tr IH] using rev_ind; intros s H.
  - cbn [run] in H. inversion H; subst. apply snext_inv; reflexivity.
  - rewrite run_snoc in H. destruct (run (stream_step Teqb) (stream_init values) tr) as [s1|] eqn:R; [|discriminate].
    eapply stream_step_inv; [apply IH; reflexivity|exact H].
Qed.

Theorem stream_safe tr s :
  run (stream_step Teqb) (stream_init values) tr = Some s ->
  stage_rel (tr_of KStreamId) (length values) values (outs_of 0 tr) (closed_of 0 tr) (has_ctx tr).
Proof.
  intros H. apply stream_inv in H. unfold stage_rel, closed_of. exists (outs_of 0 tr).
  rewrite (fn_id KStreamId) by auto.
  assert (HL : tr_live (tr_of KStreamId) 0 (outs_of 0 tr) = true) by (apply tr_live_nofin; reflexivity).
  destruct s as [rest| | |]; cbn [StInv] in H.
  - destruct H as (_ & Ho & Hc & _). rewrite Hc. split; [rewrite <- Ho; apply prefix_app_l|].
    split; [lia|]. split; [exact HL|]. split; [apply prefix_refl|discriminate].
  - destruct H as ([H1 _] & Hc). rewrite Hc. split; [exact H1|]. split; [lia|]. split; [exact HL|].
    split; [apply prefix_refl|discriminate].
  - destruct H as ([H1 H2] & _). split; [exact H1|]. split; [lia|]. split; [exact HL|].
    split; [apply prefix_refl|]. intros _ Hx. auto.
  - destruct H as ([H1 H2] & _). split; [exact H1|]. split; [lia|]. split; [exact HL|].
    split; [apply prefix_refl|]. intros _ Hx. auto.
Qed.

Theorem stream_close tr :
  run (stream_step Teqb) (stream_init values) tr = Some SDone -> closes_of 0 tr = 1.
Proof. intros H. apply stream_inv in H. now destruct H. Qed.

Theorem stream_cancel rest : stream_step Teqb (SSend rest) ctx_done = Some SClose /\
  run (stream_step Teqb) SClose [close_out 0; exit 0] = Some SDone.
Proof. split; [destruct rest; reflexivity|reflexivity]. Qed.

End StreamInv.

End P.
