(* C18: what the transition systems of Stage.v imply about the per-channel sequences that the two sides of
   each channel observe (the only thing that can be recorded reliably from outside), as relations, each with a
   boolean twin that decides recorded runs.  Proofs are in Proofs.v.

   Reading of the arguments (harness side):
     ins    what the producer managed to hand over to the input channel (per source for fan-in)
     incap  capacity of the input channel the harness made: handed-over values may still sit in that buffer,
            so the stage consumed a prefix [c] of [ins] with  length ins <= length c + incap
     outs   what the consumer received, up to and excluding the close
     closed whether the consumer saw the close
     cancelled whether cancel() had been called before the consumer saw the close
   In a trace of the transition system [ins] is the consumed sequence itself ([incap = 0]), [closed] says that
   close_out occurred and [cancelled] that the stage took its ctx_done branch. *)
From VF Require Export C18.Stage.

Section Rel.
Context {T : Type}.
Variable Teqb : T -> T -> bool.

Definition prefix (a b : list T) : Prop := exists r, b = a ++ r.
Fixpoint prefix_b (a b : list T) : bool :=
  match a, b with
  | [], _ => true
  | x :: a', y :: b' => Teqb x y && prefix_b a' b'
  | _ :: _, [] => false
  end.
Definition leqb : list T -> list T -> bool := list_eqb Teqb.

(* ---- one-input one-output stages (and Stream, with ins = the argument slice, incap = its length) ---- *)
Definition stage_rel (M : transducer T) (incap : nat) (ins outs : list T) (closed cancelled : bool) : Prop :=
  exists c, prefix c ins /\ length ins <= length c + incap /\
            tr_live M 0 c = true /\               (* nothing was consumed after the combinator's own loop had ended *)
            prefix outs (tr_run M 0 c) /\
            (closed = true -> cancelled = false ->
             outs = tr_run M 0 c /\ (c = ins \/ t_fin M (tr_state M 0 c) = true)).

Definition stage_rel_b (M : transducer T) (incap : nat) (ins outs : list T) (closed cancelled : bool) : bool :=
  existsb (fun n =>
             let c := firstn n ins in
             (length ins <=? n + incap) && tr_live M 0 c && prefix_b outs (tr_run M 0 c) &&
             (negb closed || cancelled ||
              (leqb outs (tr_run M 0 c) && (Nat.eqb n (length ins) || t_fin M (tr_state M 0 c)))))
          (seq 0 (S (length ins))).

(* the same, together with the sequence of arguments the user's function was called with ([uses]: Stage.uses_of) *)
Definition stage_rel_c (M : transducer T) (uses : nat -> bool) (incap : nat) (ins outs : list T)
           (closed cancelled : bool) (calls : list T) : Prop :=
  exists c, prefix c ins /\ length ins <= length c + incap /\
            tr_live M 0 c = true /\
            prefix outs (tr_run M 0 c) /\
            (closed = true -> cancelled = false ->
             outs = tr_run M 0 c /\ (c = ins \/ t_fin M (tr_state M 0 c) = true)) /\
            calls = tr_calls M uses 0 c.

Definition stage_rel_c_b (M : transducer T) (uses : nat -> bool) (incap : nat) (ins outs : list T)
           (closed cancelled : bool) (calls : list T) : bool :=
  existsb (fun n =>
             let c := firstn n ins in
             (length ins <=? n + incap) && tr_live M 0 c && prefix_b outs (tr_run M 0 c) &&
             (negb closed || cancelled ||
              (leqb outs (tr_run M 0 c) && (Nat.eqb n (length ins) || t_fin M (tr_state M 0 c)))) &&
             leqb calls (tr_calls M uses 0 c))
          (seq 0 (S (length ins))).

(* ---- fan-in: the output is a merge of the sources: there is a tagging of the output positions by source
        index under which the sub-sequence tagged i is source i (order of each source kept, multiset union) ---- *)
Fixpoint select (i : nat) (tags : list nat) (out : list T) : list T :=
  match tags, out with
  | t :: ts, o :: os => if Nat.eqb i t then o :: select i ts os else select i ts os
  | _, _ => []
  end.
Definition Merge (srcs : list (list T)) (out : list T) : Prop :=
  exists tags, length tags = length out /\ Forall (fun t => t < length srcs) tags /\
               forall i, i < length srcs -> select i tags out = nth i srcs [].
Fixpoint merge_b (srcs : list (list T)) (out : list T) : bool :=
  match out with
  | [] => forallb (fun s => match s with [] => true | _ :: _ => false end) srcs
  | o :: r => existsb (fun i => match nth i srcs [] with
                                | x :: s => Teqb x o && merge_b (upd srcs i s) r
                                | [] => false
                                end) (seq 0 (length srcs))
  end.

(* while the goroutine runs, one received value may be pending (not yet sent) *)
Definition fanin_rel (ins : list (list T)) (outs : list T) (closed : bool) : Prop :=
  if closed then Merge ins outs
  else Merge ins outs \/ exists p, In p (concat ins) /\ Merge ins (outs ++ [p]).
Definition fanin_rel_b (ins : list (list T)) (outs : list T) (closed : bool) : bool :=
  if closed then merge_b ins outs
  else merge_b ins outs || existsb (fun p => merge_b ins (outs ++ [p])) (concat ins).

(* ---- fan-out ---- *)
Definition cnt (x : T) (l : list T) : nat := length (filter (Teqb x) l).
Definition fanout_rel (async : bool) (n : nat) (ins : list T) (outs : list (list T)) (closed : list bool) : Prop :=
  length outs = n /\ length closed = n /\
  forall j, j < n ->
    let o := nth j outs [] in
    if async
    then (forall x, cnt x o <= cnt x ins) /\ (nth j closed false = true -> forall x, cnt x o = cnt x ins)
    else prefix o ins /\ (nth j closed false = true -> o = ins).
Definition fanout_rel_b (async : bool) (n : nat) (ins : list T) (outs : list (list T)) (closed : list bool) : bool :=
  Nat.eqb (length outs) n && Nat.eqb (length closed) n &&
  forallb (fun j =>
             let o := nth j outs [] in
             if async
             then forallb (fun x => cnt x o <=? cnt x ins) o &&
                  (negb (nth j closed false) || forallb (fun x => Nat.eqb (cnt x o) (cnt x ins)) (o ++ ins))
             else prefix_b o ins && (negb (nth j closed false) || leqb o ins))
          (seq 0 n).

(* ---- Orderly: the log of (task, true = started / false = finished) events ---- *)
Definition orderly_expected (n : nat) : list (nat * bool) := flat_map (fun i => [(i, true); (i, false)]) (seq 0 n).
Definition ev_eqb (a b : nat * bool) : bool := Nat.eqb (fst a) (fst b) && Bool.eqb (snd a) (snd b).
Fixpoint evprefix_b (a b : list (nat * bool)) : bool :=
  match a, b with
  | [], _ => true
  | x :: a', y :: b' => ev_eqb x y && evprefix_b a' b'
  | _ :: _, [] => false
  end.
Definition orderly_rel (n : nat) (log : list (nat * bool)) (returned : bool) : Prop :=
  (exists r, orderly_expected n = log ++ r) /\ (returned = true -> log = orderly_expected n).
Definition orderly_rel_b (n : nat) (log : list (nat * bool)) (returned : bool) : bool :=
  evprefix_b log (orderly_expected n) && (negb returned || list_eqb ev_eqb log (orderly_expected n)).

End Rel.
