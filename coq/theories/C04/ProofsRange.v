(* C04 Range clause under concurrency: a decision procedure [range_ok_b] for the predicate [RangeOK]
   on one recorded Range call against the key events of the surrounding history, and their equivalence.

   Key events are derived from the recorded history (Check.v):
     EWrite  an operation after whose linearization point the key is present and that may have
             inserted it (Store, LoadOrStore, LoadOrStoreLazy, Put, AddB, Add)
     ESeen   an operation that observed the key present (Load/Get found, ContainsB true)
     EDel    a removal that reported (or may have had) success (Delete true, LoadAndDelete found,
             RemoveB true, Remove)
     EClear  Clear (removes every key)
   A key is "present for the whole call" when some EWrite/ESeen event on it responded before the Range
   was invoked and every removal of it either responded before that event was invoked or was invoked
   after the Range responded: in any linearization the key is then in the map from a point before the
   invocation of Range until after its response. *)
From VF Require Import Common.Base C04.Proofs.
Local Open Scope Z_scope.

Inductive ekind := EWrite | ESeen | EDel | EClear.
Record kev := { e_inv : N; e_resp : N; e_key : Z; e_kind : ekind }.
Record range_obs := { r_inv : N; r_resp : N; r_keys : list Z }.

Definition establishes (e : kev) : bool := match e_kind e with EWrite | ESeen => true | _ => false end.
Definition is_write (e : kev) : bool := match e_kind e with EWrite => true | _ => false end.
Definition removes (k : Z) (d : kev) : bool :=
  match e_kind d with EDel => e_key d =? k | EClear => true | _ => false end.

(* the removal d cannot take effect between the linearization point of e and the response of r *)
Definition harmless (e : kev) (r : range_obs) (d : kev) : Prop :=
  (e_resp d < e_inv e)%N \/ (r_resp r < e_inv d)%N.

Definition anchors (evs : list kev) (r : range_obs) (e : kev) : Prop :=
  establishes e = true /\ (e_resp e < r_inv r)%N /\
  forall d, In d evs -> removes (e_key e) d = true -> harmless e r d.

Definition stable (evs : list kev) (r : range_obs) (k : Z) : Prop :=
  exists e, In e evs /\ e_key e = k /\ anchors evs r e.

Record RangeOK (evs : list kev) (r : range_obs) : Prop := {
  rk_asc : asc (r_keys r);                                  (* strictly ascending *)
  rk_nodup : NoDup (r_keys r);                              (* each key at most once *)
  rk_stable : forall k, stable evs r k -> In k (r_keys r);  (* every key present for the whole call *)
  rk_known : forall k, In k (r_keys r) ->                   (* nothing that was never inserted *)
             exists e, In e evs /\ e_key e = k /\ is_write e = true /\ (e_inv e < r_resp r)%N }.

Fixpoint asc_b (l : list Z) : bool :=
  match l with
  | x :: ((y :: _) as t) => (x <? y) && asc_b t
  | _ => true
  end.

Fixpoint nodup_b (l : list Z) : bool :=
  match l with [] => true | x :: t => negb (existsb (Z.eqb x) t) && nodup_b t end.

Definition harmless_b (e : kev) (r : range_obs) (d : kev) : bool :=
  (e_resp d <? e_inv e)%N || (r_resp r <? e_inv d)%N.

Definition anchors_b (evs : list kev) (r : range_obs) (e : kev) : bool :=
  establishes e && (e_resp e <? r_inv r)%N &&
  forallb (fun d => negb (removes (e_key e) d) || harmless_b e r d) evs.

Definition range_ok_b (evs : list kev) (r : range_obs) : bool :=
  asc_b (r_keys r) && nodup_b (r_keys r) &&
  forallb (fun e => negb (anchors_b evs r e) || existsb (Z.eqb (e_key e)) (r_keys r)) evs &&
  forallb (fun k => existsb (fun e => (e_key e =? k) && is_write e && (e_inv e <? r_resp r)%N) evs) (r_keys r).

Lemma asc_b_spec l : asc_b l = true <-> asc l.
Proof.
  unfold asc. split.
  - intros H. destruct l as [|x t]; [exists 0; exact I|]. exists (x - 1).
    revert x H. induction t as [|y t IH]; intros x H; simpl; [split; [lia|exact I]|].
    cbn [asc_b] in H. apply andb_true_iff in H as [H1 H2]. apply Z.ltb_lt in H1.
    split; [lia|]. specialize (IH y H2). simpl in IH. split; [exact H1|apply IH].
  - intros [lo H]. revert lo H. induction l as [|x t IH]; intros lo H; [reflexivity|].
    destruct t as [|y t]; [reflexivity|]. simpl in H. destruct H as (H1 & H2 & H3).
    cbn [asc_b]. apply andb_true_iff. split; [now apply Z.ltb_lt|]. apply (IH x). simpl. auto.
Qed.

Lemma mem_spec k l : existsb (Z.eqb k) l = true <-> In k l.
Proof.
  rewrite existsb_exists. split.
  - intros (y & Hy & E). apply Z.eqb_eq in E. now subst.
  - intros H. exists k. split; [exact H|apply Z.eqb_refl].
Qed.

Lemma nodup_b_spec l : nodup_b l = true <-> NoDup l.
Proof.
  induction l as [|x t IH]; simpl; [split; [constructor|reflexivity]|].
  rewrite andb_true_iff, negb_true_iff, IH. split.
  - intros [H1 H2]. constructor; [|exact H2]. intros Hin. apply mem_spec in Hin. congruence.
  - intros H. inversion H; subst. split; [|assumption].
    destruct (existsb (Z.eqb x) t) eqn:E; [apply mem_spec in E; contradiction|reflexivity].
Qed.

Lemma harmless_b_spec e r d : harmless_b e r d = true <-> harmless e r d.
Proof. unfold harmless_b, harmless. now rewrite orb_true_iff, !N.ltb_lt. Qed.

Lemma anchors_b_spec evs r e : anchors_b evs r e = true <-> anchors evs r e.
Proof.
  unfold anchors_b, anchors. rewrite !andb_true_iff, N.ltb_lt, forallb_forall. split.
  - intros [[H1 H2] H3]. split; [exact H1|split; [exact H2|]]. intros d Hd Hr.
    specialize (H3 d Hd). rewrite Hr in H3. simpl in H3. now apply harmless_b_spec.
  - intros (H1 & H2 & H3). split; [split; assumption|]. intros d Hd.
    destruct (removes (e_key e) d) eqn:Er; simpl; [|reflexivity]. apply harmless_b_spec. now apply H3.
Qed.

Theorem range_ok_b_ok evs r : range_ok_b evs r = true <-> RangeOK evs r.
Proof.
  unfold range_ok_b. rewrite !andb_true_iff, asc_b_spec, nodup_b_spec, !forallb_forall. split.
  - intros [[[H1 H2] H3] H4]. split; [exact H1|exact H2| |].
    + intros k (e & He & Hk & Ha). specialize (H3 e He). apply anchors_b_spec in Ha. rewrite Ha in H3.
      simpl in H3. apply mem_spec in H3. now subst.
    + intros k Hk. specialize (H4 k Hk). apply existsb_exists in H4 as (e & He & H).
      apply andb_true_iff in H as [H Hi]. apply andb_true_iff in H as [Hkk Hw].
      apply Z.eqb_eq in Hkk. apply N.ltb_lt in Hi. exists e. auto.
  - intros [H1 H2 H3 H4]. split; [split; [split; assumption|]|].
    + intros e He. destruct (anchors_b evs r e) eqn:Ea; simpl; [|reflexivity]. apply mem_spec.
      apply H3. exists e. split; [exact He|split; [reflexivity|now apply anchors_b_spec]].
    + intros k Hk. destruct (H4 k Hk) as (e & He & Hkk & Hw & Hi). apply existsb_exists. exists e.
      split; [exact He|]. rewrite !andb_true_iff. split; [split; [now apply Z.eqb_eq|exact Hw]|now apply N.ltb_lt].
Qed.
