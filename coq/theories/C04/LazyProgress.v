(* C04 protocol model: no deadlock. In every reachable state of LazySkip.v either every thread has finished its
   program or some unfinished thread has a step that changes the state. The waits of the protocol are:
     lock pred / lock victim        -> the holder; every holder can move except a Remove waiting for ITS pred lock
                                       while holding its victim, and that chain descends strictly in key order;
     Add spinning on a node that is not yet fully linked -> its creator, which can always move;
     Add spinning on a marked node that is still linked  -> its remover (same analysis as a lock holder). *)
From VF Require Import Common.Base C04.Proofs.
From VF Require Import C04.LazySkip C04.ProofsLazy C04.LazyReach C04.LazyEff C04.LazyLock.
Local Open Scope Z_scope.

Definition finished (th : thr) : Prop := todo th = [] /\ at_pc th = Idle.
Definition amove (h : heap) (t : nat) (p : pc) : Prop := snd (action h t p) <> p.

Lemma finished_dec th : {finished th} + {~ finished th}.
Proof.
  unfold finished. destruct (todo th); [|right; intros [X _]; discriminate].
  destruct (at_pc th); try (right; intros [_ X]; discriminate). left. auto.
Defined.

Lemma nx_ne h a c : ord h -> nx h a = Some c -> c <> a.
Proof.
  intros O E ->. destruct (O a a (nx_valid _ _ _ E) E) as (A & _ & C). specialize (C ltac:(lia)). lia.
Qed.

Definition busy (p : pc) : Prop := p <> Idle /\ forall r, p <> Done r.

Lemma thr_step_busy h t th : busy (at_pc th) ->
  thr_step h t th = (fst (action h t (at_pc th)), {| todo := todo th; at_pc := snd (action h t (at_pc th)) |}).
Proof.
  intros [B1 B2]. unfold thr_step. destruct (at_pc th) eqn:E; try congruence;
    try (exfalso; eapply B2; reflexivity); destruct (action h t _); reflexivity.
Qed.

Lemma step_thread s t th : nth_error (ths s) t = Some th ->
  nth_error (ths (step s t)) t = Some (snd (thr_step (hp s) t th)) /\ hp (step s t) = fst (thr_step (hp s) t th).
Proof.
  intros E. unfold step. rewrite E. destruct (thr_step (hp s) t th) as [h' th']. cbn [hp ths fst snd].
  split; [|reflexivity]. rewrite nth_error_upd. destruct (Nat.eq_dec t t); [|congruence]. now rewrite E.
Qed.

Lemma step_other s t t2 : t2 <> t -> nth_error (ths (step s t)) t2 = nth_error (ths s) t2.
Proof.
  intros N. unfold step. destruct (nth_error (ths s) t) as [th|]; [|reflexivity].
  destruct (thr_step (hp s) t th) as [h' th']. cbn [ths]. rewrite nth_error_upd.
  destruct (Nat.eq_dec t2 t); [congruence|reflexivity].
Qed.

Lemma moves_step s t th : nth_error (ths s) t = Some th -> snd (thr_step (hp s) t th) <> th -> step s t <> s.
Proof.
  intros E N X. destruct (step_thread s t th E) as [A _]. rewrite X, E in A. inversion A. congruence.
Qed.

Lemma amove_step s t th : nth_error (ths s) t = Some th -> busy (at_pc th) -> amove (hp s) t (at_pc th) ->
  step s t <> s.
Proof.
  intros E B M. eapply moves_step; [exact E|]. rewrite thr_step_busy by exact B. cbn [snd].
  intros X. apply M. rewrite <- X at 2. reflexivity.
Qed.

(* program counters from which the thread can always move *)
Definition always (p : pc) : Prop :=
  match p with
  | AValid _ _ _ | ALink _ _ _ | AFull _ _ _ | AUnlock _ _ _ | RFind _ _ _ | RCheck _ _ _ | RMark _ _ _
  | RValid _ _ _ | RUnlink _ _ _ | RUnlockV _ _ _ _ | RUnlockP _ _ _ _ | RGiveUp _ | CFind _ _ => True
  | _ => False
  end.

Lemma always_busy p : always p -> busy p.
Proof. destruct p; simpl; intros []; split; intros; discriminate. Qed.

Lemma amove_always h t p : ord h -> pc_ok h p -> tk h t p -> always p -> amove h t p.
Proof.
  intros O P T A. unfold amove. destruct p; simpl in A; try contradiction; cbn [action].
  - (* AValid *) match goal with |- context [if ?b then _ else _] => destruct b end; cbn [snd]; discriminate.
  - discriminate.
  - discriminate.
  - destruct res; cbn [snd]; discriminate.
  - (* RFind *) simpl in P. destruct P as [[V K] M]. destruct mk as [v|].
    + simpl in T. destruct T as [TV TR]. destruct M as (Pv & Vv & Kv).
      assert (NE : pred <> v) by (eapply pred_ne_victim; [split; eassumption|repeat split; eassumption]).
      destruct (reach_inv _ _ _ TR) as [?|(c & En & R2)]; [congruence|]. rewrite En.
      destruct (O pred c V En) as (Pc & Vc & _).
      destruct (ky h c <? k) eqn:E1; cbn [snd].
      * intros X. inversion X. eapply nx_ne; eauto.
      * apply Z.ltb_ge in E1. destruct (reach_key _ _ _ O Pc R2) as [->|Lt]; [|lia].
        rewrite Kv, Z.eqb_refl, Nat.eqb_refl. cbn [snd]. discriminate.
    + destruct (nx h pred) as [c|] eqn:En; cbn [snd]; [|discriminate].
      destruct (ky h c <? k); cbn [snd].
      * intros X. inversion X. eapply nx_ne; eauto.
      * destruct (ky h c =? k); cbn [snd]; discriminate.
  - (* RCheck *) destruct (lkd h v && negb (mkd h v)); cbn [snd]; discriminate.
  - (* RMark *) destruct (mkd h v); cbn [snd]; discriminate.
  - (* RValid *) match goal with |- context [if ?b then _ else _] => destruct b end; cbn [snd]; discriminate.
  - discriminate.
  - discriminate.
  - destruct ok; cbn [snd]; discriminate.
  - discriminate.
  - (* CFind *) destruct (nx h pred) as [c|] eqn:En; cbn [snd]; [|discriminate].
    destruct (ky h c <? k); cbn [snd].
    + intros X. inversion X. eapply nx_ne; eauto.
    + destruct (ky h c =? k); cbn [snd]; discriminate.
Qed.

Section Progress.
Variable s : state.
Hypothesis LI : LInv s.
Hypothesis I2 : Inv2 s.

Definition enabled : Prop := exists t th, nth_error (ths s) t = Some th /\ ~ finished th /\ step s t <> s.

Lemma busy_unfinished th : busy (at_pc th) -> ~ finished th.
Proof. intros [B _] [_ F]. contradiction. Qed.

Lemma always_enabled t th : nth_error (ths s) t = Some th -> always (at_pc th) -> enabled.
Proof.
  intros E A. exists t, th. split; [exact E|]. pose proof (always_busy _ A) as B. split; [now apply busy_unfinished|].
  apply (amove_step s t th E B). destruct LI as [_ O _]. apply amove_always; auto.
  - eapply pcs_ok; eauto.
  - now apply (i2_tk _ I2).
Qed.

(* a Remove that holds its victim and wants its pred lock: follow the chain of such waits downwards *)
Lemma keys_lb (h : heap) : exists m, forall i, valid h i -> m <= ky h i.
Proof.
  induction h as [|n h [m IH]]; [exists 0; intros i V; unfold valid in V; simpl in V; lia|].
  exists (Z.min m (key n)). intros [|i] V; unfold get; simpl; [lia|].
  unfold valid in V. simpl in V. specialize (IH i ltac:(unfold valid; lia)). unfold get in IH. lia.
Qed.

Lemma lockp_chain m : (forall i, valid (hp s) i -> m <= ky (hp s) i) ->
  forall n t th k p v, nth_error (ths s) t = Some th -> at_pc th = RLockP k p v ->
  (Z.to_nat (ky (hp s) v - m) < n)%nat -> enabled.
Proof.
  intros Hm. induction n as [|n IH]; intros t th k p v E Ep Hn; [lia|].
  pose proof (pcs_ok _ _ _ LI E) as P. rewrite Ep in P. simpl in P. destruct P as [[Vp Kp] (Pv & Vv & Kv)].
  destruct (lk (hp s) p) as [t'|] eqn:Lp.
  - (* pred is locked by t' *)
    destruct (i2_own _ I2 p t' Vp Lp) as (th' & E' & Hin).
    destruct (at_pc th') eqn:Ep'; simpl in Hin; try contradiction;
      try (eapply (always_enabled t' th' E'); rewrite Ep'; exact I).
    (* RLockP k0 pred v0 with v0 = p *) destruct Hin as [<-|[]].
    apply (IH t' th' k0 pred v0 E' Ep').
    assert (v0 <> 0%nat).
    { pose proof (pcs_ok _ _ _ LI E') as P'. rewrite Ep' in P'. simpl in P'. destruct P' as [_ (X & _)]. lia. }
    specialize (Kp ltac:(assumption)). pose proof (Hm v0 Vp). pose proof (Hm v Vv). lia.
  - (* free: the thread acquires it *)
    exists t, th. split; [exact E|]. assert (B : busy (at_pc th)) by (rewrite Ep; split; intros; discriminate).
    split; [now apply busy_unfinished|]. apply (amove_step s t th E B). rewrite Ep. unfold amove. cbn [action].
    unfold acquire. rewrite Lp. cbn [snd]. discriminate.
Qed.

Lemma lockp_enabled t th k p v : nth_error (ths s) t = Some th -> at_pc th = RLockP k p v -> enabled.
Proof.
  intros E Ep. destruct (keys_lb (hp s)) as [m Hm].
  apply (lockp_chain m Hm (Datatypes.S (Z.to_nat (ky (hp s) v - m))) t th k p v E Ep). lia.
Qed.

(* whoever holds a lock can move, or leads to a thread that can *)
Lemma holder_enabled i t : valid (hp s) i -> lk (hp s) i = Some t -> enabled.
Proof.
  intros V L. destruct (i2_own _ I2 i t V L) as (th & E & Hin).
  destruct (at_pc th) eqn:Ep; simpl in Hin; try contradiction;
    try (eapply (always_enabled t th E); rewrite Ep; exact I).
  eapply lockp_enabled; eauto.
Qed.

Lemma remover_enabled t th i : nth_error (ths s) t = Some th -> removing (at_pc th) i -> enabled.
Proof.
  intros E R. destruct (at_pc th) eqn:Ep; simpl in R; try contradiction;
    try (eapply (always_enabled t th E); rewrite Ep; exact I).
  eapply lockp_enabled; eauto.
Qed.

Theorem progress_state : Forall finished (ths s) \/ enabled.
Proof.
  destruct (Forall_Exists_dec finished finished_dec (ths s)) as [F|X]; [now left|right].
  apply Exists_exists in X as (th & Hin & NF). apply In_nth_error in Hin as (t & E).
  destruct LI as [L O PCS]. pose proof (pcs_ok _ _ _ LI E) as P. pose proof (i2_tk _ I2 _ _ E) as T.
  destruct (at_pc th) eqn:Ep;
    try (eapply (always_enabled t th E); rewrite Ep; exact I).
  - (* Idle with work to do *) exists t, th. split; [exact E|split; [exact NF|]].
    eapply moves_step; [exact E|]. unfold thr_step. rewrite Ep. destruct (todo th) as [|o rest] eqn:Et.
    + exfalso. apply NF. split; assumption.
    + cbn [snd]. intros X. rewrite <- X in Et. cbn [todo] in Et.
      assert (length rest = length (o :: rest)) by congruence. simpl in *. lia.
  - (* Done *) exists t, th. split; [exact E|split; [exact NF|]].
    eapply moves_step; [exact E|]. unfold thr_step. rewrite Ep. destruct (todo th) as [|o rest] eqn:Et; cbn [snd].
    + intros X. rewrite <- X in Ep. discriminate.
    + intros X. rewrite <- X in Ep. cbn [at_pc] in Ep. destruct o; discriminate.
  - (* AFind *) simpl in P. destruct P as [V K].
    assert (B : busy (at_pc th)) by (rewrite Ep; split; intros; discriminate).
    assert (MV : amove (hp s) t (AFind k pred) -> enabled).
    { intros M. exists t, th. split; [exact E|split; [exact NF|]]. apply (amove_step s t th E B). now rewrite Ep. }
    destruct (nx (hp s) pred) as [c|] eqn:En; [|apply MV; unfold amove; cbn [action]; rewrite En; discriminate].
    destruct (O pred c V En) as (Pc & Vc & _).
    destruct (ky (hp s) c <? k) eqn:E1.
    { apply MV. unfold amove. cbn [action]. rewrite En, E1. cbn [snd]. intros X. inversion X. eapply nx_ne; eauto. }
    destruct (ky (hp s) c =? k) eqn:E2; [|apply MV; unfold amove; cbn [action]; rewrite En, E1, E2; discriminate].
    destruct (mkd (hp s) c) eqn:Em.
    + (* marked: search again *)
      destruct (Nat.eq_dec pred 0) as [->|Np].
      * assert (Rc : reach (hp s) 0 c) by (eapply reach_step; [exact En|apply reach_refl]).
        destruct (i2_rm _ I2 c Vc Em Rc) as (t' & th' & E' & R'). eapply remover_enabled; eauto.
      * apply MV. unfold amove. cbn [action]. rewrite En, E1, E2, Em. cbn [snd]. intros X. inversion X. congruence.
    + destruct (lkd (hp s) c) eqn:El; [apply MV; unfold amove; cbn [action]; rewrite En, E1, E2, Em, El; discriminate|].
      destruct (i2_cr _ I2 c Pc Vc El) as (t' & th' & k' & p' & E' & Ep').
      eapply (always_enabled t' th' E'). rewrite Ep'. exact I.
  - (* ALock *) simpl in P. destruct P as [[V K] S].
    destruct (lk (hp s) pred) as [t'|] eqn:Lp; [eapply holder_enabled; eauto|].
    assert (B : busy (at_pc th)) by (rewrite Ep; split; intros; discriminate).
    exists t, th. split; [exact E|split; [exact NF|]]. apply (amove_step s t th E B). rewrite Ep.
    unfold amove. cbn [action]. unfold acquire. rewrite Lp. cbn [snd]. discriminate.
  - (* RLockV *) simpl in P. destruct P as [[V K] (Pv & Vv & Kv)].
    destruct (lk (hp s) v) as [t'|] eqn:Lp; [eapply holder_enabled; eauto|].
    assert (B : busy (at_pc th)) by (rewrite Ep; split; intros; discriminate).
    exists t, th. split; [exact E|split; [exact NF|]]. apply (amove_step s t th E B). rewrite Ep.
    unfold amove. cbn [action]. unfold acquire. rewrite Lp. cbn [snd]. discriminate.
  - (* RLockP *) eapply lockp_enabled; eauto.
Qed.
End Progress.

(* in every reachable state, either all threads have finished or an unfinished thread has a step that changes
   the state *)
Theorem lazy_no_deadlock progs sched : let s := run_sched (init progs) sched in
  Forall finished (ths s) \/
  exists t th, nth_error (ths s) t = Some th /\ ~ finished th /\ step s t <> s.
Proof. cbv zeta. apply progress_state; [apply lazy_inv|apply lazy_inv2]. Qed.
