(* C04 lemmas: the sequential skip-list model refines the finite map / finite set. *)
From VF Require Import Common.Base C04.Spec C04.Model.
Local Open Scope Z_scope.

(* strictly ascending, everything above lo *)
Fixpoint asc_from (lo : Z) (l : list Z) : Prop :=
  match l with [] => True | x :: t => lo < x /\ asc_from x t end.
Definition asc (l : list Z) : Prop := exists lo, asc_from lo l.

Lemma asc_weaken lo lo' l : asc_from lo l -> lo' <= lo -> asc_from lo' l.
Proof. destruct l as [|x t]; simpl; [auto|]. intros [H1 H2] H. split; [lia|exact H2]. Qed.

Lemma asc_lb lo l x : asc_from lo l -> In x l -> lo < x.
Proof.
  revert lo. induction l as [|y t IH]; simpl; intros lo H Hin; [tauto|].
  destruct H as [H1 H2]. destruct Hin as [->|Hin]; [exact H1|]. specialize (IH y H2 Hin). lia.
Qed.

Lemma asc_tail lo x t : asc_from lo (x :: t) -> asc_from lo t.
Proof. simpl. intros [H1 H2]. eapply asc_weaken; [exact H2|lia]. Qed.

Definition keys (l : list node) : list Z := map nk l.

Lemma keys_pairs l : map fst (pairs_of l) = keys l.
Proof. unfold pairs_of, keys. rewrite map_map. reflexivity. Qed.

(* ---------- finite-map laws of the specification (what makes Spec a map) ---------- *)

Lemma fm_get_notin k m : (forall p, In p m -> fst p <> k) -> fm_get k m = None.
Proof.
  unfold fm_get. induction m as [|[k' v'] t IH]; simpl; intros H; [reflexivity|].
  destruct (k' =? k) eqn:E; [apply Z.eqb_eq in E; exfalso; eapply (H (k', v')); [now left|exact E]|].
  apply IH. intros p Hp. apply H. now right.
Qed.

Lemma fm_put_keys lo k v m : asc_from lo (map fst m) -> lo < k -> asc_from lo (map fst (fm_put k v m)).
Proof.
  revert lo. induction m as [|[k' v'] t IH]; simpl; intros lo H Hk; [auto|].
  destruct H as [H1 H2]. destruct (k <? k') eqn:E1; [apply Z.ltb_lt in E1; simpl; auto|].
  apply Z.ltb_ge in E1. destruct (k =? k') eqn:E2.
  - apply Z.eqb_eq in E2. subst. simpl. auto.
  - apply Z.eqb_neq in E2. simpl. split; [exact H1|]. apply IH; [exact H2|lia].
Qed.

Lemma fm_get_put_same k v m : fm_get k (fm_put k v m) = Some v.
Proof.
  unfold fm_get. induction m as [|[k' v'] t IH]; simpl.
  - rewrite Z.eqb_refl. reflexivity.
  - destruct (k <? k') eqn:E1; [simpl; rewrite Z.eqb_refl; reflexivity|].
    destruct (k =? k') eqn:E2; [simpl; rewrite Z.eqb_refl; reflexivity|].
    simpl. rewrite Z.eqb_sym, E2. exact IH.
Qed.

Lemma fm_get_put_other k k2 v m : k2 <> k -> fm_get k2 (fm_put k v m) = fm_get k2 m.
Proof.
  intros Hne. unfold fm_get. induction m as [|[k' v'] t IH]; simpl.
  - destruct (k =? k2) eqn:E; [apply Z.eqb_eq in E; congruence|reflexivity].
  - destruct (k <? k') eqn:E1.
    + simpl. destruct (k =? k2) eqn:E; [apply Z.eqb_eq in E; congruence|reflexivity].
    + destruct (k =? k') eqn:E2.
      * apply Z.eqb_eq in E2. subst k'. simpl.
        destruct (k =? k2) eqn:E; [apply Z.eqb_eq in E; congruence|reflexivity].
      * simpl. destruct (k' =? k2); [reflexivity|exact IH].
Qed.

Lemma fm_get_del_same k m : fm_get k (fm_del k m) = None.
Proof.
  apply fm_get_notin. intros p Hp. unfold fm_del in Hp. apply filter_In in Hp as [_ Hp].
  apply negb_true_iff, Z.eqb_neq in Hp. exact Hp.
Qed.

Lemma fm_get_del_other k k2 m : k2 <> k -> fm_get k2 (fm_del k m) = fm_get k2 m.
Proof.
  intros Hne. unfold fm_get, fm_del. induction m as [|[k' v'] t IH]; simpl; [reflexivity|].
  destruct (k' =? k) eqn:E; simpl.
  - apply Z.eqb_eq in E. subst. destruct (k =? k2) eqn:E2; [apply Z.eqb_eq in E2; congruence|exact IH].
  - destruct (k' =? k2); [reflexivity|exact IH].
Qed.

Lemma fm_del_keys lo k m : asc_from lo (map fst m) -> asc_from lo (map fst (fm_del k m)).
Proof.
  revert lo. unfold fm_del. induction m as [|[k' v'] t IH]; simpl; intros lo H; [auto|].
  destruct H as [H1 H2]. destruct (k' =? k); simpl.
  - apply IH. eapply asc_weaken; [exact H2|lia].
  - split; [exact H1|apply IH; exact H2].
Qed.

Lemma fm_del_id k m : (forall p, In p m -> fst p <> k) -> fm_del k m = m.
Proof.
  unfold fm_del. induction m as [|p t IH]; simpl; intros H; [reflexivity|].
  destruct (fst p =? k) eqn:E; [apply Z.eqb_eq in E; exfalso; exact (H p (or_introl eq_refl) E)|].
  simpl. f_equal. apply IH. intros q Hq. apply H. now right.
Qed.

(* ---------- the chain operations against the map operations ---------- *)

Lemma find_node_some k l n : find_node k l = Some n -> nk n = k /\ In n l.
Proof.
  induction l as [|m t IH]; simpl; [discriminate|].
  destruct (nk m <? k); [intros H; destruct (IH H); auto|].
  destruct (nk m =? k) eqn:E; [|discriminate]. intros H. inversion H; subst. apply Z.eqb_eq in E. auto.
Qed.

Lemma pairs_above lo l k : asc_from lo (keys l) -> k <= lo -> forall p, In p (pairs_of l) -> fst p <> k.
Proof.
  intros H Hk p Hp. assert (Hin : In (fst p) (keys l)) by (rewrite <- keys_pairs; now apply in_map).
  pose proof (asc_lb _ _ _ H Hin). lia.
Qed.

Lemma find_node_get lo k l : asc_from lo (keys l) ->
  fm_get k (pairs_of l) = option_map nv (find_node k l).
Proof.
  revert lo. induction l as [|m t IH]; intros lo H; [reflexivity|].
  simpl in H. destruct H as [H1 H2]. cbn [find_node].
  destruct (nk m <? k) eqn:E1.
  - apply Z.ltb_lt in E1. rewrite <- (IH (nk m) H2). unfold fm_get. simpl.
    destruct (nk m =? k) eqn:E; [apply Z.eqb_eq in E; lia|reflexivity].
  - apply Z.ltb_ge in E1. destruct (nk m =? k) eqn:E2.
    + unfold fm_get. simpl. rewrite E2. reflexivity.
    + apply Z.eqb_neq in E2. simpl. apply fm_get_notin.
      apply (pairs_above k (m :: t)); [|lia]. simpl. split; [lia|exact H2].
Qed.

Lemma link_abs k v h l : find_node k l = None ->
  pairs_of (link {| nk := k; nv := v; nh := h |} l) = fm_put k v (pairs_of l).
Proof.
  induction l as [|m t IH]; simpl; intros H; [reflexivity|].
  destruct (nk m <? k) eqn:E1.
  - apply Z.ltb_lt in E1. destruct (k <? nk m) eqn:E3; [apply Z.ltb_lt in E3; lia|].
    destruct (k =? nk m) eqn:E4; [apply Z.eqb_eq in E4; lia|]. simpl. f_equal. now apply IH.
  - apply Z.ltb_ge in E1. destruct (nk m =? k) eqn:E2; [discriminate|]. apply Z.eqb_neq in E2.
    destruct (k <? nk m) eqn:E3; [reflexivity|]. apply Z.ltb_ge in E3. lia.
Qed.

Lemma setval_abs k v l n : find_node k l = Some n -> pairs_of (setval k v l) = fm_put k v (pairs_of l).
Proof.
  induction l as [|m t IH]; simpl; intros H; [discriminate|].
  destruct (nk m <? k) eqn:E1.
  - apply Z.ltb_lt in E1. destruct (k <? nk m) eqn:E3; [apply Z.ltb_lt in E3; lia|].
    destruct (k =? nk m) eqn:E4; [apply Z.eqb_eq in E4; lia|]. simpl. f_equal. now apply IH.
  - apply Z.ltb_ge in E1. destruct (nk m =? k) eqn:E2; [|discriminate]. apply Z.eqb_eq in E2.
    destruct (k <? nk m) eqn:E3; [apply Z.ltb_lt in E3; lia|].
    destruct (k =? nk m) eqn:E4; [|apply Z.eqb_neq in E4; lia]. simpl. now rewrite E2.
Qed.

Lemma unlink_abs lo k l : asc_from lo (keys l) -> pairs_of (unlink k l) = fm_del k (pairs_of l).
Proof.
  revert lo. induction l as [|m t IH]; intros lo H; [reflexivity|].
  simpl in H. destruct H as [H1 H2]. cbn [unlink].
  destruct (nk m <? k) eqn:E1.
  - apply Z.ltb_lt in E1. unfold fm_del. simpl.
    destruct (nk m =? k) eqn:E; [apply Z.eqb_eq in E; lia|]. simpl. f_equal. apply (IH (nk m) H2).
  - apply Z.ltb_ge in E1. destruct (nk m =? k) eqn:E2.
    + apply Z.eqb_eq in E2. unfold fm_del. simpl. rewrite (proj2 (Z.eqb_eq _ _) E2). simpl.
      symmetry. apply fm_del_id. apply (pairs_above (nk m) t); [exact H2|lia].
    + apply Z.eqb_neq in E2. symmetry. apply fm_del_id.
      apply (pairs_above k (m :: t)); [|lia]. simpl. split; [lia|exact H2].
Qed.

Lemma link_keys lo k v h l : asc_from lo (keys l) -> lo < k -> find_node k l = None ->
  asc_from lo (keys (link {| nk := k; nv := v; nh := h |} l)).
Proof.
  intros H Hk Hf. rewrite <- keys_pairs, (link_abs k v h l Hf). apply fm_put_keys; [|exact Hk].
  now rewrite keys_pairs.
Qed.

Lemma setval_keys k v l : keys (setval k v l) = keys l.
Proof.
  induction l as [|m t IH]; simpl; [reflexivity|].
  destruct (nk m <? k); [simpl; now rewrite IH|]. destruct (nk m =? k); reflexivity.
Qed.

Lemma unlink_keys lo k l : asc_from lo (keys l) -> asc_from lo (keys (unlink k l)).
Proof.
  intros H. rewrite <- keys_pairs, (unlink_abs lo k l H). apply fm_del_keys. now rewrite keys_pairs.
Qed.

Lemma link_length n l : length (link n l) = Datatypes.S (length l).
Proof. induction l as [|m t IH]; simpl; [reflexivity|]. destruct (nk m <? nk n); simpl; [now rewrite IH|reflexivity]. Qed.

Lemma setval_length k v l : length (setval k v l) = length l.
Proof.
  induction l as [|m t IH]; simpl; [reflexivity|].
  destruct (nk m <? k); [simpl; now rewrite IH|]. destruct (nk m =? k); reflexivity.
Qed.

Lemma unlink_length k l n : find_node k l = Some n -> Datatypes.S (length (unlink k l)) = length l.
Proof.
  induction l as [|m t IH]; simpl; [discriminate|].
  destruct (nk m <? k); [intros H; simpl; now rewrite IH|]. destruct (nk m =? k); [reflexivity|discriminate].
Qed.

Definition hts_ok (hlv : nat) (l : list node) : Prop := Forall (fun n => (1 <= nh n <= hlv)%nat) l.

Lemma hts_mono a b l : hts_ok a l -> (a <= b)%nat -> hts_ok b l.
Proof. unfold hts_ok. intros H Hab. eapply Forall_impl; [|exact H]. simpl. intros n Hn. lia. Qed.

Lemma link_hts hlv n l : hts_ok hlv l -> (1 <= nh n <= hlv)%nat -> hts_ok hlv (link n l).
Proof.
  unfold hts_ok. induction l as [|m t IH]; simpl; intros H Hn; [constructor; auto|].
  inversion H; subst. destruct (nk m <? nk n); constructor; auto.
Qed.

Lemma setval_hts hlv k v l : hts_ok hlv l -> hts_ok hlv (setval k v l).
Proof.
  unfold hts_ok. induction l as [|m t IH]; simpl; intros H; [constructor|]. inversion H; subst.
  destruct (nk m <? k); [constructor; auto|]. destruct (nk m =? k); [constructor; auto|exact H].
Qed.

Lemma unlink_hts hlv k l : hts_ok hlv l -> hts_ok hlv (unlink k l).
Proof.
  unfold hts_ok. induction l as [|m t IH]; simpl; intros H; [constructor|]. inversion H; subst.
  destruct (nk m <? k); [constructor; auto|]. destruct (nk m =? k); [assumption|exact H].
Qed.

(* ---------- the invariant and the simulation ---------- *)

Record Inv (s : skm) : Prop := {
  inv_asc : asc (keys (nodes s));
  inv_len : len s = Z.of_nat (length (nodes s));
  inv_hts : hts_ok (hl s) (nodes s) }.

Lemma Inv_sm0 : Inv sm0.
Proof. split; simpl; [exists 0; exact I|reflexivity|constructor]. Qed.

Lemma Inv_clear : Inv {| nodes := []; len := 0; hl := defaultHighestLevel |}.
Proof. exact Inv_sm0. Qed.

Lemma Inv_randomlevel h s : Inv s -> Inv (randomlevel h s).
Proof.
  intros [A L H]. split; simpl; auto. eapply hts_mono; [exact H|lia].
Qed.

Lemma asc_lower l k : asc l -> exists lo, asc_from lo l /\ lo < k.
Proof. intros [lo H]. exists (Z.min lo (k - 1)). split; [eapply asc_weaken; [exact H|lia]|lia]. Qed.

Lemma Inv_add_node k v h s : Inv s -> (1 <= h <= hl s)%nat -> find_node k (nodes s) = None ->
  Inv (add_node k v h s) /\ pairs_of (nodes (add_node k v h s)) = fm_put k v (pairs_of (nodes s)).
Proof.
  intros [A L H] Hh Hf. unfold add_node. cbn [nodes len hl].
  destruct (Nat.eqb h 0) eqn:E; [apply Nat.eqb_eq in E; lia|].
  split; [|now apply link_abs]. split; cbn [nodes len hl].
  - destruct (asc_lower _ k A) as (lo & Hlo & Hk). exists lo. now apply link_keys.
  - rewrite link_length, L. lia.
  - apply link_hts; [exact H|exact Hh].
Qed.

Lemma del_node_spec k s : Inv s ->
  let '(s1, r) := del_node k s in
  Inv s1 /\
  match r with
  | Some n => fm_get k (pairs_of (nodes s)) = Some (nv n) /\ pairs_of (nodes s1) = fm_del k (pairs_of (nodes s))
  | None => fm_get k (pairs_of (nodes s)) = None /\ s1 = s
  end.
Proof.
  intros I. pose proof I as [A L H]. destruct A as [lo A]. unfold del_node.
  rewrite (find_node_get lo k _ A). destruct (find_node k (nodes s)) as [n|] eqn:Ef; simpl.
  - destruct (find_node_some _ _ _ Ef) as [Hk Hin].
    assert (Hn : (1 <= nh n <= hl s)%nat) by (unfold hts_ok in H; rewrite Forall_forall in H; now apply H).
    unfold lfound. rewrite Nat.min_l by lia. rewrite Nat.eqb_refl.
    split; [|split; [reflexivity|now apply (unlink_abs lo)]].
    split; cbn [nodes len hl].
    + exists lo. now apply unlink_keys.
    + pose proof (unlink_length _ _ _ Ef). lia.
    + now apply unlink_hts.
  - auto.
Qed.

Definition Rmap (s : skm) (m : fmap) : Prop := Inv s /\ pairs_of (nodes s) = m.

Lemma pairs_length l : length (pairs_of l) = length l.
Proof. unfold pairs_of. apply map_length. Qed.

Lemma store_refines k v h s m : Rmap s m -> (1 <= h)%nat -> Rmap (store k v h s) (fm_put k v m).
Proof.
  intros [I <-] Hh. unfold store. pose proof (Inv_randomlevel h s I) as I1.
  set (s1 := randomlevel h s) in *. assert (En : nodes s1 = nodes s) by reflexivity.
  destruct (find_node k (nodes s1)) as [n|] eqn:Ef.
  - destruct I1 as [A L H]. split; [split; cbn [nodes len hl]|cbn [nodes]].
    + now rewrite setval_keys.
    + now rewrite setval_length.
    + now apply setval_hts.
    + rewrite <- En. now apply (setval_abs k v _ n).
  - assert (Hb : (1 <= h <= hl s1)%nat) by (unfold s1; simpl; lia).
    destruct (Inv_add_node k v h s1 I1 Hb Ef) as [I2 E2]. split; [exact I2|]. now rewrite E2, En.
Qed.

Lemma insert_absent_refines k v h s m : Rmap s m -> (1 <= h)%nat -> find_node k (nodes s) = None ->
  Rmap (add_node k v h (randomlevel h s)) (fm_put k v m).
Proof.
  intros [I <-] Hh Hf. pose proof (Inv_randomlevel h s I) as I1.
  assert (Hb : (1 <= h <= hl (randomlevel h s))%nat) by (simpl; lia).
  destruct (Inv_add_node k v h (randomlevel h s) I1 Hb Hf) as [I2 E2]. split; [exact I2|exact E2].
Qed.

Lemma get_of_find s m k : Rmap s m -> fm_get k m = option_map nv (find_node k (nodes s)).
Proof. intros [[[lo A] _ _] <-]. now apply (find_node_get lo). Qed.

Lemma map_step_refines s m o : Rmap s m -> (forall h, mop_height o = Some h -> (1 <= h)%nat) ->
  Rmap (fst (skipmap_step s o)) (fst (fmap_step m o)) /\ snd (skipmap_step s o) = snd (fmap_step m o).
Proof.
  intros R Hh. pose proof R as [I E]. pose proof (fun k => get_of_find s m k R) as G.
  destruct o as [k v h|k|k v h|k v h|k|k|lim| | | | | | |k v h|k|k]; cbn [skipmap_step fmap_step mop_height] in *.
  - split; [|reflexivity]. cbn [fst]. apply store_refines; auto.
  - rewrite G. destruct (find_node k (nodes s)); cbn; auto.
  - rewrite G. destruct (find_node k (nodes s)) as [n|] eqn:Ef; cbn [option_map fst snd]; [auto|].
    split; [|reflexivity]. apply insert_absent_refines; auto.
  - rewrite G. destruct (find_node k (nodes s)) as [n|] eqn:Ef; cbn [option_map fst snd]; [auto|].
    split; [|reflexivity]. apply insert_absent_refines; auto.
  - pose proof (del_node_spec k s I) as D. destruct (del_node k s) as [s1 [n|]]; destruct D as [I1 [D1 D2]];
      rewrite E in *; rewrite D1; cbn [fst snd]; [|subst s1]; split; auto; split; auto.
  - pose proof (del_node_spec k s I) as D. destruct (del_node k s) as [s1 [n|]]; destruct D as [I1 [D1 D2]];
      rewrite E in *; rewrite D1; cbn [fst snd]; [|subst s1]; split; auto; split; auto.
  - cbn [fst snd]. rewrite E. auto.
  - cbn [fst snd]. split; [exact R|]. f_equal. rewrite <- E, pairs_length. apply I.
  - cbn [fst snd]. split; [|reflexivity]. split; [exact Inv_clear|reflexivity].
  - cbn [fst snd]. split; [exact R|]. f_equal. rewrite <- E. unfold pairs_of. now rewrite map_map.
  - cbn [fst snd]. split; [exact R|]. f_equal. rewrite <- E. unfold pairs_of. now rewrite map_map.
  - cbn [fst snd]. split; [exact R|]. f_equal. rewrite <- E, pairs_length. apply I.
  - cbn [fst snd]. split; [exact R|]. f_equal. rewrite <- E, pairs_length.
    destruct I as [_ L _]. rewrite L. destruct (length (nodes s)); reflexivity.
  - split; [|reflexivity]. cbn [fst]. apply store_refines; auto.
  - rewrite G. destruct (find_node k (nodes s)); cbn; auto.
  - pose proof (del_node_spec k s I) as D. destruct (del_node k s) as [s1 [n|]]; destruct D as [I1 [D1 D2]];
      rewrite E in *; cbn [fst snd]; split; auto; split; auto.
    subst s1. rewrite E. symmetry. apply fm_del_id. intros p Hp Hk.
    unfold fm_get in D1. destruct (find (fun p0 => fst p0 =? k) m) eqn:Ef; [discriminate|].
    pose proof (find_none _ _ Ef p Hp) as Hn. simpl in Hn. apply Z.eqb_neq in Hn. contradiction.
Qed.

Lemma run_refines {S1 S2 O R} (st1 : S1 -> O -> S1 * R) (st2 : S2 -> O -> S2 * R)
      (Rel : S1 -> S2 -> Prop) (P : O -> Prop) :
  (forall s m o, Rel s m -> P o -> Rel (fst (st1 s o)) (fst (st2 m o)) /\ snd (st1 s o) = snd (st2 m o)) ->
  forall ops s m, Rel s m -> (forall o, In o ops -> P o) ->
    Rel (fst (run st1 s ops)) (fst (run st2 m ops)) /\ snd (run st1 s ops) = snd (run st2 m ops).
Proof.
  intros Hstep. induction ops as [|o t IH]; intros s m HR HP; [simpl; auto|].
  cbn [run]. destruct (Hstep s m o HR (HP o (or_introl eq_refl))) as [HR1 Hr].
  destruct (st1 s o) as [s1 r1], (st2 m o) as [m1 r2]. cbn [fst snd] in *.
  destruct (IH s1 m1 HR1 (fun o' Ho' => HP o' (or_intror Ho'))) as [HR2 Hrs].
  destruct (run st1 s1 t) as [s2 rs1], (run st2 m1 t) as [m2 rs2]. cbn [fst snd] in *.
  split; [exact HR2|congruence].
Qed.

Lemma Rmap0 : Rmap sm0 [].
Proof. split; [exact Inv_sm0|reflexivity]. Qed.

Lemma seq_map_refines ops : mheights_pos ops ->
  Rmap (fst (run skipmap_step sm0 ops)) (fst (run fmap_step [] ops)) /\
  snd (run skipmap_step sm0 ops) = snd (run fmap_step [] ops).
Proof.
  intros Hh. apply (run_refines skipmap_step fmap_step Rmap
                      (fun o => forall h, mop_height o = Some h -> (1 <= h)%nat)).
  - intros s m o HR HP. now apply map_step_refines.
  - exact Rmap0.
  - intros o Ho h Hoh. eapply Hh; eauto.
Qed.

(* every reachable specification state has strictly ascending keys *)
Lemma fmap_step_asc m o : asc (map fst m) -> asc (map fst (fst (fmap_step m o))).
Proof.
  intros A.
  assert (Hput : forall k v, asc (map fst (fm_put k v m))).
  { intros k v. destruct (asc_lower _ k A) as (lo & H1 & H2). exists lo. now apply fm_put_keys. }
  assert (Hdel : forall k, asc (map fst (fm_del k m))).
  { intros k. destruct A as [lo A]. exists lo. now apply fm_del_keys. }
  destruct o; cbn [fmap_step]; try destruct (fm_get k m); cbn [fst]; auto. exists 0. exact I.
Qed.

Lemma fmap_run_asc ops : forall m, asc (map fst m) -> asc (map fst (fst (run fmap_step m ops))).
Proof.
  induction ops as [|o t IH]; intros m A; [exact A|]. cbn [run].
  pose proof (fmap_step_asc m o A) as A1. destruct (fmap_step m o) as [m1 r]. cbn [fst] in A1.
  specialize (IH m1 A1). destruct (run fmap_step m1 t) as [m2 rs]. exact IH.
Qed.

(* ---------- the set ---------- *)

Lemma fs_mem_get x m : fs_mem x (map fst m) = match fm_get x m with Some _ => true | None => false end.
Proof.
  unfold fs_mem, fm_get. induction m as [|[k v] t IH]; simpl; [reflexivity|].
  rewrite (Z.eqb_sym x k). destruct (k =? x); simpl; [reflexivity|exact IH].
Qed.

Lemma fs_add_put k v m : map fst (fm_put k v m) = fs_add k (map fst m).
Proof.
  induction m as [|[k' v'] t IH]; simpl; [reflexivity|].
  destruct (k <? k'); [reflexivity|]. destruct (k =? k') eqn:E; simpl; [apply Z.eqb_eq in E; now subst|now rewrite IH].
Qed.

Lemma fs_del_del k m : map fst (fm_del k m) = fs_del k (map fst m).
Proof.
  unfold fm_del, fs_del. induction m as [|[k' v'] t IH]; simpl; [reflexivity|].
  destruct (k' =? k); simpl; now rewrite IH.
Qed.

Lemma fs_mem_in x s : fs_mem x s = true <-> In x s.
Proof.
  unfold fs_mem. rewrite existsb_exists. split.
  - intros (y & Hy & E). apply Z.eqb_eq in E. now subst.
  - intros H. exists x. split; [exact H|apply Z.eqb_refl].
Qed.

Lemma fs_add_present lo x s : asc_from lo s -> fs_mem x s = true -> fs_add x s = s.
Proof.
  revert lo. induction s as [|y t IH]; intros lo A M; [discriminate|].
  simpl in A. destruct A as [A1 A2]. apply fs_mem_in in M. cbn [fs_add].
  destruct (x <? y) eqn:E1.
  - apply Z.ltb_lt in E1. destruct M as [M|M]; [lia|]. pose proof (asc_lb _ _ _ A2 M). lia.
  - destruct (x =? y) eqn:E2; [reflexivity|]. apply Z.eqb_neq in E2. f_equal.
    apply (IH y A2). apply fs_mem_in. destruct M as [M|M]; [congruence|exact M].
Qed.

Lemma fs_del_absent x s : fs_mem x s = false -> fs_del x s = s.
Proof.
  unfold fs_del. induction s as [|y t IH]; simpl; intros M; [reflexivity|].
  apply orb_false_iff in M as [M1 M2]. rewrite Z.eqb_sym, M1. simpl. f_equal. now apply IH.
Qed.

Definition Rset (s : skm) (f : fset) : Prop := Inv s /\ keys (nodes s) = f.

Lemma Rset_mem s f x : Rset s f -> fs_mem x f = containsb x s.
Proof.
  intros [[[lo A] _ _] <-]. rewrite <- keys_pairs, fs_mem_get, (find_node_get lo x _ A).
  unfold containsb. destruct (find_node x (nodes s)); reflexivity.
Qed.

Lemma addb_refines x h s f : Rset s f -> (1 <= h)%nat ->
  Rset (fst (addb x h s)) (fs_add x f) /\ snd (addb x h s) = negb (fs_mem x f).
Proof.
  intros R Hh. rewrite (Rset_mem s f x R). destruct R as [I <-]. unfold addb, containsb.
  pose proof (Inv_randomlevel h s I) as I1. cbn [randomlevel nodes].
  destruct (find_node x (nodes s)) as [n|] eqn:Ef; cbn [fst snd negb].
  - split; [|reflexivity]. split; [exact I1|]. cbn [randomlevel nodes].
    destruct I as [[lo A] _ _]. symmetry. apply (fs_add_present lo); [exact A|].
    rewrite <- keys_pairs, fs_mem_get, (find_node_get lo x _ A), Ef. reflexivity.
  - split; [|reflexivity].
    assert (Hb : (1 <= h <= hl (randomlevel h s))%nat) by (simpl; lia).
    destruct (Inv_add_node x 0 h (randomlevel h s) I1 Hb Ef) as [I2 E2]. split; [exact I2|].
    rewrite <- keys_pairs, E2, fs_add_put, keys_pairs. reflexivity.
Qed.

Lemma delb_refines x s f : Rset s f ->
  Rset (fst (del_node x s)) (fs_del x f) /\
  (match snd (del_node x s) with Some _ => true | None => false end) = fs_mem x f.
Proof.
  intros R. destruct R as [I <-]. pose proof (del_node_spec x s I) as D.
  assert (M : fs_mem x (keys (nodes s)) = match fm_get x (pairs_of (nodes s)) with Some _ => true | None => false end)
    by (rewrite <- keys_pairs; apply fs_mem_get).
  destruct (del_node x s) as [s1 [n|]]; destruct D as [I1 [D1 D2]]; rewrite D1 in M; rewrite M; cbn [fst snd].
  - split; [|reflexivity]. split; [exact I1|]. rewrite <- (keys_pairs (nodes s1)), D2, fs_del_del, keys_pairs. reflexivity.
  - subst s1. split; [|reflexivity]. split; [exact I|]. symmetry. apply fs_del_absent. exact M.
Qed.

Lemma set_step_refines s f o : Rset s f ->
  match o with AddB _ h => (1 <= h)%nat | Add xs => forall xh, In xh xs -> (1 <= snd xh)%nat | _ => True end ->
  Rset (fst (skipset_step s o)) (fst (fset_step f o)) /\ snd (skipset_step s o) = snd (fset_step f o).
Proof.
  intros R Hh. pose proof R as [I E].
  destruct o as [x h|xs|x|xs|x|xs|lim| | | | | ]; cbn [skipset_step fset_step].
  - destruct (addb_refines x h s f R Hh) as [R1 Hb]. destruct (addb x h s) as [s1 b]. cbn [fst snd] in *.
    subst b. destruct (fs_mem x f) eqn:M; cbn [negb fst snd]; split; auto.
    destruct I as [[lo A] _ _]. rewrite (fs_add_present lo) in R1; [exact R1| |exact M].
    rewrite <- E. exact A.
  - cbn [fst snd]. split; [|reflexivity]. revert s f R I E Hh.
    induction xs as [|[x h] t IH]; intros s f R I E Hh; [exact R|]. cbn [fold_left fst snd].
    assert (H1 : (1 <= h)%nat) by (apply (Hh (x, h)); now left).
    destruct (addb_refines x h s f R H1) as [R1 _]. pose proof R1 as [I1 E1].
    apply IH; auto. intros xh Hx. apply Hh. now right.
  - cbn [fst snd]. rewrite (Rset_mem s f x R). auto.
  - cbn [fst snd]. split; [exact R|]. f_equal.
    induction xs as [|x t IH]; [reflexivity|]. simpl. rewrite IH, (Rset_mem s f x R). reflexivity.
  - destruct (delb_refines x s f R) as [R1 Hb]. destruct (del_node x s) as [s1 [n|]]; cbn [fst snd] in *;
      rewrite <- Hb; cbn [fst snd]; split; auto.
    rewrite fs_del_absent in R1 by (symmetry; exact Hb). exact R1.
  - cbn [fst snd]. split; [|reflexivity]. clear Hh. revert s f R I E.
    induction xs as [|x t IH]; intros s f R I E; [exact R|]. cbn [fold_left].
    destruct (delb_refines x s f R) as [R1 _]. pose proof R1 as [I1 E1]. apply IH; auto.
  - cbn [fst snd]. split; [exact R|]. rewrite <- E. reflexivity.
  - cbn [fst snd]. split; [exact R|]. f_equal. rewrite <- E. unfold keys. rewrite map_length. apply I.
  - cbn [fst snd]. split; [exact R|]. f_equal. rewrite <- E. unfold keys. rewrite map_length. apply I.
  - cbn [fst snd]. split; [exact R|]. f_equal. rewrite <- E. unfold keys. rewrite map_length.
    destruct I as [_ L _]. rewrite L. destruct (length (nodes s)); reflexivity.
  - cbn [fst snd]. split; [|reflexivity]. split; [exact Inv_clear|reflexivity].
  - cbn [fst snd]. split; [exact R|]. rewrite <- E. reflexivity.
Qed.

Lemma seq_set_refines ops : sheights_pos ops ->
  Rset (fst (run skipset_step sm0 ops)) (fst (run fset_step [] ops)) /\
  snd (run skipset_step sm0 ops) = snd (run fset_step [] ops).
Proof.
  intros Hh. apply (run_refines skipset_step fset_step Rset
    (fun o => match o with AddB _ h => (1 <= h)%nat | Add xs => forall xh, In xh xs -> (1 <= snd xh)%nat | _ => True end)).
  - intros s m o HR HP. now apply set_step_refines.
  - split; [exact Inv_sm0|reflexivity].
  - intros o Ho. exact (Hh o Ho).
Qed.

(* ---------- consequences stated on reachable states ---------- *)

Lemma seq_map_state ops : mheights_pos ops ->
  let s := fst (run skipmap_step sm0 ops) in
  let m := fst (run fmap_step [] ops) in
  pairs_of (nodes s) = m /\ len s = Z.of_nat (length m) /\ asc (map fst m) /\ hts_ok (hl s) (nodes s).
Proof.
  intros Hh. destruct (seq_map_refines ops Hh) as [[I E] _]. cbv zeta. split; [exact E|].
  split; [rewrite <- E, pairs_length; apply I|]. split; [|apply I].
  apply fmap_run_asc. exists 0. exact Logic.I.
Qed.

Lemma fset_step_asc f o : asc f -> asc (fst (fset_step f o)).
Proof.
  intros A.
  assert (Hadd : forall f' x, asc f' -> asc (fs_add x f')).
  { intros f' x A'. destruct (asc_lower _ x A') as (lo & H1 & H2). exists lo.
    assert (E : f' = map fst (map (fun y => (y, 0)) f')) by (rewrite map_map; simpl; now rewrite map_id).
    rewrite E, <- (fs_add_put x 0). apply fm_put_keys; [now rewrite <- E|exact H2]. }
  assert (Hdel : forall f' x, asc f' -> asc (fs_del x f')).
  { intros f' x [lo A']. exists lo.
    assert (E : f' = map fst (map (fun y => (y, 0)) f')) by (rewrite map_map; simpl; now rewrite map_id).
    rewrite E, <- fs_del_del. apply fm_del_keys. now rewrite <- E. }
  destruct o; cbn [fset_step]; try destruct (fs_mem x f); cbn [fst]; auto.
  - revert f A. induction xs as [|xh t IH]; intros f A; [exact A|]. simpl. apply IH. now apply Hadd.
  - revert f A. induction xs as [|y t IH]; intros f A; [exact A|]. simpl. apply IH. now apply Hdel.
  - exists 0. exact I.
Qed.

Lemma fset_run_asc ops : forall f, asc f -> asc (fst (run fset_step f ops)).
Proof.
  induction ops as [|o t IH]; intros f A; [exact A|]. cbn [run].
  pose proof (fset_step_asc f o A) as A1. destruct (fset_step f o) as [f1 r]. cbn [fst] in A1.
  specialize (IH f1 A1). destruct (run fset_step f1 t) as [f2 rs]. exact IH.
Qed.

Lemma seq_set_state ops : sheights_pos ops ->
  let s := fst (run skipset_step sm0 ops) in
  let f := fst (run fset_step [] ops) in
  map nk (nodes s) = f /\ len s = Z.of_nat (length f) /\ asc f.
Proof.
  intros Hh. destruct (seq_set_refines ops Hh) as [[I E] _]. cbv zeta. split; [exact E|].
  split; [rewrite <- E; unfold keys; rewrite map_length; apply I|].
  apply fset_run_asc. exists 0. exact Logic.I.
Qed.

(* the lazy constructor runs exactly once when the call inserts and not at all otherwise *)
Lemma lazy_once ops k v h : mheights_pos ops ->
  let s := fst (run skipmap_step sm0 ops) in
  exists a loaded calls,
    snd (skipmap_step s (LoadOrStoreLazy k v h)) = RLazy a loaded calls /\
    (loaded = false <-> fm_get k (pairs_of (nodes s)) = None) /\
    calls = (if loaded then 0 else 1)%nat /\
    (loaded = false -> a = v) /\ (loaded = true -> fm_get k (pairs_of (nodes s)) = Some a).
Proof.
  intros Hh. destruct (seq_map_refines ops Hh) as [R _]. cbv zeta.
  set (s := fst (run skipmap_step sm0 ops)) in *.
  pose proof (get_of_find s _ k R) as G. destruct R as [_ E]. rewrite <- E in G.
  cbn [skipmap_step]. rewrite G. destruct (find_node k (nodes s)) as [n|]; cbn [snd option_map].
  - exists (nv n), true, 0%nat. repeat split; try discriminate; auto.
  - exists v, false, 1%nat. repeat split; try discriminate; auto.
Qed.

Lemma len_after_clear s :
  snd (skipmap_step (fst (skipmap_step s Clear)) Len) = RInt 0 /\
  snd (skipset_step (fst (skipset_step s SClear)) SLen) = RInt 0 /\
  snd (skipmap_step (fst (skipmap_step s Clear)) Empty) = RBool true.
Proof. repeat split. Qed.
