(* C04 protocol model WITH VALUES (LazyMap.v, repaired code): the execution instrumented with linearization points.

   [grun progs sched] executes the schedule like [LazyMap.run true] and records
     - the completed operations exactly as [LazyMap.history true] does (theorem [grun_history] below);
     - for the proofs only: the heaps of all moments [g_hs], the indices [g_chg] of the linearization steps, and
       with every completed operation a point [e_pt]:
         2*m+1 = "the step with index m": the fullyLinked step (SFull) or the value write (SWrite) of a Store, the
                 fullyLinked step (OFull) of a LoadOrStore(Lazy) that stored, the marking step (RMark on an
                 unmarked victim) of a successful LoadAndDelete / Delete: recorded in [p_lp]
                 when the step is executed;
         2*m   = "the state before step m" for a Load, a LoadOrStore(Lazy) that loaded, and an unsuccessful
                 LoadAndDelete / Delete: COMPUTED when the
                 operation completes, as the latest moment inside the operation at which the specification gives
                 the answer the operation returned ([find_obs] over the recorded heaps). *)
From VF Require Import Common.Base Common.Hist C04.Spec C04.LazyMap C04.ProofsLazyMap C04.LzmReach C04.LzmLock C04.LzmAbs.
Local Open Scope Z_scope.

Record pnd := { p_op : opk; p_inv : nat; p_lp : option nat }.
Record entry := { e_op : hop; e_pt : nat }.
Record gst := { g_s : state; g_n : nat; g_cur : list (option pnd); g_log : list entry; g_chg : list nat;
                g_hs : list heap }.

Definition set_lp (m : nat) (pd : pnd) : pnd := {| p_op := p_op pd; p_inv := p_inv pd; p_lp := Some m |}.

(* does the specification, in a state that describes heap h, give the answer (v, ok) to the observer o? *)
Definition obs_ok (o : opk) (v : Z) (ok : bool) (h : heap) : bool :=
  match o with
  | MStore _ _ => false
  | MLoad k => match fm_get k (absmap h) with Some x => ok && (x =? v) | None => negb ok && (v =? 0) end
  | MLoadAndDelete k => match fm_get k (absmap h) with Some _ => false | None => negb ok && (v =? 0) end
  | MLoadOrStore k _ | MLoadOrStoreLazy k _ => match fm_get k (absmap h) with Some x => ok && (x =? v) | None => false end
  | MDelete k => match fm_get k (absmap h) with Some _ => false | None => negb ok end
  end.

(* the latest moment m in (lo, lo + d] whose heap satisfies f *)
Fixpoint find_obs (f : heap -> bool) (hs : list heap) (lo d : nat) : option nat :=
  match d with
  | O => None
  | Datatypes.S d' => if f (nth (lo + d)%nat hs []) then Some (lo + d)%nat else find_obs f hs lo d'
  end.

Definition is_mut (o : opk) (ok : bool) : bool :=
  match o with
  | MStore _ _ => true | MLoadAndDelete _ | MDelete _ => ok | MLoad _ => false
  | MLoadOrStore _ _ | MLoadOrStoreLazy _ _ => negb ok
  end.

Definition point (pd : pnd) (v : Z) (ok : bool) (n : nat) (hs : list heap) : nat :=
  if is_mut (p_op pd) ok then match p_lp pd with Some m => 2 * m + 1 | None => 0 end
  else match find_obs (obs_ok (p_op pd) v ok) hs (p_inv pd) (n - p_inv pd) with Some m => 2 * m | None => 0 end.

Definition mk_entry (pd : pnd) (calls : nat) (v : Z) (ok : bool) (n : nat) (hs : list heap) : entry :=
  {| e_op := {| Hist.inv := N.of_nat (p_inv pd); Hist.resp := N.of_nat n;
                Hist.call := call_of (p_op pd); Hist.ret := ret_of (p_op pd) calls v ok |};
     e_pt := point pd v ok n hs |}.

(* what the acting thread does to its own pending record *)
Definition own_upd (s : state) (n t : nat) (cur : list (option pnd)) : list (option pnd) :=
  match nth_error (ths s) t with
  | None => cur
  | Some th =>
      if resting (at_pc th)
      then match todo th with
           | o :: _ => upd cur t (Some {| p_op := o; p_inv := n; p_lp := None |})
           | [] => cur
           end
      else if lin_pc (hp s) (at_pc th) then upd cur t (option_map (set_lp n) (nth t cur None)) else cur
  end.

(* the result with which the acting thread completes its operation in this step, if it does *)
Definition fin_res (s : state) (t : nat) : option (Z * bool) :=
  if resting (pc_of s t) then None
  else match pc_of (step true s t) t with Done v ok => Some (v, ok) | _ => None end.

Definition gstep (g : gst) (t : nat) : gst :=
  let s := g_s g in let n := g_n g in
  let s' := step true s t in
  let cur1 := own_upd s n t (g_cur g) in
  let chg' := if negb (resting (pc_of s t)) && lin_pc (hp s) (pc_of s t) then g_chg g ++ [n] else g_chg g in
  let fin := match fin_res s t, nth t cur1 None with Some r, Some pd => Some (r, pd) | _, _ => None end in
  {| g_s := s'; g_n := Datatypes.S n;
     g_cur := match fin with Some _ => upd cur1 t None | None => cur1 end;
     g_log := match fin with Some (r, pd) => g_log g ++ [mk_entry pd (calls_of (pc_of s t)) (fst r) (snd r) n (g_hs g)] | None => g_log g end;
     g_chg := chg';
     g_hs := g_hs g ++ [hp s'] |}.

Definition ginit (progs : list (list opk)) : gst :=
  {| g_s := init progs; g_n := 0; g_cur := map (fun _ => None) progs; g_log := []; g_chg := [];
     g_hs := [hp (init progs)] |}.

Definition grun (progs : list (list opk)) (sched : list nat) : gst := fold_left gstep sched (ginit progs).

(* ---------- the instrumented run records the history of LazyMap.history ---------- *)
Lemma step_ths_length rep s t : length (ths (step rep s t)) = length (ths s).
Proof. unfold step. destruct (nth_error (ths s) t); [|reflexivity]. cbn [ths]. apply upd_length. Qed.

Lemma pc_of_step_other rep s t u : u <> t -> pc_of (step rep s t) u = pc_of s u.
Proof.
  intros N. unfold pc_of, step. destruct (nth_error (ths s) t); [|reflexivity]. cbn [ths].
  now rewrite nth_error_upd_other.
Qed.

Record Sim (g : gst) (x : istate) : Prop := {
  sim_s : g_s g = ist x;
  sim_n : g_n g = clock x;
  sim_log : map e_op (g_log g) = hlog x;
  sim_lc : length (g_cur g) = length (ths (g_s g));
  sim_lp : length (pend x) = length (ths (g_s g));
  sim_pd : forall t, resting (pc_of (g_s g) t) = false ->
             exists pd, nth t (g_cur g) None = Some pd /\ nth t (pend x) None = Some (p_op pd, p_inv pd) }.

Lemma sim_step g x t : Sim g x -> Sim (gstep g t) (istep true x t).
Proof.
  intros [Es En El Lc Lp Pd]. unfold gstep, istep. rewrite <- Es, <- En. set (s := g_s g) in *. set (n := g_n g) in *.
  assert (OTH : forall c1 q1, length c1 = length (g_cur g) -> length q1 = length (pend x) ->
            (forall u, u <> t -> nth u c1 None = nth u (g_cur g) None /\ nth u q1 None = nth u (pend x) None) ->
            forall u, u <> t -> resting (pc_of (step true s t) u) = false ->
            exists pd, nth u c1 None = Some pd /\ nth u q1 None = Some (p_op pd, p_inv pd)).
  { intros c1 q1 _ _ X u N R. rewrite pc_of_step_other in R by exact N. destruct (X u N) as [A B]. rewrite A, B. now apply Pd. }
  destruct (nth_error (ths s) t) as [th|] eqn:E.
  2:{ (* no such thread *)
    assert (PC : pc_of s t = Idle) by (unfold pc_of; now rewrite E).
    assert (SS : step true s t = s) by (unfold step; now rewrite E).
    unfold fin_res, own_upd. rewrite PC, E. cbn [resting negb andb]. rewrite SS.
    split; cbn [g_s g_n g_cur g_log ist clock hlog pend]; auto. }
  assert (PC : pc_of s t = at_pc th) by (unfold pc_of; now rewrite E).
  assert (Lt : (t < length (g_cur g))%nat) by (rewrite Lc; apply nth_error_Some; fold s; congruence).
  assert (Lt' : (t < length (pend x))%nat) by (rewrite Lp; apply nth_error_Some; fold s; congruence).
  unfold fin_res, own_upd. rewrite PC, E.
  destruct (resting (at_pc th)) eqn:R.
  - (* the thread is between operations *)
    cbn [negb andb].
    assert (PC' : pc_of (step true s t) t = match todo th with [] => Idle | o :: _ => start o end).
    { unfold pc_of, step. rewrite E. cbn [ths]. rewrite nth_error_upd_same by (apply nth_error_Some; congruence).
      unfold thr_step. rewrite R. destruct (todo th); reflexivity. }
    destruct th as [td p]. cbn [todo at_pc] in *. destruct td as [|o rest].
    + split; cbn [g_s g_n g_cur g_log ist clock hlog pend]; auto.
      * now rewrite step_ths_length.
      * now rewrite step_ths_length.
      * intros u Ru. destruct (Nat.eq_dec u t) as [->|N]; [rewrite PC' in Ru; discriminate|].
        apply (OTH (g_cur g) (pend x)); auto.
    + assert (NT : nth t (upd (g_cur g) t (Some {| p_op := o; p_inv := n; p_lp := None |})) None
                   = Some {| p_op := o; p_inv := n; p_lp := None |}) by (now apply nth_upd_same).
      split; cbn [g_s g_n g_cur g_log ist clock hlog pend]; auto.
      * now rewrite upd_length, step_ths_length.
      * now rewrite upd_length, step_ths_length.
      * intros u Ru. destruct (Nat.eq_dec u t) as [->|N].
        -- eexists. split; [exact NT|]. rewrite nth_upd_same by exact Lt'. reflexivity.
        -- apply (OTH (upd (g_cur g) t (Some {| p_op := o; p_inv := n; p_lp := None |}))
                      (upd (pend x) t (Some (o, n)))); auto using upd_length.
           intros w Nw. split; apply nth_upd_other; congruence.
  - (* the thread is inside an operation *)
    cbn [negb andb]. rewrite <- PC in R. destruct (Pd t R) as (pd & Ec & Eq).
    set (cur1 := if lin_pc (hp s) (at_pc th) then upd (g_cur g) t (option_map (set_lp n) (nth t (g_cur g) None)) else g_cur g).
    assert (C1 : exists pd1, nth t cur1 None = Some pd1 /\ p_op pd1 = p_op pd /\ p_inv pd1 = p_inv pd).
    { unfold cur1. destruct (lin_pc (hp s) (at_pc th)).
      - rewrite nth_upd_same by exact Lt. rewrite Ec. cbn [option_map]. eexists. split; [reflexivity|]. auto.
      - exists pd. auto. }
    destruct C1 as (pd1 & E1 & Eo & Ei).
    assert (L1 : length cur1 = length (g_cur g)) by (unfold cur1; destruct (lin_pc _ _); [apply upd_length|reflexivity]).
    assert (O1 : forall u, u <> t -> nth u cur1 None = nth u (g_cur g) None).
    { intros u N. unfold cur1. destruct (lin_pc _ _); [apply nth_upd_other; congruence|reflexivity]. }
    rewrite E1, Eq.
    destruct (pc_of (step true s t) t) as [|v ok| | | | | | | | | | | | | | | | | | | | | | | | | | | | | | | | | | | | |] eqn:PC'.
    all: split; cbn [g_s g_n g_cur g_log ist clock hlog pend fst snd]; auto;
      try (now rewrite ?upd_length, L1, step_ths_length); try (now rewrite step_ths_length).
    all: try (intros u Ru; destruct (Nat.eq_dec u t) as [->|N];
              [exists pd1; split; [exact E1|rewrite Eq; congruence]|apply (OTH cur1 (pend x)); auto]).
    + rewrite map_app, El. cbn [map mk_entry e_op]. rewrite Eo, Ei. reflexivity.
    + intros u Ru. destruct (Nat.eq_dec u t) as [->|N]; [rewrite PC' in Ru; discriminate|].
      apply (OTH (upd cur1 t None) (pend x)); auto; [now rewrite upd_length|].
      intros w Nw. split; [|reflexivity]. rewrite nth_upd_other by congruence. now apply O1.
Qed.

Lemma sim_init progs : Sim (ginit progs) (iinit progs).
Proof.
  split; cbn [ginit iinit g_s g_n g_cur g_log ist clock hlog pend init ths]; auto.
  - now rewrite !map_length.
  - now rewrite !map_length.
  - intros t R. exfalso. unfold pc_of in R. cbn [init ths] in R.
    destruct (nth_error (map (fun p => {| todo := p; at_pc := Idle |}) progs) t) as [th|] eqn:E; [|discriminate].
    apply nth_error_In in E. apply in_map_iff in E as (q & <- & _). discriminate.
Qed.

Lemma sim_run progs sched : Sim (grun progs sched) (irun true progs sched).
Proof.
  unfold grun, irun. generalize (sim_init progs). generalize (ginit progs) (iinit progs).
  induction sched as [|t l IH]; intros g x S; [exact S|]. simpl. apply IH. now apply sim_step.
Qed.

Theorem grun_history progs sched : map e_op (g_log (grun progs sched)) = history true progs sched.
Proof. exact (sim_log _ _ (sim_run progs sched)). Qed.

Theorem grun_state progs sched : g_s (grun progs sched) = run true progs sched.
Proof. rewrite (sim_s _ _ (sim_run progs sched)). apply irun_run. Qed.

Print Assumptions grun_history.
