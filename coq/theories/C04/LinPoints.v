(* Linearization points imply linearizability (in the sense of Common/Hist.v).

   A run is abstracted by a relation [Rel S m] ("specification state S describes moment m", m = 0 .. n).
   Every entry e of the history carries a point [ept e]:
     2*m     an observer at moment m: the specification, in any state describing moment m, answers [ret]
             and does not change state;
     2*m+1   the mutator of step m (moment m -> moment m+1): at most one entry per step; the specification
             started in a state describing m answers [ret] and ends in a state describing m+1; a step that is
             nobody's point preserves [Rel].
   If every point lies inside its operation's interval (2*inv+2 <= point <= 2*resp+1) the history is
   linearizable: order the entries by point. *)
From Coq Require Import List NArith Lia Bool Permutation Arith.
From VF Require Import Common.Hist.
Import ListNotations.

Section Points.
Variables (S C R E : Type).
Variable step : S -> C -> S * R.
Variable eop : E -> op C R.
Variable ept : E -> nat.
Variable Rel : S -> nat -> Prop.

Notation opx := (op C R).

Definition block (H : list E) (p : nat) : list E := filter (fun e => Nat.eqb (ept e) p) H.
Definition blocks (H : list E) (lo len : nat) : list E := flat_map (block H) (seq lo len).

(* ---------- the blocks are a permutation ---------- *)
Lemma filter_split (f g : E -> bool) l :
  (forall e, f e && g e = false) -> Permutation (filter (fun e => f e || g e) l) (filter f l ++ filter g l).
Proof.
  intros D. induction l as [|a l IH]; simpl; [constructor|].
  specialize (D a). destruct (f a) eqn:Ef, (g a) eqn:Eg; simpl in *; try discriminate.
  - now constructor.
  - rewrite IH. apply Permutation_middle.
  - exact IH.
Qed.

Lemma filter_ext_in' (f g : E -> bool) l : (forall e, In e l -> f e = g e) -> filter f l = filter g l.
Proof.
  induction l as [|a l IH]; intros X; simpl; [reflexivity|].
  rewrite (X a (or_introl eq_refl)). rewrite IH; [reflexivity|]. intros e He. apply X. now right.
Qed.

Lemma blocks_perm H lo len :
  Permutation (filter (fun e => (lo <=? ept e) && (ept e <? lo + len)) H) (blocks H lo len).
Proof.
  revert lo. induction len as [|len IH]; intros lo.
  - simpl. rewrite (filter_ext_in' _ (fun _ => false)).
    + induction H; simpl; auto.
    + intros e _. destruct (lo <=? ept e) eqn:A; [|reflexivity]. apply Nat.leb_le in A.
      simpl. apply Nat.ltb_ge. lia.
  - unfold blocks. simpl. fold (blocks H (Datatypes.S lo) len). rewrite <- IH. unfold block.
    eapply perm_trans; [|apply filter_split].
    + rewrite (filter_ext_in' _ (fun e => Nat.eqb (ept e) lo || ((Datatypes.S lo <=? ept e) && (ept e <? Datatypes.S lo + len)))); [reflexivity|].
      intros e _.
      destruct (Nat.eqb_spec (ept e) lo) as [E0|N], (Nat.leb_spec lo (ept e)), (Nat.leb_spec (Datatypes.S lo) (ept e)),
        (Nat.ltb_spec (ept e) (lo + Datatypes.S len)), (Nat.ltb_spec (ept e) (Datatypes.S lo + len));
        cbn [orb andb]; try reflexivity; lia.
    + intros e. destruct (Nat.eqb_spec (ept e) lo) as [E0|N]; [|reflexivity].
      destruct (Nat.leb_spec (Datatypes.S lo) (ept e)); cbn [andb]; [lia|reflexivity].
Qed.

Lemma blocks_all H len : (forall e, In e H -> ept e < len) -> Permutation H (blocks H 0 len).
Proof.
  intros B. rewrite <- blocks_perm. rewrite (filter_ext_in' _ (fun _ => true)).
  - clear B. induction H; simpl; auto.
  - intros e He. specialize (B e He). simpl. apply Nat.ltb_lt. lia.
Qed.

Lemma in_block H p e : In e (block H p) <-> In e H /\ ept e = p.
Proof. unfold block. rewrite filter_In, Nat.eqb_eq. tauto. Qed.

Lemma in_blocks H lo len e : In e (blocks H lo len) -> In e H /\ lo <= ept e < lo + len.
Proof.
  unfold blocks. rewrite in_flat_map. intros (p & Hp & He). apply in_seq in Hp. apply in_block in He as [A <-]. split; [exact A|lia].
Qed.

(* ---------- real-time order ---------- *)
Definition inside (e : E) : Prop :=
  2 * N.to_nat (inv (eop e)) + 2 <= ept e /\ ept e <= 2 * N.to_nat (resp (eop e)) + 1.

Fixpoint sorted_pt (l : list E) : Prop :=
  match l with [] => True | e :: l' => (forall e', In e' l' -> ept e <= ept e') /\ sorted_pt l' end.

Lemma sorted_rt l : (forall e, In e l -> inside e) -> sorted_pt l -> rt_ok C R (map eop l).
Proof.
  induction l as [|e l IH]; intros I0 Hs; simpl; [exact I|]. destruct Hs as [H1 H2]. split.
  - intros p Hp. apply in_map_iff in Hp as (e' & <- & He'). specialize (H1 e' He').
    destruct (I0 e (or_introl eq_refl)) as [A _]. destruct (I0 e' (or_intror He')) as [_ B]. lia.
  - apply IH; [intros; apply I0; now right|exact H2].
Qed.

Lemma sorted_app l1 l2 : sorted_pt l1 -> sorted_pt l2 -> (forall a b, In a l1 -> In b l2 -> ept a <= ept b) ->
  sorted_pt (l1 ++ l2).
Proof.
  induction l1 as [|e l1 IH]; intros S1 S2 X; simpl; [exact S2|]. destruct S1 as [A B]. split.
  - intros e' He'. apply in_app_or in He' as [He'|He']; [now apply A|apply X; [now left|exact He']].
  - apply IH; auto. intros a b Ha Hb. apply X; [now right|exact Hb].
Qed.

Lemma sorted_block H p : sorted_pt (block H p).
Proof.
  assert (X : forall l, (forall e, In e l -> ept e = p) -> sorted_pt l).
  { induction l as [|e l IH]; intros Y; simpl; [exact I|]. split.
    - intros e' He'. rewrite (Y e (or_introl eq_refl)), (Y e' (or_intror He')). lia.
    - apply IH. intros; apply Y; now right. }
  apply X. intros e He. now apply in_block in He.
Qed.

Lemma sorted_blocks H lo len : sorted_pt (blocks H lo len).
Proof.
  revert lo. induction len as [|len IH]; intros lo; [exact I|].
  unfold blocks. simpl. fold (blocks H (Datatypes.S lo) len). apply sorted_app; [apply sorted_block|apply IH|].
  intros a b Ha Hb. apply in_block in Ha. apply in_blocks in Hb. lia.
Qed.

(* ---------- the specification follows the blocks ---------- *)
Definition observer (e : E) (m : nat) : Prop :=
  forall s, Rel s m -> step s (call (eop e)) = (s, ret (eop e)).
Definition mutator (e : E) (m : nat) : Prop :=
  forall s, Rel s m -> exists s', step s (call (eop e)) = (s', ret (eop e)) /\ Rel s' (Datatypes.S m).

Variable H : list E.
Variable n : nat.
Hypothesis Hinside : forall e, In e H -> inside e.
Hypothesis Hrange : forall e, In e H -> ept e <= 2 * n.
Hypothesis Hobs : forall e m, In e H -> ept e = 2 * m -> observer e m.
Hypothesis Hmut : forall m, m < n ->
  (block H (2 * m + 1) = [] /\ forall s, Rel s m -> Rel s (Datatypes.S m)) \/
  (exists e, block H (2 * m + 1) = [e] /\ mutator e m).

Lemma seq_block_obs m s : Rel s m -> forall l, (forall e, In e l -> In e H /\ ept e = 2 * m) ->
  seq_to S C R step s (map eop l) s.
Proof.
  intros Rs. induction l as [|e l IH]; intros X; simpl; [reflexivity|].
  destruct (X e (or_introl eq_refl)) as [He Hp]. rewrite (Hobs e m He Hp s Rs).
  split; [reflexivity|]. apply IH. intros; apply X; now right.
Qed.

Lemma blocks_SS l lo len :
  blocks l lo (Datatypes.S (Datatypes.S len)) = block l lo ++ block l (Datatypes.S lo) ++ blocks l (Datatypes.S (Datatypes.S lo)) len.
Proof. reflexivity. Qed.

Lemma blocks_1 l lo : blocks l lo 1 = block l lo.
Proof. unfold blocks. cbn [seq flat_map]. apply app_nil_r. Qed.

(* from a state describing moment m, the blocks 2m, 2m+1, ..., 2(m+k) lead to a state describing m+k *)
Lemma seq_blocks k : forall m s, m + k <= n -> Rel s m ->
  exists s', seq_to S C R step s (map eop (blocks H (2 * m) (2 * k + 1))) s' /\ Rel s' (m + k).
Proof.
  induction k as [|k IH]; intros m s Le Rs.
  - exists s. split; [|now rewrite Nat.add_0_r]. replace (2 * 0 + 1) with 1 by lia. rewrite blocks_1.
    apply (seq_block_obs m s Rs). intros e He. now apply in_block in He.
  - replace (2 * Datatypes.S k + 1) with (Datatypes.S (Datatypes.S (2 * k + 1))) by lia.
    rewrite blocks_SS.
    replace (Datatypes.S (Datatypes.S (2 * m))) with (2 * Datatypes.S m) by lia.
    replace (Datatypes.S (2 * m)) with (2 * m + 1) by lia.
    assert (O1 : seq_to S C R step s (map eop (block H (2 * m))) s).
    { apply (seq_block_obs m s Rs). intros e He. now apply in_block in He. }
    destruct (Hmut m ltac:(lia)) as [[B X]|(e & B & X)].
    + rewrite B. cbn [app].
      destruct (IH (Datatypes.S m) s ltac:(lia) (X s Rs)) as (s' & Q & Rs').
      exists s'. split; [|replace (m + Datatypes.S k) with (Datatypes.S m + k) by lia; exact Rs'].
      rewrite map_app. apply seq_to_app. exists s. split; [exact O1|exact Q].
    + rewrite B.
      destruct (X s Rs) as (s1 & Es & R1).
      destruct (IH (Datatypes.S m) s1 ltac:(lia) R1) as (s' & Q & Rs').
      exists s'. split; [|replace (m + Datatypes.S k) with (Datatypes.S m + k) by lia; exact Rs'].
      rewrite map_app. apply seq_to_app. exists s. split; [exact O1|].
      cbn [app map seq_to]. rewrite Es. split; [reflexivity|exact Q].
Qed.

Theorem points_linearizable s0 : Rel s0 0 ->
  exists s', lin_to S C R step s0 (map eop H) s' /\ Rel s' n.
Proof.
  intros R0. destruct (seq_blocks n 0 s0 ltac:(lia) R0) as (s' & Q & Rs').
  replace (2 * 0) with 0 in Q by lia. replace (0 + n) with n in Rs' by lia.
  exists s'. split; [|exact Rs'].
  exists (map eop (blocks H 0 (2 * n + 1))). split; [|split].
  - apply Permutation_map. apply blocks_all. intros e He. specialize (Hrange e He). lia.
  - apply sorted_rt; [|apply sorted_blocks]. intros e He. apply in_blocks in He. now apply Hinside.
  - exact Q.
Qed.
End Points.
