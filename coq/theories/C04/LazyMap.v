(* C04 (stretch): executable small-step model of the optimistic ("lazy") skipmap algorithm on the BOTTOM lane
   WITH the value field, for any number of threads and any schedule (model only; proofs in ProofsLazyMap.v).

     Store k v        find (unsynchronised reads of next) ;
        key absent:   lock pred ; validate (!pred.marked, !succ.marked, pred.next == succ) ;
                      link a new node carrying v (nn.next := succ ; pred.next := nn) ; fullyLinked := true ; unlock
        key at node c (repaired = true, the code as it is now):
                      lock c ; if marked c then (unlock c ; search again)
                      else spin until fullyLinked c ; value c := v ; unlock c
        key at node c (repaired = false, the code before the two repairs):
                      read marked c WITHOUT the lock ; if marked search again else (later step) value c := v
     LoadAndDelete k  find ; check fullyLinked && !marked ; lock victim ; if marked give up (unlock, (0,false))
                      else marked := true ; lock pred ; validate (!pred.marked, pred.next == victim) ; unlink ;
                      unlock victim ; unlock pred ; and only THEN read the value of the victim: (value, true)
     Load k           find ; read the flags once ; if fullyLinked && !marked then (later step) read the value
     LoadOrStore k v  find ;
        key at node c: read marked c WITHOUT any lock ; if marked search again
                      else spin until fullyLinked c ; read the value WITHOUT the lock : (value, true)
        key absent:   exactly the insertion path of Store (lock pred ; validate ; link a new node carrying v ;
                      fullyLinked := true ; unlock) : (v, false)
     LoadOrStoreLazy k v   the same, except that the constructor (which returns v) is called between the successful
                      validation and the creation of the node, still holding the lock of pred (step OCall). The
                      program counters of both operations carry the flag [lz] (lazy variant) and a GHOST COUNTER
                      [n] = how often the constructor has run in this operation; it is reported in the history.
     Delete k         EXACTLY the program counters of LoadAndDelete, including the final RRead step, whose value is
                      discarded (result = the bool). The Go code of Delete has no such final read: in the model it
                      is a stutter step (a read: it cannot influence any other thread).
   The retry "level > highestLevel" of the insertion paths is an upper-lane matter and is not modelled.

   One [step rep s t] executes the next atomic action of thread t: one shared-memory access per step (the key of a
   node is immutable and is read together with the next pointer that led to it); a lock acquisition that is not
   possible leaves the state unchanged (the thread spins). Upper lanes and the length counter are not modelled.

   [history rep progs sched] is the list of completed operations of the run, stamped with the index of the
   scheduler step that started the operation and of the step that produced its result, in the format of the
   verified linearizability checker [Check.map_lin_check]. *)
From VF Require Import Common.Base.
From VF Require Common.Hist C04.Spec C04.Check.
Local Open Scope Z_scope.

Record nd := { key : Z; value : Z; next : option nat; marked : bool; linked : bool; lock : option nat }.
Definition heap := list nd.          (* index 0 is the header (its key and value are never read) *)

Inductive opk := MStore (k v : Z) | MLoad (k : Z) | MLoadAndDelete (k : Z)
| MLoadOrStore (k v : Z) | MLoadOrStoreLazy (k v : Z) | MDelete (k : Z).

Inductive pc :=
| Idle
| Done (v : Z) (ok : bool)
(* Store: search *)
| SFind (k v : Z) (pred : nat)
(* Store, key absent: LazySkip's Add path *)
| SLock (k v : Z) (pred : nat) (succ : option nat)
| SValid (k v : Z) (pred : nat) (succ : option nat)
| SLink (k v : Z) (pred : nat) (succ : option nat)
| SFull (k v : Z) (pred nn : nat)
| SUnlock (k v : Z) (pred : nat) (ok : bool)            (* ok = false: validation failed, search again *)
(* Store, key found at node c, repaired code *)
| SLockN (k v : Z) (c : nat)
| SChkM (k v : Z) (c : nat)
| SWaitL (k v : Z) (c : nat)
| SWrite (k v : Z) (c : nat)
| SUnlockN (k v : Z) (c : nat) (ok : bool)              (* ok = false: the node was marked, search again *)
(* Store, key found at node c, pre-repair code *)
| SChkM0 (k v : Z) (c : nat)
| SWrite0 (k v : Z) (c : nat)
(* LoadAndDelete; mk = the victim this operation has already marked *)
| RFind (k : Z) (pred : nat) (mk : option nat)
| RCheck (k : Z) (pred v : nat)
| RLockV (k : Z) (pred v : nat)
| RMark (k : Z) (pred v : nat)
| RLockP (k : Z) (pred v : nat)
| RValid (k : Z) (pred v : nat)
| RUnlink (k : Z) (pred v : nat)
| RUnlockV (k : Z) (pred v : nat)
| RUnlockP (k : Z) (pred v : nat) (ok : bool)           (* ok = false: validation failed: the victim stays locked *)
| RGiveUp (v : nat)                                      (* victim was already marked: unlock it, return (0,false) *)
| RRead (v : nat)                                        (* after both unlocks: read the value of the victim *)
(* Load *)
| LFind (k : Z) (pred : nat)
| LFlags (k : Z) (c : nat)
| LRead (c : nat)
(* LoadOrStore (lz = false) / LoadOrStoreLazy (lz = true); n = how often the constructor has run (ghost) *)
| OFind (k v : Z) (lz : bool) (n : nat) (pred : nat)
| OChkM (k v : Z) (lz : bool) (n : nat) (c : nat)           (* one unlocked read of marked *)
| OWaitL (k v : Z) (lz : bool) (n : nat) (c : nat)
| ORead (k v : Z) (lz : bool) (n : nat) (c : nat)           (* unlocked read of the value: (value, true) *)
| OLock (k v : Z) (lz : bool) (n : nat) (pred : nat) (succ : option nat)
| OValid (k v : Z) (lz : bool) (n : nat) (pred : nat) (succ : option nat)
| OCall (k v : Z) (lz : bool) (n : nat) (pred : nat) (succ : option nat)     (* the constructor runs *)
| OLink (k v : Z) (lz : bool) (n : nat) (pred : nat) (succ : option nat)
| OFull (k v : Z) (lz : bool) (n : nat) (pred nn : nat)
| OUnlock (k v : Z) (lz : bool) (n : nat) (pred : nat) (ok : bool).  (* ok = false: validation failed, search again *)

Record thr := { todo : list opk; at_pc : pc }.
Record state := { hp : heap; ths : list thr }.

Definition setn (h : heap) (i : nat) (f : nd -> nd) : heap :=
  match nth_error h i with Some n => upd h i (f n) | None => h end.

Definition set_next x (n : nd) :=
  {| key := key n; value := value n; next := x; marked := marked n; linked := linked n; lock := lock n |}.
Definition set_value x (n : nd) :=
  {| key := key n; value := x; next := next n; marked := marked n; linked := linked n; lock := lock n |}.
Definition set_marked (n : nd) :=
  {| key := key n; value := value n; next := next n; marked := true; linked := linked n; lock := lock n |}.
Definition set_linked (n : nd) :=
  {| key := key n; value := value n; next := next n; marked := marked n; linked := true; lock := lock n |}.
Definition set_lock x (n : nd) :=
  {| key := key n; value := value n; next := next n; marked := marked n; linked := linked n; lock := x |}.

Definition dflt : nd := {| key := 0; value := 0; next := None; marked := false; linked := false; lock := None |}.
Definition get (h : heap) (i : nat) : nd := nth i h dflt.

Definition acquire (h : heap) (t i : nat) : option heap :=
  match lock (get h i) with None => Some (setn h i (set_lock (Some t))) | Some _ => None end.

Definition opt_nat_eqb (a b : option nat) : bool :=
  match a, b with Some x, Some y => Nat.eqb x y | None, None => true | _, _ => false end.

(* one atomic action of thread t at program counter p: new heap and new program counter *)
Definition action (rep : bool) (h : heap) (t : nat) (p : pc) : heap * pc :=
  match p with
  | Idle | Done _ _ => (h, p)
  | SFind k v pred =>
      match next (get h pred) with
      | None => (h, SLock k v pred None)
      | Some c =>
          let kc := key (get h c) in
          if kc <? k then (h, SFind k v c)
          else if kc =? k then (h, if rep then SLockN k v c else SChkM0 k v c)
          else (h, SLock k v pred (Some c))
      end
  | SLock k v pred succ =>
      match acquire h t pred with Some h' => (h', SValid k v pred succ) | None => (h, p) end
  | SValid k v pred succ =>
      let ok := negb (marked (get h pred))
                && match succ with Some c => negb (marked (get h c)) | None => true end
                && opt_nat_eqb (next (get h pred)) succ in
      if ok then (h, SLink k v pred succ) else (h, SUnlock k v pred false)
  | SLink k v pred succ =>
      let nn := length h in
      let h1 := h ++ [{| key := k; value := v; next := succ; marked := false; linked := false; lock := None |}] in
      (setn h1 pred (set_next (Some nn)), SFull k v pred nn)
  | SFull k v pred nn => (setn h nn set_linked, SUnlock k v pred true)
  | SUnlock k v pred ok =>
      (setn h pred (set_lock None), if ok then Done 0 true else SFind k v 0)
  | SLockN k v c =>
      match acquire h t c with Some h' => (h', SChkM k v c) | None => (h, p) end
  | SChkM k v c => if marked (get h c) then (h, SUnlockN k v c false) else (h, SWaitL k v c)
  | SWaitL k v c => if linked (get h c) then (h, SWrite k v c) else (h, p)
  | SWrite k v c => (setn h c (set_value v), SUnlockN k v c true)
  | SUnlockN k v c ok =>
      (setn h c (set_lock None), if ok then Done 0 true else SFind k v 0)
  | SChkM0 k v c => if marked (get h c) then (h, SFind k v 0) else (h, SWrite0 k v c)
  | SWrite0 k v c => (setn h c (set_value v), Done 0 true)
  | RFind k pred mk =>
      let miss := match mk with Some v => (h, RFind k 0 mk) | None => (h, Done 0 false) end in
      match next (get h pred) with
      | None => miss
      | Some c =>
          let kc := key (get h c) in
          if kc <? k then (h, RFind k c mk)
          else if kc =? k then
                 match mk with
                 | Some v => if Nat.eqb c v then (h, RLockP k pred v) else (h, RFind k 0 mk)
                 | None => (h, RCheck k pred c)
                 end
          else miss
      end
  | RCheck k pred v =>
      if linked (get h v) && negb (marked (get h v)) then (h, RLockV k pred v) else (h, Done 0 false)
  | RLockV k pred v =>
      match acquire h t v with Some h' => (h', RMark k pred v) | None => (h, p) end
  | RMark k pred v =>
      if marked (get h v) then (h, RGiveUp v) else (setn h v set_marked, RLockP k pred v)
  | RGiveUp v => (setn h v (set_lock None), Done 0 false)
  | RLockP k pred v =>
      match acquire h t pred with Some h' => (h', RValid k pred v) | None => (h, p) end
  | RValid k pred v =>
      if negb (marked (get h pred)) && opt_nat_eqb (next (get h pred)) (Some v)
      then (h, RUnlink k pred v) else (h, RUnlockP k pred v false)
  | RUnlink k pred v => (setn h pred (set_next (next (get h v))), RUnlockV k pred v)
  | RUnlockV k pred v => (setn h v (set_lock None), RUnlockP k pred v true)
  | RUnlockP k pred v ok =>
      (setn h pred (set_lock None), if ok then RRead v else RFind k 0 (Some v))
  | RRead v => (h, Done (value (get h v)) true)
  | LFind k pred =>
      match next (get h pred) with
      | None => (h, Done 0 false)
      | Some c =>
          let kc := key (get h c) in
          if kc <? k then (h, LFind k c)
          else if kc =? k then (h, LFlags k c)
          else (h, Done 0 false)
      end
  | LFlags k c => if linked (get h c) && negb (marked (get h c)) then (h, LRead c) else (h, Done 0 false)
  | LRead c => (h, Done (value (get h c)) true)
  | OFind k v lz n pred =>
      match next (get h pred) with
      | None => (h, OLock k v lz n pred None)
      | Some c =>
          let kc := key (get h c) in
          if kc <? k then (h, OFind k v lz n c)
          else if kc =? k then (h, OChkM k v lz n c)
          else (h, OLock k v lz n pred (Some c))
      end
  | OChkM k v lz n c => if marked (get h c) then (h, OFind k v lz n 0) else (h, OWaitL k v lz n c)
  | OWaitL k v lz n c => if linked (get h c) then (h, ORead k v lz n c) else (h, p)
  | ORead k v lz n c => (h, Done (value (get h c)) true)
  | OLock k v lz n pred succ =>
      match acquire h t pred with Some h' => (h', OValid k v lz n pred succ) | None => (h, p) end
  | OValid k v lz n pred succ =>
      let ok := negb (marked (get h pred))
                && match succ with Some c => negb (marked (get h c)) | None => true end
                && opt_nat_eqb (next (get h pred)) succ in
      if ok then (h, if lz then OCall k v lz n pred succ else OLink k v lz n pred succ)
      else (h, OUnlock k v lz n pred false)
  | OCall k v lz n pred succ => (h, OLink k v lz (Datatypes.S n) pred succ)
  | OLink k v lz n pred succ =>
      let nn := length h in
      let h1 := h ++ [{| key := k; value := v; next := succ; marked := false; linked := false; lock := None |}] in
      (setn h1 pred (set_next (Some nn)), OFull k v lz n pred nn)
  | OFull k v lz n pred nn => (setn h nn set_linked, OUnlock k v lz n pred true)
  | OUnlock k v lz n pred ok =>
      (setn h pred (set_lock None), if ok then Done v false else OFind k v lz n 0)
  end.

Definition start (o : opk) : pc :=
  match o with
  | MStore k v => SFind k v 0 | MLoadAndDelete k | MDelete k => RFind k 0 None | MLoad k => LFind k 0
  | MLoadOrStore k v => OFind k v false 0 0 | MLoadOrStoreLazy k v => OFind k v true 0 0
  end.

Definition resting (p : pc) : bool := match p with Idle | Done _ _ => true | _ => false end.

Definition thr_step (rep : bool) (h : heap) (t : nat) (th : thr) : heap * thr :=
  if resting (at_pc th) then
    match todo th with
    | [] => (h, {| todo := []; at_pc := Idle |})
    | o :: rest => (h, {| todo := rest; at_pc := start o |})
    end
  else (fst (action rep h t (at_pc th)), {| todo := todo th; at_pc := snd (action rep h t (at_pc th)) |}).

Definition step (rep : bool) (s : state) (t : nat) : state :=
  match nth_error (ths s) t with
  | None => s
  | Some th => {| hp := fst (thr_step rep (hp s) t th); ths := upd (ths s) t (snd (thr_step rep (hp s) t th)) |}
  end.

Definition header : nd :=
  {| key := 0; value := 0; next := None; marked := false; linked := true; lock := None |}.
Definition init (progs : list (list opk)) : state :=
  {| hp := [header]; ths := map (fun p => {| todo := p; at_pc := Idle |}) progs |}.

Definition run_sched (rep : bool) (s : state) (sched : list nat) : state := fold_left (step rep) sched s.
Definition run (rep : bool) (progs : list (list opk)) (sched : list nat) : state := run_sched rep (init progs) sched.

(* the abstract map *)
Definition live (n : nd) : bool := linked n && negb (marked n).
Definition kv (n : nd) : Z * Z := (key n, value n).
Definition absmap (h : heap) : list (Z * Z) := map kv (filter live (tl h)).

(* ---------- the instrumented run: the history of completed operations ---------- *)
Definition hop := Hist.op Spec.mop Spec.mres.

Definition call_of (o : opk) : Spec.mop :=
  match o with
  | MStore k v => Spec.Store k v 0
  | MLoad k => Spec.Load k
  | MLoadAndDelete k => Spec.LoadAndDelete k
  | MLoadOrStore k v => Spec.LoadOrStore k v 0
  | MLoadOrStoreLazy k v => Spec.LoadOrStoreLazy k v 0
  | MDelete k => Spec.Delete k
  end.

(* the ghost counter of constructor calls carried by a program counter of LoadOrStore(Lazy) *)
Definition calls_of (p : pc) : nat :=
  match p with
  | OFind _ _ _ n _ | OChkM _ _ _ n _ | OWaitL _ _ _ n _ | ORead _ _ _ n _ | OLock _ _ _ n _ _ | OValid _ _ _ n _ _
  | OCall _ _ _ n _ _ | OLink _ _ _ n _ _ | OFull _ _ _ n _ _ | OUnlock _ _ _ n _ _ => n
  | _ => O
  end.

(* calls = the ghost counter of the program counter the thread had before its completing step *)
Definition ret_of (o : opk) (calls : nat) (v : Z) (ok : bool) : Spec.mres :=
  match o with
  | MStore _ _ => Spec.RUnit
  | MLoad _ | MLoadAndDelete _ => Spec.RGet v ok
  | MLoadOrStore _ _ => Spec.RLoS v ok
  | MLoadOrStoreLazy _ _ => Spec.RLazy v ok calls
  | MDelete _ => Spec.RBool ok
  end.

Record istate := {
  ist : state;
  clock : nat;                           (* index of the next scheduler step *)
  pend : list (option (opk * nat));      (* per thread: the running operation and its invocation stamp *)
  hlog : list hop }.

Definition pc_of (s : state) (t : nat) : pc :=
  match nth_error (ths s) t with Some th => at_pc th | None => Idle end.

Definition istep (rep : bool) (x : istate) (t : nat) : istate :=
  let s := ist x in
  let s' := step rep s t in
  let was_resting := resting (pc_of s t) in
  let pend' :=
    if was_resting then
      match nth_error (ths s) t with
      | Some {| todo := o :: _ |} => upd (pend x) t (Some (o, clock x))
      | _ => pend x
      end
    else pend x in
  let hlog' :=
    if was_resting then hlog x
    else match pc_of s' t, nth t pend' None with
         | Done v ok, Some (o, i) =>
             hlog x ++ [ {| Hist.inv := N.of_nat i; Hist.resp := N.of_nat (clock x);
                            Hist.call := call_of o; Hist.ret := ret_of o (calls_of (pc_of s t)) v ok |} ]
         | _, _ => hlog x
         end in
  {| ist := s'; clock := Datatypes.S (clock x); pend := pend'; hlog := hlog' |}.

Definition iinit (progs : list (list opk)) : istate :=
  {| ist := init progs; clock := 0; pend := map (fun _ => None) progs; hlog := [] |}.

Definition irun (rep : bool) (progs : list (list opk)) (sched : list nat) : istate :=
  fold_left (istep rep) sched (iinit progs).

Definition history (rep : bool) (progs : list (list opk)) (sched : list nat) : list hop :=
  hlog (irun rep progs sched).

(* every thread is at rest and has nothing left to do: the history is complete *)
Definition quiescent (s : state) : bool :=
  forallb (fun th => resting (at_pc th) && match todo th with [] => true | _ => false end) (ths s).
