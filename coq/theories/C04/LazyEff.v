(* C04 protocol model: the guarantee [G] that one step of thread t gives to every other thread, proved for
   each of the six kinds of heap update of the protocol. *)
From VF Require Import Common.Base C04.Proofs.
From VF Require Import C04.LazySkip C04.ProofsLazy C04.LazyReach.
Local Open Scope Z_scope.

(* [fl] = the node whose fullyLinked flag the step sets, [ul] = the node the step unlinks *)
Record G (t : nat) (h h' : heap) (fl ul : option nat) : Prop := {
  g_ext : ext h h';
  g_other : forall i t2, valid h i -> t2 <> t -> lk h i = Some t2 ->
              lk h' i = Some t2 /\ nx h' i = nx h i /\ mkd h' i = mkd h i;
  g_lock_from : forall i t2, valid h' i -> t2 <> t -> lk h' i = Some t2 -> valid h i /\ lk h i = Some t2;
  g_mono : forall i, valid h i -> (lkd h i = true -> lkd h' i = true) /\ (mkd h i = true -> mkd h' i = true);
  g_fresh : forall i, valid h i -> lkd h i = false -> mkd h i = false -> fl <> Some i ->
              lkd h' i = false /\ mkd h' i = false;
  g_reach : forall a b, reach h a b -> ul <> Some b -> reach h' a b;
  g_reach_back : forall b, valid h b -> reach h' 0 b -> reach h 0 b;
  g_ul : forall v, ul = Some v -> lk h v = Some t /\ mkd h v = true /\ ~ reach h' 0 v;
  g_new : forall i, valid h' i -> ~ valid h i ->
            reach h' 0 i /\ lkd h' i = false /\ mkd h' i = false /\ lk h' i = None /\ (1 <= i)%nat;
  g_marknew : forall i, valid h i -> mkd h i = false -> mkd h' i = true -> lk h i = Some t /\ lkd h i = true;
  g_fl : forall n, fl = Some n -> valid h n /\ lkd h' n = true;
  (* the step writes next / marked only of nodes it has locked *)
  g_next_locked : forall i, valid h i -> nx h' i <> nx h i -> lk h i = Some t /\ mkd h' i = false;
  g_lock_release : forall i t2, valid h i -> lk h i = Some t2 -> lk h' i <> Some t2 -> t2 = t }.

Lemma G_none t h : G t h h None None.
Proof.
  split; try (intros; congruence); try (intros; contradiction); auto using ext_refl.
Qed.

(* flag updates: keys and next pointers stay *)
Lemma setn_reach h i f a b : (forall n, next (f n) = next n) -> reach h a b <-> reach (setn h i f) a b.
Proof.
  intros Hn. split; apply reach_same_next; intros j; [|symmetry]; now apply nx_setn_flags.
Qed.

(* acquire or release a lock *)
Lemma G_lock t h i x : valid h i -> (x = Some t /\ lk h i = None) \/ (x = None /\ lk h i = Some t) ->
  G t h (setn h i (set_lock x)) None None.
Proof.
  intros V C. set (h' := setn h i (set_lock x)).
  assert (fl_get : forall j, get h' j = if Nat.eq_dec j i then set_lock x (get h i) else get h j)
    by (intros; now apply get_setn).
  assert (fl_valid : forall j, valid h' j <-> valid h j) by (intros; apply valid_setn).
  assert (fl_reach : forall a b, reach h a b <-> reach h' a b) by (intros; now apply setn_reach).
  split; try congruence.
  - now apply ext_setn.
  - intros j t2 Vj N L. rewrite fl_get. destruct (Nat.eq_dec j i) as [->|Nj]; [|auto].
    destruct C as [[_ C]|[_ C]]; congruence.
  - intros j t2 Vj N L. apply fl_valid in Vj. split; [exact Vj|]. rewrite fl_get in L.
    destruct (Nat.eq_dec j i) as [->|Nj]; [|exact L]. simpl in L. destruct C as [[C _]|[C _]]; congruence.
  - intros j Vj. rewrite fl_get. destruct (Nat.eq_dec j i) as [->|Nj]; simpl; auto.
  - intros j Vj L M _. rewrite fl_get. destruct (Nat.eq_dec j i) as [->|Nj]; simpl; auto.
  - intros a b R _. now apply fl_reach.
  - intros b Vb R. now apply fl_reach.
  - intros j Vj N. apply fl_valid in Vj. contradiction.
  - intros j Vj M. rewrite fl_get. destruct (Nat.eq_dec j i) as [->|Nj]; simpl; congruence.
  - intros j Vj N. exfalso. apply N. unfold h'. now apply nx_setn_flags.
  - intros j t2 Vj L N. rewrite fl_get in N. destruct (Nat.eq_dec j i) as [->|Nj]; [|congruence].
    destruct C as [[_ C]|[_ C]]; congruence.
Qed.

Lemma G_mark t h i : valid h i -> lk h i = Some t -> lkd h i = true -> G t h (setn h i set_marked) None None.
Proof.
  intros V L K. set (h' := setn h i set_marked).
  assert (fl_get : forall j, get h' j = if Nat.eq_dec j i then set_marked (get h i) else get h j)
    by (intros; now apply get_setn).
  assert (fl_valid : forall j, valid h' j <-> valid h j) by (intros; apply valid_setn).
  assert (fl_reach : forall a b, reach h a b <-> reach h' a b) by (intros; now apply setn_reach).
  split; try congruence.
  - now apply ext_setn.
  - intros j t2 Vj N L2. rewrite fl_get. destruct (Nat.eq_dec j i) as [->|Nj]; [congruence|auto].
  - intros j t2 Vj N L2. apply fl_valid in Vj. split; [exact Vj|]. rewrite fl_get in L2.
    destruct (Nat.eq_dec j i) as [->|Nj]; exact L2.
  - intros j Vj. rewrite fl_get. destruct (Nat.eq_dec j i) as [->|Nj]; simpl; auto.
  - intros j Vj L2 M _. rewrite fl_get. destruct (Nat.eq_dec j i) as [->|Nj]; simpl; [congruence|auto].
  - intros a b R _. now apply fl_reach.
  - intros b Vb R. now apply fl_reach.
  - intros j Vj N. apply fl_valid in Vj. contradiction.
  - intros j Vj M M'. rewrite fl_get in M'. destruct (Nat.eq_dec j i) as [->|Nj]; [auto|congruence].
  - intros j Vj N. exfalso. apply N. unfold h'. now apply nx_setn_flags.
  - intros j t2 Vj L2 N. rewrite fl_get in N. destruct (Nat.eq_dec j i) as [->|Nj]; simpl in N; congruence.
Qed.

Lemma G_full t h i : valid h i -> G t h (setn h i set_linked) (Some i) None.
Proof.
  intros V. set (h' := setn h i set_linked).
  assert (fl_get : forall j, get h' j = if Nat.eq_dec j i then set_linked (get h i) else get h j)
    by (intros; now apply get_setn).
  assert (fl_valid : forall j, valid h' j <-> valid h j) by (intros; apply valid_setn).
  assert (fl_reach : forall a b, reach h a b <-> reach h' a b) by (intros; now apply setn_reach).
  split; try congruence.
  - now apply ext_setn.
  - intros j t2 Vj N L2. rewrite fl_get. destruct (Nat.eq_dec j i) as [->|Nj]; simpl; auto.
  - intros j t2 Vj N L2. apply fl_valid in Vj. split; [exact Vj|]. rewrite fl_get in L2.
    destruct (Nat.eq_dec j i) as [->|Nj]; exact L2.
  - intros j Vj. rewrite fl_get. destruct (Nat.eq_dec j i) as [->|Nj]; simpl; auto.
  - intros j Vj L2 M N. rewrite fl_get. destruct (Nat.eq_dec j i) as [->|Nj]; simpl; [congruence|auto].
  - intros a b R _. now apply fl_reach.
  - intros b Vb R. now apply fl_reach.
  - intros j Vj N. apply fl_valid in Vj. contradiction.
  - intros j Vj M M'. rewrite fl_get in M'. destruct (Nat.eq_dec j i) as [->|Nj]; simpl in M'; congruence.
  - intros n E. inversion E; subst n. split; [exact V|]. rewrite fl_get.
    destruct (Nat.eq_dec i i); [reflexivity|congruence].
  - intros j Vj N. exfalso. apply N. unfold h'. now apply nx_setn_flags.
  - intros j t2 Vj L2 N. rewrite fl_get in N. destruct (Nat.eq_dec j i) as [->|Nj]; simpl in N; congruence.
Qed.

Lemma G_link t h pred k succ : ord h -> valid h pred -> lk h pred = Some t -> mkd h pred = false ->
  nx h pred = succ -> reach h 0 pred -> G t h (linkh h pred k succ) None None.
Proof.
  intros O V L M E R0.
  assert (GET : forall j, valid h j -> j <> pred -> get (linkh h pred k succ) j = get h j).
  { intros j Vj Nj. rewrite get_linkh by exact V. destruct (Nat.eq_dec j pred); [congruence|].
    unfold valid in Vj. destruct (Nat.eq_dec j (length h)); [lia|reflexivity]. }
  assert (GETP : get (linkh h pred k succ) pred = set_next (Some (length h)) (get h pred)).
  { rewrite get_linkh by exact V. destruct (Nat.eq_dec pred pred); [reflexivity|congruence]. }
  assert (GETN : get (linkh h pred k succ) (length h) = newnode k succ).
  { rewrite get_linkh by exact V. unfold valid in V. destruct (Nat.eq_dec (length h) pred); [lia|].
    destruct (Nat.eq_dec (length h) (length h)); [reflexivity|congruence]. }
  assert (FLD : forall j, valid h j -> lk (linkh h pred k succ) j = lk h j /\ mkd (linkh h pred k succ) j = mkd h j /\
                                      lkd (linkh h pred k succ) j = lkd h j).
  { intros j Vj. destruct (Nat.eq_dec j pred) as [->|Nj]; [rewrite GETP; simpl; auto|rewrite GET; auto]. }
  assert (VAL : forall j, valid (linkh h pred k succ) j -> valid h j \/ j = length h).
  { intros j Vj. unfold valid in *. rewrite linkh_length in Vj. lia. }
  split; try congruence.
  - unfold linkh. eapply ext_trans; [apply ext_app|]. now apply ext_setn.
  - intros j t2 Vj N L2. destruct (FLD j Vj) as (A & B & _). rewrite A, B. split; [exact L2|split; [|reflexivity]].
    assert (j <> pred) by congruence. now rewrite GET.
  - intros j t2 Vj N L2. destruct (VAL j Vj) as [Vj'| ->].
    + split; [exact Vj'|]. destruct (FLD j Vj') as (A & _). now rewrite <- A.
    + rewrite GETN in L2. discriminate.
  - intros j Vj. destruct (FLD j Vj) as (_ & B & C). rewrite B, C. auto.
  - intros j Vj L2 M2 _. destruct (FLD j Vj) as (_ & B & C). rewrite B, C. auto.
  - intros a b R _. now apply reach_linkh.
  - intros b Vb R. destruct (reach_linkh_back h pred k succ 0 b V O E R Vb) as [H _]. apply H.
    unfold valid in *. lia.
  - intros j Vj N. destruct (VAL j Vj) as [?| ->]; [contradiction|]. rewrite GETN. simpl.
    split; [|split; [reflexivity|split; [reflexivity|split; [reflexivity|unfold valid in V; lia]]]].
    eapply reach_snoc; [apply reach_linkh; eassumption|]. rewrite GETP. reflexivity.
  - intros j Vj M1 M2. destruct (FLD j Vj) as (_ & B & _). congruence.
  - intros j Vj N. destruct (Nat.eq_dec j pred) as [->|Nj].
    + split; [exact L|]. rewrite GETP. exact M.
    + exfalso. apply N. now rewrite GET.
  - intros j t2 Vj L2 N. destruct (FLD j Vj) as (A & _). congruence.
Qed.

Lemma G_unlink t h pred v : ord h -> valid h pred -> (1 <= v)%nat -> valid h v ->
  (pred <> 0%nat -> ky h pred < ky h v) ->
  lk h pred = Some t -> mkd h pred = false -> nx h pred = Some v ->
  lk h v = Some t -> mkd h v = true -> reach h 0 pred ->
  G t h (unlinkh h pred v) None (Some v).
Proof.
  intros O V Pv Vv K L M E Lv Mv R0.
  assert (N : pred <> v) by congruence.
  assert (GET : forall j, j <> pred -> get (unlinkh h pred v) j = get h j).
  { intros j Nj. rewrite get_unlinkh by exact V. destruct (Nat.eq_dec j pred); [congruence|reflexivity]. }
  assert (GETP : get (unlinkh h pred v) pred = set_next (nx h v) (get h pred)).
  { rewrite get_unlinkh by exact V. destruct (Nat.eq_dec pred pred); [reflexivity|congruence]. }
  assert (FLD : forall j, lk (unlinkh h pred v) j = lk h j /\ mkd (unlinkh h pred v) j = mkd h j /\
                          lkd (unlinkh h pred v) j = lkd h j).
  { intros j. destruct (Nat.eq_dec j pred) as [->|Nj]; [rewrite GETP; simpl; auto|rewrite GET; auto]. }
  assert (VAL : forall j, valid (unlinkh h pred v) j <-> valid h j) by (intros; apply valid_setn).
  split.
  - unfold unlinkh. now apply ext_setn.
  - intros j t2 Vj N2 L2. destruct (FLD j) as (A & B & _). rewrite A, B. split; [exact L2|split; [|reflexivity]].
    assert (j <> pred) by congruence. now rewrite GET.
  - intros j t2 Vj N2 L2. apply VAL in Vj. split; [exact Vj|]. destruct (FLD j) as (A & _). now rewrite <- A.
  - intros j Vj. destruct (FLD j) as (_ & B & C). rewrite B, C. auto.
  - intros j Vj L2 M2 _. destruct (FLD j) as (_ & B & C). rewrite B, C. auto.
  - intros a b R Nb. apply reach_unlinkh; [exact V|exact N|exact E|exact R|congruence].
  - intros b Vb R. exact (reach_unlinkh_back h pred v 0 b V N E R).
  - intros v0 Ev. inversion Ev; subst v0. split; [exact Lv|split; [exact Mv|]].
    now apply unlinkh_unreach.
  - intros j Vj Nv. apply VAL in Vj. contradiction.
  - intros j Vj M1 M2. destruct (FLD j) as (_ & B & _). congruence.
  - discriminate.
  - intros j Vj Nn. destruct (Nat.eq_dec j pred) as [->|Nj].
    + split; [exact L|]. rewrite GETP. exact M.
    + exfalso. apply Nn. now rewrite GET.
  - intros j t2 Vj L2 Nn. destruct (FLD j) as (A & _). congruence.
Qed.
