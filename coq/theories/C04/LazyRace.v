(* C04 protocol model: consequences of linearizability for racing operations on one key:
   exactly one of several racing Adds (Removes) of the same key reports success. *)
From VF Require Import Common.Base Common.Hist C04.Spec C04.Proofs.
From VF Require Import C04.LazySkip C04.ProofsLazy C04.LazyHist C04.LazyTrace C04.LinPoints C04.LazyLinz C04.LazyLinThm.
From Coq Require Import Nnat.
Local Open Scope Z_scope.

Notation hop := (op sop mres).

Definition is_add (k : Z) (o : hop) : bool := match call o with AddB x _ => x =? k | _ => false end.
Definition is_rem (k : Z) (o : hop) : bool := match call o with RemoveB x => x =? k | _ => false end.
Definition ok_ret (o : hop) : bool := match ret o with RBool true => true | _ => false end.
Definition model_op (o : hop) : Prop := exists p r, call o = sop_of p /\ ret o = RBool r.

Definition wins_add (k : Z) (l : list hop) : nat := length (filter (fun o => is_add k o && ok_ret o) l).
Definition wins_rem (k : Z) (l : list hop) : nat := length (filter (fun o => is_rem k o && ok_ret o) l).

Lemma fs_mem_add_other k x S : x <> k -> fs_mem k (fs_add x S) = fs_mem k S.
Proof.
  intros N. destruct (fs_mem k S) eqn:E.
  - apply fs_mem_in. apply fs_add_in. right. now apply fs_mem_in.
  - apply fs_mem_false. intros X. apply fs_add_in in X as [X|X]; [congruence|]. apply fs_mem_in in X. congruence.
Qed.

Lemma fs_mem_del_other k x S : x <> k -> fs_mem k (fs_del x S) = fs_mem k S.
Proof.
  intros N. destruct (fs_mem k S) eqn:E.
  - apply fs_mem_in. apply fs_del_in. split; [congruence|now apply fs_mem_in].
  - apply fs_mem_false. intros X. apply fs_del_in in X as [_ X]. apply fs_mem_in in X. congruence.
Qed.

Lemma fs_mem_add_same k S : fs_mem k (fs_add k S) = true.
Proof. apply fs_mem_in. apply fs_add_in. now left. Qed.

Lemma fs_mem_del_same k S : fs_mem k (fs_del k S) = false.
Proof. apply fs_mem_false. intros X. apply fs_del_in in X as [X _]. congruence. Qed.

(* one specification step, seen from key k *)
Lemma step_key k o S : model_op o ->
  let '(S1, r) := fset_step S (call o) in
  r = ret o ->
  (is_add k o = true -> fs_mem k S1 = true /\ ok_ret o = negb (fs_mem k S)) /\
  (is_rem k o = true -> fs_mem k S1 = false /\ ok_ret o = fs_mem k S) /\
  (is_add k o = false -> is_rem k o = false -> fs_mem k S1 = fs_mem k S).
Proof.
  intros (p & r0 & Ec & Er). unfold is_add, is_rem, ok_ret. rewrite Ec.
  destruct p as [x|x|x]; cbn [sop_of fset_step].
  - destruct (fs_mem x S) eqn:Em; intros <-; cbn [ret].
    + split; [intros E; apply Z.eqb_eq in E; subst; rewrite Em; auto|split; [discriminate|auto]].
    + split; [intros E; apply Z.eqb_eq in E; subst; rewrite Em, fs_mem_add_same; auto|split; [discriminate|]].
      intros E _. apply Z.eqb_neq in E. now apply fs_mem_add_other.
  - destruct (fs_mem x S) eqn:Em; intros <-; cbn [ret].
    + split; [discriminate|split]; [intros E; apply Z.eqb_eq in E; subst; rewrite Em, fs_mem_del_same; auto|].
      intros _ E. apply Z.eqb_neq in E. now apply fs_mem_del_other.
    + split; [discriminate|split]; [intros E; apply Z.eqb_eq in E; subst; rewrite Em; auto|auto].
  - intros <-. split; [discriminate|split; [discriminate|auto]].
Qed.

Lemma seq_adds k l : forall S S', (forall o, In o l -> model_op o) -> (forall o, In o l -> is_rem k o = false) ->
  seq_to fset sop mres fset_step S l S' ->
  wins_add k l = (if fs_mem k S then 0 else if existsb (is_add k) l then 1 else 0)%nat /\
  fs_mem k S' = fs_mem k S || existsb (is_add k) l.
Proof.
  unfold wins_add. induction l as [|o l IH]; intros S S' MO NR Q.
  - simpl in *. subst. destruct (fs_mem k S); auto.
  - cbn [seq_to] in Q. pose proof (step_key k o S (MO o (or_introl eq_refl))) as SK.
    destruct (fset_step S (call o)) as [S1 r]. destruct Q as [Er Q]. destruct (SK Er) as (KA & KR & KO). clear SK.
    destruct (IH S1 S' (fun o' H => MO o' (or_intror H)) (fun o' H => NR o' (or_intror H)) Q) as [IH1 IH2].
    cbn [filter existsb]. destruct (is_add k o) eqn:Ea.
    + destruct (KA eq_refl) as [M1 Ok]. rewrite M1 in IH1, IH2. rewrite Ok. cbn [andb orb].
      destruct (fs_mem k S); cbn [negb length]; rewrite ?IH1, ?IH2; auto.
    + cbn [andb orb]. rewrite (KO eq_refl (NR o (or_introl eq_refl))) in IH1, IH2. auto.
Qed.

Lemma seq_rems k l : forall S S', (forall o, In o l -> model_op o) -> (forall o, In o l -> is_add k o = false) ->
  seq_to fset sop mres fset_step S l S' ->
  wins_rem k l = (if fs_mem k S then (if existsb (is_rem k) l then 1 else 0) else 0)%nat /\
  fs_mem k S' = fs_mem k S && negb (existsb (is_rem k) l).
Proof.
  unfold wins_rem. induction l as [|o l IH]; intros S S' MO NA Q.
  - simpl in *. subst. destruct (fs_mem k S); auto.
  - cbn [seq_to] in Q. pose proof (step_key k o S (MO o (or_introl eq_refl))) as SK.
    destruct (fset_step S (call o)) as [S1 r]. destruct Q as [Er Q]. destruct (SK Er) as (KA & KR & KO). clear SK.
    destruct (IH S1 S' (fun o' H => MO o' (or_intror H)) (fun o' H => NA o' (or_intror H)) Q) as [IH1 IH2].
    cbn [filter existsb]. destruct (is_rem k o) eqn:Ea.
    + destruct (KR eq_refl) as [M1 Ok]. rewrite M1 in IH1, IH2. rewrite Ok. cbn [andb orb negb].
      destruct (fs_mem k S); cbn [length]; rewrite ?IH1, ?IH2; auto.
    + cbn [andb orb]. rewrite (KO (NA o (or_introl eq_refl)) eq_refl) in IH1, IH2. auto.
Qed.

Lemma filter_length_perm {A} (f : A -> bool) l l' : Permutation l l' -> length (filter f l) = length (filter f l').
Proof.
  induction 1; simpl; auto; try congruence.
  - destruct (f x); simpl; congruence.
  - destruct (f x), (f y); reflexivity.
Qed.

Lemma existsb_perm {A} (f : A -> bool) l l' : Permutation l l' -> existsb f l = existsb f l'.
Proof.
  intros P. destruct (existsb f l) eqn:E.
  - symmetry. apply existsb_exists in E as (x & Hx & Fx). apply existsb_exists. exists x. split; [|exact Fx].
    eapply Permutation_in; eauto.
  - destruct (existsb f l') eqn:E'; [|reflexivity]. apply existsb_exists in E' as (x & Hx & Fx).
    assert (existsb f l = true) by (apply existsb_exists; exists x; split; [eapply Permutation_in; [symmetry|]; eauto|exact Fx]).
    congruence.
Qed.

Section Race.
Variable progs : list (list opk).
Variable sched : list nat.
Hypothesis CP : complete (run_sched (init progs) sched) = true.
Let H := history progs sched.

Lemma history_model o : In o H -> model_op o.
Proof.
  intros Hin. unfold H, history in Hin. apply in_map_iff in Hin as (e & <- & He).
  destruct (lazy_points progs sched e He) as (a & b & p & r & Eo & _). rewrite Eo. exists p, r. auto.
Qed.

(* racing Adds of key k, no Remove of k: exactly one Add reports success *)
Theorem race_adds k : (forall o, In o H -> is_rem k o = false) -> existsb (is_add k) H = true -> wins_add k H = 1%nat.
Proof.
  intros NR EA. destruct (lazy_linearizable progs sched CP) as (l & P & _ & (S' & Q)). fold H in P.
  unfold wins_add. rewrite (filter_length_perm _ _ _ P).
  destruct (seq_adds k l [] S') as [W _]; auto.
  - intros o Ho. apply history_model. eapply Permutation_in; [symmetry; exact P|exact Ho].
  - intros o Ho. apply NR. eapply Permutation_in; [symmetry; exact P|exact Ho].
  - unfold wins_add in W. rewrite W. simpl. now rewrite <- (existsb_perm _ _ _ P), EA.
Qed.

(* key k is added by ONE Add; all Removes of k are invoked after that Add has responded: exactly one Remove
   reports success *)
Theorem race_removes k a : filter (is_add k) H = [a] ->
  (forall o, In o H -> is_rem k o = true -> (resp a < inv o)%N) -> existsb (is_rem k) H = true ->
  wins_rem k H = 1%nat /\ ok_ret a = true.
Proof.
  intros FA RT ER. destruct (lazy_linearizable progs sched CP) as (l & P & RTO & (S' & Q)). fold H in P.
  assert (MO : forall o, In o l -> model_op o).
  { intros o Ho. apply history_model. eapply Permutation_in; [symmetry; exact P|exact Ho]. }
  assert (Ha : In a H).
  { assert (X : In a (filter (is_add k) H)) by (rewrite FA; now left). now apply filter_In in X. }
  assert (Aa : is_add k a = true).
  { assert (X : In a (filter (is_add k) H)) by (rewrite FA; now left). now apply filter_In in X. }
  assert (Hal : In a l) by (eapply Permutation_in; eauto).
  destruct (in_split _ _ Hal) as (l1 & l2 & El).
  (* a is the only Add of k *)
  assert (LF : length (filter (is_add k) l) = 1%nat) by (rewrite <- (filter_length_perm _ _ _ P), FA; reflexivity).
  rewrite El, filter_app in LF. cbn [filter] in LF. rewrite Aa in LF. rewrite app_length in LF. cbn [length] in LF.
  assert (NA1 : forall o, In o l1 -> is_add k o = false).
  { intros o Ho. destruct (is_add k o) eqn:X; [|reflexivity].
    assert (In o (filter (is_add k) l1)) by (apply filter_In; auto). destruct (filter (is_add k) l1); [contradiction|simpl in LF; lia]. }
  assert (NA2 : forall o, In o l2 -> is_add k o = false).
  { intros o Ho. destruct (is_add k o) eqn:X; [|reflexivity].
    assert (In o (filter (is_add k) l2)) by (apply filter_In; auto). destruct (filter (is_add k) l2); [contradiction|simpl in LF; lia]. }
  (* no Remove of k before a *)
  rewrite El in RTO. apply rt_ok_app in RTO as (_ & _ & RT3).
  assert (NR1 : forall o, In o l1 -> is_rem k o = false).
  { intros o Ho. destruct (is_rem k o) eqn:X; [|reflexivity]. exfalso.
    apply (RT3 o a Ho (or_introl eq_refl)). apply RT; [|exact X].
    eapply Permutation_in; [symmetry; exact P|]. rewrite El. apply in_or_app. now left. }
  rewrite El in Q. apply seq_to_app in Q as (S1 & Q1 & Q2).
  destruct (seq_adds k l1 [] S1) as [_ M1]; auto.
  { intros o Ho. apply MO. rewrite El. apply in_or_app. now left. }
  assert (E1 : existsb (is_add k) l1 = false).
  { destruct (existsb (is_add k) l1) eqn:X; [|reflexivity]. apply existsb_exists in X as (o & Ho & Fo).
    rewrite (NA1 o Ho) in Fo. discriminate. }
  rewrite E1 in M1. simpl in M1.
  cbn [seq_to] in Q2. pose proof (step_key k a S1 (MO a Hal)) as SK.
  destruct (fset_step S1 (call a)) as [S2 r]. destruct Q2 as [Er Q2]. destruct (SK Er) as (KA & _ & _).
  destruct (KA Aa) as [M2 Oka]. rewrite M1 in Oka. simpl in Oka.
  destruct (seq_rems k l2 S2 S') as [W2 _]; auto.
  { intros o Ho. apply MO. rewrite El. apply in_or_app. right. now right. }
  rewrite M2 in W2.
  split; [|exact Oka].
  unfold wins_rem. rewrite (filter_length_perm _ _ _ P), El, filter_app, app_length. cbn [filter].
  assert (Ra : is_rem k a = false) by (unfold is_rem, is_add in *; destruct (call a); try discriminate; reflexivity).
  rewrite Ra. cbn [andb].
  assert (Z1 : filter (fun o => is_rem k o && ok_ret o) l1 = []).
  { destruct (filter (fun o => is_rem k o && ok_ret o) l1) as [|o r1] eqn:F1; [reflexivity|]. exfalso.
    assert (Ho : In o (filter (fun o => is_rem k o && ok_ret o) l1)) by (rewrite F1; now left).
    apply filter_In in Ho as [Ho X]. rewrite (NR1 o Ho) in X. discriminate. }
  rewrite Z1. cbn [length]. unfold wins_rem in W2. rewrite W2.
  assert (E2 : existsb (is_rem k) l2 = true).
  { rewrite (existsb_perm _ _ _ P), El, existsb_app in ER. cbn [existsb] in ER. rewrite Ra in ER.
    destruct (existsb (is_rem k) l1) eqn:X; [|exact ER]. apply existsb_exists in X as (o & Ho & Fo).
    rewrite (NR1 o Ho) in Fo. discriminate. }
  now rewrite E2.
Qed.
End Race.
