(* C04 protocol model: the lock / flag / reachability invariant [Inv2] of LazySkip.v over all schedules.
     - a lock is held exactly by the thread whose program counter says so;
     - next and marked of a node are written only by the holder of the node's lock, and what a thread has
       validated under a lock stays true while it holds the lock;
     - every unmarked node is reachable from the header; every node that is not fully linked has exactly one
       creator (a thread about to set the flag); every marked node still reachable has a remover. *)
From VF Require Import Common.Base C04.Proofs.
From VF Require Import C04.LazySkip C04.ProofsLazy C04.LazyReach C04.LazyEff.
Local Open Scope Z_scope.

(* the locks a program counter holds *)
Definition held (p : pc) : list nat :=
  match p with
  | AValid _ pred _ | ALink _ pred _ | AFull _ pred _ | AUnlock pred _ _ => [pred]
  | RMark _ _ v | RLockP _ _ v | RGiveUp v | RFind _ _ (Some v) => [v]
  | RValid _ pred v | RUnlink _ pred v | RUnlockV _ pred v _ => [v; pred]
  | RUnlockP _ pred v ok => if ok then [pred] else [v; pred]
  | _ => []
  end.

(* a victim this thread has marked and not yet unlinked *)
Definition vown (h : heap) (t v : nat) : Prop :=
  lk h v = Some t /\ mkd h v = true /\ lkd h v = true /\ reach h 0 v.

(* what thread t knows at program counter p *)
Definition tk (h : heap) (t : nat) (p : pc) : Prop :=
  match p with
  | AValid k pred succ => lk h pred = Some t
  | ALink k pred succ => lk h pred = Some t /\ mkd h pred = false /\ nx h pred = succ
  | AFull k pred nn => lk h pred = Some t /\ mkd h pred = false /\ nx h pred = Some nn /\
                       (1 <= nn)%nat /\ ky h nn = k /\ lkd h nn = false /\ mkd h nn = false
  | AUnlock pred _ _ => lk h pred = Some t
  | RFind k pred (Some v) => vown h t v /\ reach h pred v
  | RLockV k pred v => lkd h v = true
  | RMark k pred v => lk h v = Some t /\ lkd h v = true
  | RLockP k pred v => vown h t v
  | RValid k pred v => vown h t v /\ lk h pred = Some t
  | RUnlink k pred v => vown h t v /\ lk h pred = Some t /\ mkd h pred = false /\ nx h pred = Some v
  | RUnlockV k pred v ok => ok = true /\ lk h v = Some t /\ lk h pred = Some t
  | RUnlockP k pred v ok => lk h pred = Some t /\ (ok = false -> vown h t v)
  | RGiveUp v => lk h v = Some t
  | _ => True
  end.

(* thread is the remover of node i *)
Definition removing (p : pc) (i : nat) : Prop :=
  match p with
  | RLockP _ _ v | RValid _ _ v | RUnlink _ _ v | RFind _ _ (Some v) => v = i
  | RUnlockP _ _ v ok => ok = false /\ v = i
  | _ => False
  end.

Record Inv2 (s : state) : Prop := {
  i2_tk  : forall t th, nth_error (ths s) t = Some th -> tk (hp s) t (at_pc th);
  i2_own : forall i t, valid (hp s) i -> lk (hp s) i = Some t ->
             exists th, nth_error (ths s) t = Some th /\ In i (held (at_pc th));
  i2_r1  : forall i, valid (hp s) i -> mkd (hp s) i = false -> reach (hp s) 0 i;
  i2_cr  : forall i, (1 <= i)%nat -> valid (hp s) i -> lkd (hp s) i = false ->
             exists t th k p, nth_error (ths s) t = Some th /\ at_pc th = AFull k p i;
  i2_rm  : forall i, valid (hp s) i -> mkd (hp s) i = true -> reach (hp s) 0 i ->
             exists t th, nth_error (ths s) t = Some th /\ removing (at_pc th) i;
  i2_uq  : forall t t' th th' k p n k' p' n',
             nth_error (ths s) t = Some th -> nth_error (ths s) t' = Some th' ->
             at_pc th = AFull k p n -> at_pc th' = AFull k' p' n' -> t <> t' -> n <> n' }.

Lemma tk_held h t p i : tk h t p -> In i (held p) -> lk h i = Some t.
Proof.
  destruct p; simpl; unfold vown; try tauto.
  all: try (intros T [<-|[]]; tauto).
  all: try (intros T [<-|[<-|[]]]; tauto).
  - destruct mk as [v|]; simpl; unfold vown; [|tauto]. intros T [<-|[]]. tauto.
  - destruct ok; [intros T [<-|[]]; tauto|]. intros [T1 T2] [<-|[<-|[]]]; [|exact T1]. now destruct (T2 eq_refl).
Qed.

(* ---------- stability of a thread's knowledge under the steps of the others ---------- *)
Section Stable.
Variables (t t2 : nat) (h h' : heap) (fl ul : option nat).
Hypothesis GG : G t h h' fl ul.
Hypothesis NE : t2 <> t.

Lemma keep_lock i : valid h i -> lk h i = Some t2 -> lk h' i = Some t2.
Proof. intros V L. now destruct (g_other _ _ _ _ _ GG i t2 V NE L). Qed.

Lemma keep_marked i b : valid h i -> lk h i = Some t2 -> mkd h i = b -> mkd h' i = b.
Proof. intros V L M. destruct (g_other _ _ _ _ _ GG i t2 V NE L) as (_ & _ & E). congruence. Qed.

Lemma keep_next i x : valid h i -> lk h i = Some t2 -> nx h i = x -> nx h' i = x.
Proof. intros V L M. destruct (g_other _ _ _ _ _ GG i t2 V NE L) as (_ & E & _). congruence. Qed.

Lemma keep_linked i : valid h i -> lkd h i = true -> lkd h' i = true.
Proof. intros V L. now apply (g_mono _ _ _ _ _ GG i V). Qed.

Lemma keep_reach a v : lk h v = Some t2 -> reach h a v -> reach h' a v.
Proof.
  intros L R. apply (g_reach _ _ _ _ _ GG a v R). intros E.
  destruct (g_ul _ _ _ _ _ GG v E) as (L' & _). congruence.
Qed.

Lemma keep_vown v : valid h v -> vown h t2 v -> vown h' t2 v.
Proof.
  intros V (A & B & C & D). split; [now apply keep_lock|split; [now apply keep_marked|split]].
  - now apply keep_linked.
  - now apply keep_reach.
Qed.

Lemma tk_stable p2 : pc_ok h p2 -> tk h t2 p2 ->
  (forall n k p0, fl = Some n -> p2 <> AFull k p0 n) -> tk h' t2 p2.
Proof.
  intros P T F. destruct p2; simpl in *; auto.
  - (* AValid *) destruct P as [[V _] _]. now apply keep_lock.
  - (* ALink *) destruct P as [[V _] _]. destruct T as (A & B & C).
    split; [now apply keep_lock|split; [now apply keep_marked|now apply keep_next]].
  - (* AFull *) destruct P as [V Vn]. destruct T as (A & B & C & D & E & F1 & F2).
    split; [now apply keep_lock|split; [now apply keep_marked|split; [now apply keep_next|split; [exact D|]]]].
    split; [destruct (g_ext _ _ _ _ _ GG) as [_ X]; now rewrite X|].
    apply (g_fresh _ _ _ _ _ GG nn Vn F1 F2). intros E1. eapply F; [exact E1|reflexivity].
  - (* AUnlock *) now apply keep_lock.
  - (* RFind *) destruct mk as [v|]; [|exact I]. destruct P as [_ (_ & Vv & _)]. destruct T as [A B].
    split; [now apply keep_vown|]. destruct A as (A & _). now apply keep_reach.
  - (* RLockV *) destruct P as [_ (_ & Vv & _)]. now apply keep_linked.
  - (* RMark *) destruct P as [_ (_ & Vv & _)]. destruct T as [A B]. split; [now apply keep_lock|now apply keep_linked].
  - (* RLockP *) destruct P as [_ (_ & Vv & _)]. now apply keep_vown.
  - (* RValid *) destruct P as [[V _] (_ & Vv & _)]. destruct T as [A B]. split; [now apply keep_vown|now apply keep_lock].
  - (* RUnlink *) destruct P as [[V _] (_ & Vv & _)]. destruct T as (A & B & C & D).
    split; [now apply keep_vown|split; [now apply keep_lock|split; [now apply keep_marked|now apply keep_next]]].
  - (* RUnlockV *) destruct P as [[V _] (_ & Vv & _)]. destruct T as (A & B & C).
    split; [exact A|split; now apply keep_lock].
  - (* RUnlockP *) destruct P as [[V _] (_ & Vv & _)]. destruct T as (A & B).
    split; [now apply keep_lock|]. intros E. apply keep_vown; auto.
  - (* RGiveUp *) now apply keep_lock.
Qed.
End Stable.

(* ---------- what one action of thread t establishes ---------- *)
Record SO (t : nat) (h : heap) (p : pc) (h' : heap) (p' : pc) (fl ul : option nat) : Prop := {
  so_G : G t h h' fl ul;
  so_tk : tk h' t p';
  so_held : forall i, valid h' i -> lk h' i = Some t -> In i (held p');
  so_fl : forall k p0 n, p = AFull k p0 n -> fl = Some n;
  so_fl' : forall n, fl = Some n -> exists k p0, p = AFull k p0 n;
  so_new : forall i, valid h' i -> ~ valid h i -> exists k p0, p' = AFull k p0 i;
  so_newfull : forall k p0 n, p' = AFull k p0 n -> n = length h;
  so_rm_new : forall i, valid h i -> mkd h i = false -> mkd h' i = true -> removing p' i;
  so_rm_keep : forall i, removing p i -> removing p' i \/ ul = Some i }.

Definition notfull (p : pc) : Prop := forall k p0 n, p <> AFull k p0 n.

(* the heap does not change *)
Lemma so_same t h p p' :
  (forall i, valid h i -> lk h i = Some t -> In i (held p)) ->
  tk h t p' -> (forall i, In i (held p) -> In i (held p')) -> notfull p -> notfull p' ->
  (forall i, removing p i -> removing p' i) -> SO t h p h p' None None.
Proof.
  intros OWN T HI NF NF' RM. split; try discriminate.
  - apply G_none.
  - exact T.
  - auto.
  - intros k p0 n E. exfalso. eapply NF; eauto.
  - intros i V N. contradiction.
  - intros k p0 n E. exfalso. eapply NF'; eauto.
  - intros i _ A B. congruence.
  - auto.
Qed.

(* one lock field changes *)
Lemma so_lock t h p p' i x : valid h i ->
  (x = Some t /\ lk h i = None) \/ (x = None /\ lk h i = Some t) ->
  (forall j, valid h j -> lk h j = Some t -> In j (held p)) ->
  tk (setn h i (set_lock x)) t p' ->
  (forall j, j <> i -> In j (held p) -> In j (held p')) -> (x = Some t -> In i (held p')) ->
  notfull p -> notfull p' -> (forall j, removing p j -> removing p' j) ->
  SO t h p (setn h i (set_lock x)) p' None None.
Proof.
  intros V C OWN T HI HA NF NF' RM.
  assert (GET : forall j, get (setn h i (set_lock x)) j = if Nat.eq_dec j i then set_lock x (get h i) else get h j)
    by (intros; now apply get_setn).
  split; try discriminate.
  - now apply G_lock.
  - exact T.
  - intros j Vj L. apply valid_setn in Vj. rewrite GET in L. destruct (Nat.eq_dec j i) as [->|Nj].
    + simpl in L. now apply HA.
    + apply HI; [exact Nj|]. now apply OWN.
  - intros k p0 n E. exfalso. eapply NF; eauto.
  - intros j Vj N. apply valid_setn in Vj. contradiction.
  - intros k p0 n E. exfalso. eapply NF'; eauto.
  - intros j Vj A B. rewrite GET in B. destruct (Nat.eq_dec j i) as [->|Nj]; simpl in B; congruence.
  - auto.
Qed.

Lemma opt_nat_eqb_eq a b : opt_nat_eqb a b = true -> a = b.
Proof.
  destruct a, b; simpl; try discriminate; auto. intros E. apply Nat.eqb_eq in E. congruence.
Qed.

Lemma acquire_inv h t i h' : acquire h t i = Some h' -> h' = setn h i (set_lock (Some t)) /\ lk h i = None.
Proof. unfold acquire. destruct (lk h i) eqn:E; [discriminate|]. intros X. inversion X. auto. Qed.

Lemma pred_ne_victim h k pred v : lt_key h pred k -> victim_ok h k v -> pred <> v.
Proof. intros [_ K] (A & _ & C) ->. specialize (K ltac:(lia)). lia. Qed.

Lemma fld_setn {A} (g : nd -> A) h i j f : (forall n, g (f n) = g n) -> g (get (setn h i f) j) = g (get h j).
Proof.
  intros Hf. destruct (Nat.lt_ge_cases i (length h)) as [V|V].
  - rewrite get_setn by exact V. destruct (Nat.eq_dec j i) as [->|N]; [apply Hf|reflexivity].
  - unfold setn. assert (E : nth_error h i = None) by now apply nth_error_None. now rewrite E.
Qed.

Ltac nf := let E := fresh in intros ? ? ? E; discriminate E.
Ltac same T := exists None, None; apply so_same; [assumption | T | simpl; tauto | nf | nf | simpl; tauto].

Lemma action_so h t p : (1 <= length h)%nat -> ord h -> pc_ok h p -> tk h t p ->
  (forall i, valid h i -> lk h i = Some t -> In i (held p)) ->
  (forall i, valid h i -> mkd h i = false -> reach h 0 i) ->
  exists fl ul, SO t h p (fst (action h t p)) (snd (action h t p)) fl ul.
Proof.
  intros L O P T OWN R1.
  destruct p.
  - (* Idle *) cbn [action fst snd]. same ltac:(exact I).
  - (* Done *) cbn [action fst snd]. same ltac:(exact I).
  - (* AFind *) cbn [action].
    destruct (nx h pred) as [c|]; cbn [fst snd]; [|same ltac:(exact I)].
    destruct (ky h c <? k); cbn [fst snd]; [same ltac:(exact I)|].
    destruct (ky h c =? k); [|same ltac:(exact I)].
    destruct (mkd h c); [same ltac:(exact I)|]. destruct (lkd h c); same ltac:(exact I).
  - (* ALock *) cbn [action]. simpl in P. destruct P as [[V K] S].
    destruct (acquire h t pred) as [h'|] eqn:Ea; cbn [fst snd]; [|same ltac:(exact I)].
    apply acquire_inv in Ea as [-> Ea]. exists None, None. apply so_lock; auto; try nf; try solve [simpl; tauto]; try discriminate.
    simpl. rewrite get_setn_same by exact V. reflexivity.
  - (* AValid *) cbn [action]. simpl in P, T. destruct P as [[V K] S].
    match goal with |- context [if ?b then _ else _] => destruct b eqn:Eok end; cbn [fst snd].
    + apply andb_true_iff in Eok as [Eok E3]. apply andb_true_iff in Eok as [E1 E2].
      apply negb_true_iff in E1. apply opt_nat_eqb_eq in E3. same ltac:(simpl; auto).
    + same ltac:(simpl; auto).
  - (* ALink *)
    assert (EQ : action h t (ALink k pred succ) = (linkh h pred k succ, AFull k pred (length h))) by reflexivity.
    rewrite EQ. cbn [fst snd]. clear EQ. simpl in P, T. destruct P as [[V K] S]. destruct T as (TL & TM & TN).
    assert (GETP : get (linkh h pred k succ) pred = set_next (Some (length h)) (get h pred)).
    { rewrite get_linkh by exact V. destruct (Nat.eq_dec pred pred); [reflexivity|congruence]. }
    assert (GETN : get (linkh h pred k succ) (length h) = newnode k succ).
    { rewrite get_linkh by exact V. unfold valid in V. destruct (Nat.eq_dec (length h) pred); [lia|].
      destruct (Nat.eq_dec (length h) (length h)); [reflexivity|congruence]. }
    exists None, None. split; try discriminate.
    + apply G_link; auto.
    + simpl. rewrite GETP, GETN. simpl. unfold valid in V. repeat split; auto; lia.
    + intros i Vi Li. unfold valid in Vi. rewrite linkh_length in Vi.
      rewrite get_linkh in Li by exact V. destruct (Nat.eq_dec i pred) as [->|Ni]; [simpl; auto|].
      destruct (Nat.eq_dec i (length h)) as [->|Nn]; [discriminate|]. apply OWN; [unfold valid; lia|exact Li].
    + intros i Vi Ni. unfold valid in *. rewrite linkh_length in Vi. assert (i = length h) by lia. subst. eauto.
    + intros k0 p0 n E. inversion E. reflexivity.
    + intros i Vi M1 M2. rewrite get_linkh in M2 by exact V. unfold valid in Vi.
      destruct (Nat.eq_dec i pred) as [->|Ni]; [simpl in M2; congruence|].
      destruct (Nat.eq_dec i (length h)); [lia|congruence].
    + simpl. tauto.
  - (* AFull *)
    assert (EQ : action h t (AFull k pred nn) = (setn h nn set_linked, AUnlock pred (Some true) k)) by reflexivity.
    rewrite EQ. cbn [fst snd]. clear EQ. simpl in P, T. destruct P as [V Vn]. destruct T as (TL & _).
    exists (Some nn), None. split; try discriminate.
    + now apply G_full.
    + simpl. now rewrite (fld_setn lock).
    + intros i Vi Li. apply valid_setn in Vi. rewrite (fld_setn lock) in Li by reflexivity. now apply OWN.
    + intros k0 p0 n E. inversion E. reflexivity.
    + intros n E. inversion E. eauto.
    + intros i Vi Ni. apply valid_setn in Vi. contradiction.
    + intros i Vi M1 M2. rewrite (fld_setn marked) in M2 by reflexivity. congruence.
    + simpl. tauto.
  - (* AUnlock *)
    assert (EQ : action h t (AUnlock pred res k) =
                 (setn h pred (set_lock None), match res with Some b => Done b | None => AFind k 0 end)) by reflexivity.
    rewrite EQ. cbn [fst snd]. clear EQ. simpl in P, T.
    exists None, None. apply so_lock; auto; try nf; try solve [simpl; tauto]; try discriminate.
    + destruct res; exact I.
    + simpl. intros j Nj [<-|[]]. congruence.
    + destruct res; nf.
  - (* RFind *) cbn [action]. simpl in P. destruct P as [[V K] M].
    destruct mk as [v|].
    + simpl in T. destruct T as [TV TR]. destruct M as (Pv & Vv & Kv).
      assert (MISS : exists fl ul, SO t h (RFind k pred (Some v)) h (RFind k 0 (Some v)) fl ul).
      { same ltac:(simpl; split; [exact TV|now destruct TV as (_ & _ & _ & X)]). }
      assert (NE : pred <> v) by (eapply pred_ne_victim; [split; eassumption|repeat split; eassumption]).
      destruct (nx h pred) as [c|] eqn:En; cbn [fst snd]; [|exact MISS].
      destruct (reach_inv _ _ _ TR) as [?|(m & E1 & R2)]; [congruence|]. rewrite En in E1. inversion E1; subst m.
      destruct (ky h c <? k); cbn [fst snd]; [same ltac:(simpl; auto)|].
      destruct (ky h c =? k); [|exact MISS].
      destruct (Nat.eqb c v) eqn:Ec; [|exact MISS]. same ltac:(simpl; auto).
    + destruct (nx h pred) as [c|]; cbn [fst snd]; [|same ltac:(exact I)].
      destruct (ky h c <? k); cbn [fst snd]; [same ltac:(exact I)|].
      destruct (ky h c =? k); same ltac:(exact I).
  - (* RCheck *) cbn [action].
    destruct (lkd h v && negb (mkd h v)) eqn:E; cbn [fst snd]; [|same ltac:(exact I)].
    apply andb_true_iff in E as [E _]. same ltac:(simpl; exact E).
  - (* RLockV *) cbn [action]. simpl in P, T. destruct P as [[V K] (Pv & Vv & Kv)].
    destruct (acquire h t v) as [h'|] eqn:Ea; cbn [fst snd]; [|same ltac:(exact T)].
    apply acquire_inv in Ea as [-> Ea]. exists None, None. apply so_lock; auto; try nf; try solve [simpl; tauto]; try discriminate.
    simpl. rewrite get_setn_same by exact Vv. simpl. auto.
  - (* RMark *) cbn [action]. simpl in P, T. destruct P as [[V K] (Pv & Vv & Kv)]. destruct T as [TL TK].
    destruct (mkd h v) eqn:Em; cbn [fst snd]; [same ltac:(simpl; exact TL)|].
    exists None, None. split; try discriminate.
    + now apply G_mark.
    + simpl. unfold vown. rewrite !get_setn_same by exact Vv. simpl.
      repeat split; auto. apply setn_reach; [reflexivity|]. now apply R1.
    + intros i Vi Li. apply valid_setn in Vi. rewrite (fld_setn lock) in Li by reflexivity. now apply OWN.
    + intros i Vi Ni. apply valid_setn in Vi. contradiction.
    + intros i Vi M1 M2. rewrite get_setn in M2 by exact Vv. destruct (Nat.eq_dec i v) as [->|Ni]; [reflexivity|congruence].
    + simpl. tauto.
  - (* RLockP *) cbn [action]. simpl in P, T. destruct P as [[V K] (Pv & Vv & Kv)].
    destruct (acquire h t pred) as [h'|] eqn:Ea; cbn [fst snd]; [|same ltac:(exact T)].
    apply acquire_inv in Ea as [-> Ea]. exists None, None. apply so_lock; auto; try nf; try solve [simpl; tauto]; try discriminate.
    simpl. destruct T as (A & B & C & D). assert (pred <> v) by congruence.
    unfold vown. rewrite get_setn_same by exact V. rewrite get_setn_other by congruence. simpl.
    repeat split; auto. apply setn_reach; [reflexivity|exact D].
  - (* RValid *) cbn [action]. simpl in P, T. destruct T as [TV TL].
    match goal with |- context [if ?b then _ else _] => destruct b eqn:Eok end; cbn [fst snd].
    + apply andb_true_iff in Eok as [E1 E2]. apply negb_true_iff in E1. apply opt_nat_eqb_eq in E2.
      same ltac:(simpl; auto).
    + same ltac:(simpl; auto).
  - (* RUnlink *)
    assert (EQ : action h t (RUnlink k pred v) = (unlinkh h pred v, RUnlockV k pred v true)) by reflexivity.
    rewrite EQ. cbn [fst snd]. clear EQ. simpl in P, T. destruct P as [[V K] (Pv & Vv & Kv)].
    destruct T as ((A & B & C & D) & TL & TM & TN).
    exists None, (Some v). split; try discriminate.
    + apply G_unlink; auto. intros N. rewrite Kv. now apply K.
    + simpl. unfold unlinkh. rewrite !(fld_setn lock) by reflexivity. auto.
    + intros i Vi Li. apply valid_setn in Vi. unfold unlinkh in Li. rewrite (fld_setn lock) in Li by reflexivity.
      now apply OWN.
    + intros i Vi Ni. apply valid_setn in Vi. contradiction.
    + intros i Vi M1 M2. unfold unlinkh in M2. rewrite (fld_setn marked) in M2 by reflexivity. congruence.
    + simpl. intros i <-. now right.
  - (* RUnlockV *)
    assert (EQ : action h t (RUnlockV k pred v ok) = (setn h v (set_lock None), RUnlockP k pred v ok)) by reflexivity.
    rewrite EQ. cbn [fst snd]. clear EQ. simpl in P, T. destruct P as [[V K] (Pv & Vv & Kv)].
    destruct T as (-> & TLv & TLp).
    assert (NE : pred <> v) by (eapply pred_ne_victim; [split; eassumption|repeat split; eassumption]).
    exists None, None. apply so_lock; auto; try nf; try solve [simpl; tauto]; try discriminate.
    + simpl. rewrite get_setn_other by exact NE. split; [exact TLp|discriminate].
    + simpl. intuition congruence.
  - (* RUnlockP *)
    assert (EQ : action h t (RUnlockP k pred v ok) =
                 (setn h pred (set_lock None), if ok then Done true else RFind k 0 (Some v))) by reflexivity.
    rewrite EQ. cbn [fst snd]. clear EQ. simpl in P, T. destruct P as [[V K] (Pv & Vv & Kv)].
    destruct T as (TLp & TV).
    assert (NE : pred <> v) by (eapply pred_ne_victim; [split; eassumption|repeat split; eassumption]).
    exists None, None. apply so_lock; auto; try solve [simpl; tauto]; try discriminate.
    + destruct ok; [exact I|]. destruct (TV eq_refl) as (A & B & C & D). simpl. unfold vown.
      rewrite !get_setn_other by congruence.
      assert (D' : reach (setn h pred (set_lock None)) 0 v) by (apply setn_reach; [reflexivity|exact D]).
      repeat split; auto.
    + destruct ok; simpl; intros j Nj; intuition congruence.
    + destruct ok; nf.
    + destruct ok; simpl; intros j; intuition congruence.
  - (* RGiveUp *)
    assert (EQ : action h t (RGiveUp v) = (setn h v (set_lock None), Done false)) by reflexivity.
    rewrite EQ. cbn [fst snd]. clear EQ. simpl in P, T.
    exists None, None. apply so_lock; auto; try nf; try solve [simpl; tauto]; try discriminate.
    simpl. intros j Nj [<-|[]]. congruence.
  - (* CFind *) cbn [action].
    destruct (nx h pred) as [c|]; cbn [fst snd]; [|same ltac:(exact I)].
    destruct (ky h c <? k); cbn [fst snd]; [same ltac:(exact I)|].
    destruct (ky h c =? k); same ltac:(exact I).
Qed.

(* ---------- the invariant is kept by every step ---------- *)
Lemma nth_error_upd {A} (l : list A) i j x :
  nth_error (upd l i x) j = if Nat.eq_dec j i then (match nth_error l i with Some _ => Some x | None => None end)
                            else nth_error l j.
Proof.
  revert i j. induction l as [|a l IH]; intros i j.
  - destruct i, j; simpl; try reflexivity; destruct (Nat.eq_dec _ _); reflexivity.
  - destruct i as [|i], j as [|j]; simpl; try reflexivity.
    rewrite IH. destruct (Nat.eq_dec j i), (Nat.eq_dec (Datatypes.S j) (Datatypes.S i)); auto; lia.
Qed.

Lemma pcs_ok s t th : LInv s -> nth_error (ths s) t = Some th -> pc_ok (hp s) (at_pc th).
Proof. intros [_ _ P] E. rewrite Forall_forall in P. apply P. eapply nth_error_In; eauto. Qed.

Lemma inv2_update s t th h' p' td' fl ul :
  LInv s -> Inv2 s -> nth_error (ths s) t = Some th ->
  SO t (hp s) (at_pc th) h' p' fl ul ->
  Inv2 {| hp := h'; ths := upd (ths s) t {| todo := td'; at_pc := p' |} |}.
Proof.
  intros LI I2 Et S. destruct S as [GG STK SH SFL SFL' SNEW SNF SRN SRK].
  destruct I2 as [ITK IOWN IR1 ICR IRM IUQ].
  set (nt := {| todo := td'; at_pc := p' |}).
  assert (NTH : forall t2 th2, nth_error (upd (ths s) t nt) t2 = Some th2 ->
            (t2 = t /\ th2 = nt) \/ (t2 <> t /\ nth_error (ths s) t2 = Some th2)).
  { intros t2 th2 E. rewrite nth_error_upd in E. destruct (Nat.eq_dec t2 t) as [->|N]; [|auto].
    rewrite Et in E. inversion E. auto. }
  assert (NTHt : nth_error (upd (ths s) t nt) t = Some nt).
  { rewrite nth_error_upd. destruct (Nat.eq_dec t t); [|congruence]. now rewrite Et. }
  assert (NTHo : forall t2 th2, t2 <> t -> nth_error (ths s) t2 = Some th2 -> nth_error (upd (ths s) t nt) t2 = Some th2).
  { intros t2 th2 N E. rewrite nth_error_upd. destruct (Nat.eq_dec t2 t); [congruence|exact E]. }
  split; cbn [hp ths].
  - (* tk *) intros t2 th2 E. destruct (NTH _ _ E) as [[-> ->]|[N E2]]; [exact STK|].
    eapply tk_stable; [exact GG|exact N|eapply pcs_ok; eauto|now apply ITK|].
    intros n k p0 Efl Epc. destruct (SFL' n Efl) as (k1 & p1 & Ep).
    exact (IUQ t t2 th th2 _ _ _ _ _ _ Et E2 Ep Epc (fun X => N (eq_sym X)) eq_refl).
  - (* own *) intros i t' Vi Li. destruct (Nat.eq_dec t' t) as [->|N].
    + exists nt. split; [exact NTHt|]. now apply SH.
    + destruct (g_lock_from _ _ _ _ _ GG i t' Vi N Li) as [Vi' Li'].
      destruct (IOWN i t' Vi' Li') as (th2 & E2 & In2). exists th2. split; [now apply NTHo|exact In2].
  - (* unmarked nodes are reachable *) intros i Vi Mi.
    destruct (Nat.lt_ge_cases i (length (hp s))) as [Vo|Vo].
    + assert (Mo : mkd (hp s) i = false).
      { destruct (mkd (hp s) i) eqn:E; [|reflexivity]. destruct (g_mono _ _ _ _ _ GG i Vo) as [_ X]. rewrite X in Mi; auto. }
      apply (g_reach _ _ _ _ _ GG); [now apply IR1|]. intros Eu. destruct (g_ul _ _ _ _ _ GG i Eu) as (_ & X & _). congruence.
    + apply (g_new _ _ _ _ _ GG i Vi). unfold valid. lia.
  - (* creator *) intros i Pi Vi Li.
    destruct (Nat.lt_ge_cases i (length (hp s))) as [Vo|Vo].
    + assert (Lo : lkd (hp s) i = false).
      { destruct (lkd (hp s) i) eqn:E; [|reflexivity]. destruct (g_mono _ _ _ _ _ GG i Vo) as [X _]. rewrite X in Li; auto. }
      destruct (ICR i Pi Vo Lo) as (t0 & th0 & k & p & E0 & Ep).
      destruct (Nat.eq_dec t0 t) as [->|N].
      * rewrite Et in E0. inversion E0; subst th0. pose proof (SFL _ _ _ Ep) as Efl.
        destruct (g_fl _ _ _ _ _ GG i Efl) as [_ X]. congruence.
      * exists t0, th0, k, p. split; [now apply NTHo|exact Ep].
    + destruct (SNEW i Vi ltac:(unfold valid; lia)) as (k & p0 & Ep). exists t, nt, k, p0. split; [exact NTHt|exact Ep].
  - (* remover *) intros i Vi Mi Ri.
    destruct (Nat.lt_ge_cases i (length (hp s))) as [Vo|Vo].
    + destruct (mkd (hp s) i) eqn:Mo.
      * pose proof (g_reach_back _ _ _ _ _ GG i Vo Ri) as Ro.
        destruct (IRM i Vo Mo Ro) as (t0 & th0 & E0 & Rm).
        destruct (Nat.eq_dec t0 t) as [->|N].
        -- rewrite Et in E0. inversion E0; subst th0. destruct (SRK i Rm) as [X|X].
           ++ exists t, nt. split; [exact NTHt|exact X].
           ++ destruct (g_ul _ _ _ _ _ GG i X) as (_ & _ & Y). contradiction.
        -- exists t0, th0. split; [now apply NTHo|exact Rm].
      * exists t, nt. split; [exact NTHt|]. now apply SRN.
    + destruct (g_new _ _ _ _ _ GG i Vi ltac:(unfold valid; lia)) as (_ & _ & X & _). congruence.
  - (* distinct creators create distinct nodes *)
    intros t1 t2 th1 th2 k1 p1 n1 k2 p2 n2 E1 E2 P1 P2 N.
    destruct (NTH _ _ E1) as [[-> ->]|[N1 E1']], (NTH _ _ E2) as [[-> ->]|[N2 E2']].
    + congruence.
    + cbn [at_pc nt] in P1. pose proof (SNF _ _ _ P1) as X. subst n1.
      pose proof (pcs_ok _ _ _ LI E2') as Q. rewrite P2 in Q. simpl in Q. destruct Q as [_ Q]. unfold valid in Q. lia.
    + cbn [at_pc nt] in P2. pose proof (SNF _ _ _ P2) as X. subst n2.
      pose proof (pcs_ok _ _ _ LI E1') as Q. rewrite P1 in Q. simpl in Q. destruct Q as [_ Q]. unfold valid in Q. lia.
    + exact (IUQ t1 t2 th1 th2 _ _ _ _ _ _ E1' E2' P1 P2 N).
Qed.

Lemma step_inv2 s t : LInv s -> Inv2 s -> Inv2 (step s t).
Proof.
  intros LI I2. unfold step. destruct (nth_error (ths s) t) as [th|] eqn:Et; [|exact I2].
  assert (OWN : forall i, valid (hp s) i -> lk (hp s) i = Some t -> In i (held (at_pc th))).
  { intros i Vi Li. destruct (i2_own _ I2 i t Vi Li) as (th2 & E2 & X). rewrite Et in E2. inversion E2. now subst. }
  pose proof (pcs_ok _ _ _ LI Et) as P. pose proof (i2_tk _ I2 _ _ Et) as T.
  destruct LI as [L O PCS].
  assert (ACT : forall p, at_pc th = p -> exists fl ul,
             SO t (hp s) p (fst (action (hp s) t p)) (snd (action (hp s) t p)) fl ul).
  { intros p <-. apply action_so; auto. exact (i2_r1 _ I2). }
  assert (IDLE : forall p', at_pc th = Idle \/ (exists r, at_pc th = Done r) -> (p' = Idle \/ exists o, p' = start o) ->
             exists fl ul, SO t (hp s) (at_pc th) (hp s) p' fl ul).
  { intros p' Hp Hp'. exists None, None.
    assert (HE : held (at_pc th) = []) by (destruct Hp as [->|[r ->]]; reflexivity).
    apply so_same.
    - exact OWN.
    - destruct Hp' as [->|[o ->]]; [exact I|destruct o; exact I].
    - rewrite HE. intros i [].
    - destruct Hp as [->|[r ->]]; intros ? ? ? E; discriminate E.
    - destruct Hp' as [->|[o ->]]; [|destruct o]; intros ? ? ? E; discriminate E.
    - destruct Hp as [->|[r ->]]; simpl; tauto. }
  unfold thr_step.
  destruct (at_pc th) eqn:Ep;
    try (destruct (ACT _ eq_refl) as (fl & ul & S);
         destruct (action (hp s) t _) as [h' p'] eqn:Ea; cbn [fst snd] in S;
         eapply inv2_update; [split; eassumption|exact I2|exact Et|rewrite Ep; exact S]).
  - (* Idle *) destruct (todo th) as [|o rest].
    + destruct (IDLE Idle (or_introl eq_refl) (or_introl eq_refl)) as (fl & ul & S).
      eapply inv2_update; [split; eassumption|exact I2|exact Et|rewrite Ep; exact S].
    + destruct (IDLE (start o) (or_introl eq_refl) (or_intror (ex_intro _ o eq_refl))) as (fl & ul & S).
      eapply inv2_update; [split; eassumption|exact I2|exact Et|rewrite Ep; exact S].
  - (* Done *) destruct (todo th) as [|o rest].
    + destruct (IDLE Idle (or_intror (ex_intro _ res eq_refl)) (or_introl eq_refl)) as (fl & ul & S).
      eapply inv2_update; [split; eassumption|exact I2|exact Et|rewrite Ep; exact S].
    + destruct (IDLE (start o) (or_intror (ex_intro _ res eq_refl)) (or_intror (ex_intro _ o eq_refl))) as (fl & ul & S).
      eapply inv2_update; [split; eassumption|exact I2|exact Et|rewrite Ep; exact S].
Qed.

Lemma init_inv2 progs : Inv2 (init progs).
Proof.
  assert (TH : forall t th, nth_error (ths (init progs)) t = Some th -> at_pc th = Idle).
  { intros t th E. apply nth_error_In in E. cbn [init ths] in E. apply in_map_iff in E as (p & <- & _). reflexivity. }
  assert (V0 : forall i, valid (hp (init progs)) i -> i = 0%nat).
  { intros i V. unfold valid in V. cbn [init hp] in V. simpl in V. lia. }
  split.
  - intros t th E. rewrite (TH _ _ E). exact I.
  - intros i t V Lk. rewrite (V0 i V) in Lk. discriminate.
  - intros i V _. rewrite (V0 i V). apply reach_refl.
  - intros i P V. rewrite (V0 i V) in P. lia.
  - intros i V M. rewrite (V0 i V) in M. discriminate.
  - intros t t' th th' k p n k' p' n' E _ P. rewrite (TH _ _ E) in P. discriminate.
Qed.

Theorem lazy_inv2 progs sched : Inv2 (run_sched (init progs) sched).
Proof.
  unfold run_sched. generalize (init_inv progs) (init_inv2 progs). generalize (init progs).
  induction sched as [|t sched IH]; intros s I1 I2; [exact I2|]. simpl.
  apply IH; [now apply step_inv|now apply step_inv2].
Qed.

(* ---------- consequences (goal: lock discipline) ---------- *)

(* mutual exclusion: a lock is held by the thread whose program counter says so, and by nobody else *)
Theorem lock_holder progs sched i t : let s := run_sched (init progs) sched in
  valid (hp s) i -> lk (hp s) i = Some t ->
  exists th, nth_error (ths s) t = Some th /\ In i (held (at_pc th)).
Proof. cbv zeta. intros V L. exact (i2_own _ (lazy_inv2 progs sched) i t V L). Qed.

Lemma step_G s t : LInv s -> Inv2 s -> exists fl ul, G t (hp s) (hp (step s t)) fl ul.
Proof.
  intros LI I2. unfold step. destruct (nth_error (ths s) t) as [th|] eqn:Et; [|exists None, None; apply G_none].
  assert (OWN : forall i, valid (hp s) i -> lk (hp s) i = Some t -> In i (held (at_pc th))).
  { intros i Vi Li. destruct (i2_own _ I2 i t Vi Li) as (th2 & E2 & X). rewrite Et in E2. inversion E2. now subst. }
  pose proof (pcs_ok _ _ _ LI Et) as P. pose proof (i2_tk _ I2 _ _ Et) as T.
  destruct LI as [L O PCS].
  destruct (action_so (hp s) t (at_pc th) L O P T OWN (i2_r1 _ I2)) as (fl & ul & S).
  unfold thr_step. destruct (at_pc th) eqn:Ep;
    try (exists fl, ul; destruct (action (hp s) t _) as [h' p'] eqn:Ea; cbn [fst snd hp] in *; exact (so_G _ _ _ _ _ _ _ S)).
  - destruct (todo th); exists None, None; apply G_none.
  - destruct (todo th); exists None, None; apply G_none.
Qed.

(* a lock is only released (or taken over) by a step of its holder *)
Theorem lock_release_by_holder progs sched t i t2 : let s := run_sched (init progs) sched in
  valid (hp s) i -> lk (hp s) i = Some t2 -> lk (hp (step s t)) i <> Some t2 -> t = t2.
Proof.
  cbv zeta. intros V L N.
  destruct (step_G _ t (lazy_inv progs sched) (lazy_inv2 progs sched)) as (fl & ul & GG).
  symmetry. exact (g_lock_release _ _ _ _ _ GG i t2 V L N).
Qed.

(* a step that changes the next pointer of an existing node is made by the holder of that node's lock
   (and the node is not marked) *)
Theorem next_written_under_lock progs sched t i : let s := run_sched (init progs) sched in
  valid (hp s) i -> nx (hp (step s t)) i <> nx (hp s) i ->
  lk (hp s) i = Some t /\ mkd (hp (step s t)) i = false.
Proof.
  cbv zeta. intros V N.
  destruct (step_G _ t (lazy_inv progs sched) (lazy_inv2 progs sched)) as (fl & ul & GG).
  exact (g_next_locked _ _ _ _ _ GG i V N).
Qed.
