(* C04 (stretch): invariants of the LazySkip protocol model over all schedules. *)
From VF Require Import Common.Base C04.Proofs.
From VF Require Import C04.LazySkip.
Local Open Scope Z_scope.

Definition valid (h : heap) (i : nat) : Prop := (i < length h)%nat.

(* ---------- setn ---------- *)
Lemma nth_error_get h i n : nth_error h i = Some n -> n = get h i /\ valid h i.
Proof.
  intros H. split; [|apply nth_error_Some; congruence].
  unfold get. symmetry. now apply nth_error_nth.
Qed.

Lemma setn_length h i f : length (setn h i f) = length h.
Proof. unfold setn. destruct (nth_error h i); [apply upd_length|reflexivity]. Qed.

Lemma get_setn_same h i f : valid h i -> get (setn h i f) i = f (get h i).
Proof.
  intros V. unfold setn. destruct (nth_error h i) as [n|] eqn:E.
  - destruct (nth_error_get _ _ _ E) as [-> _]. unfold get at 1. now apply nth_upd_same.
  - apply nth_error_None in E. unfold valid in V. lia.
Qed.

Lemma get_setn_other h i j f : j <> i -> get (setn h i f) j = get h j.
Proof.
  intros N. unfold setn. destruct (nth_error h i); [|reflexivity]. unfold get. apply nth_upd_other. congruence.
Qed.

Lemma key_setn h i j f : (forall n, key (f n) = key n) -> key (get (setn h i f) j) = key (get h j).
Proof.
  intros Hf. destruct (Nat.eq_dec j i) as [->|N]; [|now rewrite get_setn_other].
  unfold setn. destruct (nth_error h i) as [n|] eqn:E; [|reflexivity].
  destruct (nth_error_get _ _ _ E) as [-> V]. fold (setn h i f).
  replace (upd h i (f (get h i))) with (setn h i f) by (unfold setn; now rewrite E).
  rewrite get_setn_same by exact V. apply Hf.
Qed.

Lemma next_setn h i j f : (forall n, next (f n) = next n) -> next (get (setn h i f) j) = next (get h j).
Proof.
  intros Hf. destruct (Nat.eq_dec j i) as [->|N]; [|now rewrite get_setn_other].
  unfold setn. destruct (nth_error h i) as [n|] eqn:E; [|reflexivity].
  destruct (nth_error_get _ _ _ E) as [-> V].
  replace (upd h i (f (get h i))) with (setn h i f) by (unfold setn; now rewrite E).
  rewrite get_setn_same by exact V. apply Hf.
Qed.

Lemma get_app_old h n i : valid h i -> get (h ++ [n]) i = get h i.
Proof. intros V. unfold get. now apply app_nth1. Qed.

Lemma get_app_new h n : get (h ++ [n]) (length h) = n.
Proof. unfold get. rewrite app_nth2 by lia. now rewrite Nat.sub_diag. Qed.

(* ---------- the order invariant ---------- *)
Definition ord (h : heap) : Prop :=
  forall i m, valid h i -> next (get h i) = Some m ->
    (1 <= m)%nat /\ valid h m /\ (i <> 0%nat -> key (get h i) < key (get h m)).

(* h' extends h: indices stay valid, keys never change *)
Definition ext (h h' : heap) : Prop :=
  (length h <= length h')%nat /\ forall i, valid h i -> key (get h' i) = key (get h i).

Lemma ext_refl h : ext h h.
Proof. split; [lia|auto]. Qed.

Lemma ext_setn h i f : (forall n, key (f n) = key n) -> ext h (setn h i f).
Proof. intros Hf. split; [rewrite setn_length; lia|]. intros j _. now apply key_setn. Qed.

Lemma ext_trans a b c : ext a b -> ext b c -> ext a c.
Proof.
  intros [L1 K1] [L2 K2]. split; [lia|]. intros i V. rewrite K2 by (unfold valid in *; lia). now apply K1.
Qed.

Lemma ext_app h n : ext h (h ++ [n]).
Proof. split; [rewrite app_length; simpl; lia|]. intros i V. now rewrite get_app_old. Qed.

Lemma ord_setn_flags h i f :
  (forall n, key (f n) = key n) -> (forall n, next (f n) = next n) -> ord h -> ord (setn h i f).
Proof.
  intros Hk Hn O j m V E. unfold valid in *. rewrite setn_length in *. rewrite next_setn in E by exact Hn.
  destruct (O j m V E) as (A & B & C). rewrite !key_setn by exact Hk. auto.
Qed.

Definition target_ok (h : heap) (i : nat) (x : option nat) : Prop :=
  match x with
  | None => True
  | Some m => (1 <= m)%nat /\ valid h m /\ (i <> 0%nat -> key (get h i) < key (get h m))
  end.

Lemma ord_set_next h i x : ord h -> valid h i -> target_ok h i x -> ord (setn h i (set_next x)).
Proof.
  intros O V T j m Vj E. unfold valid in *. rewrite setn_length in *.
  rewrite !key_setn by reflexivity.
  destruct (Nat.eq_dec j i) as [->|N].
  - rewrite get_setn_same in E by exact V. simpl in E. subst x. exact T.
  - rewrite get_setn_other in E by exact N. now apply O.
Qed.

Lemma ord_app h n : ord h ->
  match next n with
  | None => True
  | Some m => (1 <= m)%nat /\ valid h m /\ key n < key (get h m)
  end -> ord (h ++ [n]).
Proof.
  intros O T j m V E. unfold valid in *. rewrite app_length in *. simpl in *.
  destruct (Nat.eq_dec j (length h)) as [->|N].
  - rewrite get_app_new in *. rewrite E in T. destruct T as (A & B & C).
    split; [exact A|split; [unfold valid in B; lia|]]. intros _. rewrite get_app_old by exact B. exact C.
  - assert (Vj : valid h j) by (unfold valid; lia). rewrite get_app_old in * by exact Vj.
    destruct (O j m Vj E) as (A & B & C). split; [exact A|split; [unfold valid in B; lia|]].
    rewrite get_app_old by exact B. exact C.
Qed.

(* ---------- what a program counter knows ---------- *)
Definition lt_key (h : heap) (pred : nat) (k : Z) : Prop :=
  valid h pred /\ (pred <> 0%nat -> key (get h pred) < k).
Definition succ_ok (h : heap) (k : Z) (succ : option nat) : Prop :=
  match succ with None => True | Some m => (1 <= m)%nat /\ valid h m /\ k < key (get h m) end.
Definition victim_ok (h : heap) (k : Z) (v : nat) : Prop := (1 <= v)%nat /\ valid h v /\ key (get h v) = k.

Definition pc_ok (h : heap) (p : pc) : Prop :=
  match p with
  | Idle | Done _ => True
  | AFind k pred | CFind k pred => lt_key h pred k
  | ALock k pred succ | AValid k pred succ | ALink k pred succ => lt_key h pred k /\ succ_ok h k succ
  | AFull k pred nn => valid h pred /\ valid h nn
  | AUnlock pred _ _ => valid h pred
  | RFind k pred mk => lt_key h pred k /\ match mk with Some v => victim_ok h k v | None => True end
  | RCheck k pred v | RLockV k pred v | RMark k pred v | RLockP k pred v | RValid k pred v
  | RUnlink k pred v | RUnlockV k pred v _ | RUnlockP k pred v _ => lt_key h pred k /\ victim_ok h k v
  | RGiveUp v => valid h v
  end.

Lemma valid_ext h h' i : ext h h' -> valid h i -> valid h' i.
Proof. intros [L _] V. unfold valid in *. lia. Qed.

Lemma lt_key_ext h h' p k : ext h h' -> lt_key h p k -> lt_key h' p k.
Proof. intros E [V K]. split; [eapply valid_ext; eauto|]. intros N. destruct E as [_ E]. rewrite E by exact V. auto. Qed.

Lemma succ_ok_ext h h' k s : ext h h' -> succ_ok h k s -> succ_ok h' k s.
Proof.
  intros E. destruct s as [m|]; simpl; [|auto]. intros (A & B & C).
  split; [exact A|split; [eapply valid_ext; eauto|]]. destruct E as [_ E]. now rewrite E.
Qed.

Lemma victim_ok_ext h h' k v : ext h h' -> victim_ok h k v -> victim_ok h' k v.
Proof.
  intros E (A & B & C). split; [exact A|split; [eapply valid_ext; eauto|]]. destruct E as [_ E]. now rewrite E.
Qed.

Lemma pc_ok_ext h h' p : ext h h' -> pc_ok h p -> pc_ok h' p.
Proof.
  intros E. destruct p; simpl; auto.
  all: try (intros H; eapply lt_key_ext; eassumption).
  all: try (intros H; eapply valid_ext; eassumption).
  all: try (intros [A B]; split; eapply valid_ext; eassumption).
  all: try (intros [A B]; split; [eapply lt_key_ext; eassumption|];
            first [eapply succ_ok_ext; eassumption | eapply victim_ok_ext; eassumption | idtac]).
  destruct mk; [eapply victim_ok_ext; eassumption|exact I].
Qed.

Lemma lt_key_0 h k : (1 <= length h)%nat -> lt_key h 0 k.
Proof. intros L. split; [exact L|congruence]. Qed.

Lemma acquire_some h t i h' : acquire h t i = Some h' -> h' = setn h i (set_lock (Some t)).
Proof. unfold acquire. destruct (lock (get h i)); congruence. Qed.

(* ---------- one action keeps everything ---------- *)
Lemma action_ok h t p : (1 <= length h)%nat -> ord h -> pc_ok h p ->
  ext h (fst (action h t p)) /\ ord (fst (action h t p)) /\ pc_ok (fst (action h t p)) (snd (action h t p)).
Proof.
  intros L O P.
  assert (SAME : forall q, pc_ok h q -> ext h h /\ ord h /\ pc_ok h q) by (intros; auto using ext_refl).
  assert (FLAG : forall i f q, (forall n, key (f n) = key n) -> (forall n, next (f n) = next n) -> pc_ok h q ->
             ext h (setn h i f) /\ ord (setn h i f) /\ pc_ok (setn h i f) q).
  { intros i f q Hk Hn Q. split; [now apply ext_setn|split; [now apply ord_setn_flags|]].
    eapply pc_ok_ext; [apply ext_setn; exact Hk|exact Q]. }
  destruct p; cbn [action fst snd].
  - now apply SAME.
  - now apply SAME.
  - (* AFind *) simpl in P. destruct P as [V K].
    destruct (next (get h pred)) as [c|] eqn:En; cbn [fst snd].
    + destruct (O pred c V En) as (A & B & C).
      destruct (key (get h c) <? k) eqn:E1; cbn [fst snd].
      * apply SAME. simpl. split; [exact B|]. intros _. now apply Z.ltb_lt.
      * destruct (key (get h c) =? k) eqn:E2.
        -- destruct (marked (get h c)); [apply SAME; simpl; now apply lt_key_0|].
           destruct (linked (get h c)); apply SAME; simpl; auto. split; assumption.
        -- apply SAME. simpl. split; [split; assumption|]. split; [exact A|split; [exact B|]].
           apply Z.ltb_ge in E1. apply Z.eqb_neq in E2. lia.
    + apply SAME. simpl. split; [split; assumption|exact I].
  - (* ALock *) destruct (acquire h t pred) as [h'|] eqn:Ea; cbn [fst snd]; [|now apply SAME].
    apply acquire_some in Ea. subst h'. apply FLAG; auto.
  - (* AValid *)
    match goal with |- context [if ?b then _ else _] => destruct b end; apply SAME; simpl in *; unfold lt_key, victim_ok in *; tauto.
  - (* ALink *) simpl in P. destruct P as [[V K] S].
    set (nn := {| key := k; next := succ; marked := false; linked := false; lock := None |}).
    assert (E1 : ext h (h ++ [nn])) by apply ext_app.
    assert (O1 : ord (h ++ [nn])).
    { apply ord_app; [exact O|]. simpl. destruct succ as [m|]; [|exact I]. exact S. }
    assert (V1 : valid (h ++ [nn]) pred) by (eapply valid_ext; eauto).
    assert (Vn : valid (h ++ [nn]) (length h)) by (unfold valid; rewrite app_length; simpl; lia).
    split; [|split].
    + eapply ext_trans; [exact E1|]. now apply ext_setn.
    + apply ord_set_next; [exact O1|exact V1|]. simpl. split; [lia|split; [exact Vn|]].
      intros N. rewrite get_app_new, get_app_old by exact V. simpl. now apply K.
    + simpl. unfold valid. rewrite setn_length. split; [exact V1|exact Vn].
  - (* AFull *) apply FLAG; auto. simpl in *. unfold lt_key, victim_ok in *. tauto.
  - (* AUnlock *)
    destruct res; (apply FLAG; [auto|auto|]); simpl; auto. now apply lt_key_0.
  - (* RFind *) simpl in P. destruct P as [[V K] M].
    assert (MISS : let miss := match mk with Some v => (h, RFind k 0 mk) | None => (h, Done false) end in
                   ext h (fst miss) /\ ord (fst miss) /\ pc_ok (fst miss) (snd miss)).
    { destruct mk; cbn [fst snd]; apply SAME; simpl; auto. split; [now apply lt_key_0|exact M]. }
    destruct (next (get h pred)) as [c|] eqn:En; [|exact MISS].
    destruct (O pred c V En) as (A & B & C).
    destruct (key (get h c) <? k) eqn:E1; cbn [fst snd].
    + apply SAME. simpl. split; [|exact M]. split; [exact B|]. intros _. now apply Z.ltb_lt.
    + destruct (key (get h c) =? k) eqn:E2; [|exact MISS]. apply Z.eqb_eq in E2.
      destruct mk as [v|].
      * destruct (Nat.eqb c v); apply SAME; simpl.
        -- split; [split; assumption|exact M].
        -- split; [now apply lt_key_0|exact M].
      * apply SAME. simpl. split; [split; assumption|]. split; [exact A|split; [exact B|exact E2]].
  - (* RCheck *) match goal with |- context [if ?b then _ else _] => destruct b end; apply SAME; simpl in *; unfold lt_key, victim_ok in *; tauto.
  - (* RLockV *) destruct (acquire h t v) as [h'|] eqn:Ea; cbn [fst snd]; [|now apply SAME].
    apply acquire_some in Ea. subst h'. apply FLAG; auto.
  - (* RMark *) destruct (marked (get h v)); cbn [fst snd]; [apply SAME; simpl in *; unfold lt_key, victim_ok in *; tauto|apply FLAG; auto].
  - (* RLockP *) destruct (acquire h t pred) as [h'|] eqn:Ea; cbn [fst snd]; [|now apply SAME].
    apply acquire_some in Ea. subst h'. apply FLAG; auto.
  - (* RValid *) match goal with |- context [if ?b then _ else _] => destruct b end; apply SAME; simpl in *; unfold lt_key, victim_ok in *; tauto.
  - (* RUnlink *) simpl in P. destruct P as [[V K] (A & B & C)].
    split; [now apply ext_setn|split].
    + apply ord_set_next; [exact O|exact V|]. unfold target_ok.
      destruct (next (get h v)) as [m|] eqn:En; [|exact I].
      destruct (O v m B En) as (A1 & B1 & C1). split; [exact A1|split; [exact B1|]].
      intros N. specialize (K N). assert (Hv : v <> 0%nat) by lia. specialize (C1 Hv). lia.
    + eapply (pc_ok_ext h); [now apply ext_setn|]. simpl. split; [split; assumption|split; [exact A|split; assumption]].
  - (* RUnlockV *) apply FLAG; auto.
  - (* RUnlockP *) destruct ok; (apply FLAG; [auto|auto|]); simpl in *; auto.
    split; [now apply lt_key_0|tauto].
  - (* RGiveUp *) apply FLAG; auto. simpl. exact I.
  - (* CFind *) simpl in P. destruct P as [V K].
    destruct (next (get h pred)) as [c|] eqn:En; cbn [fst snd]; [|apply SAME; exact I].
    destruct (O pred c V En) as (A & B & C).
    destruct (key (get h c) <? k) eqn:E1; cbn [fst snd].
    + apply SAME. simpl. split; [exact B|]. intros _. now apply Z.ltb_lt.
    + destruct (key (get h c) =? k); apply SAME; exact I.
Qed.

(* ---------- the global invariant over every schedule ---------- *)
Record LInv (s : state) : Prop := {
  linv_hdr : (1 <= length (hp s))%nat;
  linv_ord : ord (hp s);
  linv_pcs : Forall (fun th => pc_ok (hp s) (at_pc th)) (ths s) }.

Lemma start_ok h o : (1 <= length h)%nat -> pc_ok h (start o).
Proof. intros L. destruct o; simpl; auto using lt_key_0. Qed.

Lemma thr_step_ok h t th : (1 <= length h)%nat -> ord h -> pc_ok h (at_pc th) ->
  ext h (fst (thr_step h t th)) /\ ord (fst (thr_step h t th)) /\
  pc_ok (fst (thr_step h t th)) (at_pc (snd (thr_step h t th))).
Proof.
  intros L O P. unfold thr_step.
  assert (IDLE : ext h (fst (match todo th with
                              | [] => (h, {| todo := []; at_pc := Idle |})
                              | o :: rest => (h, {| todo := rest; at_pc := start o |}) end)) /\
                 ord (fst (match todo th with
                              | [] => (h, {| todo := []; at_pc := Idle |})
                              | o :: rest => (h, {| todo := rest; at_pc := start o |}) end)) /\
                 pc_ok (fst (match todo th with
                              | [] => (h, {| todo := []; at_pc := Idle |})
                              | o :: rest => (h, {| todo := rest; at_pc := start o |}) end))
                       (at_pc (snd (match todo th with
                              | [] => (h, {| todo := []; at_pc := Idle |})
                              | o :: rest => (h, {| todo := rest; at_pc := start o |}) end)))).
  { destruct (todo th); cbn [fst snd at_pc].
    - split; [apply ext_refl|split; [exact O|exact I]].
    - split; [apply ext_refl|split; [exact O|now apply start_ok]]. }
  pose proof (action_ok h t (at_pc th) L O P) as A.
  destruct (at_pc th) eqn:Ep; try exact IDLE;
    destruct (action h t _) as [h' p'] eqn:Ea; cbn [fst snd at_pc] in *; exact A.
Qed.

Lemma Forall_upd {A} (P : A -> Prop) l i x : Forall P l -> P x -> Forall P (upd l i x).
Proof.
  revert i. induction l as [|a l IH]; intros [|i] F Px; simpl; auto; inversion F; subst; constructor; auto.
Qed.

Lemma step_inv s t : LInv s -> LInv (step s t).
Proof.
  intros [L O P]. unfold step. destruct (nth_error (ths s) t) as [th|] eqn:E; [|split; assumption].
  assert (Pt : pc_ok (hp s) (at_pc th)).
  { rewrite Forall_forall in P. apply P. eapply nth_error_In; eauto. }
  destruct (thr_step_ok (hp s) t th L O Pt) as (X & O' & P').
  destruct (thr_step (hp s) t th) as [h' th']. cbn [fst snd] in *. split; cbn [hp ths].
  - destruct X as [X _]. lia.
  - exact O'.
  - apply Forall_upd; [|exact P']. eapply Forall_impl; [|exact P]. intros a. now apply pc_ok_ext.
Qed.

Lemma init_inv progs : LInv (init progs).
Proof.
  split; cbn [hp ths init].
  - simpl. lia.
  - intros i m V E. unfold valid in V. simpl in V. assert (i = 0%nat) by lia. subst. discriminate.
  - apply Forall_forall. intros th Hin. apply in_map_iff in Hin as (p & <- & _). exact I.
Qed.

Theorem lazy_inv progs sched : LInv (run_sched (init progs) sched).
Proof.
  unfold run_sched. generalize (init_inv progs). generalize (init progs).
  induction sched as [|t sched IH]; intros s I0; [exact I0|]. simpl. apply IH. now apply step_inv.
Qed.

(* consequence: the chain reachable from the header is strictly ascending *)
Lemma chain_asc fuel h i : ord h -> valid h i -> (1 <= i)%nat ->
  asc_from (key (get h i)) (chain fuel h (next (get h i))).
Proof.
  revert i. induction fuel as [|f IH]; intros i O V Hi; [exact I|].
  destruct (next (get h i)) as [m|] eqn:E; simpl; [|exact I].
  destruct (O i m V E) as (A & B & C). split; [apply C; lia|]. now apply IH.
Qed.

Theorem lazy_chain_sorted progs sched fuel :
  let h := hp (run_sched (init progs) sched) in asc (chain fuel h (next (get h 0))).
Proof.
  cbv zeta. destruct (lazy_inv progs sched) as [L O _]. set (h := hp (run_sched (init progs) sched)) in *.
  destruct fuel as [|f]; [exists 0; exact I|].
  destruct (next (get h 0)) as [m|] eqn:E; [|exists 0; simpl; exact I].
  destruct (O 0%nat m L E) as (A & B & _). exists (key (get h m) - 1). simpl. split; [lia|].
  now apply chain_asc.
Qed.

(* strictly ascending lists have no duplicates: at most one node per key on the chain *)
Lemma asc_from_NoDup lo l : asc_from lo l -> NoDup l.
Proof.
  revert lo. induction l as [|x t IH]; intros lo H; constructor.
  - simpl in H. destruct H as [_ H]. intros Hin. pose proof (asc_lb _ _ _ H Hin). lia.
  - simpl in H. destruct H as [_ H]. eapply IH; eauto.
Qed.

Theorem lazy_chain_nodup progs sched fuel :
  let h := hp (run_sched (init progs) sched) in NoDup (chain fuel h (next (get h 0))).
Proof. cbv zeta. destruct (lazy_chain_sorted progs sched fuel) as [lo H]. eapply asc_from_NoDup; eauto. Qed.

(* ---------- the abstract set changes only at the two linearization steps ---------- *)
Definition nsig (n : nd) : Z * bool := (key n, live n).

Lemma abs_sig_list a b : map nsig a = map nsig b -> map key (filter live a) = map key (filter live b).
Proof.
  revert b. induction a as [|x a IH]; intros [|y b] E; simpl in *; try discriminate; [reflexivity|].
  inversion E as [[E1 E2 E3]]. rewrite E2. destruct (live y); simpl; [f_equal; [exact E1|]|]; now apply IH.
Qed.

Lemma abs_sig h h' : map nsig h = map nsig h' -> abs h = abs h'.
Proof.
  intros E. unfold abs. apply abs_sig_list. destruct h, h'; simpl in *; try discriminate; [reflexivity|].
  now inversion E.
Qed.

Lemma map_upd {A B} (f : A -> B) l i x : map f (upd l i x) = upd (map f l) i (f x).
Proof. revert i. induction l as [|a l IH]; intros [|i]; simpl; auto. now rewrite IH. Qed.

Lemma upd_nth_same {A} (l : list A) i d : upd l i (nth i l d) = l.
Proof. revert i. induction l as [|a l IH]; intros [|i]; simpl; auto. now rewrite IH. Qed.

Lemma abs_setn h i f : (forall n, nsig (f n) = nsig n) -> abs (setn h i f) = abs h.
Proof.
  intros Hf. apply abs_sig. unfold setn. destruct (nth_error h i) as [n|] eqn:E; [|reflexivity].
  rewrite map_upd, Hf. destruct (nth_error_get _ _ _ E) as [-> V].
  assert (Es : nsig (get h i) = nth i (map nsig h) (nsig (get h (length h)))).
  { unfold get at 1. rewrite <- (map_nth nsig). apply nth_indep. now rewrite map_length. }
  rewrite Es. apply upd_nth_same.
Qed.

Lemma abs_app h n : (1 <= length h)%nat -> live n = false -> abs (h ++ [n]) = abs h.
Proof.
  intros L E. unfold abs. destruct h as [|x h]; [simpl in L; lia|]. simpl.
  rewrite filter_app. simpl. rewrite E. now rewrite app_nil_r.
Qed.

Definition lin_step (h : heap) (p : pc) : Prop :=
  (exists k pred nn, p = AFull k pred nn) \/ (exists k pred v, p = RMark k pred v /\ marked (get h v) = false).

Lemma action_abs h t p : (1 <= length h)%nat -> ~ lin_step h p -> abs (fst (action h t p)) = abs h.
Proof.
  intros L N.
  assert (LOCK : forall i x, abs (setn h i (set_lock x)) = abs h) by (intros; now apply abs_setn).
  assert (ACQ : forall i h', acquire h t i = Some h' -> abs h' = abs h).
  { intros i h' E. apply acquire_some in E. subst. apply LOCK. }
  destruct p; cbn [action].
  all: repeat match goal with
              | |- context [match acquire ?hh ?tt ?i with Some _ => _ | None => _ end] =>
                  let E := fresh "E" in destruct (acquire hh tt i) eqn:E
              | |- context [match next ?x with Some _ => _ | None => _ end] => destruct (next x)
              | |- context [match ?m with Some _ => _ | None => _ end] => destruct m
              | |- context [if ?b then _ else _] => destruct b eqn:?
              end; cbn [fst snd]; try reflexivity; eauto.
  - (* ALink *) rewrite abs_setn by reflexivity. now apply abs_app.
  - (* AFull *) exfalso. apply N. left. eauto.
  - (* RMark, unmarked *) exfalso. apply N. right. eauto 6.
  - (* RUnlink *) now apply abs_setn.
Qed.

Theorem lazy_abs_frame s t : LInv s -> abs (hp (step s t)) <> abs (hp s) ->
  exists th, nth_error (ths s) t = Some th /\ lin_step (hp s) (at_pc th).
Proof.
  intros [L _ _] D. unfold step in D. destruct (nth_error (ths s) t) as [th|] eqn:E; [|congruence].
  exists th. split; [reflexivity|].
  destruct (thr_step (hp s) t th) as [h' th'] eqn:Et. cbn [hp] in D.
  assert (Hd : forall p, at_pc th = p -> ~ lin_step (hp s) p -> False).
  { intros p Ep Np. apply D. unfold thr_step in Et. rewrite Ep in Et.
    pose proof (action_abs (hp s) t p L Np) as A.
    destruct p; try (destruct (todo th); inversion Et; subst; reflexivity);
      destruct (action (hp s) t _) as [h1 p1]; inversion Et; subst; exact A. }
  destruct (at_pc th) eqn:Ep;
    try (exfalso; eapply Hd; [reflexivity|]; intros [(k0 & p0 & n0 & X)|(k0 & p0 & v0 & X & _)]; discriminate).
  - left. eauto.
  - destruct (marked (get (hp s) v)) eqn:Em.
    + exfalso. eapply Hd; [reflexivity|]. intros [(k0 & p0 & n0 & X)|(k0 & p0 & v0 & X & Y)]; [discriminate|].
      inversion X; subst. congruence.
    + right. eauto 6.
Qed.
