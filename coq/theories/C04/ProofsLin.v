(* C04: the generic verified linearizability checker of Common/Hist.v instantiated with the
   finite-map and finite-set specifications (discharging the boolean-equality premises). *)
From VF Require Import Common.Base Common.Hist C04.Spec C04.Model C04.Check.
Local Open Scope Z_scope.

Lemma pairZ_eqb_spec a b : pairZ_eqb a b = true <-> a = b.
Proof.
  destruct a as [a1 a2], b as [b1 b2]. unfold pairZ_eqb. simpl. rewrite andb_true_iff, !Z.eqb_eq.
  split; [intros [-> ->]; reflexivity|intros E; inversion E; auto].
Qed.

Lemma zn_eqb_spec a b : zn_eqb a b = true <-> a = b.
Proof.
  destruct a as [a1 a2], b as [b1 b2]. unfold zn_eqb. simpl. rewrite andb_true_iff, Z.eqb_eq, Nat.eqb_eq.
  split; [intros [-> ->]; reflexivity|intros E; inversion E; auto].
Qed.

Lemma zlist_eqb_spec a b : list_eqb Z.eqb a b = true <-> a = b.
Proof. apply list_eqb_eq. intros; apply Z.eqb_eq. Qed.

Lemma fmap_eqb_spec a b : fmap_eqb a b = true <-> a = b.
Proof. apply list_eqb_eq. exact pairZ_eqb_spec. Qed.

Lemma fset_eqb_spec a b : fset_eqb a b = true <-> a = b.
Proof. exact (zlist_eqb_spec a b). Qed.

Lemma beqb_spec a b : Bool.eqb a b = true <-> a = b.
Proof. apply Bool.eqb_true_iff. Qed.

Lemma mres_eqb_spec a b : mres_eqb a b = true <-> a = b.
Proof.
  destruct a, b; simpl; try (split; [discriminate|intros E; discriminate E]);
    rewrite ?andb_true_iff, ?Z.eqb_eq, ?beqb_spec, ?Nat.eqb_eq, ?zlist_eqb_spec; try tauto.
  - split; [intros [-> ->]; reflexivity|intros E; inversion E; auto].
  - split; [intros [-> ->]; reflexivity|intros E; inversion E; auto].
  - split; [intros [[-> ->] ->]; reflexivity|intros E; inversion E; auto].
  - split; [intros ->; reflexivity|intros E; inversion E; auto].
  - change (list_eqb pairZ_eqb l l0) with (fmap_eqb l l0). rewrite fmap_eqb_spec.
    split; [intros ->; reflexivity|intros E; inversion E; auto].
  - split; [intros ->; reflexivity|intros E; inversion E; auto].
  - split; [intros ->; reflexivity|intros E; inversion E; auto].
Qed.

Lemma mop_eqb_spec a b : mop_eqb a b = true <-> a = b.
Proof.
  destruct a, b; simpl; try (split; [discriminate|intros E; discriminate E]);
    rewrite ?andb_true_iff, ?Z.eqb_eq, ?Nat.eqb_eq;
    try tauto;
    try (split; [intros [[-> ->] ->]; reflexivity|intros E; inversion E; auto]);
    try (split; [intros ->; reflexivity|intros E; inversion E; auto]).
Qed.

Lemma sop_eqb_spec a b : sop_eqb a b = true <-> a = b.
Proof.
  destruct a, b; simpl; try (split; [discriminate|intros E; discriminate E]);
    rewrite ?andb_true_iff, ?Z.eqb_eq, ?Nat.eqb_eq, ?zlist_eqb_spec;
    try tauto;
    try (split; [intros [-> ->]; reflexivity|intros E; inversion E; auto]);
    try (split; [intros ->; reflexivity|intros E; inversion E; auto]).
  rewrite (list_eqb_eq zn_eqb zn_eqb_spec). split; [intros ->; reflexivity|intros E; inversion E; auto].
Qed.

Lemma map_lin_check_correct s h :
  map_lin_check s h = true <-> linearizable fmap mop mres fmap_step s h.
Proof. apply lin_check_correct; [exact mres_eqb_spec|exact mop_eqb_spec|exact fmap_eqb_spec]. Qed.

Lemma set_lin_check_correct s h :
  set_lin_check s h = true <-> linearizable fset sop mres fset_step s h.
Proof. apply lin_check_correct; [exact mres_eqb_spec|exact sop_eqb_spec|exact fset_eqb_spec]. Qed.

(* the per-call judgement of the lazy-constructor clause *)
Definition LazyCallOK (c : lazy_call) : Prop :=
  (lz_calls c <= 1)%nat /\
  (lz_loaded c = false -> lz_calls c = 1%nat /\ lz_actual c = lz_v c) /\
  (lz_loaded c = true -> lz_calls c = 0%nat).

Lemma lazy_call_ok_b_spec c : lazy_call_ok_b c = true <-> LazyCallOK c.
Proof.
  unfold lazy_call_ok_b, LazyCallOK. destruct (lz_loaded c).
  - rewrite Nat.eqb_eq. split; [intros ->; repeat split; auto; discriminate|intros (_ & _ & H); auto].
  - rewrite andb_true_iff, Nat.eqb_eq, Z.eqb_eq. split.
    + intros [-> ->]. repeat split; auto; discriminate.
    + intros (_ & H & _). destruct (H eq_refl). auto.
Qed.

Lemma lazy_calls_ok_spec l : forallb lazy_call_ok_b l = true <-> Forall LazyCallOK l.
Proof.
  rewrite forallb_forall, Forall_forall. split; intros H c Hc; apply lazy_call_ok_b_spec; auto.
Qed.
