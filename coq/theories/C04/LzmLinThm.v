(* C04 protocol model WITH VALUES (LazyMap.v, repaired code): the history of every complete execution of
   Store / Load / LoadAndDelete / LoadOrStore / LoadOrStoreLazy / Delete, for ALL programs and ALL schedules, is
   linearizable with respect to the map
   specification (Spec.fmap_step), in the sense of Common/Hist.v; the final specification state is the abstract
   map of the final heap. *)
From VF Require Import Common.Base Common.Hist C04.Spec C04.LazyMap C04.ProofsLazyMap C04.LzmReach C04.LzmLock C04.LzmAbs
  C04.LzmHist C04.LzmTrace C04.LinPoints C04.LzmLinz.
From VF Require C04.Proofs C04.Check.
From Coq Require Import Nnat.
Local Open Scope Z_scope.

Lemma flat_lpl_none l : (forall t, nth t l None = None) -> flat_map lpl l = [].
Proof.
  induction l as [|c l IH]; intros X; [reflexivity|]. simpl. pose proof (X 0%nat) as X0. simpl in X0. subst c.
  simpl. apply IH. intros t. exact (X (Datatypes.S t)).
Qed.

Lemma quiescent_spec s : quiescent s = true -> forall th, In th (ths s) -> resting (at_pc th) = true.
Proof.
  unfold quiescent. rewrite forallb_forall. intros X th Hin. specialize (X th Hin).
  apply andb_true_iff in X. tauto.
Qed.

Lemma mpt_in e m : In m (mpt e) <-> e_pt e = (2 * m + 1)%nat.
Proof.
  unfold mpt. destruct (Nat.odd (e_pt e)) eqn:O.
  - cbn [In]. split.
    + intros [<-|[]]. apply Nat.odd_spec in O. destruct O as [q Eq]. rewrite Eq, div2_2m1. reflexivity.
    + intros E. left. rewrite E. apply div2_2m1.
  - cbn [In]. split; [tauto|]. intros E. rewrite E, odd_2m1 in O. discriminate.
Qed.

Lemma block_none (l : list entry) m : ~ In m (flat_map mpt l) -> block entry e_pt l (2 * m + 1) = [].
Proof.
  intros X. unfold block. destruct (filter _ l) as [|b r] eqn:F; [reflexivity|]. exfalso.
  assert (Hb : In b (filter (fun e0 => Nat.eqb (e_pt e0) (2 * m + 1)) l)) by (rewrite F; now left).
  apply filter_In in Hb as [Hb Eb]. apply Nat.eqb_eq in Eb. apply X. apply in_flat_map. exists b. split; [exact Hb|now apply mpt_in].
Qed.

Lemma block_unique (l : list entry) e m : NoDup (flat_map mpt l) -> In e l -> e_pt e = (2 * m + 1)%nat ->
  block entry e_pt l (2 * m + 1) = [e].
Proof.
  induction l as [|a l IH]; intros ND Hin Ept; [destruct Hin|]. cbn [flat_map] in ND. unfold block in *. cbn [filter].
  pose proof (block_none l m) as NOTIN. unfold block in NOTIN.
  destruct (Nat.eqb_spec (e_pt a) (2 * m + 1)) as [Ea|Na].
  - assert (Ma : mpt a = [m]).
    { unfold mpt. rewrite Ea, odd_2m1, div2_2m1. reflexivity. }
    rewrite Ma in ND. cbn [app] in ND. inversion ND as [|x r Nx NDr]; subst.
    rewrite (NOTIN Nx). destruct Hin as [->|Hin]; [reflexivity|].
    exfalso. apply Nx. apply in_flat_map. exists e. split; [exact Hin|now apply mpt_in].
  - destruct Hin as [->|Hin]; [congruence|]. apply IH; auto.
    clear - ND. induction (mpt a) as [|x r IHr]; [exact ND|]. cbn [app] in ND. inversion ND. auto.
Qed.

Section Final.
Variable progs : list (list opk).
Variable sched : list nat.
Notation ST := (st progs sched).
Notation GR := (gr progs sched).
Let N := length sched.

(* the specification state S describes moment m *)
Definition Rel (S : fmap) (m : nat) : Prop := forall k v, fm_get k S = Some v <-> In (k, v) (absmap (hp (ST m))).

Lemma gr_full : GR N = grun progs sched.
Proof. unfold gr, N. now rewrite firstn_all. Qed.

Lemma rel_put S m k v : Rel S m ->
  (forall k' v', In (k', v') (absmap (hp (ST (Datatypes.S m)))) <->
                 (k' = k /\ v' = v) \/ (k' <> k /\ In (k', v') (absmap (hp (ST m))))) ->
  Rel (fm_put k v S) (Datatypes.S m).
Proof.
  intros RS EF k' v'. rewrite EF. destruct (Z.eq_dec k' k) as [->|Nk].
  - rewrite C04.Proofs.fm_get_put_same. split.
    + intros X. inversion X. now left.
    + intros [[_ ->]|[X _]]; [reflexivity|congruence].
  - rewrite C04.Proofs.fm_get_put_other by exact Nk. rewrite (RS k' v'). split.
    + intros X. right. now split.
    + intros [[X _]|[_ X]]; [congruence|exact X].
Qed.

Lemma rel_del S m k : Rel S m ->
  (forall k' v', In (k', v') (absmap (hp (ST (Datatypes.S m)))) <-> k' <> k /\ In (k', v') (absmap (hp (ST m)))) ->
  Rel (fm_del k S) (Datatypes.S m).
Proof.
  intros RS EF k' v'. rewrite EF. destruct (Z.eq_dec k' k) as [->|Nk].
  - rewrite C04.Proofs.fm_get_del_same. split; [discriminate|]. intros [X _]. congruence.
  - rewrite C04.Proofs.fm_get_del_other by exact Nk. rewrite (RS k' v'). tauto.
Qed.

Lemma rel_absent S m k : Rel S m -> absentk k (hp (ST m)) -> fm_get k S = None.
Proof.
  intros RS A. destruct (fm_get k S) as [x|] eqn:G; [|reflexivity]. apply RS in G. exfalso. exact (A x G).
Qed.

Theorem lazymap_lin_to_core : quiescent (run true progs sched) = true ->
  exists m', lin_to fmap mop mres fmap_step [] (history true progs sched) m' /\
             forall k v, fm_get k m' = Some v <-> In (k, v) (absmap (hp (run true progs sched))).
Proof.
  intros QP. pose proof (ti_all progs sched N (le_n _)) as TIN. destruct TIN as [TL TT TLG TP TCL TCN TCF].
  assert (STN : ST N = run true progs sched) by (unfold st; rewrite gr_full; apply grun_state).
  (* nothing is pending *)
  assert (CUR : flat_map lpl (g_cur (GR N)) = []).
  { apply flat_lpl_none. intros t. destruct (nth_error (ths (ST N)) t) as [th|] eqn:E.
    - specialize (TT t th E). destruct (nth t (g_cur (GR N)) None) as [pd|]; [|reflexivity].
      destruct TT as [Bz _]. rewrite STN in E. apply nth_error_In in E.
      rewrite (quiescent_spec _ QP th E) in Bz. discriminate.
    - apply nth_overflow. rewrite TL. now apply nth_error_None. }
  rewrite CUR, app_nil_r in TP.
  assert (ND : NoDup (flat_map mpt (g_log (GR N)))) by (eapply Permutation_NoDup; [symmetry; exact TP|exact TCN]).
  destruct (points_linearizable fmap mop mres entry fmap_step e_op e_pt Rel (g_log (GR N)) N) with (s0 := @nil (Z * Z))
    as (S' & LT & RS').
  - (* inside the interval *)
    intros e He. destruct (TLG e He) as (a & b & o & calls & v & ok & Eo & CK & L & X). unfold inside. rewrite Eo. cbn [inv resp].
    rewrite !Nat2N.id. destruct X as [(m & Ep & Lm & _)|(m & t & w & Ep & Lm & _)]; rewrite Ep; lia.
  - intros e He. destruct (TLG e He) as (a & b & o & calls & v & ok & Eo & CK & L & X).
    destruct X as [(m & Ep & Lm & _)|(m & t & w & Ep & Lm & _)]; rewrite Ep; lia.
  - (* observers *)
    intros e m He Ept. destruct (TLG e He) as (a & b & o & calls & v & ok & Eo & CK & L & X).
    destruct X as [(m1 & Ep & Lm & F)|(m1 & t & w & Ep & _)]; [|lia]. assert (m1 = m) by lia. subst m1.
    intros S RS. rewrite Eo. cbn [call ret].
    destruct o as [k v0|k|k|k v0|k v0|k]; cbn [obsfact] in F; [contradiction| | | | |]; cbn [call_of ret_of fmap_step calls_ok] in *.
    + destruct ok.
      * apply RS in F. now rewrite F.
      * destruct F as [-> A]. now rewrite (rel_absent S m k RS A).
    + destruct F as (-> & -> & A). now rewrite (rel_absent S m k RS A).
    + destruct F as (-> & F). apply RS in F. now rewrite F.
    + destruct F as (-> & F). apply RS in F. rewrite F. now subst calls.
    + destruct F as (-> & A). now rewrite (rel_absent S m k RS A).
  - (* mutators *)
    intros m Lm. destruct (in_dec Nat.eq_dec m (g_chg (GR N))) as [Hin|Hout].
    + right. assert (Hm : In m (flat_map mpt (g_log (GR N)))) by (eapply Permutation_in; [symmetry; exact TP|exact Hin]).
      apply in_flat_map in Hm as (e & He & Me). apply mpt_in in Me. exists e.
      split; [now apply block_unique|].
      destruct (TLG e He) as (a & b & o & calls & v & ok & Eo & CK & L & X).
      destruct X as [(m1 & Ep & _)|(m1 & t & w & Ep & Lm1 & LS & MR)]; [lia|]. assert (m1 = m) by lia. subst m1.
      destruct LS as (Lms & Et & LS). intros S RS. rewrite Eo. cbn [call ret].
      assert (SS : ST (Datatypes.S m) = step true (ST m) t) by (rewrite <- Et; now apply st_S).
      pose proof (st_inv progs sched m) as J1. pose proof (st_invR progs sched m) as JR. pose proof (st_inv3 progs sched m) as J3.
      assert (DEL : forall k pred x, nth_error (ths (ST m)) t <> None -> pc_of (ST m) t = RMark k pred x ->
                mkd (hp (ST m)) x = false ->
                exists y, fm_get k S = Some y /\ y = vl (hp (ST m)) x /\ Rel (fm_del k S) (Datatypes.S m)).
      { intros k pred x _ Ep' Mx. unfold pc_of in Ep'.
        destruct (nth_error (ths (ST m)) t) as [th|] eqn:E; [|discriminate].
        destruct (mark_effect (ST m) J1 JR J3 t th k pred x E Ep' Mx) as (A1 & _ & _ & A2).
        apply RS in A1. eexists. split; [exact A1|split; [reflexivity|]]. apply rel_del; [exact RS|]. now rewrite SS. }
      assert (INS : forall k v0 lz n0 pred nn, pc_of (ST m) t = OFull k v0 lz n0 pred nn ->
                fm_get k S = None /\ Rel (fm_put k v0 S) (Datatypes.S m)).
      { intros k v0 lz n0 pred nn Ep'. unfold pc_of in Ep'.
        destruct (nth_error (ths (ST m)) t) as [th|] eqn:E; [|discriminate].
        destruct (ofull_effect (ST m) J1 JR J3 t th k v0 lz n0 pred nn E Ep') as (A1 & A2).
        split; [exact (rel_absent S m k RS A1)|]. apply rel_put; [exact RS|]. now rewrite SS. }
      assert (NN : forall p, pc_of (ST m) t = p -> p <> Idle -> nth_error (ths (ST m)) t <> None).
      { intros p Ep' Np X. unfold pc_of in Ep'. rewrite X in Ep'. congruence. }
      destruct o as [k v0|k|k|k v0|k v0|k]; [| contradiction | | | |]; cbn [call_of ret_of fmap_step calls_ok mutres] in *.
      * exists (fm_put k v0 S). split; [reflexivity|]. apply rel_put; [exact RS|]. rewrite SS.
        destruct LS as [(pred & nn & Ep')|(c & Ep')]; unfold pc_of in Ep';
          destruct (nth_error (ths (ST m)) t) as [th|] eqn:E; try discriminate.
        -- exact (proj2 (full_effect (ST m) J1 JR J3 t th k v0 pred nn E Ep')).
        -- exact (write_effect (ST m) J1 JR J3 t th k v0 c E Ep').
      * destruct LS as (pred & x & Ep' & Mx & Ew). destruct MR as (-> & x0 & Ew0 & ->).
        rewrite Ew in Ew0. inversion Ew0; subst x0.
        destruct (DEL k pred x (NN _ Ep' ltac:(discriminate)) Ep' Mx) as (y & A1 & -> & A2).
        rewrite A1. exists (fm_del k S). split; [reflexivity|exact A2].
      * destruct LS as (n0 & pred & nn & Ep'). destruct MR as (-> & ->).
        destruct (INS _ _ _ _ _ _ Ep') as [A1 A2]. rewrite A1. exists (fm_put k v0 S). split; [reflexivity|exact A2].
      * destruct LS as (n0 & pred & nn & Ep'). destruct MR as (-> & ->). subst calls.
        destruct (INS _ _ _ _ _ _ Ep') as [A1 A2]. rewrite A1. exists (fm_put k v0 S). split; [reflexivity|exact A2].
      * destruct LS as (pred & x & Ep' & Mx & Ew). subst ok.
        destruct (DEL k pred x (NN _ Ep' ltac:(discriminate)) Ep' Mx) as (y & A1 & _ & A2).
        rewrite A1. exists (fm_del k S). split; [reflexivity|exact A2].
    + left. split.
      * apply block_none. intros Hm. apply Hout. eapply Permutation_in; [exact TP|exact Hm].
      * intros S RS k v. rewrite (TCF m Lm Hout). apply RS.
  - intros k v. unfold st. cbn. split; [discriminate|intros []].
  - exists S'. split.
    + rewrite <- grun_history, <- gr_full. exact LT.
    + intros k v. rewrite <- STN. apply RS'.
Qed.
End Final.

(* the specification state keeps strictly ascending keys, so membership is lookup *)
Lemma asc_put k v (m : fmap) : C04.Proofs.asc (map fst m) -> C04.Proofs.asc (map fst (fm_put k v m)).
Proof.
  intros A. destruct (C04.Proofs.asc_lower _ k A) as (lo & H1 & H2). exists lo. now apply C04.Proofs.fm_put_keys.
Qed.

Lemma asc_del k (m : fmap) : C04.Proofs.asc (map fst m) -> C04.Proofs.asc (map fst (fm_del k m)).
Proof. intros [lo A]. exists lo. now apply C04.Proofs.fm_del_keys. Qed.

Lemma fmap_step_asc (s : fmap) o : C04.Proofs.asc (map fst s) -> C04.Proofs.asc (map fst (fst (fmap_step s o))).
Proof.
  intros A. destruct o; cbn [fmap_step]; try destruct (fm_get _ _); cbn [fst]; auto using asc_put, asc_del.
  exists 0. exact I.
Qed.

Lemma seq_to_asc l : forall s s', C04.Proofs.asc (map fst s) -> seq_to fmap mop mres fmap_step s l s' ->
  C04.Proofs.asc (map fst s').
Proof.
  induction l as [|o l IH]; intros s s' A H; simpl in H; [now subst|].
  pose proof (fmap_step_asc s (call o) A) as A1. destruct (fmap_step s (call o)) as [s1 r]. destruct H as [_ H].
  eapply IH; eauto.
Qed.

Lemma asc_get_in (m : fmap) k v : C04.Proofs.asc (map fst m) -> (In (k, v) m <-> fm_get k m = Some v).
Proof.
  intros A. split; [|apply fm_get_in]. revert A. induction m as [|[k' v'] t IH]; intros [lo A] Hin; [destruct Hin|].
  cbn [map fst C04.Proofs.asc_from] in A. destruct A as [_ A]. destruct Hin as [X|Hin].
  - inversion X; subst. unfold fm_get. cbn [find fst]. now rewrite Z.eqb_refl.
  - assert (L : k' < k) by (apply (C04.Proofs.asc_lb k' (map fst t)); [exact A|apply (in_map fst) in Hin; exact Hin]).
    unfold fm_get. cbn [find fst]. assert (X : (k' =? k) = false) by (apply Z.eqb_neq; lia). rewrite X.
    apply IH; [now exists k'|exact Hin].
Qed.

(* ---------- the theorems ---------- *)
Theorem lazymap_lin_to progs sched :
  quiescent (run true progs sched) = true ->
  exists m', lin_to fmap mop mres fmap_step [] (history true progs sched) m' /\
             forall k v, In (k, v) m' <-> In (k, v) (absmap (hp (run true progs sched))).
Proof.
  intros QP. destruct (lazymap_lin_to_core progs sched QP) as (S' & LT & RS). exists S'. split; [exact LT|].
  intros k v. rewrite <- RS. apply asc_get_in. destruct LT as (l & _ & _ & SQ).
  apply (seq_to_asc l [] S'); [exists 0; exact I|exact SQ].
Qed.

Theorem lazymap_linearizable progs sched :
  quiescent (run true progs sched) = true ->
  linearizable fmap mop mres fmap_step [] (history true progs sched).
Proof.
  intros QP. destruct (lazymap_lin_to_core progs sched QP) as (S' & LT & _). apply linearizable_lin_to. now exists S'.
Qed.

Print Assumptions lazymap_linearizable.

(* every completed operation (complete execution or not) has its linearization point inside its interval *)
Theorem lazymap_points progs sched e :
  In e (g_log (grun progs sched)) -> entry_ok progs sched (length sched) e.
Proof.
  rewrite <- gr_full. apply (ti_log _ _ _ (ti_all progs sched (length sched) (le_n _))).
Qed.

(* non-vacuity: a complete run of three racing threads with a non-empty history *)
Example lazymap_linearizable_nonvacuous :
  quiescent (run true ex_progs ex_sched1) = true /\ length (history true ex_progs ex_sched1) = 4%nat /\
  linearizable fmap mop mres fmap_step [] (history true ex_progs ex_sched1).
Proof.
  split; [vm_compute; reflexivity|]. split; [vm_compute; reflexivity|].
  apply lazymap_linearizable. vm_compute. reflexivity.
Qed.

(* the lazy constructor runs exactly once in a LoadOrStoreLazy that stores and never in one that loads
   (directly from the linearization points; the execution need not even be complete) *)
Theorem lazymap_lazy_once_any progs sched :
  forall o, In o (history true progs sched) -> forall k v h, Hist.call o = Spec.LoadOrStoreLazy k v h ->
    exists x loaded, Hist.ret o = Spec.RLazy x loaded (if loaded then 0 else 1)%nat.
Proof.
  intros o Hin k v h Ec. rewrite <- grun_history in Hin. apply in_map_iff in Hin as (e & <- & He).
  destruct (lazymap_points progs sched e He) as (a & b & o' & calls & x & ok & Eo & CK & _).
  rewrite Eo in *. cbn [call ret] in *. destruct o'; cbn [call_of] in Ec; try discriminate.
  cbn [ret_of calls_ok] in *. exists x, ok. now subst calls.
Qed.

Theorem lazymap_lazy_once progs sched : quiescent (run true progs sched) = true ->
  forall o, In o (history true progs sched) -> forall k v h, Hist.call o = Spec.LoadOrStoreLazy k v h ->
    exists x loaded, Hist.ret o = Spec.RLazy x loaded (if loaded then 0 else 1)%nat.
Proof. intros _. apply lazymap_lazy_once_any. Qed.

(* two racing LoadOrStoreLazy on key 1 (thread 0 has found the gap when thread 1 inserts; its validation fails, it
   searches again, finds the node and loads), then LoadOrStore / Delete / Load on keys 1 and 2 *)
Definition ex2_progs : list (list opk) :=
  [[MLoadOrStoreLazy 1 10]; [MLoadOrStoreLazy 1 20]; [MLoadOrStore 1 7; MLoadOrStore 2 5]; [MDelete 1; MDelete 1];
   [MLoad 1; MLoad 2]].
Definition ex2_sched : list nat :=
  repeat 0%nat 2 ++ repeat 1%nat 9 ++ repeat 0%nat 8 ++ repeat 2%nat 20 ++ repeat 3%nat 20 ++ repeat 4%nat 12.

Example lazymap_ext_example :
  quiescent (run true ex2_progs ex2_sched) = true /\
  history true ex2_progs ex2_sched =
    [ mkop 2 9 (Spec.LoadOrStoreLazy 1 20 0) (Spec.RLazy 20 false 1);
      mkop 0 17 (Spec.LoadOrStoreLazy 1 10 0) (Spec.RLazy 20 true 0);
      mkop 19 23 (Spec.LoadOrStore 1 7 0) (Spec.RLoS 20 true);
      mkop 24 31 (Spec.LoadOrStore 2 5 0) (Spec.RLoS 5 false);
      mkop 39 49 (Spec.Delete 1) (Spec.RBool true);
      mkop 50 51 (Spec.Delete 1) (Spec.RBool false);
      mkop 59 60 (Spec.Load 1) (Spec.RGet 0 false);
      mkop 61 64 (Spec.Load 2) (Spec.RGet 5 true) ] /\
  Check.map_lin_check [] (history true ex2_progs ex2_sched) = true /\
  linearizable fmap mop mres fmap_step [] (history true ex2_progs ex2_sched) /\
  absmap (hp (run true ex2_progs ex2_sched)) = [(2, 5)].
Proof.
  split; [vm_compute; reflexivity|]. split; [vm_compute; reflexivity|]. split; [vm_compute; reflexivity|].
  split; [apply lazymap_linearizable; vm_compute; reflexivity|vm_compute; reflexivity].
Qed.

Print Assumptions lazymap_lin_to.
Print Assumptions lazymap_points.
Print Assumptions lazymap_linearizable_nonvacuous.
Print Assumptions lazymap_lazy_once.
Print Assumptions lazymap_ext_example.
